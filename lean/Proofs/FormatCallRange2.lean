import Proofs.FormatCallRange

/-!
C09, accepted texts of call statements: the RANGE of the readers of
`Martian.FormatCall2` (`pWild`, `pBinds2`, `pHead2`, `pModStm`, `pMods`, `pUsing`,
`pCall2`, `pReturn`, `pRefs`, `pPRetain`, `pCalls`, `pBody`) on tokens in the range of
the tokenizer: whatever they return satisfies `wfCall2Raw` / `wfRetRaw` /
`wfPRetainRaw` / `wfBodyRaw`, and the remaining tokens are again in `tokOK`.

What the readers do NOT guarantee (and `wfCall2` / `wfPipeline` demand): distinct
ids in the `using` block, distinct call ids in a pipeline.

Core Lean only.
-/

namespace Martian.FormatCallText
open Martian.Lexer (Bytes)
open Martian.FormatExp Martian.FormatCall Martian.FormatCall2

local macro "fix_fuel" : tactic => `(tactic| (have hfuel := Nat.succ.inj ‹_ + 1 = Nat.succ _›; subst hfuel))

/-- range of `wildcard_bind`: `self`, or a reference in the range of the expression reader -/
theorem pWild_range (fe : Nat) (ts : List Tok) (e : Exp) (rest : List Tok) (hts : ts.all tokOK = true)
    (h : pWild fe ts = some (e, rest)) : wfWildRaw e = true ∧ rest.all tokOK = true := by
  unfold pWild at h
  split at h
  · simp only [Option.some.injEq, Prod.mk.injEq] at h
    obtain ⟨rfl, rfl⟩ := h
    exact ⟨rfl, all_tokOK_tail (all_tokOK_tail hts)⟩
  · split at h
    · rename_i s i o r hp
      have ⟨he, hr⟩ := (pAll_range fe).1 _ _ _ hts hp
      simp only [Option.some.injEq, Prod.mk.injEq] at h
      obtain ⟨rfl, rfl⟩ := h
      exact ⟨by simp [wfWildRaw, isRefE, he], all_tokOK_tail hr⟩
    · cases h

/-- range of `bind_stm_list` / `split_bind_stm_list` with an optional final wildcard binding -/
theorem pBinds2_range (m : Bool) (fe : Nat) : ∀ (f : Nat) (ts : List Tok) (bs : List Bind) (w : Option Exp)
    (rest : List Tok), ts.all tokOK = true → pBinds2 m fe f ts = some (bs, w, rest) →
    bs.all wfBindRaw = true ∧ wfWildOptRaw w = true ∧ rest.all tokOK = true ∧
      (bs.any (·.split) = true → m = true)
  | 0, _, _, _, _, _, h => by simp [pBinds2] at h
  | f + 1, ts, bs, w, rest, hts, h => by
    unfold pBinds2 at h
    split at h
    · simp only [Option.some.injEq, Prod.mk.injEq] at h
      obtain ⟨rfl, rfl, rfl⟩ := h
      exact ⟨rfl, rfl, hts, fun h => by simp at h⟩
    · split at h
      · rename_i e r' hw
        simp only [Option.some.injEq, Prod.mk.injEq] at h
        obtain ⟨rfl, rfl, rfl⟩ := h
        have ⟨he, hr⟩ := pWild_range fe _ e _ (all_tokOK_tail (all_tokOK_tail hts)) hw
        exact ⟨rfl, he, hr, fun h => by simp at h⟩
      · cases h
    · split at h
      · rename_i b r hb
        have ⟨hwb, hr, hsb⟩ := pBind_range m fe _ b r hts hb
        cases hrec : pBinds2 m fe f r with
        | none => simp [hrec] at h
        | some p =>
          obtain ⟨bs', w', r'⟩ := p
          simp only [hrec, Option.map_some, Option.some.injEq, Prod.mk.injEq] at h
          obtain ⟨rfl, rfl, rfl⟩ := h
          have ⟨ih1, ih2, ih3, ih4⟩ := pBinds2_range m fe f r bs' w' r' hr hrec
          refine ⟨by simp only [List.all_cons, Bool.and_eq_true]; exact ⟨hwb, ih1⟩, ih2, ih3, ?_⟩
          intro hany
          simp only [List.any_cons, Bool.or_eq_true] at hany
          rcases hany with h1 | h1
          · exact hsb h1
          · exact ih4 h1
      · cases h

/-- range of `modifiers id [AS id] '('`: both names are identifiers (a modifier keyword before
`(` or `as` is the callee's name) -/
theorem pHead2_range : ∀ (f : Nat) (l p v : Bool) (ts : List Tok) (l' p' v' : Bool) (d i : Bytes)
    (r : List Tok), ts.all tokOK = true → pHead2 f l p v ts = some (l', p', v', d, i, r) →
    isIdent d = true ∧ isIdent i = true ∧ r.all tokOK = true
  | 0, _, _, _, _, _, _, _, _, _, _, _, h => by simp [pHead2] at h
  | f + 1, l, p, v, ts, l', p', v', d, i, r, hts, h => by
    unfold pHead2 at h
    split at h
    · cases h
    · rename_i d0 r0 _
      simp only [Option.some.injEq, Prod.mk.injEq] at h
      obtain ⟨_, _, _, rfl, rfl, rfl⟩ := h
      simp only [List.all_cons, Bool.and_eq_true] at hts
      have hd : isIdent d0 = true := by simpa [tokOK] using hts.1
      exact ⟨hd, hd, hts.2.2⟩
    · split at h
      · simp only [Option.some.injEq, Prod.mk.injEq] at h
        obtain ⟨_, _, _, rfl, rfl, rfl⟩ := h
        simp only [List.all_cons, Bool.and_eq_true] at hts
        exact ⟨by simpa [tokOK] using hts.1, by simpa [tokOK] using hts.2.2.1, hts.2.2.2.2⟩
      · cases h
    · fix_fuel
      have hr := all_tokOK_tail hts
      split at h
      · exact pHead2_range f _ _ _ _ _ _ _ _ _ _ hr h
      · split at h
        · exact pHead2_range f _ _ _ _ _ _ _ _ _ _ hr h
        · split at h
          · exact pHead2_range f _ _ _ _ _ _ _ _ _ _ hr h
          · cases h
    · cases h

/-- range of `modifier_stm`: `local|preflight|volatile = true|false`, `disabled = REF` -/
theorem pModStm_range (fe : Nat) (ts : List Tok) (kv : Bytes × Exp) (rest : List Tok)
    (hts : ts.all tokOK = true) (h : pModStm fe ts = some (kv, rest)) :
    wfModRaw kv = true ∧ rest.all tokOK = true := by
  unfold pModStm at h
  split at h
  · rename_i k ts'
    have hts' := all_tokOK_tail (all_tokOK_tail hts)
    split at h
    · rename_i hk
      split at h
      · simp only [Option.some.injEq, Prod.mk.injEq] at h
        obtain ⟨rfl, rfl⟩ := h
        exact ⟨by simp [wfModRaw, hk, isBoolE], all_tokOK_tail (all_tokOK_tail hts')⟩
      · simp only [Option.some.injEq, Prod.mk.injEq] at h
        obtain ⟨rfl, rfl⟩ := h
        exact ⟨by simp [wfModRaw, hk, isBoolE], all_tokOK_tail (all_tokOK_tail hts')⟩
      · cases h
    · split at h
      · rename_i hk
        split at h
        · rename_i s i o r hp
          have ⟨he, hr⟩ := (pAll_range fe).1 _ _ _ hts' hp
          simp only [Option.some.injEq, Prod.mk.injEq] at h
          obtain ⟨rfl, rfl⟩ := h
          exact ⟨by simp [wfModRaw, hk, isRefE, he], all_tokOK_tail hr⟩
        · cases h
      · cases h
  · cases h

theorem pMods_range (fe : Nat) : ∀ (f : Nat) (ts : List Tok) (l : List (Bytes × Exp)) (rest : List Tok),
    ts.all tokOK = true → pMods fe f ts = some (l, rest) →
    l.all wfModRaw = true ∧ rest.all tokOK = true
  | 0, _, _, _, _, h => by simp [pMods] at h
  | f + 1, ts, l, rest, hts, h => by
    unfold pMods at h
    split at h
    · simp only [Option.some.injEq, Prod.mk.injEq] at h
      obtain ⟨rfl, rfl⟩ := h
      exact ⟨rfl, hts⟩
    · split at h
      · rename_i kv r hm
        have ⟨hkv, hr⟩ := pModStm_range fe _ kv r hts hm
        cases hrec : pMods fe f r with
        | none => simp [hrec] at h
        | some p =>
          obtain ⟨l', r'⟩ := p
          simp only [hrec, Option.map_some, Option.some.injEq, Prod.mk.injEq] at h
          obtain ⟨rfl, rfl⟩ := h
          have ⟨ih1, ih2⟩ := pMods_range fe f r l' r' hr hrec
          exact ⟨by simp only [List.all_cons, Bool.and_eq_true]; exact ⟨hkv, ih1⟩, ih2⟩
      · cases h

/-- range of `(USING '(' modifier_stm_list ')')*` -/
theorem pUsing_range (fe : Nat) : ∀ (f : Nat) (cur : List (Bytes × Exp)) (ts : List Tok)
    (l : List (Bytes × Exp)) (rest : List Tok), cur.all wfModRaw = true → ts.all tokOK = true →
    pUsing fe f cur ts = some (l, rest) → l.all wfModRaw = true ∧ rest.all tokOK = true
  | 0, _, _, _, _, _, _, h => by simp [pUsing] at h
  | f + 1, cur, ts, l, rest, hc, hts, h => by
    unfold pUsing at h
    split at h
    · cases h
    · fix_fuel
      split at h
      · split at h
        · rename_i r1
          have hr1 := all_tokOK_tail (all_tokOK_tail hts)
          split at h
          · rename_i l' r2 hm
            have ⟨hl', hr2⟩ := pMods_range fe f r1 l' _ hr1 hm
            exact pUsing_range fe f l' r2 l rest hl' (all_tokOK_tail hr2) h
          · cases h
        · cases h
      · simp only [Option.some.injEq, Prod.mk.injEq] at h
        obtain ⟨rfl, rfl⟩ := h
        exact ⟨hc, hts⟩
    · simp only [Option.some.injEq, Prod.mk.injEq] at h
      obtain ⟨rfl, rfl⟩ := h
      exact ⟨hc, hts⟩

/-- **Range of the call reader.**  On tokens in the range of the tokenizer, whatever `pCall2`
returns satisfies `wfCall2Raw` -/
theorem pCall2_range' (ts : List Tok) (c : Call2) (rest : List Tok) (hts : ts.all tokOK = true)
    (h : pCall2 ts = some (c, rest)) : wfCall2Raw c = true ∧ rest.all tokOK = true := by
  unfold pCall2 at h
  have hmk := pMapKw_range ts hts
  split at h
  · rename_i cw r0 hk
    rw [hk] at hmk
    split at h
    · split at h
      · rename_i l p v d i r hh
        have ⟨hd, hi, hr⟩ := pHead2_range _ _ _ _ _ _ _ _ _ _ _ (all_tokOK_tail hmk) hh
        split at h
        · rename_i bs w r' hb
          have ⟨hbs, hw, hr', _⟩ := pBinds2_range _ _ _ r bs w _ hr hb
          split at h
          · split at h
            · rename_i mb rest' hu
              have ⟨hmb, hrest⟩ := pUsing_range _ _ [] r' mb rest' rfl (all_tokOK_tail hr') hu
              simp only [Option.some.injEq, Prod.mk.injEq] at h
              obtain ⟨rfl, rfl⟩ := h
              exact ⟨by simp [wfCall2Raw, hd, hi, hbs, hw, hmb], hrest⟩
            · cases h
          · cases h
        · cases h
      · cases h
    · cases h
  · cases h

theorem pCall2_range (ts : List Tok) (c : Call2) (rest : List Tok) (hts : ∀ tok ∈ ts, tokOK tok = true)
    (h : pCall2 ts = some (c, rest)) : wfCall2Raw c = true :=
  (pCall2_range' ts c rest (List.all_eq_true.mpr hts) h).1

theorem parseCall2_range (src : Bytes) (c : Call2) (h : parseCall2 src = some c) : wfCall2Raw c = true := by
  unfold parseCall2 at h
  cases hl : lexAll src with
  | none => simp [hl] at h
  | some ts =>
    simp only [hl, Option.bind_some] at h
    split at h
    · rename_i c' hp
      injection h with h; subst h
      exact pCall2_range ts _ [] (range_lexAll src ts hl) hp
    · cases h

theorem all_nosplit_of {bs : List Bind} (h : bs.any (·.split) = true → false = true) :
    bs.all (fun b => !b.split) = true := by
  induction bs with
  | nil => rfl
  | cons b r ih =>
    simp only [List.all_cons, Bool.and_eq_true]
    constructor
    · cases hb : b.split with
      | false => rfl
      | true => exact absurd (h (by simp [hb])) (by decide)
    · exact ih (fun hr => h (by simp only [List.any_cons, hr, Bool.or_true]))

/-- range of `return_stm`: no split bindings -/
theorem pReturn_range (ts : List Tok) (r : Ret) (rest : List Tok) (hts : ts.all tokOK = true)
    (h : pReturn ts = some (r, rest)) : wfRetRaw r = true ∧ rest.all tokOK = true := by
  unfold pReturn at h
  split at h
  · rename_i k r0
    split at h
    · split at h
      · rename_i bs w r' hb
        have ⟨hbs, hw, hr', hns⟩ := pBinds2_range _ _ _ r0 bs w _ (all_tokOK_tail (all_tokOK_tail hts)) hb
        simp only [Option.some.injEq, Prod.mk.injEq] at h
        obtain ⟨rfl, rfl⟩ := h
        exact ⟨by simp only [wfRetRaw, hbs, all_nosplit_of hns, hw, Bool.and_self], all_tokOK_tail hr'⟩
      · cases h
    · cases h
  · cases h

theorem pRefs_range (fe : Nat) : ∀ (f : Nat) (ts : List Tok) (es : List Exp) (rest : List Tok),
    ts.all tokOK = true → pRefs fe f ts = some (es, rest) →
    wfPRetainRaw es = true ∧ rest.all tokOK = true
  | 0, _, _, _, _, h => by simp [pRefs] at h
  | f + 1, ts, es, rest, hts, h => by
    unfold pRefs at h
    split at h
    · simp only [Option.some.injEq, Prod.mk.injEq] at h
      obtain ⟨rfl, rfl⟩ := h
      exact ⟨rfl, hts⟩
    · split at h
      · rename_i s i o r hp
        have ⟨he, hr⟩ := (pAll_range fe).1 _ _ _ hts hp
        cases hrec : pRefs fe f r with
        | none => simp [hrec] at h
        | some p =>
          obtain ⟨es', r'⟩ := p
          simp only [hrec, Option.map_some, Option.some.injEq, Prod.mk.injEq] at h
          obtain ⟨rfl, rfl⟩ := h
          have ⟨ih1, ih2⟩ := pRefs_range fe f r es' r' (all_tokOK_tail hr) hrec
          refine ⟨?_, ih2⟩
          unfold wfPRetainRaw at ih1 ⊢
          simp only [List.all_cons, Bool.and_eq_true]
          exact ⟨⟨rfl, he⟩, ih1⟩
      · cases h

theorem pPRetain_range (ts : List Tok) (rt : Option (List Exp)) (rest : List Tok)
    (hts : ts.all tokOK = true) (h : pPRetain ts = some (rt, rest)) :
    (∀ rs, rt = some rs → wfPRetainRaw rs = true) ∧ rest.all tokOK = true := by
  unfold pPRetain at h
  generalize ts.length = n at h
  split at h
  · rename_i k r
    split at h
    · split at h
      · rename_i r1
        split at h
        · rename_i es r2 hp
          have ⟨hes, hr2⟩ := pRefs_range _ _ r1 es _ (all_tokOK_tail (all_tokOK_tail hts)) hp
          simp only [Option.some.injEq, Prod.mk.injEq] at h
          obtain ⟨rfl, rfl⟩ := h
          exact ⟨fun rs hrs => by injection hrs with hrs; subst hrs; exact hes, all_tokOK_tail hr2⟩
        · cases h
      · cases h
    · simp only [Option.some.injEq, Prod.mk.injEq] at h
      obtain ⟨rfl, rfl⟩ := h
      exact ⟨fun rs hrs => (by cases hrs), hts⟩
  · simp only [Option.some.injEq, Prod.mk.injEq] at h
    obtain ⟨rfl, rfl⟩ := h
    exact ⟨fun rs hrs => (by cases hrs), hts⟩

theorem pCalls_range : ∀ (f : Nat) (ts : List Tok) (cs : List Call2) (rest : List Tok),
    ts.all tokOK = true → pCalls f ts = some (cs, rest) →
    cs.all wfCall2Raw = true ∧ rest.all tokOK = true
  | 0, _, _, _, _, h => by simp [pCalls] at h
  | f + 1, ts, cs, rest, hts, h => by
    unfold pCalls at h
    split at h
    · rename_i k r
      split at h
      · split at h
        · rename_i c r' hc
          have ⟨hwc, hr'⟩ := pCall2_range' _ c r' hts hc
          cases hrec : pCalls f r' with
          | none => simp [hrec] at h
          | some p =>
            obtain ⟨cs', r''⟩ := p
            simp only [hrec, Option.map_some, Option.some.injEq, Prod.mk.injEq] at h
            obtain ⟨rfl, rfl⟩ := h
            have ⟨ih1, ih2⟩ := pCalls_range f r' cs' r'' hr' hrec
            exact ⟨by simp only [List.all_cons, Bool.and_eq_true]; exact ⟨hwc, ih1⟩, ih2⟩
        · cases h
      · simp only [Option.some.injEq, Prod.mk.injEq] at h
        obtain ⟨rfl, rfl⟩ := h
        exact ⟨rfl, hts⟩
    · simp only [Option.some.injEq, Prod.mk.injEq] at h
      obtain ⟨rfl, rfl⟩ := h
      exact ⟨rfl, hts⟩

/-- **Range of the body reader**: calls, `return`, optional `retain`, `}` -/
theorem pBody_range (ts : List Tok) (b : Body) (rest : List Tok) (hts : ts.all tokOK = true)
    (h : pBody ts = some (b, rest)) : wfBodyRaw b = true ∧ rest.all tokOK = true := by
  unfold pBody at h
  split at h
  · rename_i cs r1 hc
    have ⟨hcs, hr1⟩ := pCalls_range _ ts cs r1 hts hc
    split at h
    · rename_i ret r2 hret
      have ⟨hwr, hr2⟩ := pReturn_range r1 ret r2 hr1 hret
      split at h
      · rename_i rt r3 hrt
        have ⟨hwrt, hr3⟩ := pPRetain_range r2 rt _ hr2 hrt
        simp only [Option.some.injEq, Prod.mk.injEq] at h
        obtain ⟨rfl, rfl⟩ := h
        refine ⟨?_, all_tokOK_tail hr3⟩
        simp only [wfBodyRaw, hcs, hwr, Bool.and_self, Bool.true_and]
        cases rt with
        | none => rfl
        | some rs => exact hwrt rs rfl
      · cases h
    · cases h
  · cases h

end Martian.FormatCallText
