/-
C13: the hypotheses of the GLOBAL `content_preserved` as ONE decidable check
(`cleanB`), sound for `Clean`; evaluated by the driver on every real input of
the direct stream, and by `decide` in the non-vacuity examples.
-/
import Martian.PostProcess
import Proofs.PostProcess
import Proofs.PostProcessLeaves
import Proofs.PostProcessDests
import Proofs.PostProcessContent

namespace Martian.PostProcess

/-- `apart` and `status` for one leaf -/
def leafOkB (ps top : Path) (fs : FS) (l : Leaf) : Bool :=
  (match l.src with
   | none => true
   | some p =>
     !isPrefix p top && !isPrefix top p &&
       (match fs.get p with
        | none => true
        | some e => !e.isLink && inside ps p)) &&
  (fs.get l.dest).isNone

/-- the sources of two leaves are not nested -/
def srcApartB (l1 l2 : Leaf) : Bool :=
  match l1.src, l2.src with
  | some p1, some p2 => !isPrefix p1 p2 && !isPrefix p2 p1
  | _, _ => true

def nonnestB : List Leaf → Bool
  | [] => true
  | l :: ls => ls.all (srcApartB l) && nonnestB ls

/-- the side conditions of `content_preserved` (`apart`, `nonnest`, `status`, `free`), decidable -/
def cleanB (ps top : Path) (fs : FS) (ls : List Leaf) : Bool :=
  ls.all (leafOkB ps top fs) && nonnestB ls

theorem nonnestB_sound (ls : List Leaf) (h : nonnestB ls = true) :
    ls.Pairwise (fun l1 l2 => ∀ p1 p2, l1.src = some p1 → l2.src = some p2 → ¬ p1 <+: p2 ∧ ¬ p2 <+: p1) := by
  induction ls with
  | nil => exact List.Pairwise.nil
  | cons l ls ih =>
    simp only [nonnestB, Bool.and_eq_true, List.all_eq_true] at h
    refine List.pairwise_cons.mpr ⟨fun l' hl' p1 p2 h1 h2 => ?_, ih h.2⟩
    have := h.1 l' hl'
    simp only [srcApartB, h1, h2, Bool.and_eq_true, Bool.not_eq_true'] at this
    exact ⟨isPrefix_false_iff.mp this.1, isPrefix_false_iff.mp this.2⟩

/-- `cleanB` is sound for the hypotheses of `content_preserved` -/
theorem cleanB_sound (ps top : Path) (fs : FS) (params : List (String × String × Ty))
    (outs : List (String × J)) (hwf : wfParams params = true)
    (h : cleanB ps top fs (leavesRec params outs top) = true) :
    Clean ps top fs (leavesRec params outs top) := by
  simp only [cleanB, Bool.and_eq_true, List.all_eq_true] at h
  have hl : ∀ l ∈ leavesRec params outs top, leafOkB ps top fs l = true := h.1
  refine clean_record ps top fs params outs hwf ?_ (nonnestB_sound _ h.2) ?_ ?_
  · intro l hm p hp
    have := hl l hm
    simp only [leafOkB, hp, Bool.and_eq_true, Bool.not_eq_true'] at this
    exact ⟨isPrefix_false_iff.mp this.1.1.1, isPrefix_false_iff.mp this.1.1.2⟩
  · intro l hm p hp
    have := hl l hm
    simp only [leafOkB, hp, Bool.and_eq_true, Bool.not_eq_true'] at this
    cases hg : fs.get p with
    | none => exact Or.inl rfl
    | some e =>
      rw [hg] at this
      simp only [Bool.and_eq_true, Bool.not_eq_true'] at this
      exact Or.inr ⟨e, rfl, this.1.2.1, this.1.2.2⟩
  · intro l hm
    have := hl l hm
    simp only [leafOkB, Bool.and_eq_true, Option.isNone_iff_eq_none] at this
    exact this.2

/-! ## a substantial example record (used by the non-vacuity examples of Props.C13) -/

/-- a struct with two file members and a scalar, a 2-dimensional file array, a typed map of file arrays -/
def exSig3 : List (String × String × Ty) :=
  [("s", "", .struct [("f", "", .file "txt"), ("g", "out.bin", .file ""), ("n", "", .scalar)]),
   ("r", "", .arr (.file "") 1), ("m", "", .tmap (.arr (.file "bam") 0))]

/-- six file leaves: two struct members, a DIRECTORY and a missing file and (after a null) a file in
the 2-dimensional array, one file under a map key -/
def exOuts3 : List (String × J) :=
  [("s", .obj [("f", .str "/ps/MK/files/sf"), ("g", .str "/ps/MK/files/sg"), ("n", .lit "3")]),
   ("r", .arr [.arr [.str "/ps/MK/files/d", .str "/ps/MK/files/nope"], .arr [.null, .str "/ps/MK/files/r11"]]),
   ("m", .obj [("k1", .arr [.str "/ps/MK/files/m0"]), ("b", .arr [])])]

def exFS3 : FS :=
  { get := fun q =>
      if q = ["ps", "MK", "files", "sf"] then some (.file 1)
      else if q = ["ps", "MK", "files", "sg"] then some (.file 2)
      else if q = ["ps", "MK", "files", "d", "inner"] then some (.file 3)
      else if q = ["ps", "MK", "files", "r11"] then some (.file 4)
      else if q = ["ps", "MK", "files", "m0"] then some (.file 5)
      else if q = ["ps"] ∨ q = ["ps", "MK"] ∨ q = ["ps", "MK", "files"] ∨ q = ["ps", "MK", "files", "d"]
        then some .dir else none
    dom := [] }

end Martian.PostProcess
