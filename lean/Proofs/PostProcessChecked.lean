/-
C13: the hypotheses of the GLOBAL `content_preserved` as ONE decidable check
(`cleanB`), sound for `Clean`; evaluated by the driver on every real input of
the direct stream, and by `decide` in the non-vacuity examples.
-/
import Martian.PostProcess
import Martian.PostProcessDefs
import Proofs.PostProcess
import Proofs.PostProcessLeaves
import Proofs.PostProcessDests
import Proofs.PostProcessContent

namespace Martian.PostProcess

theorem nonnestB_sound (ls : List Leaf) (h : nonnestB ls = true) :
    ls.Pairwise (fun l1 l2 => ∀ p1 p2, l1.src = some p1 → l2.src = some p2 → ¬ p1 <+: p2 ∧ ¬ p2 <+: p1) := by
  induction ls with
  | nil => exact List.Pairwise.nil
  | cons l ls ih =>
    simp only [nonnestB, Bool.and_eq_true, List.all_eq_true] at h
    refine List.pairwise_cons.mpr ⟨fun l' hl' p1 p2 h1 h2 => ?_, ih h.2⟩
    have := h.1 l' hl'
    simp only [srcApartB, h1, h2, Bool.and_eq_true, Bool.not_eq_true'] at this
    exact ⟨isPrefix_false_iff.mp this.1, isPrefix_false_iff.mp this.2⟩

/-- `cleanB` is sound for the hypotheses of `content_preserved` -/
theorem cleanB_sound (ps top : Path) (fs : FS) (params : List (String × String × Ty))
    (outs : List (String × J)) (hwf : wfParams params = true)
    (h : cleanB ps top fs (leavesRec params outs top) = true) :
    Clean ps top fs (leavesRec params outs top) := by
  simp only [cleanB, Bool.and_eq_true, List.all_eq_true] at h
  have hl : ∀ l ∈ leavesRec params outs top, leafOkB ps top fs l = true := h.1
  refine clean_record ps top fs params outs hwf ?_ (nonnestB_sound _ h.2) ?_ ?_
  · intro l hm p hp
    have := hl l hm
    simp only [leafOkB, hp, Bool.and_eq_true, Bool.not_eq_true'] at this
    exact ⟨isPrefix_false_iff.mp this.1.1.1, isPrefix_false_iff.mp this.1.1.2⟩
  · intro l hm p hp
    have := hl l hm
    simp only [leafOkB, hp, Bool.and_eq_true, Bool.not_eq_true'] at this
    cases hg : fs.get p with
    | none => exact Or.inl rfl
    | some e =>
      rw [hg] at this
      simp only [Bool.and_eq_true, Bool.not_eq_true'] at this
      exact Or.inr ⟨e, rfl, this.1.2.1, this.1.2.2⟩
  · intro l hm
    have := hl l hm
    simp only [leafOkB, Bool.and_eq_true, Option.isNone_iff_eq_none] at this
    exact this.2

/-! ## a substantial example record (used by the non-vacuity examples of Props.C13) -/

end Martian.PostProcess
