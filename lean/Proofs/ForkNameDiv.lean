/-
C11: fork id strings of two part lists that agree on a prefix and then diverge
in one part (a different index of the same array call / a different key of the
same map call) are different, WHATEVER follows the divergence on either side —
in particular when the run-time sized inner calls have different lengths, key
sets or emptiness under the two outer forks.  Core Lean only.
-/
import Martian.ForkName
import Proofs.ForkName
import Proofs.ForkNameInj

namespace Martian.ForkName

/-! ## What an index string looks like, and reading it back from a longer text -/

def sepOrNil (r : Bytes) : Prop := r = [] ∨ ∃ t, r = cUnder :: t ∨ r = cSlash :: t

/-- `s` starts with the index string of `I`, followed by nothing or a separator -/
def Flush (s : Bytes) (I : Nat) : Prop := ∃ D r, s = forkIndexStr D I ++ r ∧ sepOrNil r

theorem forkIndexStr_form (D I : Nat) :
    ∃ X, forkIndexStr D I = sFork ++ X ∧ (∀ c ∈ X, isDigit c = true) ∧ digitsVal X 0 = some I := by
  unfold forkIndexStr
  split
  · next hc =>
    have : I = 0 := by simp only [Bool.and_eq_true, beq_iff_eq] at hc; exact hc.2
    subst this
    exact ⟨[0x30], rfl, by decide, rfl⟩
  · exact ⟨padded _ I, rfl, digitsVal_all_digits _ 0 _ (digitsVal_padded _ I), digitsVal_padded _ I⟩

theorem sepOrNil_head {r : Bytes} (h : sepOrNil r) : ∀ c t, r = c :: t → isDigit c = false := by
  intro c t e
  rcases h with h | ⟨t', h | h⟩
  · rw [h] at e; simp at e
  · rw [h] at e; simp only [List.cons.injEq] at e; rw [← e.1]; decide
  · rw [h] at e; simp only [List.cons.injEq] at e; rw [← e.1]; decide

theorem digits_prefix_unique : ∀ (X X' r r' : Bytes), (∀ c ∈ X, isDigit c = true) → (∀ c ∈ X', isDigit c = true) →
    (∀ c t, r = c :: t → isDigit c = false) → (∀ c t, r' = c :: t → isDigit c = false) →
    X ++ r = X' ++ r' → X = X' := by
  intro X
  induction X with
  | nil =>
    intro X' r r' _ hX' hr _ h
    cases X' with
    | nil => rfl
    | cons c t =>
      simp only [List.nil_append, List.cons_append] at h
      have := hr c _ h
      have := hX' c List.mem_cons_self
      simp_all
  | cons x xs ih =>
    intro X' r r' hX hX' hr hr' h
    cases X' with
    | nil =>
      simp only [List.nil_append, List.cons_append] at h
      have := hr' x _ h.symm
      have := hX x List.mem_cons_self
      simp_all
    | cons c t =>
      simp only [List.cons_append, List.cons.injEq] at h
      rw [h.1, ih t r r' (fun c hc => hX c (List.mem_cons_of_mem _ hc))
        (fun c hc => hX' c (List.mem_cons_of_mem _ hc)) hr hr' h.2]

theorem flush_inj {s : Bytes} {I I' : Nat} (h : Flush s I) (h' : Flush s I') : I = I' := by
  obtain ⟨D, r, e, hr⟩ := h
  obtain ⟨D', r', e', hr'⟩ := h'
  obtain ⟨X, eX, dX, vX⟩ := forkIndexStr_form D I
  obtain ⟨X', eX', dX', vX'⟩ := forkIndexStr_form D' I'
  rw [eX] at e; rw [eX'] at e'
  have : X ++ r = X' ++ r' := by
    have := e.symm.trans e'
    simpa [List.append_assoc] using this
  have hXX := digits_prefix_unique X X' r r' dX dX' (sepOrNil_head hr) (sepOrNil_head hr') this
  rw [hXX] at vX
  simpa [vX'] using vX.symm

/-! ## After an array part, the next index string carries the index -/

theorem ok_not_skip_key {k : Bytes} {keys : List Bytes} {st : Bool} (h : partOk (.key k keys st) = true)
    (hz : keys.isEmpty = false) : keys.contains k = true := by
  simp only [partOk, partValid, partSkip, Bool.or_eq_true] at h
  rcases h with h | h
  · exact h
  · rw [hz] at h; simp at h

theorem tail_flush : ∀ (parts : List Part) (idx dim d0 : Nat), parts.all partOk = true → d0 ∣ dim →
    ∃ I, Flush (tailStr parts false idx dim) I ∧ I % d0 = idx % d0 := by
  intro parts
  induction parts with
  | nil => intro idx dim d0 _ _; exact ⟨idx, ⟨dim, [], by simp [tailStr], Or.inl rfl⟩, rfl⟩
  | cons p rest ih =>
    intro idx dim d0 hv hd
    simp only [List.all_cons, Bool.and_eq_true] at hv
    obtain ⟨hp, hrest⟩ := hv
    cases p with
    | arr i len st =>
      simp only [tailStr]
      by_cases hz : (len == 0) = true
      · simp only [hz, if_true]; exact ih idx dim d0 hrest hd
      · simp only [hz, Bool.false_eq_true, if_false]
        by_cases hc : (!st && decide (1 < len) && !false) = true
        · simp only [hc, if_true]
          exact ⟨idx, ⟨dim, _, rfl, Or.inr ⟨_, Or.inl rfl⟩⟩, rfl⟩
        · simp only [hc, Bool.false_eq_true, if_false]
          obtain ⟨I, hf, hm⟩ := ih (idx + dim * i) (dim * len) d0 hrest (Nat.dvd_trans hd (Nat.dvd_mul_right dim len))
          refine ⟨I, hf, ?_⟩
          obtain ⟨k, rfl⟩ := hd
          rw [hm, Nat.mul_assoc, Nat.add_mul_mod_self_left]
    | key k keys st =>
      simp only [tailStr]
      by_cases hz : keys.isEmpty = true
      · simp only [hz, if_true]; exact ih idx dim d0 hrest hd
      · simp only [hz, Bool.false_eq_true, if_false]
        exact ⟨idx, ⟨dim, _, rfl, Or.inr ⟨_, Or.inr rfl⟩⟩, rfl⟩
    | undet => simp only [tailStr]; exact ih idx dim d0 hrest hd
    | empty => simp only [tailStr]; exact ih idx dim d0 hrest hd

/-! ## Divergence -/


theorem seg_tail_inj (kx ky : Bytes) (XA XB : Bytes)
    (hA : XA = [] ∨ ∃ t, XA = cSlash :: t) (hB : XB = [] ∨ ∃ t, XB = cSlash :: t)
    (h : seg kx ++ XA = seg ky ++ XB) : kx = ky := by
  have fin : seg kx = seg ky → kx = ky := by
    intro e; simp only [seg] at e; exact pathEscape_inj (List.append_cancel_left e)
  rcases hA with hA | ⟨ta, hA⟩ <;> rcases hB with hB | ⟨tb, hB⟩
  · subst hA; subst hB; simp only [List.append_nil] at h; exact fin h
  · subst hA; subst hB
    simp only [List.append_nil] at h
    exact absurd (h ▸ List.mem_append_right _ List.mem_cons_self) (slash_not_in_seg kx)
  · subst hA; subst hB
    simp only [List.append_nil] at h
    exact absurd (h.symm ▸ List.mem_append_right _ List.mem_cons_self) (slash_not_in_seg ky)
  · subst hA; subst hB
    exact fin (append_sep_inj _ _ _ _ (slash_not_in_seg kx) (slash_not_in_seg ky) h).1

theorem keyRest_form (rest : List Part) (t : Bytes) :
    (if rest.isEmpty then ([] : Bytes) else cSlash :: t) = [] ∨ ∃ u, (if rest.isEmpty then ([] : Bytes) else cSlash :: t) = cSlash :: u := by
  cases rest.isEmpty
  · exact Or.inr ⟨t, by simp⟩
  · exact Or.inl (by simp)

/-- at the divergence itself -/
theorem tailStr_diverge_head (x y : Part) (ra rb : List Part) (first : Bool) (idx dim : Nat)
    (hd : diverge x y = true) (hra : ra.all partOk = true) (hrb : rb.all partOk = true) (hi : idx < dim)
    (h : tailStr (x :: ra) first idx dim = tailStr (y :: rb) first idx dim) : False := by
  cases x with
  | arr i len st =>
    cases y with
    | arr i' len' st' =>
      simp only [diverge, Bool.and_eq_true, beq_iff_eq, bne_iff_ne, decide_eq_true_eq] at hd
      obtain ⟨⟨⟨⟨hl, hst⟩, hne⟩, hil⟩, hil'⟩ := hd
      subst hl; subst hst
      have h0 : (len == 0) = false := by simp; omega
      simp only [tailStr, h0, Bool.false_eq_true, if_false] at h
      by_cases hc : (!st && decide (1 < len) && !first) = true
      · simp only [hc, if_true] at h
        have h2 := List.append_cancel_left h
        simp only [List.cons.injEq, true_and] at h2
        obtain ⟨IA, fA, mA⟩ := tail_flush ra i len len hra (Nat.dvd_refl _)
        obtain ⟨IB, fB, mB⟩ := tail_flush rb i' len len hrb (Nat.dvd_refl _)
        rw [h2] at fA
        have := flush_inj fA fB
        rw [this, mB, Nat.mod_eq_of_lt hil, Nat.mod_eq_of_lt hil'] at mA
        exact hne mA.symm
      · simp only [hc, Bool.false_eq_true, if_false] at h
        obtain ⟨IA, fA, mA⟩ := tail_flush ra (idx + dim * i) (dim * len) (dim * len) hra (Nat.dvd_refl _)
        obtain ⟨IB, fB, mB⟩ := tail_flush rb (idx + dim * i') (dim * len) (dim * len) hrb (Nat.dvd_refl _)
        rw [h] at fA
        have := flush_inj fA fB
        rw [this, mB, Nat.mod_eq_of_lt (radix_bound hi hil), Nat.mod_eq_of_lt (radix_bound hi hil')] at mA
        exact hne (mixed_radix hi hi mA).2.symm
    | key _ _ _ => simp [diverge] at hd
    | undet => simp [diverge] at hd
    | empty => simp [diverge] at hd
  | key k keys st =>
    cases y with
    | key k' keys' st' =>
      simp only [diverge, Bool.and_eq_true, beq_iff_eq, bne_iff_ne] at hd
      obtain ⟨⟨⟨⟨hl, hst⟩, hne⟩, hk⟩, _⟩ := hd
      subst hl; subst hst
      have hke : keys.isEmpty = false := by
        cases keys with
        | nil => simp at hk
        | cons _ _ => rfl
      simp only [tailStr, hke, Bool.false_eq_true, if_false] at h
      cases first with
      | true =>
        simp only [if_true] at h
        exact hne (seg_tail_inj k k' _ _ (keyRest_form ra _) (keyRest_form rb _) h)
      | false =>
        simp only [Bool.false_eq_true, if_false] at h
        have h2 := List.append_cancel_left h
        simp only [List.cons.injEq, true_and] at h2
        exact hne (seg_tail_inj k k' _ _ (keyRest_form ra _) (keyRest_form rb _) h2)
    | arr _ _ _ => simp [diverge] at hd
    | undet => simp [diverge] at hd
    | empty => simp [diverge] at hd
  | undet => simp [diverge] at hd
  | empty => simp [diverge] at hd

/-- after a common prefix -/
theorem tailStr_diverge : ∀ (p : List Part) (x y : Part) (ra rb : List Part) (first : Bool) (idx dim : Nat),
    diverge x y = true → p.all partOk = true → ra.all partOk = true → rb.all partOk = true → idx < dim →
    tailStr (p ++ x :: ra) first idx dim = tailStr (p ++ y :: rb) first idx dim → False := by
  intro p
  induction p with
  | nil => intro x y ra rb first idx dim hd _ hra hrb hi h; exact tailStr_diverge_head x y ra rb first idx dim hd hra hrb hi h
  | cons q p' ih =>
    intro x y ra rb first idx dim hd hp hra hrb hi h
    simp only [List.all_cons, Bool.and_eq_true] at hp
    obtain ⟨hq, hp'⟩ := hp
    simp only [List.cons_append] at h
    have hneA : (p' ++ x :: ra).isEmpty = false := by cases p' <;> simp
    have hneB : (p' ++ y :: rb).isEmpty = false := by cases p' <;> simp
    cases q with
    | arr i len st =>
      simp only [tailStr] at h
      by_cases hz : (len == 0) = true
      · simp only [hz, if_true] at h; exact ih x y ra rb false idx dim hd hp' hra hrb hi h
      · simp only [hz, Bool.false_eq_true, if_false] at h
        have hil : i < len := ok_not_skip_arr hq (by simpa using hz)
        by_cases hc : (!st && decide (1 < len) && !first) = true
        · simp only [hc, if_true] at h
          have h2 := List.append_cancel_left h
          simp only [List.cons.injEq, true_and] at h2
          exact ih x y ra rb false i len hd hp' hra hrb hil h2
        · simp only [hc, Bool.false_eq_true, if_false] at h
          exact ih x y ra rb false _ _ hd hp' hra hrb (radix_bound hi hil) h
    | key k keys st =>
      simp only [tailStr] at h
      by_cases hz : keys.isEmpty = true
      · simp only [hz, if_true] at h; exact ih x y ra rb false idx dim hd hp' hra hrb hi h
      · simp only [hz, Bool.false_eq_true, if_false, hneA, hneB] at h
        cases first with
        | true =>
          simp only [if_true] at h
          have h2 := List.append_cancel_left h
          simp only [List.cons.injEq, true_and] at h2
          exact ih x y ra rb true 0 1 hd hp' hra hrb (by omega) h2
        | false =>
          simp only [Bool.false_eq_true, if_false] at h
          have h2 := List.append_cancel_left h
          simp only [List.cons.injEq, true_and] at h2
          have h3 := List.append_cancel_left h2
          simp only [List.cons.injEq, true_and] at h3
          exact ih x y ra rb true 0 1 hd hp' hra hrb (by omega) h3
    | undet => simp only [tailStr] at h; exact ih x y ra rb false idx dim hd hp' hra hrb hi h
    | empty => simp only [tailStr] at h; exact ih x y ra rb false idx dim hd hp' hra hrb hi h

/-! ## Top level: the `fork0` default -/

theorem flatIdx_mono : ∀ (a : List Part) (first : Bool) (idx dim T D : Nat),
    flatIdx a first idx dim = some (T, D) → idx ≤ T := by
  intro a
  induction a with
  | nil => intro _ _ _ _ _ h; simp only [flatIdx, Option.some.injEq, Prod.mk.injEq] at h; omega
  | cons p r ih =>
    intro first idx dim T D h
    cases p with
    | arr i len st =>
      simp only [flatIdx] at h
      by_cases hz : (len == 0) = true
      · simp only [hz, if_true] at h; exact ih _ _ _ _ _ h
      · simp only [hz, Bool.false_eq_true, if_false] at h
        by_cases hc : (!st && decide (1 < len) && !first) = true
        · simp [hc] at h
        · simp only [hc, Bool.false_eq_true, if_false] at h
          have := ih _ _ _ _ _ h; omega
    | key _ keys _ =>
      simp only [flatIdx] at h
      by_cases hz : keys.isEmpty = true
      · simp only [hz, if_true] at h; exact ih _ _ _ _ _ h
      · simp [hz] at h
    | undet => simp only [flatIdx] at h; exact ih _ _ _ _ _ h
    | empty => simp only [flatIdx] at h; exact ih _ _ _ _ _ h

/-- a flat total of 0 forces every contributing index to be 0 -/
theorem flatIdx_index_le : ∀ (p : List Part) (ix len : Nat) (st : Bool) (ra : List Part)
    (first : Bool) (idx dim T D : Nat), len ≠ 0 → 0 < dim →
    flatIdx (p ++ .arr ix len st :: ra) first idx dim = some (T, D) → ix ≤ T := by
  intro p
  induction p with
  | nil =>
    intro ix len st ra first idx dim T D hl hd h
    have h0 : (len == 0) = false := by simpa using hl
    simp only [List.nil_append, flatIdx, h0, Bool.false_eq_true, if_false] at h
    by_cases hc : (!st && decide (1 < len) && !first) = true
    · simp [hc] at h
    · simp only [hc, Bool.false_eq_true, if_false] at h
      have h1 := flatIdx_mono _ _ _ _ _ _ h
      have h2 : ix ≤ dim * ix := Nat.le_mul_of_pos_left ix hd
      omega
  | cons q p' ih =>
    intro ix len st ra first idx dim T D hl hd h
    simp only [List.cons_append] at h
    cases q with
    | arr i l s =>
      simp only [flatIdx] at h
      by_cases hz : (l == 0) = true
      · simp only [hz, if_true] at h; exact ih _ _ _ _ _ _ _ _ _ hl hd h
      · simp only [hz, Bool.false_eq_true, if_false] at h
        by_cases hc : (!s && decide (1 < l) && !first) = true
        · simp [hc] at h
        · simp only [hc, Bool.false_eq_true, if_false] at h
          have hl0 : 0 < l := by
            have : l ≠ 0 := by simpa using hz
            omega
          exact ih _ _ _ _ _ _ _ _ _ hl (Nat.mul_pos hd hl0) h
    | key _ keys _ =>
      simp only [flatIdx] at h
      by_cases hz : keys.isEmpty = true
      · simp only [hz, if_true] at h; exact ih _ _ _ _ _ _ _ _ _ hl hd h
      · simp [hz] at h
    | undet => simp only [flatIdx] at h; exact ih _ _ _ _ _ _ _ _ _ hl hd h
    | empty => simp only [flatIdx] at h; exact ih _ _ _ _ _ _ _ _ _ hl hd h

theorem flatIdx_key_none : ∀ (p : List Part) (k : Bytes) (keys : List Bytes) (st : Bool) (ra : List Part)
    (first : Bool) (idx dim : Nat), keys.isEmpty = false →
    flatIdx (p ++ .key k keys st :: ra) first idx dim = none := by
  intro p
  induction p with
  | nil => intro k keys st ra first idx dim hk; simp [flatIdx, hk]
  | cons q p' ih =>
    intro k keys st ra first idx dim hk
    simp only [List.cons_append]
    cases q with
    | arr i l s =>
      simp only [flatIdx]
      by_cases hz : (l == 0) = true
      · simp only [hz, if_true]; exact ih _ _ _ _ _ _ _ hk
      · simp only [hz, Bool.false_eq_true, if_false]
        by_cases hc : (!s && decide (1 < l) && !first) = true
        · simp [hc]
        · simp only [hc, Bool.false_eq_true, if_false]; exact ih _ _ _ _ _ _ _ hk
    | key _ ks _ =>
      simp only [flatIdx]
      by_cases hz : ks.isEmpty = true
      · simp only [hz, if_true]; exact ih _ _ _ _ _ _ _ hk
      · simp [hz]
    | undet => simp only [flatIdx]; exact ih _ _ _ _ _ _ _ hk
    | empty => simp only [flatIdx]; exact ih _ _ _ _ _ _ _ hk

/-- a list that is not one flat index contains a separator -/
theorem not_flat_has_sep : ∀ (a : List Part) (first : Bool) (idx dim : Nat),
    flatIdx a first idx dim = none → cUnder ∈ tailStr a first idx dim ∨ cSlash ∈ tailStr a first idx dim := by
  intro a
  induction a with
  | nil => intro _ _ _ h; simp [flatIdx] at h
  | cons p r ih =>
    intro first idx dim h
    cases p with
    | arr i len st =>
      simp only [flatIdx] at h
      simp only [tailStr]
      by_cases hz : (len == 0) = true
      · simp only [hz, if_true] at h ⊢; exact ih _ _ _ h
      · simp only [hz, Bool.false_eq_true, if_false] at h ⊢
        by_cases hc : (!st && decide (1 < len) && !first) = true
        · simp only [hc, if_true]
          exact Or.inl (List.mem_append_right _ List.mem_cons_self)
        · simp only [hc, Bool.false_eq_true, if_false] at h ⊢; exact ih _ _ _ h
    | key k keys _ =>
      simp only [tailStr]
      by_cases hz : keys.isEmpty = true
      · simp only [flatIdx, hz, if_true] at h ⊢; exact ih _ _ _ h
      · simp only [hz, Bool.false_eq_true, if_false]
        cases first with
        | true =>
          left
          simp only [if_true, seg]
          exact List.mem_append_left _ (List.mem_append_left _ (by decide))
        | false =>
          right
          simp only [Bool.false_eq_true, if_false]
          exact List.mem_append_right _ List.mem_cons_self
    | undet => simp only [flatIdx] at h; simp only [tailStr]; exact ih _ _ _ h
    | empty => simp only [flatIdx] at h; simp only [tailStr]; exact ih _ _ _ h

theorem default_flat (a : List Part) (h : defaultCase a true 0 1 = true) : ∃ D, flatIdx a true 0 1 = some (0, D) := by
  cases hf : flatIdx a true 0 1 with
  | none => rw [flatIdx_none _ _ _ _ hf] at h; simp at h
  | some td =>
    obtain ⟨T, D⟩ := td
    have := (flatIdx_some _ _ _ _ _ _ hf).2
    rw [h] at this
    have hT : T = 0 := by simpa using this.symm
    exact ⟨D, by rw [hT]⟩

/-- a default (`fork0`) id differs from every non-default one -/
theorem topStr_default_ne (a b : List Part) (ha : defaultCase a true 0 1 = true)
    (hb : defaultCase b true 0 1 = false) : topStr a ≠ topStr b := by
  intro h
  simp only [topStr, ha, hb, if_true, Bool.false_eq_true, if_false] at h
  cases hf : flatIdx b true 0 1 with
  | none =>
    rcases not_flat_has_sep b true 0 1 hf with m | m
    · rw [← h] at m; revert m; decide
    · rw [← h] at m; revert m; decide
  | some td =>
    obtain ⟨T, D⟩ := td
    obtain ⟨e1, e2⟩ := flatIdx_some _ _ _ _ _ _ hf
    rw [hb] at e2
    have hT : T ≠ 0 := by
      intro e; rw [e] at e2; simp at e2
    rw [e1] at h
    have := congrArg (fun s => digitsVal (s.drop 4) 0) h
    simp only [forkIndexStr_val] at this
    have h0 : digitsVal (sFork0.drop 4) 0 = some 0 := rfl
    rw [h0] at this
    exact hT (by simpa using this.symm)

theorem topStr_diverge (p : List Part) (x y : Part) (ra rb : List Part)
    (hd : diverge x y = true) (hp : p.all partOk = true) (hra : ra.all partOk = true) (hrb : rb.all partOk = true) :
    topStr (p ++ x :: ra) ≠ topStr (p ++ y :: rb) := by
  intro h
  cases ha : defaultCase (p ++ x :: ra) true 0 1 <;> cases hb : defaultCase (p ++ y :: rb) true 0 1
  · simp only [topStr, ha, hb, Bool.false_eq_true, if_false] at h
    exact tailStr_diverge p x y ra rb true 0 1 hd hp hra hrb (by omega) h
  · exact topStr_default_ne _ _ hb ha h.symm
  · exact topStr_default_ne _ _ ha hb h
  · -- both default: both flat with total 0, so the diverging indices are both 0
    obtain ⟨Da, fa⟩ := default_flat _ ha
    obtain ⟨Db, fb⟩ := default_flat _ hb
    cases x with
    | arr i len st =>
      cases y with
      | arr i' len' st' =>
        simp only [diverge, Bool.and_eq_true, beq_iff_eq, bne_iff_ne, decide_eq_true_eq] at hd
        obtain ⟨⟨⟨⟨hl, _⟩, hne⟩, hil⟩, hil'⟩ := hd
        subst hl
        have h1 := flatIdx_index_le p i len st ra true 0 1 0 Da (by omega) (by omega) fa
        have h2 := flatIdx_index_le p i' len st' rb true 0 1 0 Db (by omega) (by omega) fb
        omega
      | key _ _ _ => simp [diverge] at hd
      | undet => simp [diverge] at hd
      | empty => simp [diverge] at hd
    | key k keys st =>
      cases y with
      | key k' keys' st' =>
        simp only [diverge, Bool.and_eq_true] at hd
        have hk := hd.1.2
        have hke : keys.isEmpty = false := by
          cases keys with
          | nil => simp at hk
          | cons _ _ => rfl
        rw [flatIdx_key_none p k keys st ra true 0 1 hke] at fa
        simp at fa
      | arr _ _ _ => simp [diverge] at hd
      | undet => simp [diverge] at hd
      | empty => simp [diverge] at hd
    | undet => simp [diverge] at hd
    | empty => simp [diverge] at hd

theorem diverge_ok (x y : Part) (h : diverge x y = true) : partValid x = true ∧ partValid y = true := by
  cases x <;> cases y <;> simp_all [diverge, partValid]
  · rename_i h; obtain ⟨⟨⟨⟨e, _⟩, _⟩, h1⟩, h2⟩ := h; subst e; exact ⟨h1, h2⟩
  · rename_i h; obtain ⟨⟨⟨⟨e, _⟩, _⟩, h1⟩, h2⟩ := h; subst e; exact ⟨h1, h2⟩

/-- Two fork ids that agree on a prefix and then name a different index / key
of the same call are different strings, whatever follows on either side. -/
theorem forkIdString_diverge (p : List Part) (x y : Part) (ra rb : List Part)
    (hd : diverge x y = true) (hp : p.all partOk = true) (hra : ra.all partOk = true) (hrb : rb.all partOk = true)
    (hlen : ra.length = rb.length) :
    forkIdString true true (p ++ x :: ra) ≠ forkIdString true true (p ++ y :: rb) := by
  obtain ⟨vx, vy⟩ := diverge_ok x y hd
  have okx : partOk x = true := by simp [partOk, vx]
  have oky : partOk y = true := by simp [partOk, vy]
  by_cases h2 : 2 ≤ (p ++ x :: ra).length
  · have h2' : 2 ≤ (p ++ y :: rb).length := by simp at h2 ⊢; omega
    rw [forkIdString_topStr _ (by simp [hp, okx, hra]) h2, forkIdString_topStr _ (by simp [hp, oky, hrb]) h2']
    intro h
    exact topStr_diverge p x y ra rb hd hp hra hrb (Option.some.inj h)
  · -- single parts
    have hp0 : p = [] := by
      cases p with
      | nil => rfl
      | cons _ _ => exact absurd (by simp; omega) h2
    have hra0 : ra = [] := by
      cases ra with
      | nil => rfl
      | cons _ _ => exact absurd (by simp; omega) h2
    have hrb0 : rb = [] := by
      cases rb with
      | nil => rfl
      | cons _ _ => rw [hra0] at hlen; simp at hlen
    subst hp0; subst hra0; subst hrb0
    simp only [List.nil_append, forkIdString]
    intro h
    cases x with
    | arr i len st =>
      cases y with
      | arr i' len' st' =>
        simp only [diverge, Bool.and_eq_true, beq_iff_eq, bne_iff_ne, decide_eq_true_eq] at hd
        obtain ⟨⟨⟨⟨hl, _⟩, hne⟩, hil⟩, hil'⟩ := hd
        subst hl
        cases hx : singleId (.arr i len st) with
        | none =>
          have h1 : ¬ (len ≤ i) := by omega
          by_cases h0 : i = 0 <;> simp [singleId, h1, h0] at hx
          omega
        | some s =>
          rw [hx] at h
          have e1 := singleId_arr i len st s hx
          have e2 := singleId_arr i' len st' s h.symm
          rw [e1] at e2
          exact hne (itoa_inj (List.append_cancel_left e2))
      | key _ _ _ => simp [diverge] at hd
      | undet => simp [diverge] at hd
      | empty => simp [diverge] at hd
    | key k keys st =>
      cases y with
      | key k' keys' st' =>
        simp only [diverge, Bool.and_eq_true, beq_iff_eq, bne_iff_ne] at hd
        obtain ⟨⟨⟨⟨hl, _⟩, hne⟩, hk⟩, _⟩ := hd
        subst hl
        cases hx : singleId (.key k keys st) with
        | none =>
          simp [singleId] at hx
          exact absurd (by simpa using hk) hx.2
        | some s =>
          rw [hx] at h
          have e1 := singleId_key k keys st s hx
          have e2 := singleId_key k' keys st' s h.symm
          rw [e1] at e2
          simp only [seg] at e2
          exact hne (pathEscape_inj (List.append_cancel_left e2))
      | arr _ _ _ => simp [diverge] at hd
      | undet => simp [diverge] at hd
      | empty => simp [diverge] at hd
    | undet => simp [diverge] at hd
    | empty => simp [diverge] at hd

end Martian.ForkName
