/-
Lemmas for the batch / credit-table part of C11 (model: Martian/ForkNameBatch.lean).
Core Lean only.
-/
import Martian.ForkNameBatch
import Proofs.ForkName
import Proofs.ForkRoute

namespace Martian.ForkName

/-! ## digits -/

theorem digitsVal_all_digits : ∀ (s : Bytes) (acc v : Nat), digitsVal s acc = some v → ∀ c ∈ s, isDigit c = true := by
  intro s
  induction s with
  | nil => intro _ _ _ c hc; cases hc
  | cons a r ih =>
    intro acc v h c hc
    unfold digitsVal at h
    by_cases ha : isDigit a = true
    · simp only [ha, if_true] at h
      rcases List.mem_cons.mp hc with rfl | hc
      · exact ha
      · exact ih _ _ h c hc
    · simp [ha] at h

theorem padded_digits (w n : Nat) : ∀ c ∈ padded w n, isDigit c = true :=
  digitsVal_all_digits _ _ _ (digitsVal_padded w n)

theorem padded_ne_nil (w n : Nat) : padded w n ≠ [] := by
  intro h
  have := digitsVal_padded w n
  have h2 := digitsVal_itoa n
  have hi : itoa n = [] := by
    unfold padded at h
    exact (List.append_eq_nil_iff.mp h).2
  -- itoa n = [] is impossible: itoaAux (n+1) n [] always emits a digit
  unfold itoa itoaAux at hi
  split at hi
  · cases hi
  · -- the recursive call keeps a non-empty accumulator
    have : ∀ fuel m (acc : Bytes), acc ≠ [] → itoaAux fuel m acc ≠ [] := by
      intro fuel
      induction fuel with
      | zero => intro m acc ha; simpa [itoaAux] using ha
      | succ k ih =>
        intro m acc ha
        unfold itoaAux
        split
        · simp
        · exact ih _ _ (by simp)
    exact this _ _ _ (by simp) hi

theorem chunkIndexOf_padded (w i : Nat) : chunkIndexOf (padded w i) = i := by
  simp [chunkIndexOf, digitsVal_padded]

/-! ## prefixes -/

theorem startsWith_split_join (x : Bytes) : startsWith sSplitU (sJoinU ++ x) = false := by
  simp [startsWith, sSplitU, sJoinU]

theorem drop_split (x : Bytes) : (sSplitU ++ x).drop 6 = x := by simp [sSplitU]
theorem drop_join (x : Bytes) : (sJoinU ++ x).drop 5 = x := by simp [sJoinU]

/-! ## slotOf on what a job writes -/


theorem slotOf_jname (nchunks : Nat) (r : JobRec) (h : slotValid nchunks r) :
    slotOf nchunks r.jname.chunk r.jname.file = some (r.slot, r.file) := by
  obtain ⟨node, fork, slot, uniq, file, path, forkName, width⟩ := r
  cases slot with
  | chunk i =>
    simp only [slotValid] at h
    simp [JobRec.jname, slotOf, chunkIndexOf_padded, h.1]
  | split =>
    simp [JobRec.jname, slotOf, startsWith_append, drop_split]
  | join =>
    simp [JobRec.jname, slotOf, startsWith_append, startsWith_split_join, drop_join]
  | own =>
    simp only [slotValid] at h
    simp [JobRec.jname, slotOf, h.2.1, h.2.2]


theorem jname_wellFormed {top : Bytes} {nodes : List NodeM} {nch : Nat → Nat → Nat} {r : JobRec}
    (v : ValidJob top nodes nch r) : WellFormed r.jname := by
  obtain ⟨node, fork, slot, uniq, file, path, forkName, width⟩ := r
  have hs := v.slot_ok
  cases slot with
  | chunk i =>
    simp only [slotValid] at hs
    refine ⟨v.fork_ne, v.fork_dotfree, ?_, v.uniq_ok, hs.2⟩
    intro d hd
    simp only [JobRec.jname, Option.some.injEq] at hd
    subst hd
    exact ⟨padded_ne_nil _ _, padded_digits _ _⟩
  | split =>
    simp only [slotValid] at hs
    exact ⟨v.fork_ne, v.fork_dotfree, by intro d hd; simp [JobRec.jname] at hd, v.uniq_ok, hs⟩
  | join =>
    simp only [slotValid] at hs
    exact ⟨v.fork_ne, v.fork_dotfree, by intro d hd; simp [JobRec.jname] at hd, v.uniq_ok, hs⟩
  | own =>
    simp only [slotValid] at hs
    exact ⟨v.fork_ne, v.fork_dotfree, by intro d hd; simp [JobRec.jname] at hd, v.uniq_ok, hs.1⟩

theorem jname_fields (r : JobRec) : r.jname.fqid = r.path ∧ r.jname.forkPart = r.forkName ∧ r.jname.uniq = r.uniq := by
  obtain ⟨node, fork, slot, uniq, file, path, forkName, width⟩ := r
  cases slot <;> simp [JobRec.jname]

theorem route_jobName (top : Bytes) (nodes : List NodeM) (nch : Nat → Nat → Nat)
    (hnd : (nodes.map (·.fqid)).Nodup) (r : JobRec) (v : ValidJob top nodes nch r) :
    route top nodes r.name = some r.target := by
  obtain ⟨nd, hn, hfq, hfnd, hf⟩ := v.node_ok
  have wf := jname_wellFormed v
  obtain ⟨e1, e2, e3⟩ := jname_fields r
  have hx : r.jname = ⟨r.path, r.forkName, r.jname.chunk, r.uniq, r.jname.file⟩ := by
    rw [← e1, ← e2, ← e3]
  have := route_of_render top nodes r.node r.fork nd r.path r.forkName r.jname.chunk r.uniq r.jname.file
    hnd hn hfq v.path_ne v.path_free hfnd hf (hx ▸ wf)
  unfold JobRec.name JobRec.target
  rw [hx]
  exact this

theorem deliver_jobName (top : Bytes) (nodes : List NodeM) (nch : Nat → Nat → Nat)
    (hnd : (nodes.map (·.fqid)).Nodup) (r : JobRec) (v : ValidJob top nodes nch r) :
    deliver top nodes nch r.name = some ⟨r.owner, r.uniq.getD [], r.file⟩ := by
  unfold deliver
  rw [route_jobName top nodes nch hnd r v]
  simp only [JobRec.target]
  rw [slotOf_jname _ r v.slot_ok]
  rfl

/-! ## batches -/

theorem routeBatch_jobNames (top : Bytes) (nodes : List NodeM) (nch : Nat → Nat → Nat)
    (hnd : (nodes.map (·.fqid)).Nodup) (recs : List JobRec) (hv : ∀ r ∈ recs, ValidJob top nodes nch r) :
    routeBatch top nodes (recs.map JobRec.name) = recs.map fun r => some r.target := by
  unfold routeBatch
  rw [List.map_map]
  apply List.map_congr_left
  intro r hr
  exact route_jobName top nodes nch hnd r (hv r hr)


theorem creditTable_jobNames (top : Bytes) (nodes : List NodeM) (nch : Nat → Nat → Nat) (uq : Owner → Bytes)
    (hnd : (nodes.map (·.fqid)).Nodup) : ∀ (recs : List JobRec), (∀ r ∈ recs, ValidJob top nodes nch r) →
    creditTable top nodes nch uq (recs.map JobRec.name)
      = (recs.filter (JobRec.current uq)).map fun r => (r.owner, r.file) := by
  intro recs
  induction recs with
  | nil => intro _; rfl
  | cons r rest ih =>
    intro hv
    have hr := deliver_jobName top nodes nch hnd r (hv r (by simp))
    have ih' := ih (fun x hx => hv x (by simp [hx]))
    unfold creditTable at ih' ⊢
    simp only [List.map_cons, List.filterMap_cons, hr, Option.bind_some, credit]
    by_cases hc : cacheAccepts (uq r.owner) (r.uniq.getD []) = true
    · simp only [hc, if_true, List.filter_cons, JobRec.current, List.map_cons]
      rw [ih']
    · simp only [hc, Bool.false_eq_true, if_false, List.filter_cons, JobRec.current]
      rw [ih']

theorem creditedTo_jobNames (top : Bytes) (nodes : List NodeM) (nch : Nat → Nat → Nat) (uq : Owner → Bytes)
    (hnd : (nodes.map (·.fqid)).Nodup) (recs : List JobRec) (hv : ∀ r ∈ recs, ValidJob top nodes nch r) (o : Owner) :
    creditedTo top nodes nch uq (recs.map JobRec.name) o
      = ((recs.filter (JobRec.current uq)).filter (fun r => r.owner = o)).map (·.file) := by
  unfold creditedTo
  rw [creditTable_jobNames top nodes nch uq hnd recs hv]
  generalize recs.filter (JobRec.current uq) = l
  induction l with
  | nil => rfl
  | cons r rest ih =>
    by_cases h : r.owner = o
    · simp [List.filterMap_cons, List.filter_cons, h, ih]
    · simp [List.filterMap_cons, List.filter_cons, h, ih]

theorem creditTable_mem (top : Bytes) (nodes : List NodeM) (nch : Nat → Nat → Nat) (uq : Owner → Bytes)
    (batch : List Bytes) (o : Owner) (name : Bytes) (h : (o, name) ∈ creditTable top nodes nch uq batch) :
    ∃ s ∈ batch, ∃ d, deliver top nodes nch s = some d ∧ d.owner = o ∧ d.file = name ∧ uq o = d.uniq := by
  unfold creditTable at h
  obtain ⟨s, hs, hb⟩ := List.mem_filterMap.mp h
  refine ⟨s, hs, ?_⟩
  cases hd : deliver top nodes nch s with
  | none => rw [hd] at hb; simp at hb
  | some d =>
    rw [hd] at hb
    simp only [Option.bind_some, credit] at hb
    by_cases hc : cacheAccepts (uq d.owner) d.uniq = true
    · simp only [hc, if_true, Option.some.injEq, Prod.mk.injEq] at hb
      refine ⟨d, rfl, hb.1, hb.2, ?_⟩
      rw [← hb.1]
      simpa [cacheAccepts] using hc
    · simp [hc] at hb

theorem deliver_sound (top : Bytes) (nodes : List NodeM) (nch : Nat → Nat → Nat) (s : Bytes) (d : Delivery)
    (h : deliver top nodes nch s = some d) :
    ∃ nd p nm ch u file, nodes[d.owner.node]? = some nd ∧ (nd.fqid = top ++ cDot :: p ∨ nd.fqid = p) ∧ p ≠ [] ∧
      nd.forks[d.owner.fork]? = some nm ∧ s = JName.render ⟨p, nm, ch, u, file⟩ ∧
      slotOf (nch d.owner.node d.owner.fork) ch file = some (d.owner.slot, d.file) ∧ d.uniq = u.getD [] := by
  unfold deliver at h
  cases hr : route top nodes s with
  | none => rw [hr] at h; simp at h
  | some t =>
    obtain ⟨n, f, ch, u, file⟩ := t
    rw [hr] at h
    simp only at h
    cases hsl : slotOf (nch n f) ch file with
    | none => rw [hsl] at h; simp at h
    | some q =>
      obtain ⟨sl, name⟩ := q
      rw [hsl] at h
      simp only [Option.some.injEq] at h
      subst h
      obtain ⟨nd, p, nm, hn, hfq, hp, hf, hs⟩ := route_sound top nodes s n f ch u file hr
      exact ⟨nd, p, nm, ch, u, file, hn, hfq, hp, hf, hs, hsl, rfl⟩

end Martian.ForkName

namespace Martian.ForkName

/-! ## The hypotheses of the batch theorems as executable checks (evaluated by the driver on every real batch) -/

def slotValidB (nchunks : Nat) (r : JobRec) : Bool :=
  match r.slot with
  | .chunk i => decide (i < nchunks) && fileOK r.file
  | .split => fileOK (sSplitU ++ r.file)
  | .join => fileOK (sJoinU ++ r.file)
  | .own => fileOK r.file && !startsWith sSplitU r.file && !startsWith sJoinU r.file

def validJobB (top : Bytes) (nodes : List NodeM) (nch : Nat → Nat → Nat) (r : JobRec) : Bool :=
  (match nodes[r.node]? with
   | some nd => nd.fqid == top ++ cDot :: r.path && decide nd.forks.Nodup && nd.forks[r.fork]? == some r.forkName
   | none => false) &&
  !r.path.isEmpty && nodes.all (fun m => m.fqid != r.path) &&
  !r.forkName.isEmpty && r.forkName.all (· != cDot) &&
  (match r.uniq with | some u => u.length == 10 && u.all isLowerHex | none => true) &&
  slotValidB (nch r.node r.fork) r

def treeOkB (nodes : List NodeM) : Bool := decide (nodes.map (·.fqid)).Nodup

theorem slotValidB_sound (n : Nat) (r : JobRec) (h : slotValidB n r = true) : slotValid n r := by
  unfold slotValidB at h
  unfold slotValid
  cases hs : r.slot <;> simp_all

theorem validJobB_sound (top : Bytes) (nodes : List NodeM) (nch : Nat → Nat → Nat) (r : JobRec)
    (h : validJobB top nodes nch r = true) : ValidJob top nodes nch r := by
  unfold validJobB at h
  simp only [Bool.and_eq_true] at h
  obtain ⟨⟨⟨⟨⟨⟨h1, h2⟩, h3⟩, h4⟩, h5⟩, h6⟩, h7⟩ := h
  refine ⟨?_, ?_, ?_, ?_, ?_, ?_, slotValidB_sound _ _ h7⟩
  · cases hn : nodes[r.node]? with
    | none => simp [hn] at h1
    | some nd =>
      simp only [hn, Bool.and_eq_true, beq_iff_eq, decide_eq_true_eq] at h1
      exact ⟨nd, rfl, h1.1.1, h1.1.2, h1.2⟩
  · intro e; simp [e] at h2
  · intro m hm
    have := List.all_eq_true.mp h3 m hm
    simpa using this
  · intro e; simp [e] at h4
  · intro c hc
    have := List.all_eq_true.mp h5 c hc
    simpa using this
  · intro u hu
    simp only [hu, Bool.and_eq_true, beq_iff_eq] at h6
    exact h6

end Martian.ForkName
