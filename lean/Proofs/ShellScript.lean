import Martian.JobTemplate
import Proofs.ShellLine

/-! Job-script level lemmas (C18): template lines of the regenerated shapes, whole scripts. -/
namespace Martian.JobTemplate
open Martian.ShellQuote

/-! ### comments and line ends -/

theorem run_comment (X : Bytes) (h : (0x0A : UInt8) ∉ X) (cur : Bytes) (ws : WS) (a e : Bool) :
    run ⟨.comment, cur, ws, a, e⟩ X = some ([], ⟨.comment, cur, ws, a, e⟩) := by
  induction X with
  | nil => rfl
  | cons b r ih =>
    have hb : (b == 0x0A) = false := by
      apply Bool.eq_false_iff.mpr; intro e; exact h (by simp [eq_of_beq e])
    rw [run_cons]
    simp only [step, hb, Bool.false_eq_true, if_false, Option.bind_some]
    rw [ih (fun hr => h (List.mem_cons_of_mem _ hr))]
    rfl

/-- a line starting with `#` and holding no newline: nothing but the comment state -/
theorem run_hash_line (X : Bytes) (h : (0x0A : UInt8) ∉ X) :
    run clean (0x23 :: X) = some ([], ⟨.comment, [], .none, false, false⟩) := by
  rw [run_cons]
  have : step clean 0x23 = some ([], ⟨.comment, [], .none, false, false⟩) := by decide
  rw [this]
  simp only [Option.bind_some]
  rw [run_comment X h]
  rfl

/-- states in which a line may end -/
def LineEnd (st : St) : Prop := st.mode = .normal ∨ (st.mode = .comment ∧ st.ws = .none)

theorem step_nl {st : St} (h : LineEnd st) : step st 0x0A = some (flush st ++ [Tok.nl], clean) := by
  obtain ⟨m, cur, ws, a, e⟩ := st
  rcases h with h | ⟨h, hw⟩
  · simp only at h; subst h; simp [step, stepNormal]
  · simp only at h hw; subst h; subst hw; simp [step, flush]

theorem finish_lineEnd {st : St} (h : LineEnd st) : finish st = some (flush st) := by
  obtain ⟨m, cur, ws, a, e⟩ := st
  rcases h with h | ⟨h, _⟩ <;> simp only at h <;> subst h <;> rfl

/-- the text of one line read from a clean state: it may end there, and its tokens are `toks` -/
def LineRes (text : Bytes) (toks : List Tok) : Prop :=
  ∃ pre st, run clean text = some (pre, st) ∧ LineEnd st ∧ pre ++ flush st = toks

theorem lineRes_nil : LineRes [] [] := ⟨[], clean, rfl, Or.inl rfl, rfl⟩

/-! ### whole scripts -/

theorem script_run (f : SegLine → Bytes) (t : SegLine → List Tok) :
    ∀ (ls : List SegLine), ls ≠ [] → (∀ l ∈ ls, LineRes (f l) (t l)) →
      ∃ pre st, run clean (joinNl (ls.map f)) = some (pre, st) ∧ LineEnd st ∧
        pre ++ flush st = (match ls with | [] => [] | _ => joinToks (ls.map t))
  | [], h, _ => absurd rfl h
  | [l], _, hl => by
    obtain ⟨pre, st, h1, h2, h3⟩ := hl l (by simp)
    exact ⟨pre, st, by simpa [joinNl] using h1, h2, by simpa [joinToks] using h3⟩
  | l :: l' :: ls, _, hl => by
    obtain ⟨pre1, st1, h1, h2, h3⟩ := hl l (by simp)
    obtain ⟨pre2, st2, k1, k2, k3⟩ :=
      script_run f t (l' :: ls) (by simp) (fun x hx => hl x (List.mem_cons_of_mem _ hx))
    refine ⟨pre1 ++ (flush st1 ++ [Tok.nl] ++ pre2), st2, ?_, k2, ?_⟩
    · simp only [List.map_cons, joinNl]
      rw [run_emit_append h1, run_cons, step_nl h2]
      simp only [Option.bind_some]
      simp only [List.map_cons] at k1
      rw [k1]
      simp
    · simp only [List.map_cons, joinToks] at k3 ⊢
      rw [← h3, ← k3]
      simp

theorem script_toks (f : SegLine → Bytes) (t : SegLine → List Tok) (ls : List SegLine)
    (hl : ∀ l ∈ ls, LineRes (f l) (t l)) :
    shToks (joinNl (ls.map f)) = some (joinToks (ls.map t)) := by
  cases ls with
  | nil => rfl
  | cons l ls =>
    obtain ⟨pre, st, h1, h2, h3⟩ := script_run f t (l :: ls) (by simp) hl
    unfold shToks
    rw [h1]
    simp only [finish_lineEnd h2]
    simp only at h3
    rw [h3]

end Martian.JobTemplate
