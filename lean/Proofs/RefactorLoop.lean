/-
C19 — one pass of `removeUnusedCalls` at the level of the resolved call graph,
with every side condition DERIVED from the pass's own analyses (`unusedCalls`,
`unboundInputs`, `leftoverInputs`), and the remove-unused-calls loop.
-/
import Proofs.RefactorClosure
import Proofs.RefactorGraphDel
import Proofs.RefactorRemove

namespace Proofs.RefactorGraph
open Martian.Refactor

theorem graphRefs_call_mem (c : Callable) (r : Ref) (hr : r ∈ graphRefs c) (hk : r.kind = RefKind.call) :
    r.id ∈ callRefIdsOf c := by
  have hid : ∀ e : Exp, r ∈ refs e → r.id ∈ refIds RefKind.call e := by
    intro e he
    unfold refIds
    exact List.mem_map.mpr ⟨r, List.mem_filter.mpr ⟨he, by simp [hk]⟩, rfl⟩
  unfold graphRefs at hr
  unfold callRefIdsOf
  rcases List.mem_append.mp hr with hr | hr
  · rcases List.mem_append.mp hr with hr | hr
    · obtain ⟨k, hk', hr⟩ := List.mem_flatMap.mp hr
      obtain ⟨b, hb, hr⟩ := List.mem_flatMap.mp hr
      apply List.mem_append_right
      apply List.mem_flatMap.mpr
      refine ⟨k, hk', List.mem_append_left _ ?_⟩
      exact List.mem_flatMap.mpr ⟨b, hb, hid _ hr⟩
    · obtain ⟨b, hb, hr⟩ := List.mem_flatMap.mp hr
      apply List.mem_append_left; apply List.mem_append_left
      exact List.mem_flatMap.mpr ⟨b, hb, hid _ hr⟩
  · apply List.mem_append_left; apply List.mem_append_right
    exact List.mem_map.mpr ⟨r, List.mem_filter.mpr ⟨hr, by simp [hk]⟩, rfl⟩

/-- the removal list of one calls pass -/
def passRem (p : Program) : List CallRemoval :=
  ((p.callables.filter (·.isPipe)).map fun pipe => (⟨pipe.name, unusedCalls p pipe⟩ : CallRemoval)).filter
    (fun r => !r.ids.isEmpty)

def passSeeds (p : Program) : List Pair :=
  (p.callables.filter (·.isPipe)).flatMap fun pipe =>
    let ids := unusedCalls p pipe
    if ids.isEmpty then [] else (unboundInputs p pipe [] ids).map (fun i => (pipe.name, i))

theorem unusedCallPlan_eq (p : Program) :
    unusedCallPlan p = (passRem p, removeInputClosure p (closureFuel p * ((passSeeds p).length + 1)) (passSeeds p) []) :=
  rfl

/-- the entry of `passRem` for a callable of the program -/
theorem passRem_find (p : Program) (hnd : (p.callables.map (·.name)).Nodup) (c : Callable) (hc : c ∈ p.callables)
    (r : CallRemoval) (h : (passRem p).find? (fun r => r.pipe == c.name) = some r) :
    c.isPipe = true ∧ r.ids = unusedCalls p c := by
  have hm := List.mem_of_find?_eq_some h
  have hn := List.find?_some h
  simp only [passRem, List.mem_filter, List.mem_map] at hm
  obtain ⟨⟨pipe, ⟨hpm, hpp⟩, rfl⟩, _⟩ := hm
  simp only [beq_iff_eq] at hn
  have : pipe = c := by
    have hpm' : pipe ∈ p.callables := hpm
    clear h
    generalize p.callables = l at hnd hc hpm'
    induction l with
    | nil => cases hc
    | cons e t ih =>
      simp only [List.map_cons, List.nodup_cons] at hnd
      cases hc with
      | head =>
        cases hpm' with
        | head => rfl
        | tail _ hb => exact absurd (List.mem_map.mpr ⟨pipe, hb, hn⟩) hnd.1
      | tail _ ha =>
        cases hpm' with
        | head => exact absurd (List.mem_map.mpr ⟨c, ha, hn.symm⟩) hnd.1
        | tail _ hb => exact ih hnd.2 ha hb
  subst this
  exact ⟨hpp, rfl⟩

theorem passRem_find_none_top (p : Program) (hne : ∀ c ∈ p.callables, c.name ≠ "") (t : Call) :
    (passRem p).find? (fun r => r.pipe == (topPipe t).name) = none := by
  rw [List.find?_eq_none]
  intro r hr
  simp only [passRem, List.mem_filter, List.mem_map] at hr
  obtain ⟨⟨pipe, ⟨hpm, _⟩, rfl⟩, _⟩ := hr
  have := hne pipe hpm
  simpa [topPipe] using this

theorem StructOK_parts {p : Program} (hs : StructOK p = true) :
    (p.callables.map (·.name)).Nodup ∧ (∀ c ∈ p.callables, c.name ≠ "" ∧ structOKc c = true)
    ∧ (∀ t, p.top = some t → structOKc (topPipe t) = true) := by
  simp only [StructOK, Bool.and_eq_true, decide_eq_true_eq, List.all_eq_true, bne_iff_ne, ne_eq] at hs
  refine ⟨hs.1.1, hs.1.2, ?_⟩
  intro t ht
  simpa [ht] using hs.2

/-- (i) the calls that a pass deletes are referenced by nothing that remains -/
theorem passRem_ok (p : Program) (hs : StructOK p = true) : CallRemOK (passRem p) p = true := by
  have hsp := StructOK_parts hs
  have hdel : ∀ c, structOKc c = true → (c ∈ p.callables ∨ ∃ t, c = topPipe t) → pipeOKDel (passRem p) c = true := by
    intro c hc hwhere
    have hp := structOKc_parts hc
    simp only [pipeOKDel, Bool.and_eq_true, Bool.or_eq_true, List.all_eq_true, decide_eq_true_eq,
      bne_iff_ne, ne_eq, List.isEmpty_iff]
    refine ⟨⟨⟨⟨hp.1, hp.2.1⟩, fun k hk => (hp.2.2.1 k hk).1⟩, hp.2.2.2⟩, ?_⟩
    intro r hr
    by_cases hk : r.kind = RefKind.call
    · right
      unfold keepOf
      cases hf : (passRem p).find? (fun r => r.pipe == c.name) with
      | none => rfl
      | some e =>
        rcases hwhere with hcm | ⟨t, rfl⟩
        · obtain ⟨hpp, hids⟩ := passRem_find p hsp.1 c hcm e hf
          simp only [hpp, Bool.true_and, Bool.not_eq_true', List.contains_eq_mem, decide_eq_false_iff_not, hids]
          intro hmem
          exact (Proofs.Refactor.remove_unused_preserves p c r.id hmem).1 (graphRefs_call_mem c r hr hk)
        · rw [passRem_find_none_top p (fun c hc => (hsp.2.1 c hc).1) t] at hf
          cases hf
    · exact Or.inl hk
  simp only [CallRemOK, Bool.and_eq_true, List.all_eq_true, bne_iff_ne, ne_eq]
  refine ⟨⟨?_, fun c hc => hdel c (hsp.2.1 c hc).2 (Or.inl hc)⟩, ?_⟩
  · intro r hr
    simp only [passRem, List.mem_filter, List.mem_map] at hr
    obtain ⟨⟨pipe, ⟨hpm, _⟩, rfl⟩, _⟩ := hr
    exact (hsp.2.1 pipe hpm).1
  · cases ht : p.top with
    | none => rfl
    | some t => exact hdel _ (hsp.2.2 t ht) (Or.inr ⟨t, rfl⟩)

/-- (ii) deleting calls only removes things -/
theorem FDel_le (rem : List CallRemoval) (c : Callable) (hnd : (callIds c).Nodup) : CalLe (FDel rem c) c := by
  have hf := FDel_fields rem c
  refine ⟨hf.1, hf.2.1, hf.2.2.2.1 ▸ List.Sublist.refl _, hf.2.2.2.2.1 ▸ List.Sublist.refl _, ?_, ?_⟩
  · unfold FDel
    split
    · split
      · simp only [callIds]
        rw [foldl_removeCallById _ _ hnd]
        exact (List.filter_sublist).map _
      · exact List.Sublist.refl _
    · exact List.Sublist.refl _
  · intro k hk
    refine ⟨k, ?_, CallLe.refl k⟩
    unfold FDel at hk
    split at hk
    · split at hk
      · simp only at hk
        rw [foldl_removeCallById _ _ hnd] at hk
        exact (List.mem_filter.mp hk).1
      · exact hk
    · exact hk

theorem applyCallRemovals_le (rem : List CallRemoval) (p : Program) (hs : StructOK p = true) :
    ProgLe (applyCallRemovals rem p) p := by
  have hsp := StructOK_parts hs
  refine ⟨?_, fun t ht => ⟨t, ht, CallLe.refl t⟩⟩
  intro c' hc'
  rw [applyCallRemovals_eq] at hc'
  obtain ⟨c0, hc0, rfl⟩ := List.mem_map.mp hc'
  exact ⟨c0, hc0, FDel_le rem c0 (structOKc_parts (hsp.2.1 c0 hc0).2).2.1⟩

/-- (iii) the seeds of the cascade are unreferenced once the calls are gone -/
theorem passSeeds_ok (p : Program) (hs : StructOK p = true) :
    ∀ s ∈ passSeeds p, seedOK s.1 s.2 (applyCallRemovals (passRem p) p) = true := by
  have hsp := StructOK_parts hs
  intro s hsm
  simp only [passSeeds, List.mem_flatMap, List.mem_filter] at hsm
  obtain ⟨pipe, ⟨hpm, hpp⟩, hsm⟩ := hsm
  split at hsm
  · cases hsm
  · rename_i hne
    obtain ⟨i, hi, rfl⟩ := List.mem_map.mp hsm
    simp only [seedOK, Bool.and_eq_true, bne_iff_ne, ne_eq, List.all_eq_true, Bool.or_eq_true,
      Bool.not_eq_true']
    refine ⟨(hsp.2.1 pipe hpm).1, ?_⟩
    intro c' hc'
    rw [applyCallRemovals_eq] at hc'
    obtain ⟨c0, hc0, rfl⟩ := List.mem_map.mp hc'
    by_cases hn : (FDel (passRem p) c0).name = pipe.name
    · right
      have hc0p : c0 = pipe := eq_of_name_eq p hsp.1 c0 pipe hc0 hpm ((FDel_fields _ c0).1.symm.trans hn)
      subst hc0p
      have hps := structOKc_parts (hsp.2.1 c0 hc0).2
      -- the entry of the removal list for this pipeline
      have hentry : (passRem p).find? (fun r => r.pipe == c0.name) = some ⟨c0.name, unusedCalls p c0⟩ := by
        cases hf : (passRem p).find? (fun r => r.pipe == c0.name) with
        | some e =>
          have := passRem_find p hsp.1 c0 hc0 e hf
          have hen := List.find?_some hf
          simp only [beq_iff_eq] at hen
          cases e with
          | mk ep eids => simp only at this hen; rw [hen, this.2]
        | none =>
          exfalso
          rw [List.find?_eq_none] at hf
          have := hf ⟨c0.name, unusedCalls p c0⟩ (by
            simp only [passRem, List.mem_filter, List.mem_map]
            exact ⟨⟨c0, ⟨hc0, hpp⟩, rfl⟩, by simpa using hne⟩)
          simp at this
      have hcalls : (FDel (passRem p) c0).calls
          = c0.calls.filter (fun k => !(unusedCalls p c0).contains k.id) := by
        unfold FDel
        rw [hentry]
        simp only [hpp, if_true]
        exact foldl_removeCallById _ _ hps.2.1
      intro r hr
      cases hsr : selfRefTo i r with
      | false => rfl
      | true =>
        exfalso
        simp only [unboundInputs, List.mem_filter, Bool.not_eq_true', List.contains_eq_mem,
          decide_eq_false_iff_not] at hi
        apply hi.2
        have hf := FDel_fields (passRem p) c0
        unfold graphRefs at hr
        rcases List.mem_append.mp hr with hr | hr
        · rcases List.mem_append.mp hr with hr | hr
          · obtain ⟨k, hk, hr⟩ := List.mem_flatMap.mp hr
            obtain ⟨b, hb, hr⟩ := List.mem_flatMap.mp hr
            rw [hcalls] at hk
            have hk' := List.mem_filter.mp hk
            apply List.mem_append_right
            apply List.mem_flatMap.mpr
            refine ⟨k, List.mem_filter.mpr ⟨hk'.1, by simpa using hk'.2⟩, List.mem_append_left _ ?_⟩
            unfold bindsRefIds
            exact List.mem_flatMap.mpr ⟨b, mem_compiledBinds p c0 k (hps.2.2.1 k hk'.1).1 b hb,
              refs_self_mem i b.exp r hr hsr⟩
          · obtain ⟨b, hb, hr⟩ := List.mem_flatMap.mp hr
            apply List.mem_append_left; apply List.mem_append_left
            unfold bindsRefIds
            apply List.mem_flatMap.mpr
            refine ⟨b, List.mem_filter.mpr ⟨hf.2.2.2.1 ▸ hb, by simp⟩, refs_self_mem i b.exp r hr hsr⟩
        · apply List.mem_append_left; apply List.mem_append_right
          simp only [selfRefTo, Bool.and_eq_true, beq_iff_eq] at hsr
          exact List.mem_map.mpr ⟨r, List.mem_filter.mpr ⟨hf.2.2.2.2.1 ▸ hr, by simp [hsr.1]⟩, hsr.2⟩
    · exact Or.inl hn

/-- **one pass of removeUnusedCalls, side conditions derived**: on a structurally
well-formed program the graph after the pass is the graph of the kept calls
(resolved in the program before the pass) minus the cascaded input keys — at
every unfolding budget. -/
theorem calls_pass_graph (p : Program) (ti : TypeInfo) (hs : StructOK p = true) (big fuel : Nat) :
    let plan := unusedCallPlan p
    deepGraphAt big fuel (ti.removeInputs plan.2) (removeInputs plan.2 (applyCallRemovals plan.1 p))
      = plan.2.foldl (fun g xq => g.map (remNodeIn xq.1 xq.2))
          (deepGraphKeepAt (keepOf plan.1) big fuel ti p) := by
  simp only [unusedCallPlan_eq]
  have hg := closure_good p (passSeeds p) (closureFuel p * ((passSeeds p).length + 1)) (passSeeds p) []
    (by intro j hj; simp at hj) (by intro e he; exact Or.inl he)
  have hok := remInsOK_of_good p (applyCallRemovals (passRem p) p) hs (applyCallRemovals_le _ p hs)
    (passSeeds p) (passSeeds_ok p hs) _ [] (by simpa using hg)
  have hok' : RemInsOK (removeInputClosure p (closureFuel p * ((passSeeds p).length + 1)) (passSeeds p) [])
      (applyCallRemovals (passRem p) p) = true := by simpa [removeInputs] using hok
  rw [remove_inputs_graph_at _ ti _ hok' big fuel]
  congr 1
  unfold deepGraphAt deepGraphKeepAt
  have htop : (applyCallRemovals (passRem p) p).top = p.top := rfl
  rw [htop]
  cases ht : p.top with
  | none => rfl
  | some t => exact remove_calls_nodes (passRem p) ti p (passRem_ok p hs) big fuel t ht

/-! ### the remove-unused-calls loop -/

/-- node `n'` is node `n` with some resolved inputs removed and nothing else changed -/
def NodeLe (n' n : Node) : Prop :=
  n'.fqid = n.fqid ∧ n'.callable = n.callable ∧ n'.isPipe = n.isPipe ∧ n'.outputs = n.outputs
  ∧ n'.retained = n.retained ∧ n'.inputs.Sublist n.inputs

/-- every node of `g'` is a node of `g`, with the same resolved outputs and
retained references and with resolved inputs that are a sub-list of the
original ones (same keys, same resolved values) -/
def GraphLe (g' g : List Node) : Prop := ∀ n' ∈ g', ∃ n ∈ g, NodeLe n' n

theorem GraphLe.refl (g : List Node) : GraphLe g g :=
  fun n hn => ⟨n, hn, rfl, rfl, rfl, rfl, rfl, List.Sublist.refl _⟩

theorem GraphLe.trans {a b c : List Node} (h1 : GraphLe a b) (h2 : GraphLe b c) : GraphLe a c := by
  intro n hn
  obtain ⟨m, hm, hnm⟩ := h1 n hn
  obtain ⟨k, hk, hmk⟩ := h2 m hm
  exact ⟨k, hk, hnm.1.trans hmk.1, hnm.2.1.trans hmk.2.1, hnm.2.2.1.trans hmk.2.2.1,
    hnm.2.2.2.1.trans hmk.2.2.2.1, hnm.2.2.2.2.1.trans hmk.2.2.2.2.1, hnm.2.2.2.2.2.trans hmk.2.2.2.2.2⟩

theorem dropKeyEnv_sublist (q : String) (env : Env) : (dropKeyEnv q env).Sublist env := by
  induction env with
  | nil => exact List.Sublist.slnil
  | cons e t ih =>
    obtain ⟨k, v⟩ := e
    simp only [dropKeyEnv]
    split
    · exact List.Sublist.cons _ (List.Sublist.refl _)
    · exact List.Sublist.cons_cons _ ih

theorem graphLe_remNodeIn (x q : String) (g : List Node) : GraphLe (g.map (remNodeIn x q)) g := by
  intro n' hn'
  obtain ⟨n, hn, rfl⟩ := List.mem_map.mp hn'
  refine ⟨n, hn, ?_⟩
  unfold remNodeIn
  split
  · exact ⟨rfl, rfl, rfl, rfl, rfl, dropKeyEnv_sublist q _⟩
  · exact ⟨rfl, rfl, rfl, rfl, rfl, List.Sublist.refl _⟩

theorem graphLe_fold (pairs : List Pair) : ∀ g : List Node,
    GraphLe (pairs.foldl (fun g xq => g.map (remNodeIn xq.1 xq.2)) g) g := by
  induction pairs with
  | nil => intro g; exact GraphLe.refl g
  | cons xq rest ih =>
    intro g
    simp only [List.foldl_cons]
    exact (ih _).trans (graphLe_remNodeIn xq.1 xq.2 g)

theorem nodesOfKeep_subset (keep : Callable → String → Bool) (ti : TypeInfo) (p : Program) (big : Nat) :
    ∀ fuel pipe self pre k, ∀ n ∈ nodesOfKeep keep ti p big fuel pipe self pre k,
      n ∈ nodesOf ti p big fuel pipe self pre k := by
  intro fuel
  induction fuel with
  | zero => intro pipe self pre k n hn; simp [nodesOfKeep] at hn
  | succ fuel ih =>
    intro pipe self pre k n hn
    rw [nodesOfKeep] at hn
    rw [nodesOf]
    cases hd : p.find? k.decId with
    | none => simp [hd] at hn
    | some d =>
      simp only [hd] at hn ⊢
      cases hn with
      | head => exact List.mem_cons_self ..
      | tail _ hn =>
        apply List.mem_cons_of_mem
        split at hn
        · rename_i hp
          rw [if_pos hp]
          obtain ⟨k', hk', hn⟩ := List.mem_flatMap.mp hn
          exact List.mem_flatMap.mpr ⟨k', (List.mem_filter.mp hk').1, ih d _ _ k' n hn⟩
        · cases hn

theorem structOKc_of_le (c c0 : Callable) (hle : CalLe c c0) (hs : structOKc c0 = true) : structOKc c = true := by
  have hp := structOKc_parts hs
  simp only [structOKc, Bool.and_eq_true, Bool.or_eq_true, List.all_eq_true, decide_eq_true_eq,
    List.isEmpty_iff]
  refine ⟨⟨⟨?_, List.Nodup.sublist hle.2.2.2.2.1 hp.2.1⟩, ?_⟩, noStar_sublist hle.2.2.1 hp.2.2.2⟩
  · cases hp.1 with
    | inl h => exact Or.inl (hle.2.1.trans h)
    | inr h =>
      right
      have h0 : callIds c0 = [] := by simp [callIds, h]
      have : callIds c = [] := List.eq_nil_of_sublist_nil (h0 ▸ hle.2.2.2.2.1)
      simpa [callIds] using this
  · intro k hk
    obtain ⟨k0, hk0, hkle⟩ := hle.2.2.2.2.2 k hk
    exact ⟨noStar_sublist hkle.2.2 (hp.2.2.1 k0 hk0).1,
      List.Nodup.sublist (hkle.2.2.map _) (hp.2.2.1 k0 hk0).2⟩

/-- a pass keeps the program structurally well formed -/
theorem pass_structOK (p : Program) (hs : StructOK p = true) (rem : List CallRemoval) (ins : List Pair) :
    StructOK (removeInputs ins (applyCallRemovals rem p)) = true := by
  have hsp := StructOK_parts hs
  rw [removeInputs_eq, applyCallRemovals_eq]
  simp only [StructOK, Bool.and_eq_true, decide_eq_true_eq, List.all_eq_true, bne_iff_ne, ne_eq,
    List.map_map]
  have hle : ∀ c ∈ p.callables, CalLe (foldF ins (FDel rem c)) c := fun c hc =>
    (foldF_le ins _).trans (FDel_le rem c (structOKc_parts (hsp.2.1 c hc).2).2.1)
  refine ⟨⟨?_, ?_⟩, ?_⟩
  · have : p.callables.map ((fun c => c.name) ∘ foldF ins ∘ FDel rem) = p.callables.map (·.name) := by
      apply List.map_congr_left
      intro c hc
      exact (hle c hc).1
    rw [this]; exact hsp.1
  · intro c hc
    obtain ⟨c0, hc0, rfl⟩ := List.mem_map.mp hc
    refine ⟨?_, structOKc_of_le _ c0 (hle c0 hc0) (hsp.2.1 c0 hc0).2⟩
    have := (hle c0 hc0).1
    simp only [Function.comp] at this ⊢
    rw [this]; exact (hsp.2.1 c0 hc0).1
  · cases ht : p.top with
    | none => simp
    | some t =>
      simp only [Option.map_some]
      exact structOKc_of_le _ _ (topPipe_le _ _ (foldB_le ins t)) (hsp.2.2 t ht)

/-- **the remove-unused-calls loop at the level of the resolved call graph**: on a
structurally well-formed program, after any number of iterations of the loop of
`Refactor` in its remove-unused-calls mode (no `-top-calls`), every node of the
resolved call graph is a node of the original graph with the same fqid,
callable, resolved outputs and retained references, and its resolved inputs are
a sub-list of the original resolved inputs (removed keys only; every remaining
input resolves to the same stage output / literal) — at every unfolding budget.
All side conditions are derived from the loop's own analyses. -/
theorem remove_calls_loop_graph (p0 : Program) (big fuel : Nat) : ∀ (n : Nat) (p : Program) (ti : TypeInfo),
    StructOK p = true →
    ∃ ti', GraphLe (deepGraphAt big fuel ti' (removeLoop p0 true [] n p)) (deepGraphAt big fuel ti p) := by
  intro n
  induction n with
  | zero => intro p ti _; exact ⟨ti, GraphLe.refl _⟩
  | succ n ih =>
    intro p ti hs
    simp only [removeLoop, removeStep, removeUnusedCallsPass, List.isEmpty_iff]
    cases hplan : unusedCallPlan p with
    | mk rem ins =>
      by_cases hrem : rem = []
      · simp only [hrem, if_true, Bool.or_false, Bool.false_eq_true, if_false]
        exact ⟨ti, GraphLe.refl _⟩
      · simp only [hrem, if_false, Bool.or_false, if_true]
        have hpass := calls_pass_graph p ti hs big fuel
        simp only [hplan] at hpass
        obtain ⟨ti', hti'⟩ := ih (removeInputs ins (applyCallRemovals rem p)) (ti.removeInputs ins)
          (pass_structOK p hs rem ins)
        refine ⟨ti', hti'.trans ?_⟩
        rw [hpass]
        refine (graphLe_fold ins _).trans ?_
        intro n' hn'
        refine ⟨n', ?_, rfl, rfl, rfl, rfl, rfl, List.Sublist.refl _⟩
        unfold deepGraphKeepAt at hn'
        unfold deepGraphAt
        cases ht : p.top with
        | none => simp [ht] at hn'
        | some t =>
          simp only [ht] at hn' ⊢
          exact nodesOfKeep_subset _ ti p big fuel _ _ _ _ n' hn'

/-! ### the loop, exactly: an iteration of the calls pass up to its fixed point -/


/-- `s'` is `s` after one calls pass that had something to delete, and its graph is
EXACTLY the graph of the calls the pass keeps — resolved in `s`, every kept node with
the fqid / callable / resolved outputs / retained references / resolved inputs it has
in `s` — minus the cascaded input keys. -/
def PassExact (big fuel : Nat) (s s' : TypeInfo × Program) : Prop :=
  StructOK s.2 = true ∧ (unusedCallPlan s.2).1 ≠ [] ∧ s' = callsPass s ∧
  deepGraphAt big fuel s'.1 s'.2
    = (unusedCallPlan s.2).2.foldl (fun g xq => g.map (remNodeIn xq.1 xq.2))
        (deepGraphKeepAt (keepOf (unusedCallPlan s.2).1) big fuel s.1 s.2)

/-- **the remove-unused-calls loop, exact**: with fuel `n` the loop is `m ≤ n` calls
passes; every one of them had something to delete and satisfies the exact pass
equation (`PassExact`: deleted = the `unusedCallPlan` of that iteration, everything
else unchanged); and unless the fuel ran out (`m = n`) the result is a fixed point —
no call of it is unused.  Neither the identity (on a program with an unused call)
nor a loop that deletes more than the plans satisfies this. -/
theorem remove_calls_loop_exact (p0 : Program) (big fuel : Nat) : ∀ (n : Nat) (p : Program) (ti : TypeInfo),
    StructOK p = true →
    ∃ m, m ≤ n ∧ removeLoop p0 true [] n p = (callsIter m (ti, p)).2
      ∧ (∀ k, k < m → PassExact big fuel (callsIter k (ti, p)) (callsIter (k + 1) (ti, p)))
      ∧ (m < n → (unusedCallPlan (callsIter m (ti, p)).2).1 = []) := by
  intro n
  induction n with
  | zero =>
    intro p ti _
    exact ⟨0, Nat.le_refl _, rfl, fun k hk => absurd hk (Nat.not_lt_zero _), fun h => absurd h (Nat.lt_irrefl _)⟩
  | succ n ih =>
    intro p ti hs
    simp only [removeLoop, removeStep, removeUnusedCallsPass, List.isEmpty_iff]
    cases hplan : unusedCallPlan p with
    | mk rem ins =>
      by_cases hrem : rem = []
      · simp only [hrem, if_true, Bool.or_false, Bool.false_eq_true, if_false]
        refine ⟨0, Nat.zero_le _, rfl, fun k hk => absurd hk (Nat.not_lt_zero _), fun _ => ?_⟩
        show (unusedCallPlan p).1 = []
        rw [hplan]; exact hrem
      · simp only [hrem, if_false, Bool.or_false, if_true]
        have hpass := calls_pass_graph p ti hs big fuel
        have hcp : callsPass (ti, p) = (ti.removeInputs ins, removeInputs ins (applyCallRemovals rem p)) := by
          simp only [callsPass, hplan]
        obtain ⟨m, hmn, heq, hsteps, hfix⟩ := ih (removeInputs ins (applyCallRemovals rem p)) (ti.removeInputs ins)
          (pass_structOK p hs rem ins)
        refine ⟨m + 1, Nat.succ_le_succ hmn, ?_, ?_, ?_⟩
        · show _ = (callsIter m (callsPass (ti, p))).2
          rw [hcp]; exact heq
        · intro k hk
          cases k with
          | zero =>
            refine ⟨hs, ?_, rfl, ?_⟩
            · show (unusedCallPlan p).1 ≠ []
              rw [hplan]; exact hrem
            · show deepGraphAt big fuel (callsPass (ti, p)).1 (callsPass (ti, p)).2 = _
              exact hpass
          | succ k =>
            show PassExact big fuel (callsIter k (callsPass (ti, p))) (callsIter (k + 1) (callsPass (ti, p)))
            rw [hcp]
            exact hsteps k (Nat.lt_of_succ_lt_succ hk)
        · intro hlt
          show (unusedCallPlan (callsIter m (callsPass (ti, p))).2).1 = []
          rw [hcp]
          exact hfix (Nat.lt_of_succ_lt_succ hlt)

/-! ### the loop as ONE equation about the original graph -/


theorem keepOf_eq_keepN (rem : List CallRemoval) :
    keepOf rem = fun c i => keepN rem c.name c.isPipe i := by
  funext c i; rfl

/-- `calls_pass_graph` for a restricted graph -/
theorem calls_pass_graphK (p : Program) (ti : TypeInfo) (hs : StructOK p = true) (big fuel : Nat)
    (κ : String → Bool → String → Bool) :
    deepGraphKeepAt (fun c i => κ c.name c.isPipe i) big fuel (ti.removeInputs (unusedCallPlan p).2)
        (removeInputs (unusedCallPlan p).2 (applyCallRemovals (unusedCallPlan p).1 p))
      = (unusedCallPlan p).2.foldl (fun g xq => g.map (remNodeIn xq.1 xq.2))
          (deepGraphKeepAt (fun c i => keepN (unusedCallPlan p).1 c.name c.isPipe i && κ c.name c.isPipe i)
            big fuel ti p) := by
  simp only [unusedCallPlan_eq]
  have hg := closure_good p (passSeeds p) (closureFuel p * ((passSeeds p).length + 1)) (passSeeds p) []
    (by intro j hj; simp at hj) (by intro e he; exact Or.inl he)
  have hok := remInsOK_of_good p (applyCallRemovals (passRem p) p) hs (applyCallRemovals_le _ p hs)
    (passSeeds p) (passSeeds_ok p hs) _ [] (by simpa using hg)
  have hok' : RemInsOK (removeInputClosure p (closureFuel p * ((passSeeds p).length + 1)) (passSeeds p) [])
      (applyCallRemovals (passRem p) p) = true := by simpa [removeInputs] using hok
  rw [remove_inputs_graph_atK _ ti _ hok' κ big fuel]
  congr 1
  unfold deepGraphKeepAt
  have htop : (applyCallRemovals (passRem p) p).top = p.top := rfl
  rw [htop]
  cases ht : p.top with
  | none => rfl
  | some t =>
    simp only []
    rw [remove_calls_nodesK (passRem p) ti p (passRem_ok p hs) κ big fuel t ht, keepOf_eq_keepN]


theorem callsIter_structOK : ∀ (m : Nat) (s : TypeInfo × Program), StructOK s.2 = true →
    StructOK (callsIter m s).2 = true
  | 0, _, hs => hs
  | m + 1, s, hs => callsIter_structOK m (callsPass s) (pass_structOK s.2 hs _ _)

theorem callsIter_ti : ∀ (m : Nat) (s : TypeInfo × Program),
    (callsIter m s).1 = s.1.removeInputs (loopPairs m s)
  | 0, _ => rfl
  | m + 1, s => by
    show (callsIter m (callsPass s)).1 = _
    rw [callsIter_ti m (callsPass s)]
    simp only [loopPairs, TypeInfo.removeInputs, List.foldl_append]
    rfl

theorem calls_iter_graphK (big fuel : Nat) : ∀ (m : Nat) (s : TypeInfo × Program) (κ : String → Bool → String → Bool),
    StructOK s.2 = true →
    deepGraphKeepAt (fun c i => κ c.name c.isPipe i) big fuel (callsIter m s).1 (callsIter m s).2
      = (loopPairs m s).foldl (fun g xq => g.map (remNodeIn xq.1 xq.2))
          (deepGraphKeepAt (fun c i => loopKeep m s c.name c.isPipe i && κ c.name c.isPipe i) big fuel s.1 s.2) := by
  intro m
  induction m with
  | zero =>
    intro s κ _
    simp only [callsIter, loopPairs, loopKeep, List.foldl_nil, Bool.true_and]
  | succ m ih =>
    intro s κ hs
    show deepGraphKeepAt _ big fuel (callsIter m (callsPass s)).1 (callsIter m (callsPass s)).2 = _
    rw [ih (callsPass s) κ (pass_structOK s.2 hs _ _)]
    have hp := calls_pass_graphK s.2 s.1 hs big fuel (fun n b i => loopKeep m (callsPass s) n b i && κ n b i)
    show List.foldl _ (deepGraphKeepAt _ big fuel (s.1.removeInputs (unusedCallPlan s.2).2)
      (removeInputs (unusedCallPlan s.2).2 (applyCallRemovals (unusedCallPlan s.2).1 s.2))) _ = _
    rw [hp]
    simp only [loopPairs, loopKeep, List.foldl_append, Bool.and_assoc]

theorem deepGraphKeepAt_true (big fuel : Nat) (ti : TypeInfo) (p : Program) :
    deepGraphKeepAt (fun _ _ => true) big fuel ti p = deepGraphAt big fuel ti p := by
  unfold deepGraphKeepAt deepGraphAt
  cases p.top with
  | none => rfl
  | some t => exact nodesOfKeep_true ti p big fuel _ _ _ _

/-- `m` calls passes, as one equation about the ORIGINAL graph -/
theorem calls_iter_graph (big fuel : Nat) (m : Nat) (s : TypeInfo × Program) (hs : StructOK s.2 = true) :
    deepGraphAt big fuel (callsIter m s).1 (callsIter m s).2
      = (loopPairs m s).foldl (fun g xq => g.map (remNodeIn xq.1 xq.2))
          (deepGraphKeepAt (fun c i => loopKeep m s c.name c.isPipe i) big fuel s.1 s.2) := by
  have := calls_iter_graphK big fuel m s (fun _ _ _ => true) hs
  simp only [Bool.and_true] at this
  rw [← this, deepGraphKeepAt_true]

/-- **the remove-unused-calls loop as one equation**: the graph after the loop (type table
`ti.removeInputs pairs`) is EXACTLY the original graph restricted to the calls every
pass keeps (`loopKeep`), every remaining node as it is in the original graph, minus the
cascaded input keys (`loopPairs`); the loop made `m ≤ n` passes, each of which had
something to delete, and unless the fuel ran out its result has no unused call. -/
theorem remove_calls_loop_graph_eq (p0 : Program) (big fuel n : Nat) (p : Program) (ti : TypeInfo)
    (hs : StructOK p = true) :
    ∃ m, m ≤ n
      ∧ removeLoop p0 true [] n p = (callsIter m (ti, p)).2
      ∧ deepGraphAt big fuel (ti.removeInputs (loopPairs m (ti, p))) (removeLoop p0 true [] n p)
          = (loopPairs m (ti, p)).foldl (fun g xq => g.map (remNodeIn xq.1 xq.2))
              (deepGraphKeepAt (fun c i => loopKeep m (ti, p) c.name c.isPipe i) big fuel ti p)
      ∧ (∀ k, k < m → (unusedCallPlan (callsIter k (ti, p)).2).1 ≠ [])
      ∧ (m < n → (unusedCallPlan (removeLoop p0 true [] n p)).1 = []) := by
  obtain ⟨m, hmn, heq, hsteps, hfix⟩ := remove_calls_loop_exact p0 big fuel n p ti hs
  refine ⟨m, hmn, heq, ?_, fun k hk => (hsteps k hk).2.1, fun h => by rw [heq]; exact hfix h⟩
  rw [heq, ← callsIter_ti m (ti, p)]
  exact calls_iter_graph big fuel m (ti, p) hs

/-- the kept graph is an ordered sub-list of the full graph: deleting calls deletes
whole subtrees and permutes / duplicates nothing -/
theorem nodesOfKeep_sublist (keep : Callable → String → Bool) (ti : TypeInfo) (p : Program) (big : Nat) :
    ∀ fuel pipe self pre k, (nodesOfKeep keep ti p big fuel pipe self pre k).Sublist
      (nodesOf ti p big fuel pipe self pre k) := by
  intro fuel
  induction fuel with
  | zero => intro pipe self pre k; simp [nodesOfKeep, nodesOf]
  | succ fuel ih =>
    intro pipe self pre k
    rw [nodesOfKeep, nodesOf]
    cases hd : p.find? k.decId with
    | none => simp
    | some d =>
      simp only []
      apply List.Sublist.cons_cons
      cases hp : d.isPipe with
      | false => simp
      | true =>
        simp only [if_true]
        generalize d.calls = l
        induction l with
        | nil => simp
        | cons k' rest ihl =>
          simp only [List.filter_cons]
          split
          · simp only [List.flatMap_cons]
            exact List.Sublist.append (ih d _ _ k') ihl
          · simp only [List.flatMap_cons]
            exact List.Sublist.trans ihl (List.sublist_append_right _ _)

theorem deepGraphKeepAt_sublist (keep : Callable → String → Bool) (big fuel : Nat) (ti : TypeInfo) (p : Program) :
    (deepGraphKeepAt keep big fuel ti p).Sublist (deepGraphAt big fuel ti p) := by
  unfold deepGraphKeepAt deepGraphAt
  cases p.top with
  | none => exact List.Sublist.refl _
  | some t => exact nodesOfKeep_sublist keep ti p big fuel _ _ _ _

end Proofs.RefactorGraph
