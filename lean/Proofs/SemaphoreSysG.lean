import Martian.SemaphoreSys
import Proofs.Semaphore
import Proofs.SemaphoreRun
import Proofs.SemaphoreCaller

/-! G-level facts (one semaphore with its ghost holders) used by the system proofs. -/
namespace Martian.Semaphore

theorem findHeld_of_mem (j : Nat) (l : List Waiter) (h : j ∈ l.map Prod.fst) :
    ∃ w, findHeld j l = some w ∧ w.1 = j := by
  induction l with
  | nil => simp at h
  | cons x xs ih =>
    simp only [findHeld]
    by_cases hx : x.1 = j
    · exact ⟨x, by simp [hx], hx⟩
    · simp only [hx, if_false]
      apply ih
      simp only [List.map_cons, List.mem_cons] at h
      rcases h with h | h
      · exact absurd h.symm hx
      · exact h

theorem hid_eraseHeld (j : Nat) (l : List Waiter) :
    (eraseHeld j l).map Prod.fst = (l.map Prod.fst).erase j := by
  induction l with
  | nil => rfl
  | cons x xs ih =>
    simp only [eraseHeld, List.map_cons]
    by_cases hx : x.1 = j
    · simp [hx]
    · simp only [hx, if_false, List.map_cons, ih]
      rw [List.erase_cons_tail (by simpa using hx)]

/-- the three outcomes of `Acquire` -/
theorem gstep_acquire_cases (g : G) (j : Nat) (a : Int) :
    let q := gstep g (.acquire j a)
    (grantsOf q.2 = [(j, a)] ∧ hasReject q.2 = false ∧ q.1.held = g.held ++ [(j, a)] ∧
        q.1.sem.waiters = g.sem.waiters) ∨
    (grantsOf q.2 = [] ∧ hasReject q.2 = true ∧ q.1 = g ∧ g.sem.max < a) ∨
    (grantsOf q.2 = [] ∧ hasReject q.2 = false ∧ q.1.held = g.held ∧
        q.1.sem.waiters = g.sem.waiters ++ [(j, a)]) := by
  simp only [gstep, toSemOp, step]
  by_cases hf : a ≤ g.sem.cur - g.sem.reserved ∧ g.sem.waiters.isEmpty = true
  · left; rw [if_pos hf]; simp [hasReject]
  · by_cases hm : g.sem.max < a
    · right; left; rw [if_neg hf, if_pos hm]; simp [hasReject, hm]
    · right; right; rw [if_neg hf, if_neg hm]; simp [hasReject]

theorem gstep_cur (g : G) (op : COp) (h : op.isUpdSize = false)
    (h2 : ∀ n, op ≠ .updActual n) (h3 : ∀ f u, op ≠ .updFreeUsed f u) :
    (gstep g op).1.sem.cur = g.sem.cur := by
  cases op with
  | acquire id n =>
    simp only [gstep, toSemOp]
    exact step_cur_acqrel g.sem (.acquire id n) rfl
  | release id =>
    simp only [gstep, toSemOp]
    cases hf : findHeld id g.held with
    | none => rfl
    | some w => exact step_cur_acqrel g.sem (.release w.2) rfl
  | updActual n => exact absurd rfl (h2 n)
  | updSize n => simp [COp.isUpdSize] at h
  | updFreeUsed f u => exact absurd rfl (h3 f u)

/-- `Release` by a holder: its holding goes, the oldest waiters that now fit become holders -/
theorem gstep_release_holder (g : G) (j : Nat) (hj : j ∈ hidG g) :
    let q := gstep g (.release j)
    hidG q.1 = (hidG g).erase j ++ (grantsOf q.2).map Prod.fst ∧
    grantsOf q.2 ++ q.1.sem.waiters = g.sem.waiters := by
  obtain ⟨w, hw, _⟩ := findHeld_of_mem j g.held hj
  simp only [gstep, toSemOp, hw, hidG, List.map_append, hid_eraseHeld]
  refine ⟨trivial, ?_⟩
  have := step_fifo g.sem (.release w.2)
  simpa [acceptedOf] using this

end Martian.Semaphore
