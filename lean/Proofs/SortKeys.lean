import Martian.SortKeys

/-! Lemmas about key order, sorting association lists with distinct keys and the
lookup-based comparison `matchAll` (shared by C10 and C15). -/
namespace Martian.SortKeys
open List

theorem keyLe_refl : ∀ a : Key, keyLe a a = true
  | [] => rfl
  | a :: as => by simp [keyLe, keyLe_refl as]

theorem keyLe_total : ∀ a b : Key, (keyLe a b || keyLe b a) = true
  | [], _ => by simp [keyLe]
  | _ :: _, [] => by simp [keyLe]
  | a :: as, b :: bs => by
    have ih := keyLe_total as bs
    simp only [keyLe, Bool.or_eq_true, Bool.and_eq_true, decide_eq_true_eq, beq_iff_eq] at ih ⊢
    rcases Nat.lt_trichotomy a b with h | h | h
    · exact Or.inl (Or.inl h)
    · subst h
      rcases ih with h | h
      · exact Or.inl (Or.inr ⟨rfl, h⟩)
      · exact Or.inr (Or.inr ⟨rfl, h⟩)
    · exact Or.inr (Or.inl h)

theorem keyLe_trans : ∀ a b c : Key, keyLe a b = true → keyLe b c = true → keyLe a c = true
  | [], _, _, _, _ => by simp [keyLe]
  | _ :: _, [], _, h, _ => by simp [keyLe] at h
  | _ :: _, _ :: _, [], _, h => by simp [keyLe] at h
  | a :: as, b :: bs, c :: cs, h1, h2 => by
    simp only [keyLe, Bool.or_eq_true, Bool.and_eq_true, decide_eq_true_eq, beq_iff_eq] at h1 h2 ⊢
    rcases h1 with h1 | ⟨rfl, h1⟩
    · rcases h2 with h2 | ⟨rfl, _⟩
      · exact Or.inl (Nat.lt_trans h1 h2)
      · exact Or.inl h1
    · rcases h2 with h2 | ⟨rfl, h2⟩
      · exact Or.inl h2
      · exact Or.inr ⟨rfl, keyLe_trans as bs cs h1 h2⟩

theorem keyLe_antisymm : ∀ a b : Key, keyLe a b = true → keyLe b a = true → a = b
  | [], [], _, _ => rfl
  | [], _ :: _, _, h => by simp [keyLe] at h
  | _ :: _, [], h, _ => by simp [keyLe] at h
  | a :: as, b :: bs, h1, h2 => by
    simp only [keyLe, Bool.or_eq_true, Bool.and_eq_true, decide_eq_true_eq, beq_iff_eq] at h1 h2
    rcases h1 with h1 | ⟨rfl, h1⟩
    · rcases h2 with h2 | ⟨rfl, _⟩
      · omega
      · omega
    · rcases h2 with h2 | ⟨_, h2⟩
      · omega
      · rw [keyLe_antisymm as bs h1 h2]

/-! ### distinct keys -/

theorem nodupKeys_iff {V : Type} : ∀ l : List (Key × V), nodupKeys l = true ↔ (l.map Prod.fst).Nodup
  | [] => by simp [nodupKeys]
  | (k, v) :: r => by
    simp only [nodupKeys, Bool.and_eq_true, Bool.not_eq_true', map_cons, nodup_cons, nodupKeys_iff r]
    constructor
    · rintro ⟨h1, h2⟩
      refine ⟨?_, h2⟩
      intro hm
      rcases mem_map.mp hm with ⟨q, hq, rfl⟩
      have : r.any (fun q' => q'.1 == q.1) = true := any_eq_true.mpr ⟨q, hq, by simp⟩
      rw [this] at h1; cases h1
    · rintro ⟨h1, h2⟩
      refine ⟨?_, h2⟩
      cases hany : r.any (fun q => q.1 == k)
      · rfl
      · rcases any_eq_true.mp hany with ⟨q, hq, hqk⟩
        exact absurd (mem_map.mpr ⟨q, hq, by simpa using hqk⟩) h1

theorem mem_unique_of_nodup {V : Type} : ∀ {l : List (Key × V)}, (l.map Prod.fst).Nodup →
    ∀ {a b : Key × V}, a ∈ l → b ∈ l → a.1 = b.1 → a = b
  | [], _, _, _, ha, _, _ => by cases ha
  | p :: r, hn, a, b, ha, hb, hab => by
    simp only [map_cons, nodup_cons] at hn
    rcases mem_cons.mp ha with rfl | ha'
    · rcases mem_cons.mp hb with rfl | hb'
      · rfl
      · exact absurd (mem_map.mpr ⟨b, hb', hab.symm⟩) hn.1
    · rcases mem_cons.mp hb with rfl | hb'
      · exact absurd (mem_map.mpr ⟨a, ha', hab⟩) hn.1
      · exact mem_unique_of_nodup hn.2 ha' hb' hab

theorem lookupL_eq_some_iff {V : Type} : ∀ {l : List (Key × V)}, (l.map Prod.fst).Nodup →
    ∀ {k : Key} {v : V}, lookupL k l = some v ↔ (k, v) ∈ l
  | [], _, k, v => by simp [lookupL]
  | (k', v') :: r, hn, k, v => by
    simp only [map_cons, nodup_cons] at hn
    simp only [lookupL, mem_cons, Prod.mk.injEq]
    by_cases hk : k = k'
    · subst hk
      simp only [beq_self_eq_true, if_true, Option.some.injEq, true_and]
      constructor
      · intro h; exact Or.inl h.symm
      · rintro (h | h)
        · exact h.symm
        · exact absurd (mem_map.mpr ⟨(k, v), h, rfl⟩) hn.1
    · have : (k == k') = false := by simpa using hk
      simp only [this, Bool.false_eq_true, if_false, hk, false_and, false_or]
      exact lookupL_eq_some_iff hn.2

theorem lookupL_eq_none_iff {V : Type} : ∀ {l : List (Key × V)} {k : Key},
    lookupL k l = none ↔ k ∉ l.map Prod.fst
  | [], k => by simp [lookupL]
  | (k', v') :: r, k => by
    simp only [lookupL, map_cons, mem_cons, not_or]
    by_cases hk : k = k'
    · subst hk; simp
    · have : (k == k') = false := by simpa using hk
      simp only [this, Bool.false_eq_true, if_false, hk, not_false_eq_true, true_and]
      exact lookupL_eq_none_iff

/-! ### sorting a permutation of distinct keys is unique -/

theorem sortK_perm {V : Type} (l : List (Key × V)) : sortK l ~ l := mergeSort_perm _ _

theorem sortK_pairwise {V : Type} (l : List (Key × V)) :
    (sortK l).Pairwise (fun p q => keyLe p.1 q.1 = true) :=
  pairwise_mergeSort (le := fun p q : Key × V => keyLe p.1 q.1)
    (fun a b c => keyLe_trans a.1 b.1 c.1) (fun a b => keyLe_total a.1 b.1) l

/-- THE permutation-invariance lemma: an association list with distinct keys
(a Go map) sorts to the same list whatever order it is handed over in. -/
theorem sortK_eq_of_perm {V : Type} {l₁ l₂ : List (Key × V)} (h : l₁ ~ l₂)
    (hn : (l₁.map Prod.fst).Nodup) : sortK l₁ = sortK l₂ := by
  have hp : sortK l₁ ~ sortK l₂ := (sortK_perm l₁).trans (h.trans (sortK_perm l₂).symm)
  refine Perm.eq_of_pairwise (le := fun p q => keyLe p.1 q.1 = true) ?_ (sortK_pairwise l₁)
    (sortK_pairwise l₂) hp
  intro a b ha hb hab hba
  have ha' : a ∈ l₁ := (sortK_perm l₁).mem_iff.mp ha
  have hb' : b ∈ l₁ := h.symm.mem_iff.mp ((sortK_perm l₂).mem_iff.mp hb)
  exact mem_unique_of_nodup hn ha' hb' (keyLe_antisymm _ _ hab hba)

theorem perm_of_sortK_eq {V : Type} {l₁ l₂ : List (Key × V)} (h : sortK l₁ = sortK l₂) : l₁ ~ l₂ :=
  (sortK_perm l₁).symm.trans (h ▸ sortK_perm l₂)

theorem sortKeys_eq_of_perm {l₁ l₂ : List Key} (h : l₁ ~ l₂) : sortKeys l₁ = sortKeys l₂ := by
  have p1 : sortKeys l₁ ~ l₁ := mergeSort_perm _ _
  have p2 : sortKeys l₂ ~ l₂ := mergeSort_perm _ _
  refine Perm.eq_of_pairwise (le := fun p q => keyLe p q = true) ?_
    (pairwise_mergeSort keyLe_trans keyLe_total l₁) (pairwise_mergeSort keyLe_trans keyLe_total l₂)
    (p1.trans (h.trans p2.symm))
  intro a b _ _ hab hba
  exact keyLe_antisymm _ _ hab hba

theorem nodup_of_nodup_map {α β : Type} (f : α → β) : ∀ {l : List α}, (l.map f).Nodup → l.Nodup
  | [], _ => nodup_nil
  | x :: l, h => by
    simp only [map_cons, nodup_cons] at h ⊢
    exact ⟨fun hx => h.1 (mem_map.mpr ⟨x, hx, rfl⟩), nodup_of_nodup_map f h.2⟩

/-! ### pigeonhole: a duplicate-free list contained in a list that is not longer -/

theorem perm_of_subset_of_length_le {α : Type} [DecidableEq α] : ∀ {a b : List α}, a.Nodup →
    (∀ x ∈ a, x ∈ b) → b.length ≤ a.length → a ~ b
  | [], b, _, _, hl => by
    have : b = [] := by cases b <;> simp_all
    subst this; exact Perm.refl _
  | x :: a, b, hn, hs, hl => by
    have hx : x ∈ b := hs x mem_cons_self
    simp only [nodup_cons] at hn
    have hs' : ∀ y ∈ a, y ∈ b.erase x := by
      intro y hy
      have hne : y ≠ x := fun h => hn.1 (h ▸ hy)
      exact (mem_erase_of_ne hne).mpr (hs y (mem_cons_of_mem _ hy))
    have hl' : (b.erase x).length ≤ a.length := by
      rw [length_erase_of_mem hx]; simp only [length_cons] at hl; omega
    exact (Perm.cons x (perm_of_subset_of_length_le hn.2 hs' hl')).trans (perm_cons_erase hx).symm

/-! ### the lookup comparison is equality of the sorted, semantically-erased tables -/

theorem matchAll_iff {V S : Type} (eqv : V → V → Bool) (semA semB : V → S)
    (a b : List (Key × V))
    (ha : (a.map Prod.fst).Nodup) (hb : (b.map Prod.fst).Nodup)
    (h : ∀ p ∈ a, ∀ q ∈ b, eqv p.2 q.2 = true ↔ semA p.2 = semB q.2) :
    matchAll eqv a b = true ↔
      sortK (a.map fun p => (p.1, semA p.2)) = sortK (b.map fun p => (p.1, semB p.2)) := by
  haveI : DecidableEq (Key × S) := fun x y => Classical.propDecidable (x = y)
  have hmapA : ((a.map fun p => (p.1, semA p.2)).map Prod.fst) = a.map Prod.fst := by
    simp [Function.comp_def]
  have hmapB : ((b.map fun p => (p.1, semB p.2)).map Prod.fst) = b.map Prod.fst := by
    simp [Function.comp_def]
  constructor
  · intro hm
    simp only [matchAll, Bool.and_eq_true, beq_iff_eq, all_eq_true] at hm
    obtain ⟨hlen, hall⟩ := hm
    apply sortK_eq_of_perm _ (hmapA ▸ ha)
    apply perm_of_subset_of_length_le
    · have : ((a.map fun p => (p.1, semA p.2)).map Prod.fst).Nodup := hmapA ▸ ha
      exact nodup_of_nodup_map _ this
    · intro x hx
      rcases mem_map.mp hx with ⟨p, hp, rfl⟩
      have := hall p hp
      cases hl : lookupL p.1 b with
      | none => rw [hl] at this; simp at this
      | some v' =>
        rw [hl] at this
        simp only [Option.any_some] at this
        have hq : (p.1, v') ∈ b := (lookupL_eq_some_iff hb).mp hl
        have := (h p hp (p.1, v') hq).mp this
        exact mem_map.mpr ⟨(p.1, v'), hq, by simp [this]⟩
    · simp [hlen]
  · intro hs
    have hp := perm_of_sortK_eq hs
    simp only [matchAll, Bool.and_eq_true, beq_iff_eq, all_eq_true]
    refine ⟨by simpa using hp.length_eq, ?_⟩
    intro p hp'
    have : (p.1, semA p.2) ∈ b.map fun p => (p.1, semB p.2) :=
      hp.mem_iff.mp (mem_map.mpr ⟨p, hp', rfl⟩)
    rcases mem_map.mp this with ⟨q, hq, hqe⟩
    simp only [Prod.mk.injEq] at hqe
    have hl : lookupL p.1 b = some q.2 := (lookupL_eq_some_iff hb).mpr (by rw [← hqe.1]; exact hq)
    rw [hl]
    simp only [Option.any_some]
    exact (h p hp' q hq).mpr hqe.2.symm

end Martian.SortKeys
