import Proofs.FormatExpRangeRead
import Martian.FormatCallText

/-!
C09, accepted texts of call statements: the RANGE of the binding readers
(`pBind`, `pBinds`) and of `parseCallToks` / `parseCall` (the modifier-less slice of
`Martian.FormatCall`) on tokens in the range of the tokenizer.

Core Lean only.
-/

namespace Martian.FormatCallText
open Martian.Lexer (Bytes)
open Martian.FormatExp Martian.FormatCall

theorem all_tokOK_tail {t : Tok} {r : List Tok} (h : (t :: r).all tokOK = true) : r.all tokOK = true := by
  simp only [List.all_cons, Bool.and_eq_true] at h; exact h.2

theorem splitKw_range {ts r : List Tok} (hts : ts.all tokOK = true) (h : splitKw ts = some r) :
    r.all tokOK = true := by
  unfold splitKw at h
  split at h
  · split at h
    · injection h with h; subst h; exact all_tokOK_tail hts
    · cases h
  · cases h

/-- range of `bind_stm` / `split_bind_stm`: the id is an identifier, the value is in the range of
the expression reader, a split value is a non-empty array, a non-empty map or a reference, and a
split binding is only read inside a `map call` -/
theorem pBind_range (m : Bool) (fe : Nat) (ts : List Tok) (b : Bind) (rest : List Tok)
    (hts : ts.all tokOK = true) (h : pBind m fe ts = some (b, rest)) :
    wfBindRaw b = true ∧ rest.all tokOK = true ∧ (b.split = true → m = true) := by
  unfold pBind at h
  split at h
  · rename_i x ts'
    simp only [List.all_cons, Bool.and_eq_true] at hts
    have hx : isIdent x = true := by simpa [tokOK] using hts.1
    split at h
    · rename_i r hk
      have hm : m = true := by
        cases m with
        | true => rfl
        | false => simp at hk
      subst hm
      simp only [↓reduceIte] at hk
      have hr := splitKw_range hts.2.2 hk
      split at h
      · rename_i e r' hp
        have ⟨he, hr'⟩ := (pAll_range fe).1 _ e _ hr hp
        split at h
        · rename_i hsv
          injection h with h; injection h with h1 h2; subst h1; subst h2
          exact ⟨by simp [wfBindRaw, hx, he, hsv], all_tokOK_tail hr', fun _ => rfl⟩
        · cases h
      · cases h
    · split at h
      · rename_i e r' hp
        have ⟨he, hr'⟩ := (pAll_range fe).1 _ e _ hts.2.2 hp
        injection h with h; injection h with h1 h2; subst h1; subst h2
        exact ⟨by simp [wfBindRaw, hx, he], all_tokOK_tail hr', fun h => by cases h⟩
      · cases h
  · cases h

theorem pBinds_range (m : Bool) (fe : Nat) : ∀ (f : Nat) (ts : List Tok) (bs : List Bind) (rest : List Tok),
    ts.all tokOK = true → pBinds m fe f ts = some (bs, rest) →
    bs.all wfBindRaw = true ∧ rest.all tokOK = true ∧ (bs.any (·.split) = true → m = true)
  | 0, _, _, _, _, h => by simp [pBinds] at h
  | f + 1, ts, bs, rest, hts, h => by
    unfold pBinds at h
    split at h
    · injection h with h; injection h with h1 h2; subst h1; subst h2
      exact ⟨rfl, hts, fun h => by simp at h⟩
    · split at h
      · rename_i b r hb
        have ⟨hwb, hr, hsb⟩ := pBind_range m fe _ b r hts hb
        cases hrec : pBinds m fe f r with
        | none => simp [hrec] at h
        | some p =>
          obtain ⟨bs', r'⟩ := p
          simp only [hrec, Option.map_some, Option.some.injEq, Prod.mk.injEq] at h
          obtain ⟨rfl, rfl⟩ := h
          have ⟨ih1, ih2, ih3⟩ := pBinds_range m fe f r bs' r' hr hrec
          refine ⟨by simp only [List.all_cons, Bool.and_eq_true]; exact ⟨hwb, ih1⟩, ih2, ?_⟩
          intro hany
          simp only [List.any_cons, Bool.or_eq_true] at hany
          rcases hany with h1 | h1
          · exact hsb h1
          · exact ih3 h1
      · cases h

theorem pMapKw_range (ts : List Tok) (hts : ts.all tokOK = true) : (pMapKw ts).2.all tokOK = true := by
  unfold pMapKw
  split
  · split
    · exact all_tokOK_tail hts
    · exact hts
  · exact hts

theorem pHead_range (ts : List Tok) (d i : Bytes) (r : List Tok) (hts : ts.all tokOK = true)
    (h : pHead ts = some (d, i, r)) : isIdent d = true ∧ isIdent i = true ∧ r.all tokOK = true := by
  unfold pHead at h
  split at h
  · split at h
    · rename_i d' _ _
      simp only [Option.some.injEq, Prod.mk.injEq] at h
      obtain ⟨rfl, rfl, rfl⟩ := h
      simp only [List.all_cons, Bool.and_eq_true] at hts
      have hd : isIdent d' = true := by simpa [tokOK] using hts.2.1
      exact ⟨hd, hd, hts.2.2.2⟩
    · cases h
  · split at h
    · simp only [Option.some.injEq, Prod.mk.injEq] at h
      obtain ⟨rfl, rfl, rfl⟩ := h
      simp only [List.all_cons, Bool.and_eq_true] at hts
      exact ⟨by simpa [tokOK] using hts.2.1, by simpa [tokOK] using hts.2.2.2.1, hts.2.2.2.2.2⟩
    · cases h
  · cases h

/-- **Range of the call reader** (modifier-less slice) -/
theorem parseCallToks_range (ts : List Tok) (c : Call) (hts : ts.all tokOK = true)
    (h : parseCallToks ts = some c) : wfCallRaw c = true := by
  unfold parseCallToks at h
  split at h
  · rename_i d i r hh
    have ⟨hd, hi, hr⟩ := pHead_range _ d i r (pMapKw_range ts hts) hh
    split at h
    · rename_i bs hb
      have ⟨hbs, _, _⟩ := pBinds_range _ _ _ r bs _ hr hb
      split at h
      · injection h with h; subst h
        simp [wfCallRaw, hd, hi, hbs]
      · cases h
    · cases h
  · cases h

theorem parseCall_range (src : Bytes) (c : Call) (h : parseCall src = some c) : wfCallRaw c = true := by
  unfold parseCall at h
  cases hl : lexAll src with
  | none => simp [hl] at h
  | some ts =>
    simp only [hl, Option.bind_some] at h
    exact parseCallToks_range ts c (List.all_eq_true.mpr (range_lexAll src ts hl)) h

end Martian.FormatCallText
