import Martian.EquivLockLTSOld

namespace Martian.LockLTSOld
open List

theorem drop_of_not_mem {p : Nat} : ∀ {l : List Nat}, p ∉ l → drop p l = l
  | [], _ => rfl
  | x :: l, h => by
    simp only [mem_cons, not_or] at h
    have hx : (x != p) = true := by simpa using fun e => h.1 e.symm
    simp only [drop, filter_cons, hx, if_true, cons.injEq, true_and]
    exact drop_of_not_mem h.2

theorem mem_drop {p x : Nat} {l : List Nat} : x ∈ drop p l ↔ x ∈ l ∧ x ≠ p := by
  simp [drop]

theorem reg_drop {reg chk hold : List Nat} (p : Nat) (h : ∀ x, x ∈ reg ↔ x ∈ chk ∨ x ∈ hold) :
    ∀ x, x ∈ drop p reg ↔ x ∈ drop p chk ∨ x ∈ drop p hold := by
  intro x
  simp only [mem_drop, h x]
  constructor
  · rintro ⟨h | h, hx⟩
    · exact Or.inl ⟨h, hx⟩
    · exact Or.inr ⟨h, hx⟩
  · rintro (⟨h, hx⟩ | ⟨h, hx⟩)
    · exact ⟨Or.inl h, hx⟩
    · exact ⟨Or.inr h, hx⟩

/-- invariant of disciplined runs (handler registered after the check) -/
structure Inv (s : St) : Prop where
  owner : s.holders = [] ∨ ∃ h, s.holders = [h] ∧ s.lockFile = true
  acquiring : s.checked = [] ∨ ∃ c, s.checked = [c] ∧ s.lockFile = false ∧ s.holders = []
  reg : ∀ x, x ∈ s.registered ↔ x ∈ s.checked ∨ x ∈ s.holders

theorem inv_init : Inv init := ⟨Or.inl rfl, Or.inl rfl, by simp [init]⟩

theorem holders_nil_of_unlocked {s : St} (hi : Inv s) (h : s.lockFile = false) : s.holders = [] := by
  rcases hi.owner with h0 | ⟨x, _, hl⟩
  · exact h0
  · rw [h] at hl; cases hl

theorem inv_step (s : St) (a : Act) (hi : Inv s) (he : enabled s a = true) (hd : disciplined s a = true) :
    Inv (step false s a).1 := by
  cases a with
  | check p =>
    simp only [disciplined, isEmpty_iff] at hd
    cases hl : s.lockFile
    · have hh := holders_nil_of_unlocked hi hl
      simp only [step, hl, Bool.false_eq_true, if_false]
      refine ⟨Or.inl hh, Or.inr ⟨p, by simp [hd], rfl, hh⟩, ?_⟩
      intro x; simp [hi.reg x, hd, hh]
    · have : (step false s (.check p)).1 = s := by
        cases s; simp_all [step]
      rw [this]; exact hi
  | write p =>
    simp only [enabled, contains_iff_mem] at he
    rcases hi.acquiring with h0 | ⟨c, hc, hl, hh⟩
    · rw [h0] at he; cases he
    · have hpc : p = c := by simpa [hc] using he
      subst hpc
      simp only [step]
      refine ⟨Or.inr ⟨p, by simp [hh], rfl⟩, Or.inl (by simp [hc, drop]), ?_⟩
      intro x; simp [hi.reg x, hc, hh, drop]
  | unlock p =>
    simp only [enabled, contains_iff_mem] at he
    rcases hi.owner with h0 | ⟨h, hh, hl⟩
    · rw [h0] at he; cases he
    · have hph : p = h := by simpa [hh] using he
      subst hph
      have hc : s.checked = [] := by
        rcases hi.acquiring with h0 | ⟨c, _, _, hn⟩
        · exact h0
        · rw [hh] at hn; cases hn
      simp only [step]
      refine ⟨Or.inl (by simp [hh, drop]), Or.inl hc, ?_⟩
      intro x; simp [mem_drop, hi.reg x, hc, hh, drop]
  | signal p =>
    simp only [step]
    refine ⟨?_, ?_, reg_drop p hi.reg⟩
    · rcases hi.owner with hh | ⟨h, hh, hl⟩
      · exact Or.inl (by simp [hh, drop])
      · by_cases hph : p = h
        · exact Or.inl (by simp [hh, drop, hph])
        · have hne : (h != p) = true := by simpa using fun e => hph e.symm
          have hc : s.checked = [] := by
            rcases hi.acquiring with h0 | ⟨c, _, _, hn⟩
            · exact h0
            · rw [hh] at hn; cases hn
          have hnm : p ∉ s.registered := by
            rw [hi.reg p, hc, hh]; simp [hph]
          have hnr : s.registered.contains p = false := by
            cases hcn : s.registered.contains p
            · rfl
            · exact absurd (contains_iff_mem.mp hcn) hnm
          exact Or.inr ⟨h, by simp [hh, drop, hne], by simp [hl, hnm]⟩
    · rcases hi.acquiring with hc | ⟨c, hc, hl, hh⟩
      · exact Or.inl (by simp [hc, drop])
      · by_cases hpc : p = c
        · exact Or.inl (by simp [hc, drop, hpc])
        · have hne : (c != p) = true := by simpa using fun e => hpc e.symm
          exact Or.inr ⟨c, by simp [hc, drop, hne], by simp [hl], by simp [hh, drop]⟩
  | kill p =>
    simp only [step]
    refine ⟨?_, ?_, ?_⟩
    · rcases hi.owner with hh | ⟨h, hh, hl⟩
      · exact Or.inl (by simp [hh, drop])
      · by_cases hph : p = h
        · exact Or.inl (by simp [hh, drop, hph])
        · have hne : (h != p) = true := by simpa using fun e => hph e.symm
          exact Or.inr ⟨h, by simp [hh, drop, hne], hl⟩
    · rcases hi.acquiring with hc | ⟨c, hc, hl, hh⟩
      · exact Or.inl (by simp [hc, drop])
      · by_cases hpc : p = c
        · exact Or.inl (by simp [hc, drop, hpc])
        · have hne : (c != p) = true := by simpa using fun e => hpc e.symm
          exact Or.inr ⟨c, by simp [hc, drop, hne], hl, by simp [hh, drop]⟩
    · exact reg_drop p hi.reg
  | rmLock =>
    simp only [disciplined, Bool.and_eq_true, isEmpty_iff] at hd
    simp only [step]
    exact ⟨Or.inl hd.1, Or.inl hd.2, hi.reg⟩

theorem inv_run : ∀ (tr : List Act) (s s' : St), Inv s → run false disciplined s tr = some s' → Inv s'
  | [], s, s', hi, h => by simp only [run, Option.some.injEq] at h; exact h ▸ hi
  | a :: r, s, s', hi, h => by
    simp only [run] at h
    by_cases hc : (enabled s a && disciplined s a) = true
    · simp only [hc, if_true] at h
      simp only [Bool.and_eq_true] at hc
      exact inv_run r _ s' (inv_step s a hi hc.1 hc.2) h
    · simp [hc] at h

end Martian.LockLTSOld
