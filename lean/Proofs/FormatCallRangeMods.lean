import Proofs.FormatCall2Norm
import Martian.FormatCallText

/-!
C09, accepted texts of call statements: the normal form of the modifiers keeps what
`Modifiers.compile` computes from them — the three boolean flags (the binding's value when the
`using` block binds the id, else the keyword) and the `disabled` binding — for a `using` block
with distinct ids.

Core Lean only.
-/

namespace Martian.FormatCallText
open Martian.Lexer (Bytes)
open Martian.FormatExp Martian.FormatCall Martian.FormatCall2

theorem findMod_none_iff (k : Bytes) : ∀ l : List (Bytes × Exp), findMod k l = none ↔ hasId k l = false
  | [] => by simp [findMod, hasId]
  | kv :: r => by
    have ih := findMod_none_iff k r
    unfold hasId at ih ⊢
    by_cases h : kv.1 = k
    · simp [findMod, h]
    · simp [findMod, h, ih]

theorem findMod_insMod (kv : Bytes × Exp) (k : Bytes) : ∀ l : List (Bytes × Exp), hasId kv.1 l = false →
    findMod k (insMod kv l) = if kv.1 = k then some kv.2 else findMod k l
  | [], _ => by simp [insMod, findMod]
  | x :: r, h => by
    rw [hasId_cons, Bool.or_eq_false_iff] at h
    have hx : x.1 ≠ kv.1 := by simpa using h.1
    unfold insMod
    split
    · rw [findMod, findMod_insMod kv k r h.2, findMod]
      by_cases h1 : x.1 = k
      · have : kv.1 ≠ k := fun h2 => hx (h1.trans h2.symm)
        simp [h1, this]
      · simp [h1]
    · simp [findMod]

theorem findMod_sortMods (k : Bytes) : ∀ l : List (Bytes × Exp), distinctIds l = true →
    findMod k (sortMods l) = findMod k l
  | [], _ => rfl
  | kv :: r, h => by
    simp only [distinctIds, Bool.and_eq_true, Bool.not_eq_true'] at h
    rw [sortMods_cons, findMod_insMod kv k _ (by rw [hasId_sortMods]; exact h.1),
      findMod_sortMods k r h.2, findMod]

theorem findMod_snoc (k k' : Bytes) (v : Exp) : ∀ l : List (Bytes × Exp),
    findMod k (l ++ [(k', v)]) =
      match findMod k l with
      | some x => some x
      | none => if k' = k then some v else none
  | [] => by simp [findMod]
  | kv :: r => by
    by_cases h : kv.1 = k
    · simp [findMod, h]
    · simp [findMod, h, findMod_snoc k k' v r]

theorem findMod_addKw (k : Bytes) (on : Bool) (k' : Bytes) (orig l : List (Bytes × Exp)) :
    findMod k (addKw on k' orig l) =
      match findMod k l with
      | some x => some x
      | none => if (on && !hasId k' orig) = true ∧ k' = k then some (.bool true) else none := by
  unfold addKw
  split
  · rename_i hc
    rw [findMod_snoc]
    cases findMod k l with
    | some x => rfl
    | none => simp [hc]
  · rename_i hc
    cases findMod k l with
    | some x => rfl
    | none => simp [hc]

/-- what `Bindings.Table[k]` of the printed `using` block is: the source's binding, else `= true`
for a keyword modifier -/
theorem findMod_modList (m : Mods) (hd : distinctIds m.binds = true) (k : Bytes) :
    findMod k (modList m) =
      match findMod k m.binds with
      | some v => some v
      | none =>
        if (m.loc = true ∧ sLocal = k) ∨ (m.pre = true ∧ sPreflight = k) ∨ (m.vol = true ∧ sVolatile = k) then
          some (.bool true)
        else none := by
  unfold modList
  rw [findMod_sortMods k _ (distinct_convMods m hd)]
  unfold convMods
  rw [findMod_addKw, findMod_addKw, findMod_addKw]
  cases hf : findMod k m.binds with
  | some v => rfl
  | none =>
    have hn := (findMod_none_iff k m.binds).mp hf
    have d12 : sLocal ≠ sPreflight := by decide
    have d13 : sLocal ≠ sVolatile := by decide
    have d23 : sPreflight ≠ sVolatile := by decide
    by_cases h1 : sLocal = k
    · subst h1
      cases m.loc <;> cases m.pre <;> cases m.vol <;> simp [hn, d12.symm, d13.symm]
    · by_cases h2 : sPreflight = k
      · subst h2
        cases m.loc <;> cases m.pre <;> cases m.vol <;> simp [hn, d12, d23.symm]
      · by_cases h3 : sVolatile = k
        · subst h3
          cases m.loc <;> cases m.pre <;> cases m.vol <;> simp [hn, d13, d23]
        · simp [h1, h2, h3]

theorem modValue_modList (m : Mods) (hd : distinctIds m.binds = true) (k : Bytes) (kw : Bool)
    (hk : ((m.loc = true ∧ sLocal = k) ∨ (m.pre = true ∧ sPreflight = k) ∨ (m.vol = true ∧ sVolatile = k)) ↔
      kw = true) :
    modValue k false (modList m) = modValue k kw m.binds := by
  unfold modValue
  rw [findMod_modList m hd k]
  cases findMod k m.binds with
  | some v => rfl
  | none =>
    cases kw with
    | true => simp [hk.mpr rfl]
    | false =>
      have : ¬((m.loc = true ∧ sLocal = k) ∨ (m.pre = true ∧ sPreflight = k) ∨ (m.vol = true ∧ sVolatile = k)) :=
        fun h => by simpa using hk.mp h
      simp [this]

/-- **The normal form keeps the compiled modifiers**: for a `using` block with distinct ids, the
flags `Modifiers.compile` computes (binding value if bound, else keyword) and the `disabled`
binding are the same for `normMods m` and `m` -/
theorem normMods_keeps (m : Mods) (hd : distinctIds m.binds = true) :
    modFlags (normMods m) = modFlags m ∧ modDisabled (normMods m) = modDisabled m := by
  constructor
  · simp only [modFlags, normMods, Prod.mk.injEq]
    refine ⟨modValue_modList m hd sLocal m.loc ?_, modValue_modList m hd sPreflight m.pre ?_,
      modValue_modList m hd sVolatile m.vol ?_⟩
    · have h1 : sPreflight ≠ sLocal := by decide
      have h2 : sVolatile ≠ sLocal := by decide
      simp [h1, h2]
    · have h1 : sLocal ≠ sPreflight := by decide
      have h2 : sVolatile ≠ sPreflight := by decide
      simp [h1, h2]
    · have h1 : sLocal ≠ sVolatile := by decide
      have h2 : sPreflight ≠ sVolatile := by decide
      simp [h1, h2]
  · simp only [modDisabled, normMods]
    rw [findMod_modList m hd sDisabled]
    have h1 : sLocal ≠ sDisabled := by decide
    have h2 : sPreflight ≠ sDisabled := by decide
    have h3 : sVolatile ≠ sDisabled := by decide
    cases findMod sDisabled m.binds with
    | some v => rfl
    | none => simp [h1, h2, h3]

end Martian.FormatCallText
