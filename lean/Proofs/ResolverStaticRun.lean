/-
C01 — the refinement with ARRAY-mode map calls of RUN-TIME size (the split sources are references:
the length is known when the upstream stage has run), next to everything of
Proofs/ResolverStaticDis.lean (plain calls, run-time `disabled` controls, statically sized map calls
of stages and pipelines, nested), modulo `J.erase`.

What is given about the run: the store's index sets `ρ.idx` ("the recorded lengths"), which
(`idxOkT`, decidable, checked along the forks that exist) are the index sets of the collections the
calls were split over, not empty, and (`IdxLocal`) depend only on the forks of the enclosing calls.
The static phase resolves the outputs of such a call to a `merge` node; the run-time phase
enumerates its elements from `ρ.idx`.
-/
import Proofs.ResolverStaticDis

namespace Proofs.ResolverStatic
open Martian.Dataflow Martian.Resolver Martian.ResolverForks Martian.ResolverStatic Proofs.Dataflow
  Proofs.ResolverForks

/-! ## small facts -/

theorem indicesOf_narrow_ne {st : StructTable} {F : Nat} (hF : NarrowFix st F) (b : String) (m a : Nat) (v : J)
    (h : indicesOf (narrow st F ⟨b, m, a + 1⟩ v) ≠ []) :
    indicesOf v = indicesOf (narrow st F ⟨b, m, a + 1⟩ v) := by
  cases v with
  | arr xs => rw [narrow_arr hF]; simp [indicesOf]
  | null => rw [narrow_null hF] at h; simp [indicesOf] at h
  | dnull =>
    have : narrow st F ⟨b, m, a + 1⟩ .dnull = .dnull := by rw [hF]; simp [atBase, mapArr]
    rw [this] at h; simp [indicesOf] at h
  | atom s =>
    have : narrow st F ⟨b, m, a + 1⟩ (.atom s) = .null := by rw [hF]; simp [atBase, mapArr]
    rw [this] at h; simp [indicesOf] at h
  | obj kvs =>
    have : narrow st F ⟨b, m, a + 1⟩ (.obj kvs) = .null := by rw [hF]; simp [atBase, mapArr]
    rw [this] at h; simp [indicesOf] at h

/-- what `runtimeMode = some false` says about the split bindings -/
theorem runtimeMode_facts (st : StructTable) (self sib : RBMap) (ins : List Param) (c : Call)
    (h : runtimeMode st self sib ins c = some false) :
    ∀ p ∈ ins, ∀ b, c.binds.find? (fun b => b.param == p.name) = some b → b.split = true →
      isRuntimeSrc st self sib b.exp = true ∧ splitIsMap st self sib b.exp = false := by
  unfold runtimeMode at h
  cases hsp : splitParam ins c with
  | none => simp [hsp] at h
  | some p0 =>
    simp only [hsp] at h
    cases hb0 : c.binds.find? (fun b => b.param == p0.name) with
    | none => simp [hb0] at h
    | some b0 =>
      simp only [hb0] at h
      split at h
      · next hcond =>
        simp only [Option.some.injEq] at h
        simp only [Bool.and_eq_true, List.all_eq_true] at hcond
        intro p hp b hb hs
        have := hcond.2 p hp
        simp only [hb, hs, Bool.not_true, Bool.false_or, Bool.and_eq_true, beq_iff_eq] at this
        exact ⟨this.1, by rw [this.2, h]⟩
      · cases h

theorem isRuntimeSrc_not_lit (st : StructTable) (self sib : RBMap) (j : J) :
    isRuntimeSrc st self sib (.lit j) = false := by
  simp [isRuntimeSrc, resolveRefs]

section ctxR
variable (st : StructTable) (hst : StructsOk st) (F : Nat) (hF : NarrowFix st F) (ρ : Store)
include hst hF

omit hst hF in
/-- den iterates an array-mode map call whose split sources are typed arrays in array mode -/
theorem callMode_M (P : Program) (env : Env) (c : Call)
    (hc : MappedOkT st P env.selfTy env.callTy c)
    (hnl : ∀ b ∈ c.binds, b.split = true → ∀ j, b.exp ≠ .lit j) :
    callMode st env c = .arr := by
  obtain ⟨hm, _, ⟨b0, hb0, hs0⟩, hpar, hty⟩ := hc
  unfold callMode firstSplit
  simp only [hm, if_true]
  cases hf : c.binds.find? (·.split) with
  | none =>
    have := List.find?_eq_none.mp hf b0 hb0
    simp [hs0] at this
  | some b =>
    have hbm := List.mem_of_find?_eq_some hf
    have hbs : b.split = true := by simpa using List.find?_some hf
    obtain ⟨p, hp, hfb⟩ := hpar b hbm hbs
    have h2 := hty p hp b hfb
    simp only [hbs, if_true] at h2
    simp only
    cases he : b.exp with
    | lit j => exact absurd he (hnl b hbm hbs j)
    | arr xs => simp [splitMode]
    | map kvs => rw [he] at h2; simp [liftSplitTy, HasTy] at h2
    | struct kvs => rw [he] at h2; simp [liftSplitTy, HasTy] at h2
    | self q path =>
      rw [he] at h2
      simp only [HasTy] at h2
      obtain ⟨_, d2⟩ := h2.2.dims
      simp only [liftSplitTy, Bool.false_eq_true, if_false] at d2
      simp [splitMode, d2]
    | ref q path =>
      rw [he] at h2
      simp only [HasTy] at h2
      obtain ⟨_, d2⟩ := h2.2.dims
      simp only [liftSplitTy, Bool.false_eq_true, if_false] at d2
      simp [splitMode, d2]

/-- the bindings of fork `k` of an array-mode map call below a fork list (sources of any kind) -/
theorem args_mappedM (P : Program) (forks : List (String × Idx)) (env : Env) (self sib : RBMap)
    (hrel : EnvRel st F ρ (Agree forks) env self sib) (c : Call)
    (hc : MappedOkT st P env.selfTy env.callTy c)
    (hmode : ∀ p ∈ P.insOf c.callee, ∀ b, c.binds.find? (fun b => b.param == p.name) = some b → b.split = true →
        splitIsMap st self sib b.exp = false)
    (k : Nat) (f0 : ForkAssign) (hf0 : Agree forks f0) :
    ArgsRelC st F ρ (forks ++ [(c.id, .i k)]) (P.insOf c.callee)
      (mkArgs st F (argVals st env (P.insOf c.callee) c) (some (.i k)))
      (resolveBindsT st self sib (P.insOf c.callee) c) := by
  obtain ⟨_, _, _, _, hb⟩ := hc
  refine ⟨fun q => match c.binds.find? (fun b => b.param == q.name) with
    | some b =>
      if b.split then .split c.id false (filterT st (liftSplitTy false q.ty) (resolveRefs self sib b.exp))
      else filterT st q.ty (resolveRefs self sib b.exp)
    | none => .lit .null, ?_, ?_, ?_⟩
  · simp only [resolveBindsT]
    apply List.map_congr_left
    intro p hp
    cases hfb : c.binds.find? (fun b => b.param == p.name) with
    | none => rfl
    | some b =>
      cases hs : b.split with
      | false => simp [hs]
      | true => simp [hs, hmode p hp b hfb hs]
  · intro f hf
    obtain ⟨hfa, hfl⟩ := hf.sub
    simp only at hfl
    simp only [mkArgs, argVals, List.map_map, J.obj.injEq]
    apply List.map_congr_left
    intro p hp
    simp only [Function.comp_apply]
    cases hfb : c.binds.find? (fun b => b.param == p.name) with
    | none => simp [narrow_null hF, evalRT]
    | some b =>
      simp only [Prod.mk.injEq, true_and]
      have hty := hb p hp b hfb
      cases hs : b.split with
      | false =>
        simp only [hs, Bool.false_eq_true, if_false] at hty ⊢
        exact (eval_resolveExpT st hst F hF ρ _ env self sib hrel f hfa b.exp p.ty hty).1
      | true =>
        simp only [hs, if_true] at hty ⊢
        have key := (eval_resolveExpT st hst F hF ρ _ env self sib hrel f hfa b.exp _ hty).1
        simp only [liftSplitTy, Bool.false_eq_true, if_false, evalRT, hfl, Option.getD_some] at key ⊢
        rw [← key]
        generalize p.ty = T
        obtain ⟨pb, pm, pa⟩ := T
        exact elemArr_narrow hF pb pm pa _ (.i k)
  · intro p hp
    show HasTyR st p.ty (match c.binds.find? (fun b => b.param == p.name) with
      | some b =>
        if b.split then .split c.id false (filterT st (liftSplitTy false p.ty) (resolveRefs self sib b.exp))
        else filterT st p.ty (resolveRefs self sib b.exp)
      | none => .lit .null)
    cases hfb : c.binds.find? (fun b => b.param == p.name) with
    | none => exact HasTyR_null st _
    | some b =>
      have hty := hb p hp b hfb
      cases hs : b.split with
      | false =>
        simp only [hs, Bool.false_eq_true, if_false] at hty ⊢
        exact (eval_resolveExpT st hst F hF ρ _ env self sib hrel f0 hf0 b.exp p.ty hty).2
      | true =>
        simp only [hs, if_true] at hty ⊢
        simp only [HasTyR]
        exact (eval_resolveExpT st hst F hF ρ _ env self sib hrel f0 hf0 b.exp _ hty).2

end ctxR

/-! ## what is assumed about a (sub)tree of the call graph and the store -/

/-- the recorded index set of call `c` depends only on the forks of the calls around it -/
def IdxLocal (ρ : Store) (c : String) (dims : List String) : Prop :=
  ∀ f g : ForkAssign, (∀ d ∈ dims, f.lookup d = g.lookup d) → ρ.idx c f = ρ.idx c g

theorem treeOkPList_append (above : List String) : ∀ (a b : List STree),
    treeOkPList above (a ++ b) = (treeOkPList above a && treeOkPList above b)
  | [], b => by simp [treeOkPList]
  | t :: a, b => by simp [treeOkPList, treeOkPList_append above a b, Bool.and_assoc]

theorem idxOkTList_append (st : StructTable) (F : Nat) (ρ : Store) (f : ForkAssign) : ∀ (a b : List STree),
    idxOkTList st F ρ f (a ++ b) = (idxOkTList st F ρ f a && idxOkTList st F ρ f b)
  | [], b => by simp [idxOkTList]
  | t :: a, b => by simp [idxOkTList, idxOkTList_append st F ρ f a b, Bool.and_assoc]

theorem subROccList_append (dims : List String) : ∀ (a b : List STree),
    subROccList dims (a ++ b) = subROccList dims a ++ subROccList dims b
  | [], b => by simp [subROccList]
  | t :: a, b => by simp [subROccList, subROccList_append dims a b]

structure TreeHyp (st : StructTable) (F : Nat) (nm : List String → String) (O : Oracle) (ρ : Store)
    (above : List String) (dims : List (String × List Idx)) (f0 : ForkAssign) (ts : List STree) : Prop where
  store : ∀ n ∈ flattenTList dims ts, StoreAtNode nm O ρ n
  ok : treeOkPList above ts = true
  idx : idxOkTList st F ρ f0 ts = true
  loc : ∀ o ∈ subROccList (dims.map (·.1)) ts, IdxLocal ρ o.1 o.2.2

section treeHyp
variable {st : StructTable} {F : Nat} {nm : List String → String} {O : Oracle} {ρ : Store}
  {above : List String} {dims : List (String × List Idx)} {f0 : ForkAssign}

theorem TreeHyp.left {a b : List STree} (h : TreeHyp st F nm O ρ above dims f0 (a ++ b)) :
    TreeHyp st F nm O ρ above dims f0 a := by
  obtain ⟨h1, h2, h3, h4⟩ := h
  rw [treeOkPList_append, Bool.and_eq_true] at h2
  rw [idxOkTList_append, Bool.and_eq_true] at h3
  exact ⟨fun n hn => h1 n (by rw [flattenTList_append]; simp [hn]), h2.1, h3.1,
    fun o ho => h4 o (by rw [subROccList_append]; simp [ho])⟩

theorem TreeHyp.right {a b : List STree} (h : TreeHyp st F nm O ρ above dims f0 (a ++ b)) :
    TreeHyp st F nm O ρ above dims f0 b := by
  obtain ⟨h1, h2, h3, h4⟩ := h
  rw [treeOkPList_append, Bool.and_eq_true] at h2
  rw [idxOkTList_append, Bool.and_eq_true] at h3
  exact ⟨fun n hn => h1 n (by rw [flattenTList_append]; simp [hn]), h2.2, h3.2,
    fun o ho => h4 o (by rw [subROccList_append]; simp [ho])⟩

theorem TreeHyp.sub {c : String} {m : Bool} {ixs : List Idx} {ok : Bool} {ch : List STree}
    (h : TreeHyp st F nm O ρ above dims f0 [.sub c m ixs ok ch]) :
    ok = true ∧ above.contains c = false ∧
    ∀ ix ∈ ixs, TreeHyp st F nm O ρ (above ++ [c]) (dims ++ [(c, ixs)]) (fset f0 c ix) ch := by
  obtain ⟨h1, h2, h3, h4⟩ := h
  simp only [treeOkPList, treeOkP, Bool.and_true, Bool.and_eq_true, Bool.not_eq_true'] at h2
  simp only [idxOkTList, idxOkT, Bool.and_true, List.all_eq_true] at h3
  refine ⟨h2.1.1, h2.1.2, fun ix hix => ⟨?_, h2.2, h3 ix hix, ?_⟩⟩
  · intro n hn
    exact h1 n (by simpa [flattenTList, flattenT] using hn)
  · intro o ho
    exact h4 o (by simpa [subROccList, subROcc] using ho)

theorem TreeHyp.guard {d : RExp} {ch : List STree}
    (h : TreeHyp st F nm O ρ above dims f0 [.guard d ch]) : TreeHyp st F nm O ρ above dims f0 ch := by
  obtain ⟨h1, h2, h3, h4⟩ := h
  simp only [treeOkPList, treeOkP, Bool.and_true] at h2
  simp only [idxOkTList, idxOkT, Bool.and_true] at h3
  exact ⟨fun n hn => h1 n (by simpa [flattenTList, flattenT] using hn), h2, h3,
    fun o ho => h4 o (by simpa [subROccList, subROcc] using ho)⟩

theorem TreeHyp.subR {c : String} {m : Bool} {path : List String} {cins : RBMap} {ok : Bool} {ch : List STree}
    (h : TreeHyp st F nm O ρ above dims f0 [.subR c m path cins ok ch]) :
    ok = true ∧ m = false ∧ above.contains c = false ∧ ρ.idx c f0 ≠ [] ∧
    (∀ kv ∈ cins, ∀ c' m' src, kv.2.exp = .split c' m' src → c' = c →
      indicesOf (evalRT st F ρ f0 (liftSplitTy false kv.2.ty) src) = ρ.idx c f0) ∧
    IdxLocal ρ c (dims.map (·.1)) ∧
    ∀ ix ∈ ρ.idx c f0, TreeHyp st F nm O ρ (above ++ [c]) (dims ++ [(c, [])]) (fset f0 c ix) ch := by
  obtain ⟨h1, h2, h3, h4⟩ := h
  simp only [treeOkPList, treeOkP, Bool.and_true, Bool.and_eq_true, Bool.not_eq_true'] at h2
  simp only [idxOkTList, idxOkT, Bool.and_true, Bool.and_eq_true, List.all_eq_true, Bool.not_eq_true',
    List.isEmpty_eq_false_iff] at h3
  obtain ⟨⟨⟨hok, hm⟩, habove⟩, hch⟩ := h2
  obtain ⟨⟨hne, hsrc⟩, hidx⟩ := h3
  refine ⟨hok, hm, habove, hne, ?_, ?_, ?_⟩
  · intro kv hkv c' m' src he hc
    have := hsrc kv hkv
    simp only [he, Bool.or_eq_true, bne_iff_ne, ne_eq, decide_eq_true_eq] at this
    cases this with
    | inl h => exact absurd hc h
    | inr h => exact h
  · exact h4 (c, path, dims.map (·.1)) (by simp [subROccList, subROcc])
  · intro ix hix
    refine ⟨?_, hch, hidx ix hix, ?_⟩
    · intro n hn
      exact h1 n (by simpa [flattenTList, flattenT] using hn)
    · intro o ho
      refine h4 o ?_
      simp only [subROccList, subROcc, List.append_nil, List.mem_cons, List.map_append, List.map_cons, List.map_nil]
      exact Or.inr (by simpa using ho)

theorem IdxLocal.agree {c : String} {forks : List (String × Idx)} (h : IdxLocal ρ c (forks.map (·.1)))
    {f g : ForkAssign} (hf : Agree forks f) (hg : Agree forks g) : ρ.idx c f = ρ.idx c g := by
  apply h
  intro d hd
  simp only [List.mem_map] at hd
  obtain ⟨e, he, rfl⟩ := hd
  rw [hf e he, hg e he]

end treeHyp

/-- a split binding of a map call in array mode, as an entry of the call's resolved inputs -/
theorem cins_split_entry (st : StructTable) (self sib : RBMap) (ins : List Param) (c : Call) (p : Param)
    (b : Martian.Dataflow.Bind) (hp : p ∈ ins) (hfb : c.binds.find? (fun b => b.param == p.name) = some b)
    (hs : b.split = true) (hm : splitIsMap st self sib b.exp = false) :
    (p.name, (⟨.split c.id false (filterT st (liftSplitTy false p.ty) (resolveRefs self sib b.exp)), p.ty⟩ : RB))
      ∈ resolveBindsT st self sib ins c := by
  simp only [resolveBindsT, List.mem_map]
  exact ⟨p, hp, by simp [hfb, hs, hm]⟩

theorem narrow_arrTy_indices {st : StructTable} {F : Nat} (hF : NarrowFix st F) (b : String) (m a : Nat) (v : J)
    (h : indicesOf (narrow st F ⟨b, m, a + 1⟩ v) ≠ []) :
    ∃ xs, v = .arr xs ∧ indicesOf (narrow st F ⟨b, m, a + 1⟩ v) = (List.range xs.length).map .i := by
  cases v with
  | arr xs => exact ⟨xs, rfl, by rw [narrow_arr hF]; simp [indicesOf]⟩
  | null => rw [narrow_null hF] at h; simp [indicesOf] at h
  | dnull =>
    have : narrow st F ⟨b, m, a + 1⟩ .dnull = .dnull := by rw [hF]; simp [atBase, mapArr]
    rw [this] at h; simp [indicesOf] at h
  | atom s =>
    have : narrow st F ⟨b, m, a + 1⟩ (.atom s) = .null := by rw [hF]; simp [atBase, mapArr]
    rw [this] at h; simp [indicesOf] at h
  | obj kvs =>
    have : narrow st F ⟨b, m, a + 1⟩ (.obj kvs) = .null := by rw [hF]; simp [atBase, mapArr]
    rw [this] at h; simp [indicesOf] at h

section callsR
variable (st : StructTable) (hst : StructsOk st) (F : Nat) (hF : NarrowFix st F) (ρ : Store) (hρ : StoreExt ρ)
include hst hF hρ

theorem refine_callsR (P : Program) (nm : List String → String) (O : Oracle) (run : Runner)
    (node : String → List String → RBMap → RB × List STree) (path : List String)
    (forks : List (String × Idx)) (dims : List (String × List Idx)) (self : RBMap) (sT : String → Ty)
    (hal : dims.map (·.1) = forks.map (·.1))
    (hrun : ∀ callee path forks' dims' args cins f0', dims'.map (·.1) = forks'.map (·.1) →
      ArgsRelC st F ρ forks' (P.insOf callee) (J.erase args) cins → Agree forks' f0' →
      TreeHyp st F nm O ρ (forks'.map (·.1)) dims' f0' (node callee path cins).2 →
      GoodE st F ρ forks' callee (run callee path forks' args) (node callee path cins)) :
    ∀ (cs : List Call) (env : Env) (sib : RBMap) (acc : List Inst) (sacc : List STree),
      EnvRel st F ρ (Agree forks) (eraseEnv env) self sib → env.selfTy = sT → CallsOkE st P sT (typesOf env) cs →
      (∀ f, Agree forks f → acc.map eraseInst = instsTList st F ρ forks f sacc) →
      ∀ f0, Agree forks f0 →
      TreeHyp st F nm O ρ (forks.map (·.1)) dims f0 (staticCallsT st P.insOf node path self cs sib []).2 →
      EnvRel st F ρ (Agree forks) (eraseEnv (evalCalls st F P.insOf run path forks cs env acc).1) self
          (staticCallsT st P.insOf node path self cs sib sacc).1 ∧
      (evalCalls st F P.insOf run path forks cs env acc).1.selfTys = env.selfTys ∧
      typesOf (evalCalls st F P.insOf run path forks cs env acc).1 = typesOf env ++ callTypesM cs ∧
      (∀ f, Agree forks f → (evalCalls st F P.insOf run path forks cs env acc).2.map eraseInst
        = instsTList st F ρ forks f (staticCallsT st P.insOf node path self cs sib sacc).2) := by
  intro cs
  induction cs with
  | nil =>
    intro env sib acc sacc hrel _ _ hacc _ _ _
    simp only [evalCalls, staticCallsT, callTypesM, List.map_nil, List.append_nil]
    exact ⟨hrel, trivial, trivial, hacc⟩
  | cons c cs ih =>
    intro env sib acc sacc hrel hsT hok hacc f0 hf0 hT
    simp only [CallsOkE] at hok
    obtain ⟨⟨hclean, hc⟩, hcs⟩ := hok
    have hsT' : (eraseEnv env).selfTy = env.selfTy := selfTy_eraseEnv env
    have hcT' : (eraseEnv env).callTy = env.callTy := callTy_eraseEnv env
    rcases hc with hplain | hmapped | hdis
    · -- a plain call
      obtain ⟨hc, hns⟩ := hplain
      have hc' : CallOk st P.insOf (eraseEnv env).selfTy (eraseEnv env).callTy c := by
        rw [hsT', hcT', hsT, callTy_typesOf]; exact hc
      have hargs := args_stepC st hst F hF ρ P.insOf forks (eraseEnv env) self sib hrel c hc' hns f0 hf0
      rw [← mkArgs_erase_none st F env _ c hclean.1] at hargs
      have hm : c.mapped = false := hc.1
      generalize hr : node c.callee (path ++ [c.id]) (resolveBindsT st self sib (P.insOf c.callee) c) = r
        at hargs
      have hsplitL : (staticCallsT st P.insOf node path self (c :: cs) sib []).2
          = r.2 ++ (staticCallsT st P.insOf node path self cs (sib ++ [(c.id, r.1)]) []).2 := by
        simp only [staticCallsT, hm, Bool.false_eq_true, if_false, hr, hc.2.1]
        rw [staticCallsT_acc]
        simp
      rw [hsplitL] at hT
      have hgood := hrun c.callee (path ++ [c.id]) forks dims _ _ f0 hal hargs hf0 (by rw [hr]; exact hT.left)
      rw [hr] at hgood
      obtain ⟨g1, g2, g3⟩ := hgood
      simp only [evalCalls, staticCallsT, hm, Bool.false_eq_true, if_false, hr, hc.2.1]
      rw [evalCall_plain st F P.insOf run path forks env c hc.1 hc.2.1]
      simp only
      have hrel' := envRel_stepC st F ρ (Agree forks) (eraseEnv env) self sib hrel c.id ⟨c.callee, 0, 0⟩ _ _ g1 g2
      rw [← eraseEnv_append] at hrel'
      have hty : callTyM c = ⟨c.callee, 0, 0⟩ := by simp [callTyM, hm]
      have := ih _ _ (acc ++ (run c.callee (path ++ [c.id]) forks
          (mkArgs st F (argVals st env (P.insOf c.callee) c) none)).2) (sacc ++ r.2)
        hrel' hsT (by rw [← hty]; simpa [typesOf] using hcs)
        (fun f hf => by rw [List.map_append, hacc f hf, g3 f hf, instsTList_append]) f0 hf0 hT.right
      obtain ⟨r1, r2, r3, r4⟩ := this
      refine ⟨r1, r2, ?_, r4⟩
      rw [r3]
      simp [typesOf, callTypesM, hty]
    · -- an array-mode map call
      have hmapped' : MappedOkT st P (eraseEnv env).selfTy (eraseEnv env).callTy c := by
        rw [hsT', hcT', hsT, callTy_typesOf]; exact hmapped
      have hm : c.mapped = true := hmapped'.1
      have hd : c.disabled = none := hmapped'.2.1
      have hex := hmapped'.2.2.1
      generalize hr : node c.callee (path ++ [c.id]) (resolveBindsT st self sib (P.insOf c.callee) c) = r
      generalize hci : callIndicesT st self sib (P.insOf c.callee) c = ci at *
      generalize hrm : runtimeMode st self sib (P.insOf c.callee) c = rm at *
      cases hrt : (ci.isNone && rm.isSome) with
      | true =>
        -- a map call of run-time size
        have hcnone : ci = none := by
          cases ci with
          | none => rfl
          | some x => simp at hrt
        have hrmS : rm = some (rm.getD false) := by
          cases rm with
          | none => simp at hrt
          | some b => rfl
        have hsplitL : (staticCallsT st P.insOf node path self (c :: cs) sib []).2
            = [STree.subR c.id (rm.getD false) (path ++ [c.id]) (resolveBindsT st self sib (P.insOf c.callee) c)
                (noSplitOf c.id r.1.exp && noMergeOf c.id r.1.exp) r.2] ++
              (staticCallsT st P.insOf node path self cs
                (sib ++ [(c.id, ⟨.merge c.id (rm.getD false) r.1.exp,
                  if rm.getD false then ⟨c.callee, 1, 0⟩ else ⟨c.callee, 0, 1⟩⟩)]) []).2 := by
          simp only [staticCallsT, hm, if_true, hr, hci, hrm, hrt]
          rw [staticCallsT_acc]
          simp
        rw [hsplitL] at hT
        obtain ⟨hokf, hmf, habove, hne, hsrc, hloc, hch⟩ := hT.left.subR
        have hT2 := hT.right
        rw [hmf] at hrmS hT2
        simp only [Bool.false_eq_true, if_false] at hT2
        simp only [Bool.and_eq_true] at hokf
        have hfacts := runtimeMode_facts st self sib (P.insOf c.callee) c (hrm.trans hrmS)
        have hmodeF : ∀ p ∈ P.insOf c.callee, ∀ b, c.binds.find? (fun b => b.param == p.name) = some b →
            b.split = true → splitIsMap st self sib b.exp = false := fun p hp b hb hs => (hfacts p hp b hb hs).2
        rw [hal] at hloc
        generalize hixs : ρ.idx c.id f0 = ixs at *
        have hidxA : ∀ f, Agree forks f → ρ.idx c.id f = ixs := fun f hf => by
          rw [← hixs]; exact hloc.agree hf hf0
        -- every split source is an array with these indices
        have hsrcV : ∀ p ∈ P.insOf c.callee, ∀ b, c.binds.find? (fun b => b.param == p.name) = some b →
            b.split = true → ∃ xs, J.erase (eval st env b.exp) = .arr xs ∧ ixs = (List.range xs.length).map .i := by
          intro p hp b hfb hs
          have hmem := cins_split_entry st self sib (P.insOf c.callee) c p b hp hfb hs (hmodeF p hp b hfb hs)
          have h1 := hsrc _ hmem c.id false _ rfl rfl
          have hty := hmapped'.2.2.2.2 p hp b hfb
          simp only [hs, if_true] at hty
          have hE := (eval_resolveExpT st hst F hF ρ _ (eraseEnv env) self sib hrel f0 hf0 b.exp _ hty).1
          simp only at h1
          rw [← hE, eval_eraseEnv st env b.exp (hclean.1 b (List.mem_of_find?_eq_some hfb))] at h1
          generalize p.ty = T at h1
          obtain ⟨pb, pm, pa⟩ := T
          simp only [liftSplitTy, Bool.false_eq_true, if_false] at h1
          obtain ⟨xs, hx, hi⟩ := narrow_arrTy_indices hF pb pm pa _ (by rw [h1]; exact hne)
          exact ⟨xs, hx, by rw [← h1, hi]⟩
        have hallI : ∀ ix ∈ ixs, ∃ k, ix = Idx.i k := by
          obtain ⟨b0, hb0, hs0⟩ := hex
          obtain ⟨p0, hp0, hfb0⟩ := hmapped'.2.2.2.1 b0 hb0 hs0
          obtain ⟨xs, _, hi⟩ := hsrcV p0 hp0 b0 hfb0 hs0
          intro ix hix
          rw [hi] at hix
          simp only [List.mem_map] at hix
          obtain ⟨k, _, rfl⟩ := hix
          exact ⟨k, rfl⟩
        have hidx : ∀ v ∈ splitVals st env c, indicesOf v = ixs := by
          intro v hv
          simp only [splitVals, hd, List.append_nil, List.mem_map, List.mem_filter] at hv
          obtain ⟨b, ⟨hb, hs⟩, rfl⟩ := hv
          obtain ⟨p, hp, hfb⟩ := hmapped'.2.2.2.1 b hb hs
          obtain ⟨xs, hx, hi⟩ := hsrcV p hp b hfb hs
          rw [← indicesOf_erase, hx, hi]
          rfl
        have hmode : callMode st env c = .arr := by
          rw [← callMode_eraseEnv]
          apply callMode_M st P (eraseEnv env) c hmapped'
          intro b hb hs j hj
          obtain ⟨p, hp, hfb⟩ := hmapped'.2.2.2.1 b hb hs
          have := (hfacts p hp b hfb hs).1
          rw [hj, isRuntimeSrc_not_lit] at this
          cases this
        have hchild : ∀ ix ∈ ixs, GoodE st F ρ (forks ++ [(c.id, ix)]) c.callee
            (run c.callee (path ++ [c.id]) (forks ++ [(c.id, ix)])
              (mkArgs st F (argVals st env (P.insOf c.callee) c) (some ix))) r := by
          intro ix hix
          obtain ⟨k, rfl⟩ := hallI ix hix
          have ha := args_mappedM st hst F hF ρ P forks (eraseEnv env) self sib hrel c hmapped' hmodeF k f0 hf0
          rw [← mkArgs_erase_i st F env _ c k hclean.1] at ha
          have hTc := hch (.i k) hix
          have e1 : (forks ++ [(c.id, Idx.i k)]).map (·.1) = forks.map (·.1) ++ [c.id] := by simp
          have := hrun c.callee (path ++ [c.id]) (forks ++ [(c.id, .i k)]) (dims ++ [(c.id, [])]) _ _
            (fset f0 c.id (.i k)) (by simp [hal]) ha (hf0.fset c.id (.i k) habove)
            (by rw [hr, e1]; exact hTc)
          rw [hr] at this
          exact this
        obtain ⟨ix0, hix0⟩ : ∃ ix0, ix0 ∈ ixs := by
          cases ixs with
          | nil => exact absurd rfl hne
          | cons a l => exact ⟨a, by simp⟩
        simp only [evalCalls, staticCallsT, hm, if_true, hr, hci, hrm, hrt, hmf, Bool.false_eq_true, if_false]
        rw [evalCall_mappedC st F P.insOf run path forks env c .arr ixs hm hd hex hidx hne hmode]
        simp only
        have hv : ∀ f, Agree forks f → J.erase (collect Mode.arr ixs (ixs.map fun ix =>
              (run c.callee (path ++ [c.id]) (forks ++ [(c.id, ix)])
                (mkArgs st F (argVals st env (P.insOf c.callee) c) (some ix))).1))
            = evalRT st F ρ f ⟨c.callee, 0, 1⟩ (.merge c.id false r.1.exp) := by
          intro f hf
          simp only [collect, erase_arr, evalRT, hidxA f hf, List.map_map, J.arr.injEq]
          apply List.map_congr_left
          intro ix hix
          simp only [Function.comp_apply]
          exact (hchild _ hix).1 _ (hf.fset c.id ix habove)
        have htyR : HasTyR st ⟨c.callee, 0, 1⟩ (.merge c.id false r.1.exp) := by
          simp only [HasTyR]
          exact ⟨by simp, hokf.1, (hchild ix0 hix0).2.1⟩
        have hrel' := envRel_stepC st F ρ (Agree forks) (eraseEnv env) self sib hrel c.id ⟨c.callee, 0, 1⟩ _
          ⟨.merge c.id false r.1.exp, ⟨c.callee, 0, 1⟩⟩ hv htyR
        rw [← eraseEnv_append] at hrel'
        have hty : callTyM c = ⟨c.callee, 0, 1⟩ := by simp [callTyM, hm]
        have hinst : ∀ f, Agree forks f → (ixs.flatMap fun ix =>
              (run c.callee (path ++ [c.id]) (forks ++ [(c.id, ix)])
                (mkArgs st F (argVals st env (P.insOf c.callee) c) (some ix))).2).map eraseInst
            = instsTList st F ρ forks f [STree.subR c.id false (path ++ [c.id])
                (resolveBindsT st self sib (P.insOf c.callee) c)
                (noSplitOf c.id r.1.exp && noMergeOf c.id r.1.exp) r.2] := by
          intro f hf
          have hne' : ixs.isEmpty = false := by cases ixs <;> simp_all
          simp only [instsTList, instsT, List.append_nil, List.map_flatMap, hidxA f hf, hne', Bool.false_eq_true,
            if_false]
          apply flatMap_congr_mem
          intro ix hix
          exact (hchild ix hix).2.2 _ (hf.fset c.id ix habove)
        simp only [liftTy]
        have := ih _ _ (acc ++ (ixs.flatMap fun ix =>
              (run c.callee (path ++ [c.id]) (forks ++ [(c.id, ix)])
                (mkArgs st F (argVals st env (P.insOf c.callee) c) (some ix))).2))
          (sacc ++ [STree.subR c.id false (path ++ [c.id]) (resolveBindsT st self sib (P.insOf c.callee) c)
                (noSplitOf c.id r.1.exp && noMergeOf c.id r.1.exp) r.2])
          hrel' hsT (by rw [← hty]; simpa [typesOf] using hcs)
          (fun f hf => by rw [List.map_append, hacc f hf, hinst f hf, instsTList_append]) f0 hf0 hT2
        obtain ⟨r1, r2, r3, r4⟩ := this
        refine ⟨r1, r2, ?_, r4⟩
        rw [r3]
        simp [typesOf, callTypesM, hty]
      | false =>
        have hsplitL : (staticCallsT st P.insOf node path self (c :: cs) sib []).2
            = [STree.sub c.id (ci.getD (false, [])).1 (ci.getD (false, [])).2
                (ci.isSome && !(ci.getD (false, [])).2.isEmpty &&
                  splitsStaticT st self sib (P.insOf c.callee) c (ci.getD (false, [])) && c.disabled.isNone &&
                  noMergeOf c.id r.1.exp) r.2] ++
              (staticCallsT st P.insOf node path self cs
                (sib ++ [(c.id, unrolledOutputsT c (ci.getD (false, [])) r.1.exp)]) []).2 := by
          simp only [staticCallsT, hm, if_true, hr, hci, hrm, hrt, Bool.false_eq_true, if_false]
          rw [staticCallsT_acc]
          simp
        rw [hsplitL] at hT
        obtain ⟨hokf, habove, hch⟩ := hT.left.sub
        have hT2 := hT.right
        simp only [Bool.and_eq_true, Bool.not_eq_true'] at hokf
        obtain ⟨⟨⟨⟨hsome, hnonempty⟩, hss⟩, _⟩, hnmg⟩ := hokf
        obtain ⟨hix1, hfacts⟩ := mapped_factsT st hst F hF ρ P (Agree forks) (eraseEnv env) self sib hrel f0 hf0 c
          hmapped' (ci.getD (false, [])) hss
        generalize hixs : (ci.getD (false, [])).2 = ixs at *
        have hne : ixs ≠ [] := by
          intro e; rw [e] at hnonempty; simp at hnonempty
        have hixsP : ci.getD (false, []) = (false, ixs) := Prod.ext hix1 hixs
        have hallI : ∀ ix ∈ ixs, ∃ k, ix = Idx.i k := by
          obtain ⟨b0, hb0, hs0⟩ := hex
          obtain ⟨p0, hp0, hfb0⟩ := hmapped'.2.2.2.1 b0 hb0 hs0
          obtain ⟨es, _, hi⟩ := hfacts p0 hp0 b0 hfb0 hs0
          intro ix hix
          rw [hi] at hix
          simp only [List.mem_map] at hix
          obtain ⟨k, _, rfl⟩ := hix
          exact ⟨k, rfl⟩
        have hidx' := splitVals_indicesT st hst F hF ρ P (Agree forks) (eraseEnv env) self sib hrel f0 hf0 c
          hmapped' ixs hfacts
        have hidx : ∀ v ∈ splitVals st env c, indicesOf v = ixs := by
          intro v hv
          rw [← indicesOf_erase]
          apply hidx'
          rw [splitVals_eraseEnv st env c hclean]
          exact List.mem_map_of_mem hv
        have hmode : callMode st env c = .arr := by
          rw [← callMode_eraseEnv]
          exact callMode_T st P (eraseEnv env) self sib c hmapped' ixs hfacts
        have hchild : ∀ ix ∈ ixs, GoodE st F ρ (forks ++ [(c.id, ix)]) c.callee
            (run c.callee (path ++ [c.id]) (forks ++ [(c.id, ix)])
              (mkArgs st F (argVals st env (P.insOf c.callee) c) (some ix))) r := by
          intro ix hix
          obtain ⟨k, rfl⟩ := hallI ix hix
          have ha := args_mappedC st hst F hF ρ P forks (eraseEnv env) self sib hrel c hmapped' ixs hfacts k f0 hf0
          rw [← mkArgs_erase_i st F env _ c k hclean.1] at ha
          have hTc := hch (.i k) hix
          have e1 : (forks ++ [(c.id, Idx.i k)]).map (·.1) = forks.map (·.1) ++ [c.id] := by simp
          have := hrun c.callee (path ++ [c.id]) (forks ++ [(c.id, .i k)]) (dims ++ [(c.id, ixs)]) _ _
            (fset f0 c.id (.i k)) (by simp [hal]) ha (hf0.fset c.id (.i k) habove)
            (by rw [hr, e1]; exact hTc)
          rw [hr] at this
          exact this
        obtain ⟨ix0, hix0⟩ : ∃ ix0, ix0 ∈ ixs := by
          cases ixs with
          | nil => exact absurd rfl hne
          | cons a l => exact ⟨a, by simp⟩
        simp only [evalCalls, staticCallsT, hm, if_true, hr, hci, hrm, hixsP, hrt, Bool.false_eq_true, if_false]
        rw [evalCall_mappedC st F P.insOf run path forks env c .arr ixs hm hd hex hidx hne hmode]
        simp only
        have hout : unrolledOutputsT c (false, ixs) r.1.exp
            = ⟨.arr (ixs.map fun ix => pushFork c.id ix r.1.exp), ⟨c.callee, 0, 1⟩⟩ := by
          simp [unrolledOutputsT]
        rw [hout]
        have hv : ∀ f, Agree forks f → J.erase (collect Mode.arr ixs (ixs.map fun ix =>
              (run c.callee (path ++ [c.id]) (forks ++ [(c.id, ix)])
                (mkArgs st F (argVals st env (P.insOf c.callee) c) (some ix))).1))
            = evalRT st F ρ f ⟨c.callee, 0, 1⟩ (.arr (ixs.map fun ix => pushFork c.id ix r.1.exp)) := by
          intro f hf
          simp only [collect, erase_arr, evalRT, evalRTList_map, List.map_map, J.arr.injEq]
          apply List.map_congr_left
          intro ix hix
          obtain ⟨k, rfl⟩ := hallI ix hix
          simp only [Function.comp_apply]
          rw [(pushFork_evalRT st hst F ρ hρ c.id k r.1.exp _ f (hchild _ hix).2.1 hnmg).1]
          exact (hchild _ hix).1 _ (hf.fset c.id (.i k) habove)
        have htyR : HasTyR st ⟨c.callee, 0, 1⟩ (.arr (ixs.map fun ix => pushFork c.id ix r.1.exp)) := by
          simp only [HasTyR]
          refine ⟨by simp, HasTyRList_map st _ _ _ ?_⟩
          intro ix hix
          obtain ⟨k, rfl⟩ := hallI ix hix
          exact (pushFork_evalRT st hst F ρ hρ c.id k r.1.exp _ [] (hchild _ hix).2.1 hnmg).2
        have hrel' := envRel_stepC st F ρ (Agree forks) (eraseEnv env) self sib hrel c.id ⟨c.callee, 0, 1⟩ _
          ⟨.arr (ixs.map fun ix => pushFork c.id ix r.1.exp), ⟨c.callee, 0, 1⟩⟩ hv htyR
        rw [← eraseEnv_append] at hrel'
        have hty : callTyM c = ⟨c.callee, 0, 1⟩ := by simp [callTyM, hm]
        have hinst : ∀ f, Agree forks f → (ixs.flatMap fun ix =>
              (run c.callee (path ++ [c.id]) (forks ++ [(c.id, ix)])
                (mkArgs st F (argVals st env (P.insOf c.callee) c) (some ix))).2).map eraseInst
            = instsTList st F ρ forks f [STree.sub c.id false ixs
                (ci.isSome && !ixs.isEmpty && splitsStaticT st self sib (P.insOf c.callee) c (false, ixs) &&
                  c.disabled.isNone && noMergeOf c.id r.1.exp) r.2] := by
          intro f hf
          simp only [instsTList, instsT, List.append_nil, List.map_flatMap]
          apply flatMap_congr_mem
          intro ix hix
          exact (hchild ix hix).2.2 _ (hf.fset c.id ix habove)
        simp only [liftTy]
        have := ih _ _ (acc ++ (ixs.flatMap fun ix =>
              (run c.callee (path ++ [c.id]) (forks ++ [(c.id, ix)])
                (mkArgs st F (argVals st env (P.insOf c.callee) c) (some ix))).2))
          (sacc ++ [STree.sub c.id false ixs
                (ci.isSome && !ixs.isEmpty && splitsStaticT st self sib (P.insOf c.callee) c (false, ixs) &&
                  c.disabled.isNone && noMergeOf c.id r.1.exp) r.2])
          hrel' hsT (by rw [← hty]; simpa [typesOf] using hcs)
          (fun f hf => by rw [List.map_append, hacc f hf, hinst f hf, instsTList_append]) f0 hf0
          (by rw [hixsP, hout] at hT2; exact hT2)
        obtain ⟨r1, r2, r3, r4⟩ := this
        refine ⟨r1, r2, ?_, r4⟩
        rw [r3]
        simp [typesOf, callTypesM, hty]
    · -- a plain call with a run-time `disabled` control
      obtain ⟨hm, ⟨e, hd, htyd⟩, hns, hb⟩ := hdis
      have hcE : Exp.clean e = true := hclean.2 _ hd
      have hc' : CallOk st P.insOf (eraseEnv env).selfTy (eraseEnv env).callTy { c with disabled := none } := by
        rw [hsT', hcT', hsT, callTy_typesOf]; exact ⟨hm, rfl, hb⟩
      have hargs := args_stepC st hst F hF ρ P.insOf forks (eraseEnv env) self sib hrel
        { c with disabled := none } hc' hns f0 hf0
      have hav : ∀ (en : Env), argVals st en (P.insOf c.callee) { c with disabled := none }
          = argVals st en (P.insOf c.callee) c := fun _ => rfl
      have hrb : resolveBindsT st self sib (P.insOf c.callee) { c with disabled := none }
          = resolveBindsT st self sib (P.insOf c.callee) c := rfl
      simp only [hav, hrb] at hargs
      rw [← mkArgs_erase_none st F env _ c hclean.1] at hargs
      -- the control
      have htyd' : HasTy st (eraseEnv env).selfTy (eraseEnv env).callTy ⟨"bool", 0, 0⟩ e := by
        rw [hsT', hcT', hsT, callTy_typesOf]; exact htyd
      have hctl : ∀ f, Agree forks f →
          Martian.Dataflow.isTrue (evalRT st F ρ f ⟨"bool", 0, 0⟩ (resolveRefs self sib e))
            = Martian.Dataflow.isTrue (eval st env e) := by
        intro f hf
        have h1 := (eval_resolveRefs st hst F hF ρ (Agree forks) (eraseEnv env) self sib hrel f hf e _ htyd').1
        rw [← h1, isTrue_narrow0 hF, eval_eraseEnv st env e hcE, isTrue_erase]
      have htyctl := (eval_resolveRefs st hst F hF ρ (Agree forks) (eraseEnv env) self sib hrel f0 hf0 e _ htyd').2
      generalize hr : node c.callee (path ++ [c.id]) (resolveBindsT st self sib (P.insOf c.callee) c) = r
        at hargs
      generalize hdr : resolveRefs self sib e = dR at hctl htyctl
      have hdlt : evalCall st F P.insOf run path forks env c =
          if Martian.Dataflow.isTrue (eval st env e) then (⟨c.callee, 0, 0⟩, .dnull, [])
          else (⟨c.callee, 0, 0⟩,
            (run c.callee (path ++ [c.id]) forks (mkArgs st F (argVals st env (P.insOf c.callee) c) none)).1,
            (run c.callee (path ++ [c.id]) forks (mkArgs st F (argVals st env (P.insOf c.callee) c) none)).2) :=
        evalCall_disabled st F P.insOf run path forks env c e hm hd
      have hty : callTyM c = ⟨c.callee, 0, 0⟩ := by simp [callTyM, hm]
      by_cases hfalse : dR = .lit (.atom "false")
      · -- statically false: an ordinary call
        have hnot : Martian.Dataflow.isTrue (eval st env e) = false := by
          rw [← hctl f0 hf0, hfalse]; simp [evalRT, Martian.Dataflow.isTrue]
        have hsplitL : (staticCallsT st P.insOf node path self (c :: cs) sib []).2
            = r.2 ++ (staticCallsT st P.insOf node path self cs (sib ++ [(c.id, r.1)]) []).2 := by
          simp only [staticCallsT, hm, Bool.false_eq_true, if_false, hr, hd, hdr, hfalse]
          rw [staticCallsT_acc]
          simp
        rw [hsplitL] at hT
        have hgood := hrun c.callee (path ++ [c.id]) forks dims _ _ f0 hal hargs hf0 (by rw [hr]; exact hT.left)
        rw [hr] at hgood
        obtain ⟨g1, g2, g3⟩ := hgood
        simp only [evalCalls, staticCallsT, hm, Bool.false_eq_true, if_false, hr, hd, hdr, hfalse]
        rw [hdlt, hnot]
        simp only [Bool.false_eq_true, if_false]
        have hrel' := envRel_stepC st F ρ (Agree forks) (eraseEnv env) self sib hrel c.id ⟨c.callee, 0, 0⟩ _ _ g1 g2
        rw [← eraseEnv_append] at hrel'
        have := ih _ _ (acc ++ (run c.callee (path ++ [c.id]) forks
            (mkArgs st F (argVals st env (P.insOf c.callee) c) none)).2) (sacc ++ r.2)
          hrel' hsT (by rw [← hty]; simpa [typesOf] using hcs)
          (fun f hf => by rw [List.map_append, hacc f hf, g3 f hf, instsTList_append]) f0 hf0 hT.right
        obtain ⟨r1, r2, r3, r4⟩ := this
        refine ⟨r1, r2, ?_, r4⟩
        rw [r3]
        simp [typesOf, callTypesM, hty]
      · -- a guard
        have hsplitL : (staticCallsT st P.insOf node path self (c :: cs) sib []).2
            = [STree.guard dR r.2] ++
              (staticCallsT st P.insOf node path self cs (sib ++ [(c.id, ⟨mkDisabled dR r.1.exp, r.1.ty⟩)]) []).2 := by
          simp only [staticCallsT, hm, Bool.false_eq_true, if_false, hr, hd, hdr]
          rw [staticCallsT_acc]
          simp
        have hstep : ∀ (sacc' : List STree),
            staticCallsT st P.insOf node path self (c :: cs) sib sacc'
              = staticCallsT st P.insOf node path self cs (sib ++ [(c.id, ⟨mkDisabled dR r.1.exp, r.1.ty⟩)])
                  (sacc' ++ [STree.guard dR r.2]) := by
          intro sacc'
          simp only [staticCallsT, hm, Bool.false_eq_true, if_false, hr, hd, hdr]
        rw [hsplitL] at hT
        have hgood := hrun c.callee (path ++ [c.id]) forks dims _ _ f0 hal hargs hf0
          (by rw [hr]; exact hT.left.guard)
        rw [hr] at hgood
        obtain ⟨g1, g2, g3⟩ := hgood
        have hrty : r.1.ty = ⟨c.callee, 0, 0⟩ ∨ True := Or.inr trivial
        simp only [evalCalls]
        rw [hstep, hdlt]
        -- value and instances of the call, in both cases of the control
        have hv : ∀ f, Agree forks f →
            J.erase (if Martian.Dataflow.isTrue (eval st env e) then ((⟨c.callee, 0, 0⟩ : Ty), J.dnull, ([] : List Inst))
              else (⟨c.callee, 0, 0⟩,
                (run c.callee (path ++ [c.id]) forks (mkArgs st F (argVals st env (P.insOf c.callee) c) none)).1,
                (run c.callee (path ++ [c.id]) forks (mkArgs st F (argVals st env (P.insOf c.callee) c) none)).2)).2.1
              = evalRT st F ρ f ⟨c.callee, 0, 0⟩ (mkDisabled dR r.1.exp) := by
          intro f hf
          rw [evalRT_mkDisabled, hctl f hf]
          split
          · simp [J.erase]
          · exact g1 f hf
        have hinst : ∀ f, Agree forks f →
            ((if Martian.Dataflow.isTrue (eval st env e) then ((⟨c.callee, 0, 0⟩ : Ty), J.dnull, ([] : List Inst))
              else (⟨c.callee, 0, 0⟩,
                (run c.callee (path ++ [c.id]) forks (mkArgs st F (argVals st env (P.insOf c.callee) c) none)).1,
                (run c.callee (path ++ [c.id]) forks (mkArgs st F (argVals st env (P.insOf c.callee) c) none)).2)).2.2).map
                eraseInst
              = instsTList st F ρ forks f [STree.guard dR r.2] := by
          intro f hf
          simp only [instsTList, instsT, List.append_nil, hctl f hf]
          split
          · simp
          · exact g3 f hf
        have hfst : (if Martian.Dataflow.isTrue (eval st env e) then ((⟨c.callee, 0, 0⟩ : Ty), J.dnull, ([] : List Inst))
              else (⟨c.callee, 0, 0⟩,
                (run c.callee (path ++ [c.id]) forks (mkArgs st F (argVals st env (P.insOf c.callee) c) none)).1,
                (run c.callee (path ++ [c.id]) forks (mkArgs st F (argVals st env (P.insOf c.callee) c) none)).2)).1
              = ⟨c.callee, 0, 0⟩ := by split <;> rfl
        generalize hX : (if Martian.Dataflow.isTrue (eval st env e) then ((⟨c.callee, 0, 0⟩ : Ty), J.dnull, ([] : List Inst))
              else (⟨c.callee, 0, 0⟩,
                (run c.callee (path ++ [c.id]) forks (mkArgs st F (argVals st env (P.insOf c.callee) c) none)).1,
                (run c.callee (path ++ [c.id]) forks (mkArgs st F (argVals st env (P.insOf c.callee) c) none)).2)) = X
          at hv hinst hfst
        rw [hfst]
        have hrel' := envRel_stepC st F ρ (Agree forks) (eraseEnv env) self sib hrel c.id ⟨c.callee, 0, 0⟩ _
          ⟨mkDisabled dR r.1.exp, r.1.ty⟩ hv (HasTyR_mkDisabled st dR _ _ htyctl g2)
        rw [← eraseEnv_append] at hrel'
        have := ih _ _ (acc ++ X.2.2) (sacc ++ [STree.guard dR r.2])
          hrel' hsT (by rw [← hty]; simpa [typesOf] using hcs)
          (fun f hf => by rw [List.map_append, hacc f hf, hinst f hf, instsTList_append]) f0 hf0 hT.right
        obtain ⟨r1, r2, r3, r4⟩ := this
        refine ⟨r1, r2, ?_, r4⟩
        rw [r3]
        simp [typesOf, callTypesM, hty]


end callsR

/-! ## the call graph -/

section graphR
variable (P : Program) (hw : WellTypedE P) (F : Nat) (hF : NarrowFix P.table F)
  (nm : List String → String) (O : Oracle) (hO : OracleClean O) (ρ : Store) (hρ : StoreExt ρ)
include hw hF hO hρ

theorem refine_callableR :
    ∀ (fuel : Nat) (callee : String) (path : List String) (forks : List (String × Idx))
      (dims : List (String × List Idx)) (args : J) (cins : RBMap),
      ∀ f0 : ForkAssign, dims.map (·.1) = forks.map (·.1) →
      ArgsRelC P.table F ρ forks (P.insOf callee) (J.erase args) cins → Agree forks f0 →
      TreeHyp P.table F nm O ρ (forks.map (·.1)) dims f0 (staticCallableT P nm fuel callee path cins).2 →
      GoodE P.table F ρ forks callee (runCallable P O F fuel callee path forks args)
        (staticCallableT P nm fuel callee path cins) := by
  intro fuel
  induction fuel with
  | zero =>
    intro callee path forks dims args cins _ _ _ _ _
    simp only [runCallable, staticCallableT, GoodE, evalRT, instsTList, J.erase, List.map_nil]
    exact ⟨fun _ _ => trivial, HasTyR_null _ _, fun _ _ => trivial⟩
  | succ fuel ih =>
    intro callee path forks dims args cins f0 hal hargs hf0 hT
    simp only [runCallable, staticCallableT] at hT ⊢
    cases hl : P.callables.lookup callee with
    | none =>
      simp only [GoodE, evalRT, instsTList, J.erase, List.map_nil]
      exact ⟨fun _ _ => trivial, HasTyR_null _ _, fun _ _ => trivial⟩
    | some cb =>
      cases cb with
      | stage sins souts =>
        simp only [hl] at hT
        have hs := hT.store { path := path, callee := callee, inputs := cins, forks := dims }
          (by simp [flattenTList, flattenT])
        refine ⟨?_, ?_, ?_⟩
        · intro f hf
          simp only [evalRT, projPath]
          have := hs f
          simp only [key_of_agree f dims forks hal hf] at this
          rw [this, narrow_erase]
          congr 1
          cases ho : O ⟨path, forks⟩ with
          | none => rfl
          | some v => exact Proofs.Approx.erase_clean _ (hO _ _ ho)
        · simp only [HasTyR, pathTy]
          exact Sub.refl _
        · intro f hf
          obtain ⟨g, hc, ha, _⟩ := hargs
          simp only [instsTList, instsT, List.append_nil, runtimeArgs, hc, List.map_map,
            List.map_cons, List.map_nil, eraseInst, ha f hf, List.cons.injEq, and_true]
          rfl
      | pipeline pins outs calls ret =>
        simp only [hl] at hT
        have hins : P.insOf callee = pins := by simp [Program.insOf, hl, Callable.ins]
        rw [hins] at hargs
        obtain ⟨hcalls, hret⟩ := hw.pipelines callee pins outs calls ret hl
        have htab := hw.outsOf callee _ hl
        simp only [Callable.outs] at htab
        have hn := hw.structs _ _ htab
        have hinit := envRel_initC P.table F ρ forks pins (J.erase args) cins hargs
        have hinit' : EnvRel P.table F ρ (Agree forks) (eraseEnv ⟨pins, args, []⟩) cins [] := hinit
        have hcs := refine_callsR P.table hw.structs F hF ρ hρ P nm O (runCallable P O F fuel)
          (staticCallableT P nm fuel) path forks dims cins (selfTyOf pins) hal ih
          calls ⟨pins, args, []⟩ [] [] [] hinit' rfl (by simpa [typesOf] using hcalls)
          (fun _ _ => by simp [instsTList]) f0 hf0 hT
        obtain ⟨hrel, hself, htypes, hinst⟩ := hcs
        simp only
        generalize evalCalls P.table F P.insOf (runCallable P O F fuel) path forks calls ⟨pins, args, []⟩ [] = R
          at hrel hself htypes hinst
        generalize staticCallsT P.table P.insOf (staticCallableT P nm fuel) path cins calls [] [] = S
          at hrel hinst
        have hsT : (eraseEnv R.1).selfTy = selfTyOf pins := by rw [selfTy_eraseEnv, selfTy_eq, hself]
        have hcT : (eraseEnv R.1).callTy = callTyOf (callTypesM calls) := by
          rw [callTy_eraseEnv, callTy_typesOf, htypes]; simp [typesOf]
        have key : ∀ p ∈ outs,
            (∀ f, Agree forks f → narrow P.table F p.ty (J.erase (match ret.lookup p.name with
              | some e => eval P.table R.1 e
              | none => .null))
              = evalRT P.table F ρ f p.ty (match ret.lookup p.name with
                | some e => filterT P.table p.ty (resolveRefs cins S.1 e)
                | none => .lit .null)) ∧
            HasTyR P.table p.ty (match ret.lookup p.name with
                | some e => filterT P.table p.ty (resolveRefs cins S.1 e)
                | none => .lit .null) := by
          intro p hp
          cases he : ret.lookup p.name with
          | none => exact ⟨fun f _ => by simp [narrow_null hF, evalRT, J.erase], HasTyR_null _ _⟩
          | some e =>
            obtain ⟨hcl, hty⟩ := hret p hp e he
            rw [← hsT, ← hcT] at hty
            simp only
            rw [← eval_eraseEnv P.table R.1 e hcl]
            exact ⟨fun f hf => (eval_resolveExpT P.table hw.structs F hF ρ _ _ cins S.1 hrel f hf e p.ty hty).1,
              (eval_resolveExpT P.table hw.structs F hF ρ _ _ cins S.1 hrel f0 hf0 e p.ty hty).2⟩
        have c2 : ((0 : Nat) == 0 && (0 : Nat) != 0) = false := by decide
        refine ⟨?_, ?_, hinst⟩
        · intro f hf
          simp only [evalRT, c2, Bool.false_eq_true, if_false, htab, J.obj.injEq, erase_obj, List.map_map]
          apply List.map_congr_left
          intro p hp
          simp only [Function.comp_apply, Prod.mk.injEq, true_and]
          rw [lookup_evalRTMembers, lookup_map_find, find_name_of_nodup outs hn p hp,
            memberTy_find outs p.name p (find_name_of_nodup outs hn p hp), narrow_erase]
          exact (key p hp).1 f hf
        · simp only [HasTyR]
          refine ⟨trivial, trivial, outs, htab, ?_, ?_⟩
          · apply HasTyRMembers_of_mem
            intro k e hke _
            simp only [List.mem_map, Prod.mk.injEq] at hke
            obtain ⟨p, hp, hk, he⟩ := hke
            subst hk; subst he
            rw [memberTy_find outs p.name p (find_name_of_nodup outs hn p hp)]
            exact (key p hp).2
          · intro p hp
            rw [lookup_map_find, find_name_of_nodup outs hn p hp]
            rfl

/-- THE REFINEMENT with run-time `disabled` controls and array-mode map calls of run-time size, modulo
the erasure `dnull ↦ null`: outputs and every stage instance's arguments -/
theorem twoPhaseR_eq_den_F
    (hT : TreeHyp P.table F nm O ρ [] [] [] (staticProgramT P nm).2) :
    (J.erase (runCallable P O F P.fuel P.top.callee [P.top.id] []
        (mkArgs P.table F (argVals P.table ⟨[], .null, []⟩ (P.insOf P.top.callee) P.top) none)).1,
     (runCallable P O F P.fuel P.top.callee [P.top.id] []
        (mkArgs P.table F (argVals P.table ⟨[], .null, []⟩ (P.insOf P.top.callee) P.top) none)).2.map eraseInst)
      = ((evalRT P.table F ρ [] ⟨P.top.callee, 0, 0⟩ (staticProgramT P nm).1.exp),
         instsTList P.table F ρ [] [] (staticProgramT P nm).2) := by
  have henv : EnvRel P.table F ρ (Agree []) (eraseEnv ⟨[], .null, []⟩) [] [] := by
    refine ⟨?_, ?_, ?_⟩
    · intro p; simp [eraseEnv, Env.selfTy, σexp, HasTyR_null, evalRT, J.field, J.erase]
    · intro c; simp [eraseEnv, Env.callTy, Env.callVal, σexp, HasTyR_null, evalRT]
    · intro c; rfl
  have htop : CallOk P.table P.insOf (Env.selfTy (eraseEnv ⟨[], .null, []⟩)) (Env.callTy (eraseEnv ⟨[], .null, []⟩))
      P.top := by
    rw [selfTy_eraseEnv, callTy_eraseEnv, selfTy_eq, callTy_typesOf]
    exact hw.top.1
  have hargs := args_stepC P.table hw.structs F hF ρ P.insOf [] _ [] [] henv P.top htop hw.top.2.1
    [] (Agree.nil [])
  rw [← mkArgs_erase_none P.table F _ _ P.top hw.top.2.2] at hargs
  have := refine_callableR P hw F hF nm O hO ρ hρ P.fuel P.top.callee [P.top.id] [] [] _ _ [] rfl hargs
    (Agree.nil []) hT
  obtain ⟨g1, _, g3⟩ := this
  exact Prod.ext (g1 [] (Agree.nil [])) (g3 [] (Agree.nil []))

end graphR

/-! ## the store of a run -/

theorem storeOfRun_ext (nm : List String → String) (nodes : List SNode)
    (occ : List (String × List String × List String)) (O : Oracle) (I : IdxRec) :
    StoreExt (storeOfRun nm nodes occ O I) := by
  intro node f g h
  refine ⟨(storeOfNodes_ext nm nodes O node f g h).1, ?_⟩
  intro c
  simp only [storeOfRun]
  cases occ.lookup c with
  | none => rfl
  | some pd =>
    simp only
    congr 2
    apply List.map_congr_left
    intro d _
    rw [h d]

theorem storeOfRun_ok (nm : List String → String) (nodes : List SNode)
    (occ : List (String × List String × List String)) (O : Oracle) (I : IdxRec)
    (hn : (nodes.map fun n => nm n.path).Nodup) :
    ∀ n ∈ nodes, StoreAtNode nm O (storeOfRun nm nodes occ O I) n :=
  fun n hmem f => storeOfNodes_ok nm nodes O hn n hmem f

theorem lookup_of_nodup_keys {β : Type} : ∀ (l : List (String × β)) (k : String) (v : β),
    (l.map (·.1)).Nodup → (k, v) ∈ l → l.lookup k = some v
  | [], _, _, _, h => by simp at h
  | (k0, v0) :: l, k, v, hn, h => by
    simp only [List.map_cons, List.nodup_cons] at hn
    simp only [List.mem_cons, Prod.mk.injEq] at h
    simp only [List.lookup_cons]
    cases h with
    | inl h => simp [h.1, h.2]
    | inr h =>
      have hne : (k == k0) = false := by
        apply beq_false_of_ne
        intro e
        subst e
        exact hn.1 (List.mem_map.mpr ⟨(k, v), h, rfl⟩)
      simp only [hne]
      exact lookup_of_nodup_keys l k v hn.2 h

theorem storeOfRun_local (nm : List String → String) (nodes : List SNode)
    (occ : List (String × List String × List String)) (O : Oracle) (I : IdxRec)
    (hn : (occ.map (·.1)).Nodup) :
    ∀ o ∈ occ, IdxLocal (storeOfRun nm nodes occ O I) o.1 o.2.2 := by
  intro o ho f g h
  obtain ⟨c, path, dims⟩ := o
  simp only [storeOfRun, lookup_of_nodup_keys occ c (path, dims) hn ho]
  congr 2
  apply List.map_congr_left
  intro d hd
  rw [h d hd]

mutual
theorem treeOk_implies_P1 (st : StructTable) (nf : Nat) (ρ : Store) :
    ∀ (t : STree) (above : List String) (f : ForkAssign), treeOk above t = true →
      treeOkP above t = true ∧ idxOkT st nf ρ f t = true ∧ ∀ dims, subROcc dims t = []
  | .node _, _, _, _ => by simp [treeOkP, idxOkT, subROcc]
  | .sub c m ixs ok ch, above, f, h => by
    simp only [treeOk, Bool.and_eq_true] at h
    simp only [treeOkP, idxOkT, subROcc, Bool.and_eq_true, List.all_eq_true]
    exact ⟨⟨h.1, (treeOk_implies_P st nf ρ ch _ f h.2).1⟩,
      fun ix _ => (treeOk_implies_P st nf ρ ch _ _ h.2).2.1,
      fun dims => (treeOk_implies_P st nf ρ ch _ f h.2).2.2 _⟩
  | .guard d ch, above, f, h => by
    simp only [treeOk] at h
    simp only [treeOkP, idxOkT, subROcc]
    exact treeOk_implies_P st nf ρ ch above f h
  | .subR _ _ _ _ _ _, _, _, h => by simp [treeOk] at h
theorem treeOk_implies_P (st : StructTable) (nf : Nat) (ρ : Store) :
    ∀ (ts : List STree) (above : List String) (f : ForkAssign), treeOkList above ts = true →
      treeOkPList above ts = true ∧ idxOkTList st nf ρ f ts = true ∧ ∀ dims, subROccList dims ts = []
  | [], _, _, _ => by simp [treeOkPList, idxOkTList, subROccList]
  | t :: ts, above, f, h => by
    simp only [treeOkList, Bool.and_eq_true] at h
    have h1 := treeOk_implies_P1 st nf ρ t above f h.1
    have h2 := treeOk_implies_P st nf ρ ts above f h.2
    simp only [treeOkPList, idxOkTList, subROccList, Bool.and_eq_true]
    exact ⟨⟨h1.1, h2.1⟩, ⟨h1.2.1, h2.2.1⟩, fun dims => by rw [h1.2.2, h2.2.2]; rfl⟩
end

end Proofs.ResolverStatic
