import Martian.SchedTables
import Proofs.SchedProgress

/-! The table-driven versions equal the model's functions; every scheduler action the
model allows is the action `Fork.stepStage`'s chain assigns to the current fork state. -/
namespace Martian.Sched

theorem scanForks_eq_table (l : List FState) (d : Bool) : scanForks l d = scanTable l d := by
  induction l generalizing d with
  | nil => rfl
  | cons x r ih =>
    cases x <;> simp only [scanForks, scanTable] <;>
      first
      | rfl
      | exact ih _
      | (rename_i m; cases m <;> rfl)

theorem chunkLoop_spec (cs : List (Option MState)) (c r : Bool) :
    chunkLoop cs c r =
      if cs.any (· == some .failed) then none
      else some (c && cs.all (· == some .complete),
                 r && cs.all (fun x => x == some .complete || x == some .queued || x == some .running)) := by
  induction cs generalizing c r with
  | nil => simp [chunkLoop]
  | cons x xs ih =>
    rcases x with _ | m
    · simp [chunkLoop, chunkEff, ih]
    · cases m <;> simp [chunkLoop, chunkEff, chunkSwitch, ih] <;>
        (split <;> simp_all)

theorem chunkSum_eq_table (cs : List (Option MState)) : chunkSum cs = chunkSumTable cs := by
  unfold chunkSum chunkSumTable
  rw [chunkLoop_spec]
  by_cases he : cs.isEmpty = true
  · simp [he]
  · by_cases hf : cs.any (· == some .failed) = true
    · simp [he, hf]
    · simp only [he, hf, Bool.false_eq_true, if_false, Bool.true_and]

theorem forkStateOf_eq_table (fm jm sm : Option MState) (cs : List (Option MState)) :
    forkStateOf fm jm cs sm = runSteps fm jm sm (chunkSumTable cs) forkSteps := by
  rw [← chunkSum_eq_table]
  unfold forkStateOf
  generalize chunkSum cs = c
  rcases fm with _ | fm <;> (try cases fm) <;> (rcases jm with _ | jm <;> (try cases jm)) <;>
    (try rfl) <;> (cases c <;> (try rfl)) <;> (rcases sm with _ | sm <;> (try cases sm)) <;> rfl

/-! ### the model's scheduler guards against `Fork.stepStage`'s chain -/

theorem launch_split_is_doSplit {s : State} {n f : Nat} (h : launchOk s ⟨n, f, .split⟩ = true) :
    stageAction (forkState s n f) = some .doSplit := by
  unfold launchOk at h
  simp only [Bool.and_eq_true, beq_iff_eq] at h
  rw [h.2.2]; rfl

theorem stub_split_is_doSplit {s : State} {n f : Nat}
    (h : mrpWriteOk s ⟨n, f, .split⟩ .complete = true) :
    stageAction (forkState s n f) = some .doSplit := by
  unfold mrpWriteOk at h
  simp only [Bool.and_eq_true, beq_iff_eq] at h
  rw [h.2]; rfl

theorem disable_is_doSplit {s : State} {n f : Nat} (hk : s.kind n ≠ .pipeline)
    (h : mrpWriteOk s ⟨n, f, .fork⟩ .disabled = true) :
    stageAction (forkState s n f) = some .doSplit := by
  unfold mrpWriteOk at h
  simp only [Bool.or_eq_true, beq_iff_eq] at h
  rcases h with h | h
  · exact absurd h hk
  · rw [h]; rfl

/-- a fork whose own metadata is not failed/complete/disabled, whose join has no state,
whose split is complete and one of whose chunks has no state yet is in state
`split_complete` -/
theorem forkState_split_complete {s : State} {n f : Nat} (hnd : fmDone s n f = false)
    (hnf : s.st ⟨n, f, .fork⟩ ≠ some .failed) (hj : s.st ⟨n, f, .join⟩ = none)
    (hcs : chunkSum (chunkStates s n f) = .none) (hs : s.st ⟨n, f, .split⟩ = some .complete) :
    forkState s n f = .split .complete := by
  simp only [forkState, forkStateOf, hj, hcs, hs]
  cases hfm : s.st ⟨n, f, .fork⟩ with
  | none => rfl
  | some m => cases m <;> simp_all [fmDone]

/-- chunks are submitted (`Chunk.step` inside `doChunks`) only in fork state `split_complete`
— or when the fork has meanwhile failed (a sibling chunk, or the fork itself: `doChunks`
goes on submitting the remaining chunks of the same pass) -/
theorem launch_chunk_is_doChunks {s : State} {n f i : Nat}
    (h : launchOk s ⟨n, f, .chunk i⟩ = true) :
    stageAction (forkState s n f) = some .doChunks ∨ forkState s n f = .failed := by
  have hph := launchOk_phase h
  unfold launchOk at h
  simp only [Bool.and_eq_true, beq_iff_eq, State.hasObj, decide_eq_true_eq] at h
  obtain ⟨⟨⟨⟨⟨_, ⟨_, hi⟩⟩, _⟩, _⟩, _⟩, ⟨⟨⟨_, hc⟩, hs⟩, hj⟩⟩ := h
  by_cases hff : s.st ⟨n, f, .fork⟩ = some .failed
  · right; simp [forkState, forkStateOf, hff]
  by_cases hcf : (chunkStates s n f).any (· == some .failed) = true
  · right
    have hne : (chunkStates s n f).isEmpty = false := by
      cases hl : chunkStates s n f
      · rw [hl] at hcf; simp at hcf
      · rfl
    have hsum : chunkSum (chunkStates s n f) = .failed := by simp [chunkSum, hne, hcf]
    simp only [forkState, forkStateOf, hj, hsum]
    cases hfm : s.st ⟨n, f, .fork⟩ with
    | none => rfl
    | some m => cases m <;> simp_all [fmDone]
  · left
    have hcs : chunkSum (chunkStates s n f) = .none := by
      apply chunkSum_none_of
      · simp only [chunkStates, List.mem_map, List.mem_range]
        exact ⟨i, hi, by simpa [chunkState] using hc⟩
      · intro c hcm hcf'
        apply hcf
        simp only [List.any_eq_true, beq_iff_eq]
        exact ⟨c, hcm, hcf'⟩
    rw [forkState_split_complete (by simpa using hph.2.2.1) hff hj hcs hs]; rfl

/-- the join is submitted (`doJoin`) in fork state `chunks_complete`, or — a split that
defined no chunks: `doChunks` skips the chunk phase in the same pass — `split_complete`;
or the fork's own metadata has meanwhile failed -/
theorem launch_join_is_doJoin {s : State} {n f : Nat} (h : launchOk s ⟨n, f, .join⟩ = true) :
    stageAction (forkState s n f) = some .doJoin ∨
    (s.nch n f = 0 ∧ stageAction (forkState s n f) = some .doChunks) ∨
    forkState s n f = .failed := by
  have hph := launchOk_phase h
  unfold launchOk at h
  simp only [Bool.and_eq_true, beq_iff_eq] at h
  obtain ⟨_, ⟨_, hj⟩, hg⟩ := h
  by_cases hff : s.st ⟨n, f, .fork⟩ = some .failed
  · right; right; simp [forkState, forkStateOf, hff]
  have hfm : ∀ x, (match s.st ⟨n, f, .fork⟩ with
      | some .failed => FState.failed | some .complete => .complete | some .disabled => .disabled
      | _ => x) = x := by
    intro x
    cases hfm : s.st ⟨n, f, .fork⟩ with
    | none => rfl
    | some m => cases m <;> simp_all [fmDone]
  by_cases hz : s.nch n f = 0
  · right; left
    simp only [hz, if_true, beq_iff_eq] at hg
    have hcs : chunkSum (chunkStates s n f) = .none := by simp [chunkStates, hz, chunkSum]
    refine ⟨hz, ?_⟩
    have : forkState s n f = .split .complete := by
      simp only [forkState, forkStateOf, hj, hcs, hg]; exact hfm _
    rw [this]; rfl
  · left
    simp only [hz, if_false] at hg
    have hne : (chunkStates s n f).isEmpty = false := by
      simp [chunkStates]; omega
    have hall : (chunkStates s n f).all (· == some .complete) = true := hg
    have hnf : (chunkStates s n f).any (· == some .failed) = false := by
      rw [List.any_eq_false]
      intro c hc
      have := List.all_eq_true.mp hall c hc
      simp only [beq_iff_eq] at this
      simp [this]
    have hcs : chunkSum (chunkStates s n f) = .complete := by simp [chunkSum, hne, hnf, hall]
    have : forkState s n f = .chunksComplete := by
      simp only [forkState, forkStateOf, hj, hcs]; exact hfm _
    rw [this]; rfl

/-- the fork's `_complete` of a stage is written (`doComplete`) in fork state `join_complete`
(or the fork's own metadata has meanwhile failed) -/
theorem fork_complete_is_doComplete {s : State} {n f : Nat} (hk : s.kind n ≠ .pipeline)
    (h : mrpWriteOk s ⟨n, f, .fork⟩ .complete = true) :
    stageAction (forkState s n f) = some .doComplete ∨ forkState s n f = .failed := by
  unfold mrpWriteOk at h
  simp only [Bool.and_eq_true, Bool.or_eq_true, beq_iff_eq, Bool.not_eq_true'] at h
  obtain ⟨⟨_, hnd⟩, hj⟩ := h
  rcases hj with hj | hj
  · exact absurd hj hk
  by_cases hff : s.st ⟨n, f, .fork⟩ = some .failed
  · right; simp [forkState, forkStateOf, hff]
  left
  have : forkState s n f = .join .complete := by
    simp only [forkState, forkStateOf, hj]
    cases hfm : s.st ⟨n, f, .fork⟩ with
    | none => rfl
    | some m => cases m <;> simp_all [fmDone]
  rw [this]; rfl

end Martian.Sched
