/-
C01 — `J.erase` (dnull ↦ null) commutes with every value operation of den: field selection,
projection, narrowing, element selection, evaluation of expressions.  Used to run the refinement
lemmas on the ERASED environment of a program with `disabled` calls.
-/
import Martian.Dataflow
import Proofs.Dataflow
import Proofs.ResolverStaticRefine

namespace Proofs.ResolverStatic
open Martian.Dataflow Proofs.Dataflow

theorem eraseList_eq (xs : List J) : J.eraseList xs = xs.map J.erase := by
  induction xs with
  | nil => rfl
  | cons x xs ih => simp [J.eraseList, ih]

theorem eraseFields_eq (kvs : List (String × J)) : J.eraseFields kvs = kvs.map fun kv => (kv.1, J.erase kv.2) := by
  induction kvs with
  | nil => rfl
  | cons x xs ih => obtain ⟨k, v⟩ := x; simp [J.eraseFields, ih]

theorem erase_arr (xs : List J) : J.erase (.arr xs) = .arr (xs.map J.erase) := by simp [J.erase, eraseList_eq]
theorem erase_obj (kvs : List (String × J)) : J.erase (.obj kvs) = .obj (kvs.map fun kv => (kv.1, J.erase kv.2)) := by
  simp [J.erase, eraseFields_eq]

theorem lookup_map_erase (kvs : List (String × J)) (k : String) :
    (kvs.map fun kv => (kv.1, J.erase kv.2)).lookup k = (kvs.lookup k).map J.erase := by
  induction kvs with
  | nil => rfl
  | cons x xs ih =>
    obtain ⟨k', v⟩ := x
    simp only [List.map_cons, List.lookup_cons]
    cases (k == k') <;> simp [ih]

theorem field_erase (v : J) (k : String) : (J.erase v).field k = J.erase (v.field k) := by
  cases v with
  | obj kvs =>
    rw [erase_obj]
    simp only [J.field, lookup_map_erase]
    cases kvs.lookup k <;> simp [J.erase]
  | null => simp [J.erase, J.field]
  | dnull => simp [J.erase, J.field]
  | atom s => simp [J.erase, J.field]
  | arr xs => rw [erase_arr]; simp [J.field, J.erase]

theorem mapArr_erase (g g' : J → J) (h : ∀ x, J.erase (g x) = g' (J.erase x)) :
    ∀ (n : Nat) (v : J), J.erase (mapArr n g v) = mapArr n g' (J.erase v) := by
  intro n
  induction n with
  | zero => intro v; simp [mapArr, h]
  | succ n ih =>
    intro v
    cases v with
    | arr xs =>
      rw [erase_arr]
      simp only [mapArr, erase_arr, List.map_map, J.arr.injEq]
      apply List.map_congr_left
      intro x _
      exact ih x
    | null => simp [mapArr, J.erase]
    | dnull => simp [mapArr, J.erase]
    | atom s => simp [mapArr, J.erase]
    | obj kvs => rw [erase_obj]; simp [mapArr, J.erase]

theorem mapObj_erase (g g' : J → J) (h : ∀ x, J.erase (g x) = g' (J.erase x)) (v : J) :
    J.erase (mapObj g v) = mapObj g' (J.erase v) := by
  cases v with
  | obj kvs =>
    rw [erase_obj]
    simp only [mapObj, erase_obj, List.map_map, J.obj.injEq]
    apply List.map_congr_left
    intro kv _
    simp [h]
  | null => simp [mapObj, J.erase]
  | dnull => simp [mapObj, J.erase]
  | atom s => simp [mapObj, J.erase]
  | arr xs => rw [erase_arr]; simp [mapObj, J.erase]

theorem atBase_erase (t : Ty) (g g' : J → J) (h : ∀ x, J.erase (g x) = g' (J.erase x)) (v : J) :
    J.erase (atBase t g v) = atBase t g' (J.erase v) := by
  unfold atBase
  apply mapArr_erase
  intro x
  cases t.mapDim with
  | zero => exact h x
  | succ k => exact mapObj_erase _ _ (mapArr_erase g g' h k) x

theorem proj1_erase (t : Ty) (f : String) (v : J) : J.erase (proj1 t f v) = proj1 t f (J.erase v) := by
  unfold proj1
  exact atBase_erase t _ _ (fun x => (field_erase x f).symm) v

theorem projPath_erase (st : StructTable) (path : List String) :
    ∀ (t : Ty) (v : J), J.erase (projPath st t path v) = projPath st t path (J.erase v) := by
  induction path with
  | nil => intro t v; rfl
  | cons f r ih => intro t v; simp only [projPath]; rw [ih, proj1_erase]

theorem narrow_erase (st : StructTable) : ∀ (F : Nat) (t : Ty) (v : J),
    J.erase (narrow st F t v) = narrow st F t (J.erase v) := by
  intro F
  induction F with
  | zero => intro t v; simp [narrow]
  | succ F ih =>
    intro t v
    rw [narrow_succ, narrow_succ]
    apply atBase_erase
    intro s
    unfold narrowBase
    cases st.lookup t.base with
    | none => rfl
    | some ps =>
      cases s with
      | obj kvs =>
        rw [erase_obj]
        simp only [erase_obj, List.map_map, J.obj.injEq]
        apply List.map_congr_left
        intro p _
        simp only [Function.comp_apply, Prod.mk.injEq, true_and]
        rw [ih, ← field_erase, erase_obj]
      | null => simp [J.erase]
      | dnull => simp [J.erase]
      | atom a => simp [J.erase]
      | arr xs => rw [erase_arr]

theorem isTrue_erase (v : J) : Martian.Dataflow.isTrue (J.erase v) = Martian.Dataflow.isTrue v := by
  cases v <;> simp [J.erase, Martian.Dataflow.isTrue]

theorem indicesOf_erase (v : J) : indicesOf (J.erase v) = indicesOf v := by
  cases v with
  | arr xs => rw [erase_arr]; simp [indicesOf]
  | obj kvs => rw [erase_obj]; simp [indicesOf]
  | null => rfl
  | dnull => rfl
  | atom s => rfl

theorem getD_map_erase (xs : List J) (n : Nat) : (xs.map J.erase).getD n .null = J.erase (xs.getD n .null) := by
  induction xs generalizing n with
  | nil => simp [J.erase]
  | cons x xs ih =>
    cases n with
    | zero => simp
    | succ n => simpa using ih n

theorem elemAt_erase_i (v : J) (k : Nat) : elemAt (J.erase v) (.i k) = J.erase (elemAt v (.i k)) := by
  cases v with
  | arr xs => rw [erase_arr]; simp only [elemAt]; exact getD_map_erase xs k
  | obj kvs => rw [erase_obj]; simp [elemAt, J.erase]
  | null => simp [elemAt, J.erase]
  | dnull => simp [elemAt, J.erase]
  | atom s => simp [elemAt, J.erase]

/-- the environment with every value erased -/
def eraseEnv (env : Env) : Env :=
  { env with selfVal := J.erase env.selfVal, calls := env.calls.map fun x => (x.1, x.2.1, J.erase x.2.2) }

theorem selfTy_eraseEnv (env : Env) : (eraseEnv env).selfTy = env.selfTy := rfl

theorem lookup_eraseEnv (env : Env) (c : String) :
    (eraseEnv env).calls.lookup c = (env.calls.lookup c).map fun x => (x.1, J.erase x.2) := by
  simp only [eraseEnv]
  induction env.calls with
  | nil => rfl
  | cons x xs ih =>
    obtain ⟨k, t, v⟩ := x
    simp only [List.map_cons, List.lookup_cons]
    cases (c == k) <;> simp [ih]

theorem callTy_eraseEnv (env : Env) : (eraseEnv env).callTy = env.callTy := by
  funext c
  simp only [Env.callTy, lookup_eraseEnv]
  cases env.calls.lookup c <;> rfl

theorem callVal_eraseEnv (env : Env) (c : String) : (eraseEnv env).callVal c = J.erase (env.callVal c) := by
  simp only [Env.callVal, lookup_eraseEnv]
  cases env.calls.lookup c <;> simp [J.erase]

theorem typesOf_eraseEnv (env : Env) : (eraseEnv env).calls.map (fun x => (x.1, x.2.1)) = env.calls.map fun x => (x.1, x.2.1) := by
  simp [eraseEnv, List.map_map, Function.comp_def]

mutual
/-- evaluating in the erased environment = erasing the value -/
theorem eval_eraseEnv (st : StructTable) (env : Env) :
    ∀ (e : Exp), Exp.clean e = true → eval st (eraseEnv env) e = J.erase (eval st env e)
  | .lit j, h => by
    cases j <;> simp [Exp.clean] at h <;> simp [eval, J.erase]
  | .arr xs, h => by
    simp only [Exp.clean] at h
    simp only [eval, erase_arr, eval_eraseEnvList st env xs h]
  | .map kvs, h => by
    simp only [Exp.clean] at h
    simp only [eval, erase_obj, eval_eraseEnvFields st env kvs h]
  | .struct kvs, h => by
    simp only [Exp.clean] at h
    simp only [eval, erase_obj, eval_eraseEnvFields st env kvs h]
  | .self p path, _ => by
    simp only [eval, selfTy_eraseEnv, projPath_erase]
    rw [show (eraseEnv env).selfVal = J.erase env.selfVal from rfl, field_erase]
  | .ref c path, _ => by
    simp only [eval, callTy_eraseEnv, callVal_eraseEnv, projPath_erase]
theorem eval_eraseEnvList (st : StructTable) (env : Env) :
    ∀ (es : List Exp), Exp.cleanList es = true →
      evalList st (eraseEnv env) es = (evalList st env es).map J.erase
  | [], _ => by simp [evalList]
  | e :: es, h => by
    simp only [Exp.cleanList, Bool.and_eq_true] at h
    simp [evalList, eval_eraseEnv st env e h.1, eval_eraseEnvList st env es h.2]
theorem eval_eraseEnvFields (st : StructTable) (env : Env) :
    ∀ (kvs : List (String × Exp)), Exp.cleanFields kvs = true →
      evalFields st (eraseEnv env) kvs = (evalFields st env kvs).map fun kv => (kv.1, J.erase kv.2)
  | [], _ => by simp [evalFields]
  | (k, e) :: es, h => by
    simp only [Exp.cleanFields, Bool.and_eq_true] at h
    simp [evalFields, eval_eraseEnv st env e h.1, eval_eraseEnvFields st env es h.2]
end

end Proofs.ResolverStatic
