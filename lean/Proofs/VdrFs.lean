import Martian.Vdr
import Martian.VdrFs
import Proofs.VdrPath

/-! `filepath.Clean` delivers the cleanliness the overlap theorems assume;
`getLogicalFileNames` contains the target of a link. -/
namespace Martian.Vdr

def GoodComp (c : Path) : Prop := c ≠ [] ∧ '/' ∉ c

theorem splitSlash_noSlash (p : Path) : ∀ c ∈ splitSlash p, '/' ∉ c := by
  induction p with
  | nil => intro c hc; simp [splitSlash] at hc; subst hc; simp
  | cons ch r ih =>
    intro c hc
    unfold splitSlash at hc
    split at hc
    · rcases List.mem_cons.mp hc with rfl | hc
      · simp
      · exact ih c hc
    · rename_i hne
      have hne' : ch ≠ '/' := by simpa using hne
      split at hc
      · simp at hc; subst hc; simp; exact fun e => hne' e.symm
      · rename_i h t heq
        rcases List.mem_cons.mp hc with rfl | hc
        · have : '/' ∉ h := ih h (by rw [heq]; exact List.mem_cons_self)
          simp only [List.mem_cons, not_or]
          exact ⟨fun e => hne' e.symm, this⟩
        · exact ih c (by rw [heq]; exact List.mem_cons_of_mem _ hc)

theorem cleanComps_good (acc rest : List Path) (ha : ∀ c ∈ acc, GoodComp c) (hr : ∀ c ∈ rest, '/' ∉ c) :
    ∀ c ∈ cleanComps acc rest, GoodComp c := by
  induction rest generalizing acc with
  | nil => intro c hc; simp [cleanComps] at hc; exact ha c hc
  | cons x r ih =>
    unfold cleanComps
    have hr' : ∀ c ∈ r, '/' ∉ c := fun c hc => hr c (List.mem_cons_of_mem _ hc)
    split
    · exact ih acc ha hr'
    · rename_i h1
      split
      · exact ih (acc.drop 1) (fun c hc => ha c (List.mem_of_mem_drop hc)) hr'
      · apply ih (x :: acc) _ hr'
        intro c hc
        rcases List.mem_cons.mp hc with rfl | hc
        · refine ⟨?_, hr c List.mem_cons_self⟩
          intro e; subst e; simp at h1
        · exact ha c hc

theorem joinComps_noTrailing (cs : List Path) (h : ∀ c ∈ cs, GoodComp c) (hne : cs ≠ []) :
    NoTrailingSlash (joinComps cs) := by
  intro q e
  have hl : (joinComps cs).getLast? = some '/' := by rw [e]; simp
  -- the last character is the last character of the last component
  have key : ∀ (cs : List Path), (∀ c ∈ cs, GoodComp c) → cs ≠ [] → ∀ x, (joinComps cs).getLast? = some x → x ≠ '/' := by
    intro cs
    induction cs with
    | nil => intro _ h; exact absurd rfl h
    | cons c r ih =>
      intro hg _ x hx
      by_cases hr : r = []
      · subst hr
        simp only [joinComps, List.flatMap_cons, List.flatMap_nil, List.append_nil] at hx
        obtain ⟨hcne, hcs⟩ := hg c List.mem_cons_self
        have : x ∈ c := by
          have : ('/' :: c).getLast? = c.getLast? := by
            cases c with
            | nil => exact absurd rfl hcne
            | cons a b => simp [List.getLast?_cons_cons]
          rw [this] at hx
          exact List.mem_of_getLast? hx
        intro ex; subst ex; exact hcs this
      · apply ih (fun c hc => hg c (List.mem_cons_of_mem _ hc)) hr x
        simp only [joinComps, List.flatMap_cons] at hx ⊢
        have hne2 : (r.flatMap (fun c => '/' :: c)) ≠ [] := by
          cases r with
          | nil => exact absurd rfl hr
          | cons a b => simp [List.flatMap_cons]
        rw [List.getLast?_append] at hx
        cases hg2 : (r.flatMap (fun c => '/' :: c)).getLast? with
        | none => exact absurd (List.getLast?_eq_none_iff.mp hg2) hne2
        | some y => rw [hg2] at hx; simpa using hx
  exact key cs h hne '/' hl rfl

/-- **Clean delivers cleanliness**: a cleaned rooted path is the root or has no trailing separator. -/
theorem cleanAbs_clean' (p : Path) : cleanAbs p = ['/'] ∨ NoTrailingSlash (cleanAbs p) := by
  unfold cleanAbs
  dsimp only
  split
  · exact Or.inl rfl
  · rename_i hne
    right
    apply joinComps_noTrailing
    · exact cleanComps_good [] _ (fun c hc => by cases hc) (splitSlash_noSlash p)
    · intro e; rw [e] at hne; simp at hne

theorem addClean_mono (names : List Path) (raw : Path) : ∀ x ∈ names, x ∈ addClean names raw := by
  intro x hx
  unfold addClean
  split
  · exact List.mem_append_left _ hx
  · exact hx

theorem chase_mono (fs : List FsEnt) (fuel : Nat) (name : Path) (names : List Path) :
    ∀ x ∈ names, x ∈ chase fs fuel name names := by
  induction fuel generalizing name names with
  | zero => intro x hx; exact hx
  | succ n ih =>
    intro x hx
    unfold chase
    split
    · exact hx
    · split
      · exact hx
      · rename_i raw _
        have hx2 := addClean_mono names raw x hx
        split
        · exact hx2
        · split
          · exact List.mem_append_left _ hx2
          · exact ih _ _ x (List.mem_append_left _ hx2)

theorem chase_target (fs : List FsEnt) (fuel : Nat) (name t : Path) (e : FsEnt) (names : List Path)
    (hf : lfind fs name = some e) (hl : e.link = some t) (habs : isAbs t = true) :
    t ∈ chase fs (fuel + 1) name names := by
  unfold chase
  rw [hf]
  dsimp only
  rw [hl]
  dsimp only
  have hd : linkDest name t = t := by unfold linkDest; simp [habs]
  rw [hd]
  split
  · rename_i hc
    simpa using hc
  · have : t ∈ addClean names t ++ [t] := by simp
    split
    · exact this
    · exact chase_mono fs fuel _ _ t this

/-- a symlink named by an output: its target is among the logical names -/
theorem logicalNames_target' (fs : List FsEnt) (name t : Path) (e : FsEnt)
    (hclean : cleanAbs name = name) (hf : lfind fs name = some e) (hl : e.link = some t)
    (habs : isAbs t = true) : t ∈ logicalNames fs name := by
  unfold logicalNames
  rw [hclean, hf]
  exact chase_target fs 39 name t e _ hf hl habs

/-- the fully resolved location of a name (all linked parent components
followed) is among its logical names -/
theorem logicalNames_resolved' (fs : List FsEnt) (name r : Path) (e : FsEnt)
    (hf : lfind fs (cleanAbs name) = some e) (hr : evalSymlinks fs (cleanAbs name) = some r) :
    r ∈ logicalNames fs name := by
  unfold logicalNames
  rw [hf]
  dsimp only
  rw [hr]
  apply chase_mono
  by_cases hne : (r != cleanAbs name) = true
  · simp [hne]
  · have : r = cleanAbs name := by simpa using hne
    subst this
    by_cases hc : (cleanAbs name != name) = true
    · simp [hc]
    · have : cleanAbs name = name := by simpa using hc
      simp [this]

/-- with only real directories above it a path is acted on where it is written
(the auditor's lemma, scratch/C14/t4.lean) -/
theorem parentsReal_acts_in_place (fs : List FsEnt) (p : Path) (h : ParentsReal fs p) :
    ∀ e ∈ fs, throughLink e p = p := by
  intro e he
  unfold throughLink
  cases hl : e.link with
  | none => rfl
  | some t =>
    have := h e he (by rw [hl]; simp)
    have hp : (e.path ++ ['/']).isPrefixOf p = false := by
      cases hb : (e.path ++ ['/']).isPrefixOf p with
      | false => rfl
      | true => exact absurd (List.isPrefixOf_iff_prefix.mp hb) this
    simp [hp]

end Martian.Vdr
