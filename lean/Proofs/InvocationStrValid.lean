/-
Whatever the JSON string decoder (`jsonDecLoop`, Martian/InvocationStr.lean) returns is valid
UTF-8: escapes produce `utf8.EncodeRune` output, valid literal runes are copied, anything else is
coerced to U+FFFD.  (So keys and strings in decoded trees are always well-formed.)  Core Lean only.
-/
import Martian.InvocationStr
import Proofs.InvocationStr
namespace Martian.InvocationStr
open Martian.Lexer (Bytes encodeRune runeError surrPair hexByte)
open Martian.ShellQuote (runeWidth validFrom validUtf8 ok2 ok3 ok4 isCont)

theorem validFrom_skip : ∀ (p Y : Bytes), validFrom (p ++ Y) p.length = validFrom Y 0
  | [], Y => by cases Y <;> simp [validFrom]
  | c :: p, Y => by
    simp only [List.cons_append, List.length_cons, Martian.Format.validFrom_succ]
    exact validFrom_skip p Y

theorem valid_width (b : UInt8) (p Y : Bytes) (w : Nat) (hb : ¬ b < 0x80) (hw : runeWidth (b :: (p ++ Y)) = some w)
    (hp : p.length = w - 1) : validFrom (b :: (p ++ Y)) 0 = validFrom Y 0 := by
  simp only [validFrom, hw]
  rw [← hp]; exact validFrom_skip p Y

theorem valid_runeError (Y : Bytes) : validFrom (runeError ++ Y) 0 = validFrom Y 0 := by
  have hw : runeWidth (0xEF :: ([0xBF, 0xBD] ++ Y)) = some 3 :=
    runeWidth_3 0xEF 0xBF 0xBD Y (by decide) (by decide) (by decide)
  exact valid_width 0xEF [0xBF, 0xBD] Y 3 (by decide) hw rfl

/-! `utf8.EncodeRune` writes valid sequences -/

theorem enc2_ok : ∀ a, a < 32 → 2 ≤ a → ∀ b, b < 64 →
    ok2 (UInt8.ofNat (0xC0 + a)) (UInt8.ofNat (0x80 + b)) = true ∧ ¬ (UInt8.ofNat (0xC0 + a) < 0x80) := by decide

theorem enc3_ok : ∀ a, a < 16 → ∀ b, b < 64 → (a = 0 → 32 ≤ b) → (a = 13 → b < 32) →
    (∀ c, c < 64 → ok3 (UInt8.ofNat (0xE0 + a)) (UInt8.ofNat (0x80 + b)) (UInt8.ofNat (0x80 + c)) = true) := by
  have h1 : ∀ a, a < 16 → ∀ b, b < 64 → (a = 0 → 32 ≤ b) → (a = 13 → b < 32) →
      ok3 (UInt8.ofNat (0xE0 + a)) (UInt8.ofNat (0x80 + b)) 0x80 = true := by decide
  have h2 : ∀ c, c < 64 → isCont (UInt8.ofNat (0x80 + c)) = true := by decide
  intro a ha b hb c1 c2 c hc
  have := h1 a ha b hb c1 c2
  simp only [ok3, Bool.and_eq_true] at this ⊢
  exact ⟨this.1, h2 c hc⟩

theorem enc3_lead : ∀ a, a < 16 → ¬ (UInt8.ofNat (0xE0 + a) < 0x80) ∧
    (∀ b1 : UInt8, ok2 (UInt8.ofNat (0xE0 + a)) b1 = false) := by
  have h : ∀ a, a < 16 → ¬ (UInt8.ofNat (0xE0 + a) < 0x80) ∧ decide (UInt8.ofNat (0xE0 + a) ≤ 0xDF) = false := by
    decide
  intro a ha
  refine ⟨(h a ha).1, ?_⟩
  intro b1
  simp only [ok2, (h a ha).2, Bool.and_false, Bool.false_and]

theorem enc4_ok : ∀ a, a < 5 → ∀ b, b < 64 → (a = 0 → 16 ≤ b) → (a = 4 → b < 16) →
    (∀ c, c < 64 → ∀ d, d < 64 →
      ok4 (UInt8.ofNat (0xF0 + a)) (UInt8.ofNat (0x80 + b)) (UInt8.ofNat (0x80 + c)) (UInt8.ofNat (0x80 + d)) = true) := by
  have h1 : ∀ a, a < 5 → ∀ b, b < 64 → (a = 0 → 16 ≤ b) → (a = 4 → b < 16) →
      ok4 (UInt8.ofNat (0xF0 + a)) (UInt8.ofNat (0x80 + b)) 0x80 0x80 = true := by decide
  have h2 : ∀ c, c < 64 → isCont (UInt8.ofNat (0x80 + c)) = true := by decide
  intro a ha b hb c1 c2 c hc d hd
  have := h1 a ha b hb c1 c2
  simp only [ok4, Bool.and_eq_true] at this ⊢
  exact ⟨⟨this.1.1, h2 c hc⟩, h2 d hd⟩

theorem enc4_lead : ∀ a, a < 5 → ¬ (UInt8.ofNat (0xF0 + a) < 0x80) ∧
    (∀ b1 : UInt8, ok2 (UInt8.ofNat (0xF0 + a)) b1 = false) ∧
    (∀ b1 b2 : UInt8, ok3 (UInt8.ofNat (0xF0 + a)) b1 b2 = false) := by
  have h : ∀ a, a < 5 → ¬ (UInt8.ofNat (0xF0 + a) < 0x80) ∧ decide (UInt8.ofNat (0xF0 + a) ≤ 0xDF) = false
      ∧ decide (UInt8.ofNat (0xF0 + a) ≤ 0xEF) = false := by decide
  intro a ha
  obtain ⟨h0, h1, h2⟩ := h a ha
  exact ⟨h0, fun b1 => by simp only [ok2, h1, Bool.and_false, Bool.false_and],
    fun b1 b2 => by simp only [ok3, h2, Bool.and_false, Bool.false_and]⟩

theorem valid_encodeRune (r : Nat) (Y : Bytes) : validFrom (encodeRune r ++ Y) 0 = validFrom Y 0 := by
  unfold encodeRune
  split
  · rename_i h
    have : UInt8.ofNat r < 0x80 := by
      rw [UInt8.lt_iff_toNat_lt, u8 r (by omega)]; exact h
    exact validFrom_ascii _ _ this
  · split
    · rename_i h1 h2
      obtain ⟨hok, hb⟩ := enc2_ok (r / 64) (by omega) (by omega) (r % 64) (by omega)
      have hw := runeWidth_2 _ _ Y hb hok
      exact valid_width _ [UInt8.ofNat (0x80 + r % 64)] Y 2 hb hw rfl
    · split
      · exact valid_runeError Y
      · split
        · rename_i h1 h2 h3 h4
          have hr : ¬ (r > 0x10FFFF ∨ 0xD800 ≤ r ∧ r ≤ 0xDFFF) := by simpa using h3
          have hok := enc3_ok (r / 4096) (by omega) (r / 64 % 64) (by omega) (by omega) (by omega) (r % 64) (by omega)
          obtain ⟨hb, hn2⟩ := enc3_lead (r / 4096) (by omega)
          have hw := runeWidth_3 _ _ _ Y hb (by rw [hn2]; simp) hok
          exact valid_width _ [UInt8.ofNat (0x80 + r / 64 % 64), UInt8.ofNat (0x80 + r % 64)] Y 3 hb hw rfl
        · rename_i h1 h2 h3 h4
          have hr : ¬ (r > 0x10FFFF ∨ 0xD800 ≤ r ∧ r ≤ 0xDFFF) := by simpa using h3
          have hok := enc4_ok (r / 262144) (by omega) (r / 4096 % 64) (by omega) (by omega) (by omega)
            (r / 64 % 64) (by omega) (r % 64) (by omega)
          obtain ⟨hb, hn2, hn3⟩ := enc4_lead (r / 262144) (by omega)
          have hw := runeWidth_4 _ _ _ _ Y hb (by rw [hn2]; simp) (by rw [hn3]; simp) hok
          exact valid_width _ [UInt8.ofNat (0x80 + r / 4096 % 64), UInt8.ofNat (0x80 + r / 64 % 64),
            UInt8.ofNat (0x80 + r % 64)] Y 4 hb hw rfl


theorem valid_single (b : UInt8) (hb : b < 0x80) (Y : Bytes) : validFrom ([b] ++ Y) 0 = validFrom Y 0 :=
  validFrom_ascii b Y hb

theorem jsonSurr_out (r : Nat) (v out rest : Bytes) (h : jsonSurr r v = some (out, rest)) :
    ∀ Y, validFrom (out ++ Y) 0 = validFrom Y 0 := by
  unfold jsonSurr at h
  split at h
  · split at h
    · split at h
      · dsimp only at h
        split at h
        · simp only [Option.some.injEq, Prod.mk.injEq] at h; obtain ⟨rfl, _⟩ := h
          exact valid_encodeRune _
        · simp only [Option.some.injEq, Prod.mk.injEq] at h; obtain ⟨rfl, _⟩ := h
          exact valid_runeError
      · cases h
    · simp only [Option.some.injEq, Prod.mk.injEq] at h; obtain ⟨rfl, _⟩ := h
      exact valid_runeError
  · simp only [Option.some.injEq, Prod.mk.injEq] at h; obtain ⟨rfl, _⟩ := h
    exact valid_runeError

theorem jsonEscape_out (c2 : UInt8) (v out rest : Bytes) (h : jsonEscape c2 v = some (out, rest)) :
    ∀ Y, validFrom (out ++ Y) 0 = validFrom Y 0 := by
  unfold jsonEscape at h
  split at h
  · rename_i hc
    simp only [Bool.or_eq_true, beq_iff_eq] at hc
    simp only [Option.some.injEq, Prod.mk.injEq] at h; obtain ⟨rfl, _⟩ := h
    rcases hc with (rfl | rfl) | rfl <;> exact valid_single _ (by decide)
  · split at h
    · simp only [Option.some.injEq, Prod.mk.injEq] at h; obtain ⟨rfl, _⟩ := h; exact valid_single _ (by decide)
    · split at h
      · simp only [Option.some.injEq, Prod.mk.injEq] at h; obtain ⟨rfl, _⟩ := h; exact valid_single _ (by decide)
      · split at h
        · simp only [Option.some.injEq, Prod.mk.injEq] at h; obtain ⟨rfl, _⟩ := h; exact valid_single _ (by decide)
        · split at h
          · simp only [Option.some.injEq, Prod.mk.injEq] at h; obtain ⟨rfl, _⟩ := h; exact valid_single _ (by decide)
          · split at h
            · simp only [Option.some.injEq, Prod.mk.injEq] at h; obtain ⟨rfl, _⟩ := h; exact valid_single _ (by decide)
            · split at h
              · cases hg : getu4 v with
                | none => simp [hg] at h
                | some p =>
                  obtain ⟨r, rest'⟩ := p
                  simp only [hg] at h
                  split at h
                  · exact jsonSurr_out r rest' out rest h
                  · simp only [Option.some.injEq, Prod.mk.injEq] at h; obtain ⟨rfl, _⟩ := h
                    exact valid_encodeRune _
              · cases h

/-- pending continuation bytes are copied -/
theorem dec_copy : ∀ (k f : Nat) (r s' : Bytes), jsonDecLoop f r k = some s' → k ≤ r.length →
    ∃ s'' f', s' = r.take k ++ s'' ∧ f' ≤ f ∧ jsonDecLoop f' (r.drop k) 0 = some s''
  | 0, f, r, s', h, _ => ⟨s', f, by simp, Nat.le_refl _, by simpa using h⟩
  | k + 1, f, r, s', h, hk => by
    cases f with
    | zero => simp [jsonDecLoop] at h
    | succ f =>
      cases r with
      | nil => simp at hk
      | cons c r =>
        simp only [jsonDecLoop, Option.map_eq_some_iff] at h
        obtain ⟨s1, hs1, rfl⟩ := h
        obtain ⟨s'', f', h1, h2, h3⟩ := dec_copy k f r s1 hs1 (by simpa using hk)
        exact ⟨s'', f', by simp [h1], by omega, by simpa using h3⟩

theorem runeWidth_len (b : UInt8) (r : Bytes) (w : Nat) (hb : ¬ b < 0x80) (hw : runeWidth (b :: r) = some w) :
    w - 1 ≤ r.length ∧ ∀ Y, runeWidth (b :: (r.take (w - 1) ++ Y)) = some w := by
  rcases runeWidth_inv b r w hb hw with ⟨rfl, b1, t, rfl, h2⟩ | ⟨rfl, b1, b2, t, rfl, h3⟩ |
    ⟨rfl, b1, b2, b3, t, rfl, h4⟩
  · exact ⟨by simp, fun Y => by simpa using runeWidth_2 b b1 Y hb h2⟩
  · refine ⟨by simp, fun Y => ?_⟩
    have hn2 : ¬ ok2 b b1 = true := by
      intro hh
      have := runeWidth_2 b b1 (b2 :: t) hb hh
      rw [hw] at this; cases this
    simpa using runeWidth_3 b b1 b2 Y hb hn2 h3
  · refine ⟨by simp, fun Y => ?_⟩
    have hn2 : ¬ ok2 b b1 = true := by
      intro hh
      have := runeWidth_2 b b1 (b2 :: b3 :: t) hb hh
      rw [hw] at this; cases this
    have hn3 : ¬ ok3 b b1 b2 = true := by
      intro hh
      have := runeWidth_3 b b1 b2 (b3 :: t) hb hn2 hh
      rw [hw] at this; cases this
    simpa using runeWidth_4 b b1 b2 b3 Y hb hn2 hn3 h4

/-- the decoder's output is valid UTF-8 -/
theorem dec_valid : ∀ (g g' : Nat), g' ≤ g → ∀ (t s : Bytes), jsonDecLoop g' t 0 = some s → validFrom s 0 = true := by
  intro g
  induction g with
  | zero =>
    intro g' hg t s h
    have : g' = 0 := by omega
    subst this; simp [jsonDecLoop] at h
  | succ g ih =>
    intro g' hg t s h
    cases g' with
    | zero => simp [jsonDecLoop] at h
    | succ f =>
      have hf : f ≤ g := by omega
      cases t with
      | nil => simp only [jsonDecLoop, Option.some.injEq] at h; subst h; rfl
      | cons c r =>
        simp only [jsonDecLoop] at h
        split at h
        · -- escape
          cases r with
          | nil => cases h
          | cons c2 r2 =>
            simp only at h
            cases he : jsonEscape c2 r2 with
            | none => simp [he] at h
            | some p =>
              obtain ⟨out, rest⟩ := p
              simp only [he, Option.map_eq_some_iff] at h
              obtain ⟨s1, hs1, rfl⟩ := h
              rw [jsonEscape_out c2 r2 out rest he s1]
              exact ih f hf rest s1 hs1
        · split at h
          · cases h
          · split at h
            · rename_i hlt
              simp only [Option.map_eq_some_iff] at h
              obtain ⟨s1, hs1, rfl⟩ := h
              rw [validFrom_ascii c s1 hlt]
              exact ih f hf r s1 hs1
            · rename_i hge
              cases hw : runeWidth (c :: r) with
              | none =>
                simp only [hw, Option.map_eq_some_iff] at h
                obtain ⟨s1, hs1, rfl⟩ := h
                rw [valid_runeError s1]
                exact ih f hf r s1 hs1
              | some w =>
                simp only [hw, Option.map_eq_some_iff] at h
                obtain ⟨s1, hs1, rfl⟩ := h
                obtain ⟨hlen, hrw⟩ := runeWidth_len c r w hge hw
                obtain ⟨s'', f', h1, h2, h3⟩ := dec_copy (w - 1) f r s1 hs1 hlen
                subst h1
                rw [valid_width c (r.take (w - 1)) s'' w hge (hrw s'') (by simp; omega)]
                exact ih f' (by omega) _ s'' h3

/-- strings and keys the JSON decoder returns are valid UTF-8 -/
theorem jsonDecLoop_valid (g : Nat) (t s : Bytes) (h : jsonDecLoop g t 0 = some s) : validUtf8 s = true :=
  dec_valid g g (Nat.le_refl _) t s h

end Martian.InvocationStr
