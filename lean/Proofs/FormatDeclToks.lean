/-
C09: the token sequences of printed type names, parameters, parameter lists,
struct members, `struct` and `filetype` declarations (what `lexAll` of the
printed text is proved to be, Proofs/FormatDeclLex.lean, and what the readers
are proved to read back, Proofs/FormatDeclParse.lean).  Definitions only.
-/
import Martian.FormatDecl
import Proofs.FormatExpToks

namespace Martian.FormatDecl
open Martian.Lexer (Bytes)
open Martian.Format (quoteString)
open Martian.FormatExp

abbrev tLT : Tok := .punct 0x3C
abbrev tGT : Tok := .punct 0x3E
abbrev tSemi : Tok := .punct 0x3B
abbrev tLParen : Tok := .punct 0x28
abbrev tRParen : Tok := .punct 0x29

/-- `[` `]` n times -/
def toksArr : Nat → List Tok
  | 0 => []
  | n + 1 => tLB :: tRB :: toksArr n

/-- a base type name: one builtin keyword, or identifiers separated by dots -/
def toksBase : List Bytes → List Tok
  | [] => []
  | c :: r => (if r.isEmpty && isBuiltin c then Tok.reserved c else Tok.id c) :: toksDots r

def toksType (t : TypeId) : List Tok :=
  if 0 < t.mapDim then
    .reserved sMap :: tLT :: (toksBase t.tname ++ toksArr (t.mapDim - 1) ++ tGT :: toksArr t.arrayDim)
  else toksBase t.tname ++ toksArr t.arrayDim

/-- `[help [outname]] ','`: an out name without help text is preceded by `""` -/
def toksTail (help outName : Bytes) : List Tok :=
  (if help = [] ∧ outName = [] then [] else [.str (quoteString help)]) ++
    (if outName = [] then [] else [.str (quoteString outName)]) ++ [tComma]

def toksMember (m : Member) : List Tok :=
  toksType m.type ++ .id m.id :: toksTail m.help m.outName

def toksMembers : List Member → List Tok
  | [] => []
  | m :: r => toksMember m ++ toksMembers r

def toksParam (p : Param) : List Tok :=
  .reserved (mode p) :: (toksType p.type ++ (if shownId p = [] then [] else [.id p.id]) ++
    toksTail p.help (getOutName p))

def toksParams : List Param → List Tok
  | [] => []
  | p :: r => toksParam p ++ toksParams r

def toksStruct (s : Struct) : List Tok :=
  .id sStruct :: .id s.id :: tLParen :: (toksMembers s.members ++ [tRParen])

def toksFiletype (t : Filetype) : List Tok :=
  match t.id with
  | [] => [.id sFiletype, tSemi]
  | c :: r => .id sFiletype :: .id c :: (toksDots r ++ [tSemi])

end Martian.FormatDecl
