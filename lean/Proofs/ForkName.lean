/-
Lemmas for C11 (model: Martian/ForkName.lean).  Core Lean only.
-/
import Martian.ForkName
import Martian.ForkNameSpec

namespace Martian.ForkName

/-! ## Exhaustive reasoning over bytes -/

theorem forall_byte (P : UInt8 → Bool)
    (h : ∀ n, n < 256 → P (UInt8.ofNat n) = true) : ∀ c : UInt8, P c = true := by
  intro c
  have := h c.toNat c.toNat_lt
  simpa using this

/-- per-byte facts about `%XX` encoding -/
def hexOK (c : UInt8) : Bool :=
  unhex (upperHex (c.toNat / 16)) == some (c.toNat / 16) &&
  unhex (upperHex (c.toNat % 16)) == some (c.toNat % 16) &&
  UInt8.ofNat (c.toNat / 16 * 16 + c.toNat % 16) == c &&
  upperHex (c.toNat / 16) != cDot && upperHex (c.toNat / 16) != cSlash &&
  upperHex (c.toNat % 16) != cDot && upperHex (c.toNat % 16) != cSlash &&
  (shouldEscape c || (c != cPct && c != cSlash))

set_option maxRecDepth 100000 in
theorem hexOK_all : ∀ c : UInt8, hexOK c = true := by
  apply forall_byte
  decide


theorem hexOK_parts (c : UInt8) :
    unhex (upperHex (c.toNat / 16)) = some (c.toNat / 16) ∧
    unhex (upperHex (c.toNat % 16)) = some (c.toNat % 16) ∧
    UInt8.ofNat (c.toNat / 16 * 16 + c.toNat % 16) = c ∧
    upperHex (c.toNat / 16) ≠ cDot ∧ upperHex (c.toNat / 16) ≠ cSlash ∧
    upperHex (c.toNat % 16) ≠ cDot ∧ upperHex (c.toNat % 16) ≠ cSlash ∧
    (shouldEscape c = false → c ≠ cPct ∧ c ≠ cSlash) := by
  have h := hexOK_all c
  simp only [hexOK, Bool.and_eq_true, beq_iff_eq, bne_iff_ne, Bool.or_eq_true] at h
  obtain ⟨⟨⟨⟨⟨⟨⟨h1, h2⟩, h3⟩, h4⟩, h5⟩, h6⟩, h7⟩, h8⟩ := h
  refine ⟨h1, h2, h3, h4, h5, h6, h7, ?_⟩
  intro hs
  rcases h8 with h8 | h8
  · rw [hs] at h8; exact absurd h8 (by decide)
  · exact h8

/-! ## pathUnescape ∘ pathEscape -/

theorem pathUnescape_pct (c : UInt8) (X : Bytes) :
    pathUnescape (pctEncode c ++ X) = (pathUnescape X).map (c :: ·) := by
  obtain ⟨h1, h2, h3, _⟩ := hexOK_parts c
  simp only [pctEncode, List.cons_append, List.nil_append]
  rw [pathUnescape.eq_def]
  simp only [cPct, beq_self_eq_true, if_true, h1, h2, h3]

theorem pathUnescape_plain (c : UInt8) (X : Bytes) (h : c ≠ cPct) :
    pathUnescape (c :: X) = (pathUnescape X).map (c :: ·) := by
  have : (c == cPct) = false := by simpa using h
  rw [pathUnescape.eq_def]
  simp only [this, Bool.false_eq_true, if_false]

theorem pathUnescape_escByte (c : UInt8) (X : Bytes) :
    pathUnescape (escByte c ++ X) = (pathUnescape X).map (c :: ·) := by
  unfold escByte
  by_cases hs : shouldEscape c = true
  · simp only [hs, if_true]; exact pathUnescape_pct c X
  · have hs' : shouldEscape c = false := by simpa using hs
    simp only [hs']
    have := (hexOK_parts c).2.2.2.2.2.2.2 hs'
    exact pathUnescape_plain c X this.1

theorem pathUnescape_pathEscape (s : Bytes) : pathUnescape (pathEscape s) = some s := by
  induction s with
  | nil => rfl
  | cons c r ih => simp only [pathEscape]; rw [pathUnescape_escByte, ih]; rfl

theorem pathEscape_inj {a b : Bytes} (h : pathEscape a = pathEscape b) : a = b := by
  have := congrArg pathUnescape h
  simpa [pathUnescape_pathEscape] using this


/-! ## encodeJournalName -/



theorem lookup_mem {pairs : Pairs} {c : UInt8} {r : Bytes} (h : lookup pairs c = some r) :
    (c, r) ∈ pairs := by
  induction pairs with
  | nil => simp [lookup] at h
  | cons p rest ih =>
    obtain ⟨o, q⟩ := p
    simp only [lookup] at h
    by_cases ho : (o == c) = true
    · simp only [ho, if_true, Option.some.injEq] at h
      have : o = c := by simpa using ho
      subst this; subst h; exact List.mem_cons_self
    · have ho' : (o == c) = false := by simpa using ho
      simp only [ho'] at h
      exact List.mem_cons_of_mem _ (ih h)

theorem encByte_clean {pairs : Pairs} (ht : TableOK pairs = true) (c : UInt8) :
    cDot ∉ encByte pairs c ∧ cSlash ∉ encByte pairs c := by
  simp only [TableOK, Bool.and_eq_true, List.all_eq_true] at ht
  obtain ⟨⟨hd, hs⟩, hall⟩ := ht
  unfold encByte
  cases hl : lookup pairs c with
  | some r =>
    have := hall _ (lookup_mem hl)
    simp only [Bool.not_eq_true', List.contains_eq_mem, decide_eq_false_iff_not] at this
    exact this
  | none =>
    simp only [List.mem_singleton]
    constructor
    · intro h; subst h; rw [hl] at hd; simp at hd
    · intro h; subst h; rw [hl] at hs; simp at hs

theorem journalEnc_clean {pairs : Pairs} (ht : TableOK pairs = true) (s : Bytes) :
    cDot ∉ journalEnc pairs s ∧ cSlash ∉ journalEnc pairs s := by
  induction s with
  | nil => simp [journalEnc]
  | cons c r ih =>
    have := encByte_clean ht c
    simp only [journalEnc, List.mem_append, not_or]
    exact ⟨⟨this.1, ih.1⟩, ⟨this.2, ih.2⟩⟩

theorem pathUnescape_encByte {pairs : Pairs} (ht : TablePct pairs = true) (c : UInt8) (X : Bytes) :
    pathUnescape (encByte pairs c ++ X) = (pathUnescape X).map (c :: ·) := by
  simp only [TablePct, Bool.and_eq_true, List.all_eq_true] at ht
  obtain ⟨hall, hp⟩ := ht
  unfold encByte
  cases hl : lookup pairs c with
  | some r =>
    have := hall _ (lookup_mem hl)
    have hr : r = pctEncode c := by simpa using this
    subst hr
    exact pathUnescape_pct c X
  | none =>
    have hc : c ≠ cPct := by
      intro h; subst h; rw [hl] at hp; simp at hp
    exact pathUnescape_plain c X hc

theorem pathUnescape_journalEnc {pairs : Pairs} (ht : TablePct pairs = true) (s : Bytes) :
    pathUnescape (journalEnc pairs s) = some s := by
  induction s with
  | nil => rfl
  | cons c r ih => simp only [journalEnc]; rw [pathUnescape_encByte ht, ih]; rfl

theorem journalEnc_inj {pairs : Pairs} (ht : TablePct pairs = true) {a b : Bytes}
    (h : journalEnc pairs a = journalEnc pairs b) : a = b := by
  have := congrArg pathUnescape h
  simpa [pathUnescape_journalEnc ht] using this


/-! ## Decimal rendering -/

theorem digitChar_ok (n : Nat) :
    isDigit (digitChar n) = true ∧ (digitChar n).toNat - 0x30 = n % 10 := by
  have h : ∀ k, k < 10 → isDigit (UInt8.ofNat (48 + k)) = true ∧ (UInt8.ofNat (48 + k)).toNat - 0x30 = k := by
    decide
  exact h (n % 10) (Nat.mod_lt _ (by decide))

theorem digitsVal_itoaAux (fuel n : Nat) (acc : Bytes) (h : n < fuel) :
    digitsVal (itoaAux fuel n acc) 0 = digitsVal acc n := by
  induction fuel generalizing n acc with
  | zero => omega
  | succ f ih =>
    obtain ⟨hd, hv⟩ := digitChar_ok n
    simp only [itoaAux]
    by_cases hn : n < 10
    · simp only [hn, if_true, digitsVal, hd, hv]
      congr 1; omega
    · simp only [hn, if_false]
      rw [ih (n / 10) _ (by omega)]
      simp only [digitsVal, hd, if_true, hv]
      congr 1; omega

theorem digitsVal_itoa (n : Nat) : digitsVal (itoa n) 0 = some n := by
  unfold itoa
  rw [digitsVal_itoaAux (n + 1) n [] (by omega)]
  rfl

theorem itoa_inj {a b : Nat} (h : itoa a = itoa b) : a = b := by
  have := congrArg (fun s => digitsVal s 0) h
  simpa [digitsVal_itoa] using this

theorem digitsVal_zeros (k : Nat) (s : Bytes) : digitsVal (zeros k ++ s) 0 = digitsVal s 0 := by
  induction k with
  | zero => rfl
  | succ k ih =>
    simp only [zeros, List.cons_append, digitsVal]
    have : isDigit 0x30 = true := by decide
    simp only [this, if_true]
    exact ih

theorem digitsVal_padded (w n : Nat) : digitsVal (padded w n) 0 = some n := by
  unfold padded
  rw [digitsVal_zeros, digitsVal_itoa]

theorem padded_inj {w w' a b : Nat} (h : padded w a = padded w' b) : a = b := by
  have := congrArg (fun s => digitsVal s 0) h
  simpa [digitsVal_padded] using this


/-! ## Fork directory names: single parts and nested map parts -/

theorem singleId_arr (i len : Nat) (st : Bool) (x : Bytes)
    (h : singleId (.arr i len st) = some x) : x = sFork ++ itoa i := by
  simp only [singleId] at h
  split at h
  · exact absurd h (by simp)
  · split at h
    · next h0 =>
      have : i = 0 := by simpa using h0
      subst this
      have : x = sFork0 := by simpa using h.symm
      subst this; decide
    · simpa using h.symm


theorem singleId_key (k : Bytes) (keys : List Bytes) (st : Bool) (x : Bytes)
    (h : singleId (.key k keys st) = some x) : x = seg k := by
  simp only [singleId] at h
  split at h
  · exact absurd h (by simp)
  · simpa [seg] using h.symm

theorem slash_not_in_escByte (c : UInt8) : cSlash ∉ escByte c := by
  obtain ⟨_, _, _, _, h5, _, h7, h8⟩ := hexOK_parts c
  unfold escByte
  by_cases hs : shouldEscape c = true
  · simp only [hs, if_true, pctEncode, List.mem_cons, List.not_mem_nil, or_false, not_or]
    exact ⟨by decide, fun h => h5 h.symm, fun h => h7 h.symm⟩
  · have hs' : shouldEscape c = false := by simpa using hs
    simp only [hs', Bool.false_eq_true, if_false, List.mem_singleton]
    exact fun h => (h8 hs').2 h.symm

theorem slash_not_in_pathEscape (s : Bytes) : cSlash ∉ pathEscape s := by
  induction s with
  | nil => simp [pathEscape]
  | cons c r ih =>
    simp only [pathEscape, List.mem_append, not_or]
    exact ⟨slash_not_in_escByte c, ih⟩

theorem slash_not_in_seg (k : Bytes) : cSlash ∉ seg k := by
  simp only [seg, List.mem_append, not_or]
  exact ⟨by decide, slash_not_in_pathEscape k⟩

theorem append_sep_inj {sep : UInt8} : ∀ (a b x y : Bytes), sep ∉ a → sep ∉ b →
    a ++ sep :: x = b ++ sep :: y → a = b ∧ x = y := by
  intro a
  induction a with
  | nil =>
    intro b x y _ hb h
    cases b with
    | nil => simpa using h
    | cons h' t' =>
      simp only [List.nil_append, List.cons_append, List.cons.injEq] at h
      exact absurd (h.1 ▸ List.mem_cons_self) hb
  | cons h t ih =>
    intro b x y ha hb heq
    cases b with
    | nil =>
      simp only [List.nil_append, List.cons_append, List.cons.injEq] at heq
      exact absurd (heq.1 ▸ List.mem_cons_self) ha
    | cons h' t' =>
      simp only [List.cons_append, List.cons.injEq] at heq
      have ha' : sep ∉ t := fun m => ha (List.mem_cons_of_mem _ m)
      have hb' : sep ∉ t' := fun m => hb (List.mem_cons_of_mem _ m)
      obtain ⟨e1, e2⟩ := ih t' x y ha' hb' heq.2
      exact ⟨by rw [heq.1, e1], e2⟩


theorem seg_ne_nil (k : Bytes) : seg k ≠ [] := by simp [seg, sForkU]

theorem mapsId_inj : ∀ (ks ks' : List Bytes), mapsId ks = mapsId ks' → ks = ks' := by
  intro ks
  induction ks with
  | nil =>
    intro ks' h
    match ks' with
    | [] => rfl
    | [k] => exact absurd h.symm (seg_ne_nil k)
    | k :: k2 :: r => simp [mapsId, seg, sForkU] at h
  | cons k rest ih =>
    intro ks' h
    match rest, ks' with
    | [], [] => exact absurd h (seg_ne_nil k)
    | _ :: _, [] => simp [mapsId, seg, sForkU] at h
    | [], [k'] =>
      simp only [mapsId, seg] at h
      rw [pathEscape_inj (List.append_cancel_left h)]
    | [], k' :: k2 :: r =>
      simp only [mapsId] at h
      exact absurd (h ▸ List.mem_append_right _ List.mem_cons_self) (slash_not_in_seg k)
    | k1 :: r, [k'] =>
      simp only [mapsId] at h
      exact absurd (h.symm ▸ List.mem_append_right _ List.mem_cons_self) (slash_not_in_seg k')
    | k1 :: r, k' :: k2 :: r' =>
      simp only [mapsId] at h
      obtain ⟨e1, e2⟩ := append_sep_inj _ _ _ _ (slash_not_in_seg k) (slash_not_in_seg k') h
      have hk : k = k' := by
        simp only [seg] at e1
        exact pathEscape_inj (List.append_cancel_left e1)
      rw [hk, ih _ e2]

/-- the keys of a list of map parts whose key is in range -/
def keysOf : List Part → Option (List Bytes)
  | [] => some []
  | .key k keys _ :: rest => if keys.contains k then (keysOf rest).map (k :: ·) else none
  | _ :: _ => none

theorem forkIdGo_maps (re se : Bool) : ∀ (parts : List Part) (ks : List Bytes) (fuel : Nat) (buf : Bytes),
    keysOf parts = some ks → parts ≠ [] → parts.length < fuel →
    forkIdGo re se fuel parts true 0 1 buf = ⟨false, buf ++ mapsId ks, true⟩ := by
  intro parts
  induction parts with
  | nil => intro _ _ _ _ h; exact absurd rfl h
  | cons p rest ih =>
    intro ks fuel buf hk _ hf
    cases p with
    | key k keys st =>
      simp only [keysOf] at hk
      by_cases hc : keys.contains k = true
      · simp only [hc, if_true] at hk
        cases hr : keysOf rest with
        | none => rw [hr] at hk; simp at hk
        | some ks' =>
          rw [hr] at hk
          have hks : ks = k :: ks' := by simpa using hk.symm
          subst hks
          have hlen : (keys.length == 0) = false := by
            cases keys with
            | nil => simp at hc
            | cons _ _ => simp
          cases fuel with
          | zero => simp at hf
          | succ f =>
            simp only [forkIdGo, hlen, hc, Bool.not_true, Bool.false_eq_true, if_false, if_true]
            cases rest with
            | nil =>
              have : ks' = [] := by simpa [keysOf] using hr.symm
              subst this
              simp [mapsId, seg, List.append_assoc]
            | cons p2 rest2 =>
              have hf' : (p2 :: rest2).length < f := by simp at hf ⊢; omega
              rw [ih ks' f _ hr (by simp) hf']
              cases ks' with
              | nil =>
                exfalso
                cases p2 <;> simp [keysOf] at hr
              | cons k2 r2 =>
                simp [mapsId, seg, List.append_assoc]
      · rw [if_neg hc] at hk; exact absurd hk (by simp)
    | arr _ _ _ => simp [keysOf] at hk
    | undet => simp [keysOf] at hk
    | empty => simp [keysOf] at hk

theorem forkIdString_maps (re se : Bool) (parts : List Part) (ks : List Bytes)
    (hk : keysOf parts = some ks) (hne : parts ≠ []) :
    forkIdString re se parts = some (mapsId ks) := by
  match parts, hne with
  | [p], _ =>
    cases p with
    | key k keys st =>
      simp only [keysOf] at hk
      by_cases hc : keys.contains k = true
      · simp only [hc, if_true, Option.map_some] at hk
        have : ks = [k] := by simpa using hk.symm
        subst this
        have hm : k ∈ keys := by simpa using hc
        simp [forkIdString, singleId, hm, mapsId, seg]
      · rw [if_neg hc] at hk; exact absurd hk (by simp)
    | arr _ _ _ => simp [keysOf] at hk
    | undet => simp [keysOf] at hk
    | empty => simp [keysOf] at hk
  | p :: q :: r, _ =>
    simp only [forkIdString]
    rw [forkIdGo_maps re se (p :: q :: r) ks _ [] hk (by simp) (by simp; omega)]
    simp


/-! ## The journal regex as a parser: `parseRun (render x) = some x` -/


theorem findLast_none_of_noDotFork (s : Bytes) (h : noDotFork s = true) : findLast s = none := by
  induction s with
  | nil => rfl
  | cons c r ih =>
    simp only [noDotFork, Bool.and_eq_true, Bool.not_eq_true'] at h
    simp only [findLast, ih h.2, tailMatch, h.1, Bool.false_eq_true, if_false]

theorem noDotFork_append_dotfree (a b : Bytes) (ha : ∀ c ∈ a, c ≠ cDot) :
    noDotFork (a ++ b) = noDotFork b := by
  induction a with
  | nil => rfl
  | cons c r ih =>
    have hc : c ≠ cDot := ha c List.mem_cons_self
    have hc' : ((0x2E : UInt8) == c) = false := by
      simp only [beq_eq_false_iff_ne, ne_eq]; exact fun h => hc (by rw [← h]; rfl)
    simp only [List.cons_append, noDotFork, startsWith, sDotFork, hc', Bool.false_and, Bool.not_false,
      Bool.true_and]
    exact ih (fun c hm => ha c (List.mem_cons_of_mem _ hm))

theorem startsWith_append (p x : Bytes) : startsWith p (p ++ x) = true := by
  induction p with
  | nil => cases x <;> rfl
  | cons c r ih => simp [startsWith, ih]

theorem spanB_append (p : UInt8 → Bool) (a : Bytes) (c : UInt8) (r : Bytes)
    (ha : ∀ x ∈ a, p x = true) (hc : p c = false) : spanB p (a ++ c :: r) = (a, c :: r) := by
  induction a with
  | nil => simp [spanB, hc]
  | cons x t ih =>
    have hx : p x = true := ha x List.mem_cons_self
    simp only [List.cons_append, spanB, hx, if_true]
    rw [ih (fun y hy => ha y (List.mem_cons_of_mem _ hy))]

theorem findLast_prefix (pre T : Bytes) (t : Tail) (h : findLast T = some ([], t)) :
    findLast (pre ++ T) = some (pre, t) := by
  induction pre with
  | nil => exact h
  | cons c r ih => simp only [List.cons_append, findLast, ih]

theorem takeChunk_none_eq (s : Bytes) (h : (takeChunk s).1 = none) : takeChunk s = (none, s) := by
  unfold takeChunk at h ⊢
  by_cases hs : startsWith sDotChnk s = true
  · simp only [hs, if_true] at h ⊢
    cases hsp : spanB isDigit (s.drop 5) with
    | mk a b =>
      simp only [hsp] at h ⊢
      by_cases hc : (!a.isEmpty && startsWith [cDot] b) = true
      · simp only [hc, if_true] at h; exact absurd h (by simp)
      · simp only [hc]; rfl
  · simp only [hs]; rfl

theorem takeUniq_none_eq (s : Bytes) (h : (takeUniq s).1 = none) : takeUniq s = (none, s) := by
  unfold takeUniq at h ⊢
  by_cases hs : startsWith sDotU s = true
  · simp only [hs, if_true] at h ⊢
    by_cases hc : (((s.drop 2).take 10).length == 10 && ((s.drop 2).take 10).all isLowerHex &&
        startsWith [cDot] (s.drop 12)) = true
    · simp only [hc, if_true] at h; exact absurd h (by simp)
    · simp only [hc]; rfl
  · simp only [hs]; rfl

theorem takeChunk_some (d R : Bytes) (hd : d ≠ []) (hdig : ∀ c ∈ d, isDigit c = true)
    (hR : startsWith [cDot] R = true) : takeChunk (sDotChnk ++ (d ++ R)) = (some d, R) := by
  cases R with
  | nil => simp [startsWith] at hR
  | cons c r =>
    have hc : c = cDot := by
      simp only [startsWith, Bool.and_eq_true, beq_iff_eq] at hR
      cases r <;> simp_all [startsWith]
    subst hc
    unfold takeChunk
    have h1 : startsWith sDotChnk (sDotChnk ++ (d ++ cDot :: r)) = true := startsWith_append _ _
    have h2 : (sDotChnk ++ (d ++ cDot :: r)).drop 5 = d ++ cDot :: r := rfl
    simp only [h1, if_true, h2]
    rw [spanB_append isDigit d cDot r hdig (by decide)]
    have : d.isEmpty = false := by cases d <;> simp_all
    simp [this, startsWith]

theorem takeUniq_some (u R : Bytes) (hlen : u.length = 10) (hhex : u.all isLowerHex = true)
    (hR : startsWith [cDot] R = true) : takeUniq (sDotU ++ (u ++ R)) = (some u, R) := by
  unfold takeUniq
  have h1 : startsWith sDotU (sDotU ++ (u ++ R)) = true := startsWith_append _ _
  have h2 : ((sDotU ++ (u ++ R)).drop 2).take 10 = u := by
    show (u ++ R).take 10 = u
    rw [← hlen]; exact List.take_left' rfl
  have h3 : (sDotU ++ (u ++ R)).drop 12 = R := by
    show (u ++ R).drop 10 = R
    rw [← hlen]; exact List.drop_left' rfl
  simp only [h1, if_true, h2, h3, hlen, hhex, hR, beq_self_eq_true, Bool.and_self]



theorem digit_ne_dot (c : UInt8) (h : isDigit c = true) : c ≠ cDot := by
  intro hc; subst hc; exact absurd h (by decide)

theorem lowerHex_ne_dot (c : UInt8) (h : isLowerHex c = true) : c ≠ cDot := by
  intro hc; subst hc; exact absurd h (by decide)

def chunkStr : Option Bytes → Bytes
  | some d => sDotChnk ++ d
  | none => []

def uniqStr : Option Bytes → Bytes
  | some u => sDotU ++ u
  | none => []

theorem render_eq (x : JName) :
    x.render = x.fqid ++ cDot :: (sFork ++ (x.forkPart ++ (chunkStr x.chunk ++ (uniqStr x.uniq ++ cDot :: x.file)))) := by
  obtain ⟨fqid, fp, chunk, uniq, file⟩ := x
  cases chunk <;> cases uniq <;>
    simp [JName.render, chunkStr, uniqStr, sDotFork, sFork, cDot, List.append_assoc]

section tail
variable (file : Bytes) (hf1 : noDotFork (cDot :: file) = true)
  (hf2 : (takeChunk (cDot :: file)).1 = none) (hf3 : (takeUniq (cDot :: file)).1 = none)

theorem R2_dot (uniq : Option Bytes) : ∃ r, uniqStr uniq ++ cDot :: file = cDot :: r := by
  cases uniq with
  | some u => exact ⟨(0x75 : UInt8) :: (u ++ cDot :: file), rfl⟩
  | none => exact ⟨file, rfl⟩

include hf1 in
theorem R2_noDotFork (uniq : Option Bytes)
    (huq : ∀ u, uniq = some u → u.length = 10 ∧ u.all isLowerHex = true) :
    noDotFork (uniqStr uniq ++ cDot :: file) = true := by
  cases uniq with
  | none => exact hf1
  | some u =>
    obtain ⟨_, hhex⟩ := huq u rfl
    have hudf : ∀ c ∈ (0x75 : UInt8) :: u, c ≠ cDot := by
      intro c hc
      rcases List.mem_cons.mp hc with h | h
      · subst h; decide
      · exact lowerHex_ne_dot c (List.all_eq_true.mp hhex c h)
    have : uniqStr (some u) ++ cDot :: file = cDot :: (((0x75 : UInt8) :: u) ++ cDot :: file) := by
      simp [uniqStr, sDotU, cDot]
    rw [this]
    simp only [noDotFork, Bool.and_eq_true, Bool.not_eq_true']
    refine ⟨by simp [startsWith, sDotFork, cDot], ?_⟩
    rw [noDotFork_append_dotfree _ _ hudf]; exact hf1

include hf3 in
theorem R2_takeUniq (uniq : Option Bytes)
    (huq : ∀ u, uniq = some u → u.length = 10 ∧ u.all isLowerHex = true) :
    takeUniq (uniqStr uniq ++ cDot :: file) = (uniq, cDot :: file) := by
  cases uniq with
  | some u =>
    obtain ⟨hl, hh⟩ := huq u rfl
    have : uniqStr (some u) ++ cDot :: file = sDotU ++ (u ++ cDot :: file) := by simp [uniqStr]
    rw [this]; exact takeUniq_some u _ hl hh (by simp [startsWith])
  | none => exact takeUniq_none_eq _ hf3

theorem R1_dot (chunk uniq : Option Bytes) :
    ∃ r, chunkStr chunk ++ (uniqStr uniq ++ cDot :: file) = cDot :: r := by
  cases chunk with
  | some d => exact ⟨sChnk ++ (d ++ (uniqStr uniq ++ cDot :: file)), by simp [chunkStr, sDotChnk, sChnk, cDot]⟩
  | none => exact R2_dot file uniq

include hf1 in
theorem R1_noDotFork (chunk uniq : Option Bytes)
    (hch : ∀ d, chunk = some d → d ≠ [] ∧ ∀ c ∈ d, isDigit c = true)
    (huq : ∀ u, uniq = some u → u.length = 10 ∧ u.all isLowerHex = true) :
    noDotFork (chunkStr chunk ++ (uniqStr uniq ++ cDot :: file)) = true := by
  have h2 := R2_noDotFork file hf1 uniq huq
  cases chunk with
  | none => exact h2
  | some d =>
    obtain ⟨_, hdig⟩ := hch d rfl
    have hddf : ∀ c ∈ sChnk ++ d, c ≠ cDot := by
      intro c hc
      rcases List.mem_append.mp hc with h | h
      · clear hc; revert h; revert c; decide
      · exact digit_ne_dot c (hdig c h)
    have : chunkStr (some d) ++ (uniqStr uniq ++ cDot :: file)
        = cDot :: ((sChnk ++ d) ++ (uniqStr uniq ++ cDot :: file)) := by
      simp [chunkStr, sDotChnk, sChnk, cDot]
    rw [this]
    simp only [noDotFork, Bool.and_eq_true, Bool.not_eq_true']
    refine ⟨by simp [startsWith, sDotFork, sChnk, cDot], ?_⟩
    rw [noDotFork_append_dotfree _ _ hddf]; exact h2

include hf2 in
theorem R1_takeChunk (chunk uniq : Option Bytes)
    (hch : ∀ d, chunk = some d → d ≠ [] ∧ ∀ c ∈ d, isDigit c = true) :
    takeChunk (chunkStr chunk ++ (uniqStr uniq ++ cDot :: file)) = (chunk, uniqStr uniq ++ cDot :: file) := by
  cases chunk with
  | some d =>
    obtain ⟨hd, hdig⟩ := hch d rfl
    obtain ⟨r, hr⟩ := R2_dot file uniq
    have : chunkStr (some d) ++ (uniqStr uniq ++ cDot :: file) = sDotChnk ++ (d ++ (uniqStr uniq ++ cDot :: file)) := by
      simp [chunkStr]
    rw [this]
    exact takeChunk_some d _ hd hdig (by rw [hr]; simp [startsWith])
  | none =>
    cases uniq with
    | some u => simp [chunkStr, uniqStr, takeChunk, startsWith, sDotChnk, sDotU]
    | none => exact takeChunk_none_eq _ hf2

end tail

theorem parseRun_render (x : JName) (wf : WellFormed x) : parseRun x.render = some x := by
  rw [render_eq]
  obtain ⟨fqid, fp, chunk, uniq, file⟩ := x
  obtain ⟨hne, hdf, hch, huq, hfile⟩ := wf
  simp only at hne hdf hch huq hfile ⊢
  simp only [fileOK, Bool.and_eq_true, Option.isNone_iff_eq_none] at hfile
  obtain ⟨⟨hf1, hf2⟩, hf3⟩ := hfile
  have hnoR1 := R1_noDotFork file hf1 chunk uniq hch huq
  have hC := R1_takeChunk file hf2 chunk uniq hch
  have hU := R2_takeUniq file hf3 uniq huq
  obtain ⟨r1, hr1⟩ := R1_dot file chunk uniq
  generalize chunkStr chunk ++ (uniqStr uniq ++ cDot :: file) = R1 at hnoR1 hC hr1
  generalize uniqStr uniq ++ cDot :: file = R2 at hC hU
  have hnoT' : noDotFork (sFork ++ (fp ++ R1)) = true := by
    rw [← List.append_assoc, noDotFork_append_dotfree _ _ ?_]
    · exact hnoR1
    · intro c hc
      rcases List.mem_append.mp hc with h | h
      · clear hc; revert h; revert c; decide
      · exact hdf c h
  have htail : tailMatch (cDot :: (sFork ++ (fp ++ R1))) = some ⟨fp, chunk, uniq, file⟩ := by
    unfold tailMatch
    have h1 : startsWith sDotFork (cDot :: (sFork ++ (fp ++ R1))) = true :=
      startsWith_append sDotFork (fp ++ R1)
    have h2 : (cDot :: (sFork ++ (fp ++ R1))).drop 5 = fp ++ R1 := rfl
    simp only [h1, if_true, h2]
    rw [hr1, spanB_append (fun c => c != cDot) fp cDot r1
      (fun c hc => by simpa using hdf c hc) (by simp)]
    have hfpe : fp.isEmpty = false := by cases fp <;> simp_all
    simp only [hfpe, List.isEmpty_cons, Bool.or_self, Bool.false_eq_true, if_false]
    rw [← hr1]
    simp only [hC, hU, List.drop_succ_cons, List.drop_zero]
  have hfl : findLast (cDot :: (sFork ++ (fp ++ R1))) = some ([], ⟨fp, chunk, uniq, file⟩) := by
    simp only [findLast, findLast_none_of_noDotFork _ hnoT', htail]
  unfold parseRun
  rw [findLast_prefix fqid _ _ hfl]


/-! ## getFork -/

theorem findName_sound : ∀ (names : List Bytes) (index : Bytes) (j : Nat),
    findName names index = some j → names[j]? = some index ∧ index ≠ [] := by
  intro names
  induction names with
  | nil => intro _ _ h; simp [findName] at h
  | cons n rest ih =>
    intro index j h
    simp only [findName] at h
    by_cases hm : nameMatches n index = true
    · simp only [hm, if_true, Option.some.injEq] at h
      subst h
      simp only [nameMatches, Bool.and_eq_true, Bool.not_eq_true', beq_iff_eq] at hm
      obtain ⟨hne, heq⟩ := hm
      subst heq
      exact ⟨rfl, by intro h; subst h; simp at hne⟩
    · have hm' : nameMatches n index = false := by simpa using hm
      simp only [hm', Bool.false_eq_true, if_false] at h
      cases hr : findName rest index with
      | none => rw [hr] at h; simp at h
      | some k =>
        rw [hr] at h
        have : j = k + 1 := by simpa using h.symm
        subst this
        simpa using ih index k hr

theorem findName_complete : ∀ (names : List Bytes) (i : Nat) (n : Bytes),
    names.Nodup → names[i]? = some n → n ≠ [] → findName names n = some i := by
  intro names
  induction names with
  | nil => intro _ _ _ h; simp at h
  | cons h t ih =>
    intro i n hnd hi hne
    simp only [findName]
    cases i with
    | zero =>
      have : h = n := by simpa using hi
      subst this
      have : nameMatches h h = true := by
        simp only [nameMatches, Bool.and_eq_true, Bool.not_eq_true', beq_self_eq_true, and_true]
        cases h <;> simp_all
      simp [this]
    | succ k =>
      have hk : t[k]? = some n := by simpa using hi
      have hmem : n ∈ t := List.mem_of_getElem? hk
      have hnd' := List.nodup_cons.mp hnd
      have hneq : h ≠ n := fun e => hnd'.1 (e ▸ hmem)
      have : nameMatches h n = false := by
        simp only [nameMatches, Bool.and_eq_false_iff, beq_eq_false_iff_ne]
        exact Or.inr hneq
      simp only [this, Bool.false_eq_true, if_false, ih k n hnd'.2 hk hne, Option.map_some]

theorem getForkNew_sound (names : List Bytes) (index : Bytes) (j : Nat)
    (h : getForkNew names index = some j) : names[j]? = some index ∧ index ≠ [] := by
  unfold getForkNew at h
  cases hn : numericIndex names index with
  | none => rw [hn] at h; exact findName_sound names index j h
  | some k =>
    rw [hn] at h
    simp only at h
    by_cases hm : nameMatches (names.getD k []) index = true
    · simp only [hm, if_true, Option.some.injEq] at h
      subst h
      simp only [nameMatches, Bool.and_eq_true, Bool.not_eq_true', beq_iff_eq] at hm
      obtain ⟨hne, heq⟩ := hm
      have hidx : index ≠ [] := by intro e; rw [e] at heq; rw [heq] at hne; simp at hne
      refine ⟨?_, hidx⟩
      cases hg : names[k]? with
      | none => simp [List.getD, hg] at heq; exact absurd heq hidx
      | some v => simp [List.getD, hg] at heq; rw [heq]
    · have hm' : nameMatches (names.getD k []) index = false := by simpa using hm
      simp only [hm', Bool.false_eq_true, if_false] at h
      exact findName_sound names index j h

theorem getForkNew_routes (names : List Bytes) (i : Nat) (n : Bytes)
    (hnd : names.Nodup) (hi : names[i]? = some n) (hne : n ≠ []) :
    getForkNew names n = some i := by
  have hc := findName_complete names i n hnd hi hne
  unfold getForkNew
  cases hn : numericIndex names n with
  | none => simpa using hc
  | some k =>
    simp only
    by_cases hm : nameMatches (names.getD k []) n = true
    · simp only [hm, if_true, Option.some.injEq]
      -- position k carries the name n as well, so k = i
      have hk : names[k]? = some n := by
        simp only [nameMatches, Bool.and_eq_true, Bool.not_eq_true', beq_iff_eq] at hm
        obtain ⟨_, heq⟩ := hm
        cases hg : names[k]? with
        | none => simp [List.getD, hg] at heq; exact absurd heq hne
        | some v => simp [List.getD, hg] at heq; rw [heq]
      have := findName_complete names k n hnd hk hne
      rw [hc] at this
      exact (Option.some.inj this).symm
    · have hm' : nameMatches (names.getD k []) n = false := by simpa using hm
      simp only [hm', Bool.false_eq_true, if_false]
      exact hc

theorem journalEnc_append (pairs : Pairs) (a b : Bytes) :
    journalEnc pairs (a ++ b) = journalEnc pairs a ++ journalEnc pairs b := by
  induction a with
  | nil => rfl
  | cons c r ih => simp [journalEnc, ih, List.append_assoc]

theorem nodup_map_journalEnc {pairs : Pairs} (ht : TablePct pairs = true) (ts : List Bytes)
    (h : ts.Nodup) : (ts.map (journalEnc pairs)).Nodup := by
  induction ts with
  | nil => simp
  | cons t rest ih =>
    have h' := List.nodup_cons.mp h
    refine List.nodup_cons.mpr ⟨?_, ih h'.2⟩
    intro hm
    obtain ⟨u, hu, he⟩ := List.mem_map.mp hm
    have := journalEnc_inj ht he
    subst this
    exact h'.1 hu

/-! ## Node.find -/

theorem findNode_sound (top : Bytes) : ∀ (fqids : List Bytes) (name : Bytes) (j : Nat),
    findNode top fqids name = some j → ∃ f, fqids[j]? = some f ∧ nodeMatches top f name = true := by
  intro fqids
  induction fqids with
  | nil => intro _ _ h; simp [findNode] at h
  | cons f rest ih =>
    intro name j h
    simp only [findNode] at h
    by_cases hm : nodeMatches top f name = true
    · simp only [hm, if_true, Option.some.injEq] at h
      subst h; exact ⟨f, rfl, hm⟩
    · have hm' : nodeMatches top f name = false := by simpa using hm
      simp only [hm', Bool.false_eq_true, if_false] at h
      cases hr : findNode top rest name with
      | none => rw [hr] at h; simp at h
      | some k =>
        rw [hr] at h
        have : j = k + 1 := by simpa using h.symm
        subst this
        simpa using ih name k hr

theorem findNode_routes (top : Bytes) : ∀ (fqids : List Bytes) (i : Nat) (n : Bytes),
    fqids.Nodup → fqids[i]? = some (top ++ cDot :: n) → (∀ f ∈ fqids, f ≠ n) →
    findNode top fqids n = some i := by
  intro fqids
  induction fqids with
  | nil => intro _ _ _ h; simp at h
  | cons f rest ih =>
    intro i n hnd hi hno
    simp only [findNode]
    have hnd' := List.nodup_cons.mp hnd
    cases i with
    | zero =>
      have : f = top ++ cDot :: n := by simpa using hi
      subst this
      simp [nodeMatches]
    | succ k =>
      have hk : rest[k]? = some (top ++ cDot :: n) := by simpa using hi
      have hmem : (top ++ cDot :: n) ∈ rest := List.mem_of_getElem? hk
      have h1 : f ≠ top ++ cDot :: n := fun e => hnd'.1 (e ▸ hmem)
      have h2 : f ≠ n := hno f List.mem_cons_self
      have : nodeMatches top f n = false := by
        simp only [nodeMatches, Bool.or_eq_false_iff, beq_eq_false_iff_ne]
        exact ⟨h1, h2⟩
      simp only [this, Bool.false_eq_true, if_false,
        ih k n hnd'.2 hk (fun g hg => hno g (List.mem_cons_of_mem _ hg)), Option.map_some]

end Martian.ForkName
