import Martian.LexerId
import Proofs.LexerRegex

namespace Martian.LexerRegex
open Martian.Regex

def idRe : Re :=
  .cat .bot (.cat (.rep (.cls [(0x5F, 0x5F)]) 0 (some 1)) (.cat (.cls [(0x41, 0x5A), (0x61, 0x7A)])
    (.cat (.rep (.cls [(0x30, 0x39), (0x41, 0x5A), (0x61, 0x7A), (0x5F, 0x5F)]) 0 none) .wordb)))

set_option maxRecDepth 100000 in
theorem cok_us : ∀ c : UInt8, cok [(0x5F, 0x5F)] c = (c == 0x5F) := by
  apply forall_byte; decide

set_option maxRecDepth 100000 in
theorem cok_alpha : ∀ c : UInt8, cok [(0x41, 0x5A), (0x61, 0x7A)] c = Lexer.isAlpha c := by
  apply forall_byte; decide

set_option maxRecDepth 100000 in
theorem cok_word : ∀ c : UInt8, cok [(0x30, 0x39), (0x41, 0x5A), (0x61, 0x7A), (0x5F, 0x5F)] c = Lexer.isWord c := by
  apply forall_byte; decide

set_option maxRecDepth 100000 in
theorem alpha_facts : ∀ c : UInt8, Lexer.isAlpha c = true → Lexer.isWord c = true ∧ (c == 0x5F) = false := by
  apply forall_byte; decide

theorem spanWord_eq (b : Bytes) : b = (Lexer.spanWord b).1 ++ (Lexer.spanWord b).2 := by
  induction b with
  | nil => simp [Lexer.spanWord]
  | cons c r ih =>
    unfold Lexer.spanWord
    by_cases hc : Lexer.isWord c = true
    · simp only [hc, if_true, List.cons_append]
      rw [← ih]
    · simp [hc]

theorem spanWord_fst_all : ∀ (b : Bytes), ∀ c ∈ (Lexer.spanWord b).1, Lexer.isWord c = true := by
  intro b
  induction b with
  | nil => intro c hc; simp [Lexer.spanWord] at hc
  | cons x r ih =>
    intro c hc
    unfold Lexer.spanWord at hc
    by_cases hx : Lexer.isWord x = true
    · simp only [hx, if_true, List.mem_cons] at hc
      rcases hc with rfl | hc
      · exact hx
      · exact ih c hc
    · simp [hx] at hc

theorem spanWord_snd_boundary (b : Bytes) : Lexer.boundary (Lexer.spanWord b).2 = true := by
  induction b with
  | nil => simp [Lexer.spanWord, Lexer.boundary]
  | cons x r ih =>
    unfold Lexer.spanWord
    by_cases hx : Lexer.isWord x = true
    · simp only [hx, if_true]; exact ih
    · simp [hx, Lexer.boundary]

theorem spanWord_append (d post : Bytes) (hd : ∀ c ∈ d, Lexer.isWord c = true)
    (hp : Lexer.boundary post = true) : Lexer.spanWord (d ++ post) = (d, post) := by
  induction d with
  | nil =>
    cases post with
    | nil => simp [Lexer.spanWord]
    | cons c t =>
      simp only [Lexer.boundary, Bool.not_eq_true'] at hp
      simp [Lexer.spanWord, hp]
  | cons x r ih =>
    have hx := hd x (by simp)
    simp only [List.cons_append]
    unfold Lexer.spanWord
    simp only [hx, if_true]
    rw [ih (fun c hc => hd c (by simp [hc]))]

/-- the shape of an identifier token -/
def IdShape (w post : Bytes) : Prop :=
  ∃ us a ws, w = us ++ (a :: ws) ∧ us.length ≤ 1 ∧ (∀ c ∈ us, c = 0x5F) ∧ Lexer.isAlpha a = true ∧
    (∀ c ∈ ws, Lexer.isWord c = true) ∧ Lexer.boundary post = true

theorem id_shape (w post : Bytes) : Matches idRe [] w post ↔ IdShape w post := by
  constructor
  · intro h
    unfold idRe at h
    obtain ⟨w0, w1, rfl, ⟨rfl, _⟩, us, w2, rfl, hus, al, w3, rfl, hal, ws, w4, rfl, hws, rfl, hb⟩ := h
    obtain ⟨_, hus1, hus2⟩ := (Matches_rep_cls _ _ _ _ _ _).mp hus
    have hus1 := hus1 1 rfl
    obtain ⟨a, rfl, ha⟩ := (Matches_cls_iff _ _ _ _).mp hal
    rw [cok_alpha] at ha
    obtain ⟨_, _, hws3⟩ := (Matches_rep_cls _ _ _ _ _ _).mp hws
    have hwsw : ∀ c ∈ ws, Lexer.isWord c = true := by intro c hc; rw [← cok_word]; exact hws3 c hc
    have hbd : Lexer.boundary post = true := by
      rw [boundary_iff]
      have hwb := wordBefore_run us ([a] ++ ws) [] (by simp) (by
        intro c hc
        rw [word_eq]
        simp only [List.cons_append, List.nil_append, List.mem_cons] at hc
        rcases hc with rfl | hc
        · exact (alpha_facts c ha).1
        · exact hwsw c hc)
      simp only [List.nil_append, List.append_nil, List.reverse_append, List.append_assoc, List.reverse_nil,
        List.reverse_cons, List.cons_append] at hb hwb
      rw [hwb] at hb
      cases hwa : wordAfter post with
      | false => rfl
      | true => rw [hwa] at hb; exact absurd rfl hb
    refine ⟨us, a, ws, by simp, hus1, ?_, ha, hwsw, hbd⟩
    intro c hc
    have := hus2 c hc
    rw [cok_us] at this
    exact eq_of_beq this
  · rintro ⟨us, a, ws, rfl, hus1, hus2, ha, hws, hbd⟩
    unfold idRe
    refine ⟨[], _, rfl, ⟨rfl, rfl⟩, us, a :: ws, rfl,
      (Matches_rep_cls _ _ _ _ _ _).mpr ⟨Nat.zero_le _, (by intro M hM; injection hM with hM; omega), ?_⟩,
      [a], ws, rfl, (Matches_cls_iff _ _ _ _).mpr ⟨a, rfl, by rw [cok_alpha]; exact ha⟩,
      ws, [], (by simp), (Matches_rep_cls _ _ _ _ _ _).mpr ⟨Nat.zero_le _, (by intro M hM; cases hM), ?_⟩,
      rfl, ?_⟩
    · intro c hc; rw [cok_us, hus2 c hc]; rfl
    · intro c hc; rw [cok_word]; exact hws c hc
    · have hwb := wordBefore_run us ([a] ++ ws) [] (by simp) (by
        intro c hc
        rw [word_eq]
        simp only [List.cons_append, List.nil_append, List.mem_cons] at hc
        rcases hc with rfl | hc
        · exact (alpha_facts c ha).1
        · exact hws c hc)
      simp only [List.nil_append, List.append_nil, List.reverse_append, List.append_assoc, List.reverse_nil,
        List.reverse_cons, List.cons_append] at hwb ⊢
      rw [hwb, (boundary_iff post).mp hbd]
      decide

theorem matchId_prefix (s w : Bytes) (h : Lexer.matchId s = some w) : ∃ post, s = w ++ post := by
  unfold Lexer.matchId at h
  split at h
  · rename_i c r
    split at h
    · split at h
      · rename_i c1 r1
        split at h
        · injection h with h
          exact ⟨(Lexer.spanWord r1).2, by rw [← h]; simp only [List.cons_append, List.cons.injEq, true_and]; exact spanWord_eq r1⟩
        · cases h
      · cases h
    · split at h
      · injection h with h
        exact ⟨(Lexer.spanWord r).2, by rw [← h]; simp only [List.cons_append, List.cons.injEq, true_and]; exact spanWord_eq r⟩
      · cases h
  · cases h

theorem id_shape_iff (w post : Bytes) : IdShape w post ↔ Lexer.matchId (w ++ post) = some w := by
  constructor
  · rintro ⟨us, a, ws, rfl, hus1, hus2, ha, hws, hbd⟩
    have hsp : Lexer.spanWord (ws ++ post) = (ws, post) := spanWord_append ws post hws hbd
    have hau := (alpha_facts a ha).2
    match us, hus1, hus2 with
    | [], _, _ =>
      simp only [List.nil_append, List.cons_append, Lexer.matchId, hau, Bool.false_eq_true, if_false, ha, if_true, hsp]
    | [u], _, h2 =>
      have : u = 0x5F := h2 u (by simp)
      subst this
      simp [Lexer.matchId, ha, hsp]
  · intro h
    obtain ⟨post', hpre⟩ := matchId_prefix _ _ h
    have hpp : post' = post := (List.append_cancel_left hpre).symm
    subst hpp
    unfold Lexer.matchId at h
    split at h
    · rename_i c r heq
      split at h
      · rename_i hcu
        have hc : c = 0x5F := eq_of_beq hcu
        split at h
        · rename_i c1 r1
          split at h
          · rename_i ha
            injection h with h
            have hr : (Lexer.spanWord r1).2 = post' := by
              have e := spanWord_eq r1
              rw [← h] at heq
              simp only [List.cons_append, List.cons.injEq, true_and] at heq
              exact (List.append_cancel_left (heq.trans e)).symm
            refine ⟨[c], c1, (Lexer.spanWord r1).1, by rw [← h]; rfl, by simp, ?_, ha, spanWord_fst_all r1, ?_⟩
            · intro x hx; simp only [List.mem_singleton] at hx; rw [hx, hc]
            · rw [← hr]; exact spanWord_snd_boundary r1
          · cases h
        · cases h
      · split at h
        · rename_i ha
          injection h with h
          have hr : (Lexer.spanWord r).2 = post' := by
            have e := spanWord_eq r
            rw [← h] at heq
            simp only [List.cons_append, List.cons.injEq, true_and] at heq
            exact (List.append_cancel_left (heq.trans e)).symm
          refine ⟨[], c, (Lexer.spanWord r).1, by rw [← h]; rfl, by simp, by simp, ha, spanWord_fst_all r, ?_⟩
          rw [← hr]; exact spanWord_snd_boundary r
        · cases h
    · cases h

theorem id_matches_iff (w post : Bytes) : Matches idRe [] w post ↔ Lexer.matchId (w ++ post) = some w :=
  (id_shape w post).trans (id_shape_iff w post)

/-- For every input the hand-written identifier recogniser returns exactly what
the leftmost-first matcher returns for the AST of `^_?[[:alpha:]]\w*\b`. -/
theorem pmatch_idRe (s : Bytes) : pmatch idRe s = Lexer.matchId s :=
  pmatch_eq_of_unique idRe Lexer.matchId matchId_prefix id_matches_iff s

end Martian.LexerRegex
