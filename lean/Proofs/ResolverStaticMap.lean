/-
C01 — the refinement "two-phase resolver = den" with MAP CALLS OF STAGES OVER ARRAY
LITERALS (statically sized map calls; no `disabled`, no mapped pipelines).  Resolved
expressions are now evaluated in several fork assignments (the empty one for the
consumers, `[(call, ix)]` for fork `ix` of a mapped stage), so the environment relation
holds in every fork assignment (`FsT`) and the store is described node by node
(`StoreAtNode`: a node's recorded outs depend on the node's own fork dimensions only).
-/
import Proofs.ResolverStaticMain

namespace Proofs.ResolverStatic
open Martian.Dataflow Martian.Resolver Martian.ResolverForks Martian.ResolverStatic Proofs.Dataflow
  Proofs.ResolverForks

abbrev FsT : ForkAssign → Prop := fun _ => True

/-! ## well-typed programs with statically sized map calls of stages -/

/-- a map call of a STAGE: no `disabled`, every split binding is an array literal, all of one
(non-zero) length, and is the binding of a declared parameter; every binding is assignable
to its parameter (a split binding: at the array type of the parameter) -/
def MappedOk (st : StructTable) (P : Program) (sT cT : String → Ty) (c : Call) : Prop :=
  c.mapped = true ∧ c.disabled = none ∧
  (∃ sins souts, P.callables.lookup c.callee = some (.stage sins souts)) ∧
  (∃ n, 0 < n ∧ (∃ b ∈ c.binds, b.split = true) ∧
    (∃ p ∈ P.insOf c.callee, ∃ b, c.binds.find? (fun b => b.param == p.name) = some b ∧ b.split = true) ∧
    ∀ b ∈ c.binds, b.split = true → ∃ es, b.exp = .arr es ∧ es.length = n) ∧
  ∀ p ∈ P.insOf c.callee, ∀ b, c.binds.find? (fun b => b.param == p.name) = some b →
    HasTy st sT cT (if b.split then { p.ty with arrDim := p.ty.arrDim + 1 } else p.ty) b.exp

def CallOkM (st : StructTable) (P : Program) (sT cT : String → Ty) (c : Call) : Prop :=
  (CallOk st P.insOf sT cT c ∧ ∀ b ∈ c.binds, b.split = false) ∨ MappedOk st P sT cT c

/-- type of `CALL` as seen by later bindings -/
def callTyM (c : Call) : Ty := if c.mapped then ⟨c.callee, 0, 1⟩ else ⟨c.callee, 0, 0⟩

def CallsOkM (st : StructTable) (P : Program) (sT : String → Ty) :
    List (String × Ty) → List Call → Prop
  | _, [] => True
  | L, c :: cs => CallOkM st P sT (callTyOf L) c ∧ CallsOkM st P sT (L ++ [(c.id, callTyM c)]) cs

def callTypesM (cs : List Call) : List (String × Ty) := cs.map fun c => (c.id, callTyM c)

def PipelineOkM (st : StructTable) (P : Program) (pins outs : List Param)
    (calls : List Call) (ret : List (String × Exp)) : Prop :=
  CallsOkM st P (selfTyOf pins) [] calls ∧
  ∀ p ∈ outs, ∀ e, ret.lookup p.name = some e →
    HasTy st (selfTyOf pins) (callTyOf (callTypesM calls)) p.ty e

structure WellTypedM (P : Program) : Prop where
  structs : StructsOk P.table
  outsOf : ∀ name c, P.callables.lookup name = some c → P.table.lookup name = some c.outs
  pipelines : ∀ name pins outs calls ret,
    P.callables.lookup name = some (.pipeline pins outs calls ret) →
      PipelineOkM P.table P pins outs calls ret
  top : CallOk P.table P.insOf (selfTyOf []) (callTyOf []) P.top ∧ ∀ b ∈ P.top.binds, b.split = false

/-! ## the store, node by node -/

/-- the recorded outs of a node, read in fork assignment `f`, are those of the fork of the node
that `f` selects: only the node's own fork dimensions matter -/
def StoreAtNode (nm : List String → String) (O : Oracle) (ρ : Store) (n : SNode) : Prop :=
  ∀ f, ρ.outs (nm n.path) f
    = (O ⟨n.path, n.forks.map fun d => (d.1, (f.lookup d.1).getD .none)⟩).getD .null

def addFork (d : String × List Idx) (n : SNode) : SNode := { n with forks := d :: n.forks }

theorem find_key_of_nodup {α : Type} (l : List α) (key : α → String) (hn : (l.map key).Nodup)
    (a : α) (ha : a ∈ l) : l.find? (fun b => key b == key a) = some a := by
  induction l with
  | nil => cases ha
  | cons q qs ih =>
    simp only [List.map_cons, List.nodup_cons] at hn
    simp only [List.find?_cons]
    cases ha with
    | head => simp
    | tail _ ha' =>
      have hne : key q ≠ key a := by
        intro e
        apply hn.1
        rw [e]
        exact List.mem_map_of_mem ha'
      have : (key q == key a) = false := by simpa using hne
      rw [this]
      exact ih hn.2 ha'

/-- the store built from the oracle and the nodes satisfies the node-wise description, when
the nodes have distinct names -/
theorem storeOfNodes_ok (nm : List String → String) (nodes : List SNode) (O : Oracle)
    (hn : (nodes.map fun n => nm n.path).Nodup) :
    ∀ n ∈ nodes, StoreAtNode nm O (storeOfNodes nm nodes O) n := by
  intro n hmem f
  simp only [storeOfNodes]
  rw [find_key_of_nodup nodes (fun n => nm n.path) hn n hmem]

/-! ## relations carried through the induction -/

def ArgsRelT (st : StructTable) (F : Nat) (ρ : Store) (pins : List Param) (args : J) (cins : RBMap) : Prop :=
  ∃ g : Param → RExp,
    cins = pins.map (fun q => (q.name, (⟨g q, q.ty⟩ : RB))) ∧
    (∀ f, args = .obj (pins.map fun q => (q.name, evalRT st F ρ f q.ty (g q)))) ∧
    ∀ q ∈ pins, HasTyR st q.ty (g q)

def GoodT (st : StructTable) (F : Nat) (ρ : Store) (callee : String) (d : J × List Inst)
    (s : RB × List SNode) : Prop :=
  (∀ f, d.1 = evalRT st F ρ f ⟨callee, 0, 0⟩ s.1.exp) ∧ HasTyR st ⟨callee, 0, 0⟩ s.1.exp ∧
  d.2 = s.2.flatMap (instsOf st F ρ)

def forkInst (st : StructTable) (F : Nat) (ρ : Store) (id : String) (ix : Idx) (n : SNode) : Inst :=
  ⟨⟨n.path, [(id, ix)]⟩, runtimeArgs st F ρ [(id, ix)] n, false, false⟩

/-- den's result for fork `ix` of a mapped stage call against the static node -/
def GoodFork (st : StructTable) (F : Nat) (ρ : Store) (callee id : String) (ix : Idx)
    (d : J × List Inst) (s : RB × List SNode) : Prop :=
  (∀ f, f.lookup id = some ix → d.1 = evalRT st F ρ f ⟨callee, 0, 0⟩ s.1.exp) ∧
  HasTyR st ⟨callee, 0, 0⟩ s.1.exp ∧
  d.2 = s.2.map (forkInst st F ρ id ix) ∧ (s.2 = [] ∨ ∃ n, s.2 = [n] ∧ n.forks = [])

theorem evalRTList_map (st : StructTable) (F : Nat) (ρ : Store) (f : ForkAssign) (t : Ty)
    {α : Type} (g : α → RExp) : ∀ (l : List α),
    evalRTList st F ρ f t (l.map g) = l.map fun a => evalRT st F ρ f t (g a)
  | [] => by simp [evalRTList]
  | a :: l => by simp [evalRTList, evalRTList_map st F ρ f t g l]

theorem HasTyRList_map (st : StructTable) (t : Ty) {α : Type} (g : α → RExp) :
    ∀ (l : List α), (∀ a ∈ l, HasTyR st t (g a)) → HasTyRList st t (l.map g)
  | [], _ => by simp [HasTyRList]
  | a :: l, h => by
    simp only [List.map_cons, HasTyRList]
    exact ⟨h a (by simp), HasTyRList_map st t g l fun x hx => h x (by simp [hx])⟩

theorem staticCalls_acc (st : StructTable) (insOf : String → List Param)
    (node : String → List String → RBMap → RB × List SNode) (path : List String) (self : RBMap) :
    ∀ (cs : List Call) (sib : RBMap) (acc : List SNode),
      (staticCalls st insOf node path self cs sib acc).2
        = acc ++ (staticCalls st insOf node path self cs sib []).2 := by
  intro cs
  induction cs with
  | nil => intro sib acc; simp [staticCalls]
  | cons c cs ih =>
    intro sib acc
    simp only [staticCalls]
    split
    · rw [ih, ih _ ([] ++ _)]; simp
    · rw [ih, ih _ ([] ++ _)]; simp

section main
variable (st : StructTable) (hst : StructsOk st) (F : Nat) (hF : NarrowFix st F) (ρ : Store)
include hst hF

/-- the bindings of a plain call, in every fork assignment -/
theorem args_stepT (insOf : String → List Param) (env : Env) (self sib : RBMap)
    (hrel : EnvRel st F ρ FsT env self sib) (c : Call)
    (hc : CallOk st insOf env.selfTy env.callTy c) :
    ArgsRelT st F ρ (insOf c.callee) (mkArgs st F (argVals st env (insOf c.callee) c) none)
      (resolveBinds st self sib (insOf c.callee) c) := by
  obtain ⟨_, _, hb⟩ := hc
  refine ⟨fun q => match c.binds.find? (fun b => b.param == q.name) with
    | some b => filterR st q.ty (resolveRefs self sib b.exp)
    | none => .lit .null, ?_, ?_, ?_⟩
  · simp only [resolveBinds]
    apply List.map_congr_left
    intro p _
    cases c.binds.find? (fun b => b.param == p.name) <;> rfl
  · intro f
    simp only [mkArgs, argVals, List.map_map, J.obj.injEq]
    apply List.map_congr_left
    intro p hp
    simp only [Function.comp_apply]
    cases hfb : c.binds.find? (fun b => b.param == p.name) with
    | none => simp [narrow_null hF, evalRT]
    | some b =>
      simp only [Prod.mk.injEq, true_and]
      have key := (eval_resolveExp st hst F hF ρ FsT env self sib hrel f trivial b.exp p.ty (hb p hp b hfb)).1
      cases b.split <;> exact key
  · intro p hp
    show HasTyR st p.ty (match c.binds.find? (fun b => b.param == p.name) with
      | some b => filterR st p.ty (resolveRefs self sib b.exp)
      | none => .lit .null)
    cases hfb : c.binds.find? (fun b => b.param == p.name) with
    | none => exact HasTyR_null st _
    | some b => exact (eval_resolveExp st hst F hF ρ FsT env self sib hrel [] trivial b.exp p.ty (hb p hp b hfb)).2

theorem elemAt_narrow_arr (b : String) (m a : Nat) (v : J) (k : Nat) :
    narrow st F ⟨b, m, a⟩ (elemAt v (.i k)) = elemAt (narrow st F ⟨b, m, a + 1⟩ v) (.i k) := by
  cases v with
  | arr xs =>
    rw [narrow_arr hF]
    simp only [elemAt]
    exact (getD_map_null _ (narrow_null hF _) xs k).symm
  | dnull => simp [elemAt, narrow_dnull hF]
  | null => simp [elemAt, narrow_null hF]
  | atom s =>
    have : narrow st F ⟨b, m, a + 1⟩ (.atom s) = .null := by rw [hF]; simp [atBase, mapArr]
    simp [elemAt, this, narrow_null hF]
  | obj kvs =>
    have : narrow st F ⟨b, m, a + 1⟩ (.obj kvs) = .null := by rw [hF]; simp [atBase, mapArr]
    simp [elemAt, this, narrow_null hF]

/-- the bindings of fork `k` of a map call of a stage over array literals: den's argument
record = run-time evaluation of the resolved inputs in a fork assignment that selects `k` -/
theorem args_mapped (P : Program) (env : Env) (self sib : RBMap)
    (hrel : EnvRel st F ρ FsT env self sib) (c : Call)
    (hc : MappedOk st P env.selfTy env.callTy c) (k : Nat) (f : ForkAssign)
    (hf : f.lookup c.id = some (.i k)) :
    mkArgs st F (argVals st env (P.insOf c.callee) c) (some (.i k))
      = .obj ((resolveBindsM st self sib (P.insOf c.callee) c).map fun kv =>
          (kv.1, evalRT st F ρ f kv.2.ty kv.2.exp)) := by
  obtain ⟨_, _, _, ⟨n, _, _, _, hsplit⟩, hb⟩ := hc
  simp only [mkArgs, argVals, resolveBindsM, List.map_map, J.obj.injEq]
  apply List.map_congr_left
  intro p hp
  simp only [Function.comp_apply]
  cases hfb : c.binds.find? (fun b => b.param == p.name) with
  | none => simp [narrow_null hF, evalRT]
  | some b =>
    simp only [Prod.mk.injEq, true_and]
    have hty := hb p hp b hfb
    have hbm : b ∈ c.binds := List.mem_of_find?_eq_some hfb
    cases hs : b.split with
    | false =>
      simp only [hs, Bool.false_eq_true, if_false] at hty ⊢
      exact (eval_resolveExp st hst F hF ρ FsT env self sib hrel f trivial b.exp p.ty hty).1
    | true =>
      simp only [hs, if_true] at hty ⊢
      obtain ⟨es, he, _⟩ := hsplit b hbm hs
      have hlit : isMapLit (resolveRefs self sib b.exp) = false := by
        rw [he]; simp [resolveRefs, isMapLit]
      simp only [hlit, liftSplitTy, Bool.false_eq_true, if_false, evalRT, hf, Option.getD_some]
      have key := (eval_resolveExp st hst F hF ρ FsT env self sib hrel f trivial b.exp _ hty).1
      rw [← key]
      obtain ⟨pb, pm, pa⟩ := p.ty
      simp only [elemArr]
      exact elemAt_narrow_arr st hst F hF pb pm pa _ k

end main

/-! ## den on a map call over array literals -/

theorem splitVals_indices (st : StructTable) (env : Env) (c : Call) (n : Nat)
    (hd : c.disabled = none)
    (h : ∀ b ∈ c.binds, b.split = true → ∃ es, b.exp = .arr es ∧ es.length = n) :
    ∀ v ∈ splitVals st env c, indicesOf v = (List.range n).map .i := by
  intro v hv
  simp only [splitVals, hd, List.append_nil, List.mem_map, List.mem_filter] at hv
  obtain ⟨b, ⟨hb, hs⟩, rfl⟩ := hv
  obtain ⟨es, he, hl⟩ := h b hb hs
  have hlen : ∀ (xs : List Exp), (evalList st env xs).length = xs.length := by
    intro xs; induction xs with
    | nil => simp [evalList]
    | cons x xs ih => simp [evalList, ih]
  rw [he]
  simp [eval, indicesOf, hlen, hl]

theorem evalCall_mapped (st : StructTable) (F : Nat) (insOf : String → List Param) (run : Runner)
    (path : List String) (env : Env) (c : Call) (n : Nat) (hn : 0 < n)
    (hm : c.mapped = true) (hd : c.disabled = none)
    (hex : ∃ b ∈ c.binds, b.split = true)
    (h : ∀ b ∈ c.binds, b.split = true → ∃ es, b.exp = .arr es ∧ es.length = n) :
    evalCall st F insOf run path [] env c =
      (⟨c.callee, 0, 1⟩,
       .arr ((List.range n).map fun k =>
          (run c.callee (path ++ [c.id]) [(c.id, .i k)]
            (mkArgs st F (argVals st env (insOf c.callee) c) (some (.i k)))).1),
       (List.range n).flatMap fun k =>
          (run c.callee (path ++ [c.id]) [(c.id, .i k)]
            (mkArgs st F (argVals st env (insOf c.callee) c) (some (.i k)))).2) := by
  have hidx := splitVals_indices st env c n hd h
  obtain ⟨b0, hb0, hs0⟩ := hex
  have hne : splitVals st env c ≠ [] := by
    intro e
    have : eval st env b0.exp ∈ splitVals st env c := by
      simp only [splitVals, hd, List.append_nil, List.mem_map, List.mem_filter]
      exact ⟨b0, ⟨hb0, hs0⟩, rfl⟩
    rw [e] at this; cases this
  have hci : callIndices st env c = (List.range n).map .i := by
    unfold callIndices
    cases hsv : splitVals st env c with
    | nil => exact absurd hsv hne
    | cons v r => exact hidx v (by rw [hsv]; simp)
  have hag : splitsAgree st env c = true := by
    unfold splitsAgree
    cases hsv : splitVals st env c with
    | nil => rfl
    | cons v r =>
      simp only [List.all_eq_true, beq_iff_eq]
      intro w hw
      rw [hidx w (by rw [hsv]; simp [hw]), hidx v (by rw [hsv]; simp)]
  have hmode : callMode st env c = .arr := by
    unfold callMode firstSplit
    simp only [hm, if_true]
    cases hf : c.binds.find? (·.split) with
    | none =>
      have := List.find?_eq_none.mp hf b0 hb0
      simp [hs0] at this
    | some b =>
      have hbm := List.mem_of_find?_eq_some hf
      have hbs : b.split = true := by simpa using List.find?_some hf
      obtain ⟨es, he, _⟩ := h b hbm hbs
      simp [he, splitMode]
  have hnonempty : ((List.range n).map Idx.i).isEmpty = false := by
    cases n with
    | zero => omega
    | succ n => simp [List.range_succ]
  have hnull : ∀ ix, Martian.Dataflow.isTrue (elemAt .null ix) = false := by
    intro ix; cases ix <;> rfl
  simp only [evalCall, hd, hm, hag, hci, hmode, hnonempty, Bool.not_true, Bool.false_eq_true, if_false,
    hnull, liftTy, collect, List.map_map, Function.comp_def, List.flatMap_map, List.nil_append]

theorem filterRList_length (st : StructTable) (t : Ty) : ∀ (xs : List RExp), (filterRList st t xs).length = xs.length
  | [] => by simp [filterRList]
  | x :: xs => by simp [filterRList, filterRList_length st t xs]

theorem resolveRefsList_length (self sib : RBMap) : ∀ (xs : List Exp), (resolveRefsList self sib xs).length = xs.length
  | [] => by simp [resolveRefsList]
  | x :: xs => by simp [resolveRefsList, resolveRefsList_length self sib xs]

/-- the static index set of a map call over array literals of length `n` -/
theorem callIndicesR_lit (st : StructTable) (self sib : RBMap) (ins : List Param) (c : Call) (n : Nat)
    (hex : ∃ p ∈ ins, ∃ b, c.binds.find? (fun b => b.param == p.name) = some b ∧ b.split = true)
    (h : ∀ b ∈ c.binds, b.split = true → ∃ es, b.exp = .arr es ∧ es.length = n) :
    callIndicesR st self sib ins c = some (false, (List.range n).map .i) := by
  unfold callIndicesR splitParam
  obtain ⟨p0, hp0, b0, hb0, hs0⟩ := hex
  cases hf : ins.find? (fun p =>
      match c.binds.find? (fun b => b.param == p.name) with
      | some b => b.split
      | none => false) with
  | none =>
    have := List.find?_eq_none.mp hf p0 hp0
    simp [hb0, hs0] at this
  | some p =>
    have hp := List.find?_some hf
    simp only
    cases hb : c.binds.find? (fun b => b.param == p.name) with
    | none => simp [hb] at hp
    | some b =>
      simp only [hb] at hp
      obtain ⟨es, he, hl⟩ := h b (List.mem_of_find?_eq_some hb) hp
      simp only [he, resolveRefs, isMapLit, liftSplitTy, Bool.false_eq_true, if_false, filterR]
      split <;> simp [staticIndices, filterRList_length, resolveRefsList_length, hl]

section calls
variable (st : StructTable) (hst : StructsOk st) (F : Nat) (hF : NarrowFix st F) (ρ : Store)
include hst hF

omit hst hF in
theorem envRel_initT (pins : List Param) (args : J) (cins : RBMap) (h : ArgsRelT st F ρ pins args cins) :
    EnvRel st F ρ FsT ⟨pins, args, []⟩ cins [] := by
  obtain ⟨g, hc, ha, hty⟩ := h
  refine ⟨?_, ?_, ?_⟩
  · intro p
    simp only [Env.selfTy, σexp]
    rw [hc, lookup_map_find]
    cases hf : pins.find? (fun q => q.name == p) with
    | none =>
      refine ⟨by simp [HasTyR_null], fun f _ => ?_⟩
      rw [ha f]
      simp [J.field, lookup_map_find, hf, evalRT]
    | some q =>
      simp only [Option.map_some, Option.getD_some]
      refine ⟨hty q (List.mem_of_find?_eq_some hf), fun f _ => ?_⟩
      rw [ha f]
      simp [J.field, lookup_map_find, hf]
  · intro c
    simp [Env.callTy, Env.callVal, σexp, HasTyR_null, evalRT]
  · intro c
    rfl

omit hst hF in
theorem envRel_stepT (env : Env) (self sib : RBMap) (hrel : EnvRel st F ρ FsT env self sib)
    (id : String) (ty : Ty) (v : J) (rb : RB)
    (hv : ∀ f, v = evalRT st F ρ f ty rb.exp) (hty : HasTyR st ty rb.exp) :
    EnvRel st F ρ FsT { env with calls := env.calls ++ [(id, ty, v)] } self (sib ++ [(id, rb)]) := by
  refine ⟨hrel.hself, ?_, ?_⟩
  · intro c
    have hd := hrel.hdom c
    have hc := hrel.hcall c
    simp only [Env.callTy, Env.callVal, σexp, List.lookup_append] at hc ⊢
    cases h1 : env.calls.lookup c with
    | some x =>
      rw [h1] at hd hc
      cases h2 : sib.lookup c with
      | none => simp [h2] at hd
      | some y =>
        rw [h2] at hc
        simpa using hc
    | none =>
      rw [h1] at hd
      cases h2 : sib.lookup c with
      | some y => simp [h2] at hd
      | none =>
        simp only [Option.none_or, List.lookup_cons, List.lookup_nil]
        cases (c == id) with
        | true => simpa using ⟨hty, fun f => hv f⟩
        | false => simp [HasTyR_null, evalRT]
  · intro c
    have hd := hrel.hdom c
    simp only [List.lookup_append]
    cases h1 : env.calls.lookup c with
    | some x =>
      rw [h1] at hd
      cases h2 : sib.lookup c with
      | none => simp [h2] at hd
      | some y => simp
    | none =>
      rw [h1] at hd
      cases h2 : sib.lookup c with
      | some y => simp [h2] at hd
      | none =>
        simp only [Option.none_or, List.lookup_cons, List.lookup_nil]
        cases (c == id) <;> rfl

def typesOfM (env : Env) : List (String × Ty) := typesOf env

/-- the calls of a pipeline body (plain calls and map calls of stages over array literals) -/
theorem refine_callsT (P : Program) (nm : List String → String) (O : Oracle) (run : Runner)
    (node : String → List String → RBMap → RB × List SNode) (path : List String) (self : RBMap)
    (sT : String → Ty)
    (hrun : ∀ callee path args cins, ArgsRelT st F ρ (P.insOf callee) args cins →
      (∀ n ∈ (node callee path cins).2, StoreAtNode nm O ρ n) →
      GoodT st F ρ callee (run callee path [] args) (node callee path cins))
    (hrunM : ∀ callee path id ix ixs args cins,
      (∃ sins souts, P.callables.lookup callee = some (.stage sins souts)) →
      args = .obj (cins.map fun kv => (kv.1, evalRT st F ρ [(id, ix)] kv.2.ty kv.2.exp)) →
      (∀ n ∈ (node callee path cins).2, StoreAtNode nm O ρ (addFork (id, ixs) n)) →
      GoodFork st F ρ callee id ix (run callee path [(id, ix)] args) (node callee path cins)) :
    ∀ (cs : List Call) (env : Env) (sib : RBMap) (acc : List Inst) (sacc : List SNode),
      EnvRel st F ρ FsT env self sib → env.selfTy = sT → CallsOkM st P sT (typesOf env) cs →
      acc = sacc.flatMap (instsOf st F ρ) →
      (∀ n ∈ (staticCalls st P.insOf node path self cs sib []).2, StoreAtNode nm O ρ n) →
      EnvRel st F ρ FsT (evalCalls st F P.insOf run path [] cs env acc).1 self
          (staticCalls st P.insOf node path self cs sib sacc).1 ∧
      (evalCalls st F P.insOf run path [] cs env acc).1.selfTys = env.selfTys ∧
      typesOf (evalCalls st F P.insOf run path [] cs env acc).1 = typesOf env ++ callTypesM cs ∧
      (evalCalls st F P.insOf run path [] cs env acc).2
        = (staticCalls st P.insOf node path self cs sib sacc).2.flatMap (instsOf st F ρ) := by
  intro cs
  induction cs with
  | nil =>
    intro env sib acc sacc hrel _ _ hacc _
    simp only [evalCalls, staticCalls, callTypesM, List.map_nil, List.append_nil]
    exact ⟨hrel, trivial, trivial, hacc⟩
  | cons c cs ih =>
    intro env sib acc sacc hrel hsT hok hacc hstore
    simp only [CallsOkM] at hok
    obtain ⟨hc, hcs⟩ := hok
    cases hc with
    | inl hplain =>
      obtain ⟨hc, _⟩ := hplain
      have hc' : CallOk st P.insOf env.selfTy env.callTy c := by
        rw [hsT, callTy_typesOf]; exact hc
      have hargs := args_stepT st hst F hF ρ P.insOf env self sib hrel c hc'
      have hm : c.mapped = false := hc.1
      have hsplitL : (staticCalls st P.insOf node path self (c :: cs) sib []).2
          = (node c.callee (path ++ [c.id]) (resolveBinds st self sib (P.insOf c.callee) c)).2 ++
            (staticCalls st P.insOf node path self cs
              (sib ++ [(c.id, (node c.callee (path ++ [c.id]) (resolveBinds st self sib (P.insOf c.callee) c)).1)]) []).2 := by
        simp only [staticCalls, hm, Bool.false_eq_true, if_false]
        rw [staticCalls_acc]
        simp
      have hsub : ∀ n ∈ (node c.callee (path ++ [c.id]) (resolveBinds st self sib (P.insOf c.callee) c)).2,
          StoreAtNode nm O ρ n := fun n hn => hstore n (by rw [hsplitL]; simp [hn])
      have hgood := hrun c.callee (path ++ [c.id]) _ _ hargs hsub
      obtain ⟨g1, g2, g3⟩ := hgood
      simp only [evalCalls, staticCalls, hm, Bool.false_eq_true, if_false]
      rw [evalCall_plain st F P.insOf run path [] env c hc.1 hc.2.1]
      simp only
      have hrel' := envRel_stepT st F ρ env self sib hrel c.id ⟨c.callee, 0, 0⟩ _ _ g1 g2
      have hty : callTyM c = ⟨c.callee, 0, 0⟩ := by simp [callTyM, hm]
      have := ih _ _ (acc ++ (run c.callee (path ++ [c.id]) []
          (mkArgs st F (argVals st env (P.insOf c.callee) c) none)).2)
        (sacc ++ (node c.callee (path ++ [c.id]) (resolveBinds st self sib (P.insOf c.callee) c)).2)
        hrel' hsT (by rw [← hty]; simpa [typesOf] using hcs) (by rw [hacc, g3, List.flatMap_append])
        (fun n hn => hstore n (by rw [hsplitL]; simp [hn]))
      obtain ⟨r1, r2, r3, r4⟩ := this
      refine ⟨r1, r2, ?_, r4⟩
      rw [r3]
      simp [typesOf, callTypesM, hty]
    | inr hmapped =>
      have hmapped' : MappedOk st P env.selfTy env.callTy c := by
        rw [hsT, callTy_typesOf]; exact hmapped
      obtain ⟨hm, hd, hstage, ⟨n, hn, hex, hexp, hsplit⟩, hb⟩ := hmapped'
      have hixs := callIndicesR_lit st self sib (P.insOf c.callee) c n hexp hsplit
      have hunroll : ∀ e, unrolledOutputs c (false, (List.range n).map Idx.i) e
          = ⟨.arr (((List.range n).map Idx.i).map fun ix => .fork c.id ix e), ⟨c.callee, 0, 1⟩⟩ := by
        intro e; simp [unrolledOutputs]
      have hsplitL : (staticCalls st P.insOf node path self (c :: cs) sib []).2
          = (node c.callee (path ++ [c.id]) (resolveBindsM st self sib (P.insOf c.callee) c)).2.map
              (addFork (c.id, (List.range n).map Idx.i)) ++
            (staticCalls st P.insOf node path self cs
              (sib ++ [(c.id, unrolledOutputs c (false, (List.range n).map Idx.i)
                (node c.callee (path ++ [c.id]) (resolveBindsM st self sib (P.insOf c.callee) c)).1.exp)]) []).2 := by
        simp only [staticCalls, hm, if_true, hixs, Option.getD_some]
        rw [staticCalls_acc]
        simp [addFork]
      generalize hr : node c.callee (path ++ [c.id]) (resolveBindsM st self sib (P.insOf c.callee) c) = r
        at hsplitL
      have hsubM : ∀ n0 ∈ r.2, StoreAtNode nm O ρ (addFork (c.id, (List.range n).map Idx.i) n0) :=
        fun n0 hn0 => hstore _ (by rw [hsplitL]; simp; exact Or.inl ⟨n0, hn0, rfl⟩)
      have hfork : ∀ k, GoodFork st F ρ c.callee c.id (.i k)
          (run c.callee (path ++ [c.id]) [(c.id, .i k)]
            (mkArgs st F (argVals st env (P.insOf c.callee) c) (some (.i k)))) r := by
        intro k
        have ha := args_mapped st hst F hF ρ P env self sib hrel c
          ⟨hm, hd, hstage, ⟨n, hn, hex, hexp, hsplit⟩, hb⟩ k [(c.id, .i k)] (by simp)
        have := hrunM c.callee (path ++ [c.id]) c.id (.i k) ((List.range n).map Idx.i) _ _ hstage ha
          (by rw [hr]; exact hsubM)
        rw [hr] at this
        exact this
      simp only [evalCalls, staticCalls, hm, if_true, hixs, Option.getD_some, hr]
      rw [evalCall_mapped st F P.insOf run path env c n hn hm hd hex hsplit, hunroll]
      simp only
      have hty : callTyM c = ⟨c.callee, 0, 1⟩ := by simp [callTyM, hm]
      have hv : ∀ f, J.arr ((List.range n).map fun k =>
            (run c.callee (path ++ [c.id]) [(c.id, .i k)]
              (mkArgs st F (argVals st env (P.insOf c.callee) c) (some (.i k)))).1)
          = evalRT st F ρ f ⟨c.callee, 0, 1⟩
              (.arr (((List.range n).map Idx.i).map fun ix => .fork c.id ix r.1.exp)) := by
        intro f
        simp only [evalRT, Nat.add_sub_cancel, evalRTList_map, List.map_map, J.arr.injEq]
        apply List.map_congr_left
        intro k _
        simp only [Function.comp_apply]
        exact (hfork k).1 (fset f c.id (.i k)) (fset_lookup f c.id (.i k))
      have htyR : HasTyR st ⟨c.callee, 0, 1⟩
          (.arr (((List.range n).map Idx.i).map fun ix => .fork c.id ix r.1.exp)) := by
        simp only [HasTyR]
        refine ⟨by simp, HasTyRList_map st _ _ _ ?_⟩
        intro ix _
        simp only [HasTyR]
        exact (hfork 0).2.1
      have hrel' := envRel_stepT st F ρ env self sib hrel c.id ⟨c.callee, 0, 1⟩ _
        ⟨.arr (((List.range n).map Idx.i).map fun ix => .fork c.id ix r.1.exp), ⟨c.callee, 0, 1⟩⟩ hv htyR
      have hinst : ((List.range n).flatMap fun k =>
            (run c.callee (path ++ [c.id]) [(c.id, .i k)]
              (mkArgs st F (argVals st env (P.insOf c.callee) c) (some (.i k)))).2)
          = (r.2.map fun n0 => ({ n0 with forks := (c.id, (List.range n).map Idx.i) :: n0.forks } : SNode)).flatMap
              (instsOf st F ρ) := by
        have hk : ∀ k, (run c.callee (path ++ [c.id]) [(c.id, .i k)]
              (mkArgs st F (argVals st env (P.insOf c.callee) c) (some (.i k)))).2
            = r.2.map (forkInst st F ρ c.id (.i k)) := fun k => (hfork k).2.2.1
        simp only [hk]
        cases (hfork 0).2.2.2 with
        | inl h0 => simp [h0]
        | inr h0 =>
          obtain ⟨n0, hn0, hf0⟩ := h0
          simp only [hn0, List.map_cons, List.map_nil, List.flatMap_cons, List.flatMap_nil, List.append_nil,
            instsOf, hf0, List.map_map]
          have hfm : ∀ (l : List Nat) (g : Nat → Inst), (l.flatMap fun k => [g k]) = l.map g := by
            intro l g
            induction l with
            | nil => rfl
            | cons a l ihl => simp [ihl]
          rw [hfm]
          apply List.map_congr_left
          intro k _
          rfl
      have := ih _ _ (acc ++ ((List.range n).flatMap fun k =>
            (run c.callee (path ++ [c.id]) [(c.id, .i k)]
              (mkArgs st F (argVals st env (P.insOf c.callee) c) (some (.i k)))).2))
        (sacc ++ r.2.map fun n0 => ({ n0 with forks := (c.id, (List.range n).map Idx.i) :: n0.forks } : SNode))
        hrel' hsT (by rw [← hty]; simpa [typesOf] using hcs) (by rw [hacc, hinst, List.flatMap_append])
        (fun n1 hn1 => hstore n1 (by rw [hsplitL, hunroll]; exact List.mem_append_right _ hn1))
      obtain ⟨r1, r2, r3, r4⟩ := this
      refine ⟨r1, r2, ?_, r4⟩
      rw [r3]
      simp [typesOf, callTypesM, hty]

end calls

/-! ## the call graph -/

section graph
variable (P : Program) (hw : WellTypedM P) (F : Nat) (hF : NarrowFix P.table F)
  (nm : List String → String) (O : Oracle) (ρ : Store)

/-- fork `ix` of a mapped call of a stage -/
theorem refine_stage_fork :
    ∀ (fuel : Nat) (callee : String) (path : List String) (id : String) (ix : Idx) (ixs : List Idx)
      (args : J) (cins : RBMap),
      (∃ sins souts, P.callables.lookup callee = some (.stage sins souts)) →
      args = .obj (cins.map fun kv => (kv.1, evalRT P.table F ρ [(id, ix)] kv.2.ty kv.2.exp)) →
      (∀ n ∈ (staticCallable P nm fuel callee path cins).2, StoreAtNode nm O ρ (addFork (id, ixs) n)) →
      GoodFork P.table F ρ callee id ix (runCallable P O F fuel callee path [(id, ix)] args)
        (staticCallable P nm fuel callee path cins) := by
  intro fuel callee path id ix ixs args cins hstage hargs hstore
  cases fuel with
  | zero =>
    simp only [runCallable, staticCallable, GoodFork, evalRT, List.map_nil]
    exact ⟨fun _ _ => trivial, HasTyR_null _ _, trivial, Or.inl trivial⟩
  | succ fuel =>
    obtain ⟨sins, souts, hl⟩ := hstage
    simp only [runCallable, staticCallable, hl] at hstore ⊢
    have hs := hstore ⟨path, callee, cins, [], []⟩ (by simp)
    refine ⟨?_, ?_, ?_, Or.inr ⟨_, rfl, rfl⟩⟩
    · intro f hf
      simp only [evalRT, projPath]
      have := hs f
      simp only [addFork, List.map_cons, List.map_nil, hf, Option.getD_some] at this
      rw [this]
    · simp only [HasTyR, pathTy]
      exact Sub.refl _
    · simp [forkInst, runtimeArgs, hargs]

include hw hF in
theorem refine_callableT :
    ∀ (fuel : Nat) (callee : String) (path : List String) (args : J) (cins : RBMap),
      ArgsRelT P.table F ρ (P.insOf callee) args cins →
      (∀ n ∈ (staticCallable P nm fuel callee path cins).2, StoreAtNode nm O ρ n) →
      GoodT P.table F ρ callee (runCallable P O F fuel callee path [] args)
        (staticCallable P nm fuel callee path cins) := by
  intro fuel
  induction fuel with
  | zero =>
    intro callee path args cins _ _
    simp only [runCallable, staticCallable, GoodT, evalRT, List.flatMap_nil]
    exact ⟨fun _ => trivial, HasTyR_null _ _, trivial⟩
  | succ fuel ih =>
    intro callee path args cins hargs hstore
    simp only [runCallable, staticCallable] at hstore ⊢
    cases hl : P.callables.lookup callee with
    | none =>
      simp only [GoodT, evalRT, List.flatMap_nil]
      exact ⟨fun _ => trivial, HasTyR_null _ _, trivial⟩
    | some cb =>
      cases cb with
      | stage sins souts =>
        simp only [hl] at hstore
        have hs := hstore ⟨path, callee, cins, [], []⟩ (by simp)
        refine ⟨?_, ?_, ?_⟩
        · intro f
          simp only [evalRT, projPath]
          have := hs f
          simp only [List.map_nil] at this
          rw [this]
        · simp only [HasTyR, pathTy]
          exact Sub.refl _
        · obtain ⟨g, hc, ha, _⟩ := hargs
          simp only [List.flatMap_cons, List.flatMap_nil, List.append_nil, instsOf, toInst, runtimeArgs,
            hc, ha [], List.map_map, List.cons.injEq, and_true]
          rfl
      | pipeline pins outs calls ret =>
        simp only [hl] at hstore
        have hins : P.insOf callee = pins := by simp [Program.insOf, hl, Callable.ins]
        rw [hins] at hargs
        obtain ⟨hcalls, hret⟩ := hw.pipelines callee pins outs calls ret hl
        have htab := hw.outsOf callee _ hl
        simp only [Callable.outs] at htab
        have hn := hw.structs _ _ htab
        have hinit := envRel_initT P.table F ρ pins args cins hargs
        have hcs := refine_callsT P.table hw.structs F hF ρ P nm O (runCallable P O F fuel)
          (staticCallable P nm fuel) path cins (selfTyOf pins) ih
          (fun callee path id ix ixs args cins => refine_stage_fork P F nm O ρ fuel callee path id ix ixs args cins)
          calls ⟨pins, args, []⟩ [] [] [] hinit rfl (by simpa [typesOf] using hcalls) rfl hstore
        obtain ⟨hrel, hself, htypes, hinst⟩ := hcs
        simp only
        generalize evalCalls P.table F P.insOf (runCallable P O F fuel) path [] calls ⟨pins, args, []⟩ [] = R
          at hrel hself htypes hinst
        generalize staticCalls P.table P.insOf (staticCallable P nm fuel) path cins calls [] [] = S
          at hrel hinst
        have hsT : R.1.selfTy = selfTyOf pins := by rw [selfTy_eq, hself]
        have hcT : R.1.callTy = callTyOf (callTypesM calls) := by
          rw [callTy_typesOf, htypes]; simp [typesOf]
        have key : ∀ p ∈ outs,
            (∀ f, narrow P.table F p.ty (match ret.lookup p.name with
              | some e => eval P.table R.1 e
              | none => .null)
              = evalRT P.table F ρ f p.ty (match ret.lookup p.name with
                | some e => filterR P.table p.ty (resolveRefs cins S.1 e)
                | none => .lit .null)) ∧
            HasTyR P.table p.ty (match ret.lookup p.name with
                | some e => filterR P.table p.ty (resolveRefs cins S.1 e)
                | none => .lit .null) := by
          intro p hp
          cases he : ret.lookup p.name with
          | none => exact ⟨fun f => by simp [narrow_null hF, evalRT], HasTyR_null _ _⟩
          | some e =>
            have hty := hret p hp e he
            rw [← hsT, ← hcT] at hty
            exact ⟨fun f => (eval_resolveExp P.table hw.structs F hF ρ FsT R.1 cins S.1 hrel f trivial e p.ty hty).1,
              (eval_resolveExp P.table hw.structs F hF ρ FsT R.1 cins S.1 hrel [] trivial e p.ty hty).2⟩
        have c2 : ((0 : Nat) == 0 && (0 : Nat) != 0) = false := by decide
        refine ⟨?_, ?_, hinst⟩
        · intro f
          simp only [evalRT, c2, Bool.false_eq_true, if_false, htab, J.obj.injEq]
          apply List.map_congr_left
          intro p hp
          simp only [Prod.mk.injEq, true_and]
          rw [lookup_evalRTMembers, lookup_map_find, find_name_of_nodup outs hn p hp,
            memberTy_find outs p.name p (find_name_of_nodup outs hn p hp)]
          exact (key p hp).1 f
        · simp only [HasTyR]
          refine ⟨trivial, trivial, outs, htab, ?_, ?_⟩
          · apply HasTyRMembers_of_mem
            intro k e hke _
            simp only [List.mem_map, Prod.mk.injEq] at hke
            obtain ⟨p, hp, hk, he⟩ := hke
            subst hk; subst he
            rw [memberTy_find outs p.name p (find_name_of_nodup outs hn p hp)]
            exact (key p hp).2
          · intro p hp
            rw [lookup_map_find, find_name_of_nodup outs hn p hp]
            rfl

include hw hF in
/-- THE REFINEMENT with statically sized map calls of stages -/
theorem twoPhaseM_eq_den_F (hstore : ∀ n ∈ (staticProgram P nm).2, StoreAtNode nm O ρ n) :
    runCallable P O F P.fuel P.top.callee [P.top.id] []
        (mkArgs P.table F (argVals P.table ⟨[], .null, []⟩ (P.insOf P.top.callee) P.top) none)
      = ((evalRT P.table F ρ [] ⟨P.top.callee, 0, 0⟩ (staticProgram P nm).1.exp),
         (staticProgram P nm).2.flatMap (instsOf P.table F ρ)) := by
  have henv : EnvRel P.table F ρ FsT ⟨[], .null, []⟩ [] [] := by
    refine ⟨?_, ?_, ?_⟩
    · intro p; simp [Env.selfTy, σexp, HasTyR_null, evalRT, J.field]
    · intro c; simp [Env.callTy, Env.callVal, σexp, HasTyR_null, evalRT]
    · intro c; rfl
  have htop : CallOk P.table P.insOf (Env.selfTy ⟨[], .null, []⟩) (Env.callTy ⟨[], .null, []⟩) P.top := by
    rw [selfTy_eq, callTy_typesOf]
    exact hw.top.1
  have hargs := args_stepT P.table hw.structs F hF ρ P.insOf ⟨[], .null, []⟩ [] [] henv P.top htop
  have := refine_callableT P hw F hF nm O ρ P.fuel P.top.callee [P.top.id] _ _ hargs hstore
  obtain ⟨g1, g2, g3⟩ := this
  exact Prod.ext (g1 []) g3

end graph

end Proofs.ResolverStatic
