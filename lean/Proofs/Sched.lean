import Martian.Sched

/-! Lemmas about the `Sched` transition system: map algebra, how each event
changes the accessors, the per-object invariant and the global invariant. -/
namespace Martian.Sched

/-! ### association maps -/

theorem aget_aset {κ α} [DecidableEq κ] (d : α) (m : List (κ × α)) (k k' : κ) (v : α) :
    aget d (aset m k v) k' = if k = k' then v else aget d m k' := by
  induction m with
  | nil => simp [aset, aget]
  | cons p r ih =>
    obtain ⟨a, b⟩ := p
    by_cases h : a = k
    · subst h
      by_cases h2 : a = k' <;> simp [aset, aget, h2]
    · by_cases h2 : a = k'
      · subst h2
        have : ¬ k = a := fun e => h e.symm
        simp [aset, aget, h, this]
      · simp [aset, aget, h, h2, ih]

theorem aget_amap {κ α} [DecidableEq κ] (d : α) (f : α → α) (hf : f d = d)
    (m : List (κ × α)) (k : κ) : aget d (amap f m) k = f (aget d m k) := by
  induction m with
  | nil => simp [amap, aget, hf]
  | cons p r ih =>
    obtain ⟨a, b⟩ := p
    by_cases h : a = k
    · simp [amap, aget, h]
    · simp only [amap, List.map_cons, aget, h, if_false]
      exact ih

/-! ### sentinel sets -/

theorem has_add (s : SSet) (x y : Sentinel) : (s.add x).has y = (decide (x = y) || s.has y) := by
  cases x <;> cases y <;> simp [SSet.add, SSet.has]

theorem has_del (s : SSet) (x y : Sentinel) : (s.del x).has y = (!decide (x = y) && s.has y) := by
  cases x <;> cases y <;> simp [SSet.del, SSet.has]

@[simp] theorem has_empty (y : Sentinel) : ({} : SSet).has y = false := by cases y <;> rfl

/-- `_getStateNoLock` in terms of membership -/
theorem metaState_eq (x : SSet) : metaState x =
    if x.has .errors then some .failed
    else if x.has .assert then some .failed
    else if x.has .complete then some .complete
    else if x.has .disabled then some .disabled
    else if x.has .log then some .running
    else if x.has .jobinfo then some .queued
    else none := rfl

theorem metaState_none {x : SSet} (h : metaState x = none) :
    x.has .errors = false ∧ x.has .assert = false ∧ x.has .complete = false ∧
    x.has .disabled = false ∧ x.has .log = false ∧ x.has .jobinfo = false := by
  rw [metaState_eq] at h
  cases h1 : x.has .errors <;> cases h2 : x.has .assert <;> cases h3 : x.has .complete <;>
    cases h4 : x.has .disabled <;> cases h5 : x.has .log <;> cases h6 : x.has .jobinfo <;> simp_all

theorem metaState_complete {x : SSet} (h : metaState x = some .complete) :
    x.has .errors = false ∧ x.has .assert = false ∧ x.has .complete = true := by
  rw [metaState_eq] at h
  cases h1 : x.has .errors <;> cases h2 : x.has .assert <;> cases h3 : x.has .complete <;>
    cases h4 : x.has .disabled <;> cases h5 : x.has .log <;> cases h6 : x.has .jobinfo <;> simp_all

theorem metaState_failed {x : SSet} : metaState x = some .failed ↔
    (x.has .errors = true ∨ x.has .assert = true) := by
  rw [metaState_eq]
  cases h1 : x.has .errors <;> cases h2 : x.has .assert <;> cases h3 : x.has .complete <;>
    cases h4 : x.has .disabled <;> cases h5 : x.has .log <;> cases h6 : x.has .jobinfo <;> simp_all

/-! ### the per-object invariant -/

/-- objects that are run as jobs: every chunk; split and join of a splitting stage -/
def jobObj (k : Kind) : Role → Bool
  | .chunk _ => true
  | .split => k == .splitstage
  | .join => k == .splitstage
  | .fork => false

/-- Invariant of one metadata object.
* the cache is a subset of the directory;
* a fork's own directory is written by mrp only: cache = directory;
* `_jobinfo` on disk is known to mrp;
* a job object has `_log`/`_complete`/`_assert` only if it was submitted (`_jobinfo`);
* `_queued_locally` only in a submitted job object (the job manager removes it when the process has
  started — a separate step, `U`: the job may even have finished meanwhile). -/
structure ObjInv (k : Kind) (r : Role) (m : Meta) : Prop where
  sub : ∀ y, m.seen.has y = true → m.disk.has y = true
  forkEq : r = .fork → ∀ y, m.disk.has y = true → m.seen.has y = true
  ji : m.disk.has .jobinfo = true → m.seen.has .jobinfo = true
  kk : jobObj k r = true →
    (m.disk.has .log = true ∨ m.disk.has .complete = true ∨ m.disk.has .assert = true) →
    m.disk.has .jobinfo = true
  jj : jobObj k r = true → m.disk.has .queuedLocally = true → m.disk.has .jobinfo = true

theorem objInv_empty (k r) : ObjInv k r {} := by
  constructor <;> simp

theorem objInv_see {k r m x} (h : ObjInv k r m) (hx : m.disk.has x = true) :
    ObjInv k r (see x m) := by
  obtain ⟨h1, h2, h3, h4, h5⟩ := h
  refine ⟨?_, ?_, ?_, h4, h5⟩
  · intro y; simp only [see, has_add, Bool.or_eq_true, decide_eq_true_eq]
    rintro (rfl | hy); exact hx; exact h1 y hy
  · intro hr y hy; simp only [see, has_add, Bool.or_eq_true]; right; exact h2 hr y hy
  · intro hj; simp only [see, has_add, Bool.or_eq_true]; right; exact h3 hj


/-- mrp finds (poll) or re-states something already on disk -/
theorem objInv_put_disk {k r m x} (h : ObjInv k r m) (hx : m.disk.has x = true) :
    ObjInv k r (put x m) := by
  obtain ⟨h1, h2, h3, h4, h5⟩ := h
  constructor <;> simp only [put, has_add] <;> grind

theorem objInv_put_errors {k r m} (h : ObjInv k r m) : ObjInv k r (put .errors m) := by
  obtain ⟨h1, h2, h3, h4, h5⟩ := h
  constructor <;> simp only [put, has_add] <;> grind

/-- stubs / fork-level sentinels: never on a job object -/
theorem objInv_put_nonjob {k r m x} (h : ObjInv k r m) (hj : jobObj k r = false)
    (hx : x ≠ .jobinfo) : ObjInv k r (put x m) := by
  obtain ⟨h1, h2, h3, h4, h5⟩ := h
  constructor <;> simp only [put, has_add] <;> grind

theorem objInv_unq {k r m} (h : ObjInv k r m) : ObjInv k r (unq m) := by
  obtain ⟨h1, h2, h3, h4, h5⟩ := h
  constructor <;> simp only [unq, has_del] <;> grind

theorem objInv_joblog {k r m} (h : ObjInv k r m) (hr : r.isJob = true)
    (hj : m.disk.has .jobinfo = true) : ObjInv k r (toDisk .log m) := by
  obtain ⟨h1, h2, h3, h4, h5⟩ := h
  have hr' : r ≠ .fork := by intro e; subst e; simp [Role.isJob] at hr
  constructor <;> simp only [toDisk, has_add] <;> grind

theorem objInv_jobend {k r m x} (h : ObjInv k r m) (hr : r.isJob = true)
    (hj : m.disk.has .jobinfo = true) (hl : m.disk.has .log = true)
    (hx : x = .complete ∨ x = .errors ∨ x = .assert) : ObjInv k r (toDisk x m) := by
  obtain ⟨h1, h2, h3, h4, h5⟩ := h
  have hr' : r ≠ .fork := by intro e; subst e; simp [Role.isJob] at hr
  constructor <;> simp only [toDisk, has_add] <;> grind

theorem objInv_launch {k r m} (h : ObjInv k r m) (hr : r.isJob = true)
    (hj : jobObj k r = true) (hs : metaState m.seen = none) :
    ObjInv k r (put .queuedLocally (put .jobinfo m)) := by
  obtain ⟨h1, h2, h3, h4, h5⟩ := h
  obtain ⟨s1, s2, s3, s4, s5, s6⟩ := metaState_none hs
  have hr' : r ≠ .fork := by intro e; subst e; simp [Role.isJob] at hr
  constructor <;> simp only [put, has_add] <;> grind

theorem objInv_reload {k r m} (h : ObjInv k r m) : ObjInv k r (reload m) := by
  obtain ⟨h1, h2, h3, h4, h5⟩ := h
  constructor <;> simp only [reload] <;> grind


/-! ### how events change the accessors -/

@[simp] theorem apply_nodes (s : State) (e : Ev) : (apply s e).nodes = s.nodes := by
  cases e <;> rfl

@[simp] theorem apply_kind (s : State) (e : Ev) (n : Nat) : (apply s e).kind n = s.kind n := by
  simp [State.kind]

@[simp] theorem apply_pre (s : State) (e : Ev) (n : Nat) : (apply s e).pre n = s.pre n := by
  simp [State.pre]

theorem updMeta_m (s : State) (o o' : Obj) (f : Meta → Meta) :
    (s.updMeta o f).m o' = if o = o' then f (s.m o) else s.m o' := by
  simp [State.updMeta, State.m, aget_aset]

/-- the effect of an event on the metadata of object `o'` -/
theorem apply_m (s : State) (e : Ev) (o' : Obj) : (apply s e).m o' =
    match e with
    | .W o x => if o = o' then put x (s.m o) else s.m o'
    | .R o x => if o = o' then see x (s.m o) else s.m o'
    | .D o x => if o = o' then see x (s.m o) else s.m o'
    | .U o _ => if o = o' then unq (s.m o) else s.m o'
    | .launch o => if o = o' then put .queuedLocally (put .jobinfo (s.m o)) else s.m o'
    | .joblog o => if o = o' then toDisk .log (s.m o) else s.m o'
    | .jobend o x => if o = o' then toDisk x (s.m o) else s.m o'
    | .silentfail o => if o = o' then put .errors (s.m o) else s.m o'
    | .reset o => if o = o' then {} else s.m o'
    | .restart => reload (s.m o')
    | _ => s.m o' := by
  cases e <;> simp [apply, State.updMeta, State.m, aget_aset]
  case restart => exact aget_amap _ _ rfl _ _

/-! ### what `enabled` gives, event by event -/

theorem en_W {s : State} {o x} (h : enabled s (.W o x) = true) :
    s.phase ≠ .crashed ∧ s.hasObj o = true ∧ ((s.m o).disk.has x = true ∨ mrpWriteOk s o x = true) := by
  simpa [enabled, guards, and_assoc] using h

theorem en_R {s : State} {o x} (h : enabled s (.R o x) = true) :
    s.phase ≠ .crashed ∧ s.hasObj o = true ∧ (s.m o).disk.has x = true := by
  simpa [enabled, guards, and_assoc] using h

theorem en_D {s : State} {o x} (h : enabled s (.D o x) = true) :
    s.phase ≠ .crashed ∧ s.hasObj o = true ∧ (s.m o).disk.has x = true := by
  simpa [enabled, guards, and_assoc] using h

theorem en_launch {s : State} {o} (h : enabled s (.launch o) = true) : launchOk s o = true := by
  simpa [enabled, guards] using h

theorem en_joblog' {s : State} {o} (h : enabled s (.joblog o) = true) :
    o.r.isJob = true ∧ (s.m o).disk.has .jobinfo = true ∧ o ∈ s.alive := by
  simpa [enabled, guards, SSet.has, and_assoc] using h

theorem en_joblog {s : State} {o} (h : enabled s (.joblog o) = true) :
    o.r.isJob = true ∧ (s.m o).disk.has .jobinfo = true :=
  ⟨(en_joblog' h).1, (en_joblog' h).2.1⟩

theorem en_jobend' {s : State} {o x} (h : enabled s (.jobend o x) = true) :
    o.r.isJob = true ∧ (x = .complete ∨ x = .errors ∨ x = .assert) ∧
    (s.m o).disk.has .jobinfo = true ∧ (s.m o).disk.has .log = true ∧
    (s.m o).disk.has .complete = false ∧ (s.m o).disk.has .assert = false ∧ o ∈ s.alive := by
  simpa [enabled, guards, SSet.has, and_assoc, or_assoc] using h

theorem en_jobend {s : State} {o x} (h : enabled s (.jobend o x) = true) :
    o.r.isJob = true ∧ (x = .complete ∨ x = .errors ∨ x = .assert) ∧
    (s.m o).disk.has .jobinfo = true ∧ (s.m o).disk.has .log = true ∧
    (s.m o).disk.has .complete = false ∧ (s.m o).disk.has .assert = false := by
  obtain ⟨a, b, c, d, e, f, _⟩ := en_jobend' h
  exact ⟨a, b, c, d, e, f⟩

theorem en_silentfail' {s : State} {o} (h : enabled s (.silentfail o) = true) :
    s.phase ≠ .crashed ∧ o.r.isJob = true ∧ (s.m o).disk.has .jobinfo = true ∧ o ∈ s.alive := by
  simpa [enabled, guards, SSet.has, and_assoc] using h

theorem en_silentfail {s : State} {o} (h : enabled s (.silentfail o) = true) :
    s.phase ≠ .crashed ∧ o.r.isJob = true ∧ (s.m o).disk.has .jobinfo = true := by
  obtain ⟨a, b, c, _⟩ := en_silentfail' h
  exact ⟨a, b, c⟩

theorem en_reset {s : State} {o} (h : enabled s (.reset o) = true) : resetOk s o = true := by
  simpa [enabled, guards] using h


theorem en_U {s : State} {o x} (h : enabled s (.U o x) = true) : x = .queuedLocally := by
  simpa [enabled, guards] using h

theorem en_fork {s : State} {n f} (h : enabled s (.fork n f) = true) :
    s.phase ≠ .crashed ∧ n < s.nodes.length ∧ (s.forksOf n).contains f = false ∧
    (s.phase = .normal → nodeDone s n = false ∧ s.cachedOf n ≠ .running) := by
  simp [enabled, guards] at h
  obtain ⟨a, b, c, d⟩ := h
  refine ⟨a, b, by simpa using c, fun hp => ?_⟩
  rcases d with d | d
  · exact absurd hp d
  · exact d

theorem en_forkorder' {s : State} {n l} (h : enabled s (.forkorder n l) = true) :
    s.phase = .loading ∧ isSubNodup l (s.forksOf n) = true ∧
    ∀ f ∈ s.forksOf n, f ∈ l ∨ forkEmpty s n f = true := by
  simpa [enabled, guards, and_assoc] using h

theorem en_forkorder {s : State} {n l} (h : enabled s (.forkorder n l) = true) :
    s.phase = .loading ∧ isSubNodup l (s.forksOf n) = true :=
  ⟨(en_forkorder' h).1, (en_forkorder' h).2.1⟩

theorem en_nodestate {s : State} {n st} (h : enabled s (.nodestate n st) = true) :
    s.phase ≠ .crashed ∧ n < s.nodes.length ∧ st = nodeState s n := by
  simpa [enabled, guards, and_assoc] using h

theorem en_refresh {s : State} (h : enabled s .refresh = true) :
    s.phase ≠ .crashed ∧ (s.phase = .loading → allFresh s = true) := by
  simp [enabled, guards] at h
  refine ⟨h.1, fun hp => ?_⟩
  rcases h.2 with d | d
  · exact absurd hp d
  · exact d

theorem en_restart {s : State} (h : enabled s .restart = true) : s.phase = .crashed := by
  simpa [enabled, guards] using h

theorem en_crash {s : State} (h : enabled s .crash = true) : s.phase ≠ .crashed := by
  simpa [enabled, guards] using h

/-! ### the per-object invariant holds in every reachable state -/

def ObjsInv (s : State) : Prop := ∀ o : Obj, ObjInv (s.kind o.n) o.r (s.m o)

theorem forkState_ready_split {s : State} {n f : Nat} (h : forkState s n f = .ready) :
    s.st ⟨n, f, .split⟩ = none := by
  unfold forkState forkStateOf at h
  split at h <;> try contradiction
  split at h <;> try contradiction
  split at h <;> try contradiction
  split at h <;> first | contradiction | assumption


theorem mrpWrite_objInv {s : State} {o : Obj} {x : Sentinel}
    (h : ObjInv (s.kind o.n) o.r (s.m o)) (hw : mrpWriteOk s o x = true) :
    ObjInv (s.kind o.n) o.r (put x (s.m o)) := by
  unfold mrpWriteOk at hw
  cases x <;> cases hr : o.r <;> simp only [hr] at hw h ⊢ <;>
    first
    | exact objInv_put_errors h
    | (simp at hw; done)
    | (apply objInv_put_nonjob h _ (by simp)
       simp only [Bool.and_eq_true, beq_iff_eq] at hw
       simp [jobObj, hw.1.1.2]; done)
    | (apply objInv_put_nonjob h _ (by simp)
       simp only [Bool.and_eq_true, beq_iff_eq] at hw
       simp [jobObj, hw.1.1.1.1.1.2]; done)
    | (apply objInv_put_nonjob h _ (by simp); simp [jobObj]; done)

theorem launchOk_facts {s : State} {o : Obj} (h : launchOk s o = true) :
    o.r.isJob = true ∧ jobObj (s.kind o.n) o.r = true ∧ s.st o = none := by
  unfold launchOk at h
  cases hr : o.r <;> simp only [hr, Bool.and_eq_true] at h
  · obtain ⟨_, hk, hf⟩ := h
    have := forkState_ready_split (of_decide_eq_true (by simpa using hf))
    refine ⟨rfl, by simpa [jobObj] using hk, ?_⟩
    have e : o = ⟨o.n, o.f, .split⟩ := by cases o; simp_all
    rw [e]; exact this
  · obtain ⟨_, ⟨⟨_, h2⟩, _⟩, _⟩ := h
    exact ⟨rfl, rfl, by simpa using h2⟩
  · obtain ⟨_, ⟨hk, h2⟩, _⟩ := h
    exact ⟨rfl, by simpa [jobObj] using hk, by simpa using h2⟩
  · simp at h

theorem objsInv_step {s : State} {e : Ev} (hen : enabled s e = true) (h : ObjsInv s) :
    ObjsInv (apply s e) := by
  intro o'
  rw [apply_kind, apply_m]
  cases e <;> simp only [] <;> try exact h o'
  case W o x =>
    split
    · rename_i heq; subst heq
      rcases (en_W hen).2.2 with hd | hw
      · exact objInv_put_disk (h o) hd
      · exact mrpWrite_objInv (h o) hw
    · exact h o'
  case R o x =>
    split
    · rename_i heq; subst heq; exact objInv_see (h o) (en_R hen).2.2
    · exact h o'
  case D o x =>
    split
    · rename_i heq; subst heq; exact objInv_see (h o) (en_D hen).2.2
    · exact h o'
  case U o x =>
    split
    · rename_i heq; subst heq; exact objInv_unq (h o)
    · exact h o'
  case launch o =>
    split
    · rename_i heq; subst heq
      obtain ⟨a, b, c⟩ := launchOk_facts (en_launch hen)
      exact objInv_launch (h o) a b c
    · exact h o'
  case joblog o =>
    split
    · rename_i heq; subst heq
      exact objInv_joblog (h o) (en_joblog hen).1 (en_joblog hen).2
    · exact h o'
  case jobend o x =>
    split
    · rename_i heq; subst heq
      obtain ⟨a, b, c, d, _⟩ := en_jobend hen
      exact objInv_jobend (h o) a c d b
    · exact h o'
  case silentfail o =>
    split
    · rename_i heq; subst heq; exact objInv_put_errors (h o)
    · exact h o'
  case reset o =>
    split
    · exact objInv_empty _ _
    · exact h o'
  case restart => exact objInv_reload (h o')

theorem objsInv_init (g : List NodeInfo) : ObjsInv (init g) := by
  intro o; exact objInv_empty _ _

theorem reach_objsInv {g : List NodeInfo} {s : State} (h : Reach g s) : ObjsInv s := by
  induction h with
  | init => exact objsInv_init g
  | step _ hen ih => exact objsInv_step hen ih


/-! ### monotonicity: sentinels other than `_queued_locally` only disappear by `reset` -/

theorem seen_mono {s : State} {e : Ev} {o : Obj} {y : Sentinel} (hinv : ObjsInv s)
    (hne : e ≠ .reset o) (hy : y ≠ .queuedLocally)
    (h : (s.m o).seen.has y = true) : ((apply s e).m o).seen.has y = true := by
  have hy' : Sentinel.queuedLocally ≠ y := fun e => hy e.symm
  rw [apply_m]
  cases e <;> simp only [] <;> try exact h
  all_goals first
    | (split
       · rename_i heq; subst heq
         first
           | (simp only [put, see, unq, toDisk, has_add, has_del]; simp [h, hy']; done)
           | (exfalso; exact hne rfl)
       · exact h)
    | exact (hinv o).sub y h

theorem disk_mono {s : State} {e : Ev} {o : Obj} {y : Sentinel}
    (hne : e ≠ .reset o) (hy : y ≠ .queuedLocally)
    (h : (s.m o).disk.has y = true) : ((apply s e).m o).disk.has y = true := by
  have hy' : Sentinel.queuedLocally ≠ y := fun e => hy e.symm
  rw [apply_m]
  cases e <;> simp only [] <;> try exact h
  all_goals first
    | (split
       · rename_i heq; subst heq
         first
           | (simp only [put, see, unq, toDisk, has_add, has_del]; simp [h, hy']; done)
           | (exfalso; exact hne rfl)
       · exact h)
    | exact h

/-- the only ways a `_complete` file comes into existence -/
theorem complete_origin {s : State} {e : Ev} {o : Obj} (hen : enabled s e = true)
    (h0 : (s.m o).disk.has .complete = false)
    (h1 : ((apply s e).m o).disk.has .complete = true) :
    e = .jobend o .complete ∨ (e = .W o .complete ∧ mrpWriteOk s o .complete = true) := by
  rw [apply_m] at h1
  cases e <;> simp only [] at h1 <;> try (simp [h0] at h1; done)
  case W o' x =>
    split at h1
    · rename_i heq; subst heq
      simp only [put, has_add, h0, Bool.or_false, decide_eq_true_eq] at h1
      subst h1
      rcases (en_W hen).2.2 with hd | hw
      · simp [h0] at hd
      · exact Or.inr ⟨rfl, hw⟩
    · simp [h0] at h1
  case R o' x => split at h1 <;> simp_all [see]
  case D o' x => split at h1 <;> simp_all [see]
  case U o' x => split at h1 <;> simp_all [unq, has_del]
  case launch o' => split at h1 <;> simp_all [put, has_add]
  case joblog o' => split at h1 <;> simp_all [toDisk, unq, has_add, has_del]
  case jobend o' x =>
    split at h1
    · rename_i heq; subst heq
      simp only [toDisk, has_add, h0, Bool.or_false, decide_eq_true_eq] at h1
      subst h1; exact Or.inl rfl
    · simp [h0] at h1
  case silentfail o' => split at h1 <;> simp_all [put, has_add]
  case reset o' => split at h1 <;> simp_all
  case restart => simp_all [reload]

theorem allChunksComplete_iff {s : State} {n f : Nat} :
    allChunksComplete s n f = true ↔
      ∀ i, i < s.nch n f → s.st ⟨n, f, .chunk i⟩ = some .complete := by
  simp [allChunksComplete, chunkStates, chunkState, List.all_eq_true]


/-! ### the submission history -/

theorem apply_launches (s : State) (e : Ev) : (apply s e).launches =
    match e with
    | .launch o => (o, s.inc) :: s.launches
    | _ => s.launches := by cases e <;> rfl

theorem apply_resets (s : State) (e : Ev) : (apply s e).resets =
    match e with
    | .reset o => (o, s.inc) :: s.resets
    | _ => s.resets := by cases e <;> rfl

theorem apply_inc (s : State) (e : Ev) : (apply s e).inc =
    match e with
    | .restart => s.inc + 1
    | _ => s.inc := by cases e <;> rfl

theorem apply_phase (s : State) (e : Ev) : (apply s e).phase =
    match e with
    | .restart => .loading
    | .crash => .crashed
    | .refresh => .normal
    | _ => s.phase := by cases e <;> rfl

/-- Invariant of the ghost history of submissions and resets. -/
structure LaunchInv (s : State) : Prop where
  le : ∀ o i, (o, i) ∈ s.launches → i ≤ s.inc
  ltLoading : s.phase = .loading → ∀ o i, (o, i) ∈ s.launches → i < s.inc
  nodup : s.launches.Nodup
  alive : ∀ o i, (o, i) ∈ s.launches →
    (s.m o).disk.has .jobinfo = true ∨ ∃ k, i < k ∧ k ≤ s.inc ∧ (o, k) ∈ s.resets
  relaunch : ∀ o i j, (o, i) ∈ s.launches → (o, j) ∈ s.launches → i < j →
    ∃ k, i < k ∧ k ≤ j ∧ (o, k) ∈ s.resets

theorem launchInv_frame {s s' : State} (h : LaunchInv s) (hl : s'.launches = s.launches)
    (hr : s'.resets = s.resets) (hi : s'.inc = s.inc)
    (hp : s'.phase = .loading → s.phase = .loading)
    (hd : ∀ o, (s.m o).disk.has .jobinfo = true → (s'.m o).disk.has .jobinfo = true) :
    LaunchInv s' := by
  obtain ⟨h1, h2, h3, h4, h5⟩ := h
  refine ⟨?_, ?_, ?_, ?_, ?_⟩
  · rw [hl, hi]; exact h1
  · intro hp'; rw [hl, hi]; exact h2 (hp hp')
  · rw [hl]; exact h3
  · intro o i hm; rw [hl] at hm; rw [hr, hi]
    rcases h4 o i hm with a | a
    · exact Or.inl (hd o a)
    · exact Or.inr a
  · rw [hl, hr]; exact h5

theorem launchInv_step {s : State} {e : Ev} (hen : enabled s e = true) (hinv : ObjsInv s)
    (h : LaunchInv s) : LaunchInv (apply s e) := by
  have hdm : ∀ o', e ≠ .reset o' → (s.m o').disk.has .jobinfo = true →
      ((apply s e).m o').disk.has .jobinfo = true :=
    fun o' hne => disk_mono hne (by simp)
  cases e
  case launch o =>
    obtain ⟨h1, h2, h3, h4, h5⟩ := h
    have hl := en_launch hen
    have hph : s.phase = .normal := by
      unfold launchOk at hl; simp only [Bool.and_eq_true, beq_iff_eq] at hl; exact hl.1.1.1.1.1
    have hnew : (o, s.inc) ∉ s.launches := by
      unfold launchOk at hl; simp only [Bool.and_eq_true] at hl
      have := hl.1.1.2; simpa using this
    have hst : s.st o = none := (launchOk_facts hl).2.2
    have hji : (s.m o).disk.has .jobinfo = false := by
      have := (metaState_none hst).2.2.2.2.2
      cases hd : (s.m o).disk.has .jobinfo
      · rfl
      · have := (hinv o).ji hd; simp_all
    have hnewji : ((apply s (.launch o)).m o).disk.has .jobinfo = true := by
      rw [apply_m]; simp [put, has_add]
    refine ⟨?_, ?_, ?_, ?_, ?_⟩
    · intro o' i hm
      simp only [apply_launches, apply_inc, List.mem_cons, Prod.mk.injEq] at hm ⊢
      rcases hm with ⟨_, rfl⟩ | hm
      · exact Nat.le_refl _
      · exact h1 o' i hm
    · intro hp; simp [apply_phase, hph] at hp
    · simp only [apply_launches]; exact List.nodup_cons.mpr ⟨hnew, h3⟩
    · intro o' i hm
      simp only [apply_launches, apply_inc, apply_resets, List.mem_cons, Prod.mk.injEq] at hm ⊢
      rcases hm with ⟨rfl, rfl⟩ | hm
      · exact Or.inl hnewji
      · rcases h4 o' i hm with a | a
        · exact Or.inl (hdm o' (by simp) a)
        · exact Or.inr a
    · intro o' i j hi hj hlt
      simp only [apply_launches, apply_resets, List.mem_cons, Prod.mk.injEq] at hi hj ⊢
      rcases hi with ⟨ho1, hi1⟩ | hi <;> rcases hj with ⟨ho2, hj1⟩ | hj
      · omega
      · subst ho1 hi1; exact absurd (h1 _ _ hj) (Nat.not_le_of_gt hlt)
      · subst ho2 hj1
        rcases h4 _ _ hi with a | a
        · rw [hji] at a; cases a
        · exact a
      · exact h5 o' i j hi hj hlt
  case reset o =>
    obtain ⟨h1, h2, h3, h4, h5⟩ := h
    have hr := en_reset hen
    have hph : s.phase = .loading := by
      unfold resetOk at hr; simp only [Bool.and_eq_true, beq_iff_eq] at hr; exact hr.1
    refine ⟨?_, ?_, ?_, ?_, ?_⟩
    · simpa [apply_launches, apply_inc] using h1
    · intro _; simpa [apply_launches, apply_inc] using h2 hph
    · simpa [apply_launches] using h3
    · intro o' i hm
      simp only [apply_launches, apply_inc, apply_resets, List.mem_cons, Prod.mk.injEq] at hm ⊢
      by_cases ho : o' = o
      · subst ho
        exact Or.inr ⟨s.inc, h2 hph _ _ hm, Nat.le_refl _, Or.inl ⟨rfl, rfl⟩⟩
      · rcases h4 o' i hm with a | ⟨k, a, b, c⟩
        · exact Or.inl (hdm o' (by simp; exact fun e => ho e.symm) a)
        · exact Or.inr ⟨k, a, b, Or.inr c⟩
    · intro o' i j hi hj hlt
      simp only [apply_launches, apply_resets, List.mem_cons, Prod.mk.injEq] at hi hj ⊢
      obtain ⟨k, a, b, c⟩ := h5 o' i j hi hj hlt
      exact ⟨k, a, b, Or.inr c⟩
  case restart =>
    obtain ⟨h1, h2, h3, h4, h5⟩ := h
    refine ⟨?_, ?_, ?_, ?_, ?_⟩
    · intro o i hm; simp only [apply_launches, apply_inc] at hm ⊢
      exact Nat.le_succ_of_le (h1 o i hm)
    · intro _ o i hm; simp only [apply_launches, apply_inc] at hm ⊢
      exact Nat.lt_succ_of_le (h1 o i hm)
    · simpa [apply_launches] using h3
    · intro o i hm
      simp only [apply_launches, apply_inc, apply_resets] at hm ⊢
      rcases h4 o i hm with a | ⟨k, a, b, c⟩
      · exact Or.inl (hdm o (by simp) a)
      · exact Or.inr ⟨k, a, Nat.le_succ_of_le b, c⟩
    · simpa [apply_launches, apply_resets] using h5
  all_goals
    exact launchInv_frame h (by simp [apply_launches]) (by simp [apply_resets]) (by simp [apply_inc])
      (by simp [apply_phase]) (fun o' => hdm o' (by simp))

theorem launchInv_init (g : List NodeInfo) : LaunchInv (init g) := by
  constructor <;> simp [init]

theorem reach_launchInv {g : List NodeInfo} {s : State} (h : Reach g s) : LaunchInv s := by
  induction h with
  | init => exact launchInv_init g
  | step hr hen ih => exact launchInv_step hen (reach_objsInv hr) ih


/-! ### finished nodes -/

theorem forkStateOf_done {fm jm cs sm} :
    (forkStateOf fm jm cs sm = .complete ∨ forkStateOf fm jm cs sm = .disabled) ↔
      (fm = some .complete ∨ fm = some .disabled) := by
  unfold forkStateOf
  repeat' split
  all_goals simp_all

theorem forkState_done {s : State} {n f : Nat} :
    (forkState s n f = .complete ∨ forkState s n f = .disabled) ↔ fmDone s n f = true := by
  unfold forkState fmDone
  rw [forkStateOf_done]; simp

theorem scanForks_done {l : List FState} {d : Bool} :
    (∃ d', scanForks l d = .done d') ↔ ∀ x ∈ l, x = .complete ∨ x = .disabled := by
  induction l generalizing d with
  | nil => simp [scanForks]
  | cons a r ih =>
    cases a <;> simp [scanForks, ih]

theorem nodeDone_iff {s : State} {n : Nat} :
    nodeDone s n = true ↔ ∀ f ∈ s.forksOf n, fmDone s n f = true := by
  unfold nodeDone
  have : (∃ d', scanForks (forkStates s n) true = .done d') ↔
      ∀ f ∈ s.forksOf n, fmDone s n f = true := by
    rw [scanForks_done]; simp [forkStates, forkState_done]
  rw [← this]
  cases scanForks (forkStates s n) true <;> simp

theorem fmDone_iff {s : State} {n f : Nat} :
    fmDone s n f = true ↔
      (s.m ⟨n, f, .fork⟩).seen.has .errors = false ∧ (s.m ⟨n, f, .fork⟩).seen.has .assert = false ∧
      ((s.m ⟨n, f, .fork⟩).seen.has .complete = true ∨ (s.m ⟨n, f, .fork⟩).seen.has .disabled = true) := by
  unfold fmDone State.st
  rw [metaState_eq]
  generalize (s.m ⟨n, f, .fork⟩).seen = x
  cases h1 : x.has .errors <;> cases h2 : x.has .assert <;> cases h3 : x.has .complete <;>
    cases h4 : x.has .disabled <;> cases h5 : x.has .log <;> cases h6 : x.has .jobinfo <;> simp

@[simp] theorem apply_full (s : State) (e : Ev) : (apply s e).full = s.full := by
  cases e <;> rfl

theorem reach_full {g : List NodeInfo} {s : State} (h : Reach g s) : s.full = false := by
  induction h with
  | init => rfl
  | step _ _ ih => rw [apply_full]; exact ih

theorem resetOk_isJob {s : State} {o : Obj} (hfull : s.full = false) (h : resetOk s o = true) :
    o.r.isJob = true := by
  unfold resetOk at h; simp only [hfull, Bool.and_eq_true] at h
  simp at h; exact h.2.1

/-- a fork's own `_errors`/`_assert` appears only while the fork is not finished -/
theorem fork_fail_origin {s : State} {e : Ev} {o : Obj} {y : Sentinel} (hinv : ObjsInv s)
    (hen : enabled s e = true) (hr : o.r = .fork) (hy : y = .errors ∨ y = .assert)
    (h : ((apply s e).m o).seen.has y = true) :
    (s.m o).seen.has y = true ∨ fmDone s o.n o.f = false := by
  have hfe := (hinv o).forkEq hr y
  rw [apply_m] at h
  cases e <;> simp only [] at h <;> try exact Or.inl h
  case W o' x =>
    split at h
    · rename_i heq; subst heq
      simp only [put, has_add, Bool.or_eq_true, decide_eq_true_eq] at h
      rcases h with rfl | h
      · rcases (en_W hen).2.2 with hd | hw
        · exact Or.inl (hfe hd)
        · unfold mrpWriteOk at hw
          rcases hy with rfl | rfl <;> simp [hr] at hw
          exact Or.inr hw
      · exact Or.inl h
    · exact Or.inl h
  case R o' x =>
    split at h
    · rename_i heq; subst heq
      simp only [see, has_add, Bool.or_eq_true, decide_eq_true_eq] at h
      rcases h with rfl | h
      · exact Or.inl (hfe (en_R hen).2.2)
      · exact Or.inl h
    · exact Or.inl h
  case D o' x =>
    split at h
    · rename_i heq; subst heq
      simp only [see, has_add, Bool.or_eq_true, decide_eq_true_eq] at h
      rcases h with rfl | h
      · exact Or.inl (hfe (en_D hen).2.2)
      · exact Or.inl h
    · exact Or.inl h
  case U o' x =>
    split at h
    · rename_i heq; subst heq
      simp only [unq, has_del, Bool.and_eq_true] at h; exact Or.inl h.2
    · exact Or.inl h
  case launch o' =>
    split at h
    · rename_i heq; subst heq
      have := (launchOk_facts (en_launch hen)).1; simp [hr, Role.isJob] at this
    · exact Or.inl h
  case joblog o' =>
    split at h
    · rename_i heq; subst heq
      have := (en_joblog hen).1; simp [hr, Role.isJob] at this
    · exact Or.inl h
  case jobend o' x =>
    split at h
    · rename_i heq; subst heq
      have := (en_jobend hen).1; simp [hr, Role.isJob] at this
    · exact Or.inl h
  case silentfail o' =>
    split at h
    · rename_i heq; subst heq
      have := (en_silentfail hen).2.1; simp [hr, Role.isJob] at this
    · exact Or.inl h
  case reset o' =>
    split at h
    · simp at h
    · exact Or.inl h
  case restart => exact Or.inl (hfe h)

theorem fmDone_stable {s : State} {e : Ev} {n f : Nat} (hinv : ObjsInv s)
    (hfull : s.full = false) (hen : enabled s e = true) (h : fmDone s n f = true) : fmDone (apply s e) n f = true := by
  have hne : e ≠ .reset ⟨n, f, .fork⟩ := by
    intro he; subst he
    have := resetOk_isJob hfull (en_reset hen); simp [Role.isJob] at this
  rw [fmDone_iff] at h ⊢
  obtain ⟨h1, h2, h3⟩ := h
  refine ⟨?_, ?_, ?_⟩
  · cases hc : ((apply s e).m ⟨n, f, .fork⟩).seen.has .errors
    · rfl
    · rcases fork_fail_origin (o := ⟨n, f, .fork⟩) hinv hen rfl (Or.inl rfl) hc with a | a
      · simp [h1] at a
      · have : fmDone s n f = true := fmDone_iff.mpr ⟨h1, h2, h3⟩
        simp [this] at a
  · cases hc : ((apply s e).m ⟨n, f, .fork⟩).seen.has .assert
    · rfl
    · rcases fork_fail_origin (o := ⟨n, f, .fork⟩) hinv hen rfl (Or.inr rfl) hc with a | a
      · simp [h2] at a
      · have : fmDone s n f = true := fmDone_iff.mpr ⟨h1, h2, h3⟩
        simp [this] at a
  · rcases h3 with a | a
    · exact Or.inl (seen_mono hinv hne (by simp) a)
    · exact Or.inr (seen_mono hinv hne (by simp) a)

theorem apply_forksOf (s : State) (e : Ev) (n : Nat) : (apply s e).forksOf n =
    match e with
    | .fork n' f => if n' = n then s.forksOf n' ++ [f] else s.forksOf n
    | .forkorder n' l => if n' = n then l else s.forksOf n
    | _ => s.forksOf n := by
  cases e <;> simp [apply, State.forksOf, State.updMeta, aget_aset]

theorem isSubNodup_mem {l l' : List Nat} (h : isSubNodup l l' = true) : ∀ a ∈ l, a ∈ l' := by
  induction l with
  | nil => simp
  | cons a r ih =>
    simp only [isSubNodup, Bool.and_eq_true] at h
    intro b hb
    rcases List.mem_cons.mp hb with rfl | hb
    · simpa using h.1.1
    · exact ih h.2 b hb

/-- C02 `done_stable`: a finished node stays finished (complete/disabled never
reverts); the only exception is a fork added while the graph is (re)loaded. -/
theorem done_stable {s : State} {e : Ev} {p : Nat} (hinv : ObjsInv s) (hfull : s.full = false)
    (hen : enabled s e = true)
    (hc : s.phase = .loading → ∀ f, e ≠ .fork p f) (hd : nodeDone s p = true) :
    nodeDone (apply s e) p = true := by
  rw [nodeDone_iff] at hd ⊢
  intro f hf
  apply fmDone_stable hinv hfull hen
  apply hd
  rw [apply_forksOf] at hf
  cases e <;> simp only [] at hf <;> try exact hf
  case fork n' f' =>
    split at hf
    · rename_i heq; subst heq
      have hd' : nodeDone s n' = true := nodeDone_iff.mpr hd
      obtain ⟨hnc, _, _, hnorm⟩ := en_fork hen
      cases hq : s.phase
      · exact absurd rfl (hc hq f')
      · have := (hnorm hq).1; simp [hd'] at this
      · exact absurd hq hnc
    · exact hf
  case forkorder n' l =>
    split at hf
    · rename_i heq; subst heq
      exact isSubNodup_mem (en_forkorder hen).2 f hf
    · exact hf


/-! ### a node the scheduler believes to be running has finished prenodes -/

theorem apply_cachedOf (s : State) (e : Ev) (n : Nat) : (apply s e).cachedOf n =
    match e with
    | .nodestate n' st => if n' = n then st else s.cachedOf n
    | _ => s.cachedOf n := by
  cases e <;> simp [apply, State.cachedOf, State.updMeta, aget_aset]

theorem nodeState_running {s : State} {n : Nat} (h : nodeState s n = .running) :
    ∀ p ∈ s.pre n, nodeDone s p = true := by
  unfold nodeState nodeStateOf at h
  split at h <;> try contradiction
  split at h
  · rename_i hp; simpa [List.all_eq_true] using hp
  · contradiction

def PreInv (s : State) : Prop :=
  s.phase = .normal → ∀ n, s.cachedOf n = .running → ∀ p ∈ s.pre n, nodeDone s p = true

theorem pre_out_of_range {s : State} {n : Nat} (h : ¬ n < s.nodes.length) : s.pre n = [] := by
  have : s.nodes[n]? = none := by simpa using Nat.le_of_not_lt h
  simp [State.pre, this]

theorem preInv_step {s : State} {e : Ev} (hinv : ObjsInv s) (hfull : s.full = false)
    (hen : enabled s e = true)
    (h : PreInv s) : PreInv (apply s e) := by
  intro hph n hc p hp
  rw [apply_pre] at hp
  -- the phase before
  by_cases hs : s.phase = .normal
  · -- ordinary step in the normal phase
    by_cases hns : ∃ st, e = .nodestate n st
    · obtain ⟨st, rfl⟩ := hns
      simp only [apply_cachedOf, if_true] at hc
      subst hc
      have := nodeState_running (en_nodestate hen).2.2.symm p hp
      exact done_stable hinv hfull hen (fun hl => by rw [hs] at hl; cases hl) this
    · have hc' : s.cachedOf n = .running := by
        rw [apply_cachedOf] at hc
        cases e <;> simp only [] at hc <;> try exact hc
        case nodestate n' st =>
          split at hc
          · rename_i heq; subst heq; exact absurd ⟨st, rfl⟩ hns
          · exact hc
      exact done_stable hinv hfull hen (fun hl => by rw [hs] at hl; cases hl) (h hs n hc' p hp)
  · -- the step that enters the normal phase: `refresh` after loading
    rw [apply_phase] at hph
    cases e <;> simp only [] at hph <;> try exact absurd hph hs
    case restart => cases hph
    case crash => cases hph
    case refresh =>
      have hl : s.phase = .loading := by
        cases hq : s.phase
        · rfl
        · exact absurd hq hs
        · exact absurd hq (en_refresh hen).1
      have hfresh := (en_refresh hen).2 hl
      have hc' : s.cachedOf n = .running := by simpa [apply_cachedOf] using hc
      by_cases hn : n < s.nodes.length
      · have : s.cachedOf n = nodeState s n := by
          simp only [allFresh, List.all_eq_true, List.mem_range, beq_iff_eq] at hfresh
          exact hfresh n hn
        have := nodeState_running (this ▸ hc') p hp
        exact done_stable hinv hfull hen (fun _ => by simp) this
      · rw [pre_out_of_range hn] at hp; cases hp

theorem preInv_init (g : List NodeInfo) : PreInv (init g) := by
  intro h; simp [init] at h

theorem reach_preInv {g : List NodeInfo} {s : State} (h : Reach g s) : PreInv s := by
  induction h with
  | init => exact preInv_init g
  | step hr hen ih => exact preInv_step (reach_objsInv hr) (reach_full hr) hen ih


/-! ### replay produces reachable states -/

theorem replayFrom_reach {g : List NodeInfo} {evs : List Ev} {i : Nat} {s0 s : State}
    (h0 : Reach g s0) (h : replayFrom i s0 evs = .ok s) : Reach g s := by
  induction evs generalizing i s0 with
  | nil => simp [replayFrom] at h; subst h; exact h0
  | cons e r ih =>
    simp only [replayFrom] at h
    split at h
    · rename_i hen; exact ih (Reach.step h0 hen) h
    · cases h

theorem replay_reach {g : List NodeInfo} {evs : List Ev} {s : State}
    (h : replay (init g) evs = .ok s) : Reach g s :=
  replayFrom_reach Reach.init h

theorem launchOk_phase {s : State} {o : Obj} (h : launchOk s o = true) :
    s.phase = .normal ∧ s.cachedOf o.n = .running ∧ fmDone s o.n o.f = false ∧
    (o, s.inc) ∉ s.launches ∧ s.hasObj o = true := by
  unfold launchOk at h
  simp only [Bool.and_eq_true, beq_iff_eq, Bool.not_eq_true', List.contains_eq_mem,
    decide_eq_false_iff_not] at h
  exact ⟨h.1.1.1.1.1, h.1.1.1.2, h.1.2, h.1.1.2, h.1.1.1.1.2⟩

theorem metaState_has_failed {x : SSet} (h : metaState x = some .failed) :
    x.has .errors = true ∨ x.has .assert = true := metaState_failed.mp h

end Martian.Sched
