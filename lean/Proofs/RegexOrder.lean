import Martian.Regex
import Martian.RegexOrder
import Proofs.Regex

/-!
The PRIORITY semantics of the matcher.  `ends r pre s` enumerates ALL ways the
regex can match a prefix of `s` (as pairs: text before the end position,
reversed; rest), in Go's / Perl's leftmost-first preference order: the first
alternative before the second, more iterations of a greedy repetition before
fewer.  `m_eq_firstSome`: the backtracking matcher with continuation `k`
returns `k` of the FIRST element of that enumeration on which `k` succeeds;
`pmatch_first`: `pmatch` returns the first element; `mem_ends_iff`: the
enumeration consists exactly of the matches of the denotational semantics.
-/
namespace Martian.Regex

variable {α : Type}

def firstSome (l : List Pos) (k : K α) : Option α :=
  match l with
  | [] => none
  | (p, s) :: t => orElse (k p s) (firstSome t k)

/-! ### `firstSome` -/

theorem orElse_assoc (a b c : Option α) : orElse (orElse a b) c = orElse a (orElse b c) := by
  cases a <;> rfl

theorem orElse_none_right (a : Option α) : orElse a none = a := by cases a <;> rfl

theorem firstSome_append (l1 l2 : List Pos) (k : K α) :
    firstSome (l1 ++ l2) k = orElse (firstSome l1 k) (firstSome l2 k) := by
  induction l1 with
  | nil => rfl
  | cons x t ih =>
    obtain ⟨p, s⟩ := x
    simp only [List.cons_append, firstSome, ih, orElse_assoc]

theorem firstSome_flatMap (l : List Pos) (f : Pos → List Pos) (k : K α) :
    firstSome (l.flatMap f) k = firstSome l (fun p s => firstSome (f (p, s)) k) := by
  induction l with
  | nil => rfl
  | cons x t ih =>
    obtain ⟨p, s⟩ := x
    simp only [List.flatMap_cons, firstSome_append, ih, firstSome]

theorem firstSome_filter (l : List Pos) (c : Pos → Bool) (g : K α) :
    firstSome (l.filter c) g = firstSome l (fun p s => if c (p, s) then g p s else none) := by
  induction l with
  | nil => rfl
  | cons x t ih =>
    obtain ⟨p, s⟩ := x
    by_cases hc : c (p, s) = true
    · simp only [List.filter_cons, hc, if_true, firstSome, ih]
    · simp only [List.filter_cons, hc, Bool.false_eq_true, if_false, firstSome, ih]
      rfl

theorem firstSome_congr (l : List Pos) (k1 k2 : K α) (h : ∀ p s, k1 p s = k2 p s) :
    firstSome l k1 = firstSome l k2 := by
  have : k1 = k2 := funext fun p => funext fun s => h p s
  rw [this]

theorem firstSome_single (p s : Bytes) (k : K α) : firstSome [(p, s)] k = k p s := by
  simp [firstSome, orElse_none_right]

/-- a step function and its enumeration agree -/
def StepEnum (step : Bytes → Bytes → K α → Option α) (e : Bytes → Bytes → List Pos) : Prop :=
  ∀ pre s (k : K α), step pre s k = firstSome (e pre s) k

theorem repMin_enum {step : Bytes → Bytes → K α → Option α} {e} (h : StepEnum step e) :
    ∀ n, StepEnum (repMin step n) (endsMin e n) := by
  intro n
  induction n with
  | zero => intro pre s k; simp [repMin, endsMin, firstSome_single]
  | succ n ih =>
    intro pre s k
    simp only [repMin, endsMin, h pre s, firstSome_flatMap]
    exact firstSome_congr _ _ _ (fun p s' => ih p s' k)

theorem repMax_enum {step : Bytes → Bytes → K α → Option α} {e} (h : StepEnum step e) :
    ∀ n, StepEnum (repMax step n) (endsMax e n) := by
  intro n
  induction n with
  | zero => intro pre s k; simp [repMax, endsMax, firstSome_single]
  | succ n ih =>
    intro pre s k
    simp only [repMax, endsMax, h pre s, firstSome_append, firstSome_flatMap, firstSome_single]
    congr 1
    exact firstSome_congr _ _ _ (fun p s' => ih p s' k)

theorem repStar_enum {step : Bytes → Bytes → K α → Option α} {e} (h : StepEnum step e) :
    ∀ f, StepEnum (repStar step f) (endsStar e f) := by
  intro f
  induction f with
  | zero => intro pre s k; simp [repStar, endsStar, firstSome_single]
  | succ f ih =>
    intro pre s k
    simp only [repStar, endsStar, h pre s, firstSome_append, firstSome_flatMap, firstSome_single,
      firstSome_filter]
    congr 1
    apply firstSome_congr
    intro p s'
    by_cases hlt : s'.length < s.length
    · simp [hlt, ih p s' k]
    · simp [hlt]

/-- The matcher returns the continuation's result on the FIRST element of the
priority-ordered enumeration on which the continuation succeeds. -/
theorem m_eq_firstSome : ∀ (r : Re), StepEnum (α := α) (m r) (ends r) := by
  intro r
  induction r with
  | eps => intro pre s k; simp [m, ends, firstSome_single]
  | cls rs =>
    intro pre s k
    cases s with
    | nil => simp [m, ends, firstSome]
    | cons c t =>
      simp only [m, ends]
      split <;> simp [firstSome, orElse_none_right]
  | ncls rs =>
    intro pre s k
    cases s with
    | nil => simp [m, ends, firstSome]
    | cons c t =>
      simp only [m, ends]
      split
      · split <;> simp [firstSome, orElse_none_right]
      · simp [firstSome, orElse_none_right]
  | cat a b iha ihb =>
    intro pre s k
    simp only [m, ends, iha pre s, firstSome_flatMap]
    exact firstSome_congr _ _ _ (fun p s' => ihb p s' k)
  | alt a b iha ihb =>
    intro pre s k
    simp only [m, ends, iha pre s, ihb pre s, firstSome_append]
  | rep a mn mx iha =>
    intro pre s k
    cases mx with
    | none =>
      simp only [m, ends, repMin_enum iha mn pre s, firstSome_flatMap]
      exact firstSome_congr _ _ _ (fun p s' => repStar_enum iha _ p s' k)
    | some M =>
      simp only [m, ends]
      split
      · rfl
      · simp only [repMin_enum iha mn pre s, firstSome_flatMap]
        exact firstSome_congr _ _ _ (fun p s' => repMax_enum iha _ p s' k)
  | bot => intro pre s k; simp only [m, ends]; split <;> simp [firstSome, orElse_none_right]
  | wordb => intro pre s k; simp only [m, ends]; split <;> simp [firstSome, orElse_none_right]

theorem firstSome_head (l : List Pos) :
    firstSome l (fun pre _ => some pre.reverse) = l.head?.map fun x => x.1.reverse := by
  cases l with
  | nil => rfl
  | cons x t => obtain ⟨p, s⟩ := x; simp [firstSome, orElse]

/-- `pmatch` returns the FIRST match in leftmost-first order. -/
theorem pmatch_first (r : Re) (s : Bytes) : pmatch r s = (ends r [] s).head?.map fun x => x.1.reverse := by
  unfold pmatch
  rw [m_eq_firstSome r [] s, firstSome_head]

theorem firstSome_some_mem {l : List Pos} {k : K α} {x : α} (h : firstSome l k = some x) :
    ∃ p s, (p, s) ∈ l ∧ k p s = some x := by
  induction l with
  | nil => cases h
  | cons y t ih =>
    obtain ⟨p, s⟩ := y
    simp only [firstSome] at h
    rcases orElse_some h with h1 | ⟨_, h2⟩
    · exact ⟨p, s, by simp, h1⟩
    · obtain ⟨p', s', hm, hk⟩ := ih h2
      exact ⟨p', s', by simp [hm], hk⟩

theorem firstSome_isSome_of_mem {l : List Pos} {k : K α} {p s : Bytes} (hm : (p, s) ∈ l)
    (hk : (k p s).isSome = true) : (firstSome l k).isSome = true := by
  induction l with
  | nil => cases hm
  | cons y t ih =>
    obtain ⟨p', s'⟩ := y
    simp only [firstSome]
    simp only [List.mem_cons, Prod.mk.injEq] at hm
    rcases hm with ⟨rfl, rfl⟩ | hm
    · exact orElse_isSome_left hk
    · exact orElse_isSome_right (ih hm)

/-- The enumeration is exactly the set of matches of the denotational
semantics: `(p, rest)` occurs iff some prefix `w` of the input matches, ends
at `rest`, and `p` is the text up to that end (reversed). -/
theorem mem_ends_iff (r : Re) (pre s p rest : Bytes) :
    (p, rest) ∈ ends r pre s ↔ ∃ w, s = w ++ rest ∧ p = w.reverse ++ pre ∧ Matches r pre w rest := by
  -- the continuation that accepts exactly the position (p, rest)
  let k : K Unit := fun p' s' => if p' = p ∧ s' = rest then some () else none
  constructor
  · intro hm
    have hs : (firstSome (ends r pre s) k).isSome = true :=
      firstSome_isSome_of_mem hm (by simp [k])
    rw [← m_eq_firstSome r pre s k] at hs
    cases hx : m r pre s k with
    | none => rw [hx] at hs; cases hs
    | some u =>
      obtain ⟨w, post, hsw, hmat, hk⟩ := m_sound r _ _ _ _ hx
      simp only [k] at hk
      split at hk
      · rename_i hc
        exact ⟨w, by rw [hsw, hc.2], hc.1.symm, hc.2 ▸ hmat⟩
      · cases hk
  · rintro ⟨w, rfl, rfl, hmat⟩
    have hs := m_complete (α := Unit) r _ _ _ k hmat (by simp [k])
    rw [m_eq_firstSome r pre (w ++ rest) k] at hs
    cases hx : firstSome (ends r pre (w ++ rest)) k with
    | none => rw [hx] at hs; cases hs
    | some u =>
      obtain ⟨p', s', hm, hk⟩ := firstSome_some_mem hx
      simp only [k] at hk
      split at hk
      · rename_i hc
        rw [hc.1, hc.2] at hm
        exact hm
      · cases hk

end Martian.Regex
