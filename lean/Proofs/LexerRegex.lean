import Martian.Lexer
import Martian.Regex
import Proofs.Lexer
import Proofs.Regex

/-!
The hand-written recognisers of Martian/Lexer.lean (`matchInt`, `matchFloat
false`, `matchString`) decide the denotational semantics of the rule regexes
(as ASTs: `intRe`, `floatRe`, `stringRe`; Props/C08.lean shows by evaluation of
the regex-syntax parser that these ASTs are what the regenerated regex strings
parse to).  With `pmatch_eq_of_unique` this makes each recogniser equal to the
leftmost-first matcher of the parsed regex, for every input.
-/
namespace Martian.LexerRegex
open Martian.Regex

/-! ## bytes -/

theorem forall_byte {P : UInt8 → Prop} (h : ∀ n : Fin 256, P (UInt8.ofNat n.val)) : ∀ c : UInt8, P c := by
  intro c
  have := h ⟨c.toNat, c.toNat_lt⟩
  simpa using this

/-- membership in an (ASCII) class as the matcher tests it -/
def cok (rs : Ranges) (c : UInt8) : Bool := decide (c < 0x80) && inR rs c

set_option maxRecDepth 100000 in
theorem word_eq : ∀ c : UInt8, Regex.isWord c = Lexer.isWord c := by
  apply forall_byte; decide

set_option maxRecDepth 100000 in
theorem cok_digit : ∀ c : UInt8, cok [(0x30, 0x39)] c = Lexer.isDigit c := by
  apply forall_byte; decide

set_option maxRecDepth 100000 in
theorem cok_zero : ∀ c : UInt8, cok [(0x30, 0x30)] c = (c == 0x30) := by
  apply forall_byte; decide

set_option maxRecDepth 100000 in
theorem cok_minus : ∀ c : UInt8, cok [(0x2D, 0x2D)] c = (c == 0x2D) := by
  apply forall_byte; decide

set_option maxRecDepth 100000 in
theorem digit_word : ∀ c : UInt8, Lexer.isDigit c = true → Regex.isWord c = true := by
  apply forall_byte; decide

set_option maxRecDepth 100000 in
theorem digit_not_minus : ∀ c : UInt8, Lexer.isDigit c = true → (c == 0x2D) = false := by
  apply forall_byte; decide

/-! ## structural lemmas on `Matches` -/

theorem Matches_cat_iff (a b : Re) (pre w post : Bytes) :
    Matches (.cat a b) pre w post ↔
      ∃ w1 w2, w = w1 ++ w2 ∧ Matches a pre w1 (w2 ++ post) ∧ Matches b (w1.reverse ++ pre) w2 post :=
  Iff.rfl

theorem Matches_alt_iff (a b : Re) (pre w post : Bytes) :
    Matches (.alt a b) pre w post ↔ Matches a pre w post ∨ Matches b pre w post := Iff.rfl

theorem Matches_bot_iff (pre w post : Bytes) : Matches .bot pre w post ↔ w = [] ∧ pre = [] := Iff.rfl

theorem Matches_wordb_iff (pre w post : Bytes) :
    Matches .wordb pre w post ↔ w = [] ∧ wordBefore pre ≠ wordAfter post := Iff.rfl

theorem Matches_cls_iff (rs : Ranges) (pre w post : Bytes) :
    Matches (.cls rs) pre w post ↔ ∃ c, w = [c] ∧ cok rs c = true := by
  simp [Matches, cok]

theorem Matches_rep_iff (a : Re) (mn : Nat) (mx : Option Nat) (pre w post : Bytes) :
    Matches (.rep a mn mx) pre w post ↔
      ∃ k, mn ≤ k ∧ (∀ M, mx = some M → k ≤ M) ∧ IterN (Matches a) k pre w post := Iff.rfl

theorem IterN_cls (rs : Ranges) : ∀ (k : Nat) (pre w post : Bytes),
    IterN (Matches (.cls rs)) k pre w post ↔ (w.length = k ∧ ∀ c ∈ w, cok rs c = true) := by
  intro k
  induction k with
  | zero =>
    intro pre w post
    simp only [IterN]
    constructor
    · rintro rfl; simp
    · rintro ⟨h, _⟩; exact List.length_eq_zero_iff.mp h
  | succ k ih =>
    intro pre w post
    simp only [IterN]
    constructor
    · rintro ⟨w1, w2, rfl, h1, h2⟩
      obtain ⟨c, rfl, hc⟩ := (Matches_cls_iff _ _ _ _).mp h1
      obtain ⟨hl, hall⟩ := (ih _ _ _).mp h2
      refine ⟨by simp [hl], ?_⟩
      intro x hx
      simp only [List.cons_append, List.nil_append, List.mem_cons] at hx
      rcases hx with rfl | hx
      · exact hc
      · exact hall x hx
    · rintro ⟨hl, hall⟩
      cases w with
      | nil => simp at hl
      | cons c t =>
        refine ⟨[c], t, rfl, (Matches_cls_iff _ _ _ _).mpr ⟨c, rfl, hall c (by simp)⟩, ?_⟩
        exact (ih _ _ _).mpr ⟨by simpa using hl, fun x hx => hall x (by simp [hx])⟩

/-- a repeated class: only the length and the members matter -/
theorem Matches_rep_cls (rs : Ranges) (mn : Nat) (mx : Option Nat) (pre w post : Bytes) :
    Matches (.rep (.cls rs) mn mx) pre w post ↔
      (mn ≤ w.length ∧ (∀ M, mx = some M → w.length ≤ M) ∧ ∀ c ∈ w, cok rs c = true) := by
  rw [Matches_rep_iff]
  constructor
  · rintro ⟨k, h1, h2, h3⟩
    obtain ⟨hl, hall⟩ := (IterN_cls rs k pre w post).mp h3
    subst hl
    exact ⟨h1, h2, hall⟩
  · rintro ⟨h1, h2, h3⟩
    exact ⟨w.length, h1, h2, (IterN_cls rs _ pre w post).mpr ⟨rfl, h3⟩⟩

/-- `a?` -/
theorem Matches_opt (a : Re) (pre w post : Bytes) :
    Matches (.rep a 0 (some 1)) pre w post ↔ (w = [] ∨ Matches a pre w post) := by
  rw [Matches_rep_iff]
  constructor
  · rintro ⟨k, _, h2, h3⟩
    have hk := h2 1 rfl
    match k, hk, h3 with
    | 0, _, h3 => left; simpa [IterN] using h3
    | 1, _, h3 =>
      right
      obtain ⟨w1, w2, rfl, hm, hw2⟩ := h3
      simp only [IterN] at hw2
      subst hw2
      simpa using hm
  · rintro (rfl | h)
    · exact ⟨0, Nat.le_refl _, by intro M hM; injection hM with hM; omega, rfl⟩
    · exact ⟨1, by omega, by intro M hM; injection hM with hM; omega, ⟨w, [], by simp, by simpa using h, rfl⟩⟩

theorem wordBefore_run (x d pre : Bytes) (hd : d ≠ []) (hall : ∀ c ∈ d, Regex.isWord c = true) :
    wordBefore ((x ++ d).reverse ++ pre) = true := by
  rw [List.reverse_append]
  have hne : d.reverse ≠ [] := by simpa using hd
  cases hr : d.reverse with
  | nil => exact absurd hr hne
  | cons c t =>
    have : c ∈ d := by
      have : c ∈ d.reverse := by rw [hr]; simp
      simpa using this
    simp [wordBefore, hall c this]

theorem boundary_iff (post : Bytes) : Lexer.boundary post = true ↔ wordAfter post = false := by
  cases post with
  | nil => simp [Lexer.boundary, wordAfter]
  | cons c t => simp [Lexer.boundary, wordAfter, word_eq]

/-! ## Lexer helper functions -/

theorem spanDigits_eq (b : Bytes) : b = (Lexer.spanDigits b).1 ++ (Lexer.spanDigits b).2 := by
  induction b with
  | nil => simp [Lexer.spanDigits]
  | cons c r ih =>
    unfold Lexer.spanDigits
    by_cases hc : Lexer.isDigit c = true
    · simp only [hc, if_true, List.cons_append]
      rw [← ih]
    · simp [hc]

theorem spanDigits_snd_head (b : Bytes) : ∀ c t, (Lexer.spanDigits b).2 = c :: t → Lexer.isDigit c = false := by
  induction b with
  | nil => intro c t h; simp [Lexer.spanDigits] at h
  | cons x r ih =>
    intro c t h
    unfold Lexer.spanDigits at h
    by_cases hx : Lexer.isDigit x = true
    · simp only [hx, if_true] at h
      exact ih c t h
    · simp only [hx] at h
      simp only [Bool.false_eq_true, if_false, List.cons.injEq] at h
      rw [← h.1]; simpa using hx

theorem spanDigits_append (d post : Bytes) (hd : ∀ c ∈ d, Lexer.isDigit c = true)
    (hp : ∀ c t, post = c :: t → Lexer.isDigit c = false) :
    Lexer.spanDigits (d ++ post) = (d, post) := by
  induction d with
  | nil =>
    cases post with
    | nil => simp [Lexer.spanDigits]
    | cons c t => simp [Lexer.spanDigits, hp c t rfl]
  | cons x r ih =>
    have hx := hd x (by simp)
    simp only [List.cons_append]
    unfold Lexer.spanDigits
    simp only [hx, if_true]
    rw [ih (fun c hc => hd c (by simp [hc]))]

theorem optMinus_eq (b : Bytes) : b = (Lexer.optMinus b).1 ++ (Lexer.optMinus b).2 := by
  cases b with
  | nil => simp [Lexer.optMinus]
  | cons c r =>
    unfold Lexer.optMinus
    by_cases hc : (c == 0x2D) = true <;> simp [hc]

theorem optMinus_fst (b : Bytes) : (Lexer.optMinus b).1 = [] ∨ (Lexer.optMinus b).1 = [0x2D] := by
  cases b with
  | nil => simp [Lexer.optMinus]
  | cons c r =>
    unfold Lexer.optMinus
    by_cases hc : (c == 0x2D) = true
    · right; simp [hc]; exact eq_of_beq hc
    · left; simp [hc]

theorem optMinus_minus (r : Bytes) : Lexer.optMinus (0x2D :: r) = ([0x2D], r) := by
  simp [Lexer.optMinus]

theorem optMinus_digit (c : UInt8) (r : Bytes) (h : Lexer.isDigit c = true) :
    Lexer.optMinus (c :: r) = ([], c :: r) := by
  simp [Lexer.optMinus, digit_not_minus c h]

/-- a boundary after the token: the rest does not start with a digit -/
theorem boundary_not_digit (post : Bytes) (h : Lexer.boundary post = true) :
    ∀ c t, post = c :: t → Lexer.isDigit c = false := by
  intro c t e
  subst e
  simp only [Lexer.boundary, Bool.not_eq_true'] at h
  cases hd : Lexer.isDigit c with
  | false => rfl
  | true =>
    have := digit_word c hd
    rw [word_eq, h] at this
    cases this

/-! ## the integer rule `^-?0*\d{1,19}\b` -/

def intRe : Re :=
  .cat .bot (.cat (.rep (.cls [(0x2D, 0x2D)]) 0 (some 1)) (.cat (.rep (.cls [(0x30, 0x30)]) 0 none)
    (.cat (.rep (.cls [(0x30, 0x39)]) 1 (some 19)) .wordb)))

theorem dropWhile_zeros_append (zs ds : Bytes) (hz : ∀ c ∈ zs, c = 0x30) :
    (zs ++ ds).dropWhile (· == 0x30) = ds.dropWhile (· == 0x30) := by
  induction zs with
  | nil => rfl
  | cons z r ih =>
    have : z = 0x30 := hz z (by simp)
    subst this
    simp only [List.cons_append, List.dropWhile_cons, beq_self_eq_true, if_true]
    exact ih (fun c hc => hz c (by simp [hc]))

/-- a digit run whose significant part has at most 19 digits splits as the
regex wants it: zeros, then 1 to 19 digits -/
theorem split_zeros (ds : Bytes) (hne : ds ≠ []) (hd : ∀ c ∈ ds, Lexer.isDigit c = true)
    (h19 : (ds.dropWhile (· == 0x30)).length ≤ 19) :
    ∃ zs dd, ds = zs ++ dd ∧ (∀ c ∈ zs, c = 0x30) ∧ 1 ≤ dd.length ∧ dd.length ≤ 19 ∧
      ∀ c ∈ dd, Lexer.isDigit c = true := by
  have hsplit := List.takeWhile_append_dropWhile (p := (· == (0x30 : UInt8))) (l := ds)
  have hz : ∀ c ∈ ds.takeWhile (· == 0x30), c = 0x30 := fun c hc => Lexer.mem_takeWhile_zero ds c hc
  by_cases hdw : ds.dropWhile (· == 0x30) = []
  · -- all zeros: the last zero is the `\d{1,19}` part
    rw [hdw, List.append_nil] at hsplit
    have hall : ∀ c ∈ ds, c = 0x30 := by rw [← hsplit]; exact hz
    refine ⟨ds.dropLast, [ds.getLast hne], (List.dropLast_concat_getLast hne).symm, ?_, by simp, by simp, ?_⟩
    · intro c hc; exact hall c (List.dropLast_subset _ hc)
    · intro c hc
      simp only [List.mem_singleton] at hc
      subst hc
      exact hd _ (List.getLast_mem hne)
  · refine ⟨_, _, hsplit.symm, hz, ?_, h19, ?_⟩
    · cases hx : ds.dropWhile (· == 0x30) with
      | nil => exact absurd hx hdw
      | cons a t => simp
    · intro c hc
      exact hd c ((List.dropWhile_sublist _).subset hc)

theorem matchInt_prefix (s w : Bytes) (h : Lexer.matchInt s = some w) : ∃ post, s = w ++ post := by
  unfold Lexer.matchInt at h
  simp only at h
  split at h
  · injection h with h
    refine ⟨(Lexer.spanDigits (Lexer.optMinus s).2).2, ?_⟩
    rw [← h, List.append_assoc, ← spanDigits_eq, ← optMinus_eq]
  · cases h

theorem int_matches_iff (w post : Bytes) :
    Matches intRe [] w post ↔ Lexer.matchInt (w ++ post) = some w := by
  constructor
  · intro h
    simp only [intRe, Matches_cat_iff, Matches_bot_iff, Matches_rep_cls, Matches_wordb_iff] at h
    obtain ⟨w0, w1, rfl, ⟨rfl, _⟩, sg, w2, rfl, ⟨_, hsg1, hsg⟩, zs, w3, rfl, ⟨_, _, hzs⟩, ds, w4, rfl,
      ⟨hds1, hds2, hds⟩, rfl, hb⟩ := h
    have hds2 := hds2 19 rfl
    have hsg1 := hsg1 1 rfl
    simp only [cok_digit] at hds
    simp only [cok_zero, beq_iff_eq] at hzs
    simp only [cok_minus, beq_iff_eq] at hsg
    have hdne : ds ≠ [] := by intro e; subst e; simp at hds1
    have hzd : ∀ c ∈ zs ++ ds, Lexer.isDigit c = true := by
      intro c hc
      rcases List.mem_append.mp hc with hc | hc
      · rw [hzs c hc]; decide
      · exact hds c hc
    -- the boundary
    have hwb : wordBefore (([] ++ (sg ++ zs) ++ ds).reverse ++ []) = true :=
      wordBefore_run _ ds [] hdne (fun c hc => digit_word c (hds c hc))
    have hbd : Lexer.boundary post = true := by
      rw [boundary_iff]
      simp only [List.nil_append, List.append_nil, List.reverse_append, List.append_assoc,
        List.reverse_nil] at hb hwb
      rw [hwb] at hb
      cases hwa : wordAfter post with
      | false => rfl
      | true => rw [hwa] at hb; exact absurd rfl hb
    have hspan : Lexer.spanDigits ((zs ++ ds) ++ post) = (zs ++ ds, post) :=
      spanDigits_append _ _ hzd (boundary_not_digit post hbd)
    have h19 : ((zs ++ ds).dropWhile (· == 0x30)).length ≤ 19 := by
      rw [dropWhile_zeros_append zs ds hzs]
      exact Nat.le_trans (List.dropWhile_sublist _).length_le hds2
    have hne : zs ++ ds ≠ [] := by simp [hdne]
    -- the sign
    have hopt : Lexer.optMinus (sg ++ ((zs ++ ds) ++ post)) = (sg, (zs ++ ds) ++ post) := by
      match sg, hsg1, hsg with
      | [], _, _ =>
        cases hzd' : zs ++ ds with
        | nil => exact absurd hzd' hne
        | cons c t =>
          have : Lexer.isDigit c = true := hzd c (by rw [hzd']; simp)
          simpa using optMinus_digit c (t ++ post) this
      | [c], _, hc =>
        have : c = 0x2D := hc c (by simp)
        subst this
        simpa using optMinus_minus ((zs ++ ds) ++ post)
    have e : [] ++ (sg ++ (zs ++ (ds ++ []))) ++ post = sg ++ ((zs ++ ds) ++ post) := by simp
    rw [e]
    unfold Lexer.matchInt
    simp only [hopt, hspan, hbd, h19]
    simp [hne]
  · intro h
    have hpre := h
    unfold Lexer.matchInt at h
    simp only at h
    split at h
    · rename_i hc
      simp only [Bool.and_eq_true, decide_eq_true_eq] at hc
      obtain ⟨⟨hne, h19⟩, hbd⟩ := hc
      injection h with h
      -- the rest after the digit run is `post`
      have hpost : (Lexer.spanDigits (Lexer.optMinus (w ++ post)).2).2 = post := by
        have e1 := optMinus_eq (w ++ post)
        have e2 := spanDigits_eq (Lexer.optMinus (w ++ post)).2
        rw [e2, ← List.append_assoc, h] at e1
        exact (List.append_cancel_left e1).symm
      rw [hpost] at hbd
      have hne' : (Lexer.spanDigits (Lexer.optMinus (w ++ post)).2).1 ≠ [] := by simpa using hne
      obtain ⟨zs, dd, hsplit, hzs, hdd1, hdd2, hdd⟩ :=
        split_zeros _ hne' (Lexer.spanDigits_fst_all _) h19
      have hddne : dd ≠ [] := by intro e; subst e; simp at hdd1
      unfold intRe
      refine ⟨[], w, rfl, ⟨rfl, rfl⟩, (Lexer.optMinus (w ++ post)).1, zs ++ dd, ?_,
        (Matches_rep_cls _ _ _ _ _ _).mpr ⟨Nat.zero_le _, ?_, ?_⟩,
        zs, dd, rfl, (Matches_rep_cls _ _ _ _ _ _).mpr ⟨Nat.zero_le _, (by intro M hM; cases hM), ?_⟩, dd, [], (by simp),
        (Matches_rep_cls _ _ _ _ _ _).mpr ⟨hdd1, (by intro M hM; injection hM with hM; omega), ?_⟩, rfl, ?_⟩
      · rw [← hsplit, h]
      · intro M hM
        injection hM with hM
        rcases optMinus_fst (w ++ post) with e | e <;> rw [e] <;> simp <;> omega
      · intro c hc
        rw [cok_minus]
        rcases optMinus_fst (w ++ post) with e | e <;> rw [e] at hc <;> simp at hc
        subst hc; rfl
      · intro c hc; rw [cok_zero, hzs c hc]; rfl
      · intro c hc; rw [cok_digit]; exact hdd c hc
      · have hwb := wordBefore_run ([] ++ ((Lexer.optMinus (w ++ post)).1 ++ zs)) dd [] hddne
          (fun c hc => digit_word c (hdd c hc))
        simp only [List.nil_append, List.append_nil, List.reverse_append, List.append_assoc,
          List.reverse_nil] at hwb ⊢
        rw [hwb, (boundary_iff post).mp hbd]
        decide
    · cases h

/-- For every input the hand-written integer recogniser returns exactly what
the leftmost-first matcher returns for the AST of `^-?0*\d{1,19}\b`. -/
theorem pmatch_intRe (s : Bytes) : pmatch intRe s = Lexer.matchInt s :=
  pmatch_eq_of_unique intRe Lexer.matchInt matchInt_prefix int_matches_iff s

end Martian.LexerRegex
