import Martian.Lexer
import Martian.LexerId
import Martian.Regex
import Proofs.Lexer
import Proofs.Regex

/-!
The hand-written recognisers of Martian/Lexer.lean (`matchInt`, `matchFloat
false`, `matchString`) decide the denotational semantics of the rule regexes
(as ASTs: `intRe`, `floatRe`, `stringRe`; Props/C08.lean shows by evaluation of
the regex-syntax parser that these ASTs are what the regenerated regex strings
parse to).  With `pmatch_eq_of_unique` this makes each recogniser equal to the
leftmost-first matcher of the parsed regex, for every input.
-/
namespace Martian.LexerRegex
open Martian.Regex

/-! ## bytes -/

theorem forall_byte {P : UInt8 → Prop} (h : ∀ n : Fin 256, P (UInt8.ofNat n.val)) : ∀ c : UInt8, P c := by
  intro c
  have := h ⟨c.toNat, c.toNat_lt⟩
  simpa using this

/-- membership in an (ASCII) class as the matcher tests it -/
def cok (rs : Ranges) (c : UInt8) : Bool := decide (c < 0x80) && inR rs c

set_option maxRecDepth 100000 in
theorem word_eq : ∀ c : UInt8, Regex.isWord c = Lexer.isWord c := by
  apply forall_byte; decide

set_option maxRecDepth 100000 in
theorem cok_digit : ∀ c : UInt8, cok [(0x30, 0x39)] c = Lexer.isDigit c := by
  apply forall_byte; decide

set_option maxRecDepth 100000 in
theorem cok_zero : ∀ c : UInt8, cok [(0x30, 0x30)] c = (c == 0x30) := by
  apply forall_byte; decide

set_option maxRecDepth 100000 in
theorem cok_minus : ∀ c : UInt8, cok [(0x2D, 0x2D)] c = (c == 0x2D) := by
  apply forall_byte; decide

set_option maxRecDepth 100000 in
theorem digit_word : ∀ c : UInt8, Lexer.isDigit c = true → Regex.isWord c = true := by
  apply forall_byte; decide

set_option maxRecDepth 100000 in
theorem digit_not_minus : ∀ c : UInt8, Lexer.isDigit c = true → (c == 0x2D) = false := by
  apply forall_byte; decide

/-! ## structural lemmas on `Matches` -/

theorem Matches_cat_iff (a b : Re) (pre w post : Bytes) :
    Matches (.cat a b) pre w post ↔
      ∃ w1 w2, w = w1 ++ w2 ∧ Matches a pre w1 (w2 ++ post) ∧ Matches b (w1.reverse ++ pre) w2 post :=
  Iff.rfl

theorem Matches_alt_iff (a b : Re) (pre w post : Bytes) :
    Matches (.alt a b) pre w post ↔ Matches a pre w post ∨ Matches b pre w post := Iff.rfl

theorem Matches_bot_iff (pre w post : Bytes) : Matches .bot pre w post ↔ w = [] ∧ pre = [] := Iff.rfl

theorem Matches_wordb_iff (pre w post : Bytes) :
    Matches .wordb pre w post ↔ w = [] ∧ wordBefore pre ≠ wordAfter post := Iff.rfl

theorem Matches_cls_iff (rs : Ranges) (pre w post : Bytes) :
    Matches (.cls rs) pre w post ↔ ∃ c, w = [c] ∧ cok rs c = true := by
  simp [Matches, cok]

theorem Matches_rep_iff (a : Re) (mn : Nat) (mx : Option Nat) (pre w post : Bytes) :
    Matches (.rep a mn mx) pre w post ↔
      ∃ k, mn ≤ k ∧ (∀ M, mx = some M → k ≤ M) ∧ IterN (Matches a) k pre w post := Iff.rfl

theorem IterN_cls (rs : Ranges) : ∀ (k : Nat) (pre w post : Bytes),
    IterN (Matches (.cls rs)) k pre w post ↔ (w.length = k ∧ ∀ c ∈ w, cok rs c = true) := by
  intro k
  induction k with
  | zero =>
    intro pre w post
    simp only [IterN]
    constructor
    · rintro rfl; simp
    · rintro ⟨h, _⟩; exact List.length_eq_zero_iff.mp h
  | succ k ih =>
    intro pre w post
    simp only [IterN]
    constructor
    · rintro ⟨w1, w2, rfl, h1, h2⟩
      obtain ⟨c, rfl, hc⟩ := (Matches_cls_iff _ _ _ _).mp h1
      obtain ⟨hl, hall⟩ := (ih _ _ _).mp h2
      refine ⟨by simp [hl], ?_⟩
      intro x hx
      simp only [List.cons_append, List.nil_append, List.mem_cons] at hx
      rcases hx with rfl | hx
      · exact hc
      · exact hall x hx
    · rintro ⟨hl, hall⟩
      cases w with
      | nil => simp at hl
      | cons c t =>
        refine ⟨[c], t, rfl, (Matches_cls_iff _ _ _ _).mpr ⟨c, rfl, hall c (by simp)⟩, ?_⟩
        exact (ih _ _ _).mpr ⟨by simpa using hl, fun x hx => hall x (by simp [hx])⟩

/-- a repeated class: only the length and the members matter -/
theorem Matches_rep_cls (rs : Ranges) (mn : Nat) (mx : Option Nat) (pre w post : Bytes) :
    Matches (.rep (.cls rs) mn mx) pre w post ↔
      (mn ≤ w.length ∧ (∀ M, mx = some M → w.length ≤ M) ∧ ∀ c ∈ w, cok rs c = true) := by
  rw [Matches_rep_iff]
  constructor
  · rintro ⟨k, h1, h2, h3⟩
    obtain ⟨hl, hall⟩ := (IterN_cls rs k pre w post).mp h3
    subst hl
    exact ⟨h1, h2, hall⟩
  · rintro ⟨h1, h2, h3⟩
    exact ⟨w.length, h1, h2, (IterN_cls rs _ pre w post).mpr ⟨rfl, h3⟩⟩

/-- `a?` -/
theorem Matches_opt (a : Re) (pre w post : Bytes) :
    Matches (.rep a 0 (some 1)) pre w post ↔ (w = [] ∨ Matches a pre w post) := by
  rw [Matches_rep_iff]
  constructor
  · rintro ⟨k, _, h2, h3⟩
    have hk := h2 1 rfl
    match k, hk, h3 with
    | 0, _, h3 => left; simpa [IterN] using h3
    | 1, _, h3 =>
      right
      obtain ⟨w1, w2, rfl, hm, hw2⟩ := h3
      simp only [IterN] at hw2
      subst hw2
      simpa using hm
  · rintro (rfl | h)
    · exact ⟨0, Nat.le_refl _, by intro M hM; injection hM with hM; omega, rfl⟩
    · exact ⟨1, by omega, by intro M hM; injection hM with hM; omega, ⟨w, [], by simp, by simpa using h, rfl⟩⟩

theorem wordBefore_run (x d pre : Bytes) (hd : d ≠ []) (hall : ∀ c ∈ d, Regex.isWord c = true) :
    wordBefore ((x ++ d).reverse ++ pre) = true := by
  rw [List.reverse_append]
  have hne : d.reverse ≠ [] := by simpa using hd
  cases hr : d.reverse with
  | nil => exact absurd hr hne
  | cons c t =>
    have : c ∈ d := by
      have : c ∈ d.reverse := by rw [hr]; simp
      simpa using this
    simp [wordBefore, hall c this]

theorem boundary_iff (post : Bytes) : Lexer.boundary post = true ↔ wordAfter post = false := by
  cases post with
  | nil => simp [Lexer.boundary, wordAfter]
  | cons c t => simp [Lexer.boundary, wordAfter, word_eq]

/-! ## Lexer helper functions -/

theorem spanDigits_eq (b : Bytes) : b = (Lexer.spanDigits b).1 ++ (Lexer.spanDigits b).2 := by
  induction b with
  | nil => simp [Lexer.spanDigits]
  | cons c r ih =>
    unfold Lexer.spanDigits
    by_cases hc : Lexer.isDigit c = true
    · simp only [hc, if_true, List.cons_append]
      rw [← ih]
    · simp [hc]

theorem spanDigits_snd_head (b : Bytes) : ∀ c t, (Lexer.spanDigits b).2 = c :: t → Lexer.isDigit c = false := by
  induction b with
  | nil => intro c t h; simp [Lexer.spanDigits] at h
  | cons x r ih =>
    intro c t h
    unfold Lexer.spanDigits at h
    by_cases hx : Lexer.isDigit x = true
    · simp only [hx, if_true] at h
      exact ih c t h
    · simp only [hx] at h
      simp only [Bool.false_eq_true, if_false, List.cons.injEq] at h
      rw [← h.1]; simpa using hx

theorem spanDigits_append (d post : Bytes) (hd : ∀ c ∈ d, Lexer.isDigit c = true)
    (hp : ∀ c t, post = c :: t → Lexer.isDigit c = false) :
    Lexer.spanDigits (d ++ post) = (d, post) := by
  induction d with
  | nil =>
    cases post with
    | nil => simp [Lexer.spanDigits]
    | cons c t => simp [Lexer.spanDigits, hp c t rfl]
  | cons x r ih =>
    have hx := hd x (by simp)
    simp only [List.cons_append]
    unfold Lexer.spanDigits
    simp only [hx, if_true]
    rw [ih (fun c hc => hd c (by simp [hc]))]

theorem optMinus_eq (b : Bytes) : b = (Lexer.optMinus b).1 ++ (Lexer.optMinus b).2 := by
  cases b with
  | nil => simp [Lexer.optMinus]
  | cons c r =>
    unfold Lexer.optMinus
    by_cases hc : (c == 0x2D) = true <;> simp [hc]

theorem optMinus_fst (b : Bytes) : (Lexer.optMinus b).1 = [] ∨ (Lexer.optMinus b).1 = [0x2D] := by
  cases b with
  | nil => simp [Lexer.optMinus]
  | cons c r =>
    unfold Lexer.optMinus
    by_cases hc : (c == 0x2D) = true
    · right; simp [hc]; exact eq_of_beq hc
    · left; simp [hc]

theorem optMinus_minus (r : Bytes) : Lexer.optMinus (0x2D :: r) = ([0x2D], r) := by
  simp [Lexer.optMinus]

theorem optMinus_digit (c : UInt8) (r : Bytes) (h : Lexer.isDigit c = true) :
    Lexer.optMinus (c :: r) = ([], c :: r) := by
  simp [Lexer.optMinus, digit_not_minus c h]

/-- a boundary after the token: the rest does not start with a digit -/
theorem boundary_not_digit (post : Bytes) (h : Lexer.boundary post = true) :
    ∀ c t, post = c :: t → Lexer.isDigit c = false := by
  intro c t e
  subst e
  simp only [Lexer.boundary, Bool.not_eq_true'] at h
  cases hd : Lexer.isDigit c with
  | false => rfl
  | true =>
    have := digit_word c hd
    rw [word_eq, h] at this
    cases this

/-! ## the integer rule `^-?0*\d{1,19}\b` -/

def intRe : Re :=
  .cat .bot (.cat (.rep (.cls [(0x2D, 0x2D)]) 0 (some 1)) (.cat (.rep (.cls [(0x30, 0x30)]) 0 none)
    (.cat (.rep (.cls [(0x30, 0x39)]) 1 (some 19)) .wordb)))

theorem dropWhile_zeros_append (zs ds : Bytes) (hz : ∀ c ∈ zs, c = 0x30) :
    (zs ++ ds).dropWhile (· == 0x30) = ds.dropWhile (· == 0x30) := by
  induction zs with
  | nil => rfl
  | cons z r ih =>
    have : z = 0x30 := hz z (by simp)
    subst this
    simp only [List.cons_append, List.dropWhile_cons, beq_self_eq_true, if_true]
    exact ih (fun c hc => hz c (by simp [hc]))

/-- a digit run whose significant part has at most 19 digits splits as the
regex wants it: zeros, then 1 to 19 digits -/
theorem split_zeros (ds : Bytes) (hne : ds ≠ []) (hd : ∀ c ∈ ds, Lexer.isDigit c = true)
    (h19 : (ds.dropWhile (· == 0x30)).length ≤ 19) :
    ∃ zs dd, ds = zs ++ dd ∧ (∀ c ∈ zs, c = 0x30) ∧ 1 ≤ dd.length ∧ dd.length ≤ 19 ∧
      ∀ c ∈ dd, Lexer.isDigit c = true := by
  have hsplit := List.takeWhile_append_dropWhile (p := (· == (0x30 : UInt8))) (l := ds)
  have hz : ∀ c ∈ ds.takeWhile (· == 0x30), c = 0x30 := fun c hc => Lexer.mem_takeWhile_zero ds c hc
  by_cases hdw : ds.dropWhile (· == 0x30) = []
  · -- all zeros: the last zero is the `\d{1,19}` part
    rw [hdw, List.append_nil] at hsplit
    have hall : ∀ c ∈ ds, c = 0x30 := by rw [← hsplit]; exact hz
    refine ⟨ds.dropLast, [ds.getLast hne], (List.dropLast_concat_getLast hne).symm, ?_, by simp, by simp, ?_⟩
    · intro c hc; exact hall c (List.dropLast_subset _ hc)
    · intro c hc
      simp only [List.mem_singleton] at hc
      subst hc
      exact hd _ (List.getLast_mem hne)
  · refine ⟨_, _, hsplit.symm, hz, ?_, h19, ?_⟩
    · cases hx : ds.dropWhile (· == 0x30) with
      | nil => exact absurd hx hdw
      | cons a t => simp
    · intro c hc
      exact hd c ((List.dropWhile_sublist _).subset hc)

theorem matchInt_prefix (s w : Bytes) (h : Lexer.matchInt s = some w) : ∃ post, s = w ++ post := by
  unfold Lexer.matchInt at h
  simp only at h
  split at h
  · injection h with h
    refine ⟨(Lexer.spanDigits (Lexer.optMinus s).2).2, ?_⟩
    rw [← h, List.append_assoc, ← spanDigits_eq, ← optMinus_eq]
  · cases h

theorem int_matches_iff (w post : Bytes) :
    Matches intRe [] w post ↔ Lexer.matchInt (w ++ post) = some w := by
  constructor
  · intro h
    simp only [intRe, Matches_cat_iff, Matches_bot_iff, Matches_rep_cls, Matches_wordb_iff] at h
    obtain ⟨w0, w1, rfl, ⟨rfl, _⟩, sg, w2, rfl, ⟨_, hsg1, hsg⟩, zs, w3, rfl, ⟨_, _, hzs⟩, ds, w4, rfl,
      ⟨hds1, hds2, hds⟩, rfl, hb⟩ := h
    have hds2 := hds2 19 rfl
    have hsg1 := hsg1 1 rfl
    simp only [cok_digit] at hds
    simp only [cok_zero, beq_iff_eq] at hzs
    simp only [cok_minus, beq_iff_eq] at hsg
    have hdne : ds ≠ [] := by intro e; subst e; simp at hds1
    have hzd : ∀ c ∈ zs ++ ds, Lexer.isDigit c = true := by
      intro c hc
      rcases List.mem_append.mp hc with hc | hc
      · rw [hzs c hc]; decide
      · exact hds c hc
    -- the boundary
    have hwb : wordBefore (([] ++ (sg ++ zs) ++ ds).reverse ++ []) = true :=
      wordBefore_run _ ds [] hdne (fun c hc => digit_word c (hds c hc))
    have hbd : Lexer.boundary post = true := by
      rw [boundary_iff]
      simp only [List.nil_append, List.append_nil, List.reverse_append, List.append_assoc,
        List.reverse_nil] at hb hwb
      rw [hwb] at hb
      cases hwa : wordAfter post with
      | false => rfl
      | true => rw [hwa] at hb; exact absurd rfl hb
    have hspan : Lexer.spanDigits ((zs ++ ds) ++ post) = (zs ++ ds, post) :=
      spanDigits_append _ _ hzd (boundary_not_digit post hbd)
    have h19 : ((zs ++ ds).dropWhile (· == 0x30)).length ≤ 19 := by
      rw [dropWhile_zeros_append zs ds hzs]
      exact Nat.le_trans (List.dropWhile_sublist _).length_le hds2
    have hne : zs ++ ds ≠ [] := by simp [hdne]
    -- the sign
    have hopt : Lexer.optMinus (sg ++ ((zs ++ ds) ++ post)) = (sg, (zs ++ ds) ++ post) := by
      match sg, hsg1, hsg with
      | [], _, _ =>
        cases hzd' : zs ++ ds with
        | nil => exact absurd hzd' hne
        | cons c t =>
          have : Lexer.isDigit c = true := hzd c (by rw [hzd']; simp)
          simpa using optMinus_digit c (t ++ post) this
      | [c], _, hc =>
        have : c = 0x2D := hc c (by simp)
        subst this
        simpa using optMinus_minus ((zs ++ ds) ++ post)
    have e : [] ++ (sg ++ (zs ++ (ds ++ []))) ++ post = sg ++ ((zs ++ ds) ++ post) := by simp
    rw [e]
    unfold Lexer.matchInt
    simp only [hopt, hspan, hbd, h19]
    simp [hne]
  · intro h
    have hpre := h
    unfold Lexer.matchInt at h
    simp only at h
    split at h
    · rename_i hc
      simp only [Bool.and_eq_true, decide_eq_true_eq] at hc
      obtain ⟨⟨hne, h19⟩, hbd⟩ := hc
      injection h with h
      -- the rest after the digit run is `post`
      have hpost : (Lexer.spanDigits (Lexer.optMinus (w ++ post)).2).2 = post := by
        have e1 := optMinus_eq (w ++ post)
        have e2 := spanDigits_eq (Lexer.optMinus (w ++ post)).2
        rw [e2, ← List.append_assoc, h] at e1
        exact (List.append_cancel_left e1).symm
      rw [hpost] at hbd
      have hne' : (Lexer.spanDigits (Lexer.optMinus (w ++ post)).2).1 ≠ [] := by simpa using hne
      obtain ⟨zs, dd, hsplit, hzs, hdd1, hdd2, hdd⟩ :=
        split_zeros _ hne' (Lexer.spanDigits_fst_all _) h19
      have hddne : dd ≠ [] := by intro e; subst e; simp at hdd1
      unfold intRe
      refine ⟨[], w, rfl, ⟨rfl, rfl⟩, (Lexer.optMinus (w ++ post)).1, zs ++ dd, ?_,
        (Matches_rep_cls _ _ _ _ _ _).mpr ⟨Nat.zero_le _, ?_, ?_⟩,
        zs, dd, rfl, (Matches_rep_cls _ _ _ _ _ _).mpr ⟨Nat.zero_le _, (by intro M hM; cases hM), ?_⟩, dd, [], (by simp),
        (Matches_rep_cls _ _ _ _ _ _).mpr ⟨hdd1, (by intro M hM; injection hM with hM; omega), ?_⟩, rfl, ?_⟩
      · rw [← hsplit, h]
      · intro M hM
        injection hM with hM
        rcases optMinus_fst (w ++ post) with e | e <;> rw [e] <;> simp <;> omega
      · intro c hc
        rw [cok_minus]
        rcases optMinus_fst (w ++ post) with e | e <;> rw [e] at hc <;> simp at hc
        subst hc; rfl
      · intro c hc; rw [cok_zero, hzs c hc]; rfl
      · intro c hc; rw [cok_digit]; exact hdd c hc
      · have hwb := wordBefore_run ([] ++ ((Lexer.optMinus (w ++ post)).1 ++ zs)) dd [] hddne
          (fun c hc => digit_word c (hdd c hc))
        simp only [List.nil_append, List.append_nil, List.reverse_append, List.append_assoc,
          List.reverse_nil] at hwb ⊢
        rw [hwb, (boundary_iff post).mp hbd]
        decide
    · cases h

/-- For every input the hand-written integer recogniser returns exactly what
the leftmost-first matcher returns for the AST of `^-?0*\d{1,19}\b`. -/
theorem pmatch_intRe (s : Bytes) : pmatch intRe s = Lexer.matchInt s :=
  pmatch_eq_of_unique intRe Lexer.matchInt matchInt_prefix int_matches_iff s

/-! ## the float rule `^-?\d+(?:(?:\.\d+)?[eE][+-]?|\.)\d+\b` -/

def floatRe : Re :=
  .cat .bot (.cat (.rep (.cls [(0x2D, 0x2D)]) 0 (some 1)) (.cat (.rep (.cls [(0x30, 0x39)]) 1 none)
    (.cat (.alt (.cat (.rep (.cat (.cls [(0x2E, 0x2E)]) (.rep (.cls [(0x30, 0x39)]) 1 none)) 0 (some 1))
                  (.cat (.cls [(0x65, 0x65), (0x45, 0x45)]) (.rep (.cls [(0x2B, 0x2B), (0x2D, 0x2D)]) 0 (some 1))))
                (.cls [(0x2E, 0x2E)]))
      (.cat (.rep (.cls [(0x30, 0x39)]) 1 none) .wordb))))

def isE (c : UInt8) : Bool := c == 0x65 || c == 0x45
def isSign (c : UInt8) : Bool := c == 0x2B || c == 0x2D

set_option maxRecDepth 100000 in
theorem cok_eE : ∀ c : UInt8, cok [(0x65, 0x65), (0x45, 0x45)] c = isE c := by
  apply forall_byte; decide

set_option maxRecDepth 100000 in
theorem cok_sign : ∀ c : UInt8, cok [(0x2B, 0x2B), (0x2D, 0x2D)] c = isSign c := by
  apply forall_byte; decide

set_option maxRecDepth 100000 in
theorem cok_dot : ∀ c : UInt8, cok [(0x2E, 0x2E)] c = (c == 0x2E) := by
  apply forall_byte; decide

set_option maxRecDepth 100000 in
theorem digit_not_sign' : ∀ c : UInt8, Lexer.isDigit c = true → isSign c = false := by
  apply forall_byte; decide

set_option maxRecDepth 100000 in
theorem isE_props : ∀ c : UInt8, isE c = true →
    Lexer.isDigit c = false ∧ (c == 0x2E) = false ∧ Regex.isWord c = true := by
  apply forall_byte; decide

theorem dot_not_digit : Lexer.isDigit 0x2E = false := by decide

theorem optSign_eq (b : Bytes) : b = (Lexer.optSign b).1 ++ (Lexer.optSign b).2 := by
  cases b with
  | nil => simp [Lexer.optSign]
  | cons c r =>
    unfold Lexer.optSign
    by_cases hc : (c == 0x2B || c == 0x2D) = true <;> simp [hc]

theorem optSign_fst (b : Bytes) :
    (Lexer.optSign b).1.length ≤ 1 ∧ ∀ c ∈ (Lexer.optSign b).1, isSign c = true := by
  cases b with
  | nil => simp [Lexer.optSign]
  | cons c r =>
    unfold Lexer.optSign
    by_cases hc : (c == 0x2B || c == 0x2D) = true
    · simp only [hc, if_true, List.length_cons, List.length_nil, Nat.le_refl, List.mem_singleton, true_and]
      intro x hx; subst hx; exact hc
    · simp [hc]

theorem optSign_shape (esg t : Bytes) (h1 : esg.length ≤ 1) (h2 : ∀ c ∈ esg, isSign c = true)
    (ht : ∀ c r, t = c :: r → isSign c = false) :
    Lexer.optSign (esg ++ t) = (esg, t) := by
  match esg, h1, h2 with
  | [], _, _ =>
    cases t with
    | nil => simp [Lexer.optSign]
    | cons c r =>
      have := ht c r rfl
      simp only [isSign] at this
      simp [Lexer.optSign, this]
  | [c], _, h2 =>
    have := h2 c (by simp)
    simp only [isSign] at this
    simp [Lexer.optSign, this]

theorem head_digit_not_sign (d post : Bytes) (hne : d ≠ []) (hd : ∀ c ∈ d, Lexer.isDigit c = true) :
    ∀ c r, d ++ post = c :: r → isSign c = false := by
  intro c r e
  cases d with
  | nil => exact absurd rfl hne
  | cons x t =>
    simp only [List.cons_append, List.cons.injEq] at e
    rw [← e.1]
    exact digit_not_sign' x (hd x (by simp))

/-- the exponent part, forwards -/
theorem expPart_fwd (e : UInt8) (esg d3 post : Bytes) (he : isE e = true) (h1 : esg.length ≤ 1)
    (h2 : ∀ c ∈ esg, isSign c = true) (hne : d3 ≠ []) (hd : ∀ c ∈ d3, Lexer.isDigit c = true)
    (hb : Lexer.boundary post = true) :
    Lexer.expPart (e :: (esg ++ (d3 ++ post))) = some (e :: (esg ++ d3)) := by
  have hE : (e == 0x65 || e == 0x45) = true := he
  unfold Lexer.expPart
  simp only [hE, if_true]
  rw [optSign_shape esg (d3 ++ post) h1 h2 (head_digit_not_sign d3 post hne hd)]
  simp only
  rw [spanDigits_append d3 post hd (boundary_not_digit post hb)]
  simp [hne, hb]

/-- the exponent part, backwards -/
theorem expPart_inv (t x : Bytes) (h : Lexer.expPart t = some x) :
    ∃ e esg d3 post, t = e :: (esg ++ (d3 ++ post)) ∧ x = e :: (esg ++ d3) ∧ isE e = true ∧
      esg.length ≤ 1 ∧ (∀ c ∈ esg, isSign c = true) ∧ d3 ≠ [] ∧ (∀ c ∈ d3, Lexer.isDigit c = true) ∧
      Lexer.boundary post = true := by
  cases t with
  | nil => simp [Lexer.expPart] at h
  | cons c r =>
    simp only [Lexer.expPart] at h
    split at h
    · rename_i hE
      split at h
      · rename_i hc
        have hc : (Lexer.spanDigits (Lexer.optSign r).2).1 ≠ [] ∧
            Lexer.boundary (Lexer.spanDigits (Lexer.optSign r).2).2 = true := by simpa using hc
        injection h with h
        refine ⟨c, (Lexer.optSign r).1, (Lexer.spanDigits (Lexer.optSign r).2).1,
          (Lexer.spanDigits (Lexer.optSign r).2).2, ?_, h.symm, hE, (optSign_fst r).1, (optSign_fst r).2,
          hc.1, Lexer.spanDigits_fst_all _, hc.2⟩
        rw [← spanDigits_eq, ← optSign_eq]
      · cases h
    · cases h

theorem boundary_not_E (post : Bytes) (hb : Lexer.boundary post = true) : Lexer.expPart post = none := by
  cases post with
  | nil => simp [Lexer.expPart]
  | cons c t =>
    unfold Lexer.expPart
    have : (c == 0x65 || c == 0x45) = false := by
      cases hE : (c == 0x65 || c == 0x45) with
      | false => rfl
      | true =>
        have := (isE_props c hE).2.2
        simp only [Lexer.boundary, Bool.not_eq_true'] at hb
        rw [word_eq, hb] at this
        cases this
    simp [this]

/-- the shape of what follows the integer part in a float token -/
inductive Tail : Bytes → Prop
  | exp (e : UInt8) (esg d3 : Bytes) : isE e = true → esg.length ≤ 1 → (∀ c ∈ esg, isSign c = true) →
      d3 ≠ [] → (∀ c ∈ d3, Lexer.isDigit c = true) → Tail (e :: (esg ++ d3))
  | fracExp (d2 : Bytes) (e : UInt8) (esg d3 : Bytes) : d2 ≠ [] → (∀ c ∈ d2, Lexer.isDigit c = true) →
      isE e = true → esg.length ≤ 1 → (∀ c ∈ esg, isSign c = true) →
      d3 ≠ [] → (∀ c ∈ d3, Lexer.isDigit c = true) → Tail (0x2E :: (d2 ++ e :: (esg ++ d3)))
  | frac (d3 : Bytes) : d3 ≠ [] → (∀ c ∈ d3, Lexer.isDigit c = true) → Tail (0x2E :: d3)

/-- the two alternatives after the integer part, as `matchFloat false` tries them -/
def floatTail (r1 : Bytes) : Option Bytes :=
  match Lexer.fracExp r1 with
  | some t => some t
  | none => Lexer.fracOnly r1

theorem matchFloat_eq (b : Bytes) :
    Lexer.matchFloat false b =
      (if (Lexer.spanDigits (Lexer.optMinus b).2).1 = [] then none
       else (floatTail (Lexer.spanDigits (Lexer.optMinus b).2).2).map fun t =>
         (Lexer.optMinus b).1 ++ (Lexer.spanDigits (Lexer.optMinus b).2).1 ++ t) := by
  unfold Lexer.matchFloat floatTail
  simp only
  split
  · rfl
  · cases Lexer.fracExp (Lexer.spanDigits (Lexer.optMinus b).2).2 <;> rfl

theorem floatTail_fwd (t post : Bytes) (ht : Tail t) (hb : Lexer.boundary post = true) :
    floatTail (t ++ post) = some t := by
  cases ht with
  | exp e esg d3 he h1 h2 hne hd =>
    have hne2 := (isE_props e he).2.1
    have hfe : Lexer.fracExp (e :: (esg ++ d3) ++ post) = Lexer.expPart (e :: (esg ++ d3) ++ post) := by
      simp only [List.cons_append]
      unfold Lexer.fracExp
      split
      · rename_i heq
        injection heq with h1 _
        rw [← h1] at hne2
        simp at hne2
      · rfl
    unfold floatTail
    rw [hfe]
    have := expPart_fwd e esg d3 post he h1 h2 hne hd hb
    simp only [List.cons_append, List.append_assoc] at this ⊢
    rw [this]
  | fracExp d2 e esg d3 hne2 hd2 he h1 h2 hne hd =>
    have hE := (isE_props e he).1
    have hsp : Lexer.spanDigits (d2 ++ (e :: (esg ++ (d3 ++ post)))) = (d2, e :: (esg ++ (d3 ++ post))) :=
      spanDigits_append d2 _ hd2 (by intro c r hcr; injection hcr with h1 _; rw [← h1]; exact hE)
    have := expPart_fwd e esg d3 post he h1 h2 hne hd hb
    unfold floatTail
    simp only [List.cons_append, List.append_assoc, Lexer.fracExp, hsp, this]
    simp [hne2]
  | frac d3 hne hd =>
    have hsp : Lexer.spanDigits (d3 ++ post) = (d3, post) :=
      spanDigits_append d3 post hd (boundary_not_digit post hb)
    unfold floatTail
    simp only [List.cons_append, Lexer.fracExp, Lexer.fracOnly, hsp, boundary_not_E post hb]
    simp [hne, hb]

theorem fracExp_cases (t : Bytes) :
    (∃ r, t = 0x2E :: r ∧ Lexer.fracExp t =
        (if (Lexer.spanDigits r).1 ≠ [] then
          (Lexer.expPart (Lexer.spanDigits r).2).map fun e => 0x2E :: ((Lexer.spanDigits r).1 ++ e)
         else none)) ∨
    ((∀ r, t ≠ 0x2E :: r) ∧ Lexer.fracExp t = Lexer.expPart t) := by
  unfold Lexer.fracExp
  split
  · rename_i r
    left; exact ⟨r, rfl, rfl⟩
  · rename_i hne
    right; exact ⟨fun r e => hne r e, rfl⟩

theorem floatTail_inv (r1 t : Bytes) (h : floatTail r1 = some t) :
    ∃ post, r1 = t ++ post ∧ Tail t ∧ Lexer.boundary post = true := by
  unfold floatTail at h
  cases hfe : Lexer.fracExp r1 with
  | some x =>
    rw [hfe] at h
    injection h with h
    subst h
    rcases fracExp_cases r1 with ⟨r, rfl, he⟩ | ⟨_, he⟩
    · rw [he] at hfe
      split at hfe
      · rename_i hd2
        cases hx : Lexer.expPart (Lexer.spanDigits r).2 with
        | none => rw [hx] at hfe; cases hfe
        | some ex =>
          rw [hx] at hfe
          injection hfe with hfe
          obtain ⟨e, esg, d3, post, ht, rfl, hE, h1, h2, hne, hd, hb⟩ := expPart_inv _ _ hx
          refine ⟨post, ?_, ?_, hb⟩
          · rw [← hfe]
            have := spanDigits_eq r
            rw [ht] at this
            simp only [List.cons_append, List.append_assoc, List.cons.injEq, true_and]
            simpa [List.append_assoc] using this
          · rw [← hfe]
            exact Tail.fracExp _ e esg d3 hd2 (Lexer.spanDigits_fst_all _) hE h1 h2 hne hd
      · cases hfe
    · rw [he] at hfe
      obtain ⟨e, esg, d3, post, ht, rfl, hE, h1, h2, hne, hd, hb⟩ := expPart_inv _ _ hfe
      exact ⟨post, by rw [ht]; simp, Tail.exp e esg d3 hE h1 h2 hne hd, hb⟩
  | none =>
    rw [hfe] at h
    simp only at h
    unfold Lexer.fracOnly at h
    split at h
    · rename_i r
      simp only at h
      split at h
      · rename_i hc
        simp only [Bool.and_eq_true, decide_eq_true_eq] at hc
        injection h with h
        refine ⟨(Lexer.spanDigits r).2, ?_, ?_, hc.2⟩
        · rw [← h]
          simp only [List.cons_append, List.cons.injEq, true_and]
          exact spanDigits_eq r
        · rw [← h]
          exact Tail.frac _ (by simpa using hc.1) (Lexer.spanDigits_fst_all _)
      · cases h
    · cases h

theorem matchFloat_prefix (s w : Bytes) (h : Lexer.matchFloat false s = some w) : ∃ post, s = w ++ post := by
  rw [matchFloat_eq] at h
  split at h
  · cases h
  · cases ht : floatTail (Lexer.spanDigits (Lexer.optMinus s).2).2 with
    | none => rw [ht] at h; cases h
    | some t =>
      rw [ht] at h
      simp only [Option.map_some, Option.some.injEq] at h
      obtain ⟨post, hp, _, _⟩ := floatTail_inv _ _ ht
      refine ⟨post, ?_⟩
      rw [← h, List.append_assoc, List.append_assoc, ← hp, ← spanDigits_eq, ← optMinus_eq]

theorem Tail_head {t : Bytes} (ht : Tail t) : ∃ c r, t = c :: r ∧ Lexer.isDigit c = false := by
  cases ht with
  | exp e esg d3 he _ _ _ _ => exact ⟨e, _, rfl, (isE_props e he).1⟩
  | fracExp d2 e esg d3 _ _ _ _ _ _ _ => exact ⟨0x2E, _, rfl, dot_not_digit⟩
  | frac d3 _ _ => exact ⟨0x2E, _, rfl, dot_not_digit⟩

theorem Tail_split {t : Bytes} (ht : Tail t) :
    ∃ y d3, t = y ++ d3 ∧ d3 ≠ [] ∧ ∀ c ∈ d3, Lexer.isDigit c = true := by
  cases ht with
  | exp e esg d3 _ _ _ hne hd => exact ⟨e :: esg, d3, by simp, hne, hd⟩
  | fracExp d2 e esg d3 _ _ _ _ _ hne hd => exact ⟨0x2E :: (d2 ++ e :: esg), d3, by simp, hne, hd⟩
  | frac d3 hne hd => exact ⟨[0x2E], d3, by simp, hne, hd⟩

/-- what the float regex matches, as a shape -/
def FloatShape (w post : Bytes) : Prop :=
  ∃ sg d1 t, w = sg ++ (d1 ++ t) ∧ sg.length ≤ 1 ∧ (∀ c ∈ sg, c = 0x2D) ∧ d1 ≠ [] ∧
    (∀ c ∈ d1, Lexer.isDigit c = true) ∧ Tail t ∧ Lexer.boundary post = true

theorem digits_of_rep {pre w post : Bytes} {mx : Option Nat}
    (h : Matches (.rep (.cls [(0x30, 0x39)]) 1 mx) pre w post) :
    w ≠ [] ∧ ∀ c ∈ w, Lexer.isDigit c = true := by
  obtain ⟨h1, _, h3⟩ := (Matches_rep_cls _ _ _ _ _ _).mp h
  refine ⟨by intro e; subst e; simp at h1, ?_⟩
  intro c hc
  rw [← cok_digit]; exact h3 c hc

theorem rep_of_digits {pre w post : Bytes} (hne : w ≠ []) (hd : ∀ c ∈ w, Lexer.isDigit c = true) :
    Matches (.rep (.cls [(0x30, 0x39)]) 1 none) pre w post := by
  refine (Matches_rep_cls _ _ _ _ _ _).mpr ⟨?_, (by intro M hM; cases hM), ?_⟩
  · cases w with
    | nil => exact absurd rfl hne
    | cons c t => simp
  · intro c hc; rw [cok_digit]; exact hd c hc

theorem float_shape (w post : Bytes) : Matches floatRe [] w post ↔ FloatShape w post := by
  constructor
  · intro h
    unfold floatRe at h
    obtain ⟨w0, w1, rfl, ⟨rfl, _⟩, sg, w2, rfl, hsg, d1, w3, rfl, hd1, mid, w4, rfl, hmid, d3, w5, rfl, hd3,
      rfl, hb⟩ := h
    obtain ⟨_, hsg1, hsg2⟩ := (Matches_rep_cls _ _ _ _ _ _).mp hsg
    have hsg1 := hsg1 1 rfl
    obtain ⟨hd1ne, hd1d⟩ := digits_of_rep hd1
    obtain ⟨hd3ne, hd3d⟩ := digits_of_rep hd3
    have hbd : Lexer.boundary post = true := by
      rw [boundary_iff]
      have hwb := wordBefore_run (sg ++ d1 ++ mid) d3 []
        hd3ne (fun c hc => digit_word c (hd3d c hc))
      simp only [List.append_nil, List.reverse_append, List.append_assoc, List.reverse_nil] at hb hwb
      rw [hwb] at hb
      cases hwa : wordAfter post with
      | false => rfl
      | true => rw [hwa] at hb; exact absurd rfl hb
    have htail : Tail (mid ++ d3) := by
      rcases hmid with hA | hB
      · obtain ⟨fr, w6, rfl, hfr, ee, sg2, rfl, hee, hsg2'⟩ := hA
        obtain ⟨e, rfl, he⟩ := (Matches_cls_iff _ _ _ _).mp hee
        rw [cok_eE] at he
        obtain ⟨_, hs1, hs2⟩ := (Matches_rep_cls _ _ _ _ _ _).mp hsg2'
        have hs1 := hs1 1 rfl
        have hs2 : ∀ c ∈ sg2, isSign c = true := by intro c hc; rw [← cok_sign]; exact hs2 c hc
        rcases (Matches_opt _ _ _ _).mp hfr with rfl | hfr
        · simpa using Tail.exp e sg2 d3 he hs1 hs2 hd3ne hd3d
        · obtain ⟨dt, d2, rfl, hdt, hd2⟩ := hfr
          obtain ⟨c, rfl, hc⟩ := (Matches_cls_iff _ _ _ _).mp hdt
          rw [cok_dot] at hc
          have := eq_of_beq hc
          subst this
          obtain ⟨hd2ne, hd2d⟩ := digits_of_rep hd2
          simpa using Tail.fracExp d2 e sg2 d3 hd2ne hd2d he hs1 hs2 hd3ne hd3d
      · obtain ⟨c, rfl, hc⟩ := (Matches_cls_iff _ _ _ _).mp hB
        rw [cok_dot] at hc
        have := eq_of_beq hc
        subst this
        simpa using Tail.frac d3 hd3ne hd3d
    refine ⟨sg, d1, mid ++ d3, by simp, hsg1, ?_, hd1ne, hd1d, htail, hbd⟩
    intro c hc
    have := hsg2 c hc
    rw [cok_minus] at this
    exact eq_of_beq this
  · rintro ⟨sg, d1, t, rfl, hsg1, hsg2, hd1ne, hd1d, htail, hbd⟩
    have hwa := (boundary_iff post).mp hbd
    have hsgm : ∀ (pre post' : Bytes), Matches (.rep (.cls [(0x2D, 0x2D)]) 0 (some 1)) pre sg post' := by
      intro pre post'
      refine (Matches_rep_cls _ _ _ _ _ _).mpr ⟨Nat.zero_le _, (by intro M hM; injection hM with hM; omega), ?_⟩
      intro c hc; rw [cok_minus, hsg2 c hc]; rfl
    have hwbgen : ∀ (x d : Bytes), d ≠ [] → (∀ c ∈ d, Lexer.isDigit c = true) →
        wordBefore ((x ++ d).reverse ++ []) ≠ wordAfter post := by
      intro x d hne hd
      rw [wordBefore_run x d [] hne (fun c hc => digit_word c (hd c hc)), hwa]
      decide
    have hsignm : ∀ (esg pre post' : Bytes), esg.length ≤ 1 → (∀ c ∈ esg, isSign c = true) →
        Matches (.rep (.cls [(0x2B, 0x2B), (0x2D, 0x2D)]) 0 (some 1)) pre esg post' := by
      intro esg pre post' h1 h2
      refine (Matches_rep_cls _ _ _ _ _ _).mpr ⟨Nat.zero_le _, (by intro M hM; injection hM with hM; omega), ?_⟩
      intro c hc; rw [cok_sign]; exact h2 c hc
    unfold floatRe
    cases htail with
    | exp e esg d3 he h1 h2 hne hd =>
      refine ⟨[], _, rfl, ⟨rfl, rfl⟩, sg, _, rfl, hsgm _ _, d1, _, rfl, rep_of_digits hd1ne hd1d,
        e :: esg, d3, (by simp), Or.inl ⟨[], e :: esg, rfl, (Matches_opt _ _ _ _).mpr (Or.inl rfl),
          [e], esg, rfl, (Matches_cls_iff _ _ _ _).mpr ⟨e, rfl, by rw [cok_eE]; exact he⟩, hsignm _ _ _ h1 h2⟩,
        d3, [], (by simp), rep_of_digits hne hd, rfl, ?_⟩
      have := hwbgen (sg ++ d1 ++ e :: esg) d3 hne hd
      simpa [List.reverse_append, List.append_assoc] using this
    | fracExp d2 e esg d3 hne2 hd2 he h1 h2 hne hd =>
      refine ⟨[], _, rfl, ⟨rfl, rfl⟩, sg, _, rfl, hsgm _ _, d1, _, rfl, rep_of_digits hd1ne hd1d,
        0x2E :: (d2 ++ e :: esg), d3, (by simp), Or.inl ⟨0x2E :: d2, e :: esg, (by simp),
          (Matches_opt _ _ _ _).mpr (Or.inr ⟨[0x2E], d2, rfl,
            (Matches_cls_iff _ _ _ _).mpr ⟨0x2E, rfl, by decide⟩, rep_of_digits hne2 hd2⟩),
          [e], esg, rfl, (Matches_cls_iff _ _ _ _).mpr ⟨e, rfl, by rw [cok_eE]; exact he⟩, hsignm _ _ _ h1 h2⟩,
        d3, [], (by simp), rep_of_digits hne hd, rfl, ?_⟩
      have := hwbgen (sg ++ d1 ++ 0x2E :: (d2 ++ e :: esg)) d3 hne hd
      simpa [List.reverse_append, List.append_assoc] using this
    | frac d3 hne hd =>
      refine ⟨[], _, rfl, ⟨rfl, rfl⟩, sg, _, rfl, hsgm _ _, d1, _, rfl, rep_of_digits hd1ne hd1d,
        [0x2E], d3, (by simp), Or.inr ((Matches_cls_iff _ _ _ _).mpr ⟨0x2E, rfl, by decide⟩),
        d3, [], (by simp), rep_of_digits hne hd, rfl, ?_⟩
      have := hwbgen (sg ++ d1 ++ [0x2E]) d3 hne hd
      simpa [List.reverse_append, List.append_assoc] using this

theorem optMinus_shape (sg t : Bytes) (h1 : sg.length ≤ 1) (h2 : ∀ c ∈ sg, c = 0x2D)
    (ht : ∀ c r, t = c :: r → (c == 0x2D) = false) : Lexer.optMinus (sg ++ t) = (sg, t) := by
  match sg, h1, h2 with
  | [], _, _ =>
    cases t with
    | nil => simp [Lexer.optMinus]
    | cons c r => simp [Lexer.optMinus, ht c r rfl]
  | [c], _, h2 =>
    have := h2 c (by simp)
    subst this
    simp [Lexer.optMinus]

theorem float_shape_iff (w post : Bytes) :
    FloatShape w post ↔ Lexer.matchFloat false (w ++ post) = some w := by
  constructor
  · rintro ⟨sg, d1, t, rfl, hsg1, hsg2, hd1ne, hd1d, htail, hbd⟩
    obtain ⟨c0, r0, ht0, hc0⟩ := Tail_head htail
    have hopt : Lexer.optMinus (sg ++ (d1 ++ (t ++ post))) = (sg, d1 ++ (t ++ post)) := by
      apply optMinus_shape _ _ hsg1 hsg2
      intro c r e
      cases d1 with
      | nil => exact absurd rfl hd1ne
      | cons x y =>
        simp only [List.cons_append, List.cons.injEq] at e
        rw [← e.1]
        exact digit_not_minus x (hd1d x (by simp))
    have hsp : Lexer.spanDigits (d1 ++ (t ++ post)) = (d1, t ++ post) := by
      apply spanDigits_append _ _ hd1d
      intro c r e
      rw [ht0] at e
      simp only [List.cons_append, List.cons.injEq] at e
      rw [← e.1]; exact hc0
    rw [matchFloat_eq]
    simp only [List.append_assoc, hopt, hsp, floatTail_fwd t post htail hbd]
    simp [hd1ne]
  · intro h
    obtain ⟨post', hpre⟩ := matchFloat_prefix _ _ h
    rw [matchFloat_eq] at h
    split at h
    · cases h
    · rename_i hd1ne
      cases ht : floatTail (Lexer.spanDigits (Lexer.optMinus (w ++ post)).2).2 with
      | none => rw [ht] at h; cases h
      | some t =>
        rw [ht] at h
        simp only [Option.map_some, Option.some.injEq] at h
        obtain ⟨post2, hp, htail, hbd⟩ := floatTail_inv _ _ ht
        -- post2 = post
        have hpost : post2 = post := by
          have e1 := optMinus_eq (w ++ post)
          have e2 := spanDigits_eq (Lexer.optMinus (w ++ post)).2
          rw [hp] at e2
          rw [e2, ← List.append_assoc, ← List.append_assoc, h] at e1
          exact (List.append_cancel_left e1).symm
        subst hpost
        refine ⟨(Lexer.optMinus (w ++ post2)).1, (Lexer.spanDigits (Lexer.optMinus (w ++ post2)).2).1, t,
          h.symm.trans (List.append_assoc _ _ _), ?_, ?_, hd1ne, Lexer.spanDigits_fst_all _, htail, hbd⟩
        · rcases optMinus_fst (w ++ post2) with e | e <;> rw [e] <;> simp
        · intro c hc
          rcases optMinus_fst (w ++ post2) with e | e <;> rw [e] at hc <;> simp at hc
          exact hc

theorem float_matches_iff (w post : Bytes) :
    Matches floatRe [] w post ↔ Lexer.matchFloat false (w ++ post) = some w :=
  (float_shape w post).trans (float_shape_iff w post)

/-- For every input the hand-written float recogniser (for the repaired rule)
returns exactly what the leftmost-first matcher returns for the AST of
`^-?\d+(?:(?:\.\d+)?[eE][+-]?|\.)\d+\b`. -/
theorem pmatch_floatRe (s : Bytes) : pmatch floatRe s = Lexer.matchFloat false s :=
  pmatch_eq_of_unique floatRe (Lexer.matchFloat false) matchFloat_prefix float_matches_iff s

/-! ## what the rules admit is what the converters' syntax accepts -/

theorem spanDigits_all (d : Bytes) (hd : ∀ c ∈ d, Lexer.isDigit c = true) : Lexer.spanDigits d = (d, []) := by
  have := spanDigits_append d [] hd (by intro c t e; cases e)
  simpa using this

theorem optSign_digits (esg d3 : Bytes) (h1 : esg.length ≤ 1) (h2 : ∀ c ∈ esg, isSign c = true)
    (hne : d3 ≠ []) (hd : ∀ c ∈ d3, Lexer.isDigit c = true) : Lexer.optSign (esg ++ d3) = (esg, d3) := by
  apply optSign_shape esg d3 h1 h2
  have := head_digit_not_sign d3 [] hne hd
  simpa using this

/-- the exponent part of Go's float syntax accepts `e[+-]?\d+` at the end -/
theorem goFloat_exp_ok (neg : Bool) (mant : Nat) (k : Nat) (e : UInt8) (esg d3 : Bytes) (he : isE e = true)
    (h1 : esg.length ≤ 1) (h2 : ∀ c ∈ esg, isSign c = true) (hne : d3 ≠ [])
    (hd : ∀ c ∈ d3, Lexer.isDigit c = true) :
    (if (e == 0x65 || e == 0x45) = true then
        (let (esg', t1) := Lexer.optSign (esg ++ d3)
         let (d3', t2) := Lexer.spanDigits t1
         if (d3' = [] || t2 ≠ []) = true then (none : Option Lexer.FloatLit) else
         let ev : Int := Lexer.decValFrom 0 d3'
         some ⟨neg, mant, (if esg' == [0x2D] then -ev else ev) - (k : Int)⟩)
      else none).isSome = true := by
  have hE : (e == 0x65 || e == 0x45) = true := he
  simp only [hE, if_true, optSign_digits esg d3 h1 h2 hne hd, spanDigits_all d3 hd]
  simp [hne]

theorem goFloatSyntax_shape (sg d1 t : Bytes) (hsg1 : sg.length ≤ 1) (hsg2 : ∀ c ∈ sg, c = 0x2D)
    (hd1ne : d1 ≠ []) (hd1d : ∀ c ∈ d1, Lexer.isDigit c = true) (ht : Tail t) :
    (Lexer.goFloatSyntax (sg ++ (d1 ++ t))).isSome = true := by
  have hos : Lexer.optSign (sg ++ (d1 ++ t)) = (sg, d1 ++ t) :=
    optSign_shape sg _ hsg1 (fun c hc => by rw [hsg2 c hc]; decide) (head_digit_not_sign d1 t hd1ne hd1d)
  obtain ⟨c0, r0, ht0, hc0⟩ := Tail_head ht
  have hsp : Lexer.spanDigits (d1 ++ t) = (d1, t) :=
    spanDigits_append d1 t hd1d (by intro c r e; rw [ht0] at e; injection e with e1 _; rw [← e1]; exact hc0)
  unfold Lexer.goFloatSyntax
  simp only [hos, hsp]
  cases ht with
  | exp e esg d3 he h1 h2 hne hd =>
    have hdot := (isE_props e he).2.1
    split
    · rename_i heq
      injection heq with h1' _
      rw [← h1'] at hdot
      simp at hdot
    · simp only [hd1ne, decide_false, Bool.false_and, Bool.false_eq_true, if_false]
      exact goFloat_exp_ok _ _ _ e esg d3 he h1 h2 hne hd
  | fracExp d2 e esg d3 hne2 hd2 he h1 h2 hne hd =>
    have hE := (isE_props e he).1
    have hsp2 : Lexer.spanDigits (d2 ++ e :: (esg ++ d3)) = (d2, e :: (esg ++ d3)) :=
      spanDigits_append d2 _ hd2 (by intro c r hcr; injection hcr with h1 _; rw [← h1]; exact hE)
    simp only [hsp2, hd1ne, decide_false, Bool.false_and, Bool.false_eq_true, if_false]
    exact goFloat_exp_ok _ _ _ e esg d3 he h1 h2 hne hd
  | frac d3 hne hd =>
    simp only [spanDigits_all d3 hd, hd1ne, decide_false, Bool.false_and, Bool.false_eq_true, if_false]
    rfl

/-- The float rule admits only texts that Go's decimal float syntax
(`strconv.ParseFloat`, as modelled by `goFloatSyntax`) accepts: a float token
can only be refused by the converter for being out of range. -/
theorem matchFloat_goSyntax (b t : Bytes) (h : Lexer.matchFloat false b = some t) :
    (Lexer.goFloatSyntax t).isSome = true := by
  obtain ⟨post, rfl⟩ := matchFloat_prefix _ _ h
  obtain ⟨sg, d1, tl, rfl, hsg1, hsg2, hd1ne, hd1d, htail, _⟩ := (float_shape_iff t post).mpr h
  exact goFloatSyntax_shape sg d1 tl hsg1 hsg2 hd1ne hd1d htail

/-- The integer rule admits only texts of Go's decimal integer syntax. -/
theorem matchInt_goSyntax (b t : Bytes) (h : Lexer.matchInt b = some t) : Lexer.goIntSyntax t = true := by
  obtain ⟨sg, ds, rfl, hsg, hne, hd, _⟩ := Lexer.matchInt_shape h
  have hos : Lexer.optSign (sg ++ ds) = (sg, ds) := by
    apply optSign_digits sg ds _ _ hne hd
    · rcases hsg with rfl | rfl <;> simp
    · intro c hc
      rcases hsg with rfl | rfl
      · simp at hc
      · simp only [List.mem_singleton] at hc; subst hc; decide
  unfold Lexer.goIntSyntax
  simp only [hos, spanDigits_all ds hd]
  simp [hne]

end Martian.LexerRegex
