import Proofs.FormatExpRangeLex
import Proofs.FormatExpRangeMap

/-!
C09, accepted texts: the RANGE of the raw reader.

`pExp_range`: on tokens in the range of the tokenizer (`tokOK`), whatever `pExp`
returns satisfies `wfRaw` (ints fit `int64`, floats are NUM_FLOAT tokens, map and
struct keys strictly ascending, struct keys and reference components identifiers,
references of the three shapes `X.a.b`, `X.default`, `self.x.a`).
`parseValExp_range`: whatever `parseValExp` returns for ANY source text satisfies
`wfRaw` and `isVal`.

Core Lean only.
-/

namespace Martian.FormatExp
open Martian.Lexer (Bytes parseInt unquoteBytes)

def RExp (f : Nat) : Prop := ∀ ts e rest, ts.all tokOK = true → pExp f ts = some (e, rest) →
  wfRaw e = true ∧ rest.all tokOK = true
def RElems (f : Nat) : Prop := ∀ ts es rest, ts.all tokOK = true → pElems f ts = some (es, rest) →
  wfRawL es = true ∧ rest.all tokOK = true
def RKVs (f : Nat) : Prop := ∀ ts kvs rest, ts.all tokOK = true → pKVs f ts = some (kvs, rest) →
  wfRawKV false kvs = true ∧ rest.all tokOK = true
def RFields (f : Nat) : Prop := ∀ ts kvs rest, ts.all tokOK = true → pFields f ts = some (kvs, rest) →
  wfRawKV true kvs = true ∧ rest.all tokOK = true

/-- after `unfold`/`split` on a reader called with fuel `f + 1`: identify the fuel of the arm -/
local macro "fix_fuel" : tactic => `(tactic| (have hfuel := Nat.succ.inj ‹_ + 1 = Nat.succ _›; subst hfuel))

theorem afterItem_range (c : UInt8) (r : List Tok) (h : r.all tokOK = true) :
    (afterItem c r).2.all tokOK = true := by
  unfold afterItem
  split
  · split
    · simp only [List.all_cons, Bool.and_eq_true] at h ⊢; exact h.2
    · simp only [List.all_cons, Bool.and_eq_true] at h ⊢; exact h.2
  · simp only [List.all_cons, Bool.and_eq_true] at h ⊢; exact h.2
  · exact h

theorem pDots_range : ∀ (f : Nat) (ts : List Tok) (xs : List Bytes) (rest : List Tok),
    ts.all tokOK = true → pDots f ts = some (xs, rest) → xs.all isIdent = true ∧ rest.all tokOK = true
  | 0, _, _, _, _, h => by simp [pDots] at h
  | f + 1, ts, xs, rest, hts, h => by
    unfold pDots at h
    split at h
    · cases h
    · rename_i x r heq
      injection heq with hf
      subst hf
      cases hd : pDots f r with
      | none => simp [hd] at h
      | some p =>
        obtain ⟨xs', r'⟩ := p
        simp only [hd, Option.map_some, Option.some.injEq, Prod.mk.injEq] at h
        obtain ⟨rfl, rfl⟩ := h
        simp only [List.all_cons, Bool.and_eq_true] at hts
        have ih := pDots_range f r xs' r' hts.2.2 hd
        refine ⟨?_, ih.2⟩
        simp only [List.all_cons, Bool.and_eq_true]
        exact ⟨by simpa [tokOK] using hts.2.1, ih.1⟩
    · cases h
    · injection h with h
      injection h with h1 h2
      subst h1; subst h2
      exact ⟨rfl, hts⟩

theorem pRefCall_range (f : Nat) (x : Bytes) (ts : List Tok) (e : Exp) (rest : List Tok)
    (hx : isIdent x = true) (hts : ts.all tokOK = true) (h : pRefCall f x ts = some (e, rest)) :
    wfRaw e = true ∧ rest.all tokOK = true := by
  unfold pRefCall at h
  split at h
  · injection h with h
    injection h with h1 h2
    subst h1; subst h2
    simp only [List.all_cons, Bool.and_eq_true] at hts
    refine ⟨?_, hts.2.2⟩
    simp [wfRaw, hx]
  · cases hd : pDots f ts with
    | none => simp [hd] at h
    | some p =>
      obtain ⟨xs', r'⟩ := p
      simp only [hd, Option.map_some, Option.some.injEq, Prod.mk.injEq] at h
      obtain ⟨rfl, rfl⟩ := h
      have ih := pDots_range f ts xs' r' hts hd
      refine ⟨?_, ih.2⟩
      simp [wfRaw, hx, ih.1]

theorem RExp_zero : RExp 0 := by intro ts e rest _ h; simp [pExp] at h
theorem RElems_zero : RElems 0 := by intro ts e rest _ h; simp [pElems] at h
theorem RKVs_zero : RKVs 0 := by intro ts e rest _ h; simp [pKVs] at h
theorem RFields_zero : RFields 0 := by intro ts e rest _ h; simp [pFields] at h

theorem pElems_step (f : Nat) (hX : RExp f) (hE : RElems f) : RElems (f + 1) := by
  intro ts es rest hts h
  unfold pElems at h
  split at h
  · rename_i e r hp
    have ⟨he, hr⟩ := hX _ e r hts hp
    have ha := afterItem_range 0x5D r hr
    split at h
    · rename_i r' hai
      rw [hai] at ha
      cases hrec : pElems f r' with
      | none => simp [hrec] at h
      | some p =>
        obtain ⟨es', r''⟩ := p
        simp only [hrec, Option.map_some, Option.some.injEq, Prod.mk.injEq] at h
        obtain ⟨rfl, rfl⟩ := h
        have ih := hE r' es' r'' ha hrec
        exact ⟨by simp [wfRawL, he, ih.1], ih.2⟩
    · rename_i r' hai
      rw [hai] at ha
      injection h with h
      injection h with h1 h2
      subst h1; subst h2
      exact ⟨by simp [wfRawL, he], ha⟩
  · cases h

theorem pKVs_step (f : Nat) (hX : RExp f) (hK : RKVs f) : RKVs (f + 1) := by
  intro ts kvs rest hts h
  unfold pKVs at h
  split at h
  · cases h
  · fix_fuel
    rename_i k ts' _
    simp only [List.all_cons, Bool.and_eq_true] at hts
    split at h
    · rename_i key e r hu hp
      have ⟨he, hr⟩ := hX ts' e r hts.2.2 hp
      have ha := afterItem_range 0x7D r hr
      split at h
      · rename_i r' hai
        rw [hai] at ha
        cases hrec : pKVs f r' with
        | none => simp [hrec] at h
        | some p =>
          obtain ⟨es', r''⟩ := p
          simp only [hrec, Option.map_some, Option.some.injEq, Prod.mk.injEq] at h
          obtain ⟨rfl, rfl⟩ := h
          have ih := hK r' es' r'' ha hrec
          exact ⟨by simp [wfRawKV, he, ih.1], ih.2⟩
      · rename_i r' hai
        rw [hai] at ha
        injection h with h
        injection h with h1 h2
        subst h1; subst h2
        exact ⟨by simp [wfRawKV, he], ha⟩
    · cases h
  · cases h

theorem pFields_step (f : Nat) (hX : RExp f) (hF : RFields f) : RFields (f + 1) := by
  intro ts kvs rest hts h
  unfold pFields at h
  split at h
  · cases h
  · fix_fuel
    rename_i k ts' _
    simp only [List.all_cons, Bool.and_eq_true] at hts
    have hk : isIdent k = true := by simpa [tokOK] using hts.1
    split at h
    · rename_i e r hp
      have ⟨he, hr⟩ := hX ts' e r hts.2.2 hp
      have ha := afterItem_range 0x7D r hr
      split at h
      · rename_i r' hai
        rw [hai] at ha
        cases hrec : pFields f r' with
        | none => simp [hrec] at h
        | some p =>
          obtain ⟨es', r''⟩ := p
          simp only [hrec, Option.map_some, Option.some.injEq, Prod.mk.injEq] at h
          obtain ⟨rfl, rfl⟩ := h
          have ih := hF r' es' r'' ha hrec
          exact ⟨by simp [wfRawKV, he, hk, ih.1], ih.2⟩
      · rename_i r' hai
        rw [hai] at ha
        injection h with h
        injection h with h1 h2
        subst h1; subst h2
        exact ⟨by simp [wfRawKV, he, hk], ha⟩
    · cases h
  · cases h

theorem pExp_step (f : Nat) (hE : RElems f) (hK : RKVs f) (hF : RFields f) : RExp (f + 1) := by
  intro ts e rest hts h
  unfold pExp at h
  split at h
  · cases h
  · -- float
    fix_fuel
    injection h with h; injection h with h1 h2; subst h1; subst h2
    simp only [List.all_cons, Bool.and_eq_true] at hts
    exact ⟨by simpa [wfRaw, tokOK] using hts.1, hts.2⟩
  · -- int
    fix_fuel
    rename_i t r _
    simp only [List.all_cons, Bool.and_eq_true] at hts
    cases hp : parseInt t with
    | none => simp [hp] at h
    | some i =>
      simp only [hp, Option.map_some, Option.some.injEq, Prod.mk.injEq] at h
      obtain ⟨rfl, rfl⟩ := h
      have ht : Martian.Lexer.numTok false t = .int t := by simpa [tokOK] using hts.1
      exact ⟨by rw [wfRaw]; exact intTok_inInt64 ht hp, hts.2⟩
  · -- string
    fix_fuel
    rename_i t r _
    simp only [List.all_cons, Bool.and_eq_true] at hts
    cases hp : unquoteBytes t with
    | none => simp [hp] at h
    | some s =>
      simp only [hp, Option.map_some, Option.some.injEq, Prod.mk.injEq] at h
      obtain ⟨rfl, rfl⟩ := h
      exact ⟨rfl, hts.2⟩
  · fix_fuel
    injection h with h; injection h with h1 h2; subst h1; subst h2
    simp only [List.all_cons, Bool.and_eq_true] at hts
    exact ⟨rfl, hts.2⟩
  · fix_fuel
    injection h with h; injection h with h1 h2; subst h1; subst h2
    simp only [List.all_cons, Bool.and_eq_true] at hts
    exact ⟨rfl, hts.2⟩
  · fix_fuel
    injection h with h; injection h with h1 h2; subst h1; subst h2
    simp only [List.all_cons, Bool.and_eq_true] at hts
    exact ⟨rfl, hts.2⟩
  · -- `[]`
    fix_fuel
    injection h with h; injection h with h1 h2; subst h1; subst h2
    simp only [List.all_cons, Bool.and_eq_true] at hts
    exact ⟨by simp [wfRaw, wfRawL], hts.2.2⟩
  · -- `[ … ]`
    fix_fuel
    simp only [List.all_cons, Bool.and_eq_true] at hts
    split at h
    · rename_i xs r' hp
      injection h with h; injection h with h1 h2; subst h1; subst h2
      have ih := hE _ _ _ hts.2 hp
      simp only [List.all_cons, Bool.and_eq_true] at ih
      exact ⟨by rw [wfRaw]; exact ih.1, ih.2.2⟩
    · cases h
  · -- `{}`
    fix_fuel
    injection h with h; injection h with h1 h2; subst h1; subst h2
    simp only [List.all_cons, Bool.and_eq_true] at hts
    exact ⟨by simp [wfRaw, wfRawKV, sortedKeys], hts.2.2⟩
  · -- map
    fix_fuel
    simp only [List.all_cons, Bool.and_eq_true] at hts
    split at h
    · rename_i kvs r' hp
      injection h with h; injection h with h1 h2; subst h1; subst h2
      have ih := hK _ _ _ (by simp only [List.all_cons, Bool.and_eq_true]; exact hts.2) hp
      simp only [List.all_cons, Bool.and_eq_true] at ih
      exact ⟨by rw [wfRaw, sortedKeys_mkMap, wfRawKV_mkMap _ _ ih.1]; rfl, ih.2.2⟩
    · cases h
  · -- struct
    fix_fuel
    simp only [List.all_cons, Bool.and_eq_true] at hts
    split at h
    · rename_i kvs r' hp
      injection h with h; injection h with h1 h2; subst h1; subst h2
      have ih := hF _ _ _ (by simp only [List.all_cons, Bool.and_eq_true]; exact hts.2) hp
      simp only [List.all_cons, Bool.and_eq_true] at ih
      exact ⟨by rw [wfRaw, sortedKeys_mkMap, wfRawKV_mkMap _ _ ih.1]; rfl, ih.2.2⟩
    · cases h
  · -- call reference
    fix_fuel
    rename_i x r _
    simp only [List.all_cons, Bool.and_eq_true] at hts
    exact pRefCall_range _ x r e rest (by simpa [tokOK] using hts.1) hts.2 h
  · -- self reference
    fix_fuel
    rename_i x r _
    simp only [List.all_cons, Bool.and_eq_true] at hts
    cases hd : pDots f r with
    | none => simp [hd] at h
    | some p =>
      obtain ⟨xs', r'⟩ := p
      simp only [hd, Option.map_some, Option.some.injEq, Prod.mk.injEq] at h
      obtain ⟨rfl, rfl⟩ := h
      have ih := pDots_range f r xs' r' hts.2.2.2 hd
      have hx : isIdent x = true := by simpa [tokOK] using hts.2.2.1
      exact ⟨by simp [wfRaw, hx, ih.1], ih.2⟩
  · cases h

/-- **Range of the raw reader**, all four readers at once -/
theorem pAll_range : ∀ f : Nat, RExp f ∧ RElems f ∧ RKVs f ∧ RFields f
  | 0 => ⟨RExp_zero, RElems_zero, RKVs_zero, RFields_zero⟩
  | f + 1 =>
    have ⟨hX, hE, hK, hF⟩ := pAll_range f
    ⟨pExp_step f hE hK hF, pElems_step f hX hE, pKVs_step f hX hK, pFields_step f hX hF⟩

theorem pExp_range (f : Nat) (ts : List Tok) (e : Exp) (rest : List Tok)
    (hts : ∀ tok ∈ ts, tokOK tok = true) (h : pExp f ts = some (e, rest)) : wfRaw e = true :=
  ((pAll_range f).1 ts e rest (List.all_eq_true.mpr hts) h).1

/-- whatever the raw reader returns for ANY source text is in the range `wfRaw`, and is a
`val_exp` -/
theorem parseValExp_range (src : Bytes) (e : Exp) (h : parseValExp src = some e) :
    wfRaw e = true ∧ isVal e = true := by
  unfold parseValExp at h
  cases hl : lexAll src with
  | none => simp [hl] at h
  | some ts =>
    simp only [hl, Option.bind_some] at h
    unfold parseToks at h
    split at h
    · rename_i e' hp
      split at h
      · rename_i hv
        injection h with h
        subst h
        exact ⟨pExp_range _ ts _ [] (range_lexAll src ts hl) hp, hv⟩
      · cases h
    · cases h

end Martian.FormatExp
