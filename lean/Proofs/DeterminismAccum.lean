import Martian.DeterminismAccum
import Proofs.Determinism

/-! Lemmas about the accumulating loops of `Martian/DeterminismAccum.lean`. -/
namespace Martian.Determinism
open Martian.SortKeys List

/-! ### inserting one value per entry into a fresh map -/

theorem insertKV_of_not_mem {V : Type} : ∀ (m : List (Key × V)) (k : Key) (v : V),
    k ∉ m.map Prod.fst → insertKV m k v = m ++ [(k, v)]
  | [], _, _, _ => rfl
  | (k', v') :: r, k, v, h => by
    simp only [map_cons, mem_cons, not_or] at h
    have hne : (k == k') = false := by simpa using h.1
    simp [insertKV, hne, insertKV_of_not_mem r k v h.2]

theorem foldl_insertKV_eq {V W : Type} (g : Key → V → W) : ∀ (l : List (Key × V)) (m : List (Key × W)),
    (l.map Prod.fst).Nodup → (∀ k ∈ l.map Prod.fst, k ∉ m.map Prod.fst) →
    l.foldl (fun m p => insertKV m p.1 (g p.1 p.2)) m = m ++ l.map (fun p => (p.1, g p.1 p.2))
  | [], m, _, _ => by simp
  | (k, v) :: r, m, hn, hd => by
    simp only [map_cons, nodup_cons] at hn
    have hk : k ∉ m.map Prod.fst := hd k (by simp)
    simp only [foldl_cons, map_cons]
    rw [insertKV_of_not_mem m k _ hk, foldl_insertKV_eq g r _ hn.2]
    · simp
    · intro k' hk'
      simp only [map_append, map_cons, map_nil, mem_append, mem_singleton, not_or]
      refine ⟨hd k' (by simp [hk']), ?_⟩
      rintro rfl
      exact hn.1 hk'

/-- with distinct keys (a Go map) no insert overwrites: the built map is the
entry-wise image, in the order walked -/
theorem buildMap_eq_map {V W : Type} (g : Key → V → W) (l : List (Key × V))
    (hn : (l.map Prod.fst).Nodup) : buildMap g l = l.map (fun p => (p.1, g p.1 p.2)) := by
  unfold buildMap
  rw [foldl_insertKV_eq g l [] hn (by simp)]
  simp

theorem map_keys_eq {V W : Type} (g : Key → V → W) (l : List (Key × V)) :
    (l.map (fun p => (p.1, g p.1 p.2))).map Prod.fst = l.map Prod.fst := by
  simp [Function.comp_def]

theorem buildMap_perm {V W : Type} (g : Key → V → W) {l₁ l₂ : List (Key × V)} (h : l₁ ~ l₂)
    (hn : (l₁.map Prod.fst).Nodup) : buildMap g l₁ ~ buildMap g l₂ := by
  have hn2 : (l₂.map Prod.fst).Nodup := (h.map Prod.fst).nodup_iff.mp hn
  rw [buildMap_eq_map g l₁ hn, buildMap_eq_map g l₂ hn2]
  exact h.map _

theorem buildMap_keys_nodup {V W : Type} (g : Key → V → W) (l : List (Key × V))
    (hn : (l.map Prod.fst).Nodup) : ((buildMap g l).map Prod.fst).Nodup := by
  rw [buildMap_eq_map g l hn, map_keys_eq]; exact hn

/-- Go map lookup does not depend on the order the entries are listed in -/
theorem lookupL_perm {V : Type} {l₁ l₂ : List (Key × V)} (h : l₁ ~ l₂)
    (hn : (l₁.map Prod.fst).Nodup) (k : Key) : lookupL k l₁ = lookupL k l₂ := by
  have hn2 : (l₂.map Prod.fst).Nodup := (h.map Prod.fst).nodup_iff.mp hn
  cases h1 : lookupL k l₁ with
  | none =>
    have : k ∉ l₂.map Prod.fst := fun hm =>
      (lookupL_eq_none_iff.mp h1) ((h.map Prod.fst).mem_iff.mpr hm)
    exact (lookupL_eq_none_iff.mpr this).symm
  | some v =>
    have : (k, v) ∈ l₂ := h.mem_iff.mp ((lookupL_eq_some_iff hn).mp h1)
    exact ((lookupL_eq_some_iff hn2).mpr this).symm

/-! ### folds whose step commutes -/

theorem foldl_perm_of_comm {α β : Type} (f : β → α → β)
    (hc : ∀ b x y, f (f b x) y = f (f b y) x) {l₁ l₂ : List α} (h : l₁ ~ l₂) (b : β) :
    l₁.foldl f b = l₂.foldl f b := by
  apply h.foldl_eq'
  intro x _ y _ z
  exact hc z x y

theorem all_perm {α : Type} (p : α → Bool) {l₁ l₂ : List α} (h : l₁ ~ l₂) : l₁.all p = l₂.all p := by
  cases h1 : l₁.all p <;> cases h2 : l₂.all p <;> simp_all [h.mem_iff]
  · obtain ⟨x, hx, hp⟩ := h1; have := h2 x hx; simp_all
  · obtain ⟨x, hx, hp⟩ := h2; have := h1 x hx; simp_all

theorem any_perm {α : Type} (p : α → Bool) {l₁ l₂ : List α} (h : l₁ ~ l₂) : l₁.any p = l₂.any p := by
  cases h1 : l₁.any p <;> cases h2 : l₂.any p <;> simp_all [h.mem_iff]
  · obtain ⟨x, hx, hp⟩ := h2; have := h1 x hx; simp_all
  · obtain ⟨x, hx, hp⟩ := h1; have := h2 x hx; simp_all

/-! ### the accumulating loop, component by component -/

theorem foldl_step_done : ∀ (l : List (Key × EntryRes)) (a : Accum),
    (l.foldl Accum.step a).done = (a.done && l.all (·.2.done))
  | [], a => by simp
  | p :: r, a => by simp [foldl_step_done r, Accum.step, Bool.and_assoc]

theorem foldl_step_changed : ∀ (l : List (Key × EntryRes)) (a : Accum),
    (l.foldl Accum.step a).changed = (a.changed || l.any (·.2.changed))
  | [], a => by simp
  | p :: r, a => by simp [foldl_step_changed r, Accum.step, Bool.or_assoc]

theorem foldl_step_errs : ∀ (l : List (Key × EntryRes)) (a : Accum),
    (l.foldl Accum.step a).errs = a.errs ++ l.filterMap (·.2.err)
  | [], a => by simp
  | p :: r, a => by
    simp only [foldl_cons, foldl_step_errs r, Accum.step]
    cases h : p.2.err <;> simp [h]

theorem foldl_step_vals : ∀ (l : List (Key × EntryRes)) (a : Accum),
    (l.foldl Accum.step a).vals = l.foldl (fun m p => insertKV m p.1 p.2.val) a.vals
  | [], a => by simp
  | p :: r, a => by simp [foldl_step_vals r, Accum.step]

theorem accumulateIn_done (l : List (Key × EntryRes)) : (accumulateIn l).done = l.all (·.2.done) := by
  simp [accumulateIn, foldl_step_done, Accum.init]

theorem accumulateIn_changed (l : List (Key × EntryRes)) :
    (accumulateIn l).changed = l.any (·.2.changed) := by
  simp [accumulateIn, foldl_step_changed, Accum.init]

theorem accumulateIn_errs (l : List (Key × EntryRes)) :
    (accumulateIn l).errs = l.filterMap (·.2.err) := by
  simp [accumulateIn, foldl_step_errs, Accum.init]

theorem accumulateIn_vals (l : List (Key × EntryRes)) :
    (accumulateIn l).vals = buildMap (fun _ e => e.val) l := by
  simp [accumulateIn, foldl_step_vals, Accum.init, buildMap]

theorem accumulate_eq (l : List (Key × EntryRes)) : accumulate l = accumulateIn (sortK l) := rfl

end Martian.Determinism
