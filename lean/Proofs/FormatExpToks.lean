/-
C09: the token sequence of a printed value expression (what `lexAll (fmt p e)`
is proved to be, Proofs/FormatExpLex.lean, and what `pExp` is proved to read
back, Proofs/FormatExpParse.lean).  Definitions only.
-/
import Martian.FormatExp

namespace Martian.FormatExp
open Martian.Lexer (Bytes)
open Martian.Format (quoteString)

abbrev tLB : Tok := .punct 0x5B
abbrev tRB : Tok := .punct 0x5D
abbrev tLC : Tok := .punct 0x7B
abbrev tRC : Tok := .punct 0x7D
abbrev tComma : Tok := .punct 0x2C
abbrev tColon : Tok := .punct 0x3A
abbrev tDot : Tok := .punct 0x2E

/-- `.a.b.c` -/
def toksDots : List Bytes → List Tok
  | [] => []
  | x :: r => tDot :: .id x :: toksDots r

def toksRef (self : Bool) (id : Bytes) (out : List Bytes) : List Tok :=
  if self then .kSelf :: tDot :: .id id :: toksDots out
  else if out = [sDefault] then [.id id, tDot, .kDefault]
  else .id id :: toksDots out

mutual
def toks : Exp → List Tok
  | .null => [.kNull]
  | .nilArr => [.kNull]
  | .bool b => [if b then .kTrue else .kFalse]
  | .int i => [.int (fmtInt i)]
  | .float t => [if isFloatTok t then .float t else .int t]
  | .str s => [.str (quoteString s)]
  | .arr [] => [tLB, tRB]
  | .arr [x] => if single x then tLB :: (toks x ++ [tRB]) else tLB :: (toks x ++ [tComma, tRB])
  | .arr (x :: y :: r) => tLB :: (toksElems (x :: y :: r) ++ [tRB])
  | .map [] => [tLC, tRC]
  | .map (kv :: r) => tLC :: (toksKVs (kv :: r) ++ [tRC])
  | .struct [] => [tLC, tRC]
  | .struct (kv :: r) => tLC :: (toksFields (kv :: r) ++ [tRC])
  | .ref self id out => toksRef self id out
def toksElems : List Exp → List Tok
  | [] => []
  | x :: r => toks x ++ tComma :: toksElems r
def toksKVs : List (Bytes × Exp) → List Tok
  | [] => []
  | (k, v) :: r => .str (quoteString k) :: tColon :: (toks v ++ tComma :: toksKVs r)
def toksFields : List (Bytes × Exp) → List Tok
  | [] => []
  | (k, v) :: r => .id k :: tColon :: (toks v ++ tComma :: toksFields r)
end

end Martian.FormatExp
