import Martian.Format
import Proofs.FormatQuote

/-! The string rule of the tokenizer (`tokStringRule`, `Martian.Lexer.matchString`)
matches exactly the text `quoteString` printed, whatever follows it. -/
namespace Martian.Format
open Martian.Lexer (scanBody matchString ruleEsc digitsOK isHex isDigit isOct)
open Martian.ShellQuote (runeWidth validFrom validUtf8 runeWidth_cont ge80_not_special)

/-! ### single steps of the scanner (one unit of fuel per plain byte / whole escape) -/

theorem scan_plain (f : Nat) (c : UInt8) (X : List UInt8)
    (h22 : (c == 0x22) = false) (h5c : (c == 0x5C) = false) :
    scanBody (f + 1) (c :: X) = (scanBody f X).map (c :: ·) := by
  simp [scanBody, h22, h5c]

theorem scan_esc0 (f : Nat) (c2 : UInt8) (X : List UInt8) (h : ruleEsc c2 = some (0, true)) :
    scanBody (f + 1) (0x5C :: c2 :: X) = (scanBody f X).map ([0x5C, c2] ++ ·) := by
  have h1 : ((0x5C : UInt8) == 0x22) = false := by decide
  simp [scanBody, h1, h, digitsOK]

theorem scan_u (f : Nat) (a b c d : UInt8) (X : List UInt8)
    (ha : isHex a = true) (hb : isHex b = true) (hc : isHex c = true) (hd : isHex d = true) :
    scanBody (f + 1) (0x5C :: 0x75 :: a :: b :: c :: d :: X)
      = (scanBody f X).map ([0x5C, 0x75, a, b, c, d] ++ ·) := by
  have h1 : ((0x5C : UInt8) == 0x22) = false := by decide
  have hr : ruleEsc 0x75 = some (4, true) := by decide
  simp [scanBody, h1, hr, digitsOK, ha, hb, hc, hd]

theorem isHex_hexDigit : ∀ k, k < 16 → isHex (hexDigit k) = true := by decide

/-- what `quoteString` writes for an ASCII byte is one unit for the string rule -/
theorem scan_escAscii (f : Nat) (b : UInt8) (X : List UInt8) (hb : b < 0x80) :
    scanBody (f + 1) (escAscii b ++ X) = (scanBody f X).map (escAscii b ++ ·) := by
  unfold escAscii
  by_cases h1 : (b == 0x5C || b == 0x22) = true
  · simp only [h1, ↓reduceIte, List.cons_append, List.nil_append]
    simp only [Bool.or_eq_true, beq_iff_eq] at h1
    rcases h1 with rfl | rfl
    · exact scan_esc0 f 0x5C X (by decide)
    · exact scan_esc0 f 0x22 X (by decide)
  · simp only [h1, Bool.false_eq_true, ↓reduceIte]
    simp only [Bool.or_eq_true, not_or, Bool.not_eq_true] at h1
    obtain ⟨h5c, h22⟩ := h1
    by_cases h2 : (0x20 : UInt8) ≤ b
    · simp only [h2, ↓reduceIte, List.cons_append, List.nil_append]
      exact scan_plain f b X h22 h5c
    · simp only [h2, ↓reduceIte]
      by_cases h8 : (b == 0x08) = true
      · simp only [h8, ↓reduceIte]
        exact scan_esc0 f 0x62 X (by decide)
      · simp only [h8, Bool.false_eq_true, ↓reduceIte]
        by_cases hc : (b == 0x0C) = true
        · simp only [hc, ↓reduceIte]
          exact scan_esc0 f 0x66 X (by decide)
        · simp only [hc, Bool.false_eq_true, ↓reduceIte]
          by_cases ha : (b == 0x0A) = true
          · simp only [ha, ↓reduceIte]
            exact scan_esc0 f 0x6E X (by decide)
          · simp only [ha, Bool.false_eq_true, ↓reduceIte]
            by_cases hd : (b == 0x0D) = true
            · simp only [hd, ↓reduceIte]
              exact scan_esc0 f 0x72 X (by decide)
            · simp only [hd, Bool.false_eq_true, ↓reduceIte]
              by_cases h9 : (b == 0x09) = true
              · simp only [h9, ↓reduceIte]
                exact scan_esc0 f 0x74 X (by decide)
              · simp only [h9, Bool.false_eq_true, ↓reduceIte]
                have hlt : b.toNat < 256 := b.toNat_lt
                exact scan_u f 0x30 0x30 _ _ X (by decide) (by decide)
                  (isHex_hexDigit _ (by omega)) (isHex_hexDigit _ (by omega))

theorem scan_esc2028 (f : Nat) (X : List UInt8) :
    scanBody (f + 1) (esc2028 ++ X) = (scanBody f X).map (esc2028 ++ ·) :=
  scan_u f 0x32 0x30 0x32 0x38 X (by decide) (by decide) (by decide) (by decide)

theorem scan_esc2029 (f : Nat) (X : List UInt8) :
    scanBody (f + 1) (esc2029 ++ X) = (scanBody f X).map (esc2029 ++ ·) :=
  scan_u f 0x32 0x30 0x32 0x39 X (by decide) (by decide) (by decide) (by decide)

/-! ### the body -/

/-- the scanner, started on the printed body followed by a quote, returns the body -/
theorem scan_quoteFrom : ∀ (s : List UInt8) (p : Pend) (g : Nat) (rest : List UInt8),
    (quoteFrom s p).length < g → PendOK s p →
    scanBody g (quoteFrom s p ++ 0x22 :: rest) = some (quoteFrom s p) := by
  intro s
  induction s with
  | nil =>
    intro p g rest hg _
    obtain ⟨g', rfl⟩ : ∃ g', g = g' + 1 := ⟨g - 1, by omega⟩
    cases p <;> simp [quoteFrom, scanBody]
  | cons b r ih =>
    intro p g rest hg hp
    have generic : validFrom (b :: r) 0 = true →
        (quoteFrom (b :: r) p =
          if b < 0x80 then escAscii b ++ quoteFrom r .none
          else match runeWidth (b :: r) with
            | some w =>
              if b == 0xE2 && r.take 2 == [0x80, 0xA8] then esc2028 ++ quoteFrom r (.drop 2)
              else if b == 0xE2 && r.take 2 == [0x80, 0xA9] then esc2029 ++ quoteFrom r (.drop 2)
              else b :: quoteFrom r (if w ≤ 1 then .none else .copy (w - 1))
            | none => escFFFD ++ quoteFrom r .none) →
        scanBody g (quoteFrom (b :: r) p ++ 0x22 :: rest) = some (quoteFrom (b :: r) p) := by
      intro hv hq
      rw [hq] at hg ⊢
      obtain ⟨g', rfl⟩ : ∃ g', g = g' + 1 := ⟨g - 1, by omega⟩
      by_cases hb : b < 0x80
      · simp only [hb, ↓reduceIte] at hg ⊢
        have hw : runeWidth (b :: r) = some 1 := by simp [runeWidth, hb]
        simp only [validFrom, hw] at hv
        rw [List.append_assoc, scan_escAscii g' b _ hb]
        have hl := escAscii_len b
        rw [ih .none g' rest (by simp only [List.length_append] at hg; omega) hv]
        rfl
      · simp only [hb, ↓reduceIte] at hg ⊢
        simp only [validFrom] at hv
        cases hw : runeWidth (b :: r) with
        | none => simp [hw] at hv
        | some w =>
          simp only [hw] at hv hg ⊢
          by_cases h28 : (b == 0xE2 && r.take 2 == [0x80, 0xA8]) = true
          · simp only [h28, ↓reduceIte] at hg ⊢
            simp only [Bool.and_eq_true] at h28
            have hbe := eq_of_beq h28.1
            obtain ⟨t, rfl⟩ := take2_eq h28.2
            subst hbe
            rw [runeWidth_E2 t 0xA8 (Or.inl rfl)] at hw
            injection hw with hw; subst hw
            rw [List.append_assoc, scan_esc2028 g' _]
            rw [ih (.drop 2) g' rest (by simp only [esc2028, List.length_append, List.length_cons, List.length_nil] at hg; omega) hv]
            rfl
          · simp only [h28, Bool.false_eq_true, ↓reduceIte] at hg ⊢
            by_cases h29 : (b == 0xE2 && r.take 2 == [0x80, 0xA9]) = true
            · simp only [h29, ↓reduceIte] at hg ⊢
              simp only [Bool.and_eq_true] at h29
              have hbe := eq_of_beq h29.1
              obtain ⟨t, rfl⟩ := take2_eq h29.2
              subst hbe
              rw [runeWidth_E2 t 0xA9 (Or.inr rfl)] at hw
              injection hw with hw; subst hw
              rw [List.append_assoc, scan_esc2029 g' _]
              rw [ih (.drop 2) g' rest (by simp only [esc2029, List.length_append, List.length_cons, List.length_nil] at hg; omega) hv]
              rfl
            · simp only [h29, Bool.false_eq_true, ↓reduceIte] at hg ⊢
              obtain ⟨h22, _, _, h5c⟩ := ge80_not_special b hb
              rw [List.cons_append, scan_plain g' b _ h22 h5c]
              have hcont := runeWidth_cont b r w hb hw
              by_cases hw1 : w ≤ 1
              · simp only [hw1, ↓reduceIte] at hg ⊢
                have : w - 1 = 0 := by omega
                rw [this] at hv
                rw [ih .none g' rest (by simp only [List.length_cons] at hg; omega) hv]
                rfl
              · simp only [hw1, ↓reduceIte] at hg ⊢
                rw [ih (.copy (w - 1)) g' rest (by simp only [List.length_cons] at hg; omega) ⟨hv, hcont⟩]
                rfl
    cases p with
    | none => exact generic hp rfl
    | copy k =>
      cases k with
      | zero => exact generic hp.1 rfl
      | succ k =>
        obtain ⟨hv, hk⟩ := hp
        rw [validFrom_succ] at hv
        have hb : ¬ b < 0x80 := hk b (by simp)
        obtain ⟨h22, _, _, h5c⟩ := ge80_not_special b hb
        obtain ⟨g', rfl⟩ : ∃ g', g = g' + 1 := ⟨g - 1, by omega⟩
        simp only [quoteFrom] at hg ⊢
        rw [List.cons_append, scan_plain g' b _ h22 h5c]
        have hk' : ∀ x ∈ r.take k, ¬ x < 0x80 := fun x hx => hk x (by simp [List.take_succ_cons, hx])
        by_cases hk0 : k = 0
        · subst hk0
          simp only [↓reduceIte] at hg ⊢
          rw [ih .none g' rest (by simp only [List.length_cons] at hg; omega) hv]
          rfl
        · simp only [hk0, ↓reduceIte] at hg ⊢
          rw [ih (.copy k) g' rest (by simp only [List.length_cons] at hg; omega) ⟨hv, hk'⟩]
          rfl
    | drop k =>
      cases k with
      | zero => exact generic hp rfl
      | succ k =>
        have hv : validFrom r k = true := by rw [← validFrom_succ b r k]; exact hp
        simp only [quoteFrom] at hg ⊢
        by_cases hk0 : k = 0
        · subst hk0
          simp only [↓reduceIte] at hg ⊢
          exact ih .none g rest hg hv
        · simp only [hk0, ↓reduceIte] at hg ⊢
          exact ih (.drop k) g rest hg hv

/-- the string rule of the tokenizer (`tokStringRule`) matches exactly the text `quoteString` printed, whatever follows it -/
theorem matchString_quoteString (s rest : List UInt8) (h : Martian.ShellQuote.validUtf8 s = true) :
    Martian.Lexer.matchString (Martian.Format.quoteString s ++ rest) = some (Martian.Format.quoteString s) := by
  have hs := scan_quoteFrom s .none ((quoteBody s ++ 0x22 :: rest).length + 1) rest
    (by simp [quoteBody]; omega) h
  simp only [quoteString, quoteBody, List.cons_append, List.append_assoc, List.nil_append,
    matchString] at hs ⊢
  rw [hs]
  rfl

end Martian.Format
