/-
C13, top-level calls mapped over a typed map: the step from a fork key to its
directory under outs/ (`joinKey` = `path.Join(outsPath, key)`), when the
directories of a key set are usable side by side (`keysSeparable`), and
`dest_injective` across ALL forks of such a call.
-/
import Martian.PostProcess
import Martian.PostProcessDefs
import Proofs.PostProcess
import Proofs.PostProcessLeaves
import Proofs.PostProcessDests
import Proofs.PostProcessContent
import Proofs.PostProcessAlias
import Proofs.PostProcessShape

namespace Martian.PostProcess

/-! ## `joinKey` on legal file names -/

theorem splitSlash_noslash (cs acc : List Char) (h : ∀ c ∈ cs, c ≠ '/') :
    splitSlash cs acc = [String.ofList (acc.reverse ++ cs)] := by
  induction cs generalizing acc with
  | nil => simp [splitSlash]
  | cons c cs ih =>
    have hc : c ≠ '/' := h c (by simp)
    simp only [splitSlash, hc, if_false]
    rw [ih (c :: acc) (fun x hx => h x (by simp [hx]))]
    simp

theorem legalName_spec {k : String} (h : legalName k = true) :
    k ≠ "" ∧ k ≠ "." ∧ k ≠ ".." ∧ ∀ c ∈ k.toList, c ≠ '/' := by
  simp only [legalName, Bool.and_eq_true, decide_eq_true_eq, List.all_eq_true, ne_eq] at h
  exact ⟨h.1.1.1.2, h.1.1.2, h.1.2, fun c hc => (h.2 c hc).1⟩

/-- a key that is a legal file name is used as ONE path component below outs/ -/
theorem joinKey_legal (outs : Path) (k : String) (h : legalName k = true) : joinKey outs k = outs ++ [k] := by
  obtain ⟨h0, h1, h2, hs⟩ := legalName_spec h
  have e : splitSlash k.toList [] = [k] := by
    rw [splitSlash_noslash k.toList [] hs]
    simp [String.ofList_toList]
  simp [joinKey, e, cleanComps, h0, h1, h2]

/-! ## incomparable directories have incomparable contents -/

theorem incomp_under {a b d1 d2 : Path} (h : Incomp a b) (h1 : Under a d1) (h2 : Under b d2) : Incomp d1 d2 := by
  rw [incomp_iff] at h ⊢
  rw [under_iff_prefix] at h1 h2
  constructor
  · intro hp
    rcases List.prefix_or_prefix_of_prefix (List.IsPrefix.trans h1 hp) h2 with x | x
    · exact h.1 x
    · exact h.2 x
  · intro hp
    rcases List.prefix_or_prefix_of_prefix h1 (List.IsPrefix.trans h2 hp) with x | x
    · exact h.1 x
    · exact h.2 x

theorem incompB_iff {a b : Path} : incompB a b = true ↔ Incomp a b := by
  simp [incompB, Incomp]

theorem keysSeparable_iff (outs : Path) (keys : List String) :
    keysSeparable outs keys = true ↔ KeysSeparable outs keys := by
  induction keys with
  | nil => simp [keysSeparable, KeysSeparable]
  | cons k ks ih =>
    simp only [keysSeparable, Bool.and_eq_true, List.all_eq_true, incompB_iff, ih, KeysSeparable,
      List.mem_cons, forall_eq_or_imp, List.pairwise_cons, isPrefix_iff, Under]
    constructor
    · rintro ⟨⟨a, b⟩, c, d⟩
      exact ⟨⟨a, c⟩, b, d⟩
    · rintro ⟨⟨a, c⟩, b, d⟩
      exact ⟨⟨a, b⟩, c, d⟩

/-- distinct keys that are all legal file names get separable directories -/
theorem legal_keys_separable (outs : Path) (keys : List String) (hnd : keys.Nodup)
    (hl : ∀ k ∈ keys, legalName k = true) : keysSeparable outs keys = true := by
  rw [keysSeparable_iff]
  refine ⟨fun k hk => ?_, ?_⟩
  · rw [joinKey_legal outs k (hl k hk)]
    exact ⟨[k], rfl⟩
  · induction keys with
    | nil => exact List.Pairwise.nil
    | cons k ks ih =>
      have hc := List.nodup_cons.mp hnd
      refine List.pairwise_cons.mpr ⟨fun k' hk' => ?_, ih hc.2 (fun x hx => hl x (by simp [hx]))⟩
      rw [joinKey_legal outs k (hl k (by simp)), joinKey_legal outs k' (hl k' (by simp [hk']))]
      have hne : k ≠ k' := fun e => hc.1 (e ▸ hk')
      exact incomp_of_siblings hne (Under.refl _) (Under.refl _)

/-! ## all leaves of all forks -/

theorem mem_leavesMap {params : List (String × String × Ty)} {outs : Path} {kvs : List (String × J)} {l : Leaf}
    (h : l ∈ leavesMap params outs kvs) :
    ∃ k x, (k, x) ∈ kvs ∧ l ∈ leavesRec params (fieldsOf x) (joinKey outs k) := by
  induction kvs with
  | nil => simp [leavesMap] at h
  | cons kv r ih =>
    obtain ⟨k, x⟩ := kv
    simp only [leavesMap, List.mem_append] at h
    rcases h with h | h
    · exact ⟨k, x, by simp, h⟩
    · obtain ⟨k', x', hm, hx⟩ := ih h
      exact ⟨k', x', by simp [hm], hx⟩

theorem leaf_dest_under {o : Path} {l : Leaf} (h : Under o l.outs) : Under o l.dest := by
  obtain ⟨s, hs⟩ := h
  exact ⟨s ++ [l.name], by simp [Leaf.dest, hs]⟩

/-- `dest_injective` across the forks of a mapped top-level call -/
theorem leavesMap_pairwise (params : List (String × String × Ty)) (outs : Path) (kvs : List (String × J))
    (h : wfParams params = true) (hs : keysSeparable outs (kvs.map Prod.fst) = true) :
    (leavesMap params outs kvs).Pairwise LeafIncomp := by
  rw [keysSeparable_iff] at hs
  induction kvs with
  | nil => exact List.Pairwise.nil
  | cons kv r ih =>
    obtain ⟨k, x⟩ := kv
    obtain ⟨hu, hp⟩ := hs
    simp only [List.map_cons, List.pairwise_cons] at hp
    simp only [leavesMap, List.pairwise_append]
    refine ⟨leavesRec_pairwise params _ _ h, ih ⟨fun k' hk' => hu k' (by simp [hk']), hp.2⟩, ?_⟩
    intro l1 h1 l2 h2
    obtain ⟨k', x', hm, hx⟩ := mem_leavesMap h2
    have hinc : Incomp (joinKey outs k) (joinKey outs k') :=
      hp.1 k' (List.mem_map.mpr ⟨(k', x'), hm, rfl⟩)
    exact incomp_under hinc (leaf_dest_under (leavesRec_under params _ _ h l1 h1))
      (leaf_dest_under (leavesRec_under params _ _ h l2 hx))

/-- every destination of every fork lies below the outs directory -/
theorem leavesMap_under (params : List (String × String × Ty)) (outs : Path) (kvs : List (String × J))
    (h : wfParams params = true) (hs : keysSeparable outs (kvs.map Prod.fst) = true) :
    ∀ l ∈ leavesMap params outs kvs, Under outs l.dest := by
  rw [keysSeparable_iff] at hs
  intro l hl
  obtain ⟨k, x, hm, hx⟩ := mem_leavesMap hl
  obtain ⟨s1, e1⟩ := hs.1 k (List.mem_map.mpr ⟨(k, x), hm, rfl⟩)
  obtain ⟨s2, e2⟩ := leaf_dest_under (leavesRec_under params _ _ h l hx)
  exact ⟨s1 ++ s2, by rw [e2, e1]; simp⟩

/-! ## refinement: the file-system effect of `postMap` -/

theorem postMap_run (ps : Path) (params : List (String × String × Ty)) (outs : Path) (kvs : List (String × J))
    (fs : FS) : (postMap true ps params outs kvs fs).2 = runForks ps params outs kvs fs := by
  induction kvs generalizing fs with
  | nil => rfl
  | cons kv r ih =>
    obtain ⟨k, x⟩ := kv
    simp only [postMap, runForks]
    rw [ih]
    congr 1
    simp only [processStructOuts]
    rw [handleOuts_run]
    cases x <;> rfl

/-! ## the repaired branch (`postMapChecked`) -/

theorem postMapChecked_fs (da : Bool) (ps : Path) (params : List (String × String × Ty)) (outs : Path)
    (kvs : List (String × J)) (fs : FS) :
    (postMapChecked da ps params outs kvs fs).2 = (postMap da ps params outs (legalForks kvs) fs).2 := by
  induction kvs generalizing fs with
  | nil => rfl
  | cons kv r ih =>
    obtain ⟨k, x⟩ := kv
    by_cases hk : legalName k = true
    · simp only [postMapChecked, hk, if_true, legalForks, List.filter_cons, postMap, joinKey_legal outs k hk]
      exact ih _
    · simp only [postMapChecked, hk, legalForks, List.filter_cons]
      exact ih _

theorem postMapChecked_keys (da : Bool) (ps : Path) (params : List (String × String × Ty)) (outs : Path)
    (kvs : List (String × J)) (fs : FS) :
    (postMapChecked da ps params outs kvs fs).1.map Prod.fst = kvs.map Prod.fst := by
  induction kvs generalizing fs with
  | nil => rfl
  | cons kv r ih =>
    obtain ⟨k, x⟩ := kv
    by_cases hk : legalName k = true
    · simp [postMapChecked, hk, ih]
    · simp [postMapChecked, hk, ih]

theorem postMapChecked_refused (da : Bool) (ps : Path) (params : List (String × String × Ty)) (outs : Path)
    (kvs : List (String × J)) (fs : FS) (kv : String × J) (hm : kv ∈ kvs) (hk : legalName kv.1 = false) :
    kv ∈ (postMapChecked da ps params outs kvs fs).1 := by
  induction kvs generalizing fs with
  | nil => cases hm
  | cons kv' r ih =>
    obtain ⟨k, x⟩ := kv'
    by_cases hl : legalName k = true
    · simp only [postMapChecked, hl, if_true]
      rcases List.mem_cons.mp hm with e | hm'
      · subst e; simp [hl] at hk
      · exact List.mem_cons_of_mem _ (ih _ hm')
    · simp only [postMapChecked, hl]
      rcases List.mem_cons.mp hm with e | hm'
      · subst e; exact List.mem_cons_self
      · exact List.mem_cons_of_mem _ (ih _ hm')

theorem postMapChecked_eq_of_legal (da : Bool) (ps : Path) (params : List (String × String × Ty)) (outs : Path)
    (kvs : List (String × J)) (fs : FS) (hl : ∀ kv ∈ kvs, legalName kv.1 = true) :
    postMapChecked da ps params outs kvs fs = postMap da ps params outs kvs fs := by
  induction kvs generalizing fs with
  | nil => rfl
  | cons kv r ih =>
    obtain ⟨k, x⟩ := kv
    have hk : legalName k = true := hl (k, x) (by simp)
    simp only [postMapChecked, hk, if_true, postMap, joinKey_legal outs k hk]
    rw [ih _ (fun kv hm => hl kv (by simp [hm]))]

theorem legalForks_keys_legal (kvs : List (String × J)) : ∀ k ∈ (legalForks kvs).map Prod.fst, legalName k = true := by
  intro k hk
  obtain ⟨kv, hm, rfl⟩ := List.mem_map.mp hk
  simpa using (List.mem_filter.mp hm).2

theorem legalForks_keys_nodup (kvs : List (String × J)) (h : (kvs.map Prod.fst).Nodup) :
    ((legalForks kvs).map Prod.fst).Nodup :=
  List.Nodup.sublist (List.Sublist.map _ List.filter_sublist) h

/-- every destination of the repaired branch lies below the directory of a LEGAL key, hence below outs/ -/
theorem leavesMap_legal_under (params : List (String × String × Ty)) (outs : Path) (kvs : List (String × J))
    (h : wfParams params = true) :
    ∀ l ∈ leavesMap params outs (legalForks kvs), ∃ k, legalName k = true ∧ Under (outs ++ [k]) l.dest := by
  intro l hl
  obtain ⟨k, x, hm, hx⟩ := mem_leavesMap hl
  have hk : legalName k = true := legalForks_keys_legal kvs k (List.mem_map.mpr ⟨(k, x), hm, rfl⟩)
  rw [joinKey_legal outs k hk] at hx
  exact ⟨k, hk, leaf_dest_under (leavesRec_under params _ _ h l hx)⟩

/-! ## helpers for the concrete witnesses -/

end Martian.PostProcess
