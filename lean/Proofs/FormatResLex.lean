import Proofs.FormatResParse
import Proofs.FormatCallLex

/-!
C09: the lexing layer of the round trip of the trailing clauses of a stage
declaration: each printed clause lexes as its token sequence (`LexOK`, whatever
text follows), and the round trips `read (print x) = x`.

Core Lean only.
-/

namespace Martian.FormatRes
open Martian.Lexer (Bytes isWord numTok)
open Martian.Format (quoteString)
open Martian.FormatExp
open Martian.FormatCall (tLP tRP tEq LexOK.wordSp wordEnd_spaces)

/-! ## keywords -/

theorem wl_using : wordLexeme sUsing = .tok (.id sUsing) := by decide
theorem wl_retain : wordLexeme sRetain = .tok (.id sRetain) := by decide
theorem wl_memGb : wordLexeme sMemGb = .tok (.id sMemGb) := by decide
theorem wl_vmemGb : wordLexeme sVmemGb = .tok (.id sVmemGb) := by decide
theorem wl_threads : wordLexeme sThreads = .tok (.id sThreads) := by decide
theorem wl_special : wordLexeme sSpecial = .tok (.id sSpecial) := by decide
theorem wl_volatile : wordLexeme sVolatile = .tok (.id sVolatile) := by decide
theorem wl_strict : wordLexeme sStrict = .tok (.id sStrict) := by decide
theorem wl_src : wordLexeme sSrc = .tok (.reserved sSrc) := by decide
theorem wl_stage : wordLexeme sStage = .tok (.reserved sStage) := by decide
theorem wl_lang (l : Lang) : wordLexeme l.text = .tok (langTok l) := by cases l <;> decide
theorem aw_using : sUsing.all isWord = true := by decide
theorem aw_retain : sRetain.all isWord = true := by decide
theorem aw_memGb : sMemGb.all isWord = true := by decide
theorem aw_vmemGb : sVmemGb.all isWord = true := by decide
theorem aw_threads : sThreads.all isWord = true := by decide
theorem aw_special : sSpecial.all isWord = true := by decide
theorem aw_volatile : sVolatile.all isWord = true := by decide
theorem aw_strict : sStrict.all isWord = true := by decide
theorem aw_src : sSrc.all isWord = true := by decide
theorem aw_stage : sStage.all isWord = true := by decide
theorem aw_lang (l : Lang) : l.text.all isWord = true := by cases l <;> decide

/-! ## values -/

/-- the printed `mem_gb`/`vmem_gb` value is its one token, before a terminator -/
theorem LexOK.gb (mb : Int) (hb : mb.natAbs < 2 ^ 63) : LexOK (fmtGB mb) [tokGB mb] TermStart := by
  have h := numTok_fmtGB mb hb
  unfold tokGB
  by_cases hm : mb.natAbs % 1024 = 0
  · simp only [hm, ↓reduceIte] at h ⊢; exact LexOK.int h
  · simp only [hm, ↓reduceIte] at h ⊢; exact LexOK.float h

theorem LexOK.threads (t : Bytes) (h : wfThreads t = true) : LexOK t [tokThreads t] TermStart := by
  have : (isFloatTok t || isCanonInt t) = true := by
    simp only [wfThreads, Bool.or_eq_true, Bool.and_eq_true] at h ⊢
    rcases h with h | h
    · exact Or.inl h.1
    · exact Or.inr h
  exact LexOK.floatExp this

/-! ## one entry: indent, key, padding, ` = `, value, `,` newline -/

theorem lexOK_keyEq {key : Bytes} {k : Tok} (hw : key.all isWord = true)
    (hk : wordLexeme key = .tok k) (n : Nat) :
    LexOK (indent ++ key ++ spaces n ++ sEq) [k, tEq] AnyRest := by
  have h1 : LexOK indent [] AnyRest := LexOK.spaces all_isSp_indent _
  have h2 := LexOK.word hw hk
  have h3 : LexOK (spaces n ++ [0x20]) [] AnyRest :=
    LexOK.spaces (all_isSp_append (all_isSp_spaces _) (by decide)) _
  have h4 : LexOK [0x3D] [tEq] AnyRest := LexOK.punct (by decide) _
  have h5 : LexOK [0x20] [] AnyRest := LexOK.spaces (by decide) _
  have h345 := (h3.append h4 (fun _ _ => trivial)).append h5 (fun _ _ => trivial)
  have h := (h1.append h2 (fun _ _ => trivial)).append h345 (by
    intro rest _
    have e : (spaces n ++ [0x20] ++ [0x3D] ++ [0x20]) ++ rest =
        spaces n ++ 0x20 :: ([0x3D] ++ [0x20] ++ rest) := by simp
    rw [e]
    exact wordEnd_spaces _ _)
  exact h.congr (by simp [sEq]) (by simp)

theorem lexOK_entry {key val : Bytes} {k : Tok} {tv : List Tok} (hw : key.all isWord = true)
    (hk : wordLexeme key = .tok k) (n : Nat) (hv : LexOK val tv TermStart) :
    LexOK (indent ++ key ++ spaces n ++ sEq ++ val ++ sEnd) ([k, tEq] ++ tv ++ [tComma]) AnyRest := by
  have h := LexOK.item (lexOK_keyEq hw hk n) hv (LexOK.nil AnyRest)
  exact h.congr (by simp [sEnd]) (by simp)

theorem memPad_spaces (r : Res) : ∃ n, memPad r = spaces n := by
  unfold memPad
  split
  · exact ⟨2, rfl⟩
  · split
    · exact ⟨1, rfl⟩
    · exact ⟨0, rfl⟩

theorem threadPad_spaces (r : Res) : ∃ n, threadPad r = spaces n := by
  unfold threadPad
  split
  · exact ⟨1, rfl⟩
  · exact ⟨0, rfl⟩

theorem lexOK_memLine (n : Nat) (a : Option Int) (h : ∀ mb, a = some mb → mb.natAbs < 2 ^ 63) :
    LexOK (memLine (spaces n) a) (toksMem a) AnyRest := by
  cases a with
  | none => exact LexOK.nil _
  | some mb =>
    exact (lexOK_entry aw_memGb wl_memGb n (LexOK.gb mb (h mb rfl))).congr
      (by simp [memLine]) (by simp [toksMem])

theorem lexOK_vmemLine (n : Nat) (a : Option Int) (h : ∀ mb, a = some mb → mb.natAbs < 2 ^ 63) :
    LexOK (vmemLine (spaces n) a) (toksVmem a) AnyRest := by
  cases a with
  | none => exact LexOK.nil _
  | some mb =>
    exact (lexOK_entry aw_vmemGb wl_vmemGb n (LexOK.gb mb (h mb rfl))).congr
      (by simp [vmemLine]) (by simp [toksVmem])

theorem lexOK_specialLine (n : Nat) (a : Option Bytes)
    (h : ∀ s, a = some s → Martian.ShellQuote.validUtf8 s = true) :
    LexOK (specialLine (spaces n) a) (toksSpecial a) AnyRest := by
  cases a with
  | none => exact LexOK.nil _
  | some s =>
    exact (lexOK_entry aw_special wl_special n (LexOK.str (h s rfl) _)).congr
      (by simp [specialLine]) (by simp [toksSpecial])

theorem lexOK_threadsLine (n : Nat) (a : Option Bytes) (h : ∀ t, a = some t → wfThreads t = true) :
    LexOK (threadsLine (spaces n) a) (toksThreads a) AnyRest := by
  cases a with
  | none => exact LexOK.nil _
  | some t =>
    exact (lexOK_entry aw_threads wl_threads n (LexOK.threads t (h t rfl))).congr
      (by simp [threadsLine]) (by simp [toksThreads])

theorem lexOK_volatileLine (a : Option Bool) : LexOK (volatileLine a) (toksVolatile a) AnyRest := by
  cases a with
  | none => exact LexOK.nil _
  | some b =>
    have hv : LexOK (if b then sStrict else sFalse) [if b then .id sStrict else .kFalse] TermStart := by
      cases b
      · exact LexOK.kw all_isWord_false wordLexeme_false
      · exact LexOK.kw aw_strict wl_strict
    have h := lexOK_entry aw_volatile wl_volatile 0 hv
    exact h.congr (by simp [volatileLine, spaces]) (by simp [toksVolatile])

/-! ## the `using` block -/

theorem lexOK_open {w : Bytes} (hw : w.all isWord = true) (hk : wordLexeme w = .tok (.id w)) :
    LexOK ([0x29, 0x20] ++ w ++ [0x20, 0x28, 0x0A]) [tRP, .id w, tLP] AnyRest := by
  have h1 : LexOK [0x29] [tRP] AnyRest := LexOK.punct (by decide) _
  have h2 : LexOK [0x20] [] AnyRest := LexOK.spaces (by decide) _
  have h3 : LexOK (w ++ [0x20]) [.id w] AnyRest := LexOK.wordSp hw hk
  have h4 : LexOK [0x28] [tLP] AnyRest := LexOK.punct (by decide) _
  have h5 : LexOK [0x0A] [] AnyRest := LexOK.spaces (by decide) _
  have h := (((h1.append h2 (fun _ _ => trivial)).append h3 (fun _ _ => trivial)).append h4
    (fun _ _ => trivial)).append h5 (fun _ _ => trivial)
  exact h.congr (by simp) (by simp)

theorem lexOK_fmtResBody (r : Res) (hw : wfRes r = true) :
    LexOK (fmtResBody r) (toksResBody r) AnyRest := by
  obtain ⟨h1, h2, h3, h4⟩ := wfRes_parts hw
  obtain ⟨nm, hm⟩ := memPad_spaces r
  obtain ⟨nt, ht⟩ := threadPad_spaces r
  unfold fmtResBody toksResBody
  rw [hm, ht]
  exact ((((lexOK_memLine nm r.mem h1).append (lexOK_specialLine nt r.special h3)
    (fun _ _ => trivial)).append (lexOK_threadsLine nt r.threads h4) (fun _ _ => trivial)).append
    (lexOK_vmemLine nt r.vmem h2) (fun _ _ => trivial)).append (lexOK_volatileLine r.volatile)
    (fun _ _ => trivial)

/-- **Lexing layer, resources.**  `fmtRes r` followed by any text lexes as
`toksRes r` followed by the tokens of that text. -/
theorem lexOK_fmtRes (r : Res) (hw : wfRes r = true) : LexOK (fmtRes r) (toksRes r) AnyRest := by
  have h := (lexOK_open aw_using wl_using).append (lexOK_fmtResBody r hw) (fun _ _ => trivial)
  exact h.congr (by simp [fmtRes, sUsingOpen]) (by simp [toksRes])

/-! ## retain -/

theorem lexOK_retainLines : ∀ ids : List Bytes, ids.all isIdent = true →
    LexOK (retainLines ids) (toksRetainBody ids) AnyRest
  | [], _ => LexOK.nil _
  | x :: ids, hw => by
    simp only [List.all_cons, Bool.and_eq_true] at hw
    have h1 : LexOK indent [] AnyRest := LexOK.spaces all_isSp_indent _
    have h2 := LexOK.ident hw.1
    have h3 : LexOK [0x2C] [tComma] AnyRest := LexOK.punct (by decide) _
    have h4 : LexOK [0x0A] [] AnyRest := LexOK.spaces (by decide) _
    have h := (((h1.append h2 (fun _ _ => trivial)).append h3
      (fun _ _ => WordEnd.cons _ _ (by decide))).append h4 (fun _ _ => trivial)).append
      (lexOK_retainLines ids hw.2) (fun _ _ => trivial)
    exact h.congr (by simp [retainLines, sEnd]) (by simp [toksRetainBody])

/-- **Lexing layer, retain.** -/
theorem lexOK_fmtRetain (ids : List Bytes) (hw : wfRetain ids = true) :
    LexOK (fmtRetain ids) (toksRetain ids) AnyRest := by
  have h := (lexOK_open aw_retain wl_retain).append (lexOK_retainLines ids hw) (fun _ _ => trivial)
  exact h.congr (by simp [fmtRetain, sRetainOpen]) (by simp [toksRetain])

/-! ## the src line -/

/-- **Lexing layer, src line**, whatever the two widths. -/
theorem lexOK_fmtSrc (mw tw : Nat) (lang : Lang) (path : Bytes) (args : List Bytes)
    (hw : wfSrc path args = true) :
    LexOK (fmtSrc mw tw lang path args) (toksSrc lang path args) AnyRest := by
  simp only [wfSrc, Bool.and_eq_true] at hw
  have h1 : LexOK indent [] AnyRest := LexOK.spaces all_isSp_indent _
  have h2 : LexOK (sSrc ++ [0x20]) [.reserved sSrc] AnyRest := LexOK.wordSp aw_src wl_src
  have h3 : LexOK (spaces (mw - 3)) [] AnyRest := LexOK.spaces (all_isSp_spaces _) _
  have h4 : LexOK lang.text [langTok lang] WordEnd := LexOK.word (aw_lang lang) (wl_lang lang)
  have h5 : LexOK (spaces (tw - lang.text.length) ++ [0x20]) [] AnyRest :=
    LexOK.spaces (all_isSp_append (all_isSp_spaces _) (by decide)) _
  have h6 : LexOK (quoteString (joinSp (path :: args))) [.str (quoteString (joinSp (path :: args)))]
      AnyRest := LexOK.str hw.2 _
  have h7 : LexOK [0x2C] [tComma] AnyRest := LexOK.punct (by decide) _
  have h8 : LexOK [0x0A] [] AnyRest := LexOK.spaces (by decide) _
  have h5678 := ((h5.append h6 (fun _ _ => trivial)).append h7 (fun _ _ => trivial)).append h8
    (fun _ _ => trivial)
  have h := (((h1.append h2 (fun _ _ => trivial)).append h3 (fun _ _ => trivial)).append h4
    (fun _ _ => trivial)).append h5678 (by
      intro rest _
      have e : (spaces (tw - lang.text.length) ++ [0x20] ++ quoteString (joinSp (path :: args)) ++
          [0x2C] ++ [0x0A]) ++ rest = spaces (tw - lang.text.length) ++ 0x20 ::
            (quoteString (joinSp (path :: args)) ++ [0x2C] ++ [0x0A] ++ rest) := by simp
      rw [e]
      exact wordEnd_spaces _ _)
  exact h.congr (by simp [fmtSrc, sEnd]) (by simp [toksSrc])

/-! ## the clauses together -/

theorem lexOK_fmtTail (res : Option Res) (ret : Option (List Bytes))
    (hw1 : (match res with | some r => wfRes r | none => true) = true)
    (hw2 : (match ret with | some ids => wfRetain ids | none => true) = true) :
    LexOK (fmtTail res ret) (toksTail res ret) AnyRest := by
  have h3 : LexOK [0x29, 0x0A] [tRP] AnyRest := by
    have a : LexOK [0x29] [tRP] AnyRest := LexOK.punct (by decide) _
    have b : LexOK [0x0A] [] AnyRest := LexOK.spaces (by decide) _
    exact (a.append b (fun _ _ => trivial)).congr (by simp) (by simp)
  cases res with
  | none =>
    cases ret with
    | none => exact h3.congr (by simp [fmtTail]) (by simp [toksTail])
    | some ids =>
      exact ((lexOK_fmtRetain ids hw2).append h3 (fun _ _ => trivial)).congr
        (by simp [fmtTail]) (by simp [toksTail])
  | some r =>
    cases ret with
    | none =>
      exact ((lexOK_fmtRes r hw1).append h3 (fun _ _ => trivial)).congr
        (by simp [fmtTail]) (by simp [toksTail])
    | some ids =>
      exact (((lexOK_fmtRes r hw1).append (lexOK_fmtRetain ids hw2) (fun _ _ => trivial)).append h3
        (fun _ _ => trivial)).congr (by simp [fmtTail]) (by simp [toksTail])

theorem lexOK_fmtStage0 (s : Stage0) (hw : wfStage0 s = true) :
    LexOK (fmtStage0 s) (toksStage0 s) AnyRest := by
  simp only [wfStage0, Bool.and_eq_true] at hw
  obtain ⟨⟨⟨hid, hsrc⟩, hres⟩, hret⟩ := hw
  have h1 : LexOK (sStage ++ [0x20]) [.reserved sStage] AnyRest := LexOK.wordSp aw_stage wl_stage
  have h2 := LexOK.ident hid
  have h3 : LexOK [0x28] [tLP] AnyRest := LexOK.punct (by decide) _
  have h4 : LexOK [0x0A] [] AnyRest := LexOK.spaces (by decide) _
  have h := ((((h1.append h2 (fun _ _ => trivial)).append h3
    (fun _ _ => WordEnd.cons _ _ (by decide))).append h4 (fun _ _ => trivial)).append
    (lexOK_fmtSrc 3 0 s.lang s.path s.args hsrc) (fun _ _ => trivial)).append
    (lexOK_fmtTail s.res s.retain hres hret) (fun _ _ => trivial)
  exact h.congr (by simp [fmtStage0]) (by simp [toksStage0])

/-! ## round trips on texts -/

theorem lexAll_of_lexOK {s : Bytes} {ts : List Tok} (h : LexOK s ts AnyRest) (rest : Bytes) :
    lexAll (s ++ rest) = (lexAll rest).map (ts ++ ·) := h rest trivial

/-- **Round trip, minimal stage**: the whole text of a stage declaration
without parameters reads back as itself. -/
theorem parseStage0_fmtStage0 (s : Stage0) (hw : wfStage0 s = true) :
    parseStage0 (fmtStage0 s) = some s := by
  have h := lexAll_of_lexOK (lexOK_fmtStage0 s hw) []
  rw [List.append_nil, lexAll_nil] at h
  simp only [parseStage0, h, Option.map_some, List.append_nil, Option.bind_some]
  exact pStage0_toks s hw

end Martian.FormatRes
