/-
C01 — soundness of the decidable checks (Martian/ResolverStaticCheck.lean) for the
hypotheses of the refinement theorem.
-/
import Martian.ResolverStaticCheck
import Proofs.ResolverStaticMain

namespace Proofs.ResolverStatic
open Martian.Dataflow Martian.Resolver Martian.ResolverForks Martian.ResolverStatic Proofs.Dataflow

theorem subB_sound (st : StructTable) : ∀ (n : Nat) (t t' : Ty), subB st n t t' = true → Sub st t t' := by
  intro n
  induction n with
  | zero =>
    intro t t' h
    simp only [subB, beq_iff_eq] at h
    subst h
    exact Sub.refl _
  | succ n ih =>
    intro t t' h
    simp only [subB, Bool.or_eq_true, beq_iff_eq, Bool.and_eq_true, Option.isNone_iff_eq_none] at h
    rcases h with (h | h) | h
    · subst h; exact Sub.refl _
    · exact Sub.scalar _ _ h.1.1.1 h.1.1.2 h.1.2 h.2
    · skip
      obtain ⟨⟨h1, h2⟩, h3⟩ := h
      cases hl : st.lookup t.base with
      | none => simp [hl] at h3
      | some ps =>
        cases hl' : st.lookup t'.base with
        | none => simp [hl, hl'] at h3
        | some ps' =>
          simp only [hl, hl', List.all_eq_true] at h3
          refine Sub.struct t t' ps ps' h1 h2 hl hl' ?_ ?_
          · intro p' hp'
            have := h3 p' hp'
            cases hf : fieldTy st t.base p'.name with
            | none => simp [hf] at this
            | some ft => rfl
          · intro p' hp'
            have := h3 p' hp'
            cases hf : fieldTy st t.base p'.name with
            | none => simp [hf] at this
            | some ft =>
              simp only [hf] at this
              exact ih _ _ this

theorem pathOkB_sound (st : StructTable) : ∀ (path : List String) (t : Ty),
    pathOkB st t path = true → PathOk st t path
  | [], _, _ => trivial
  | g :: r, t, h => by
    simp only [pathOkB, Bool.and_eq_true] at h
    refine ⟨?_, pathOkB_sound st r _ h.2⟩
    have h1 := h.1
    unfold fieldOkB at h1
    cases hf : fieldTy st t.base g with
    | none => simp [hf] at h1
    | some ft =>
      simp only [hf, Bool.or_eq_true, beq_iff_eq] at h1
      exact ⟨ft, hf, fun hne => by cases h1 with | inl h => exact absurd h hne | inr h => exact h⟩

theorem litOkB_sound (st : StructTable) (t : Ty) (j : J) (h : litOkB st t j = true) : LitOk st t j := by
  cases j with
  | null => exact Or.inl rfl
  | atom s =>
    simp only [litOkB, scalarB, Bool.and_eq_true, beq_iff_eq, Option.isNone_iff_eq_none] at h
    exact Or.inr ⟨⟨s, rfl⟩, h.1.1, h.1.2, h.2⟩
  | dnull => simp [litOkB] at h
  | arr xs => simp [litOkB] at h
  | obj kvs => simp [litOkB] at h

mutual
theorem hasTyB_sound (st : StructTable) (n : Nat) (sT cT : String → Ty) :
    ∀ (e : Exp) (t : Ty), hasTyB st n sT cT t e = true → HasTy st sT cT t e
  | .lit j, t, h => by
    simp only [hasTyB] at h
    simp only [HasTy]
    exact litOkB_sound st t j h
  | .arr xs, t, h => by
    simp only [hasTyB, Bool.and_eq_true, bne_iff_ne, ne_eq] at h
    simp only [HasTy]
    exact ⟨h.1, hasTyListB_sound st n sT cT xs _ h.2⟩
  | .map kvs, t, h => by
    simp only [hasTyB, Bool.or_eq_true, Bool.and_eq_true, bne_iff_ne, ne_eq, beq_iff_eq,
      Option.isNone_iff_eq_none] at h
    simp only [HasTy]
    rcases h with h | h
    · exact Or.inl ⟨h.1.1, h.1.2, hasTyFieldsB_sound st n sT cT kvs _ h.2⟩
    · exact Or.inr ⟨h.1.1.1, h.1.1.2, h.1.2, h.2⟩
  | .struct kvs, t, h => by
    simp only [hasTyB, Bool.and_eq_true, beq_iff_eq] at h
    simp only [HasTy]
    obtain ⟨⟨ha, hm⟩, h3⟩ := h
    cases hl : st.lookup t.base with
    | none => simp [hl] at h3
    | some ps =>
      simp only [hl, Bool.and_eq_true, List.all_eq_true] at h3
      exact ⟨ha, hm, ps, rfl, hasTyMembersB_sound st n sT cT ps kvs h3.1, h3.2⟩
  | .self p path, t, h => by
    simp only [hasTyB, Bool.and_eq_true] at h
    simp only [HasTy]
    exact ⟨pathOkB_sound st path _ h.1, subB_sound st n _ _ h.2⟩
  | .ref c path, t, h => by
    simp only [hasTyB, Bool.and_eq_true] at h
    simp only [HasTy]
    exact ⟨pathOkB_sound st path _ h.1, subB_sound st n _ _ h.2⟩
theorem hasTyListB_sound (st : StructTable) (n : Nat) (sT cT : String → Ty) :
    ∀ (es : List Exp) (t : Ty), hasTyListB st n sT cT t es = true → HasTyList st sT cT t es
  | [], _, _ => by simp [HasTyList]
  | e :: es, t, h => by
    simp only [hasTyListB, Bool.and_eq_true] at h
    simp only [HasTyList]
    exact ⟨hasTyB_sound st n sT cT e t h.1, hasTyListB_sound st n sT cT es t h.2⟩
theorem hasTyFieldsB_sound (st : StructTable) (n : Nat) (sT cT : String → Ty) :
    ∀ (kvs : List (String × Exp)) (t : Ty), hasTyFieldsB st n sT cT t kvs = true → HasTyFields st sT cT t kvs
  | [], _, _ => by simp [HasTyFields]
  | (k, e) :: es, t, h => by
    simp only [hasTyFieldsB, Bool.and_eq_true] at h
    simp only [HasTyFields]
    exact ⟨hasTyB_sound st n sT cT e t h.1, hasTyFieldsB_sound st n sT cT es t h.2⟩
theorem hasTyMembersB_sound (st : StructTable) (n : Nat) (sT cT : String → Ty) (ps : List Param) :
    ∀ (kvs : List (String × Exp)), hasTyMembersB st n sT cT ps kvs = true → HasTyMembers st sT cT ps kvs
  | [], _ => by simp [HasTyMembers]
  | (k, e) :: es, h => by
    simp only [hasTyMembersB, Bool.and_eq_true, Bool.or_eq_true, Bool.not_eq_true'] at h
    simp only [HasTyMembers]
    refine ⟨?_, hasTyMembersB_sound st n sT cT ps es h.2⟩
    intro hs
    cases h.1 with
    | inl h1 => rw [h1] at hs; cases hs
    | inr h1 => exact hasTyB_sound st n sT cT e _ h1
end

theorem selfTyOfB_eq : selfTyOfB = selfTyOf := rfl
theorem callTyOfB_eq : callTyOfB = callTyOf := rfl

theorem callOkB_sound (st : StructTable) (n : Nat) (insOf : String → List Param) (sT cT : String → Ty)
    (c : Call) (h : callOkB st n insOf sT cT c = true) : CallOk st insOf sT cT c := by
  simp only [callOkB, Bool.and_eq_true, Bool.not_eq_true', Option.isNone_iff_eq_none, List.all_eq_true] at h
  refine ⟨h.1.1, h.1.2, ?_⟩
  intro p hp b hb
  have := h.2 p hp
  simp only [hb] at this
  exact hasTyB_sound st n sT cT b.exp p.ty this

theorem callsOkB_sound (st : StructTable) (n : Nat) (insOf : String → List Param) (sT : String → Ty) :
    ∀ (cs : List Call) (L : List (String × Ty)), callsOkB st n insOf sT L cs = true → CallsOk st insOf sT L cs
  | [], _, _ => trivial
  | c :: cs, L, h => by
    simp only [callsOkB, Bool.and_eq_true] at h
    exact ⟨callOkB_sound st n insOf sT _ c (by rw [← callTyOfB_eq]; exact h.1),
      callsOkB_sound st n insOf sT cs _ h.2⟩

theorem structsOkB_sound (st : StructTable) (h : structsOkB st = true) : StructsOk st := by
  intro name ps hl
  simp only [structsOkB, List.all_eq_true, decide_eq_true_eq] at h
  exact h (name, ps) (mem_of_lookup st name ps hl)

theorem wellTypedB_sound (P : Program) (h : wellTypedB P = true) : WellTyped P := by
  simp only [wellTypedB, Bool.and_eq_true, List.all_eq_true, beq_iff_eq] at h
  obtain ⟨⟨⟨h1, h2⟩, h3⟩, h4⟩ := h
  refine ⟨structsOkB_sound _ h1, ?_, ?_, ?_⟩
  · intro name c hl
    exact h2 (name, c) (mem_of_lookup _ _ _ hl)
  · intro name pins outs calls ret hl
    have := h3 (name, _) (mem_of_lookup _ _ _ hl)
    simp only [pipelineOkB, Bool.and_eq_true, List.all_eq_true] at this
    refine ⟨callsOkB_sound _ _ _ _ calls [] (by rw [← selfTyOfB_eq]; exact this.1), ?_⟩
    intro p hp e he
    have h5 := this.2 p hp
    simp only [he] at h5
    exact hasTyB_sound _ _ _ _ e p.ty h5
  · exact callOkB_sound _ _ _ _ _ _ h4

theorem narrowFix_of_acyclicB (st : StructTable) (h : acyclicB st = true) : NarrowFix st (st.length + 2) := by
  simp only [acyclicB, List.all_eq_true, Bool.and_eq_true, decide_eq_true_eq, Bool.or_eq_true,
    Option.isNone_iff_eq_none] at h
  apply narrowFix_of_stable
  apply narrowStable_of_rank st (structDepth st st.length)
  · intro name ps hl p hp hs
    have := (h (name, ps) (mem_of_lookup st name ps hl)).2 p hp
    cases this with
    | inl h0 => rw [h0] at hs; cases hs
    | inr h0 => exact h0
  · intro name ps hl
    have := (h (name, ps) (mem_of_lookup st name ps hl)).1
    simp only at this
    omega
  · omega

end Proofs.ResolverStatic
