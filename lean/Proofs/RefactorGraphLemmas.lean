/-
C19 — small lemmas shared by the call-graph theorems of the single edits.
-/
import Martian.RefactorGraph
import Proofs.RefactorGraph

namespace Proofs.RefactorGraph
open Martian.Refactor

theorem find_map_name (F : Callable → Callable) (hF : ∀ c, (F c).name = c.name) (n : String)
    (l : List Callable) :
    (l.map F).find? (·.name == n) = (l.find? (·.name == n)).map F := by
  induction l with
  | nil => rfl
  | cons a t ih =>
    simp only [List.map_cons, List.find?_cons, hF]
    cases h : (a.name == n) <;> simp [ih]

theorem first_of_nodup (c : Callable) (h : (callIds c).Nodup) :
    ∀ k ∈ c.calls, c.calls.find? (·.id == k.id) = some k := by
  unfold callIds at h
  generalize c.calls = l at h
  induction l with
  | nil => intro k hk; cases hk
  | cons a t ih =>
    intro k hk
    simp only [List.map_cons, List.nodup_cons] at h
    cases hk with
    | head => simp
    | tail _ hk =>
      have : (a.id == k.id) = false := by
        have : a.id ≠ k.id := fun e => h.1 (e ▸ List.mem_map.mpr ⟨k, hk, rfl⟩)
        simpa using this
      simp only [List.find?_cons, this]
      exact ih h.2 k hk

theorem expandWild_noStar (ti : TypeInfo) (pipe : Callable) (params : List String) (bs : List Bind)
    (h : noStar bs = true) : expandWild ti pipe params bs = bs := by
  unfold expandWild
  have : bs.find? (·.name == "*") = none := by
    rw [List.find?_eq_none]
    intro b hb
    have := (List.all_eq_true.mp h) b hb
    simpa using this
  rw [this]

theorem resolveBinds_keys (ti : TypeInfo) (tys : Members) (f : Ref → RExp) (bs : List Bind) :
    (resolveBinds ti tys f bs).map (·.1) = bs.map (·.name) := by
  simp [resolveBinds]

theorem substRefs_mapRefs (f : Ref → RExp) (g : Ref → Ref) (e : Exp) :
    substRefs f (mapRefs g e) = substRefs (fun r => f (g r)) e := by
  induction e with
  | lit s => rfl
  | ref r => rfl
  | split e ih => simp [mapRefs, substRefs, ih]
  | arr es ih => simp [mapRefs, substRefs, ih]
  | map b es ih => simp [mapRefs, substRefs, ih]
  | nil => rfl
  | cons k h t ih1 ih2 => simp [mapRefs, substRefs, ih1, ih2]

theorem substRefs_congr (f f' : Ref → RExp) (e : Exp) (h : ∀ r ∈ refs e, f r = f' r) :
    substRefs f e = substRefs f' e := by
  induction e with
  | lit s => rfl
  | ref r => exact h r (by simp [refs])
  | split e ih => simp only [substRefs]; rw [ih (fun r hr => h r (by simpa [refs] using hr))]
  | arr es ih => simp only [substRefs]; rw [ih (fun r hr => h r (by simpa [refs] using hr))]
  | map b es ih => simp only [substRefs]; rw [ih (fun r hr => h r (by simpa [refs] using hr))]
  | nil => rfl
  | cons k hd t ih1 ih2 =>
    simp only [substRefs]
    rw [ih1 (fun r hr => h r (by simp [refs, hr])), ih2 (fun r hr => h r (by simp [refs, hr]))]

theorem resolveBinds_congr (ti : TypeInfo) (tys : Members) (f f' : Ref → RExp) (bs : List Bind)
    (h : ∀ b ∈ bs, ∀ r ∈ refs b.exp, f r = f' r) :
    resolveBinds ti tys f bs = resolveBinds ti tys f' bs := by
  unfold resolveBinds
  apply List.map_congr_left
  intro b hb
  rw [substRefs_congr f f' b.exp (h b hb)]

theorem resolveBinds_mapRefs (ti : TypeInfo) (tys : Members) (f : Ref → RExp) (g : Ref → Ref)
    (bs : List Bind) :
    resolveBinds ti tys f (bs.map (Bind.mapRefs g)) = resolveBinds ti tys (fun r => f (g r)) bs := by
  unfold resolveBinds
  rw [List.map_map]
  apply List.map_congr_left
  intro b _
  simp [Bind.mapRefs, substRefs_mapRefs]

/-- resolution depends on the type table only through the struct member lookup
and the parameter types handed in -/
theorem resolveBinds_ti (ti ti' : TypeInfo) (hmo : membersOf ti' = membersOf ti) (tys : Members)
    (f : Ref → RExp) (bs : List Bind) :
    resolveBinds ti' tys f bs = resolveBinds ti tys f bs := by
  unfold resolveBinds
  rw [hmo]

theorem lookup_onKey_ne {α : Type} (x n : String) (g : α → α) (l : List (String × α)) (h : n ≠ x) :
    (onKey x g l).lookup n = l.lookup n := by
  induction l with
  | nil => rfl
  | cons e t ih =>
    obtain ⟨k, v⟩ := e
    simp only [onKey]
    split
    · rename_i hk
      subst hk
      have : (n == k) = false := by simpa using h
      simp [List.lookup_cons, this]
    · cases hnk : (n == k) <;> simp [List.lookup_cons, hnk, ih]

theorem lookup_onKey_self {α : Type} (x : String) (g : α → α) (l : List (String × α)) :
    (onKey x g l).lookup x = (l.lookup x).map g := by
  induction l with
  | nil => rfl
  | cons e t ih =>
    obtain ⟨k, v⟩ := e
    simp only [onKey]
    split
    · rename_i hk
      subst hk
      simp [List.lookup_cons]
    · rename_i hk
      have : (x == k) = false := by simpa using (fun h => hk (h.symm))
      simp [List.lookup_cons, this, ih]

/-! ### renaming a key -/

theorem lookup_renKeyM_new (a b : String) (l : Members) (hb : b ∉ l.map (·.1)) (hab : a ≠ b) :
    (renKeyM a b l).lookup b = l.lookup a := by
  induction l with
  | nil => rfl
  | cons e t ih =>
    obtain ⟨k, v⟩ := e
    simp only [List.map_cons, List.mem_cons, not_or] at hb
    simp only [renKeyM]
    split
    · rename_i hk
      subst hk
      simp [List.lookup_cons]
    · rename_i hk
      have h1 : (b == k) = false := by simpa using hb.1
      have h2 : (a == k) = false := by simpa using (fun h => hk h.symm)
      simp [List.lookup_cons, h1, h2, ih hb.2]

theorem lookup_renKeyM_other (a b n : String) (l : Members) (hna : n ≠ a) (hnb : n ≠ b) :
    (renKeyM a b l).lookup n = l.lookup n := by
  induction l with
  | nil => rfl
  | cons e t ih =>
    obtain ⟨k, v⟩ := e
    simp only [renKeyM]
    split
    · rename_i hk
      subst hk
      have h1 : (n == k) = false := by simpa using hna
      have h2 : (n == b) = false := by simpa using hnb
      simp [List.lookup_cons, h1, h2]
    · cases hnk : (n == k) <;> simp [List.lookup_cons, hnk, ih]

theorem envGet_renKey_new (a b : String) (env : Env) (hb : b ∉ env.map (·.1)) (hab : a ≠ b) :
    envGet (renKeyEnv a b env) b = envGet env a := by
  unfold envGet
  congr 1
  induction env with
  | nil => rfl
  | cons e t ih =>
    obtain ⟨k, v⟩ := e
    simp only [List.map_cons, List.mem_cons, not_or] at hb
    simp only [renKeyEnv]
    split
    · rename_i hk
      subst hk
      simp [List.lookup_cons]
    · rename_i hk
      have h1 : (b == k) = false := by simpa using hb.1
      have h2 : (a == k) = false := by simpa using (fun h => hk h.symm)
      simp [List.lookup_cons, h1, h2, ih hb.2]

theorem envGet_renKey_other (a b n : String) (env : Env) (hna : n ≠ a) (hnb : n ≠ b) :
    envGet (renKeyEnv a b env) n = envGet env n := by
  unfold envGet
  congr 1
  induction env with
  | nil => rfl
  | cons e t ih =>
    obtain ⟨k, v⟩ := e
    simp only [renKeyEnv]
    split
    · rename_i hk
      subst hk
      have h1 : (n == k) = false := by simpa using hna
      have h2 : (n == b) = false := by simpa using hnb
      simp [List.lookup_cons, h1, h2]
    · cases hnk : (n == k) <;> simp [List.lookup_cons, hnk, ih]

/-- bindings whose names avoid `a` and `b` resolve the same under the renamed
parameter types -/
theorem resolveBinds_tys_other (ti : TypeInfo) (a b : String) (tys : Members) (f : Ref → RExp)
    (bs : List Bind) (h : ∀ bd ∈ bs, bd.name ≠ a ∧ bd.name ≠ b) :
    resolveBinds ti (renKeyM a b tys) f bs = resolveBinds ti tys f bs := by
  unfold resolveBinds
  apply List.map_congr_left
  intro bd hbd
  rw [lookup_renKeyM_other a b bd.name tys (h bd hbd).1 (h bd hbd).2]

theorem resolveBinds_renameFirst (ti : TypeInfo) (a b : String) (tys : Members) (f : Ref → RExp)
    (bs : List Bind) (hab : a ≠ b) (htys : b ∉ tys.map (·.1)) (hbs : b ∉ bs.map (·.name))
    (hnd : (bs.map (·.name)).Nodup) :
    resolveBinds ti (renKeyM a b tys) f (renameFirstBind a b bs)
      = renKeyEnv a b (resolveBinds ti tys f bs) := by
  induction bs with
  | nil => rfl
  | cons bd t ih =>
    simp only [List.map_cons, List.mem_cons, not_or] at hbs
    simp only [List.map_cons, List.nodup_cons] at hnd
    simp only [renameFirstBind]
    split
    · rename_i hk
      -- the head is the binding named `a`: the tail has neither `a` nor `b`
      have htail : ∀ bd' ∈ t, bd'.name ≠ a ∧ bd'.name ≠ b := by
        intro bd' hbd'
        refine ⟨fun h => hnd.1 (by rw [hk]; exact List.mem_map.mpr ⟨bd', hbd', h⟩),
                fun h => hbs.2 (List.mem_map.mpr ⟨bd', hbd', h⟩)⟩
      have := resolveBinds_tys_other ti a b tys f t htail
      simp only [resolveBinds, List.map_cons] at this ⊢
      rw [this]
      simp [renKeyEnv, hk, lookup_renKeyM_new a b tys htys hab]
    · rename_i hk
      have hnb : bd.name ≠ b := fun h => hbs.1 h.symm
      have := ih hbs.2 hnd.2
      simp only [resolveBinds, List.map_cons] at this ⊢
      rw [this]
      simp [renKeyEnv, hk, lookup_renKeyM_other a b bd.name tys hk hnb]


/-! ### renaming inside resolved expressions -/

section MapSref
variable (g : String → List String → String × List String)

theorem mapSref_rnull : mapSref g rnull = rnull := rfl

theorem substRefs_post (f : Ref → RExp) (e : Exp) :
    mapSref g (substRefs f e) = substRefs (fun r => mapSref g (f r)) e := by
  induction e with
  | lit s => rfl
  | ref r => rfl
  | split e ih => simp [substRefs, mapSref, ih]
  | arr es ih => simp [substRefs, mapSref, ih]
  | map b es ih => simp [substRefs, mapSref, ih]
  | nil => rfl
  | cons k h t ih1 ih2 => simp [substRefs, mapSref, ih1, ih2]

theorem envEntries_mapVals (env : Env) :
    mapSref g (envEntries env) = envEntries (mapVals (mapSref g) env) := by
  induction env with
  | nil => rfl
  | cons e t ih =>
    obtain ⟨k, v⟩ := e
    simp only [envEntries, mapSref, mapVals, List.map_cons] at ih ⊢
    rw [ih]

theorem envGet_mapVals (f : RExp → RExp) (hf : f rnull = rnull) (env : Env) (k : String) :
    envGet (mapVals f env) k = f (envGet env k) := by
  unfold envGet mapVals
  induction env with
  | nil => simp [hf]
  | cons e t ih =>
    obtain ⟨k', v⟩ := e
    simp only [List.map_cons, List.lookup_cons]
    cases h : (k == k') <;> simp [ih]

/-- `g` respects projection: it looks at the callable and the path as a whole
only through a prefix -/
def PathStable : Prop := ∀ c p q, g c (p ++ q) = ((g c p).1, (g c p).2 ++ q)

theorem bindingPath_mapSref_all (hg : PathStable g) (v : RExp) :
    (∀ path, bindingPath path (mapSref g v) = mapSref g (bindingPath path v))
    ∧ (∀ path, bindingPathElems path (mapSref g v) = mapSref g (bindingPathElems path v))
    ∧ (∀ h t, projectMember h t (mapSref g v) = mapSref g (projectMember h t v)) := by
  induction v with
  | lit s => simp [mapSref, bindingPath, bindingPathElems, projectMember, rnull]
  | sref fq c p =>
    refine ⟨?_, ?_, ?_⟩
    · intro path
      simp only [mapSref, bindingPath]
      rw [hg c p path]
    · intro path; simp [mapSref, bindingPathElems]
    · intro h t; simp [mapSref, projectMember, rnull]
  | split e _ => simp [mapSref, bindingPath, bindingPathElems, projectMember, rnull]
  | arr es ih =>
    refine ⟨?_, ?_, ?_⟩
    · intro path; simp [mapSref, bindingPath, ih.2.1]
    · intro path; simp [mapSref, bindingPathElems]
    · intro h t; simp [mapSref, projectMember, rnull]
  | map st es ih =>
    refine ⟨?_, ?_, ?_⟩
    · intro path
      cases st with
      | false => simp [mapSref, bindingPath, ih.2.1]
      | true =>
        cases path with
        | nil => simp [mapSref, bindingPath]
        | cons h t => simp [mapSref, bindingPath, ih.2.2]
    · intro path; simp [mapSref, bindingPathElems]
    · intro h t; simp [mapSref, projectMember, rnull]
  | nil => simp [mapSref, bindingPath, bindingPathElems, projectMember, rnull]
  | cons k hd tl ih1 ih2 =>
    refine ⟨?_, ?_, ?_⟩
    · intro path; simp [mapSref, bindingPath]
    · intro path; simp [mapSref, bindingPathElems, ih1.1, ih2.2.1]
    · intro h t
      simp only [mapSref, projectMember]
      split
      · exact ih1.1 t
      · exact ih2.2.2 h t

theorem filter_mapSref_all (mo : String → Option Members) (v : RExp) :
    (∀ ty, filterExp mo ty (mapSref g v) = mapSref g (filterExp mo ty v))
    ∧ (∀ ty, filterElems mo ty (mapSref g v) = mapSref g (filterElems mo ty v))
    ∧ (∀ ms, filterMembers mo ms (mapSref g v) = mapSref g (filterMembers mo ms v)) := by
  induction v with
  | lit s => simp [mapSref, filterExp, filterElems, filterMembers]
  | sref fq c p => simp [mapSref, filterExp, filterElems, filterMembers]
  | split e _ => simp [mapSref, filterExp, filterElems, filterMembers]
  | arr es ih =>
    refine ⟨?_, ?_, ?_⟩
    · intro ty
      simp only [mapSref, filterExp]
      split
      · rfl
      · split
        · rfl
        · simp [mapSref, ih.2.1]
    · intro ty; simp [mapSref, filterElems]
    · intro ms; simp [mapSref, filterMembers]
  | map st es ih =>
    refine ⟨?_, ?_, ?_⟩
    · intro ty
      simp only [mapSref, filterExp]
      split
      · rfl
      · split
        · simp [mapSref, ih.2.2]
        · split
          · simp [mapSref, ih.2.1]
          · rfl
    · intro ty; simp [mapSref, filterElems]
    · intro ms; simp [mapSref, filterMembers]
  | nil => simp [mapSref, filterExp, filterElems, filterMembers]
  | cons k hd tl ih1 ih2 =>
    refine ⟨?_, ?_, ?_⟩
    · intro ty; simp [mapSref, filterExp]
    · intro ty; simp [mapSref, filterElems, ih1.1, ih2.2.1]
    · intro ms
      simp only [mapSref, filterMembers]
      split
      · simp [mapSref, ih1.1, ih2.2.2]
      · exact ih2.2.2 ms

theorem resolveBinds_post (ti : TypeInfo) (tys : Members) (f : Ref → RExp) (bs : List Bind) :
    resolveBinds ti tys (fun r => mapSref g (f r)) bs
      = mapVals (mapSref g) (resolveBinds ti tys f bs) := by
  unfold resolveBinds mapVals
  rw [List.map_map]
  apply List.map_congr_left
  intro bd _
  simp only [Function.comp]
  rw [← substRefs_post]
  split
  · rw [(filter_mapSref_all g _ _).1]
  · rfl

end MapSref

theorem mem_of_lookup {α : Type} (k : String) (v : α) (l : List (String × α)) (h : l.lookup k = some v) :
    (k, v) ∈ l := by
  induction l with
  | nil => simp at h
  | cons e t ih =>
    obtain ⟨k', v'⟩ := e
    simp only [List.lookup_cons] at h
    cases hk : (k == k') with
    | true =>
      simp only [hk] at h
      have : k = k' := by simpa using hk
      cases h
      simp [this]
    | false =>
      simp only [hk] at h
      exact List.mem_cons_of_mem _ (ih h)

/-- the member lookups agree on every type the filtering can reach -/
theorem filter_congr_all (mo mo' : String → Option Members) (ok : String → Prop)
    (hmo : ∀ base, ok base → mo' base = mo base)
    (hclosed : ∀ base ms, ok base → mo base = some ms → ∀ m ∈ ms, ok m.2.base) (v : RExp) :
    (∀ ty, ok ty.base → filterExp mo' ty v = filterExp mo ty v)
    ∧ (∀ ty, ok ty.base → filterElems mo' ty v = filterElems mo ty v)
    ∧ (∀ ms, (∀ m ∈ ms, ok m.2.base) → filterMembers mo' ms v = filterMembers mo ms v) := by
  induction v with
  | lit s => simp [filterExp, filterElems, filterMembers]
  | sref fq c p => simp [filterExp, filterElems, filterMembers]
  | split e _ => simp [filterExp, filterElems, filterMembers]
  | arr es ih =>
    refine ⟨?_, ?_, ?_⟩
    · intro ty hty
      simp only [filterExp, hmo _ hty]
      split
      · rfl
      · split
        · rfl
        · rw [ih.2.1 { base := ty.base, arrayDim := ty.arrayDim - 1, mapDim := ty.mapDim } hty]
    · intro ty _; simp [filterElems]
    · intro ms _; simp [filterMembers]
  | map st es ih =>
    refine ⟨?_, ?_, ?_⟩
    · intro ty hty
      simp only [filterExp, hmo _ hty]
      split
      · rfl
      · rename_i ms hms
        split
        · rw [ih.2.2 ms (hclosed _ ms hty hms)]
        · split
          · rw [ih.2.1 ⟨ty.base, ty.mapDim - 1, 0⟩ hty]
          · rfl
    · intro ty _; simp [filterElems]
    · intro ms _; simp [filterMembers]
  | nil => simp [filterExp, filterElems, filterMembers]
  | cons k hd tl ih1 ih2 =>
    refine ⟨?_, ?_, ?_⟩
    · intro ty _; simp [filterExp]
    · intro ty hty; simp [filterElems, ih1.1 ty hty, ih2.2.1 ty hty]
    · intro ms hms
      simp only [filterMembers]
      split
      · rename_i mty hl
        have : ok mty.base := by
          exact hms _ (mem_of_lookup k mty ms hl)
        rw [ih1.1 mty this, ih2.2.2 ms hms]
      · exact ih2.2.2 ms hms

theorem lookup_renTop_other {α : Type} (x y n : String) (l : List (String × α)) (hx : n ≠ x) (hy : n ≠ y) :
    (renTop x y l).lookup n = l.lookup n := by
  induction l with
  | nil => rfl
  | cons e t ih =>
    obtain ⟨k, v⟩ := e
    simp only [renTop]
    split
    · rename_i hk
      subst hk
      have h1 : (n == k) = false := by simpa using hx
      have h2 : (n == y) = false := by simpa using hy
      simp [List.lookup_cons, h1, h2]
    · cases hnk : (n == k) <;> simp [List.lookup_cons, hnk, ih]

theorem lookup_renTop_new {α : Type} (x y : String) (l : List (String × α)) (hy : y ∉ l.map (·.1)) :
    (renTop x y l).lookup y = l.lookup x := by
  induction l with
  | nil => rfl
  | cons e t ih =>
    obtain ⟨k, v⟩ := e
    simp only [List.map_cons, List.mem_cons, not_or] at hy
    simp only [renTop]
    split
    · rename_i hk
      subst hk
      simp [List.lookup_cons]
    · rename_i hk
      have h1 : (y == k) = false := by simpa using hy.1
      have h2 : (x == k) = false := by simpa using (fun h => hk h.symm)
      simp [List.lookup_cons, h1, h2, ih hy.2]

theorem renTop_roundtrip {α : Type} (x y : String) (l : List (String × α)) (hy : y ∉ l.map (·.1)) :
    renTop y x (renTop x y l) = l := by
  induction l with
  | nil => rfl
  | cons e t ih =>
    obtain ⟨k, v⟩ := e
    simp only [List.map_cons, List.mem_cons, not_or] at hy
    simp only [renTop]
    split
    · rename_i hk
      simp [renTop, hk]
    · rename_i hk
      have : ¬ k = y := fun e => hy.1 e.symm
      simp [renTop, this, ih hy.2]

theorem typeInfo_rename_roundtrip (x y : String) (ti : TypeInfo)
    (hi : y ∉ ti.ins.map (·.1)) (ho : y ∉ ti.outs.map (·.1)) :
    (ti.renameCallable x y).renameCallable y x = ti := by
  cases ti with
  | mk structs ins outs =>
    simp only [TypeInfo.renameCallable]
    rw [renTop_roundtrip x y ins hi, renTop_roundtrip x y outs ho]

end Proofs.RefactorGraph
