/-
C19 — small lemmas shared by the call-graph theorems of the single edits.
-/
import Martian.RefactorGraph
import Proofs.RefactorGraph

namespace Proofs.RefactorGraph
open Martian.Refactor

theorem find_map_name (F : Callable → Callable) (hF : ∀ c, (F c).name = c.name) (n : String)
    (l : List Callable) :
    (l.map F).find? (·.name == n) = (l.find? (·.name == n)).map F := by
  induction l with
  | nil => rfl
  | cons a t ih =>
    simp only [List.map_cons, List.find?_cons, hF]
    cases h : (a.name == n) <;> simp [ih]

theorem expandWild_noStar (ti : TypeInfo) (pipe : Callable) (params : List String) (bs : List Bind)
    (h : noStar bs = true) : expandWild ti pipe params bs = bs := by
  unfold expandWild
  have : bs.find? (·.name == "*") = none := by
    rw [List.find?_eq_none]
    intro b hb
    have := (List.all_eq_true.mp h) b hb
    simpa using this
  rw [this]

theorem resolveBinds_keys (ti : TypeInfo) (tys : Members) (f : Ref → RExp) (bs : List Bind) :
    (resolveBinds ti tys f bs).map (·.1) = bs.map (·.name) := by
  simp [resolveBinds]

theorem substRefs_mapRefs (f : Ref → RExp) (g : Ref → Ref) (e : Exp) :
    substRefs f (mapRefs g e) = substRefs (fun r => f (g r)) e := by
  induction e with
  | lit s => rfl
  | ref r => rfl
  | split e ih => simp [mapRefs, substRefs, ih]
  | arr es ih => simp [mapRefs, substRefs, ih]
  | map b es ih => simp [mapRefs, substRefs, ih]
  | nil => rfl
  | cons k h t ih1 ih2 => simp [mapRefs, substRefs, ih1, ih2]

theorem substRefs_congr (f f' : Ref → RExp) (e : Exp) (h : ∀ r ∈ refs e, f r = f' r) :
    substRefs f e = substRefs f' e := by
  induction e with
  | lit s => rfl
  | ref r => exact h r (by simp [refs])
  | split e ih => simp only [substRefs]; rw [ih (fun r hr => h r (by simpa [refs] using hr))]
  | arr es ih => simp only [substRefs]; rw [ih (fun r hr => h r (by simpa [refs] using hr))]
  | map b es ih => simp only [substRefs]; rw [ih (fun r hr => h r (by simpa [refs] using hr))]
  | nil => rfl
  | cons k hd t ih1 ih2 =>
    simp only [substRefs]
    rw [ih1 (fun r hr => h r (by simp [refs, hr])), ih2 (fun r hr => h r (by simp [refs, hr]))]

theorem resolveBinds_congr (ti : TypeInfo) (tys : Members) (f f' : Ref → RExp) (bs : List Bind)
    (h : ∀ b ∈ bs, ∀ r ∈ refs b.exp, f r = f' r) :
    resolveBinds ti tys f bs = resolveBinds ti tys f' bs := by
  unfold resolveBinds
  apply List.map_congr_left
  intro b hb
  rw [substRefs_congr f f' b.exp (h b hb)]

theorem resolveBinds_mapRefs (ti : TypeInfo) (tys : Members) (f : Ref → RExp) (g : Ref → Ref)
    (bs : List Bind) :
    resolveBinds ti tys f (bs.map (Bind.mapRefs g)) = resolveBinds ti tys (fun r => f (g r)) bs := by
  unfold resolveBinds
  rw [List.map_map]
  apply List.map_congr_left
  intro b _
  simp [Bind.mapRefs, substRefs_mapRefs]

/-- resolution depends on the type table only through the struct member lookup
and the parameter types handed in -/
theorem resolveBinds_ti (ti ti' : TypeInfo) (hmo : membersOf ti' = membersOf ti) (tys : Members)
    (f : Ref → RExp) (bs : List Bind) :
    resolveBinds ti' tys f bs = resolveBinds ti tys f bs := by
  unfold resolveBinds
  rw [hmo]

theorem lookup_onKey_ne {α : Type} (x n : String) (g : α → α) (l : List (String × α)) (h : n ≠ x) :
    (onKey x g l).lookup n = l.lookup n := by
  induction l with
  | nil => rfl
  | cons e t ih =>
    obtain ⟨k, v⟩ := e
    simp only [onKey]
    split
    · rename_i hk
      subst hk
      have : (n == k) = false := by simpa using h
      simp [List.lookup_cons, this]
    · cases hnk : (n == k) <;> simp [List.lookup_cons, hnk, ih]

theorem lookup_onKey_self {α : Type} (x : String) (g : α → α) (l : List (String × α)) :
    (onKey x g l).lookup x = (l.lookup x).map g := by
  induction l with
  | nil => rfl
  | cons e t ih =>
    obtain ⟨k, v⟩ := e
    simp only [onKey]
    split
    · rename_i hk
      subst hk
      simp [List.lookup_cons]
    · rename_i hk
      have : (x == k) = false := by simpa using (fun h => hk (h.symm))
      simp [List.lookup_cons, this, ih]

/-! ### renaming a key -/

theorem lookup_renKeyM_new (a b : String) (l : Members) (hb : b ∉ l.map (·.1)) (hab : a ≠ b) :
    (renKeyM a b l).lookup b = l.lookup a := by
  induction l with
  | nil => rfl
  | cons e t ih =>
    obtain ⟨k, v⟩ := e
    simp only [List.map_cons, List.mem_cons, not_or] at hb
    simp only [renKeyM]
    split
    · rename_i hk
      subst hk
      simp [List.lookup_cons]
    · rename_i hk
      have h1 : (b == k) = false := by simpa using hb.1
      have h2 : (a == k) = false := by simpa using (fun h => hk h.symm)
      simp [List.lookup_cons, h1, h2, ih hb.2]

theorem lookup_renKeyM_other (a b n : String) (l : Members) (hna : n ≠ a) (hnb : n ≠ b) :
    (renKeyM a b l).lookup n = l.lookup n := by
  induction l with
  | nil => rfl
  | cons e t ih =>
    obtain ⟨k, v⟩ := e
    simp only [renKeyM]
    split
    · rename_i hk
      subst hk
      have h1 : (n == k) = false := by simpa using hna
      have h2 : (n == b) = false := by simpa using hnb
      simp [List.lookup_cons, h1, h2]
    · cases hnk : (n == k) <;> simp [List.lookup_cons, hnk, ih]

theorem envGet_renKey_new (a b : String) (env : Env) (hb : b ∉ env.map (·.1)) (hab : a ≠ b) :
    envGet (renKeyEnv a b env) b = envGet env a := by
  unfold envGet
  congr 1
  induction env with
  | nil => rfl
  | cons e t ih =>
    obtain ⟨k, v⟩ := e
    simp only [List.map_cons, List.mem_cons, not_or] at hb
    simp only [renKeyEnv]
    split
    · rename_i hk
      subst hk
      simp [List.lookup_cons]
    · rename_i hk
      have h1 : (b == k) = false := by simpa using hb.1
      have h2 : (a == k) = false := by simpa using (fun h => hk h.symm)
      simp [List.lookup_cons, h1, h2, ih hb.2]

theorem envGet_renKey_other (a b n : String) (env : Env) (hna : n ≠ a) (hnb : n ≠ b) :
    envGet (renKeyEnv a b env) n = envGet env n := by
  unfold envGet
  congr 1
  induction env with
  | nil => rfl
  | cons e t ih =>
    obtain ⟨k, v⟩ := e
    simp only [renKeyEnv]
    split
    · rename_i hk
      subst hk
      have h1 : (n == k) = false := by simpa using hna
      have h2 : (n == b) = false := by simpa using hnb
      simp [List.lookup_cons, h1, h2]
    · cases hnk : (n == k) <;> simp [List.lookup_cons, hnk, ih]

/-- bindings whose names avoid `a` and `b` resolve the same under the renamed
parameter types -/
theorem resolveBinds_tys_other (ti : TypeInfo) (a b : String) (tys : Members) (f : Ref → RExp)
    (bs : List Bind) (h : ∀ bd ∈ bs, bd.name ≠ a ∧ bd.name ≠ b) :
    resolveBinds ti (renKeyM a b tys) f bs = resolveBinds ti tys f bs := by
  unfold resolveBinds
  apply List.map_congr_left
  intro bd hbd
  rw [lookup_renKeyM_other a b bd.name tys (h bd hbd).1 (h bd hbd).2]

theorem resolveBinds_renameFirst (ti : TypeInfo) (a b : String) (tys : Members) (f : Ref → RExp)
    (bs : List Bind) (hab : a ≠ b) (htys : b ∉ tys.map (·.1)) (hbs : b ∉ bs.map (·.name))
    (hnd : (bs.map (·.name)).Nodup) :
    resolveBinds ti (renKeyM a b tys) f (renameFirstBind a b bs)
      = renKeyEnv a b (resolveBinds ti tys f bs) := by
  induction bs with
  | nil => rfl
  | cons bd t ih =>
    simp only [List.map_cons, List.mem_cons, not_or] at hbs
    simp only [List.map_cons, List.nodup_cons] at hnd
    simp only [renameFirstBind]
    split
    · rename_i hk
      -- the head is the binding named `a`: the tail has neither `a` nor `b`
      have htail : ∀ bd' ∈ t, bd'.name ≠ a ∧ bd'.name ≠ b := by
        intro bd' hbd'
        refine ⟨fun h => hnd.1 (by rw [hk]; exact List.mem_map.mpr ⟨bd', hbd', h⟩),
                fun h => hbs.2 (List.mem_map.mpr ⟨bd', hbd', h⟩)⟩
      have := resolveBinds_tys_other ti a b tys f t htail
      simp only [resolveBinds, List.map_cons] at this ⊢
      rw [this]
      simp [renKeyEnv, hk, lookup_renKeyM_new a b tys htys hab]
    · rename_i hk
      have hnb : bd.name ≠ b := fun h => hbs.1 h.symm
      have := ih hbs.2 hnd.2
      simp only [resolveBinds, List.map_cons] at this ⊢
      rw [this]
      simp [renKeyEnv, hk, lookup_renKeyM_other a b bd.name tys hk hnb]

end Proofs.RefactorGraph
