import Martian.Vdr
import Proofs.VdrInv
import Proofs.VdrShrink
import Proofs.VdrListed

/-! A fork whose node lies below a symbolic link is refused by VDR: no kill
pass and no temp cleaning ever runs for it.  Then nothing is removed and
nothing is reported, whatever else happens. -/
namespace Martian.Vdr

/-- the event is one of the passes that remove something -/
def Ev.removes : Ev → Bool
  | .early _ => true
  | .kill => true
  | _ => false

theorem step_refused (c : Cfg) (s : St) (e : Ev) (h : e.removes = false) :
    (step c s e).disk = s.disk ∧ (step c s e).removed = s.removed ∧ (step c s e).report = s.report ∧
    (step c s e).final = s.final := by
  cases e with
  | nodeDone n => exact ⟨rfl, rfl, rfl, rfl⟩
  | nodeFailed n => exact ⟨rfl, rfl, rfl, rfl⟩
  | nodeReset n => exact ⟨rfl, rfl, rfl, rfl⟩
  | restart => exact ⟨rfl, rfl, rfl, rfl⟩
  | removeEmpty =>
    have f := foldRemove_frame (fun a => (c.namesOf a).isEmpty) s.dom s
    exact ⟨f.disk, f.removed, f.report, f.final⟩
  | cacheMap =>
    refine ⟨cacheMap_disk c s, cacheMap_removed c s, cacheMap_report c s, ?_⟩
    have f1 : Frame s (dropNoFiles c s) := foldRemove_frame (fun a => (c.filesOf a).isEmpty) s.dom s
    have f2 : Frame (dropNoFiles c s) (dropUnused (cacheEntries c s) (dropNoFiles c s)) :=
      foldRemove_frame (fun a => !((cacheEntries c s).any (fun e => e.args.contains a))) _ _
    show (dropUnused (cacheEntries c s) (dropNoFiles c s)).final = s.final
    rw [f2.final, f1.final]
  | early upto => simp [Ev.removes] at h
  | kill => simp [Ev.removes] at h

theorem run_refused (c : Cfg) (s : St) (evs : List Ev) (h : ∀ e ∈ evs, e.removes = false) :
    (run c s evs).disk = s.disk ∧ (run c s evs).removed = s.removed ∧ (run c s evs).report = s.report ∧
    (run c s evs).final = s.final := by
  unfold run
  induction evs generalizing s with
  | nil => exact ⟨rfl, rfl, rfl, rfl⟩
  | cons e r ih =>
    obtain ⟨h1, h2, h3, h4⟩ := step_refused c s e (h e List.mem_cons_self)
    obtain ⟨g1, g2, g3, g4⟩ := ih (step c s e) (fun x hx => h x (List.mem_cons_of_mem _ hx))
    simp only [List.foldl]
    exact ⟨g1.trans h1, g2.trans h2, g3.trans h3, g4.trans h4⟩

end Martian.Vdr
