/-
C19 — renameInput leaves the resolved call graph unchanged modulo the renamed
input key (instance of the simulation principle of Proofs/RefactorGraph.lean).
-/
import Proofs.RefactorGraphLemmas

namespace Proofs.RefactorGraph
open Martian.Refactor

section RenIn
variable (x a b : String)

def GIn (pipe : Callable) (k : Call) : Call :=
  if pipe.name = x then Call.mapRefs (renRefId RefKind.self a b) k else renameCallParam x a b k

def SIn (name : String) (env : Env) : Env := if name = x then renKeyEnv a b env else env

def IIn (c : Callable) (self : Env) : Prop := c.name = x → b ∉ self.map (·.1)

theorem renameInputIn_name (c : Callable) : (renameInputIn x a b c).name = c.name := by
  unfold renameInputIn; split <;> split <;> rfl

theorem lookupRef_renIn (self : Env) (sib : String → RExp) (r : Ref)
    (hab : a ≠ b) (hb : b ∉ self.map (·.1)) (hr : selfRefTo b r = false) :
    lookupRef (renKeyEnv a b self) sib (renRefId RefKind.self a b r) = lookupRef self sib r := by
  unfold renRefId lookupRef
  split
  · rename_i h
    simp only [h.1]
    rw [envGet_renKey_new a b self hb hab, h.2]
  · rename_i h
    cases hk : r.kind with
    | call => rfl
    | self =>
      simp only
      have hna : r.id ≠ a := fun e => h ⟨hk, e⟩
      have hnb : r.id ≠ b := by
        intro e
        simp [selfRefTo, hk, e] at hr
      rw [envGet_renKey_other a b r.id self hna hnb]

end RenIn

theorem pipeOKIn_parts {x b : String} {c : Callable} (h : pipeOKIn x b c = true) :
    (c.isPipe = true ∨ c.calls = [])
    ∧ (callIds c).Nodup
    ∧ (∀ k ∈ c.calls, noStar k.binds = true)
    ∧ noStar c.ret = true
    ∧ (c.name = x →
        (∀ k ∈ c.calls, k.decId ≠ x ∧ ∀ bd ∈ k.binds, ∀ r ∈ refs bd.exp, selfRefTo b r = false)
        ∧ (∀ bd ∈ c.ret, ∀ r ∈ refs bd.exp, selfRefTo b r = false)
        ∧ (∀ r ∈ c.retain, selfRefTo b r = false))
    ∧ (∀ k ∈ c.calls, k.decId = x → b ∉ k.binds.map (·.name) ∧ (k.binds.map (·.name)).Nodup) := by
  simp only [pipeOKIn, Bool.and_eq_true, Bool.or_eq_true, List.all_eq_true, decide_eq_true_eq,
    bne_iff_ne, ne_eq, Bool.not_eq_true', List.isEmpty_iff, List.contains_eq_mem,
    decide_eq_false_iff_not, Bool.not_eq_eq_eq_not, Bool.not_true] at h
  obtain ⟨⟨⟨⟨⟨h1, h2⟩, h3⟩, h4⟩, h5⟩, h6⟩ := h
  refine ⟨h1, h2, h3, h4, ?_, ?_⟩
  · intro hn
    cases h5 with
    | inl h => exact absurd hn h
    | inr h =>
      refine ⟨fun k hk => ⟨(h.1.1 k hk).1, fun bd hbd r hr => (h.1.1 k hk).2 bd hbd r hr⟩,
              fun bd hbd r hr => h.1.2 bd hbd r hr, fun r hr => h.2 r hr⟩
  · intro k hk hd
    cases h6 k hk with
    | inl h => exact absurd hd h
    | inr h => exact h

theorem rename_input_graph (x a b : String) (ti : TypeInfo) (p : Program)
    (hok : RenInOK x a b ti p = true) :
    deepGraph (ti.renameInput x a b) (renameInput x a b p)
      = (deepGraph ti p).map (renNodeIn x a b) := by
  simp only [RenInOK, Bool.and_eq_true, bne_iff_ne, ne_eq, List.all_eq_true, Bool.not_eq_true',
    List.contains_eq_mem, decide_eq_false_iff_not] at hok
  obtain ⟨⟨⟨⟨⟨⟨hx, hstar⟩, hab⟩, hfx⟩, hall⟩, htopok⟩, htys⟩ := hok
  have hmo : membersOf (ti.renameInput x a b) = membersOf ti := rfl
  have hp' : renameInput x a b p
      = { callables := p.callables.map (renameInputIn x a b), top := p.top.map (renameCallParam x a b) } := by
    unfold renameInput
    cases h : p.find? x with
    | none => simp [h] at hfx
    | some _ => rfl
  have hgoodOf : ∀ c, pipeOKIn x b c = true → ∀ k ∈ c.calls, c.isPipe = true := by
    intro c hc k hk
    cases (pipeOKIn_parts hc).1 with
    | inl h => exact h
    | inr h => rw [h] at hk; cases hk
  have H : SimHyp ti (ti.renameInput x a b) p (renameInput x a b p) id (renameInputIn x a b) (GIn x a b)
      (SIn x a b) (fun _ _ v => v) id (fun c => pipeOKIn x b c = true) (IIn x b) (fun _ _ => True) (fun _ => True) (fun _ _ => true) := by
    refine { hfind1 := ?_, hfind0 := ?_, hrel := fun _ _ _ _ => trivial, hF := ?_, hcalls := ?_, hGid := ?_, hGdec := ?_, hfirst := ?_, hO0 := ?_,
             hOs := ?_, o0 := ?_, o0s := ?_, o1 := ?_, o2 := ?_, c5 := ?_, c6 := ?_, c7 := ?_ }
    · intro n d hd
      refine ⟨?_, hall d (find_mem p n d hd)⟩
      rw [hp']
      unfold Program.find? at hd ⊢
      simp only [id]
      rw [find_map_name _ (renameInputIn_name x a b), hd]; rfl
    · intro n _ hd
      rw [hp']
      unfold Program.find? at hd ⊢
      simp only [id]
      rw [find_map_name _ (renameInputIn_name x a b), hd]; rfl
    · intro c _
      unfold renameInputIn
      split <;> split <;> simp
    · intro pipe hg
      have hparts := pipeOKIn_parts hg
      rw [show (pipe.calls.filter (fun k => (fun (_ : Callable) (_ : String) => true) pipe k.id)) = pipe.calls from filter_true' _]
      unfold renameInputIn GIn
      by_cases hn : pipe.name = x
      · simp only [hn, if_true]
        cases hparts.1 with
        | inl h => simp [h]
        | inr h => simp [h]; split <;> simp [h]
      · simp only [hn, if_false]
        cases hparts.1 with
        | inl h => simp [h]
        | inr h => simp [h]; split <;> simp [h]
    · intro pipe k
      unfold GIn
      split
      · rfl
      · unfold renameCallParam; split <;> rfl
    · intro pipe _ k _
      unfold GIn
      split
      · rfl
      · unfold renameCallParam; split <;> rfl
    · intro pipe hg
      exact first_of_nodup pipe (pipeOKIn_parts hg).2.1
    · intros; rfl
    · intros; rfl
    · intros; trivial
    · intros; trivial
    · -- o1: a call of `x` never binds `b`
      intro pipe self sib k d id hg _ _ hk hd hdn
      have hparts := pipeOKIn_parts hg
      have hkm := (call_mem pipe id k hk).1
      have hdname := find_name p _ d hd
      unfold callIns
      rw [resolveBinds_keys, expandWild_noStar _ _ _ _ (hparts.2.2.1 k hkm)]
      exact (hparts.2.2.2.2.2 k hkm (hdname ▸ hdn)).1
    · intros; trivial
    · -- c5
      intro pipe self sib sib' k d id hg hi _ hag _ hk hd
      have hs' := sibAgree_true hag
      subst hs'
      have hparts := pipeOKIn_parts hg
      have hkm := (call_mem pipe id k hk).1
      have hdname := find_name p _ d hd
      have hOsib : Osib p (fun _ _ v => v) pipe sib = sib := by
        funext i; rfl
      rw [hOsib]
      unfold callIns
      rw [renameInputIn_name, resolveBinds_ti _ _ hmo]
      have hns := hparts.2.2.1 k hkm
      by_cases hn : pipe.name = x
      · -- inside `x`: self references renamed, the callee is not `x`
        have hx5 := hparts.2.2.2.2.1 hn
        have hdx : d.name ≠ x := hdname ▸ (hx5.1 k hkm).1
        have hb := hi hn
        have hGk : (GIn x a b pipe k).binds = k.binds.map (Bind.mapRefs (renRefId RefKind.self a b)) := by
          simp [GIn, hn, Call.mapRefs]
        have hns' : noStar (k.binds.map (Bind.mapRefs (renRefId RefKind.self a b))) = true := by
          simpa [noStar, Bind.mapRefs] using hns
        rw [hGk, expandWild_noStar _ _ _ _ hns', expandWild_noStar _ _ _ _ hns, resolveBinds_mapRefs]
        simp only [SIn, hn, hdx, if_true, if_false]
        have : insOf (ti.renameInput x a b) d.name = insOf ti d.name := by
          simp [insOf, TypeInfo.renameInput, lookup_onKey_ne x d.name _ _ hdx]
        rw [this]
        apply resolveBinds_congr
        intro bd hbd r hr
        exact lookupRef_renIn a b self sib r hab hb ((hx5.1 k hkm).2 bd hbd r hr)
      · have hGk : (GIn x a b pipe k) = renameCallParam x a b k := by simp [GIn, hn]
        simp only [SIn, hn, if_false]
        rw [hGk]
        by_cases hdx : k.decId = x
        · -- a call of `x`: the binding named `a` becomes `b`
          have hdn : d.name = x := hdname.trans hdx
          have h6 := hparts.2.2.2.2.2 k hkm hdx
          have hb2 : (renameCallParam x a b k).binds = renameFirstBind a b k.binds := by
            simp [renameCallParam, hdx]
          have hns' : noStar (renameFirstBind a b k.binds) = true := by
            have : ∀ l : List Bind, noStar l = true → noStar (renameFirstBind a b l) = true := by
              intro l
              induction l with
              | nil => intro _; rfl
              | cons e t ih =>
                intro h
                simp only [noStar, List.all_cons, Bool.and_eq_true, bne_iff_ne, ne_eq] at h
                simp only [renameFirstBind]
                split
                · simp only [noStar, List.all_cons, Bool.and_eq_true, bne_iff_ne, ne_eq]
                  exact ⟨hstar, h.2⟩
                · simp only [noStar, List.all_cons, Bool.and_eq_true, bne_iff_ne, ne_eq]
                  exact ⟨h.1, ih h.2⟩
            exact this _ hns
          rw [hb2, expandWild_noStar _ _ _ _ hns', expandWild_noStar _ _ _ _ hns]
          have : insOf (ti.renameInput x a b) d.name = renKeyM a b (insOf ti d.name) := by
            simp only [insOf, TypeInfo.renameInput, hdn, lookup_onKey_self]
            cases ti.ins.lookup x <;> rfl
          rw [this, hdn, if_pos rfl]
          have htys' : b ∉ (insOf ti d.name).map (·.1) := hdn ▸ htys
          rw [hdn] at htys'
          exact resolveBinds_renameFirst ti a b _ _ _ hab htys' h6.1 h6.2
        · have hdn : d.name ≠ x := hdname ▸ hdx
          have hb2 : (renameCallParam x a b k).binds = k.binds := by simp [renameCallParam, hdx]
          rw [hb2, expandWild_noStar _ _ _ _ hns, expandWild_noStar _ _ _ _ hns]
          have : insOf (ti.renameInput x a b) d.name = insOf ti d.name := by
            simp [insOf, TypeInfo.renameInput, lookup_onKey_ne x d.name _ _ hdn]
          rw [this]
          simp [hdn]
    · -- c6
      intro d ins sib sib' hg hp hi _ hag
      have hs' := sibAgree_true hag
      subst hs'
      have hparts := pipeOKIn_parts hg
      have hOsib : Osib p (fun _ _ v => v) d sib = sib := by
        funext i; rfl
      rw [hOsib]
      unfold pipeOuts
      rw [renameInputIn_name, resolveBinds_ti _ _ hmo]
      have houts : outsOf (ti.renameInput x a b) d.name = outsOf ti d.name := rfl
      rw [houts]
      by_cases hn : d.name = x
      · have hx5 := hparts.2.2.2.2.1 hn
        have hret : (renameInputIn x a b d).ret = d.ret.map (Bind.mapRefs (renRefId RefKind.self a b)) := by
          simp [renameInputIn, hn, hp]
        have hns' : noStar (d.ret.map (Bind.mapRefs (renRefId RefKind.self a b))) = true := by
          simpa [noStar, Bind.mapRefs] using hparts.2.2.2.1
        rw [hret, expandWild_noStar _ _ _ _ hns', expandWild_noStar _ _ _ _ hparts.2.2.2.1,
            resolveBinds_mapRefs]
        simp only [SIn, hn, if_true]
        congr 2
        apply resolveBinds_congr
        intro bd hbd r hr
        exact lookupRef_renIn a b ins sib r hab (hi hn) (hx5.2.1 bd hbd r hr)
      · have hret : (renameInputIn x a b d).ret = d.ret := by
          simp [renameInputIn, hn]; split <;> rfl
        have houtn : outNames (renameInputIn x a b d) = outNames d := by
          simp [outNames, renameInputIn, hn]; split <;> rfl
        rw [hret, houtn, expandWild_noStar _ _ _ _ hparts.2.2.2.1, expandWild_noStar _ _ _ _ hparts.2.2.2.1]
        simp [SIn, hn]
    · -- c7
      intro d ins sib sib' hg hp hi _ hag
      have hs' := sibAgree_true hag
      subst hs'
      have hparts := pipeOKIn_parts hg
      have hOsib : Osib p (fun _ _ v => v) d sib = sib := by
        funext i; rfl
      rw [hOsib, List.map_id]
      unfold pipeRetained
      by_cases hn : d.name = x
      · have hx5 := hparts.2.2.2.2.1 hn
        have hret : (renameInputIn x a b d).retain = d.retain.map (renRefId RefKind.self a b) := by
          simp [renameInputIn, hn, hp]
        rw [hret, List.flatMap_map]
        simp only [SIn, hn, if_true]
        apply flatMap_congr'
        intro r hr
        rw [lookupRef_renIn a b ins sib r hab (hi hn) (hx5.2.2 r hr)]
      · have hret : (renameInputIn x a b d).retain = d.retain := by
          simp [renameInputIn, hn]; split <;> rfl
        rw [hret]
        simp [SIn, hn]
  have hmap : nodeMap id (SIn x a b) (fun _ _ v => v) id = renNodeIn x a b := by
    funext n
    simp only [nodeMap, renNodeIn, SIn, id, List.map_id]
    split <;> rfl
  rw [← deepGraphKeep_true ti p, ← hmap]
  apply sim_graph H
  · intro t ht
    have htop := by simpa [ht] using htopok
    refine ⟨?_, ?_, htop, ?_, rfl⟩
    · rw [hp']; simp [ht, GIn, topPipe, Ne.symm hx]
    · simp [GIn, topPipe, Ne.symm hx, renameInputIn, renameCallParam]
    · intro h; simp [topPipe] at h; exact absurd h hx
  · intro ht; rw [hp']; simp [ht]
  · simp [SIn, Ne.symm hx]
  · rw [hp']
    simp only [graphFuel, List.map_map]
    congr 2
    apply List.map_congr_left
    intro c _
    simp only [Function.comp, renameInputIn]
    split <;> split <;> simp

end Proofs.RefactorGraph
