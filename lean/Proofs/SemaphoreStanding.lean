/-
A semaphore with a standing reservation that is never released (the process
semaphore: `setupSemaphores` does `Acquire(startingThreadCount)` for mrp itself)
behaves, for everybody else, like a semaphore that is smaller by that amount —
except that a request between the smaller size and `maxSize` is queued for ever
instead of being refused.
-/
import Martian.Semaphore
import Proofs.Semaphore

namespace Martian.Semaphore

/-- the same semaphore with `d` more of everything: `d` reserved by somebody who never releases -/
def Sem.shift (s : Sem) (d : Int) : Sem :=
  { s with max := s.max + d, cur := s.cur + d, reserved := s.reserved + d }

theorem runJobs_shift (c d : Int) (ws : List Waiter) (r : Int) :
    runJobs (c + d) (r + d) ws = ((runJobs c r ws).1 + d, (runJobs c r ws).2.1, (runJobs c r ws).2.2) := by
  induction ws generalizing r with
  | nil => simp [runJobs]
  | cons w ws ih =>
    simp only [runJobs]
    have e : c + d - (r + d) = c - r := by omega
    rw [e]
    split
    · rfl
    · have := ih (r + w.2)
      rw [show r + d + w.2 = r + w.2 + d by omega, this]

/-- Acquire of an amount that is within the smaller size or above the real
maximum (both refuse), or a Release: the calls of the client protocol. -/
def SemOp.plain (m d : Int) : SemOp → Prop
  | .acquire _ n => n ≤ m ∨ m + d < n
  | .release _ => True
  | _ => False

theorem step_shift (s : Sem) (d : Int) (hd : 0 ≤ d) (op : SemOp) (hop : op.plain s.max d)
    (hp : hasPanic (step s op).2 = false) :
    step (s.shift d) op = ((step s op).1.shift d, (step s op).2) := by
  cases op with
  | acquire id n =>
    simp only [SemOp.plain] at hop
    by_cases hfit : n ≤ s.cur - s.reserved ∧ s.waiters.isEmpty = true
    · have hfit' : n ≤ s.cur + d - (s.reserved + d) ∧ s.waiters.isEmpty = true := ⟨by omega, hfit.2⟩
      simp only [step, Sem.shift, hfit, hfit', and_self, if_true, Prod.mk.injEq, and_true]
      congr 1; omega
    · have hfit' : ¬ (n ≤ s.cur + d - (s.reserved + d) ∧ s.waiters.isEmpty = true) := by
        intro h; exact hfit ⟨by omega, h.2⟩
      by_cases hrej : s.max < n
      · have hrej' : s.max + d < n := by omega
        simp only [step, Sem.shift, hfit, hfit', hrej, hrej', if_true, if_false]
      · have hrej' : ¬ s.max + d < n := by omega
        simp only [step, Sem.shift, hfit, hfit', hrej, hrej', if_false]
  | release n =>
    have hnp : ¬ (s.reserved - n < 0) := by
      intro h
      simp only [step, h, if_true, hasPanic] at hp
      exact absurd hp (by simp)
    have hnp' : ¬ (s.reserved + d - n < 0) := by omega
    simp only [step, Sem.shift, hnp, hnp', if_false, Sem.wake]
    rw [show s.reserved + d - n = s.reserved - n + d by omega, runJobs_shift]
  | updActual n => exact absurd hop (by simp [SemOp.plain])
  | updSize n => exact absurd hop (by simp [SemOp.plain])
  | updFreeUsed f u => exact absurd hop (by simp [SemOp.plain])

theorem run_shift (d : Int) (hd : 0 ≤ d) (ops : List SemOp) : ∀ (s : Sem),
    (∀ op ∈ ops, op.plain s.max d) → hasPanic (run s ops).2 = false →
    run (s.shift d) ops = ((run s ops).1.shift d, (run s ops).2) := by
  induction ops with
  | nil => intro s _ _; rfl
  | cons op ops ih =>
    intro s hops hp
    simp only [run] at hp ⊢
    rw [hasPanic_append, Bool.or_eq_false_iff] at hp
    rw [step_shift s d hd op (hops op (by simp)) hp.1]
    simp only
    rw [ih (step s op).1 (by rw [step_max]; exact fun o ho => hops o (by simp [ho])) hp.2]

end Martian.Semaphore
