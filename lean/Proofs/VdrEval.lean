import Martian.VdrEval
import Proofs.VdrVal

/-! Every file name in a delivered value is a file name of a value some fork
of a referenced node produced for the referenced output. -/
namespace Martian.Vdr

theorem ElemOf.names {x c : Val} (h : ElemOf x c) : ∀ s ∈ x.names, s ∈ c.names := by
  induction h with
  | here =>
    intro s hs
    simp only [Val.names, List.mem_append]
    exact Or.inl (Or.inr hs)
  | there _ ih =>
    intro s hs
    simp only [Val.names, List.mem_append]
    exact Or.inr (ih s hs)

/-- the names come from referenced outputs -/
def FromRefs (env : Env) (e : BExp) (s : String) : Prop :=
  ∃ r ∈ e.valueRefs, ∃ w ∈ env r.1 r.2, s ∈ w.names

theorem delivers_names {env : Env} {all : Bool} {e : BExp} {v : Val} (h : Delivers env all e v) :
    ∀ s ∈ v.names, FromRefs env e s := by
  induction h with
  | const hn => intro s hs; rw [hn] at hs; cases hs
  | @ref n o v hm =>
    intro s hs
    exact ⟨(n, o), by simp [BExp.valueRefs], v, hm, hs⟩
  | nil => intro s hs; simp [Val.names] at hs
  | cons hk _ _ ih1 ih2 =>
    intro s hs
    simp only [Val.names, hk, List.mem_append] at hs
    rcases hs with (hs | hs) | hs
    · simp at hs
    · obtain ⟨r, hr, w, hw, hsw⟩ := ih1 s hs
      exact ⟨r, by simp [BExp.valueRefs, hr], w, hw, hsw⟩
    · obtain ⟨r, hr, w, hw, hsw⟩ := ih2 s hs
      exact ⟨r, by simp [BExp.valueRefs, hr], w, hw, hsw⟩
  | arr _ ih => intro s hs; exact ih s hs
  | map _ ih => intro s hs; exact ih s hs
  | splitArr _ he ih => intro s hs; exact ih s (he.names s hs)
  | splitObj _ he ih => intro s hs; exact ih s (he.names s hs)
  | splitNull => intro s hs; simp [Val.names] at hs
  | mergeArr _ ih => intro s hs; exact ih s hs
  | mergeObj _ ih => intro s hs; exact ih s hs
  | disabledOff _ ih => intro s hs; exact ih s hs
  | disabledOn => intro s hs; simp [Val.names] at hs
  | allNil => intro s hs; simp [Val.names] at hs
  | allCons hk _ _ ih1 ih2 =>
    intro s hs
    simp only [Val.names, hk, List.mem_append] at hs
    rcases hs with (hs | hs) | hs
    · simp at hs
    · exact ih1 s hs
    · exact ih2 s hs

/-- whatever is delivered names only what `reach` computes -/
theorem delivers_reach {env : Env} {e : BExp} {v : Val} (h : Delivers env false e v) :
    ∀ s ∈ v.names, s ∈ reach env e := by
  intro s hs
  obtain ⟨r, hr, w, hw, hsw⟩ := delivers_names h s hs
  unfold reach
  simp only [List.mem_flatMap]
  exact ⟨r, hr, w, hw, hsw⟩

end Martian.Vdr
