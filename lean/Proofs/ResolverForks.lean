/-
Soundness of static projection on resolved expressions with split / merge nodes.
-/
import Martian.ResolverForks
import Proofs.Dataflow

namespace Proofs.ResolverForks
open Martian.Dataflow Martian.Resolver Martian.ResolverForks Proofs.Dataflow

theorem proj1_dnull (t : Ty) (f : String) : proj1 t f .dnull = .dnull := by
  unfold proj1 atBase
  cases t.arrDim <;> cases t.mapDim <;> simp [mapArr, mapObj, J.field]

theorem getD_map_null (g : J → J) (hg : g .null = .null) (xs : List J) (n : Nat) :
    (xs.map g).getD n .null = g (xs.getD n .null) := by
  induction xs generalizing n with
  | nil => simp [hg]
  | cons x xs ih =>
    cases n with
    | zero => simp
    | succ n => simpa using ih n

theorem elemArr_proj1 (b : String) (m n : Nat) (fld : String) (v : J) (ix : Idx) :
    elemArr (proj1 ⟨b, m, n+1⟩ fld v) ix = proj1 ⟨b, m, n⟩ fld (elemArr v ix) := by
  cases ix with
  | none => simp [elemArr, proj1_dnull]
  | k s => simp [elemArr, proj1_dnull]
  | i k =>
    cases v with
    | arr xs =>
      rw [proj1_arr]
      simp only [elemArr, elemAt]
      exact getD_map_null _ (proj1_null _ _) xs k
    | dnull => simp [elemArr, elemAt, proj1_dnull]
    | null => simp [elemArr, elemAt, proj1_null]
    | atom a =>
      have : proj1 ⟨b, m, n+1⟩ fld (.atom a) = .null := by simp [proj1, atBase, mapArr]
      simp [elemArr, elemAt, this, proj1_null]
    | obj kvs =>
      have : proj1 ⟨b, m, n+1⟩ fld (.obj kvs) = .null := by simp [proj1, atBase, mapArr]
      simp [elemArr, elemAt, this, proj1_null]

theorem lookup_map_snd (g : J → J) (kvs : List (String × J)) (s : String) :
    (kvs.map fun kv => (kv.1, g kv.2)).lookup s = (kvs.lookup s).map g := by
  induction kvs with
  | nil => rfl
  | cons x xs ih =>
    obtain ⟨k, v⟩ := x
    simp only [List.map_cons, List.lookup_cons]
    cases (s == k) <;> simp [ih]

theorem elemMap_proj1 (b : String) (k : Nat) (fld : String) (v : J) (ix : Idx) :
    elemMap (proj1 ⟨b, k+1, 0⟩ fld v) ix = proj1 ⟨b, 0, k⟩ fld (elemMap v ix) := by
  cases ix with
  | none => simp [elemMap, proj1_dnull]
  | i n => simp [elemMap, proj1_dnull]
  | k s =>
    cases v with
    | obj kvs =>
      rw [proj1_obj]
      simp only [elemMap, elemAt, J.field, lookup_map_snd]
      cases kvs.lookup s <;> simp [proj1_null]
    | dnull => simp [elemMap, elemAt, J.field, proj1_dnull]
    | null => simp [elemMap, elemAt, J.field, proj1_null]
    | atom a =>
      have : proj1 ⟨b, k+1, 0⟩ fld (.atom a) = .null := by simp [proj1, atBase, mapArr, mapObj]
      simp [elemMap, elemAt, J.field, this, proj1_null]
    | arr xs =>
      have : proj1 ⟨b, k+1, 0⟩ fld (.arr xs) = .null := by simp [proj1, atBase, mapArr, mapObj]
      simp [elemMap, elemAt, J.field, this, proj1_null]

theorem lookup_evalRFields (st : StructTable) (ρ : Store) (f : ForkAssign) (fld : String)
    (kvs : List (String × RExp)) :
    (evalRFields st ρ f kvs).lookup fld = (kvs.lookup fld).map (evalR st ρ f) := by
  induction kvs with
  | nil => simp [evalRFields]
  | cons x xs ih =>
    obtain ⟨k, e⟩ := x
    simp only [evalRFields, List.lookup_cons]
    cases (fld == k) <;> simp [ih]

/-- `makeDisabledExp` denotes "null if the control is true, else the value" -/
theorem evalR_mkDisabled (st : StructTable) (ρ : Store) (f : ForkAssign) (d inner : RExp) :
    evalR st ρ f (mkDisabled d inner)
      = if Martian.Dataflow.isTrue (evalR st ρ f d) then .null else evalR st ρ f inner := by
  unfold mkDisabled
  split
  · simp [evalR]
  · simp only [evalR, Martian.Dataflow.isTrue, beq_iff_eq]
    split <;> simp [evalR]
  · simp [evalR]

theorem mkMerge_noSplit (c : String) (m : Bool) (x : RExp) (h : noSplitOf c x = true) :
    mkMerge c m x = .merge c m x := by
  cases x <;> simp only [mkMerge]
  next c' m' v =>
    simp only [noSplitOf, Bool.and_eq_true, bne_iff_ne, ne_eq] at h
    have : (c' == c) = false := by simpa using h.1
    simp [this]

theorem noSplitOf_mkDisabled (c : String) (d v : RExp) (hd : noSplitOf c d = true) (hv : noSplitOf c v = true) :
    noSplitOf c (mkDisabled d v) = true := by
  unfold mkDisabled
  split
  · simp [noSplitOf]
  · split
    · simp [noSplitOf]
    · exact hv
  · simp [noSplitOf, hd, hv]

theorem noSplitOf_lookup (c : String) : ∀ (kvs : List (String × RExp)) (k : String),
    noSplitOfFields c kvs = true → noSplitOf c ((kvs.lookup k).getD (.lit .null)) = true
  | [], _, _ => by simp [noSplitOf]
  | (k', e) :: es, k, h => by
    simp only [noSplitOfFields, Bool.and_eq_true] at h
    simp only [List.lookup_cons]
    cases (k == k') with
    | true => exact h.1
    | false => exact noSplitOf_lookup c es k h.2

theorem noSplitOf_mkMerge (c c' : String) (m : Bool) (x : RExp) (h : noSplitOf c x = true) :
    noSplitOf c (mkMerge c' m x) = true := by
  cases x <;> simp only [mkMerge, noSplitOf] at h ⊢ <;> try exact h
  next c2 m2 v =>
    simp only [Bool.and_eq_true] at h
    split
    · exact h.2
    · simp [noSplitOf, h.1, h.2]

mutual
/-- projection does not create a `split` -/
theorem noSplitOf_bpR (c fld : String) : ∀ e : RExp, noSplitOf c e = true → noSplitOf c (bpR fld e) = true
  | .lit _, _ => by simp [bpR, noSplitOf]
  | .arr xs, h => by simp only [bpR, noSplitOf] at h ⊢; exact noSplitOf_bpRList c fld xs h
  | .map kvs, h => by simp only [bpR, noSplitOf] at h ⊢; exact noSplitOf_bpRFields c fld kvs h
  | .struct kvs, h => by simp only [bpR, noSplitOf] at h ⊢; exact noSplitOf_lookup c kvs fld h
  | .ref _ _ _, _ => by simp [bpR, noSplitOf]
  | .split c' m e, h => by
    simp only [bpR, noSplitOf, Bool.and_eq_true] at h ⊢
    exact ⟨h.1, noSplitOf_bpR c fld e h.2⟩
  | .merge c' m e, h => by
    simp only [bpR, noSplitOf] at h ⊢
    exact noSplitOf_mkMerge c c' m _ (noSplitOf_bpR c fld e h)
  | .disabled d v, h => by
    simp only [bpR, noSplitOf, Bool.and_eq_true] at h ⊢
    exact noSplitOf_mkDisabled c d _ h.1 (noSplitOf_bpR c fld v h.2)
  | .fork c' ix e, h => by
    simp only [bpR, noSplitOf] at h ⊢
    exact noSplitOf_bpR c fld e h
theorem noSplitOf_bpRList (c fld : String) : ∀ es : List RExp, noSplitOfList c es = true →
    noSplitOfList c (bpRList fld es) = true
  | [], _ => by simp [bpRList, noSplitOfList]
  | e :: es, h => by
    simp only [bpRList, noSplitOfList, Bool.and_eq_true] at h ⊢
    exact ⟨noSplitOf_bpR c fld e h.1, noSplitOf_bpRList c fld es h.2⟩
theorem noSplitOf_bpRFields (c fld : String) : ∀ es : List (String × RExp), noSplitOfFields c es = true →
    noSplitOfFields c (bpRFields fld es) = true
  | [], _ => by simp [bpRFields, noSplitOfFields]
  | (k, e) :: es, h => by
    simp only [bpRFields, noSplitOfFields, Bool.and_eq_true] at h ⊢
    exact ⟨noSplitOf_bpR c fld e h.1, noSplitOf_bpRFields c fld es h.2⟩
end

mutual
theorem bpR_sound (st : StructTable) (ρ : Store) (fld : String) :
    ∀ (e : RExp) (t : Ty) (f : ForkAssign), wtR st t e = true →
      evalR st ρ f (bpR fld e) = proj1 t fld (evalR st ρ f e)
  | .lit j, t, f, h => by
    cases j <;> simp [wtR] at h
    simp [bpR, evalR, proj1_null]
  | .arr xs, t, f, h => by
    obtain ⟨b, m, n⟩ := t
    simp only [wtR, Bool.and_eq_true, bne_iff_ne, ne_eq] at h
    cases n with
    | zero => exact absurd rfl h.1
    | succ n =>
      simp only [bpR, evalR, proj1_arr]
      rw [bpRList_sound st ρ fld xs ⟨b, m, n⟩ f h.2]
  | .map kvs, t, f, h => by
    obtain ⟨b, m, n⟩ := t
    simp only [wtR, Bool.and_eq_true, bne_iff_ne, ne_eq, beq_iff_eq] at h
    obtain ⟨⟨hn, hm⟩, hk⟩ := h
    subst hn
    cases m with
    | zero => exact absurd rfl hm
    | succ k =>
      simp only [bpR, evalR, proj1_obj]
      rw [bpRFields_sound st ρ fld kvs ⟨b, 0, k⟩ f hk]
  | .struct kvs, t, f, h => by
    obtain ⟨b, m, n⟩ := t
    simp only [wtR, Bool.and_eq_true, beq_iff_eq] at h
    obtain ⟨hn, hm⟩ := h
    subst hn; subst hm
    simp only [bpR, evalR, proj1, atBase, mapArr, J.field, lookup_evalRFields]
    cases kvs.lookup fld <;> simp [evalR]
  | .ref node ty path, t, f, h => by
    simp only [wtR, beq_iff_eq] at h
    subst h
    simp [bpR, evalR, projPath_append]
  | .split c false e, t, f, h => by
    obtain ⟨b, m, n⟩ := t
    simp only [wtR] at h
    simp only [bpR, evalR]
    rw [bpR_sound st ρ fld e ⟨b, m, n+1⟩ f h, elemArr_proj1]
  | .split c true e, t, f, h => by
    obtain ⟨b, m, n⟩ := t
    simp only [wtR, Bool.and_eq_true, beq_iff_eq] at h
    obtain ⟨hm, he⟩ := h
    subst hm
    simp only [bpR, evalR]
    rw [bpR_sound st ρ fld e ⟨b, n+1, 0⟩ f he, elemMap_proj1]
  | .merge c false e, t, f, h => by
    obtain ⟨b, m, n⟩ := t
    simp only [wtR, Bool.and_eq_true, bne_iff_ne, ne_eq] at h
    cases n with
    | zero => exact absurd rfl h.1.1
    | succ n =>
      simp only [bpR, mkMerge_noSplit c false _ (noSplitOf_bpR c fld e h.1.2), evalR, proj1_arr, List.map_map,
        J.arr.injEq]
      apply List.map_congr_left
      intro ix _
      exact bpR_sound st ρ fld e ⟨b, m, n⟩ (fset f c ix) h.2
  | .merge c true e, t, f, h => by
    obtain ⟨b, m, n⟩ := t
    simp only [wtR, Bool.and_eq_true, bne_iff_ne, ne_eq, beq_iff_eq] at h
    obtain ⟨⟨⟨hn, hm⟩, hns⟩, he⟩ := h
    subst hn
    cases m with
    | zero => exact absurd rfl hm
    | succ k =>
      simp only [bpR, mkMerge_noSplit c true _ (noSplitOf_bpR c fld e hns), evalR, proj1_obj, List.map_map,
        J.obj.injEq]
      apply List.map_congr_left
      intro ix _
      simp only [Function.comp_apply]
      rw [bpR_sound st ρ fld e ⟨b, 0, k⟩ (fset f c ix) he]
  | .disabled d v, t, f, h => by
    simp only [wtR] at h
    simp only [bpR, evalR_mkDisabled, evalR]
    split
    · simp [proj1_null]
    · exact bpR_sound st ρ fld v t f h
  | .fork c ix e, t, f, h => by
    simp only [wtR] at h
    simp only [bpR, evalR]
    exact bpR_sound st ρ fld e t (fset f c ix) h
theorem bpRList_sound (st : StructTable) (ρ : Store) (fld : String) :
    ∀ (es : List RExp) (t : Ty) (f : ForkAssign), wtRList st t es = true →
      evalRList st ρ f (bpRList fld es) = (evalRList st ρ f es).map (proj1 t fld)
  | [], _, _, _ => by simp [bpRList, evalRList]
  | e :: es, t, f, h => by
    simp only [wtRList, Bool.and_eq_true] at h
    simp [bpRList, evalRList, bpR_sound st ρ fld e t f h.1, bpRList_sound st ρ fld es t f h.2]
theorem bpRFields_sound (st : StructTable) (ρ : Store) (fld : String) :
    ∀ (kvs : List (String × RExp)) (t : Ty) (f : ForkAssign), wtRFields st t kvs = true →
      evalRFields st ρ f (bpRFields fld kvs)
        = (evalRFields st ρ f kvs).map fun kv => (kv.1, proj1 t fld kv.2)
  | [], _, _, _ => by simp [bpRFields, evalRFields]
  | (k, e) :: es, t, f, h => by
    simp only [wtRFields, Bool.and_eq_true] at h
    simp [bpRFields, evalRFields, bpR_sound st ρ fld e t f h.1, bpRFields_sound st ρ fld es t f h.2]
end

theorem fset_fset (f : ForkAssign) (c : String) (i j : Idx) : fset (fset f c i) c j = fset f c j := by
  simp [fset, List.filter_filter]

theorem fset_lookup (f : ForkAssign) (c : String) (i : Idx) : (fset f c i).lookup c = some i := by
  simp [fset]

/-- `split` over call `c` of a `merge` over `c` cancels (array mode): inside fork
`k` of `c`, the element `k` of the collection of per-fork values is the value of
fork `k`.  (`n` = the number of forks of `c`, which does not depend on the fork
of `c` one is in.) -/
theorem split_merge_cancel_arr (st : StructTable) (ρ : Store) (f : ForkAssign) (c : String)
    (e : RExp) (n k : Nat) (hk : k < n)
    (hidx : ρ.idx c (fset f c (.i k)) = (List.range n).map .i) :
    evalR st ρ (fset f c (.i k)) (.split c false (.merge c false e))
      = evalR st ρ (fset f c (.i k)) e := by
  simp only [evalR, fset_lookup, Option.getD_some, elemArr, elemAt, hidx, List.map_map, fset_fset]
  simp [List.getD_eq_getElem?_getD, hk]

/-- the same for a call mapped over a typed map with (distinct) keys `keys` -/
theorem split_merge_cancel_map (st : StructTable) (ρ : Store) (f : ForkAssign) (c : String)
    (e : RExp) (keys : List String) (s : String) (hs : s ∈ keys) (hn : keys.Nodup)
    (hidx : ρ.idx c (fset f c (.k s)) = keys.map .k) :
    evalR st ρ (fset f c (.k s)) (.split c true (.merge c true e))
      = evalR st ρ (fset f c (.k s)) e := by
  simp only [evalR, fset_lookup, Option.getD_some, elemMap, elemAt, J.field, hidx, List.map_map,
    fset_fset]
  have h := lookup_map_mem keys id (fun s' => evalR st ρ (fset f c (.k s')) e)
    (by simpa using hn) s hs
  simp only [id] at h
  have h2 : (List.map ((fun ix => (ix.keyText, evalR st ρ (fset f c ix) e)) ∘ Idx.k) keys)
      = keys.map fun p => (p, evalR st ρ (fset f c (.k p)) e) := by
    apply List.map_congr_left
    intro a _
    rfl
  rw [h2, h]
  rfl

theorem map_getD_range (xs : List J) : (List.range xs.length).map (fun k => xs.getD k .null) = xs := by
  apply List.ext_getElem
  · simp
  · intro i h1 h2
    simp [List.getD_eq_getElem?_getD, List.getElem?_eq_getElem h2]

/-- the cancellation `mkMerge` performs (merge over `c` of the elements of a collection split over
`c` = the collection) is sound for the stores in which the index set of `c` is that of the
collection and the collection does not vary with the fork of `c` (array mode) -/
theorem merge_split_cancel_arr (st : StructTable) (ρ : Store) (f : ForkAssign) (c : String) (v : RExp)
    (xs : List J) (hv : evalR st ρ f v = .arr xs)
    (hind : ∀ k, k < xs.length → evalR st ρ (fset f c (.i k)) v = .arr xs)
    (hidx : ρ.idx c f = (List.range xs.length).map .i) :
    evalR st ρ f (.merge c false (.split c false v)) = evalR st ρ f v := by
  simp only [evalR, hidx, List.map_map, hv, J.arr.injEq]
  have : (List.range xs.length).map ((fun ix => elemArr (evalR st ρ (fset f c ix) v)
      (((fset f c ix).lookup c).getD .none)) ∘ Idx.i) = (List.range xs.length).map (fun k => xs.getD k .null) := by
    apply List.map_congr_left
    intro k hk
    simp only [List.mem_range] at hk
    simp only [Function.comp_apply, fset_lookup, Option.getD_some, hind k hk, elemArr, elemAt]
  rw [this, map_getD_range]

end Proofs.ResolverForks
