import Martian.FormatPipe
import Proofs.FormatPipeEdges
import Proofs.FormatDeclLex
import Proofs.FormatCall2Lex

/-! C09, part Pipe: the token layer and the lexing layer of whole pipeline declarations, the
round trip `parsePipeline (fmtPipeline p) = some (normPipeline p)`, idempotence
`fmtPipeline (normPipeline p) = fmtPipeline p`, stability of the normal form.

API for the whole-file layer: `toksPipeline`, `lexOK_fmtPipeline` (any following text),
`pPipeline_toks` (any following tokens), `pPipeline_fmtPipeline` (text + rest). -/
namespace Martian.FormatPipe
open Martian.Lexer (Bytes isWord)
open Martian.Format Martian.FormatExp Martian.FormatCall Martian.FormatCall2 Martian.FormatDecl

/-! ## tokens -/

/-- the tokens of the printed pipeline -/
def toksPipeline (p : Pipeline) : List Tok :=
  .reserved sPipeline :: .id p.id :: tLP ::
    (toksParams p.ins ++ (toksParams p.outs ++ tRP :: tLC :: toksBody (sortBody p.id p.body)))

/-- the tokens of the pipeline printed with its calls where they are -/
def toksPipelineRaw (p : Pipeline) : List Tok :=
  .reserved sPipeline :: .id p.id :: tLP ::
    (toksParams p.ins ++ (toksParams p.outs ++ tRP :: tLC :: toksBody p.body))

theorem wordLexeme_pipeline : wordLexeme sPipeline = .tok (.reserved sPipeline) := by decide
theorem all_isWord_pipeline : sPipeline.all isWord = true := by decide

/-! ## well-formedness of the sorted statements -/

theorem wfBody_sort (pid : Bytes) (b : Body) (h : wfBody b = true) : wfBody (sortBody pid b) = true := by
  simp only [wfBody, sortBody, Bool.and_eq_true] at h ⊢
  refine ⟨⟨?_, h.1.2⟩, h.2⟩
  rw [(sortCalls_perm' pid b.calls).all_eq]
  exact h.1.1

theorem wfPipeline_parts {p : Pipeline} (h : wfPipeline p = true) :
    isIdent p.id = true ∧ p.ins.all wfParam = true ∧ p.ins.all (fun q => !q.out) = true ∧
      p.outs.all wfParam = true ∧ p.outs.all (fun q => q.out) = true ∧ wfBody p.body = true ∧
      distinctCallIds p.body.calls = true := by
  simp only [wfPipeline, Bool.and_eq_true] at h
  obtain ⟨⟨⟨⟨⟨⟨h1, h2⟩, h3⟩, h4⟩, h5⟩, h6⟩, h7⟩ := h
  exact ⟨h1, h2, h3, h4, h5, h6, h7⟩

/-! ## token layer -/

/-- the reader on the tokens of ANY pipeline text whose parts are well formed: the body tokens
are those of `b`, the calls are read in the order they stand in -/
theorem pPipeline_toks_gen (id : Bytes) (ins outs : List Param) (b : Body) (rest : List Tok)
    (hwi : ins.all wfParam = true) (hi : ins.all (fun q => !q.out) = true)
    (hwo : outs.all wfParam = true) (ho : outs.all (fun q => q.out) = true) (hb : wfBody b = true) :
    pPipeline (.reserved sPipeline :: .id id :: tLP ::
        (toksParams ins ++ (toksParams outs ++ tRP :: tLC :: toksBody b)) ++ rest) =
      some (⟨id, ins, outs, normBody b⟩, rest) := by
  have hshape : (.reserved sPipeline :: .id id :: tLP ::
        (toksParams ins ++ (toksParams outs ++ tRP :: tLC :: toksBody b)) ++ rest) =
      .reserved sPipeline :: .id id :: .punct 0x28 ::
        (toksParams ins ++ (toksParams outs ++ .punct 0x29 :: .punct 0x7B :: (toksBody b ++ rest))) := by
    simp
  rw [hshape]
  have h1 := pInParams_toks ins
    ((Tok.reserved sPipeline :: .id id :: .punct 0x28 ::
      (toksParams ins ++ (toksParams outs ++ .punct 0x29 :: .punct 0x7B :: (toksBody b ++ rest)))).length + 1)
    (toksParams outs ++ .punct 0x29 :: .punct 0x7B :: (toksBody b ++ rest)) hwi hi
    (by simp only [List.length_cons, List.length_append]; omega)
    (headKw_in_outs outs _ ho rfl)
  have h2 := pOutParams_toks outs
    ((Tok.reserved sPipeline :: .id id :: .punct 0x28 ::
      (toksParams ins ++ (toksParams outs ++ .punct 0x29 :: .punct 0x7B :: (toksBody b ++ rest)))).length + 1)
    (.punct 0x29 :: .punct 0x7B :: (toksBody b ++ rest)) hwo ho
    (by simp only [List.length_cons, List.length_append]; omega) rfl
  have h3 := pBody_toks b rest hb
  unfold pPipeline
  simp only [↓reduceIte, h1, h2, h3]

/-- **Token layer, pipeline.**  The reader on the tokens of the printed pipeline, followed by
any further tokens (the next declaration …). -/
theorem pPipeline_toks (p : Pipeline) (rest : List Tok) (hw : wfPipeline p = true) :
    pPipeline (toksPipeline p ++ rest) = some (normPipeline p, rest) := by
  obtain ⟨_, hwi, hi, hwo, ho, hb, _⟩ := wfPipeline_parts hw
  exact pPipeline_toks_gen p.id p.ins p.outs (sortBody p.id p.body) rest hwi hi hwo ho
    (wfBody_sort p.id p.body hb)

/-! ## lexing layer -/

theorem lexOK_fmtPipeHead (id : Bytes) (ins outs : List Param) (hid : isIdent id = true)
    (hwi : ins.all wfParam = true) (hwo : outs.all wfParam = true) :
    LexOK (fmtPipeHead id ins outs)
      (.reserved sPipeline :: .id id :: tLP :: (toksParams ins ++ (toksParams outs ++ [tRP, tLC])))
      AnyRest := by
  have h1 : LexOK (sPipeline ++ [0x20]) [.reserved sPipeline] AnyRest :=
    LexOK.wordSp all_isWord_pipeline wordLexeme_pipeline
  have h2 := LexOK.ident hid
  have h3 : LexOK [0x28, 0x0A] [tLP] AnyRest := lexOK_closeNl _ (by decide)
  have h4 := lexOK_fmtParams (pipeWidths ins outs).1 (pipeWidths ins outs).2.1 (pipeWidths ins outs).2.2.1
    (pipeWidths ins outs).2.2.2 ins hwi
  have h5 := lexOK_fmtParams (pipeWidths ins outs).1 (pipeWidths ins outs).2.1 (pipeWidths ins outs).2.2.1
    (pipeWidths ins outs).2.2.2 outs hwo
  have h6 : LexOK [0x29, 0x0A] [tRP] AnyRest := lexOK_closeNl _ (by decide)
  have h7 : LexOK [0x7B] [tLC] AnyRest := LexOK.punct (by decide) _
  have h := (((((h1.append h2 (fun _ _ => trivial)).append h3
    (fun rest _ => WordEnd.cons _ _ (by decide))).append h4 (fun _ _ => trivial)).append h5
    (fun _ _ => trivial)).append h6 (fun _ _ => trivial)).append h7 (fun _ _ => trivial)
  exact h.congr (by simp [fmtPipeHead]) (by simp)

/-- **Lexing layer, pipeline**: the printed pipeline lexes as `toksPipeline p`, whatever text
follows. -/
theorem lexOK_fmtPipeline (p : Pipeline) (hw : wfPipeline p = true) :
    LexOK (fmtPipeline p) (toksPipeline p) AnyRest := by
  obtain ⟨hid, hwi, _, hwo, _, hb, _⟩ := wfPipeline_parts hw
  have h := (lexOK_fmtPipeHead p.id p.ins p.outs hid hwi hwo).append
    (lexOK_fmtBody (sortBody p.id p.body) (wfBody_sort p.id p.body hb)) (fun _ _ => trivial)
  exact h.congr rfl (by simp [toksPipeline])

/-- the same for the text with the calls where they are -/
theorem lexOK_fmtPipelineRaw (p : Pipeline) (hw : wfPipeline p = true) :
    LexOK (fmtPipelineRaw p) (toksPipelineRaw p) AnyRest := by
  obtain ⟨hid, hwi, _, hwo, _, hb, _⟩ := wfPipeline_parts hw
  have h := (lexOK_fmtPipeHead p.id p.ins p.outs hid hwi hwo).append (lexOK_fmtBody p.body hb)
    (fun _ _ => trivial)
  exact h.congr rfl (by simp [toksPipelineRaw])

/-! ## round trips -/

/-- **Round trip with rest** (for the assembly of a file): the printed pipeline followed by any
text whose tokens are `ts`. -/
theorem pPipeline_fmtPipeline (p : Pipeline) (rest : Bytes) (ts : List Tok) (hw : wfPipeline p = true)
    (hrest : lexAll rest = some ts) :
    (lexAll (fmtPipeline p ++ rest)).bind pPipeline = some (normPipeline p, ts) := by
  rw [Martian.FormatCall2.lexAll_of_lexOK (lexOK_fmtPipeline p hw) rest, hrest]
  simp only [Option.map_some, Option.bind_some]
  exact pPipeline_toks p ts hw

/-- **Round trip, pipeline.** -/
theorem parsePipeline_fmtPipeline (p : Pipeline) (hw : wfPipeline p = true) :
    parsePipeline (fmtPipeline p) = some (normPipeline p) := by
  have h := pPipeline_toks p [] hw
  rw [List.append_nil] at h
  simp only [parsePipeline, Martian.FormatCall2.lexAll_of_lexOK_nil (lexOK_fmtPipeline p hw),
    Option.bind_some, h]

/-- the text with the calls in SOURCE order reads as the pipeline with its calls in source
order, each in normal form (what the real parser hands to `Pipeline.format`) -/
theorem parsePipeline_fmtPipelineRaw (p : Pipeline) (hw : wfPipeline p = true) :
    parsePipeline (fmtPipelineRaw p) = some ⟨p.id, p.ins, p.outs, normBody p.body⟩ := by
  obtain ⟨_, hwi, hi, hwo, ho, hb, _⟩ := wfPipeline_parts hw
  have h := pPipeline_toks_gen p.id p.ins p.outs p.body [] hwi hi hwo ho hb
  rw [List.append_nil] at h
  have hl := Martian.FormatCall2.lexAll_of_lexOK_nil (lexOK_fmtPipelineRaw p hw)
  simp only [parsePipeline, hl, Option.bind_some, toksPipelineRaw, h]

/-! ## printing the normal form -/

theorem sortBody_normBody (pid : Bytes) (b : Body) :
    sortBody pid (normBody b) = normBody (sortBody pid b) := by
  simp only [sortBody, normBody, sortCalls_norm]

theorem sortBody_idem (pid : Bytes) (b : Body) (hd : distinctCallIds b.calls = true) :
    sortBody pid (sortBody pid b) = sortBody pid b := by
  simp only [sortBody, sortCalls_idem pid b.calls hd]

/-- **Idempotent, pipeline.** -/
theorem fmtPipeline_norm (p : Pipeline) (hw : wfPipeline p = true) :
    fmtPipeline (normPipeline p) = fmtPipeline p := by
  obtain ⟨_, _, _, _, _, hb, hd⟩ := wfPipeline_parts hw
  simp only [fmtPipeline, normPipeline]
  rw [sortBody_normBody, sortBody_idem p.id p.body hd, fmtBody_norm _ (wfBody_sort p.id p.body hb)]

/-- formatting the text in source order gives the formatted pipeline: `fmtPipeline` of what
`parsePipeline` reads from `fmtPipelineRaw p` is `fmtPipeline p` -/
theorem fmtPipeline_of_raw (p : Pipeline) (hw : wfPipeline p = true) :
    fmtPipeline ⟨p.id, p.ins, p.outs, normBody p.body⟩ = fmtPipeline p := by
  obtain ⟨_, _, _, _, _, hb, _⟩ := wfPipeline_parts hw
  simp only [fmtPipeline]
  rw [sortBody_normBody, fmtBody_norm _ (wfBody_sort p.id p.body hb)]

theorem distinct_map_norm (cs : List Call2) :
    distinctCallIds (cs.map normCall2) = distinctCallIds cs := by
  rw [Bool.eq_iff_iff, distinct_iff_nodup, distinct_iff_nodup, List.map_map]
  have : ((fun c : Call2 => c.id) ∘ normCall2) = fun c => c.id := by
    funext c; simp [normCall2]
  rw [this]

/-- the normal form is well formed and a fixed point -/
theorem normPipeline_stable' (p : Pipeline) (hw : wfPipeline p = true) :
    wfPipeline (normPipeline p) = true ∧ normPipeline (normPipeline p) = normPipeline p := by
  obtain ⟨hid, hwi, hi, hwo, ho, hb, hd⟩ := wfPipeline_parts hw
  constructor
  · simp only [wfPipeline, normPipeline, Bool.and_eq_true]
    refine ⟨⟨⟨⟨⟨⟨hid, hwi⟩, hi⟩, hwo⟩, ho⟩, wfBody_norm _ (wfBody_sort p.id p.body hb)⟩, ?_⟩
    simp only [normBody, sortBody, distinct_map_norm]
    exact distinct_perm (sortCalls_perm' p.id p.body.calls) hd
  · simp only [normPipeline]
    rw [sortBody_normBody, sortBody_idem p.id p.body hd, normBody_idem]

end Martian.FormatPipe
