import Proofs.FormatExpToks
import Proofs.FormatExpNum
import Proofs.FormatExpStr

/-!
C09: the lexing layer of the round trip of the value-expression printer.

`lexAll_fmt`: lexing the printed text of a well-formed expression, followed by
the end of the input or a terminator byte (`,` `]` `}` newline, space), gives
exactly `toks e` and then the tokens of what follows.

Core Lean only.
-/

namespace Martian.FormatExp
open Martian.Lexer (Bytes isWord isDigit matchString numTok NumTok parseInt matchFloat matchInt
  optMinus spanDigits)
open Martian.Format (quoteString)

/-! ## facts about single bytes, by enumeration -/

theorem forall_uint8 (P : UInt8 → Prop) (h : ∀ n, n < 256 → P (UInt8.ofNat n)) (c : UInt8) :
    P c := by
  have := h c.toNat (UInt8.toNat_lt c)
  simpa using this

set_option maxRecDepth 4000 in
theorem sp_facts : ∀ c : UInt8, isSp c = true → isPunct c = false := by
  apply forall_uint8
  decide

set_option maxRecDepth 4000 in
theorem num_head_facts : ∀ c : UInt8, (isDigit c || c == 0x2D) = true →
    isPunct c = false ∧ isSp c = false ∧ (c == 0x23) = false ∧ (c == 0x22) = false := by
  apply forall_uint8
  decide

set_option maxRecDepth 4000 in
theorem word_head_facts : ∀ c : UInt8, (isAlpha c || c == 0x5F) = true →
    isPunct c = false ∧ isSp c = false ∧ (c == 0x23) = false ∧ (c == 0x22) = false ∧
      (isDigit c || c == 0x2D) = false ∧ isWord c = true := by
  apply forall_uint8
  decide

/-! ## unfolding `lexAll` -/

theorem map_app (o : Option (List Tok)) (a b : List Tok) :
    (o.map (a ++ ·)).map (b ++ ·) = o.map ((b ++ a) ++ ·) := by
  cases o <;> simp

/-- (the equation lemma `lexAll.eq_2` is not generated within the heartbeat limit; `eq_def` is) -/
theorem lexAll_cons (c : UInt8) (r : Bytes) :
    lexAll (c :: r) = match nextLex (c :: r) with
      | (Lexeme.tok k, n) => Option.map (fun x => k :: x) (lexAll (List.drop (n - 1) r))
      | (Lexeme.skip, n) => lexAll (List.drop (n - 1) r)
      | (Lexeme.invalid, _) => none := by
  rw [lexAll.eq_def (c :: r)]; rfl

theorem lexAll_nil : lexAll [] = some [] := by
  rw [lexAll.eq_def []]

theorem lexAll_cons_tok (c : UInt8) (r : Bytes) (k : Tok) (n : Nat)
    (h : nextLex (c :: r) = (.tok k, n)) :
    lexAll (c :: r) = (lexAll (r.drop (n - 1))).map (k :: ·) := by
  rw [lexAll_cons, h]

theorem lexAll_cons_skip (c : UInt8) (r : Bytes) (n : Nat)
    (h : nextLex (c :: r) = (.skip, n)) :
    lexAll (c :: r) = lexAll (r.drop (n - 1)) := by
  rw [lexAll_cons, h]

theorem lexAll_tok (t rest : Bytes) (k : Tok) (ht : t ≠ [])
    (h : nextLex (t ++ rest) = (.tok k, t.length)) :
    lexAll (t ++ rest) = (lexAll rest).map (k :: ·) := by
  cases t with
  | nil => exact absurd rfl ht
  | cons c t =>
    rw [List.cons_append] at h ⊢
    rw [lexAll_cons_tok c (t ++ rest) k _ h]
    simp

theorem nextLex_sp (c : UInt8) (r : Bytes) (h : isSp c = true) : nextLex (c :: r) = (.skip, 1) := by
  simp only [nextLex, sp_facts c h, h, Bool.false_eq_true, ↓reduceIte]

theorem lexAll_sp (c : UInt8) (r : Bytes) (h : isSp c = true) : lexAll (c :: r) = lexAll r := by
  rw [lexAll_cons_skip c r 1 (nextLex_sp c r h)]; simp

theorem lexAll_spaces : ∀ (ws rest : Bytes), ws.all isSp = true → lexAll (ws ++ rest) = lexAll rest
  | [], _, _ => rfl
  | c :: ws, rest, h => by
    simp only [List.all_cons, Bool.and_eq_true] at h
    rw [List.cons_append, lexAll_sp c _ h.1]
    exact lexAll_spaces ws rest h.2

theorem nextLex_punct (c : UInt8) (r : Bytes) (h : isPunct c = true) :
    nextLex (c :: r) = (.tok (.punct c), 1) := by
  simp only [nextLex, h, ↓reduceIte]

theorem lexAll_punct (c : UInt8) (r : Bytes) (h : isPunct c = true) :
    lexAll (c :: r) = (lexAll r).map (Tok.punct c :: ·) := by
  rw [lexAll_cons_tok c r _ 1 (nextLex_punct c r h)]; simp

/-! ## strings -/

theorem nextLex_str (s rest : Bytes) (h : Martian.ShellQuote.validUtf8 s = true) :
    nextLex (quoteString s ++ rest) = (.tok (.str (quoteString s)), (quoteString s).length) := by
  have hm := Martian.Format.matchString_quoteString s rest h
  have hq : quoteString s ++ rest = 0x22 :: (Martian.Format.quoteBody s ++ [0x22] ++ rest) := by
    simp [quoteString]
  rw [hq] at hm ⊢
  have h1 : isPunct 0x22 = false := by decide
  have h2 : isSp 0x22 = false := by decide
  have h3 : ((0x22 : UInt8) == 0x23) = false := by decide
  simp only [nextLex, h1, h2, h3, hm, Bool.false_eq_true, ↓reduceIte, beq_self_eq_true]

theorem lexAll_str (s rest : Bytes) (h : Martian.ShellQuote.validUtf8 s = true) :
    lexAll (quoteString s ++ rest) = (lexAll rest).map (Tok.str (quoteString s) :: ·) :=
  lexAll_tok _ _ _ (by simp [quoteString]) (nextLex_str s rest h)

/-! ## what may follow a token -/

/-- what may follow a printed expression: the end of the input or `,` `]` `}` newline, space -/
def TermStart (rest : Bytes) : Prop := rest = [] ∨ ∃ c r, rest = c :: r ∧ isTerm c = true

/-- what may follow a word: the end of the input or a non-word byte -/
def WordEnd (rest : Bytes) : Prop := rest = [] ∨ ∃ c r, rest = c :: r ∧ isWord c = false

theorem TermStart.cons (c : UInt8) (r : Bytes) (h : isTerm c = true) : TermStart (c :: r) :=
  Or.inr ⟨c, r, rfl, h⟩

theorem WordEnd.cons (c : UInt8) (r : Bytes) (h : isWord c = false) : WordEnd (c :: r) :=
  Or.inr ⟨c, r, rfl, h⟩

theorem TermStart.wordEnd {rest : Bytes} (h : TermStart rest) : WordEnd rest := by
  rcases h with h | ⟨c, r, h, hc⟩
  · exact Or.inl h
  · exact Or.inr ⟨c, r, h, (isTerm_facts hc).word⟩

/-! ## numbers -/

theorem numTok_nohead (c : UInt8) (r : Bytes) (h : (isDigit c || c == 0x2D) = false) :
    numTok false (c :: r) = .nomatch := by
  simp only [Bool.or_eq_false_iff] at h
  simp [numTok, matchFloat_false, matchInt, optMinus, spanDigits, h.1, h.2]

theorem numTok_nil : numTok false [] = .nomatch := by
  simp [numTok, matchFloat_false, matchInt, optMinus, spanDigits]

theorem numTok_head {t : Bytes} (h : numTok false t ≠ .nomatch) :
    ∃ c r, t = c :: r ∧ (isDigit c || c == 0x2D) = true := by
  cases t with
  | nil => exact absurd numTok_nil h
  | cons c r =>
    refine ⟨c, r, rfl, ?_⟩
    cases hh : (isDigit c || c == 0x2D) with
    | true => rfl
    | false => exact absurd (numTok_nohead c r hh) h

theorem numTok_termStart (t rest : Bytes) (hr : TermStart rest) :
    numTok false (t ++ rest) = numTok false t := by
  rcases hr with rfl | ⟨c, r, rfl, hc⟩
  · rw [List.append_nil]
  · exact numTok_append t c r hc

theorem nextLex_numHead (c : UInt8) (r : Bytes) (h : (isDigit c || c == 0x2D) = true) :
    nextLex (c :: r) = match numTok false (c :: r) with
      | .float t => (.tok (.float t), t.length)
      | .int t => (.tok (.int t), t.length)
      | _ => (.invalid, 0) := by
  obtain ⟨h1, h2, h3, h4⟩ := num_head_facts c h
  simp only [nextLex, h1, h2, h3, h4, h, Bool.false_eq_true, ↓reduceIte]
  cases numTok false (c :: r) <;> rfl

theorem nextLex_float (t rest : Bytes) (h : numTok false t = .float t) (hr : TermStart rest) :
    nextLex (t ++ rest) = (.tok (.float t), t.length) := by
  obtain ⟨c, r, rfl, hc⟩ := numTok_head (t := t) (by rw [h]; exact fun h => NumTok.noConfusion h)
  have := numTok_termStart (c :: r) rest hr
  rw [List.cons_append] at this ⊢
  rw [nextLex_numHead c _ hc, this, h]

theorem nextLex_int (t rest : Bytes) (h : numTok false t = .int t) (hr : TermStart rest) :
    nextLex (t ++ rest) = (.tok (.int t), t.length) := by
  obtain ⟨c, r, rfl, hc⟩ := numTok_head (t := t) (by rw [h]; exact fun h => NumTok.noConfusion h)
  have := numTok_termStart (c :: r) rest hr
  rw [List.cons_append] at this ⊢
  rw [nextLex_numHead c _ hc, this, h]

theorem ne_nil_of_numTok {t : Bytes} {k : NumTok} (h : numTok false t = k) (hk : k ≠ .nomatch) :
    t ≠ [] := by
  rintro rfl
  exact hk (h ▸ numTok_nil)

theorem lexAll_float (t rest : Bytes) (h : numTok false t = .float t) (hr : TermStart rest) :
    lexAll (t ++ rest) = (lexAll rest).map (Tok.float t :: ·) :=
  lexAll_tok _ _ _ (ne_nil_of_numTok h (fun h => NumTok.noConfusion h)) (nextLex_float t rest h hr)

theorem lexAll_int (t rest : Bytes) (h : numTok false t = .int t) (hr : TermStart rest) :
    lexAll (t ++ rest) = (lexAll rest).map (Tok.int t :: ·) :=
  lexAll_tok _ _ _ (ne_nil_of_numTok h (fun h => NumTok.noConfusion h)) (nextLex_int t rest h hr)

/-- a canonical integer text is a NUM_INT token -/
theorem isCanonInt_lex {t : Bytes} (h : isCanonInt t = true) : numTok false t = .int t := by
  unfold isCanonInt at h
  split at h
  · rename_i i hi
    simp only [Bool.and_eq_true, beq_iff_eq] at h
    have := (fmtInt_lex i h.2).1
    rwa [h.1] at this
  · exact absurd h (by simp)

/-! ## words -/

/-- the first byte is a letter or `_` -/
def headOK : Bytes → Bool
  | c :: _ => isAlpha c || c == 0x5F
  | [] => false

theorem lookupKw_head (w : Bytes) (t : String) : ∀ tbl : List (Bytes × String),
    tbl.all (fun kv => headOK kv.1) = true → lookupKw w tbl = some t → headOK w = true
  | [], _, h => by simp [lookupKw] at h
  | (k, t') :: tbl, ha, h => by
    simp only [List.all_cons, Bool.and_eq_true] at ha
    unfold lookupKw at h
    split at h
    · rename_i hw; rw [hw]; exact ha.1
    · exact lookupKw_head w t tbl ha.2 h

theorem keywordTable_head : keywordTable.all (fun kv => headOK kv.1) = true := by decide

theorem wordLexeme_head {w : Bytes} {k : Tok} (h : wordLexeme w = .tok k) : headOK w = true := by
  unfold wordLexeme at h
  split at h
  · rename_i t ht
    exact lookupKw_head w t keywordTable keywordTable_head ht
  · split at h
    · rename_i c d r
      split at h
      · rename_i hc
        simp only [Bool.or_eq_true, Bool.and_eq_true] at hc
        rcases hc with hc | hc
        · simp [headOK, hc]
        · simp [headOK, hc.1]
      · exact Lexeme.noConfusion h
    · rename_i c
      split at h
      · rename_i hc; simp [headOK, hc]
      · exact Lexeme.noConfusion h
    · exact Lexeme.noConfusion h

theorem takeWhile_word : ∀ (w rest : Bytes), w.all isWord = true → WordEnd rest →
    (w ++ rest).takeWhile isWord = w
  | [], rest, _, hr => by
    rcases hr with rfl | ⟨c, r, rfl, hc⟩
    · rfl
    · simp [hc]
  | c :: w, rest, h, hr => by
    simp only [List.all_cons, Bool.and_eq_true] at h
    rw [List.cons_append, List.takeWhile_cons, h.1]
    simp only [↓reduceIte]
    rw [takeWhile_word w rest h.2 hr]

theorem nextLex_word (w rest : Bytes) (hw : w.all isWord = true) (hh : headOK w = true)
    (hr : WordEnd rest) : nextLex (w ++ rest) = (wordLexeme w, w.length) := by
  cases w with
  | nil => simp [headOK] at hh
  | cons c w =>
    have ht := takeWhile_word (c :: w) rest hw hr
    rw [List.cons_append] at ht ⊢
    obtain ⟨h1, h2, h3, h4, h5, _⟩ := word_head_facts c hh
    simp only [headOK] at hh
    simp only [nextLex, h1, h2, h3, h4, h5, hh, ht, Bool.false_eq_true, ↓reduceIte]

theorem lexAll_word (w rest : Bytes) (k : Tok) (hw : w.all isWord = true)
    (hk : wordLexeme w = .tok k) (hr : WordEnd rest) :
    lexAll (w ++ rest) = (lexAll rest).map (k :: ·) := by
  have hh := wordLexeme_head hk
  refine lexAll_tok _ _ _ ?_ ?_
  · rintro rfl; simp [headOK] at hh
  · rw [nextLex_word w rest hw hh hr, hk]

theorem lexAll_ident (w rest : Bytes) (h : isIdent w = true) (hr : WordEnd rest) :
    lexAll (w ++ rest) = (lexAll rest).map (Tok.id w :: ·) := by
  simp only [isIdent, Bool.and_eq_true, beq_iff_eq] at h
  exact lexAll_word w rest _ h.1 h.2 hr

theorem wordLexeme_self : wordLexeme sSelf = .tok .kSelf := by decide
theorem wordLexeme_default : wordLexeme sDefault = .tok .kDefault := by decide
theorem wordLexeme_null : wordLexeme sNull = .tok .kNull := by decide
theorem wordLexeme_true : wordLexeme sTrue = .tok .kTrue := by decide
theorem wordLexeme_false : wordLexeme sFalse = .tok .kFalse := by decide

/-! ## composition: a text `s` lexes as `ts` when followed by a text in `R` -/

def LexOK (s : Bytes) (ts : List Tok) (R : Bytes → Prop) : Prop :=
  ∀ rest, R rest → lexAll (s ++ rest) = (lexAll rest).map (ts ++ ·)

/-- no condition on what follows -/
def AnyRest : Bytes → Prop := fun _ => True

theorem LexOK.append {s1 s2 : Bytes} {t1 t2 : List Tok} {R1 R2 : Bytes → Prop}
    (h1 : LexOK s1 t1 R1) (h2 : LexOK s2 t2 R2) (hR : ∀ rest, R2 rest → R1 (s2 ++ rest)) :
    LexOK (s1 ++ s2) (t1 ++ t2) R2 := by
  intro rest hr
  rw [List.append_assoc, h1 _ (hR rest hr), h2 rest hr, map_app]

theorem LexOK.congr {s s' : Bytes} {t t' : List Tok} {R : Bytes → Prop}
    (h : LexOK s t R) (hs : s' = s) (ht : t' = t) : LexOK s' t' R := by
  subst hs; subst ht; exact h

theorem LexOK.weaken {s : Bytes} {t : List Tok} {R R' : Bytes → Prop}
    (h : LexOK s t R) (hR : ∀ rest, R' rest → R rest) : LexOK s t R' :=
  fun rest hr => h rest (hR rest hr)

theorem map_nil_app (o : Option (List Tok)) : o.map (([] : List Tok) ++ ·) = o := by
  cases o <;> simp

theorem LexOK.nil (R : Bytes → Prop) : LexOK [] [] R := by
  intro rest _
  rw [List.nil_append, map_nil_app]

theorem LexOK.spaces {ws : Bytes} (h : ws.all isSp = true) (R : Bytes → Prop) : LexOK ws [] R := by
  intro rest _
  rw [lexAll_spaces ws rest h, map_nil_app]

theorem LexOK.punct {c : UInt8} (h : isPunct c = true) (R : Bytes → Prop) :
    LexOK [c] [.punct c] R := by
  intro rest _
  exact lexAll_punct c rest h

theorem LexOK.str {s : Bytes} (h : Martian.ShellQuote.validUtf8 s = true) (R : Bytes → Prop) :
    LexOK (quoteString s) [.str (quoteString s)] R := by
  intro rest _
  exact lexAll_str s rest h

theorem LexOK.word {w : Bytes} {k : Tok} (hw : w.all isWord = true)
    (hk : wordLexeme w = .tok k) : LexOK w [k] WordEnd := by
  intro rest hr
  exact lexAll_word w rest k hw hk hr

theorem LexOK.ident {w : Bytes} (h : isIdent w = true) : LexOK w [.id w] WordEnd := by
  intro rest hr
  exact lexAll_ident w rest h hr

theorem LexOK.float {t : Bytes} (h : numTok false t = .float t) : LexOK t [.float t] TermStart := by
  intro rest hr
  exact lexAll_float t rest h hr

theorem LexOK.int {t : Bytes} (h : numTok false t = .int t) : LexOK t [.int t] TermStart := by
  intro rest hr
  exact lexAll_int t rest h hr

theorem all_isSp_append {a b : Bytes} (ha : a.all isSp = true) (hb : b.all isSp = true) :
    (a ++ b).all isSp = true := by
  rw [List.all_append, ha, hb]; rfl

theorem all_isSp_indent : indent.all isSp = true := by decide

theorem all_isSp_spaces (n : Nat) : (spaces n).all isSp = true := by
  induction n with
  | zero => rfl
  | succ n ih =>
    rw [spaces, List.replicate_succ, List.all_cons, ← spaces, ih]; decide

/-! ## references -/

theorem LexOK.dotted : ∀ (out : List Bytes), out.all isIdent = true →
    LexOK (dotted out) (toksDots out) WordEnd
  | [], _ => LexOK.nil _
  | x :: out, h => by
    simp only [List.all_cons, Bool.and_eq_true] at h
    have ih := LexOK.dotted out h.2
    have h1 : LexOK [0x2E] [tDot] AnyRest := LexOK.punct (by decide) _
    have h2 := LexOK.ident h.1
    have h12 := LexOK.append h1 h2 (fun _ _ => trivial)
    have h123 := LexOK.append h12 ih (by
      intro rest hr
      cases out with
      | nil => exact hr
      | cons y out => exact WordEnd.cons _ _ (by decide))
    exact h123.congr (by simp [Martian.FormatExp.dotted]) (by simp [toksDots])

theorem isIdent_ne_nil {w : Bytes} (h : isIdent w = true) : w ≠ [] := by
  simp only [isIdent, Bool.and_eq_true, beq_iff_eq] at h
  have := wordLexeme_head h.2
  rintro rfl
  simp [headOK] at this

theorem all_isWord_self : sSelf.all isWord = true := by decide
theorem all_isWord_default : sDefault.all isWord = true := by decide
theorem all_isWord_null : sNull.all isWord = true := by decide
theorem all_isWord_true : sTrue.all isWord = true := by decide
theorem all_isWord_false : sFalse.all isWord = true := by decide

theorem LexOK.ref (self : Bool) (id : Bytes) (out : List Bytes)
    (hw : (isIdent id && ((!self && out == [sDefault]) || out.all isIdent)) = true) :
    LexOK (fmtRef self id out) (toksRef self id out) WordEnd := by
  simp only [Bool.and_eq_true, Bool.or_eq_true, Bool.not_eq_true', beq_iff_eq] at hw
  obtain ⟨hid, hout⟩ := hw
  have hdot : LexOK [0x2E] [tDot] AnyRest := LexOK.punct (by decide) _
  have hdotW : ∀ rest : Bytes, WordEnd ([0x2E] ++ rest) :=
    fun rest => WordEnd.cons _ _ (by decide)
  have hdots : ∀ out : List Bytes, ∀ rest, WordEnd rest → WordEnd (Martian.FormatExp.dotted out ++ rest) := by
    intro out rest hr
    cases out with
    | nil => exact hr
    | cons y out => exact WordEnd.cons _ _ (by decide)
  cases self with
  | true =>
    have hout : out.all isIdent = true := by
      rcases hout with h | h
      · exact absurd h.1 (by simp)
      · exact h
    have h1 : LexOK sSelf [.kSelf] WordEnd := LexOK.word all_isWord_self wordLexeme_self
    have h := ((h1.append hdot (fun rest _ => hdotW rest)).append (LexOK.ident hid)
      (fun _ _ => trivial)).append (LexOK.dotted out hout) (hdots out)
    exact h.congr (by simp [fmtRef, isIdent_ne_nil hid]) (by simp [toksRef])
  | false =>
    by_cases hd : out = [sDefault]
    · subst hd
      have h3 : LexOK sDefault [.kDefault] WordEnd := LexOK.word all_isWord_default wordLexeme_default
      have h := ((LexOK.ident hid).append hdot (fun rest _ => hdotW rest)).append h3
        (fun _ _ => trivial)
      exact h.congr (by simp [fmtRef, Martian.FormatExp.dotted]) (by simp [toksRef])
    · have hout : out.all isIdent = true := by
        rcases hout with h | h
        · exact absurd h.2 hd
        · exact h
      have h := (LexOK.ident hid).append (LexOK.dotted out hout) (hdots out)
      exact h.congr (by simp [fmtRef]) (by simp [toksRef, hd])

/-! ## items and brackets -/

/-- an item of a bracketed list: a prefix lexed without condition, the value, `,` newline, and
what comes next -/
theorem LexOK.item {pre s nxt : Bytes} {tp ts tn : List Tok} {R : Bytes → Prop}
    (hp : LexOK pre tp AnyRest) (ih : LexOK s ts TermStart) (hn : LexOK nxt tn R) :
    LexOK (pre ++ s ++ [0x2C, 0x0A] ++ nxt) (tp ++ ts ++ tComma :: tn) R := by
  have hc : LexOK [0x2C] [tComma] AnyRest := LexOK.punct (by decide) _
  have hnl : LexOK [0x0A] [] AnyRest := LexOK.spaces (by decide) _
  have htail := (hc.append hnl (fun _ _ => trivial)).append hn (fun _ _ => trivial)
  have h := (hp.append ih (fun _ _ => trivial)).append htail
    (fun rest _ => TermStart.cons _ _ (by decide))
  exact h.congr (by simp) (by simp)

/-- `o` newline, a body lexed without condition, the prefix and `c` -/
theorem LexOK.bracket {o c : UInt8} (ho : isPunct o = true) (hc : isPunct c = true)
    {body p : Bytes} {tb : List Tok} (hb : LexOK body tb AnyRest) (hp : p.all isSp = true)
    (R : Bytes → Prop) :
    LexOK (o :: 0x0A :: (body ++ p ++ [c])) (.punct o :: (tb ++ [.punct c])) R := by
  have h1 : LexOK [o] [.punct o] AnyRest := LexOK.punct ho _
  have hnl : LexOK [0x0A] [] AnyRest := LexOK.spaces (by decide) _
  have h2 : LexOK p [] AnyRest := LexOK.spaces hp _
  have h3 : LexOK [c] [.punct c] R := LexOK.punct hc _
  have h := (((h1.append hnl (fun _ _ => trivial)).append hb (fun _ _ => trivial)).append h2
    (fun _ _ => trivial)).append h3 (fun _ _ => trivial)
  exact h.congr (by simp) (by simp)

theorem LexOK.pair {o c : UInt8} (ho : isPunct o = true) (hc : isPunct c = true)
    (R : Bytes → Prop) : LexOK [o, c] [.punct o, .punct c] R := by
  have h1 : LexOK [o] [.punct o] AnyRest := LexOK.punct ho _
  have h3 : LexOK [c] [.punct c] R := LexOK.punct hc _
  exact (h1.append h3 (fun _ _ => trivial)).congr (by simp) (by simp)

theorem LexOK.arr1_single {s : Bytes} {ts : List Tok} (ih : LexOK s ts TermStart)
    (R : Bytes → Prop) : LexOK (0x5B :: (s ++ [0x5D])) (tLB :: (ts ++ [tRB])) R := by
  have h1 : LexOK [0x5B] [tLB] AnyRest := LexOK.punct (by decide) _
  have h3 : LexOK [0x5D] [tRB] R := LexOK.punct (by decide) _
  have h := (h1.append ih (fun _ _ => trivial)).append h3
    (fun rest _ => TermStart.cons _ _ (by decide))
  exact h.congr (by simp) (by simp)

theorem LexOK.arr1_multi {p s : Bytes} {ts : List Tok} (hp : p.all isSp = true)
    (ih : LexOK s ts TermStart) (R : Bytes → Prop) :
    LexOK (0x5B :: 0x0A :: (p ++ indent ++ s ++ [0x2C, 0x0A] ++ p ++ [0x5D]))
      (tLB :: (ts ++ [tComma, tRB])) R := by
  have hpre : LexOK (p ++ indent) [] AnyRest :=
    LexOK.spaces (all_isSp_append hp all_isSp_indent) _
  have hb := LexOK.item hpre ih (LexOK.nil AnyRest)
  have h := LexOK.bracket (o := 0x5B) (c := 0x5D) (by decide) (by decide) hb hp R
  exact h.congr (by simp) (by simp)

/-! ## leaves -/

theorem LexOK.floatExp {t : Bytes} (hw : (isFloatTok t || isCanonInt t) = true) :
    LexOK t [if isFloatTok t then .float t else .int t] TermStart := by
  cases hf : isFloatTok t with
  | true =>
    simp only [↓reduceIte]
    simp only [isFloatTok, beq_iff_eq] at hf
    exact LexOK.float hf
  | false =>
    rw [hf, Bool.false_or] at hw
    simp only [Bool.false_eq_true, ↓reduceIte]
    exact LexOK.int (isCanonInt_lex hw)

theorem LexOK.intExp {i : Int} (hw : inInt64 i = true) :
    LexOK (fmtInt i) [.int (fmtInt i)] TermStart :=
  LexOK.int (fmtInt_lex i hw).1

theorem LexOK.kw {w : Bytes} {k : Tok} (hw : w.all isWord = true) (hk : wordLexeme w = .tok k) :
    LexOK w [k] TermStart :=
  (LexOK.word hw hk).weaken (fun _ => TermStart.wordEnd)

/-! ## the printer -/

mutual
theorem lexOK_fmt : ∀ (e : Exp) (p : Bytes), wf e = true → p.all isSp = true →
    LexOK (fmt p e) (toks e) TermStart
  | .null, p, _, _ => (LexOK.kw all_isWord_null wordLexeme_null).congr (by simp [fmt]) (by simp [toks])
  | .nilArr, p, _, _ =>
    (LexOK.kw all_isWord_null wordLexeme_null).congr (by simp [fmt]) (by simp [toks])
  | .bool true, p, _, _ =>
    (LexOK.kw all_isWord_true wordLexeme_true).congr (by simp [fmt]) (by simp [toks])
  | .bool false, p, _, _ =>
    (LexOK.kw all_isWord_false wordLexeme_false).congr (by simp [fmt]) (by simp [toks])
  | .int i, p, hw, _ => by
    simp only [wf] at hw
    exact (LexOK.intExp hw).congr (by simp [fmt]) (by simp [toks])
  | .float t, p, hw, _ => by
    simp only [wf] at hw
    exact (LexOK.floatExp hw).congr (by simp [fmt]) (by simp [toks])
  | .str s, p, hw, _ => by
    simp only [wf] at hw
    exact (LexOK.str hw _).congr (by simp [fmt]) (by simp [toks])
  | .arr [], p, _, _ =>
    (LexOK.pair (o := 0x5B) (c := 0x5D) (by decide) (by decide) _).congr (by simp [fmt]) (by simp [toks])
  | .arr [x], p, hw, hp => by
    simp only [wf, wfL, Bool.and_true] at hw
    by_cases hs : single x = true
    · exact (LexOK.arr1_single (lexOK_fmt x p hw hp) _).congr (by simp [fmt, hs]) (by simp [toks, hs])
    · have hp' := all_isSp_append hp all_isSp_indent
      exact (LexOK.arr1_multi hp (lexOK_fmt x (p ++ indent) hw hp') _).congr
        (by simp [fmt, hs]) (by simp [toks, hs])
  | .arr (x :: y :: r), p, hw, hp => by
    simp only [wf] at hw
    have hp' := all_isSp_append hp all_isSp_indent
    have hb := lexOK_fmtElems (x :: y :: r) (p ++ indent) hw hp'
    exact (LexOK.bracket (o := 0x5B) (c := 0x5D) (by decide) (by decide) hb hp _).congr
      (by simp [fmt]) (by simp [toks])
  | .map [], p, _, _ =>
    (LexOK.pair (o := 0x7B) (c := 0x7D) (by decide) (by decide) _).congr (by simp [fmt]) (by simp [toks])
  | .map (kv :: r), p, hw, hp => by
    simp only [wf, Bool.and_eq_true] at hw
    have hp' := all_isSp_append hp all_isSp_indent
    have hb := lexOK_fmtKVs (kv :: r) (p ++ indent) hw.2 hp'
    exact (LexOK.bracket (o := 0x7B) (c := 0x7D) (by decide) (by decide) hb hp _).congr
      (by simp [fmt]) (by simp [toks])
  | .struct [], p, _, _ =>
    (LexOK.pair (o := 0x7B) (c := 0x7D) (by decide) (by decide) _).congr (by simp [fmt]) (by simp [toks])
  | .struct (kv :: r), p, hw, hp => by
    simp only [wf, Bool.and_eq_true] at hw
    have hp' := all_isSp_append hp all_isSp_indent
    have hb := lexOK_fmtFields (kv :: r) (p ++ indent) (maxKeyLen (kv :: r)) hw.2 hp'
    exact (LexOK.bracket (o := 0x7B) (c := 0x7D) (by decide) (by decide) hb hp _).congr
      (by simp [fmt]) (by simp [toks])
  | .ref self id out, p, hw, _ => by
    simp only [wf] at hw
    exact ((LexOK.ref self id out hw).weaken (fun _ => TermStart.wordEnd)).congr
      (by simp [fmt]) (by simp [toks])
theorem lexOK_fmtElems : ∀ (xs : List Exp) (vp : Bytes), wfL xs = true → vp.all isSp = true →
    LexOK (fmtElems vp xs) (toksElems xs) AnyRest
  | [], vp, _, _ => (LexOK.nil _).congr (by simp [fmtElems]) (by simp [toksElems])
  | x :: r, vp, hw, hp => by
    simp only [wfL, Bool.and_eq_true] at hw
    exact (LexOK.item (LexOK.spaces hp _) (lexOK_fmt x vp hw.1 hp)
      (lexOK_fmtElems r vp hw.2 hp)).congr (by simp [fmtElems]) (by simp [toksElems])
theorem lexOK_fmtKVs : ∀ (kvs : List (Bytes × Exp)) (vp : Bytes), wfKV false kvs = true →
    vp.all isSp = true → LexOK (fmtKVs vp kvs) (toksKVs kvs) AnyRest
  | [], vp, _, _ => (LexOK.nil _).congr (by simp [fmtKVs]) (by simp [toksKVs])
  | (k, v) :: r, vp, hw, hp => by
    simp only [wfKV, Bool.and_eq_true, Bool.false_eq_true, ↓reduceIte] at hw
    have hpre : LexOK (vp ++ quoteString k ++ [0x3A, 0x20]) [.str (quoteString k), tColon] AnyRest := by
      have h1 : LexOK vp [] AnyRest := LexOK.spaces hp _
      have h2 : LexOK (quoteString k) [.str (quoteString k)] AnyRest := LexOK.str hw.1.1 _
      have h3 : LexOK [0x3A] [tColon] AnyRest := LexOK.punct (by decide) _
      have h4 : LexOK [0x20] [] AnyRest := LexOK.spaces (by decide) _
      exact (((h1.append h2 (fun _ _ => trivial)).append h3 (fun _ _ => trivial)).append h4
        (fun _ _ => trivial)).congr (by simp) (by simp)
    exact (LexOK.item hpre (lexOK_fmt v vp hw.1.2 hp)
      (lexOK_fmtKVs r vp hw.2 hp)).congr (by simp [fmtKVs]) (by simp [toksKVs])
theorem lexOK_fmtFields : ∀ (kvs : List (Bytes × Exp)) (vp : Bytes) (w : Nat),
    wfKV true kvs = true → vp.all isSp = true → LexOK (fmtFields vp w kvs) (toksFields kvs) AnyRest
  | [], vp, w, _, _ => (LexOK.nil _).congr (by simp [fmtFields]) (by simp [toksFields])
  | (k, v) :: r, vp, w, hw, hp => by
    simp only [wfKV, Bool.and_eq_true, ↓reduceIte] at hw
    have hpre : LexOK (vp ++ k ++ [0x3A, 0x20] ++ (if single v then spaces (w - k.length) else []))
        [.id k, tColon] AnyRest := by
      have h1 : LexOK vp [] AnyRest := LexOK.spaces hp _
      have h2 : LexOK k [.id k] WordEnd := LexOK.ident hw.1.1
      have h3 : LexOK [0x3A] [tColon] AnyRest := LexOK.punct (by decide) _
      have h4 : LexOK [0x20] [] AnyRest := LexOK.spaces (by decide) _
      have h5 : LexOK (if single v then spaces (w - k.length) else []) [] AnyRest := by
        split
        · exact LexOK.spaces (all_isSp_spaces _) _
        · exact LexOK.nil _
      have h345 := (h3.append h4 (fun _ _ => trivial)).append h5 (fun _ _ => trivial)
      exact ((h1.append h2 (fun _ _ => trivial)).append h345
        (fun rest _ => WordEnd.cons _ _ (by decide))).congr (by simp) (by simp)
    exact (LexOK.item hpre (lexOK_fmt v vp hw.1.2 hp)
      (lexOK_fmtFields r vp w hw.2 hp)).congr (by simp [fmtFields]) (by simp [toksFields])
end

/-! ## the statements -/

/-- **Lexing layer.**  The printed text of a well-formed expression, whatever the (white-space)
prefix it is printed with, followed by the end of the input or a terminator byte, lexes as
`toks e` followed by the tokens of what follows (and is rejected iff what follows is). -/
theorem lexAll_fmt (e : Exp) (p rest : Bytes) (hw : wf e = true) (hp : p.all isSp = true)
    (hr : TermStart rest) :
    lexAll (fmt p e ++ rest) = (lexAll rest).map (toks e ++ ·) :=
  lexOK_fmt e p hw hp rest hr

theorem lexAll_fmtElems (xs : List Exp) (vp rest : Bytes) (hw : wfL xs = true)
    (hp : vp.all isSp = true) :
    lexAll (fmtElems vp xs ++ rest) = (lexAll rest).map (toksElems xs ++ ·) :=
  lexOK_fmtElems xs vp hw hp rest trivial

theorem lexAll_fmtKVs (kvs : List (Bytes × Exp)) (vp rest : Bytes) (hw : wfKV false kvs = true)
    (hp : vp.all isSp = true) :
    lexAll (fmtKVs vp kvs ++ rest) = (lexAll rest).map (toksKVs kvs ++ ·) :=
  lexOK_fmtKVs kvs vp hw hp rest trivial

theorem lexAll_fmtFields (kvs : List (Bytes × Exp)) (vp : Bytes) (w : Nat) (rest : Bytes)
    (hw : wfKV true kvs = true) (hp : vp.all isSp = true) :
    lexAll (fmtFields vp w kvs ++ rest) = (lexAll rest).map (toksFields kvs ++ ·) :=
  lexOK_fmtFields kvs vp w hw hp rest trivial

/-- the text `FormatExp` prints for a well-formed expression lexes as `toks e` -/
theorem lexAll_fmt_top (e : Exp) (hw : wf e = true) : lexAll (fmt [] e) = some (toks e) := by
  have h := lexAll_fmt e [] [] hw rfl (Or.inl rfl)
  rw [List.append_nil, lexAll_nil] at h
  rw [h]; simp

end Martian.FormatExp
