import Martian.EquivLockLTS

namespace Martian.LockLTS
open List

theorem drop_of_not_mem {p : Nat} : ∀ {l : List Nat}, p ∉ l → drop p l = l
  | [], _ => rfl
  | x :: l, h => by
    simp only [mem_cons, not_or] at h
    have hx : (x != p) = true := by simpa using fun e => h.1 e.symm
    simp only [drop, filter_cons, hx, if_true, cons.injEq, true_and]
    exact drop_of_not_mem h.2

theorem mem_drop {p x : Nat} {l : List Nat} : x ∈ drop p l ↔ x ∈ l ∧ x ≠ p := by
  simp [drop]

/-- invariant of every run in which the operator removes `_lock` only when nobody owns it -/
structure Inv (s : St) : Prop where
  owner : s.holders = [] ∨ ∃ h, s.holders = [h] ∧ s.lockFile = true
  reg : ∀ x, x ∈ s.registered → x ∈ s.holders

theorem inv_init : Inv init := ⟨Or.inl rfl, by simp [init]⟩

theorem holders_nil_of_unlocked {s : St} (hi : Inv s) (h : s.lockFile = false) : s.holders = [] := by
  rcases hi.owner with h0 | ⟨x, _, hl⟩
  · exact h0
  · rw [h] at hl; cases hl

theorem inv_step (s : St) (a : Act) (hi : Inv s) (he : enabled s a = true) (hd : disciplined s a = true) :
    Inv (step false false s a).1 := by
  cases a with
  | acquire p =>
    cases hl : s.lockFile
    · have hh := holders_nil_of_unlocked hi hl
      simp only [step, hl, Bool.false_eq_true, if_false]
      refine ⟨Or.inr ⟨p, by simp [hh], rfl⟩, ?_⟩
      intro x hx; exact mem_cons_of_mem _ (hi.reg x hx)
    · have : (step false false s (.acquire p)).1 = s := by
        cases s; simp_all [step]
      rw [this]; exact hi
  | register p =>
    simp only [enabled, Bool.and_eq_true, contains_iff_mem] at he
    simp only [step]
    refine ⟨hi.owner, ?_⟩
    intro x hx
    rcases mem_cons.mp hx with rfl | hx
    · exact he.1
    · exact hi.reg x hx
  | unlock p =>
    simp only [enabled, contains_iff_mem] at he
    rcases hi.owner with h0 | ⟨h, hh, hl⟩
    · rw [h0] at he; cases he
    · have hph : p = h := by simpa [hh] using he
      subst hph
      simp only [step]
      refine ⟨Or.inl (by simp [hh, drop]), ?_⟩
      intro x hx
      have := hi.reg x (mem_drop.mp hx).1
      rw [hh] at this
      exact absurd (by simpa using this) (mem_drop.mp hx).2
  | signal p =>
    simp only [step]
    refine ⟨?_, ?_⟩
    · rcases hi.owner with hh | ⟨h, hh, hl⟩
      · exact Or.inl (by simp [hh, drop])
      · by_cases hph : p = h
        · exact Or.inl (by simp [hh, drop, hph])
        · have hne : (h != p) = true := by simpa using fun e => hph e.symm
          have hnm : p ∉ s.registered := by
            intro hm
            have := hi.reg p hm
            rw [hh] at this
            exact hph (by simpa using this)
          exact Or.inr ⟨h, by simp [hh, drop, hne], by simp [hl, hnm]⟩
    · intro x hx
      exact mem_drop.mpr ⟨hi.reg x (mem_drop.mp hx).1, (mem_drop.mp hx).2⟩
  | kill p =>
    simp only [step]
    refine ⟨?_, ?_⟩
    · rcases hi.owner with hh | ⟨h, hh, hl⟩
      · exact Or.inl (by simp [hh, drop])
      · by_cases hph : p = h
        · exact Or.inl (by simp [hh, drop, hph])
        · have hne : (h != p) = true := by simpa using fun e => hph e.symm
          exact Or.inr ⟨h, by simp [hh, drop, hne], hl⟩
    · intro x hx
      exact mem_drop.mpr ⟨hi.reg x (mem_drop.mp hx).1, (mem_drop.mp hx).2⟩
  | rmLock =>
    simp only [disciplined, isEmpty_iff] at hd
    simp only [step]
    refine ⟨Or.inl hd, hi.reg⟩
  | acquireErr p => simp [disciplined] at hd
  | startFail p => simpa [step] using hi
  | acquireFail p => simpa [step] using hi
  | start p =>
    cases hl : s.lockFile
    · have hh := holders_nil_of_unlocked hi hl
      simp only [step, hl, Bool.false_eq_true, if_false]
      refine ⟨Or.inr ⟨p, by simp [hh], rfl⟩, ?_⟩
      intro x hx; exact mem_cons_of_mem _ (hi.reg x hx)
    · have : (step false false s (.start p)).1 = s := by
        cases s; simp_all [step]
      rw [this]; exact hi

theorem inv_run : ∀ (tr : List Act) (s s' : St), Inv s → run false false disciplined s tr = some s' → Inv s'
  | [], s, s', hi, h => by simp only [run, Option.some.injEq] at h; exact h ▸ hi
  | a :: r, s, s', hi, h => by
    simp only [run] at h
    by_cases hc : (enabled s a && disciplined s a) = true
    · simp only [hc, if_true] at h
      simp only [Bool.and_eq_true] at hc
      exact inv_run r _ s' (inv_step s a hi hc.1 hc.2) h
    · simp [hc] at h

end Martian.LockLTS
