import Martian.Format
import Proofs.Format
import Proofs.FormatTopo

/-! The `for changes` loop of `addNextDeps` (`closeFix`) reaches a fixed point of
`closeOnce` within `n² + 1` rounds (counting argument: a round that changes the
table adds a pair, there are at most `n²` pairs); a fixed point of `closeOnce`
is transitive; so the relation `topoSort` sorts by is transitive for every
graph and `topoSort_sorted` needs no transitivity hypothesis. -/
namespace Martian.Format

/-! ### sums over a list -/

theorem sum_map_le (l : List Nat) (f g : Nat → Nat) (h : ∀ x ∈ l, f x ≤ g x) :
    (l.map f).sum ≤ (l.map g).sum := by
  induction l with
  | nil => simp
  | cons x r ih =>
    simp only [List.map_cons, List.sum_cons]
    have h1 := h x (by simp)
    have h2 := ih (fun y hy => h y (by simp [hy]))
    omega

theorem sum_map_lt (l : List Nat) (f g : Nat → Nat) (h : ∀ x ∈ l, f x ≤ g x)
    (x : Nat) (hx : x ∈ l) (hlt : f x < g x) : (l.map f).sum < (l.map g).sum := by
  induction l with
  | nil => cases hx
  | cons y r ih =>
    simp only [List.map_cons, List.sum_cons]
    have h1 := h y (by simp)
    have h2 := sum_map_le r f g (fun z hz => h z (by simp [hz]))
    rcases List.mem_cons.mp hx with rfl | hxr
    · omega
    · have := ih (fun z hz => h z (by simp [hz])) hxr
      omega

theorem sum_map_le_const (l : List Nat) (f : Nat → Nat) (c : Nat) (h : ∀ x ∈ l, f x ≤ c) :
    (l.map f).sum ≤ l.length * c := by
  induction l with
  | nil => simp
  | cons x r ih =>
    simp only [List.map_cons, List.sum_cons, List.length_cons]
    have h1 := h x (by simp)
    have h2 := ih (fun y hy => h y (by simp [hy]))
    rw [Nat.add_mul]
    omega

/-! ### number of pairs of a relation on `0 … n-1` -/

def rowCnt (n : Nat) (d : Dep) (a : Nat) : Nat :=
  ((List.range n).map fun b => if d a b = true then 1 else 0).sum

def cnt (n : Nat) (d : Dep) : Nat := ((List.range n).map (rowCnt n d)).sum

theorem rowCnt_le (n : Nat) (d d' : Dep) (a : Nat)
    (h : ∀ b, b < n → d a b = true → d' a b = true) : rowCnt n d a ≤ rowCnt n d' a := by
  unfold rowCnt
  apply sum_map_le
  intro b hb
  have hb' : b < n := List.mem_range.mp hb
  by_cases hd : d a b = true
  · simp [hd, h b hb' hd]
  · simp [hd]

theorem rowCnt_lt (n : Nat) (d d' : Dep) (a : Nat)
    (h : ∀ b, b < n → d a b = true → d' a b = true)
    (b : Nat) (hb : b < n) (h0 : d a b = false) (h1 : d' a b = true) :
    rowCnt n d a < rowCnt n d' a := by
  unfold rowCnt
  apply sum_map_lt _ _ _ _ b (List.mem_range.mpr hb)
  · simp [h0, h1]
  · intro c hc
    have hc' : c < n := List.mem_range.mp hc
    by_cases hd : d a c = true
    · simp [hd, h c hc' hd]
    · simp [hd]

theorem rowCnt_bound (n : Nat) (d : Dep) (a : Nat) : rowCnt n d a ≤ n := by
  unfold rowCnt
  have := sum_map_le_const (List.range n) (fun b => if d a b = true then 1 else 0) 1
    (by intro x _; show (if d a x = true then 1 else 0) ≤ 1; split <;> omega)
  simpa using this

theorem cnt_le (n : Nat) (d d' : Dep)
    (h : ∀ a b, a < n → b < n → d a b = true → d' a b = true) : cnt n d ≤ cnt n d' := by
  unfold cnt
  apply sum_map_le
  intro a ha
  exact rowCnt_le n d d' a (fun b hb => h a b (List.mem_range.mp ha) hb)

theorem cnt_lt (n : Nat) (d d' : Dep)
    (h : ∀ a b, a < n → b < n → d a b = true → d' a b = true)
    (a b : Nat) (ha : a < n) (hb : b < n) (h0 : d a b = false) (h1 : d' a b = true) :
    cnt n d < cnt n d' := by
  unfold cnt
  apply sum_map_lt _ _ _ _ a (List.mem_range.mpr ha)
  · exact rowCnt_lt n d d' a (fun c hc => h a c ha hc) b hb h0 h1
  · intro x hx
    exact rowCnt_le n d d' x (fun c hc => h x c (List.mem_range.mp hx) hc)

theorem cnt_bound (n : Nat) (d : Dep) : cnt n d ≤ n * n := by
  unfold cnt
  have := sum_map_le_const (List.range n) (rowCnt n d) n (fun a _ => rowCnt_bound n d a)
  simpa using this

/-! ### tables -/

theorem tabulate_congr (n : Nat) (d d' : Dep) (h : ∀ a b, a < n → b < n → d a b = d' a b) :
    tabulate n d = tabulate n d' := by
  unfold tabulate
  apply List.map_congr_left
  intro a ha
  apply List.map_congr_left
  intro b hb
  exact h a b (List.mem_range.mp ha) (List.mem_range.mp hb)

/-- a table that came out of `tabulate` is its own tabulation -/
theorem tabulate_ofTable_tabulate (n : Nat) (d : Dep) :
    tabulate n (ofTable (tabulate n d)) = tabulate n d :=
  tabulate_congr n _ _ (fun a b ha hb => ofTable_tabulate n d a b ha hb)

/-- two different tabulations differ at a pair in range -/
theorem tabulate_ne (n : Nat) (d d' : Dep) (h : tabulate n d' ≠ tabulate n d) :
    ∃ a b, a < n ∧ b < n ∧ d a b ≠ d' a b := by
  apply Classical.byContradiction
  intro hno
  apply h
  apply tabulate_congr
  intro a b ha hb
  apply Classical.byContradiction
  intro hne
  exact hno ⟨a, b, ha, hb, fun h' => hne h'.symm⟩

/-- a round of `addNextDeps` only adds dependencies -/
theorem closeOnce_infl (n : Nat) (d : Dep) (a b : Nat) (h : d a b = true) :
    closeOnce n d a b = true := by
  simp [closeOnce, h]

/-! ### the loop reaches a fixed point -/

/-- With enough fuel for the pairs still absent, the loop ends in a table that
one more round leaves unchanged. -/
theorem closeFix_fix (n : Nat) : ∀ (k : Nat) (t : List (List Bool)),
    tabulate n (ofTable t) = t → n * n + 1 ≤ cnt n (ofTable t) + k →
    tabulate n (closeOnce n (ofTable (closeFix n k t))) = closeFix n k t := by
  intro k
  induction k with
  | zero =>
    intro t _ hf
    have := cnt_bound n (ofTable t)
    omega
  | succ k ih =>
    intro t hshape hf
    unfold closeFix
    simp only
    by_cases heq : tabulate n (closeOnce n (ofTable t)) = t
    · simp only [heq, beq_self_eq_true, ↓reduceIte]
    · have hb : (tabulate n (closeOnce n (ofTable t)) == t) = false := by
        simpa using heq
      simp only [hb, Bool.false_eq_true, ↓reduceIte]
      apply ih
      · exact tabulate_ofTable_tabulate n _
      · -- the round changed the table, so it added a pair
        have hne : tabulate n (closeOnce n (ofTable t)) ≠ tabulate n (ofTable t) := by
          rw [hshape]; exact heq
        obtain ⟨a, b, ha, hb', hab⟩ := tabulate_ne n (ofTable t) (closeOnce n (ofTable t)) hne
        have h0 : ofTable t a b = false := by
          cases h : ofTable t a b with
          | false => rfl
          | true => exact absurd (by rw [h, closeOnce_infl n _ a b h]) hab
        have h1 : closeOnce n (ofTable t) a b = true := by
          cases h : closeOnce n (ofTable t) a b with
          | true => rfl
          | false => exact absurd (by rw [h0, h]) hab
        have hlt : cnt n (ofTable t) < cnt n (closeOnce n (ofTable t)) :=
          cnt_lt n _ _ (fun x y _ _ hxy => closeOnce_infl n _ x y hxy) a b ha hb' h0 h1
        have hle : cnt n (closeOnce n (ofTable t)) ≤
            cnt n (ofTable (tabulate n (closeOnce n (ofTable t)))) :=
          cnt_le n _ _ (fun x y hx hy hxy => by rw [ofTable_tabulate n _ x y hx hy]; exact hxy)
        omega

/-- **Fixed point.**  The fuel `n² + 1` of `closedTable` is never exhausted:
the closed table is unchanged by one more round of `addNextDeps`. -/
theorem closedTable_fix (n : Nat) (edges : List (Nat × Nat)) :
    tabulate n (closeOnce n (ofTable (closedTable n edges))) = closedTable n edges := by
  unfold closedTable
  apply closeFix_fix
  · exact tabulate_ofTable_tabulate n _
  · omega

/-- a fixed point of `closeOnce` is transitive on the calls -/
theorem trans_of_fix (n : Nat) (t : List (List Bool))
    (h : tabulate n (closeOnce n (ofTable t)) = t) : transOn (List.range n) (ofTable t) = true := by
  unfold transOn
  simp only [List.all_eq_true, List.mem_range]
  intro a ha b hb c hc
  by_cases hab : ofTable t a b = true
  · by_cases hbc : ofTable t b c = true
    · have hac : ofTable t a c = true := by
        have hc1 : closeOnce n (ofTable t) a c = true := by
          unfold closeOnce
          simp only [Bool.or_eq_true, List.any_eq_true, List.mem_range, Bool.and_eq_true]
          exact Or.inr ⟨b, hb, hab, hbc⟩
        have := ofTable_tabulate n (closeOnce n (ofTable t)) a c ha hc
        rw [h] at this
        rw [this]; exact hc1
      simp [hac]
    · simp [hbc]
  · simp [hab]

/-- **Transitive.**  The relation `topoSort` sorts by is transitive on the calls,
for every number of calls and every set of direct dependencies. -/
theorem closedDeps_trans (n : Nat) (edges : List (Nat × Nat)) :
    transOn (List.range n) (closedDeps n edges) = true :=
  trans_of_fix n (closedTable n edges) (closedTable_fix n edges)

/-- the loop only adds dependencies -/
theorem closeFix_mono (n : Nat) : ∀ (k : Nat) (t : List (List Bool)) (a b : Nat), a < n → b < n →
    ofTable t a b = true → ofTable (closeFix n k t) a b = true := by
  intro k
  induction k with
  | zero => intro t a b _ _ h; exact h
  | succ k ih =>
    intro t a b ha hb h
    unfold closeFix
    simp only
    split
    · exact h
    · apply ih _ a b ha hb
      rw [ofTable_tabulate n _ a b ha hb]
      exact closeOnce_infl n _ a b h

theorem closedDeps_contains_edges' (n : Nat) (edges : List (Nat × Nat)) (a b : Nat)
    (ha : a < n) (hb : b < n) (h : (a, b) ∈ edges) : closedDeps n edges a b = true :=
  closeFix_mono n _ _ a b ha hb (by rw [ofTable_tabulate n _ a b ha hb]; simp [depOfEdges, h])

/-- without a cycle the result of `topoSort` is in dependency order for the
whole closed relation — no transitivity hypothesis -/
theorem topoSort_sorted' (n : Nat) (edges : List (Nat × Nat))
    (hcyc : hasCycle n (closedDeps n edges) = false) :
    sortedFrom (closedDeps n edges) (topoSort n edges) = true :=
  topoSort_sorted n edges hcyc (closedDeps_trans n edges)

end Martian.Format
