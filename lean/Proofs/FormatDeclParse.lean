import Proofs.FormatDeclToks
import Proofs.FormatExpRound

/-!
C09: the token layer of the round trip for type names, parameter lists, struct
members, `struct` and `filetype` declarations: the readers of
Martian/FormatDecl.lean accept the token sequences of Proofs/FormatDeclToks.lean
and return the value, for every well-formed value, any following tokens that
cannot continue the construct, and any fuel above the number of tokens.

Core Lean only.
-/

namespace Martian.FormatDecl
open Martian.Lexer (Bytes unquoteBytes)
open Martian.Format (quoteString)
open Martian.FormatExp

/-! ## what may follow -/

/-- what follows a `type_id` in a parameter or struct field: an `id` token, a
string, or a comma -/
def typeEnd : List Tok → Bool
  | .id _ :: _ => true
  | .str _ :: _ => true
  | .punct c :: _ => c == 0x2C
  | _ => false

theorem typeEnd_noDot {rest : List Tok} (h : typeEnd rest = true) : NoDot rest := by
  intro r e; subst e; simp [typeEnd] at h

theorem typeEnd_noLB {rest : List Tok} (h : typeEnd rest = true) : headPunct 0x5B rest = false := by
  cases rest with
  | nil => rfl
  | cons t r =>
    cases t <;> simp [typeEnd, headPunct] at h ⊢
    subst h; decide

theorem typeEnd_noLT {rest : List Tok} (h : typeEnd rest = true) : headPunct 0x3C rest = false := by
  cases rest with
  | nil => rfl
  | cons t r =>
    cases t <;> simp [typeEnd, headPunct] at h ⊢
    subst h; decide

/-! ## `arr_list` -/

theorem pArr_stop (rest : List Tok) (h : headPunct 0x5B rest = false) : pArr rest = (0, rest) := by
  unfold pArr
  split
  · rename_i a b r
    simp only [headPunct, beq_eq_false_iff_ne, ne_eq] at h
    have : (a == 0x5B) = false := by simp [h]
    simp [this]
  · rfl

theorem pArr_toksArr : ∀ (n : Nat) (rest : List Tok), headPunct 0x5B rest = false →
    pArr (toksArr n ++ rest) = (n, rest)
  | 0, rest, h => by simpa [toksArr] using pArr_stop rest h
  | n + 1, rest, h => by
    have ih := pArr_toksArr n rest h
    simp only [toksArr, List.cons_append]
    rw [pArr]
    simp [ih]

theorem headPunct_toksArr (c : UInt8) (n : Nat) (rest : List Tok) (hc : c ≠ 0x5B)
    (h : headPunct c rest = false) : headPunct c (toksArr n ++ rest) = false := by
  cases n with
  | zero => simpa [toksArr] using h
  | succ n =>
    simp only [toksArr, List.cons_append, headPunct, beq_eq_false_iff_ne, ne_eq]
    exact fun e => hc e.symm

theorem noDot_toksArr (n : Nat) (rest : List Tok) (h : NoDot rest) : NoDot (toksArr n ++ rest) := by
  cases n with
  | zero => simpa [toksArr] using h
  | succ n => intro r e; simp [toksArr] at e

/-! ## base names -/

theorem isBuiltin_cases {w : Bytes} (h : isBuiltin w = true) :
    w = sInt ∨ w = sString ∨ w = sPath ∨ w = sFloat ∨ w = sBool ∨ w = sMap := by
  simp only [isBuiltin, isNonMapBuiltin, Bool.or_eq_true, beq_iff_eq] at h
  rcases h with ((((h | h) | h) | h) | h) | h <;> simp [h]

theorem isIdent_not_builtin {w : Bytes} (h : isIdent w = true) : isBuiltin w = false := by
  cases hb : isBuiltin w with
  | false => rfl
  | true =>
    have hf : isIdent sInt = false ∧ isIdent sString = false ∧ isIdent sPath = false ∧
        isIdent sFloat = false ∧ isIdent sBool = false ∧ isIdent sMap = false := by decide
    rcases isBuiltin_cases hb with e | e | e | e | e | e <;> subst e <;> simp [hf] at h

theorem isNonMapBuiltin_isBuiltin {w : Bytes} (h : isNonMapBuiltin w = true) : isBuiltin w = true := by
  simp [isBuiltin, h]

theorem isNonMapBuiltin_ne_map {w : Bytes} (h : isNonMapBuiltin w = true) : w ≠ sMap := by
  intro e; subst e; revert h; decide

/-- the base name of a typed map's argument, or of a plain type other than `map` -/
def wfBase (n : List Bytes) : Bool :=
  match n with
  | [] => false
  | [w] => isNonMapBuiltin w || isIdent w
  | c :: r => (c :: r).all isIdent

theorem pBase_toks (n : List Bytes) (f : Nat) (rest : List Tok) (hw : wfBase n = true)
    (hf : n.length ≤ f) (hr : NoDot rest) : pBase f (toksBase n ++ rest) = some (n, rest) := by
  match n, hw, hf with
  | [w], hw, hf =>
    simp only [wfBase, Bool.or_eq_true] at hw
    by_cases hb : isNonMapBuiltin w = true
    · simp [toksBase, isNonMapBuiltin_isBuiltin hb, toksDots, pBase, hb]
    · have hi : isIdent w = true := by
        rcases hw with h | h
        · exact absurd h hb
        · exact h
      have hd := pDots_toks [] f rest (by simp at hf ⊢; omega) hr
      simp only [toksDots, List.nil_append] at hd
      simp [toksBase, isIdent_not_builtin hi, toksDots, pBase, hd]
  | c :: d :: r, hw, hf =>
    have hd := pDots_toks (d :: r) f rest (by simp at hf ⊢; omega) hr
    simp only [toksBase, List.isEmpty_cons, Bool.false_and, Bool.false_eq_true, ↓reduceIte,
      List.cons_append, pBase, hd, Option.map_some]

/-! ## `type_id` -/

theorem wfType_dims {t : TypeId} (h : wfType t = true) : t.arrayDim ≤ 32767 ∧ t.mapDim ≤ 32767 := by
  simp only [wfType, Bool.and_eq_true, decide_eq_true_eq] at h
  exact ⟨h.1.2, h.2⟩

theorem wfType_map {t : TypeId} (h : wfType t = true) (hm : 0 < t.mapDim) : wfBase t.tname = true := by
  simp only [wfType, Bool.and_eq_true] at h
  have h1 := h.1.1
  have hm' : (t.mapDim == 0) = false := by simp; omega
  match hn : t.tname with
  | [] => rw [hn] at h1; simp at h1
  | [w] => rw [hn] at h1; simpa [wfBase, hm'] using h1
  | c :: d :: r => rw [hn] at h1; simpa [wfBase] using h1

theorem pPlain_toks (n : List Bytes) (k : Nat) (rest : List Tok) (hk : k ≤ 32767)
    (hr : headPunct 0x5B rest = false) :
    pPlain n (toksArr k ++ rest) = some (⟨n, k, 0⟩, rest) := by
  simp [pPlain, pArr_toksArr k rest hr, hk]

theorem pType_toks (t : TypeId) (f : Nat) (rest : List Tok) (hw : wfType t = true)
    (hf : t.tname.length ≤ f) (hr : typeEnd rest = true) :
    pType f (toksType t ++ rest) = some (t, rest) := by
  obtain ⟨n, ad, md⟩ := t
  have hd := wfType_dims hw
  simp only at hd hf
  by_cases hm : 0 < md
  · -- map<T[]…>[]…
    have hb := wfType_map hw hm
    simp only at hb
    have h1 : pBase f (toksBase n ++ (toksArr (md - 1) ++ tGT :: (toksArr ad ++ rest))) =
        some (n, toksArr (md - 1) ++ tGT :: (toksArr ad ++ rest)) :=
      pBase_toks n f _ hb hf (noDot_toksArr _ _ (by intro r e; cases e))
    have h2 : pArr (toksArr (md - 1) ++ tGT :: (toksArr ad ++ rest)) =
        (md - 1, tGT :: (toksArr ad ++ rest)) := pArr_toksArr _ _ rfl
    have h3 : pArr (toksArr ad ++ rest) = (ad, rest) := pArr_toksArr _ _ (typeEnd_noLB hr)
    have e : toksType ⟨n, ad, md⟩ ++ rest = .reserved sMap :: tLT ::
        (toksBase n ++ (toksArr (md - 1) ++ tGT :: (toksArr ad ++ rest))) := by
      simp [toksType, hm]
    rw [e]
    have hmd : md - 1 + 1 = md := by omega
    have hle : md - 1 ≤ 32766 := by omega
    simp [pType, headPunct, pMapArg, h1, h2, h3, hmd, hle, hd.1]
  · have hm0 : md = 0 := by omega
    subst hm0
    have e : toksType ⟨n, ad, 0⟩ ++ rest = toksBase n ++ (toksArr ad ++ rest) := by
      simp [toksType]
    rw [e]
    have hp := pPlain_toks n ad rest hd.1 (typeEnd_noLB hr)
    simp only [wfType, Bool.and_eq_true] at hw
    have h1 := hw.1.1
    match n, h1, hf with
    | [w], h1, hf =>
      simp only [beq_self_eq_true, Bool.and_true, Bool.or_eq_true, beq_iff_eq] at h1
      by_cases hmap : w = sMap
      · subst hmap
        have hlt : headPunct 0x3C (toksArr ad ++ rest) = false :=
          headPunct_toksArr _ _ _ (by decide) (typeEnd_noLT hr)
        have hbm : isBuiltin sMap = true := by decide
        simp [toksBase, hbm, toksDots, pType, hlt, hp]
      · by_cases hb : isNonMapBuiltin w = true
        · simp [toksBase, isNonMapBuiltin_isBuiltin hb, toksDots, pType, hmap, hb, hp]
        · have hi : isIdent w = true := by
            rcases h1 with (h | h) | h
            · exact absurd h hb
            · exact absurd h hmap
            · exact h
          have hdots := pDots_toks [] f (toksArr ad ++ rest) (by simp at hf ⊢; omega)
            (noDot_toksArr _ _ (typeEnd_noDot hr))
          simp only [toksDots, List.nil_append] at hdots
          simp [toksBase, isIdent_not_builtin hi, toksDots, pType, hdots, hp]
    | c :: d :: r, h1, hf =>
      have hdots := pDots_toks (d :: r) f (toksArr ad ++ rest) (by simp at hf ⊢; omega)
        (noDot_toksArr _ _ (typeEnd_noDot hr))
      simp only [toksBase, List.isEmpty_cons, Bool.false_and, Bool.false_eq_true, ↓reduceIte,
        List.cons_append, pType, hdots, hp]

/-- the first token of a type name is a keyword or an identifier -/
theorem toksType_head (t : TypeId) (hw : wfType t = true) (rest : List Tok) :
    ∃ k r, toksType t ++ rest = k :: r ∧ ((∃ w, k = .reserved w) ∨ ∃ w, k = .id w) := by
  obtain ⟨n, ad, md⟩ := t
  by_cases hm : 0 < md
  · exact ⟨_, _, by simp [toksType, hm]; exact ⟨rfl, rfl⟩, Or.inl ⟨_, rfl⟩⟩
  · simp only [wfType, Bool.and_eq_true] at hw
    have h1 := hw.1.1
    match n, h1 with
    | c :: r, _ =>
      refine ⟨_, _, by simp [toksType, hm, toksBase]; exact ⟨rfl, rfl⟩, ?_⟩
      split
      · exact Or.inl ⟨_, rfl⟩
      · exact Or.inr ⟨_, rfl⟩

theorem toksType_length (t : TypeId) : t.tname.length ≤ (toksType t).length := by
  obtain ⟨n, ad, md⟩ := t
  have hb : n.length ≤ (toksBase n).length := by
    cases n with
    | nil => simp
    | cons c r => simp [toksBase, toksDots_length]; omega
  simp only [toksType]
  split <;> simp <;> omega

/-! ## help and out name -/

theorem toksTail_head (h o : Bytes) (rest : List Tok) :
    ∃ k r, toksTail h o ++ rest = k :: r ∧ ∀ x, k ≠ .id x := by
  unfold toksTail
  by_cases h1 : h = [] ∧ o = []
  · obtain ⟨rfl, rfl⟩ := h1
    exact ⟨tComma, rest, by simp, fun x e => by cases e⟩
  · exact ⟨.str (quoteString h), _, by simp [h1]; rfl, fun x e => by cases e⟩

theorem typeEnd_toksTail (h o : Bytes) (rest : List Tok) : typeEnd (toksTail h o ++ rest) = true := by
  unfold toksTail
  by_cases h1 : h = [] ∧ o = []
  · obtain ⟨rfl, rfl⟩ := h1; simp [typeEnd]
  · simp [h1, typeEnd]

theorem pTail_toks (h o : Bytes) (rest : List Tok) (hh : Martian.ShellQuote.validUtf8 h = true)
    (ho : Martian.ShellQuote.validUtf8 o = true) :
    pTail (toksTail h o ++ rest) = some (h, o, rest) := by
  have uh := Martian.Format.unquote_quoteString h hh
  have uo := Martian.Format.unquote_quoteString o ho
  unfold toksTail
  by_cases h2 : o = []
  · subst h2
    by_cases h1 : h = []
    · subst h1; simp [pTail]
    · simp [h1, pTail, uh]
  · simp [h2, pTail, uh, uo]

theorem pInTail_toks (h : Bytes) (rest : List Tok) (hh : Martian.ShellQuote.validUtf8 h = true) :
    pInTail (toksTail h [] ++ rest) = some (h, rest) := by
  have uh := Martian.Format.unquote_quoteString h hh
  unfold toksTail
  by_cases h1 : h = []
  · subst h1; simp [pInTail]
  · simp [h1, pInTail, uh]

/-! ## struct fields -/

theorem pMember_toks (m : Member) (f : Nat) (rest : List Tok) (hw : wfMember m = true)
    (hf : (toksMember m).length ≤ f) :
    pMember f (toksMember m ++ rest) = some (m, rest) := by
  obtain ⟨t, i, h, o⟩ := m
  simp only [wfMember, Bool.and_eq_true] at hw
  obtain ⟨⟨⟨ht, _⟩, hh⟩, ho⟩ := hw
  have hlen : t.tname.length ≤ f := by
    have := toksType_length t
    simp only [toksMember, List.length_append] at hf
    omega
  have h1 := pType_toks t f (.id i :: (toksTail h o ++ rest)) ht hlen rfl
  have h2 := pTail_toks h o rest hh ho
  have e : toksMember ⟨t, i, h, o⟩ ++ rest = toksType t ++ .id i :: (toksTail h o ++ rest) := by
    simp [toksMember]
  rw [e]
  simp [pMember, h1, h2]

theorem headPunct_toksMember (c : UInt8) (m : Member) (rest : List Tok) (hw : wfMember m = true) :
    headPunct c (toksMember m ++ rest) = false := by
  simp only [wfMember, Bool.and_eq_true] at hw
  obtain ⟨k, r, e, hk⟩ := toksType_head m.type hw.1.1.1 (.id m.id :: (toksTail m.help m.outName ++ rest))
  have e' : toksMember m ++ rest = k :: r := by rw [← e]; simp [toksMember]
  rw [e']
  rcases hk with ⟨w, rfl⟩ | ⟨w, rfl⟩ <;> rfl

theorem toksMember_length_pos (m : Member) : 1 ≤ (toksMember m).length := by
  simp [toksMember]; omega

theorem pMembers_toks : ∀ (ms : List Member) (f : Nat) (rest : List Tok), ms ≠ [] →
    ms.all wfMember = true → (toksMembers ms).length < f →
    pMembers f (toksMembers ms ++ tRParen :: rest) = some (ms, tRParen :: rest)
  | [], _, _, hne, _, _ => absurd rfl hne
  | m :: ms, f, rest, _, hw, hf => by
    obtain ⟨f, rfl⟩ : ∃ g, f = g + 1 := ⟨f - 1, by omega⟩
    simp only [List.all_cons, Bool.and_eq_true] at hw
    simp only [toksMembers, List.length_append] at hf
    have h1 := pMember_toks m f (toksMembers ms ++ tRParen :: rest) hw.1 (by omega)
    have e : toksMembers (m :: ms) ++ tRParen :: rest =
        toksMember m ++ (toksMembers ms ++ tRParen :: rest) := by simp [toksMembers]
    rw [e, pMembers, h1]
    cases ms with
    | nil => simp [toksMembers, headPunct]
    | cons m' ms' =>
      simp only [List.all_cons, Bool.and_eq_true] at hw
      have hp : headPunct 0x29 (toksMembers (m' :: ms') ++ tRParen :: rest) = false := by
        have := headPunct_toksMember 0x29 m' (toksMembers ms' ++ tRParen :: rest) hw.2.1
        simpa [toksMembers] using this
      have ih := pMembers_toks (m' :: ms') f rest (by simp)
        (by simp [hw.2.1, hw.2.2]) (by have := toksMember_length_pos m; omega)
      simp [hp, ih]

/-! ## parameters -/

theorem isIdent_ne_default {w : Bytes} (h : isIdent w = true) : w ≠ sDefault := by
  intro e; subst e; revert h; decide

theorem isIdent_ne_nil' {w : Bytes} (h : isIdent w = true) : w ≠ [] := by
  intro e; subst e; revert h; decide

theorem shownId_of_ident (p : Param) (h : isIdent p.id = true) : shownId p = p.id := by
  simp [shownId, isIdent_ne_default h]

theorem shownId_ne_nil (p : Param) (h : isIdent p.id = true) : shownId p ≠ [] := by
  rw [shownId_of_ident p h]; exact isIdent_ne_nil' h

theorem toksParam_length (p : Param) : p.type.tname.length + 2 ≤ (toksParam p).length := by
  have := toksType_length p.type
  simp only [toksParam, toksTail, List.length_cons, List.length_append]
  omega

theorem pInParam_toks (p : Param) (f : Nat) (rest : List Tok) (hw : wfParam p = true)
    (hin : p.out = false) (hf : (toksParam p).length ≤ f) :
    pInParam f (toksParam p ++ rest) = some (p, rest) := by
  obtain ⟨⟨t, i, h, o⟩, out⟩ := p
  simp only at hin
  subst hin
  simp only [wfParam, Bool.and_eq_true, Bool.or_eq_true, Bool.false_eq_true, false_and, or_false,
    false_or, beq_iff_eq] at hw
  obtain ⟨⟨⟨⟨ht, hi⟩, hh⟩, _⟩, ho⟩ := hw
  subst ho
  have hlen : t.tname.length ≤ f := by
    have := toksParam_length ⟨⟨t, i, h, []⟩, false⟩
    simp only at this; omega
  have hs := shownId_ne_nil ⟨⟨t, i, h, []⟩, false⟩ hi
  have h1 := pType_toks t f (.id i :: (toksTail h [] ++ rest)) ht hlen rfl
  have h2 := pInTail_toks h rest hh
  have e : toksParam ⟨⟨t, i, h, []⟩, false⟩ ++ rest =
      .reserved sIn :: (toksType t ++ .id i :: (toksTail h [] ++ rest)) := by
    simp [toksParam, hs, mode, getOutName]
  rw [e]
  simp [pInParam, h1, h2]

theorem pOutParam_toks (p : Param) (f : Nat) (rest : List Tok) (hw : wfParam p = true)
    (hout : p.out = true) (hf : (toksParam p).length ≤ f) :
    pOutParam f (toksParam p ++ rest) = some (p, rest) := by
  obtain ⟨⟨t, i, h, o⟩, out⟩ := p
  simp only at hout
  subst hout
  simp only [wfParam, Bool.and_eq_true, Bool.or_eq_true, Bool.true_or, and_true, true_and,
    beq_iff_eq] at hw
  obtain ⟨⟨⟨ht, hi⟩, hh⟩, ho⟩ := hw
  have hlen : t.tname.length ≤ f := by
    have := toksParam_length ⟨⟨t, i, h, o⟩, true⟩
    simp only at this; omega
  have h2 := pTail_toks h o rest hh ho
  by_cases hd : i = sDefault
  · subst hd
    have h1 := pType_toks t f (toksTail h o ++ rest) ht hlen (typeEnd_toksTail h o rest)
    have e : toksParam ⟨⟨t, sDefault, h, o⟩, true⟩ ++ rest =
        .reserved sOut :: (toksType t ++ (toksTail h o ++ rest)) := by
      simp [toksParam, shownId, mode, getOutName]
    rw [e]
    obtain ⟨k, r, ek, hk⟩ := toksTail_head h o rest
    rw [ek] at h1 h2 ⊢
    cases k with
    | id x => exact absurd rfl (hk x)
    | _ => simp [pOutParam, h1, h2]
  · have hi' : isIdent i = true := by
      rcases hi with h | h
      · exact h
      · exact absurd h hd
    have hs := shownId_ne_nil ⟨⟨t, i, h, o⟩, true⟩ hi'
    have h1 := pType_toks t f (.id i :: (toksTail h o ++ rest)) ht hlen rfl
    have e : toksParam ⟨⟨t, i, h, o⟩, true⟩ ++ rest =
        .reserved sOut :: (toksType t ++ .id i :: (toksTail h o ++ rest)) := by
      simp [toksParam, hs, mode, getOutName]
    rw [e]
    simp [pOutParam, h1, h2]

theorem headKw_toksParam (w : Bytes) (p : Param) (rest : List Tok) :
    headKw w (toksParam p ++ rest) = (mode p == w) := by
  simp [toksParam, headKw]

theorem toksParam_length_pos (p : Param) : 1 ≤ (toksParam p).length := by
  simp [toksParam]

/-- **Token layer, input parameters.**  `rest` must not start with IN. -/
theorem pInParams_toks : ∀ (ps : List Param) (f : Nat) (rest : List Tok),
    ps.all wfParam = true → ps.all (fun p => !p.out) = true → (toksParams ps).length < f →
    headKw sIn rest = false → pInParams f (toksParams ps ++ rest) = some (ps, rest)
  | [], f, rest, _, _, hf, hr => by
    obtain ⟨f, rfl⟩ : ∃ g, f = g + 1 := ⟨f - 1, by omega⟩
    simp [toksParams, pInParams, hr]
  | p :: ps, f, rest, hw, hm, hf, hr => by
    obtain ⟨f, rfl⟩ : ∃ g, f = g + 1 := ⟨f - 1, by omega⟩
    simp only [List.all_cons, Bool.and_eq_true, Bool.not_eq_true'] at hw hm
    simp only [toksParams, List.length_append] at hf
    have h1 := pInParam_toks p f (toksParams ps ++ rest) hw.1 hm.1 (by omega)
    have ih := pInParams_toks ps f rest hw.2 (by simpa using hm.2)
      (by have := toksParam_length_pos p; omega) hr
    have hk : headKw sIn (toksParam p ++ (toksParams ps ++ rest)) = true := by
      rw [headKw_toksParam]; simp [mode, hm.1]
    have e : toksParams (p :: ps) ++ rest = toksParam p ++ (toksParams ps ++ rest) := by
      simp [toksParams]
    rw [e, pInParams]
    simp [hk, h1, ih]

/-- **Token layer, output parameters.**  `rest` must not start with OUT. -/
theorem pOutParams_toks : ∀ (ps : List Param) (f : Nat) (rest : List Tok),
    ps.all wfParam = true → ps.all (fun p => p.out) = true → (toksParams ps).length < f →
    headKw sOut rest = false → pOutParams f (toksParams ps ++ rest) = some (ps, rest)
  | [], f, rest, _, _, hf, hr => by
    obtain ⟨f, rfl⟩ : ∃ g, f = g + 1 := ⟨f - 1, by omega⟩
    simp [toksParams, pOutParams, hr]
  | p :: ps, f, rest, hw, hm, hf, hr => by
    obtain ⟨f, rfl⟩ : ∃ g, f = g + 1 := ⟨f - 1, by omega⟩
    simp only [List.all_cons, Bool.and_eq_true] at hw hm
    simp only [toksParams, List.length_append] at hf
    have h1 := pOutParam_toks p f (toksParams ps ++ rest) hw.1 hm.1 (by omega)
    have ih := pOutParams_toks ps f rest hw.2 hm.2
      (by have := toksParam_length_pos p; omega) hr
    have hk : headKw sOut (toksParam p ++ (toksParams ps ++ rest)) = true := by
      rw [headKw_toksParam]; simp [mode, hm.1]
    have e : toksParams (p :: ps) ++ rest = toksParam p ++ (toksParams ps ++ rest) := by
      simp [toksParams]
    rw [e, pOutParams]
    simp [hk, h1, ih]

theorem toksParams_append (a b : List Param) : toksParams (a ++ b) = toksParams a ++ toksParams b := by
  induction a with
  | nil => rfl
  | cons p a ih => simp [toksParams, ih]

/-- the head of an output block is not IN -/
theorem headKw_in_outs (ps : List Param) (rest : List Tok) (hm : ps.all (fun p => p.out) = true)
    (hr : headKw sIn rest = false) : headKw sIn (toksParams ps ++ rest) = false := by
  cases ps with
  | nil => simpa [toksParams] using hr
  | cons p ps =>
    simp only [List.all_cons, Bool.and_eq_true] at hm
    have e : toksParams (p :: ps) ++ rest = toksParam p ++ (toksParams ps ++ rest) := by
      simp [toksParams]
    rw [e, headKw_toksParam]
    simp [mode, hm.1]; decide

/-- **A parameter block** `ins ++ outs` read by `in_param_list out_param_list`. -/
theorem parseParamsToks_toks (ins outs : List Param) (hwi : ins.all wfParam = true)
    (hwo : outs.all wfParam = true) (hi : ins.all (fun p => !p.out) = true)
    (ho : outs.all (fun p => p.out) = true) :
    parseParamsToks (toksParams (ins ++ outs)) = some (ins ++ outs) := by
  unfold parseParamsToks
  rw [toksParams_append]
  have h1 := pInParams_toks ins ((toksParams ins ++ toksParams outs).length + 1) (toksParams outs)
    hwi hi (by simp only [List.length_append]; omega)
    (by simpa using headKw_in_outs outs [] ho rfl)
  have h2 := pOutParams_toks outs ((toksParams ins ++ toksParams outs).length + 1) [] hwo ho
    (by simp only [List.length_append]; omega) rfl
  rw [List.append_nil] at h2
  rw [h1]
  simp only [h2]

/-! ## declarations -/

theorem toksMembers_length_pos : ∀ ms : List Member, ms.length ≤ (toksMembers ms).length
  | [] => by simp
  | m :: ms => by
    have := toksMembers_length_pos ms
    have := toksMember_length_pos m
    simp only [toksMembers, List.length_append, List.length_cons]; omega

/-- **Token layer, `struct`.** -/
theorem parseStructToks_toks (s : Struct) (hw : wfStruct s = true) :
    parseStructToks (toksStruct s) = some s := by
  obtain ⟨i, ms⟩ := s
  simp only [wfStruct, Bool.and_eq_true, Bool.not_eq_true', List.isEmpty_eq_false_iff] at hw
  have h := pMembers_toks ms ((toksStruct ⟨i, ms⟩).length + 1) [] hw.1.2 hw.2
    (by simp [toksStruct]; omega)
  simp only [toksStruct] at h ⊢
  unfold parseStructToks
  simp only [h]
  simp

/-- **Token layer, `filetype`.** -/
theorem parseFiletypeToks_toks (t : Filetype) (hw : wfFiletype t = true) :
    parseFiletypeToks (toksFiletype t) = some t := by
  obtain ⟨n⟩ := t
  simp only [wfFiletype, Bool.and_eq_true, Bool.not_eq_true', List.isEmpty_eq_false_iff] at hw
  match n, hw with
  | c :: r, _ =>
    have h := pDots_toks r ((toksFiletype ⟨c :: r⟩).length + 1) [tSemi]
      (by simp [toksFiletype, toksDots_length]; omega) (by intro r e; cases e)
    simp only [toksFiletype] at h ⊢
    unfold parseFiletypeToks
    simp only [h]
    simp

end Martian.FormatDecl
