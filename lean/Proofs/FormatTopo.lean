import Martian.Format
import Proofs.Format

/-! The shift loop of `topoSort` sorts: under a transitive, irreflexive
dependency relation the result has every call after the calls it depends on,
within `2·length + 1` iterations. -/
namespace Martian.Format

/-! ### last dependency index without accumulator -/

def lastIdx (d : Dep) (c : Nat) : List Nat → Option Nat
  | [] => none
  | x :: r =>
    match lastIdx d c r with
    | some m => some (m + 1)
    | none => if d c x then some 0 else none

theorem lastDepIdx_eq (d : Dep) (c : Nat) : ∀ (rest : List Nat) (i : Nat) (acc : Option Nat),
    lastDepIdx d c rest i acc =
      match lastIdx d c rest with
      | some m => some (i + m)
      | none => acc := by
  intro rest
  induction rest with
  | nil => intro i acc; rfl
  | cons x r ih =>
    intro i acc
    unfold lastDepIdx lastIdx
    rw [ih]
    cases h : lastIdx d c r with
    | some m => simp; omega
    | none =>
      by_cases hx : d c x = true
      · simp [hx]
      · simp [hx]

theorem lastIdx_none (d : Dep) (c : Nat) : ∀ rest, lastIdx d c rest = none →
    (rest.all fun x => !d c x) = true := by
  intro rest
  induction rest with
  | nil => intro _; rfl
  | cons x r ih =>
    intro h
    unfold lastIdx at h
    cases hr : lastIdx d c r with
    | some m => simp [hr] at h
    | none =>
      simp only [hr] at h
      by_cases hx : d c x = true
      · simp [hx] at h
      · simp only [List.all_cons, Bool.and_eq_true, Bool.not_eq_true']
        exact ⟨by simpa using hx, ih hr⟩

theorem lastIdx_some (d : Dep) (c : Nat) : ∀ rest m, lastIdx d c rest = some m →
    ∃ B x post, rest = B ++ x :: post ∧ B.length = m ∧ d c x = true ∧
      (post.all fun y => !d c y) = true := by
  intro rest
  induction rest with
  | nil => intro m h; simp [lastIdx] at h
  | cons x r ih =>
    intro m h
    unfold lastIdx at h
    cases hr : lastIdx d c r with
    | some m' =>
      simp only [hr, Option.some.injEq] at h
      obtain ⟨B, y, post, h1, h2, h3, h4⟩ := ih m' hr
      exact ⟨x :: B, y, post, by rw [h1]; rfl, by simp [h2, h], h3, h4⟩
    | none =>
      simp only [hr] at h
      by_cases hx : d c x = true
      · simp only [hx, ↓reduceIte, Option.some.injEq] at h
        exact ⟨[], x, r, rfl, by simp [← h], hx, lastIdx_none d c r hr⟩
      · simp [hx] at h

/-! ### the loop on an explicit (done prefix, rest) pair -/

def loop2 (d : Dep) : Nat → List Nat → List Nat → List Nat
  | 0, pre, suf => pre ++ suf
  | _ + 1, pre, [] => pre
  | _ + 1, pre, [c] => pre ++ [c]
  | f + 1, pre, c :: r0 :: rs =>
    match lastIdx d c (r0 :: rs) with
    | none => loop2 d f (pre ++ [c]) (r0 :: rs)
    | some m => loop2 d f pre ((r0 :: rs).take (m + 1) ++ c :: (r0 :: rs).drop (m + 1))

theorem loop_eq_loop2 (d : Dep) : ∀ (f : Nat) (pre suf : List Nat),
    loop d f (pre ++ suf) pre.length = loop2 d f pre suf := by
  intro f
  induction f with
  | zero => intro pre suf; rfl
  | succ f ih =>
    intro pre suf
    unfold loop
    match suf with
    | [] =>
      have : ¬ (pre.length + 1 < pre.length) := by omega
      simp only [List.append_nil, this, ↓reduceIte, loop2]
    | [c] =>
      have : ¬ (pre.length + 1 < (pre ++ [c]).length) := by simp
      simp only [this, ↓reduceIte, loop2]
    | c :: r0 :: rs =>
      have hlt : pre.length + 1 < (pre ++ c :: r0 :: rs).length := by simp
      simp only [hlt, ↓reduceIte]
      have hdrop : (pre ++ c :: r0 :: rs).drop pre.length = c :: r0 :: rs := by simp
      have htake : (pre ++ c :: r0 :: rs).take pre.length = pre := by simp
      unfold step
      simp only [hdrop, htake]
      rw [lastDepIdx_eq]
      unfold loop2
      cases h : lastIdx d c (r0 :: rs) with
      | none =>
        simp only
        have := ih (pre ++ [c]) (r0 :: rs)
        simp only [List.length_append, List.length_cons, List.length_nil, List.append_assoc,
          List.cons_append, List.nil_append] at this
        exact this
      | some m =>
        simp only [Nat.zero_add]
        exact ih pre _

/-! ### potential: elements that still have a dependency after them -/

def countBad (d : Dep) : List Nat → Nat
  | [] => 0
  | c :: r => (if (r.all fun x => !d c x) then 0 else 1) + countBad d r

def prefGood (d : Dep) : List Nat → List Nat → Bool
  | [], _ => true
  | c :: p, suf => ((p ++ suf).all fun x => !d c x) && prefGood d p suf

theorem sorted_append (d : Dep) : ∀ (pre suf : List Nat),
    sortedFrom d (pre ++ suf) = (prefGood d pre suf && sortedFrom d suf) := by
  intro pre
  induction pre with
  | nil => intro suf; simp [prefGood]
  | cons c p ih => intro suf; simp [sortedFrom, prefGood, ih, Bool.and_assoc]

theorem sorted_of_countBad (d : Dep) : ∀ l, countBad d l = 0 → sortedFrom d l = true := by
  intro l
  induction l with
  | nil => intro _; rfl
  | cons c r ih =>
    intro h
    unfold countBad at h
    by_cases hc : (r.all fun x => !d c x) = true
    · simp only [hc, ↓reduceIte, Nat.zero_add] at h
      simp [sortedFrom, hc, ih h]
    · simp [hc] at h

theorem all_congr_mem {f : Nat → Bool} {a b : List Nat} (h : ∀ x, x ∈ a ↔ x ∈ b) :
    a.all f = b.all f := by
  apply Bool.eq_iff_iff.mpr
  simp only [List.all_eq_true]
  constructor
  · intro ha x hx; exact ha x ((h x).mpr hx)
  · intro hb x hx; exact hb x ((h x).mp hx)

theorem prefGood_congr (d : Dep) : ∀ (pre : List Nat) (s1 s2 : List Nat),
    (∀ x, x ∈ s1 ↔ x ∈ s2) → prefGood d pre s1 = prefGood d pre s2 := by
  intro pre
  induction pre with
  | nil => intro _ _ _; rfl
  | cons c p ih =>
    intro s1 s2 h
    unfold prefGood
    rw [ih s1 s2 h]
    congr 1
    apply all_congr_mem
    intro x; simp only [List.mem_append]; rw [h x]

theorem prefGood_snoc (d : Dep) (c : Nat) : ∀ (pre rest : List Nat),
    prefGood d pre (c :: rest) = true → (rest.all fun x => !d c x) = true →
    prefGood d (pre ++ [c]) rest = true := by
  intro pre
  induction pre with
  | nil => intro rest _ hc; simp [prefGood, hc]
  | cons a p ih =>
    intro rest h hc
    simp only [prefGood, Bool.and_eq_true] at h
    simp only [List.cons_append, prefGood, Bool.and_eq_true]
    refine ⟨?_, ih rest h.2 hc⟩
    have : (p ++ [c] ++ rest) = p ++ c :: rest := by simp
    rw [this]; exact h.1

/-- moving `c` from in front of `B ++ x :: post` to just after `x` (its last
dependency) does not make any other element bad, and makes `c` good -/
theorem countBad_move (d : Dep) (L : List Nat) (c x : Nat) (post : List Nat)
    (htr : ∀ a b e, a ∈ L → b ∈ L → e ∈ L → d a b = true → d b e = true → d a e = true)
    (hirr : ∀ a, a ∈ L → d a a = false)
    (hc : c ∈ L) (hx : x ∈ L) (hdx : d c x = true)
    (hpost : (post.all fun y => !d c y) = true) :
    ∀ (B : List Nat), (∀ y ∈ B, y ∈ L) →
      countBad d (B ++ x :: c :: post) ≤ countBad d (B ++ x :: post) := by
  intro B
  induction B with
  | nil =>
    intro _
    simp only [List.nil_append, countBad, hpost, ↓reduceIte, Nat.zero_add]
    have hxc : d x c = false := by
      cases h : d x c with
      | false => rfl
      | true => have := htr c x c hc hx hc hdx h; rw [hirr c hc] at this; cases this
    by_cases hp : (post.all fun y => !d x y) = true
    · simp [List.all_cons, hxc, hp]
    · simp only [hp, Bool.false_eq_true, ↓reduceIte]
      split <;> omega
  | cons y B ih =>
    intro hB
    have hy : y ∈ L := hB y (by simp)
    have ih' := ih (fun z hz => hB z (by simp [hz]))
    simp only [List.cons_append, countBad]
    have hmono : (if ((B ++ x :: c :: post).all fun z => !d y z) = true then 0 else 1) ≤
        (if ((B ++ x :: post).all fun z => !d y z) = true then 0 else 1) := by
      by_cases hg : ((B ++ x :: post).all fun z => !d y z) = true
      · -- y was good: it does not depend on x, hence not on c
        have hyx : d y x = false := by
          simp only [List.all_append, List.all_cons, Bool.and_eq_true, Bool.not_eq_true'] at hg
          exact hg.2.1
        have hyc : d y c = false := by
          cases h : d y c with
          | false => rfl
          | true => have := htr y c x hy hc hx h hdx; rw [hyx] at this; cases this
        have : ((B ++ x :: c :: post).all fun z => !d y z) = true := by
          simp only [List.all_append, List.all_cons, Bool.and_eq_true, Bool.not_eq_true'] at hg ⊢
          exact ⟨hg.1, hg.2.1, hyc, hg.2.2⟩
        simp [hg, this]
      · simp only [hg, Bool.false_eq_true, ↓reduceIte]
        split <;> omega
    omega

theorem take_succ_app (B : List Nat) (x : Nat) (post : List Nat) :
    (B ++ x :: post).take (B.length + 1) = B ++ [x] := by
  induction B with
  | nil => simp
  | cons b B ih => simp [ih]

theorem drop_succ_app (B : List Nat) (x : Nat) (post : List Nat) :
    (B ++ x :: post).drop (B.length + 1) = post := by
  induction B with
  | nil => simp
  | cons b B ih => simpa using ih

/-- the loop reaches a dependency order -/
theorem loop2_sorted (d : Dep) (L : List Nat)
    (htr : ∀ a b e, a ∈ L → b ∈ L → e ∈ L → d a b = true → d b e = true → d a e = true)
    (hirr : ∀ a, a ∈ L → d a a = false) :
    ∀ (f : Nat) (pre suf : List Nat), (∀ x ∈ suf, x ∈ L) →
      prefGood d pre suf = true → suf.length + countBad d suf < f →
      sortedFrom d (loop2 d f pre suf) = true := by
  intro f
  induction f with
  | zero => intro pre suf _ _ h; omega
  | succ f ih =>
    intro pre suf hmem hpg hfuel
    match suf, hmem, hpg, hfuel with
    | [], _, hpg, _ =>
      simp only [loop2]
      have := sorted_append d pre []
      simp only [List.append_nil] at this
      rw [this, hpg]; rfl
    | [c], _, hpg, _ =>
      simp only [loop2]
      rw [sorted_append, hpg]; rfl
    | c :: r0 :: rs, hmem, hpg, hfuel =>
      simp only [loop2]
      cases h : lastIdx d c (r0 :: rs) with
      | none =>
        simp only
        have hgood := lastIdx_none d c _ h
        apply ih
        · intro x hx; exact hmem x (by simp at hx ⊢; right; exact hx)
        · exact prefGood_snoc d c pre _ hpg hgood
        · have : countBad d (c :: r0 :: rs) = countBad d (r0 :: rs) := by
            conv => lhs; unfold countBad
            simp [hgood]
          rw [this] at hfuel
          simp only [List.length_cons] at hfuel ⊢
          omega
      | some m =>
        simp only
        obtain ⟨B, x, post, hrest, hlen, hdx, hpost⟩ := lastIdx_some d c _ m h
        have htk : (r0 :: rs).take (m + 1) = B ++ [x] := by
          rw [hrest, ← hlen]; exact take_succ_app B x post
        have hdr : (r0 :: rs).drop (m + 1) = post := by
          rw [hrest, ← hlen]; exact drop_succ_app B x post
        rw [htk, hdr]
        have hsuf : (B ++ [x] ++ c :: post) = B ++ x :: c :: post := by simp
        rw [hsuf]
        have hcL : c ∈ L := hmem c (by simp)
        have hxL : x ∈ L := hmem x (by rw [hrest]; simp)
        have hBL : ∀ y ∈ B, y ∈ L := fun y hy => hmem y (by rw [hrest]; simp [hy])
        apply ih
        · intro z hz
          apply hmem z
          rw [hrest]
          simp only [List.mem_append, List.mem_cons] at hz ⊢
          rcases hz with hz | rfl | rfl | hz
          · right; left; exact hz
          · right; right; left; rfl
          · left; rfl
          · right; right; right; exact hz
        · rw [prefGood_congr d pre _ (c :: r0 :: rs)]
          · exact hpg
          · intro z
            rw [hrest]
            simp only [List.mem_append, List.mem_cons]
            constructor
            · rintro (hz | rfl | rfl | hz)
              · right; left; exact hz
              · right; right; left; rfl
              · left; rfl
              · right; right; right; exact hz
            · rintro (rfl | hz | rfl | hz)
              · right; right; left; rfl
              · left; exact hz
              · right; left; rfl
              · right; right; right; exact hz
        · have hmove := countBad_move d L c x post htr hirr hcL hxL hdx hpost B hBL
          have hbad : countBad d (c :: r0 :: rs) = 1 + countBad d (B ++ x :: post) := by
            rw [hrest]
            conv => lhs; unfold countBad
            have : ((B ++ x :: post).all fun y => !d c y) = false := by
              apply Bool.eq_false_iff.mpr
              intro hall
              simp only [List.all_append, List.all_cons, Bool.and_eq_true, Bool.not_eq_true'] at hall
              rw [hdx] at hall; exact absurd hall.2.1 (by simp)
            simp [this]
          rw [hbad] at hfuel
          have hl : (B ++ x :: c :: post).length = (c :: r0 :: rs).length := by
            rw [hrest]; simp; omega
          rw [hl]
          omega

end Martian.Format

namespace Martian.Format

theorem countBad_le (d : Dep) : ∀ l, countBad d l ≤ l.length := by
  intro l
  induction l with
  | nil => simp [countBad]
  | cons c r ih =>
    unfold countBad
    simp only [List.length_cons]
    split <;> omega

/-- Under a relation that is transitive and irreflexive on the calls, the shift
loop started at index 0 with fuel `> 2·length` ends in dependency order. -/
theorem loop_sorted_of_closed (d : Dep) (l : List Nat) (f : Nat)
    (htr : transOn l d = true) (hirr : irreflOn l d = true) (hf : 2 * l.length < f) :
    sortedFrom d (loop d f l 0) = true := by
  have h := loop_eq_loop2 d f [] l
  simp only [List.nil_append, List.length_nil] at h
  rw [h]
  apply loop2_sorted d l
  · intro a b e ha hb he hab hbe
    unfold transOn at htr
    simp only [List.all_eq_true] at htr
    have := htr a ha b hb e he
    simp only [hab, hbe, Bool.and_self, Bool.not_true, Bool.false_or] at this
    exact this
  · intro a ha
    unfold irreflOn at hirr
    simp only [List.all_eq_true] at hirr
    simpa using hirr a ha
  · intro x hx; exact hx
  · rfl
  · have := countBad_le d l; omega

theorem hasCycle_false_irrefl (n : Nat) (d : Dep) (h : hasCycle n d = false) :
    irreflOn (List.range n) d = true := by
  unfold hasCycle at h
  unfold irreflOn
  simp only [List.all_eq_true]
  intro a ha
  have : ¬ (List.range n).any (fun a => d a a) = true := by simp [h]
  simp only [List.any_eq_true, not_exists, not_and] at this
  simpa using this a ha

theorem topoSort_sorted (n : Nat) (edges : List (Nat × Nat))
    (hcyc : hasCycle n (closedDeps n edges) = false)
    (htr : transOn (List.range n) (closedDeps n edges) = true) :
    sortedFrom (closedDeps n edges) (topoSort n edges) = true := by
  unfold topoSort
  have hc : hasCycle n (ofTable (closedTable n edges)) = false := hcyc
  simp only [hc, Bool.false_eq_true, ↓reduceIte]
  apply loop_sorted_of_closed _ _ _ htr (hasCycle_false_irrefl n _ hcyc)
  simp only [List.length_range]
  have := Nat.le_mul_self n
  omega

end Martian.Format

namespace Martian.Format

theorem ofTable_tabulate (n : Nat) (f : Dep) (a b : Nat) (ha : a < n) (hb : b < n) :
    ofTable (tabulate n f) a b = f a b := by
  simp [ofTable, tabulate, List.getD_eq_getElem?_getD, ha, hb]

/-- the closure rounds only add dependencies -/
theorem closeTab_mono (n : Nat) : ∀ (k : Nat) (t : List (List Bool)) (a b : Nat), a < n → b < n →
    ofTable t a b = true → ofTable (closeTab n k t) a b = true := by
  intro k
  induction k with
  | zero => intro t a b _ _ h; exact h
  | succ k ih =>
    intro t a b ha hb h
    unfold closeTab
    apply ih _ a b ha hb
    rw [ofTable_tabulate n _ a b ha hb]
    simp [closeOnce, h]

end Martian.Format

namespace Martian.Format

theorem sorted_no_later_dep (d : Dep) (l A B : List Nat) (a b : Nat)
    (hs : sortedFrom d l = true) (hl : l = A ++ a :: B) (hd : d a b = true) : b ∉ B := by
  subst hl
  rw [sorted_append] at hs
  simp only [Bool.and_eq_true, sortedFrom] at hs
  intro hb
  have := hs.2.1
  simp only [List.all_eq_true] at this
  have := this b hb
  rw [hd] at this
  cases this

end Martian.Format
