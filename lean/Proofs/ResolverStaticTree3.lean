/-
C01 — mapped pipelines and nested map calls of static size, part 3: the induction over the call
graph and the refinement theorem `twoPhaseT_eq_den_F`.
-/
import Proofs.ResolverStaticTree2

namespace Proofs.ResolverStatic
open Martian.Dataflow Martian.Resolver Martian.ResolverForks Martian.ResolverStatic Proofs.Dataflow
  Proofs.ResolverForks

section callsC
variable (st : StructTable) (hst : StructsOk st) (F : Nat) (hF : NarrowFix st F) (ρ : Store) (hρ : StoreExt ρ)
include hst hF hρ

theorem refine_callsC (P : Program) (nm : List String → String) (O : Oracle) (run : Runner)
    (node : String → List String → RBMap → RB × List STree) (path : List String)
    (forks : List (String × Idx)) (dims : List (String × List Idx)) (self : RBMap) (sT : String → Ty)
    (hal : dims.map (·.1) = forks.map (·.1))
    (hrun : ∀ callee path forks' dims' args cins, dims'.map (·.1) = forks'.map (·.1) →
      ArgsRelC st F ρ forks' (P.insOf callee) args cins → (∃ f, Agree forks' f) →
      (∀ n ∈ flattenTList dims' (node callee path cins).2, StoreAtNode nm O ρ n) →
      treeOkList (forks'.map (·.1)) (node callee path cins).2 = true →
      GoodC st F ρ forks' callee (run callee path forks' args) (node callee path cins)) :
    ∀ (cs : List Call) (env : Env) (sib : RBMap) (acc : List Inst) (sacc : List STree),
      EnvRel st F ρ (Agree forks) env self sib → env.selfTy = sT → CallsOkT st P sT (typesOf env) cs →
      (∀ f, Agree forks f → acc = instsTList st F ρ forks f sacc) → (∃ f0, Agree forks f0) →
      (∀ n ∈ flattenTList dims (staticCallsT st P.insOf node path self cs sib []).2, StoreAtNode nm O ρ n) →
      treeOkList (forks.map (·.1)) (staticCallsT st P.insOf node path self cs sib []).2 = true →
      EnvRel st F ρ (Agree forks) (evalCalls st F P.insOf run path forks cs env acc).1 self
          (staticCallsT st P.insOf node path self cs sib sacc).1 ∧
      (evalCalls st F P.insOf run path forks cs env acc).1.selfTys = env.selfTys ∧
      typesOf (evalCalls st F P.insOf run path forks cs env acc).1 = typesOf env ++ callTypesM cs ∧
      (∀ f, Agree forks f → (evalCalls st F P.insOf run path forks cs env acc).2
        = instsTList st F ρ forks f (staticCallsT st P.insOf node path self cs sib sacc).2) := by
  intro cs
  induction cs with
  | nil =>
    intro env sib acc sacc hrel _ _ hacc _ _ _
    simp only [evalCalls, staticCallsT, callTypesM, List.map_nil, List.append_nil]
    exact ⟨hrel, trivial, trivial, hacc⟩
  | cons c cs ih =>
    intro env sib acc sacc hrel hsT hok hacc hex0 hstore htree
    obtain ⟨f0, hf0⟩ := hex0
    simp only [CallsOkT] at hok
    obtain ⟨hc, hcs⟩ := hok
    cases hc with
    | inl hplain =>
      obtain ⟨hc, hns⟩ := hplain
      have hc' : CallOk st P.insOf env.selfTy env.callTy c := by
        rw [hsT, callTy_typesOf]; exact hc
      have hargs := args_stepC st hst F hF ρ P.insOf forks env self sib hrel c hc' hns f0 hf0
      have hm : c.mapped = false := hc.1
      generalize hr : node c.callee (path ++ [c.id]) (resolveBindsT st self sib (P.insOf c.callee) c) = r
        at hargs
      have hsplitL : (staticCallsT st P.insOf node path self (c :: cs) sib []).2
          = r.2 ++ (staticCallsT st P.insOf node path self cs (sib ++ [(c.id, r.1)]) []).2 := by
        simp only [staticCallsT, hm, Bool.false_eq_true, if_false, hr, hc.2.1]
        rw [staticCallsT_acc]
        simp
      rw [hsplitL, flattenTList_append] at hstore
      rw [hsplitL, treeOkList_append, Bool.and_eq_true] at htree
      have hgood := hrun c.callee (path ++ [c.id]) forks dims _ _ hal hargs ⟨f0, hf0⟩
        (by rw [hr]; exact fun n hn => hstore n (by simp [hn])) (by rw [hr]; exact htree.1)
      rw [hr] at hgood
      obtain ⟨g1, g2, g3⟩ := hgood
      simp only [evalCalls, staticCallsT, hm, Bool.false_eq_true, if_false, hr, hc.2.1]
      rw [evalCall_plain st F P.insOf run path forks env c hc.1 hc.2.1]
      simp only
      have hrel' := envRel_stepC st F ρ (Agree forks) env self sib hrel c.id ⟨c.callee, 0, 0⟩ _ _ g1 g2
      have hty : callTyM c = ⟨c.callee, 0, 0⟩ := by simp [callTyM, hm]
      have := ih _ _ (acc ++ (run c.callee (path ++ [c.id]) forks
          (mkArgs st F (argVals st env (P.insOf c.callee) c) none)).2) (sacc ++ r.2)
        hrel' hsT (by rw [← hty]; simpa [typesOf] using hcs)
        (fun f hf => by rw [hacc f hf, g3 f hf, instsTList_append]) ⟨f0, hf0⟩
        (fun n hn => hstore n (by simp [hn])) htree.2
      obtain ⟨r1, r2, r3, r4⟩ := this
      refine ⟨r1, r2, ?_, r4⟩
      rw [r3]
      simp [typesOf, callTypesM, hty]
    | inr hmapped =>
      have hmapped' : MappedOkT st P env.selfTy env.callTy c := by
        rw [hsT, callTy_typesOf]; exact hmapped
      have hm : c.mapped = true := hmapped'.1
      have hd : c.disabled = none := hmapped'.2.1
      have hex := hmapped'.2.2.1
      have hrt := runtime_not_treeOk st P.insOf node path self c cs sib _ hm htree
      generalize hr : node c.callee (path ++ [c.id]) (resolveBindsT st self sib (P.insOf c.callee) c) = r
      generalize hci : callIndicesT st self sib (P.insOf c.callee) c = ci at *
      have hsplitL : (staticCallsT st P.insOf node path self (c :: cs) sib []).2
          = [STree.sub c.id (ci.getD (false, [])).1 (ci.getD (false, [])).2
              (ci.isSome && !(ci.getD (false, [])).2.isEmpty &&
                splitsStaticT st self sib (P.insOf c.callee) c (ci.getD (false, [])) && c.disabled.isNone &&
                noMergeOf c.id r.1.exp) r.2] ++
            (staticCallsT st P.insOf node path self cs
              (sib ++ [(c.id, unrolledOutputsT c (ci.getD (false, [])) r.1.exp)]) []).2 := by
        simp only [staticCallsT, hm, if_true, hr, hci, hrt, Bool.false_eq_true, if_false]
        rw [staticCallsT_acc]
        simp
      rw [hsplitL, flattenTList_append] at hstore
      rw [hsplitL, treeOkList_append, Bool.and_eq_true] at htree
      obtain ⟨htree1, htree2⟩ := htree
      simp only [treeOkList, treeOk, Bool.and_true, Bool.and_eq_true, Bool.not_eq_true'] at htree1
      obtain ⟨⟨⟨⟨⟨⟨hsome, hnonempty⟩, hss⟩, _⟩, hnmg⟩, habove⟩, htreeR⟩ := htree1
      obtain ⟨hix1, hfacts⟩ := mapped_factsT st hst F hF ρ P (Agree forks) env self sib hrel f0 hf0 c hmapped'
        (ci.getD (false, [])) hss
      generalize hixs : (ci.getD (false, [])).2 = ixs at *
      have hne : ixs ≠ [] := by
        intro e; rw [e] at hnonempty; simp at hnonempty
      have hixsP : ci.getD (false, []) = (false, ixs) := Prod.ext hix1 hixs
      have hallI : ∀ ix ∈ ixs, ∃ k, ix = Idx.i k := by
        obtain ⟨b0, hb0, hs0⟩ := hex
        obtain ⟨p0, hp0, hfb0⟩ := hmapped'.2.2.2.1 b0 hb0 hs0
        obtain ⟨es, _, hi⟩ := hfacts p0 hp0 b0 hfb0 hs0
        intro ix hix
        rw [hi] at hix
        simp only [List.mem_map] at hix
        obtain ⟨k, _, rfl⟩ := hix
        exact ⟨k, rfl⟩
      have hidx := splitVals_indicesT st hst F hF ρ P (Agree forks) env self sib hrel f0 hf0 c hmapped' ixs hfacts
      have hmode := callMode_T st P env self sib c hmapped' ixs hfacts
      -- the children
      have hchild : ∀ ix ∈ ixs, GoodC st F ρ (forks ++ [(c.id, ix)]) c.callee
          (run c.callee (path ++ [c.id]) (forks ++ [(c.id, ix)])
            (mkArgs st F (argVals st env (P.insOf c.callee) c) (some ix))) r := by
        intro ix hix
        obtain ⟨k, rfl⟩ := hallI ix hix
        have ha := args_mappedC st hst F hF ρ P forks env self sib hrel c hmapped' ixs hfacts k f0 hf0
        have := hrun c.callee (path ++ [c.id]) (forks ++ [(c.id, .i k)]) (dims ++ [(c.id, ixs)]) _ _
          (by simp [hal]) ha ⟨fset f0 c.id (.i k), hf0.fset c.id (.i k) habove⟩
          (by
            rw [hr]
            intro n hn
            apply hstore n
            simp only [flattenTList, flattenT, List.append_nil, List.mem_append, hix1]
            exact Or.inl hn)
          (by rw [hr]; simpa using htreeR)
        rw [hr] at this
        exact this
      obtain ⟨ix0, hix0⟩ : ∃ ix0, ix0 ∈ ixs := by
        cases ixs with
        | nil => exact absurd rfl hne
        | cons a l => exact ⟨a, by simp⟩
      simp only [evalCalls, staticCallsT, hm, if_true, hr, hci, hixsP, hrt, Bool.false_eq_true, if_false]
      rw [evalCall_mappedC st F P.insOf run path forks env c .arr ixs hm hd hex hidx hne hmode]
      simp only
      have hout : unrolledOutputsT c (false, ixs) r.1.exp
          = ⟨.arr (ixs.map fun ix => pushFork c.id ix r.1.exp), ⟨c.callee, 0, 1⟩⟩ := by
        simp [unrolledOutputsT]
      rw [hout]
      have hv : ∀ f, Agree forks f → collect Mode.arr ixs (ixs.map fun ix =>
            (run c.callee (path ++ [c.id]) (forks ++ [(c.id, ix)])
              (mkArgs st F (argVals st env (P.insOf c.callee) c) (some ix))).1)
          = evalRT st F ρ f ⟨c.callee, 0, 1⟩ (.arr (ixs.map fun ix => pushFork c.id ix r.1.exp)) := by
        intro f hf
        simp only [collect, evalRT, Nat.add_sub_cancel, evalRTList_map, J.arr.injEq]
        apply List.map_congr_left
        intro ix hix
        obtain ⟨k, rfl⟩ := hallI ix hix
        rw [(pushFork_evalRT st hst F ρ hρ c.id k r.1.exp _ f (hchild _ hix).2.1 hnmg).1]
        exact (hchild _ hix).1 _ (hf.fset c.id (.i k) habove)
      have htyR : HasTyR st ⟨c.callee, 0, 1⟩ (.arr (ixs.map fun ix => pushFork c.id ix r.1.exp)) := by
        simp only [HasTyR]
        refine ⟨by simp, HasTyRList_map st _ _ _ ?_⟩
        intro ix hix
        obtain ⟨k, rfl⟩ := hallI ix hix
        exact (pushFork_evalRT st hst F ρ hρ c.id k r.1.exp _ [] (hchild _ hix).2.1 hnmg).2
      have hrel' := envRel_stepC st F ρ (Agree forks) env self sib hrel c.id ⟨c.callee, 0, 1⟩ _
        ⟨.arr (ixs.map fun ix => pushFork c.id ix r.1.exp), ⟨c.callee, 0, 1⟩⟩ hv htyR
      have hty : callTyM c = ⟨c.callee, 0, 1⟩ := by simp [callTyM, hm]
      have hinst : ∀ f, Agree forks f → (ixs.flatMap fun ix =>
            (run c.callee (path ++ [c.id]) (forks ++ [(c.id, ix)])
              (mkArgs st F (argVals st env (P.insOf c.callee) c) (some ix))).2)
          = instsTList st F ρ forks f [STree.sub c.id false ixs
              (ci.isSome && !ixs.isEmpty && splitsStaticT st self sib (P.insOf c.callee) c (false, ixs) && c.disabled.isNone && noMergeOf c.id r.1.exp) r.2] := by
        intro f hf
        simp only [instsTList, instsT, List.append_nil]
        apply flatMap_congr_mem
        intro ix hix
        exact (hchild ix hix).2.2 _ (hf.fset c.id ix habove)
      simp only [liftTy]
      have := ih _ _ (acc ++ (ixs.flatMap fun ix =>
            (run c.callee (path ++ [c.id]) (forks ++ [(c.id, ix)])
              (mkArgs st F (argVals st env (P.insOf c.callee) c) (some ix))).2))
        (sacc ++ [STree.sub c.id false ixs
              (ci.isSome && !ixs.isEmpty && splitsStaticT st self sib (P.insOf c.callee) c (false, ixs) && c.disabled.isNone && noMergeOf c.id r.1.exp) r.2])
        hrel' hsT (by rw [← hty]; simpa [typesOf] using hcs)
        (fun f hf => by rw [hacc f hf, hinst f hf, instsTList_append]) ⟨f0, hf0⟩
        (fun n hn => hstore n (by rw [hixsP, hout]; simp [hn]))
        (by rw [hixsP, hout] at htree2; exact htree2)
      obtain ⟨r1, r2, r3, r4⟩ := this
      refine ⟨r1, r2, ?_, r4⟩
      rw [r3]
      simp [typesOf, callTypesM, hty]

end callsC

/-! ## the call graph -/

section graphC
variable (P : Program) (hw : WellTypedT P) (F : Nat) (hF : NarrowFix P.table F)
  (nm : List String → String) (O : Oracle) (ρ : Store) (hρ : StoreExt ρ)
include hw hF hρ

theorem refine_callableC :
    ∀ (fuel : Nat) (callee : String) (path : List String) (forks : List (String × Idx))
      (dims : List (String × List Idx)) (args : J) (cins : RBMap),
      dims.map (·.1) = forks.map (·.1) →
      ArgsRelC P.table F ρ forks (P.insOf callee) args cins → (∃ f, Agree forks f) →
      (∀ n ∈ flattenTList dims (staticCallableT P nm fuel callee path cins).2, StoreAtNode nm O ρ n) →
      treeOkList (forks.map (·.1)) (staticCallableT P nm fuel callee path cins).2 = true →
      GoodC P.table F ρ forks callee (runCallable P O F fuel callee path forks args)
        (staticCallableT P nm fuel callee path cins) := by
  intro fuel
  induction fuel with
  | zero =>
    intro callee path forks dims args cins _ _ _ _ _
    simp only [runCallable, staticCallableT, GoodC, evalRT, instsTList]
    exact ⟨fun _ _ => trivial, HasTyR_null _ _, fun _ _ => trivial⟩
  | succ fuel ih =>
    intro callee path forks dims args cins hal hargs hex hstore htree
    simp only [runCallable, staticCallableT] at hstore htree ⊢
    cases hl : P.callables.lookup callee with
    | none =>
      simp only [GoodC, evalRT, instsTList]
      exact ⟨fun _ _ => trivial, HasTyR_null _ _, fun _ _ => trivial⟩
    | some cb =>
      cases cb with
      | stage sins souts =>
        simp only [hl] at hstore
        have hs := hstore { path := path, callee := callee, inputs := cins, forks := dims }
          (by simp [flattenTList, flattenT])
        refine ⟨?_, ?_, ?_⟩
        · intro f hf
          simp only [evalRT, projPath]
          have := hs f
          simp only [key_of_agree f dims forks hal hf] at this
          rw [this]
        · simp only [HasTyR, pathTy]
          exact Sub.refl _
        · intro f hf
          obtain ⟨g, hc, ha, _⟩ := hargs
          simp only [instsTList, instsT, List.append_nil, runtimeArgs, hc, ha f hf, List.map_map,
            List.cons.injEq, and_true]
          rfl
      | pipeline pins outs calls ret =>
        simp only [hl] at hstore htree
        have hins : P.insOf callee = pins := by simp [Program.insOf, hl, Callable.ins]
        rw [hins] at hargs
        obtain ⟨hcalls, hret⟩ := hw.pipelines callee pins outs calls ret hl
        have htab := hw.outsOf callee _ hl
        simp only [Callable.outs] at htab
        have hn := hw.structs _ _ htab
        have hinit := envRel_initC P.table F ρ forks pins args cins hargs
        obtain ⟨f0, hf0⟩ := hex
        have hcs := refine_callsC P.table hw.structs F hF ρ hρ P nm O (runCallable P O F fuel)
          (staticCallableT P nm fuel) path forks dims cins (selfTyOf pins) hal ih
          calls ⟨pins, args, []⟩ [] [] [] hinit rfl (by simpa [typesOf] using hcalls)
          (fun _ _ => by simp [instsTList]) ⟨f0, hf0⟩ hstore htree
        obtain ⟨hrel, hself, htypes, hinst⟩ := hcs
        simp only
        generalize evalCalls P.table F P.insOf (runCallable P O F fuel) path forks calls ⟨pins, args, []⟩ [] = R
          at hrel hself htypes hinst
        generalize staticCallsT P.table P.insOf (staticCallableT P nm fuel) path cins calls [] [] = S
          at hrel hinst
        have hsT : R.1.selfTy = selfTyOf pins := by rw [selfTy_eq, hself]
        have hcT : R.1.callTy = callTyOf (callTypesM calls) := by
          rw [callTy_typesOf, htypes]; simp [typesOf]
        have key : ∀ p ∈ outs,
            (∀ f, Agree forks f → narrow P.table F p.ty (match ret.lookup p.name with
              | some e => eval P.table R.1 e
              | none => .null)
              = evalRT P.table F ρ f p.ty (match ret.lookup p.name with
                | some e => filterT P.table p.ty (resolveRefs cins S.1 e)
                | none => .lit .null)) ∧
            HasTyR P.table p.ty (match ret.lookup p.name with
                | some e => filterT P.table p.ty (resolveRefs cins S.1 e)
                | none => .lit .null) := by
          intro p hp
          cases he : ret.lookup p.name with
          | none => exact ⟨fun f _ => by simp [narrow_null hF, evalRT], HasTyR_null _ _⟩
          | some e =>
            have hty := hret p hp e he
            rw [← hsT, ← hcT] at hty
            exact ⟨fun f hf => (eval_resolveExpT P.table hw.structs F hF ρ _ R.1 cins S.1 hrel f hf e p.ty hty).1,
              (eval_resolveExpT P.table hw.structs F hF ρ _ R.1 cins S.1 hrel f0 hf0 e p.ty hty).2⟩
        have c2 : ((0 : Nat) == 0 && (0 : Nat) != 0) = false := by decide
        refine ⟨?_, ?_, hinst⟩
        · intro f hf
          simp only [evalRT, c2, Bool.false_eq_true, if_false, htab, J.obj.injEq]
          apply List.map_congr_left
          intro p hp
          simp only [Prod.mk.injEq, true_and]
          rw [lookup_evalRTMembers, lookup_map_find, find_name_of_nodup outs hn p hp,
            memberTy_find outs p.name p (find_name_of_nodup outs hn p hp)]
          exact (key p hp).1 f hf
        · simp only [HasTyR]
          refine ⟨trivial, trivial, outs, htab, ?_, ?_⟩
          · apply HasTyRMembers_of_mem
            intro k e hke _
            simp only [List.mem_map, Prod.mk.injEq] at hke
            obtain ⟨p, hp, hk, he⟩ := hke
            subst hk; subst he
            rw [memberTy_find outs p.name p (find_name_of_nodup outs hn p hp)]
            exact (key p hp).2
          · intro p hp
            rw [lookup_map_find, find_name_of_nodup outs hn p hp]
            rfl

/-- THE REFINEMENT with mapped pipelines and nested map calls of statically known size (array mode) -/
theorem twoPhaseT_eq_den_F
    (hstore : ∀ n ∈ flattenTList [] (staticProgramT P nm).2, StoreAtNode nm O ρ n)
    (hok : treeOkList [] (staticProgramT P nm).2 = true) :
    runCallable P O F P.fuel P.top.callee [P.top.id] []
        (mkArgs P.table F (argVals P.table ⟨[], .null, []⟩ (P.insOf P.top.callee) P.top) none)
      = ((evalRT P.table F ρ [] ⟨P.top.callee, 0, 0⟩ (staticProgramT P nm).1.exp),
         instsTList P.table F ρ [] [] (staticProgramT P nm).2) := by
  have henv : EnvRel P.table F ρ (Agree []) ⟨[], .null, []⟩ [] [] := by
    refine ⟨?_, ?_, ?_⟩
    · intro p; simp [Env.selfTy, σexp, HasTyR_null, evalRT, J.field]
    · intro c; simp [Env.callTy, Env.callVal, σexp, HasTyR_null, evalRT]
    · intro c; rfl
  have htop : CallOk P.table P.insOf (Env.selfTy ⟨[], .null, []⟩) (Env.callTy ⟨[], .null, []⟩) P.top := by
    rw [selfTy_eq, callTy_typesOf]
    exact hw.top.1
  have hargs := args_stepC P.table hw.structs F hF ρ P.insOf [] ⟨[], .null, []⟩ [] [] henv P.top htop hw.top.2
    [] (Agree.nil [])
  have := refine_callableC P hw F hF nm O ρ hρ P.fuel P.top.callee [P.top.id] [] [] _ _ rfl hargs
    ⟨[], Agree.nil []⟩ hstore hok
  obtain ⟨g1, _, g3⟩ := this
  exact Prod.ext (g1 [] (Agree.nil [])) (g3 [] (Agree.nil []))

end graphC

/-- the store built from the oracle and the nodes reads fork assignments through lookups only -/
theorem storeOfNodes_ext (nm : List String → String) (nodes : List SNode) (O : Oracle) :
    StoreExt (storeOfNodes nm nodes O) := by
  intro node f g h
  refine ⟨?_, fun _ => rfl⟩
  simp only [storeOfNodes]
  cases nodes.find? (fun n => nm n.path == node) with
  | none => rfl
  | some n =>
    simp only
    congr 3
    apply List.map_congr_left
    intro d _
    rw [h d.1]

end Proofs.ResolverStatic
