/-
ERROR-CLASS AGREEMENT of the byte-level filters with the tree-level model (audit pass 2, C17-M1): on a
document none of whose objects has a duplicated key, `filterA` and `TypesR.filter` return the same
error class (ok / soft / fatal).  With a shadowed duplicate under a typed map they can differ: the
tree-level model filters every list member, the code (and `filterA`) only the members of the
decoded Go map (`tmap_shadowed_member`).
Core Lean only.
-/
import Proofs.JsonBytesAgree
namespace Martian.JsonBytes
open Martian.Json (J Num getKey)
open Martian.Lexer (Bytes)
open Martian.Types (Ty Fields Base FErr canFilter worstF)

theorem worstF_eq (l : List FErr) :
    worstF l = if FErr.fatal ∈ l then .fatal else if FErr.soft ∈ l then .soft else .ok := by
  induction l with
  | nil => simp [worstF]
  | cons a r ih =>
    have : worstF (a :: r) = a.max (worstF r) := rfl
    rw [this, ih]
    cases a <;> by_cases h1 : FErr.fatal ∈ r <;> by_cases h2 : FErr.soft ∈ r <;> simp [FErr.max, h1, h2]

theorem worstF_congr_mem {l1 l2 : List FErr} (h : ∀ e, e ∈ l1 ↔ e ∈ l2) : worstF l1 = worstF l2 := by
  simp only [worstF_eq, h]

theorem getKeyG_of_mem_nodup {α : Type} {k : Bytes} {v : α} : ∀ {l : List (Bytes × α)},
    (l.map Prod.fst).Nodup → (k, v) ∈ l → getKeyG k l = some v
  | [], _, h => by simp at h
  | (k', v') :: r, hn, h => by
    simp only [List.map_cons, List.nodup_cons] at hn
    simp only [List.mem_cons, Prod.mk.injEq] at h
    simp only [getKeyG]
    rcases h with ⟨rfl, rfl⟩ | h
    · have : getKeyG k r = none := getKeyG_none_iff.mpr hn.1
      simp [this]
    · rw [getKeyG_of_mem_nodup hn.2 h]

theorem noDupKvs_mem : ∀ {kvs : List (Bytes × A)} {kv : Bytes × A}, noDupKvs kvs = true → kv ∈ kvs → noDupA kv.2 = true
  | [], _, _, h => by simp at h
  | (k, v) :: r, kv, hn, h => by
    simp only [noDupKvs, Bool.and_eq_true] at hn
    simp only [List.mem_cons] at h
    rcases h with rfl | h
    · exact hn.1
    · exact noDupKvs_mem hn.2 h

theorem noDupAs_mem : ∀ {xs : List A} {x : A}, noDupAs xs = true → x ∈ xs → noDupA x = true
  | [], _, _, h => by simp at h
  | y :: r, x, hn, h => by
    simp only [noDupAs, Bool.and_eq_true] at hn
    simp only [List.mem_cons] at h
    rcases h with rfl | h
    · exact hn.1
    · exact noDupAs_mem hn.2 h

theorem filterBaseA_err (b : Base) (a : A) : (filterBaseA b a).err = (Martian.TypesR.filterBase b a.toJ).2 := by
  unfold filterBaseA
  split
  · rename_i i heq; rw [heq]
  · rename_i heq; rw [heq]

/-- the member loops agree on the error class (lookups are last-wins on both sides) -/
theorem filterFieldsA_err (kvs : List (Bytes × A)) :
    ∀ (fs : Fields), (∀ k t v, (k, t) ∈ fs.toList → getKeyG k kvs = some v → canFilter t = true →
        (filterA t v).err = (Martian.TypesR.filter t v.toJ).2) →
      (filterFieldsA fs (dedupLastG kvs)).2.2 = (Martian.TypesR.filterFields fs (toJKvs kvs)).2
  | .nil, _ => by simp [filterFieldsA, Martian.TypesR.filterFields]
  | .cons k t r, h => by
    have ih := filterFieldsA_err kvs r (fun k' t' v hm => h k' t' v (by simp [Fields.toList, hm]))
    simp only [filterFieldsA, Martian.TypesR.filterFields, getKeyG_dedupLastG, getKey_toJKvs]
    cases hg : getKeyG k kvs with
    | none => simp
    | some v =>
      by_cases hc : canFilter t = true
      · simp [hc, ih, h k t v (by simp [Fields.toList]) hg hc]
      · have hc' : canFilter t = false := by simpa using hc
        simp [hc', ih]

/-- ERROR-CLASS AGREEMENT on duplicate-free documents -/
theorem filterA_err_agrees (t : Ty) : t.wf = true → ∀ a, noDupA a = true →
    (filterA t a).err = (Martian.TypesR.filter t a.toJ).2 := by
  induction t using Martian.Types.Ty.induct' with
  | base b => intro _ a _; simp only [filterA, Martian.TypesR.filter]; exact filterBaseA_err b a
  | user n =>
    intro _ a _
    simp only [filterA, Martian.TypesR.filter]
    split <;> simp_all
  | arr t ih =>
    intro hwf a hn
    simp only [Ty.wf] at hwf
    by_cases hcf : canFilter t = true
    · cases a with
      | arr raw xs =>
        simp only [filterA, A.isNull, hcf, Bool.not_true, Bool.or_self, Bool.false_eq_true, ↓reduceIte,
          Martian.TypesR.filter, A.toJ, toJs_eq_map, List.map_map]
        have hxs : noDupAs xs = true := by simpa [noDupA] using hn
        have hl : List.map ((fun x => x.err) ∘ fun x => filterA t x) xs
            = List.map ((fun x => (Martian.TypesR.filter t x).2) ∘ A.toJ) xs :=
          List.map_congr_left (fun x hx => ih hwf x (noDupAs_mem hxs hx))
        by_cases he : xs.isEmpty = true
        · have : xs = [] := by simpa using he
          subst this; simp [worstF]
        · simp only [he, Bool.false_eq_true, ↓reduceIte]
          split <;> simp only [hl]
      | lit raw j =>
        cases j with
        | null => simp [filterA, A.isNull, A.toJ, Martian.TypesR.filter, hcf]
        | arr xs => simp [noDupA] at hn
        | obj kvs => simp [noDupA] at hn
        | _ => simp [filterA, A.isNull, A.toJ, Martian.TypesR.filter, hcf]
      | obj raw kvs => simp [filterA, A.isNull, A.toJ, Martian.TypesR.filter, hcf]
    · have hcf' : canFilter t = false := by simpa using hcf
      simp [filterA, hcf', Martian.TypesR.filter]
  | tmap t ih =>
    intro hwf a hn
    simp only [Ty.wf] at hwf
    by_cases hcf : canFilter t = true
    · cases a with
      | obj raw kvs =>
        simp only [noDupA, Bool.and_eq_true, decide_eq_true_eq] at hn
        obtain ⟨hnd, hkv⟩ := hn
        simp only [filterA, A.isNull, hcf, Bool.not_true, Bool.or_self, Bool.false_eq_true, ↓reduceIte,
          Martian.TypesR.filter, A.toJ, toJKvs_eq_map, List.map_map]
        -- both error lists have the same members
        have hmem : ∀ e, e ∈ List.map ((fun x : Bytes × FRes => x.2.err) ∘ fun kv : Bytes × A => (kv.1, filterA t kv.2))
              (sortByKey (dedupLastG kvs)) ↔
            e ∈ List.map ((fun kv => (Martian.TypesR.filter t kv.2).2) ∘ fun kv : Bytes × A => (kv.1, kv.2.toJ)) kvs := by
          intro e
          simp only [List.mem_map, Function.comp]
          constructor
          · rintro ⟨kv, hm, rfl⟩
            have hm' := mem_dedupLastG (mem_sortByKey hm)
            exact ⟨kv, hm', (ih hwf kv.2 (noDupKvs_mem hkv hm')).symm⟩
          · rintro ⟨kv, hm, rfl⟩
            have hg : getKeyG kv.1 kvs = some kv.2 := getKeyG_of_mem_nodup hnd hm
            rw [← getKeyG_sorted_dedup kv.1 kvs] at hg
            exact ⟨kv, getKeyG_mem hg, ih hwf kv.2 (noDupKvs_mem hkv hm)⟩
        by_cases he : (sortByKey (dedupLastG kvs)).isEmpty = true
        · have hm : sortByKey (dedupLastG kvs) = [] := by simpa using he
          have hk : kvs = [] := by
            cases kvs with
            | nil => rfl
            | cons kv r =>
              have hg : getKeyG kv.1 (kv :: r) = some kv.2 := getKeyG_of_mem_nodup hnd (by simp)
              rw [← getKeyG_sorted_dedup, hm] at hg
              cases hg
          subst hk; simp [he, worstF]
        · simp only [he, Bool.false_eq_true, ↓reduceIte]
          split <;> exact worstF_congr_mem hmem
      | lit raw j =>
        cases j with
        | null => simp [filterA, A.isNull, A.toJ, Martian.TypesR.filter, hcf]
        | arr xs => simp [noDupA] at hn
        | obj kvs => simp [noDupA] at hn
        | _ => simp [filterA, A.isNull, A.toJ, Martian.TypesR.filter, hcf]
      | arr raw xs => simp [filterA, A.isNull, A.toJ, Martian.TypesR.filter, hcf]
    · have hcf' : canFilter t = false := by simpa using hcf
      simp [filterA, hcf', Martian.TypesR.filter]
  | struct n fs ih =>
    intro hwf a hn
    simp only [Ty.wf] at hwf
    obtain ⟨_, hwfm⟩ := Martian.Types.Fields.wf_iff.mp hwf
    cases a with
    | obj raw kvs =>
      simp only [noDupA, Bool.and_eq_true, decide_eq_true_eq] at hn
      have herr := filterFieldsA_err kvs fs (fun k t v hkt hg _ =>
        ih k t hkt (hwfm k t hkt) v (noDupKvs_mem hn.2 (getKeyG_mem hg)))
      simp only [filterA, A.isNull, Bool.false_eq_true, ↓reduceIte, Martian.TypesR.filter, A.toJ]
      split <;> exact herr
    | lit raw j =>
      cases j with
      | null => simp [filterA, A.isNull, A.toJ, Martian.TypesR.filter]
      | arr xs => simp [noDupA] at hn
      | obj kvs => simp [noDupA] at hn
      | _ => simp [filterA, A.isNull, A.toJ, Martian.TypesR.filter]
    | arr raw xs => simp [filterA, A.isNull, A.toJ, Martian.TypesR.filter]

end Martian.JsonBytes
