/-
C01 — the two-phase resolver on ONE expression:

* `HasTyR st t r`: the resolved expression `r` may be bound where `t` is expected;
* `evalRT_filterR`  (L0): the static struct narrowing of literals is invisible to
  the type-directed run-time evaluation;
* `narrow_evalRT`   (L1): narrowing the run-time value at `t` to an assignable `t'`
  is the run-time value at `t'`;
* `proj1_evalRT`    (P):  static projection (`bpR`) commutes with the run-time
  evaluation, with the types moved along (`projTy1`);
* `eval_resolveRefs` (E): for a source expression typed in an environment whose
  entries are related (`EnvRel`), narrowing den's value = evaluating the
  statically resolved expression at run time.
-/
import Martian.ResolverStatic
import Proofs.ResolverStaticNarrow
import Proofs.ResolverForks

namespace Proofs.ResolverStatic
open Martian.Dataflow Martian.Resolver Martian.ResolverForks Martian.ResolverStatic Proofs.Dataflow

/-! ## typing of resolved expressions (plain fragment: no split / merge / disabled) -/

def Scalar (st : StructTable) (t : Ty) : Prop := t.arrDim = 0 ∧ t.mapDim = 0 ∧ st.lookup t.base = none

def LitOk (st : StructTable) (t : Ty) (j : J) : Prop := j = .null ∨ ((∃ s, j = .atom s) ∧ Scalar st t)

mutual
def HasTyR (st : StructTable) : Ty → RExp → Prop
  | t, .lit j => LitOk st t j
  | t, .arr xs => t.arrDim ≠ 0 ∧ HasTyRList st { t with arrDim := t.arrDim - 1 } xs
  | t, .map kvs => t.arrDim = 0 ∧ t.mapDim ≠ 0 ∧ HasTyRFields st ⟨t.base, 0, t.mapDim - 1⟩ kvs
  | t, .struct kvs => t.arrDim = 0 ∧ t.mapDim = 0 ∧
      ∃ ps, st.lookup t.base = some ps ∧ HasTyRMembers st ps kvs ∧ ∀ p ∈ ps, (kvs.lookup p.name).isSome
  | t, .ref _ sty path => Sub st (pathTy st sty path) t
  -- the element of the current fork of an ARRAY-mode map call (a split input that reached an
  -- environment: the callee is a mapped pipeline); typed-map mode: not covered
  | t, .split _ false e => HasTyR st { t with arrDim := t.arrDim + 1 } e
  | _, .split _ true _ => False
  -- the collection of the per-fork values of an ARRAY-mode map call of run-time size, whose value does
  -- not contain the call's own split (the cancelling shape of `mkMerge`); typed-map mode: not covered
  | t, .merge c false e => t.arrDim ≠ 0 ∧ noSplitOf c e = true ∧ HasTyR st { t with arrDim := t.arrDim - 1 } e
  | _, .merge _ true _ => False
  | t, .disabled d v => HasTyR st ⟨"bool", 0, 0⟩ d ∧ HasTyR st t v
  | t, .fork _ _ e => HasTyR st t e
def HasTyRList (st : StructTable) : Ty → List RExp → Prop
  | _, [] => True
  | t, e :: es => HasTyR st t e ∧ HasTyRList st t es
def HasTyRFields (st : StructTable) : Ty → List (String × RExp) → Prop
  | _, [] => True
  | t, (_, e) :: es => HasTyR st t e ∧ HasTyRFields st t es
def HasTyRMembers (st : StructTable) : List Param → List (String × RExp) → Prop
  | _, [] => True
  | ps, (k, e) :: es =>
    ((ps.find? fun p => p.name == k).isSome → HasTyR st (memberTy ps k) e) ∧ HasTyRMembers st ps es
end

theorem memberTy_find (ps : List Param) (k : String) (p : Param)
    (h : ps.find? (fun q => q.name == k) = some p) : memberTy ps k = p.ty := by
  simp [memberTy, h]

theorem HasTyRMembers_lookup (st : StructTable) (ps : List Param) :
    ∀ (kvs : List (String × RExp)) (k : String) (e : RExp) (p : Param), HasTyRMembers st ps kvs →
      kvs.lookup k = some e → ps.find? (fun q => q.name == k) = some p → HasTyR st p.ty e
  | [], _, _, _, _, h, _ => by simp at h
  | (k', e') :: es, k, e, p, hm, hl, hf => by
    simp only [HasTyRMembers] at hm
    simp only [List.lookup_cons] at hl
    cases hk : (k == k') with
    | true =>
      simp only [hk, Option.some.injEq] at hl
      have : k = k' := by simpa using hk
      subst this; subst hl
      have := hm.1 (by simp [hf])
      rwa [memberTy_find ps k p hf] at this
    | false =>
      simp only [hk] at hl
      exact HasTyRMembers_lookup st ps es k e p hm.2 hl hf

theorem HasTyRMembers_of_mem (st : StructTable) (ps : List Param) :
    ∀ (kvs : List (String × RExp)),
      (∀ k e, (k, e) ∈ kvs → (ps.find? fun p => p.name == k).isSome → HasTyR st (memberTy ps k) e) →
      HasTyRMembers st ps kvs
  | [], _ => by simp [HasTyRMembers]
  | (k, e) :: es, h => by
    simp only [HasTyRMembers]
    exact ⟨h k e (by simp), HasTyRMembers_of_mem st ps es fun k' e' hm => h k' e' (by simp [hm])⟩

theorem HasTyRMembers_mem (st : StructTable) (ps : List Param) :
    ∀ (kvs : List (String × RExp)), HasTyRMembers st ps kvs →
      ∀ k e, (k, e) ∈ kvs → (ps.find? fun p => p.name == k).isSome → HasTyR st (memberTy ps k) e
  | [], _, _, _, h, _ => by simp at h
  | (k', e') :: es, hm, k, e, h, hs => by
    simp only [HasTyRMembers] at hm
    simp only [List.mem_cons, Prod.mk.injEq] at h
    cases h with
    | inl h => obtain ⟨rfl, rfl⟩ := h; exact hm.1 hs
    | inr h => exact HasTyRMembers_mem st ps es hm.2 k e h hs

/-! ## association lists produced by the member-wise traversals -/

section lookups
variable (st : StructTable) (nf : Nat) (ρ : Store) (f : ForkAssign)

theorem lookup_evalRTMembers (ps : List Param) :
    ∀ (kvs : List (String × RExp)) (k : String),
      (evalRTMembers st nf ρ f ps kvs).lookup k = (kvs.lookup k).map (evalRT st nf ρ f (memberTy ps k))
  | [], _ => by simp [evalRTMembers]
  | (k', e) :: es, k => by
    simp only [evalRTMembers, List.lookup_cons]
    cases hk : (k == k') with
    | true =>
      have : k = k' := by simpa using hk
      subst this
      simp
    | false => simpa using lookup_evalRTMembers ps es k

theorem lookup_filterRMembers (ps : List Param) :
    ∀ (kvs : List (String × RExp)) (k : String),
      (filterRMembers st ps kvs).lookup k = (kvs.lookup k).map (filterR st (memberTy ps k))
  | [], _ => by simp [filterRMembers]
  | (k', e) :: es, k => by
    simp only [filterRMembers, List.lookup_cons]
    cases hk : (k == k') with
    | true =>
      have : k = k' := by simpa using hk
      subst this
      simp
    | false => simpa using lookup_filterRMembers ps es k

theorem lookup_resolveRefsFields (self sib : RBMap) :
    ∀ (kvs : List (String × Exp)) (k : String),
      (resolveRefsFields self sib kvs).lookup k = (kvs.lookup k).map (resolveRefs self sib)
  | [], _ => by simp [resolveRefsFields]
  | (k', e) :: es, k => by
    simp only [resolveRefsFields, List.lookup_cons]
    cases hk : (k == k') <;> simp [lookup_resolveRefsFields self sib es k]

end lookups

theorem find_name_eq (ps : List Param) (k : String) (p : Param)
    (h : ps.find? (fun q => q.name == k) = some p) : p.name = k ∧ p ∈ ps := by
  refine ⟨?_, List.mem_of_find?_eq_some h⟩
  have := List.find?_some h
  simpa using this

/-- lookup in the list the static struct filter builds (declared members, in
declaration order, those that are present) -/
theorem lookup_filterMap_members {α : Type} (ps : List Param) (hn : (ps.map (·.name)).Nodup)
    (g : Param → Option α) (p : Param) (hp : p ∈ ps) :
    (ps.filterMap fun q => (g q).map fun e => (q.name, e)).lookup p.name = g p := by
  induction ps with
  | nil => cases hp
  | cons q qs ih =>
    simp only [List.map_cons, List.nodup_cons] at hn
    cases hp with
    | head =>
      simp only [List.filterMap_cons]
      cases hg : g p with
      | none =>
        simp only [Option.map_none]
        -- no later entry carries p's name
        have : ∀ (l : List Param), (∀ r ∈ l, r.name ≠ p.name) →
            (l.filterMap fun q => (g q).map fun e => (q.name, e)).lookup p.name = none := by
          intro l hl
          induction l with
          | nil => rfl
          | cons r rs ihr =>
            simp only [List.filterMap_cons]
            have hr := hl r (by simp)
            cases g r with
            | none => simpa using ihr fun x hx => hl x (by simp [hx])
            | some e =>
              simp only [Option.map_some, List.lookup_cons]
              have : (p.name == r.name) = false := by simpa using fun e' => hr e'.symm
              rw [this]
              exact ihr fun x hx => hl x (by simp [hx])
        apply this
        intro r hr e
        apply hn.1
        rw [← e]
        exact List.mem_map_of_mem hr
      | some e => simp
    | tail _ hp' =>
      have hne : p.name ≠ q.name := by
        intro e
        apply hn.1
        rw [← e]
        exact List.mem_map_of_mem hp'
      simp only [List.filterMap_cons]
      cases g q with
      | none => simpa using ih hn.2 hp'
      | some e =>
        simp only [Option.map_some, List.lookup_cons]
        have : (p.name == q.name) = false := by simpa using hne
        rw [this]
        exact ih hn.2 hp'

theorem mem_filterMap_members {α : Type} (ps : List Param) (g : Param → Option α) (k : String) (e : α)
    (h : (k, e) ∈ ps.filterMap fun q => (g q).map fun e => (q.name, e)) :
    ∃ p ∈ ps, p.name = k ∧ g p = some e := by
  simp only [List.mem_filterMap, Option.map_eq_some_iff, Prod.mk.injEq] at h
  obtain ⟨p, hp, a, ha, hk, he⟩ := h
  exact ⟨p, hp, hk, by rw [ha, he]⟩

/-! ## L0: the static filter is invisible to the typed run-time evaluation -/

section L0
variable (st : StructTable) (hst : StructsOk st) (nf : Nat) (ρ : Store) (f : ForkAssign)
include hst

mutual
theorem evalRT_filterR :
    ∀ (r : RExp) (t : Ty), HasTyR st t r →
      evalRT st nf ρ f t (filterR st t r) = evalRT st nf ρ f t r ∧ HasTyR st t (filterR st t r)
  | .lit j, t, h => by
    have e : filterR st t (.lit j) = .lit j := by simp [filterR]
    rw [e]; exact ⟨rfl, h⟩
  | .ref n sty path, t, h => by
    have e : filterR st t (.ref n sty path) = .ref n sty path := by simp [filterR]
    rw [e]; exact ⟨rfl, h⟩
  | .arr xs, t, h => by
    simp only [HasTyR] at h
    simp only [filterR]
    split
    · have := evalRT_filterRList xs _ h.2
      simp only [evalRT, HasTyR, this.1]
      exact ⟨trivial, h.1, this.2⟩
    · exact ⟨rfl, by simp only [HasTyR]; exact h⟩
  | .map kvs, t, h => by
    simp only [HasTyR] at h
    obtain ⟨ha, hm, hk⟩ := h
    have c1 : (t.arrDim == 0 && t.mapDim == 0) = false := by simp [ha, hm]
    simp only [filterR, c1, Bool.false_eq_true, ↓reduceIte]
    split
    · have := evalRT_filterRFields kvs _ hk
      have c2 : (t.arrDim == 0 && t.mapDim != 0) = true := by simp [ha, hm]
      simp only [evalRT, c2, if_true, this.1, HasTyR]
      exact ⟨trivial, ha, hm, this.2⟩
    · exact ⟨rfl, by simp only [HasTyR]; exact ⟨ha, hm, hk⟩⟩
  | .struct kvs, t, h => by
    simp only [HasTyR] at h
    obtain ⟨ha, hm, ps, hl, hmem, hall⟩ := h
    have hn := hst _ _ hl
    have c1 : (t.arrDim == 0 && t.mapDim == 0) = true := by simp [ha, hm]
    have c2 : (t.arrDim == 0 && t.mapDim != 0) = false := by simp [ha, hm]
    simp only [filterR, c1, if_true, hl]
    have key : ∀ p ∈ ps,
        (ps.filterMap fun q => ((filterRMembers st ps kvs).lookup q.name).map fun e => (q.name, e)).lookup p.name
          = (kvs.lookup p.name).map (filterR st p.ty) := by
      intro p hp
      rw [lookup_filterMap_members ps hn _ p hp, lookup_filterRMembers,
        memberTy_find ps p.name p (find_name_of_nodup ps hn p hp)]
    constructor
    · simp only [evalRT, c2, hl]
      simp only [Bool.false_eq_true, if_false, J.obj.injEq]
      apply List.map_congr_left
      intro p hp
      simp only [Prod.mk.injEq, true_and]
      rw [lookup_evalRTMembers, lookup_evalRTMembers, key p hp,
        memberTy_find ps p.name p (find_name_of_nodup ps hn p hp)]
      cases he : kvs.lookup p.name with
      | none => rfl
      | some e =>
        simp only [Option.map_some, Option.getD_some]
        have hty := HasTyRMembers_lookup st ps kvs p.name e p hmem he (find_name_of_nodup ps hn p hp)
        exact (evalRT_filterRMembers ps kvs hmem p.name e p he (find_name_of_nodup ps hn p hp)).1
    · simp only [HasTyR]
      refine ⟨ha, hm, ps, hl, ?_, ?_⟩
      · apply HasTyRMembers_of_mem
        intro k e' hmem' _
        obtain ⟨p, hp, hpk, hg⟩ := mem_filterMap_members ps _ k e' hmem'
        subst hpk
        rw [lookup_filterRMembers, memberTy_find ps p.name p (find_name_of_nodup ps hn p hp)] at hg
        cases he : kvs.lookup p.name with
        | none => simp [he] at hg
        | some e =>
          simp only [he, Option.map_some, Option.some.injEq] at hg
          subst hg
          rw [memberTy_find ps p.name p (find_name_of_nodup ps hn p hp)]
          exact (evalRT_filterRMembers ps kvs hmem p.name e p he (find_name_of_nodup ps hn p hp)).2
      · intro p hp
        rw [key p hp]
        have := hall p hp
        cases he : kvs.lookup p.name with
        | none => simp [he] at this
        | some e => simp
  | .split c m e, t, h => by
    have e' : filterR st t (.split c m e) = .split c m e := by simp [filterR]
    rw [e']; exact ⟨rfl, h⟩
  | .merge c m e, t, h => by
    have e' : filterR st t (.merge c m e) = .merge c m e := by simp [filterR]
    rw [e']; exact ⟨rfl, h⟩
  | .disabled d v, t, h => by
    simp only [HasTyR] at h
    have ih := evalRT_filterR v t h.2
    simp only [filterR, evalRT, HasTyR, ih.1]
    exact ⟨trivial, h.1, ih.2⟩
  | .fork c ix e, t, h => by
    have e' : filterR st t (.fork c ix e) = .fork c ix e := by simp [filterR]
    rw [e']; exact ⟨rfl, h⟩
theorem evalRT_filterRList :
    ∀ (rs : List RExp) (t : Ty), HasTyRList st t rs →
      evalRTList st nf ρ f t (filterRList st t rs) = evalRTList st nf ρ f t rs ∧
      HasTyRList st t (filterRList st t rs)
  | [], _, _ => by simp [filterRList, HasTyRList]
  | r :: rs, t, h => by
    simp only [HasTyRList] at h
    have h1 := evalRT_filterR r t h.1
    have h2 := evalRT_filterRList rs t h.2
    simp only [filterRList, evalRTList, HasTyRList, h1.1, h2.1]
    exact ⟨trivial, h1.2, h2.2⟩
theorem evalRT_filterRFields :
    ∀ (kvs : List (String × RExp)) (t : Ty), HasTyRFields st t kvs →
      evalRTFields st nf ρ f t (filterRFields st t kvs) = evalRTFields st nf ρ f t kvs ∧
      HasTyRFields st t (filterRFields st t kvs)
  | [], _, _ => by simp [filterRFields, HasTyRFields]
  | (k, r) :: rs, t, h => by
    simp only [HasTyRFields] at h
    have h1 := evalRT_filterR r t h.1
    have h2 := evalRT_filterRFields rs t h.2
    simp only [filterRFields, evalRTFields, HasTyRFields, h1.1, h2.1]
    exact ⟨trivial, h1.2, h2.2⟩
theorem evalRT_filterRMembers (ps : List Param) :
    ∀ (kvs : List (String × RExp)), HasTyRMembers st ps kvs →
      ∀ (k : String) (e : RExp) (p : Param), kvs.lookup k = some e →
        ps.find? (fun q => q.name == k) = some p →
        evalRT st nf ρ f p.ty (filterR st p.ty e) = evalRT st nf ρ f p.ty e ∧ HasTyR st p.ty (filterR st p.ty e)
  | [], _, _, _, _, h, _ => by simp at h
  | (k', e') :: es, hm, k, e, p, hl, hf => by
    simp only [HasTyRMembers] at hm
    simp only [List.lookup_cons] at hl
    cases hk : (k == k') with
    | true =>
      simp only [hk, Option.some.injEq] at hl
      have : k = k' := by simpa using hk
      subst this; subst hl
      have hty := hm.1 (by simp [hf])
      rw [memberTy_find ps k p hf] at hty
      exact evalRT_filterR e' p.ty hty
    | false =>
      simp only [hk] at hl
      exact evalRT_filterRMembers ps es hm.2 k e p hl hf
end

end L0

end Proofs.ResolverStatic
