import Proofs.FormatCallParse
import Proofs.FormatExpLex

/-!
C09: the lexing layer of the round trip of the call-statement printer:
`lexAll (fmtCall c) = some (toksCall c)` for a well-formed call, and the round
trip `parseCall (fmtCall c) = some (normCall c)`.

Core Lean only.
-/

namespace Martian.FormatCall
open Martian.Lexer (Bytes isWord)
open Martian.FormatExp

theorem wordLexeme_call : wordLexeme sCall = .tok (.reserved sCall) := by decide
theorem wordLexeme_map : wordLexeme sMap = .tok (.reserved sMap) := by decide
theorem wordLexeme_as : wordLexeme sAs = .tok (.reserved sAs) := by decide
theorem wordLexeme_split : wordLexeme sSplit = .tok (.id sSplit) := by decide
theorem all_isWord_call : sCall.all isWord = true := by decide
theorem all_isWord_map : sMap.all isWord = true := by decide
theorem all_isWord_as : sAs.all isWord = true := by decide
theorem all_isWord_split : sSplit.all isWord = true := by decide

/-- a word and the space after it -/
theorem LexOK.wordSp {w : Bytes} {k : Tok} (hw : w.all isWord = true) (hk : wordLexeme w = .tok k) :
    LexOK (w ++ [0x20]) [k] AnyRest := by
  have h1 := LexOK.word hw hk
  have h2 : LexOK [0x20] [] AnyRest := LexOK.spaces (by decide) _
  exact (h1.append h2 (fun rest _ => WordEnd.cons _ _ (by decide))).congr rfl (by simp)

theorem wordEnd_spaces (n : Nat) (t : Bytes) : WordEnd (spaces n ++ 0x20 :: t) := by
  cases n with
  | zero => exact WordEnd.cons _ _ (by decide)
  | succ n =>
    rw [spaces, List.replicate_succ, List.cons_append]
    exact WordEnd.cons _ _ (by decide)

/-! ## one binding up to its value -/

theorem lexOK_bindPre (w : Nat) (b : Bind) (hid : isIdent b.id = true) :
    LexOK (bindPre w b) (toksBindPre b) AnyRest := by
  have h1 : LexOK indent [] AnyRest := LexOK.spaces all_isSp_indent _
  have h2 := LexOK.ident hid
  have h3 : LexOK (spaces (w - b.id.length) ++ [0x20]) [] AnyRest :=
    LexOK.spaces (all_isSp_append (all_isSp_spaces _) (by decide)) _
  have h4 : LexOK [0x3D] [tEq] AnyRest := LexOK.punct (by decide) _
  have h5 : LexOK [0x20] [] AnyRest := LexOK.spaces (by decide) _
  have h6 : LexOK (if b.split then sSplit ++ [0x20] else [])
      (if b.split then [.id sSplit] else []) AnyRest := by
    cases b.split with
    | true => exact LexOK.wordSp all_isWord_split wordLexeme_split
    | false => exact LexOK.nil _
  have h3456 := ((h3.append h4 (fun _ _ => trivial)).append h5 (fun _ _ => trivial)).append h6
    (fun _ _ => trivial)
  have h := (h1.append h2 (fun _ _ => trivial)).append h3456 (by
    intro rest _
    have e : (spaces (w - b.id.length) ++ [0x20] ++ [0x3D] ++ [0x20] ++
        (if b.split = true then sSplit ++ [0x20] else [])) ++ rest =
        spaces (w - b.id.length) ++ 0x20 :: ([0x3D] ++ [0x20] ++
          (if b.split = true then sSplit ++ [0x20] else []) ++ rest) := by simp
    rw [e]
    exact wordEnd_spaces _ _)
  exact h.congr (by simp [bindPre]) (by simp [toksBindPre])

/-! ## the binding list -/

theorem lexOK_fmtBinds (w : Nat) : ∀ bs : List Bind, bs.all wfBind = true →
    LexOK (fmtBinds w bs) (toksBinds bs) AnyRest
  | [], _ => (LexOK.nil _).congr (by simp [fmtBinds]) (by simp [toksBinds])
  | b :: bs, hw => by
    simp only [List.all_cons, Bool.and_eq_true] at hw
    have hb := hw.1
    simp only [wfBind, Bool.and_eq_true] at hb
    exact (LexOK.item (lexOK_bindPre w b hb.1.1) (lexOK_fmt b.exp indent hb.1.2 all_isSp_indent)
      (lexOK_fmtBinds w bs hw.2)).congr (by simp [fmtBinds]) (by simp [toksBinds])

/-! ## the statement -/

theorem lexOK_fmtCall (c : Call) (hw : wfCall c = true) : LexOK (fmtCall c) (toksCall c) AnyRest := by
  obtain ⟨d, i, bs⟩ := c
  simp only [wfCall, Bool.and_eq_true] at hw
  obtain ⟨⟨hd, hi⟩, hbs⟩ := hw
  have hA : LexOK (if isMap ⟨d, i, bs⟩ then sMap ++ [0x20] else [])
      (if isMap ⟨d, i, bs⟩ then [.reserved sMap] else []) AnyRest := by
    cases isMap ⟨d, i, bs⟩ with
    | true => exact LexOK.wordSp all_isWord_map wordLexeme_map
    | false => exact LexOK.nil _
  have hB : LexOK (sCall ++ [0x20]) [.reserved sCall] AnyRest :=
    LexOK.wordSp all_isWord_call wordLexeme_call
  have hC := LexOK.ident hd
  have hD : LexOK (if i = d then [] else [0x20] ++ sAs ++ [0x20] ++ i)
      (if i = d then [] else [.reserved sAs, .id i]) WordEnd := by
    by_cases hid : i = d
    · simp only [hid, ↓reduceIte]; exact LexOK.nil _
    · simp only [hid, ↓reduceIte]
      have h0 : LexOK [0x20] [] AnyRest := LexOK.spaces (by decide) _
      have h1 : LexOK (sAs ++ [0x20]) [.reserved sAs] AnyRest :=
        LexOK.wordSp all_isWord_as wordLexeme_as
      exact ((h0.append h1 (fun _ _ => trivial)).append (LexOK.ident hi)
        (fun _ _ => trivial)).congr (by simp) (by simp)
  have hDW : ∀ rest, WordEnd rest →
      WordEnd ((if i = d then [] else [0x20] ++ sAs ++ [0x20] ++ i) ++ rest) := by
    intro rest hr
    by_cases hid : i = d
    · simpa [hid] using hr
    · simp only [hid, ↓reduceIte, List.append_assoc, List.cons_append, List.nil_append]
      exact WordEnd.cons _ _ (by decide)
  have hE : LexOK [0x28] [tLP] AnyRest := LexOK.punct (by decide) _
  have hF : LexOK (if bs.isEmpty then [] else 0x0A :: fmtBinds (idWidth bs) bs) (toksBinds bs) AnyRest := by
    cases bs with
    | nil => exact (LexOK.nil _).congr (by simp) (by simp [toksBinds])
    | cons b bs =>
      have hnl : LexOK [0x0A] [] AnyRest := LexOK.spaces (by decide) _
      exact (hnl.append (lexOK_fmtBinds (idWidth (b :: bs)) (b :: bs) hbs) (fun _ _ => trivial)).congr (by simp) (by simp)
  have hG : LexOK [0x29, 0x0A] [tRP] AnyRest := by
    have h1 : LexOK [0x29] [tRP] AnyRest := LexOK.punct (by decide) _
    have h2 : LexOK [0x0A] [] AnyRest := LexOK.spaces (by decide) _
    exact (h1.append h2 (fun _ _ => trivial)).congr (by simp) (by simp)
  have h := ((((((hA.append hB (fun _ _ => trivial)).append hC (fun _ _ => trivial)).append hD
    hDW).append hE (fun _ _ => WordEnd.cons _ _ (by decide))).append hF
    (fun _ _ => trivial)).append hG (fun _ _ => trivial))
  exact h.congr (by simp [fmtCall]) (by simp [toksCall])

/-- **Lexing layer.**  The printed text of a well-formed call lexes as `toksCall c`. -/
theorem lexAll_fmtCall (c : Call) (hw : wfCall c = true) : lexAll (fmtCall c) = some (toksCall c) := by
  have h := lexOK_fmtCall c hw [] trivial
  rw [List.append_nil, lexAll_nil] at h
  rw [h]; simp

/-- **Round trip.** -/
theorem parseCall_fmtCall (c : Call) (hw : wfCall c = true) :
    parseCall (fmtCall c) = some (normCall c) := by
  simp only [parseCall, lexAll_fmtCall c hw, Option.bind_some]
  exact parseCallToks_toks c hw

/-! ## printing the normal form -/

theorem idWidth_norm (bs : List Bind) : idWidth (bs.map normBind) = idWidth bs := by
  induction bs with
  | nil => rfl
  | cons b bs ih => simp [idWidth, normBind, ih]

theorem fmtBinds_norm (w : Nat) : ∀ bs : List Bind, bs.all wfBind = true →
    fmtBinds w (bs.map normBind) = fmtBinds w bs
  | [], _ => rfl
  | b :: bs, hw => by
    simp only [List.all_cons, Bool.and_eq_true] at hw
    have hb := hw.1
    simp only [wfBind, Bool.and_eq_true] at hb
    show bindPre w b ++ fmt indent (norm b.exp) ++ [0x2C, 0x0A] ++ fmtBinds w (bs.map normBind) =
      bindPre w b ++ fmt indent b.exp ++ [0x2C, 0x0A] ++ fmtBinds w bs
    rw [fmtBinds_norm w bs hw.2, fmt_norm b.exp indent hb.1.2]

/-- **Idempotent.** -/
theorem fmtCall_norm (c : Call) (hw : wfCall c = true) : fmtCall (normCall c) = fmtCall c := by
  obtain ⟨d, i, bs⟩ := c
  simp only [wfCall, Bool.and_eq_true] at hw
  simp only [fmtCall, normCall, isMap, any_split_norm, idWidth_norm, fmtBinds_norm _ bs hw.2,
    List.isEmpty_map]
  rfl

theorem wfCall_norm (c : Call) (hw : wfCall c = true) : wfCall (normCall c) = true := by
  obtain ⟨d, i, bs⟩ := c
  simp only [wfCall, Bool.and_eq_true] at hw ⊢
  refine ⟨hw.1, ?_⟩
  simp only [normCall, List.all_map]
  rw [List.all_eq_true] at hw ⊢
  intro b hb
  have h := hw.2 b hb
  simp only [wfBind, Bool.and_eq_true, Function.comp] at h ⊢
  exact ⟨⟨h.1.1, wf_norm _ h.1.2⟩, by simpa [normBind, isSplitVal_norm] using h.2⟩

end Martian.FormatCall
