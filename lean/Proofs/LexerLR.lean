import Martian.LexerLR
import Martian.LexerLRCheck

/-!
Soundness of the table checker: if `check T C = true` then, for EVERY input
(list of scanner token ids) and EVERY oracle for the aborting semantic actions,
the driver loop never indexes outside a table, never pops the bottom of its
stack, and terminates with accept, a syntax error at the lookahead token, or
an action error.
-/
namespace Martian.LexerLR

/-! ## small list facts -/

theorem all_range {n : Nat} {p : Nat → Bool} (h : (List.range n).all p = true) {i : Nat} (hi : i < n) :
    p i = true :=
  (List.all_eq_true.mp h) i (List.mem_range.mpr hi)

theorem mem_addNew {x y : Nat} {l : List Nat} : x ∈ addNew y l ↔ x = y ∨ x ∈ l := by
  unfold addNew
  by_cases h : y ∈ l
  · have hc : l.contains y = true := by simpa using h
    simp only [hc, if_true]
    constructor
    · intro hx; exact Or.inr hx
    · rintro (rfl | hx)
      · exact h
      · exact hx
  · simp [h]

theorem mem_addAll_acc {x : Nat} : ∀ (xs acc : List Nat), x ∈ acc → x ∈ addAll xs acc := by
  intro xs
  induction xs with
  | nil => intro acc h; exact h
  | cons y r ih =>
    intro acc h
    simp only [addAll, List.foldl_cons]
    exact ih _ (mem_addNew.mpr (Or.inr h))

theorem mem_addAll_xs {x : Nat} : ∀ (xs acc : List Nat), x ∈ xs → x ∈ addAll xs acc := by
  intro xs
  induction xs with
  | nil => intro acc h; cases h
  | cons y r ih =>
    intro acc h
    simp only [addAll, List.foldl_cons]
    rcases List.mem_cons.mp h with rfl | h
    · exact mem_addAll_acc r _ (mem_addNew.mpr (Or.inl rfl))
    · exact ih _ h

theorem mem_levelUp_aux (C : Cert) {t : Nat} : ∀ (L acc : List Nat),
    (t ∈ acc ∨ ∃ s ∈ L, t ∈ predOf C s) → t ∈ L.foldl (fun acc s => addAll (predOf C s) acc) acc := by
  intro L
  induction L with
  | nil =>
    intro acc h
    rcases h with h | ⟨s, hs, _⟩
    · exact h
    · cases hs
  | cons y r ih =>
    intro acc h
    simp only [List.foldl_cons]
    apply ih
    rcases h with h | ⟨s, hs, ht⟩
    · exact Or.inl (mem_addAll_acc _ _ h)
    · rcases List.mem_cons.mp hs with rfl | hs
      · exact Or.inl (mem_addAll_xs _ _ ht)
      · exact Or.inr ⟨s, hs, ht⟩

theorem mem_levelUp (C : Cert) {L : List Nat} {s t : Nat} (hs : s ∈ L) (ht : t ∈ predOf C s) :
    t ∈ levelUp C L :=
  mem_levelUp_aux C L [] (Or.inr ⟨s, hs, ht⟩)

/-! ## the stack invariant -/

/-- the parser stack (top first): state 0 at the bottom and nowhere else
needed, every state below another one is one of its certified predecessors,
all states exist -/
inductive Chain (T : Tables) (C : Cert) : List Nat → Prop
  | base : Chain T C [0]
  | cons {s t : Nat} {r : List Nat} : s < NS T → t ∈ predOf C s → Chain T C (t :: r) → Chain T C (s :: t :: r)

theorem Chain.ne_nil {T C} {st : List Nat} (h : Chain T C st) : st ≠ [] := by
  cases h <;> simp

theorem Chain.all_lt {T : Tables} {C : Cert} (h0 : 0 < NS T) {st : List Nat} (h : Chain T C st) :
    ∀ s ∈ st, s < NS T := by
  induction h with
  | base => intro s hs; simp at hs; omega
  | cons hs _ _ ih =>
    intro x hx
    rcases List.mem_cons.mp hx with rfl | hx
    · exact hs
    · exact ih x hx

/-- walking `k` entries down a stack that satisfies the invariant stays inside
the level sets `walk` computes, and cannot fall off the bottom -/
theorem walk_sound (T : Tables) (C : Cert) : ∀ (k : Nat) (L Lk : List Nat) (s : Nat) (r : List Nat),
    walk C k L = some Lk → Chain T C (s :: r) → s ∈ L →
    ∃ t rest, (s :: r).drop k = t :: rest ∧ t ∈ Lk ∧ Chain T C (t :: rest) := by
  intro k
  induction k with
  | zero =>
    intro L Lk s r hw hc hs
    simp only [walk, Option.some.injEq] at hw
    subst hw
    exact ⟨s, r, rfl, hs, hc⟩
  | succ k ih =>
    intro L Lk s r hw hc hs
    simp only [walk] at hw
    split at hw
    · cases hw
    · rename_i h0
      have hs0 : s ≠ 0 := by
        intro e; subst e
        exact h0 (by simpa using hs)
      cases hc with
      | base => exact absurd rfl hs0
      | @cons _ t r' _ ht hc' =>
        obtain ⟨t', rest, hd, hm, hc''⟩ := ih _ _ t r' hw hc' (mem_levelUp C hs ht)
        exact ⟨t', rest, by simpa using hd, hm, hc''⟩

/-! ## what `check` gives -/

structure Good (T : Tables) (C : Cert) : Prop where
  ns_pos : 0 < NS T
  tok3 : T.tok3 = [[0]]
  tok1_0 : T.tok1.get? 0 = some T.eofCode
  tok1_pos : 0 < T.tok1.size
  tok2_two : 2 ≤ T.tok2.size
  tok1ok : tokTabOK T T.tok1 = true
  tok2ok : tokTabOK T T.tok2 = true
  state : ∀ s, s < NS T → stateOK T C s = true

theorem good_of_check {T : Tables} {C : Cert} (h : check T C = true) : Good T C := by
  unfold check at h
  simp only [Bool.and_eq_true, decide_eq_true_eq, beq_iff_eq] at h
  obtain ⟨⟨⟨⟨⟨⟨⟨⟨_, h1⟩, h2⟩, h3⟩, h4⟩, h5⟩, h6⟩, h7⟩, h8⟩ := h
  exact ⟨h1, h5, h6, h7, h4, h2, h3, fun s hs => all_range h8 hs⟩

theorem tokTab_get {T : Tables} {t : Tab Int} (h : tokTabOK T t = true) {i : Nat} (hi : i < t.size) :
    ∃ v, t.get? (i : Int) = some v ∧ 1 ≤ v ∧ v < (NT T : Int) := by
  have := all_range h hi
  cases hg : t.get? (i : Int) with
  | none => rw [hg] at this; cases this
  | some v =>
    rw [hg] at this
    simp only [Bool.and_eq_true, decide_eq_true_eq] at this
    exact ⟨v, rfl, this.1, this.2⟩

theorem eof_range {T : Tables} {C : Cert} (g : Good T C) : 1 ≤ T.eofCode ∧ T.eofCode < (NT T : Int) := by
  obtain ⟨v, hv, h1, h2⟩ := tokTab_get g.tok1ok g.tok1_pos
  have : T.tok1.get? ((0 : Nat) : Int) = T.tok1.get? 0 := rfl
  rw [this, g.tok1_0] at hv
  injection hv with hv
  subst hv
  exact ⟨h1, h2⟩

/-- `mmlex1` never indexes out of range, yields a token number of the grammar,
and `$end` for the scanner's end-of-input value -/
theorem lex1_ok {T : Tables} {C : Cert} (g : Good T C) (char : Int) :
    ∃ tok, lex1 T char = some tok ∧ 1 ≤ tok ∧ tok < (NT T : Int) ∧ (char ≤ 0 → tok = T.eofCode) := by
  have he := eof_range g
  unfold lex1
  by_cases h0 : char ≤ 0
  · simp only [h0, if_true, g.tok1_0, Option.bind_some]
    have hne : (T.eofCode == 0) = false := by
      simp only [beq_eq_false_iff_ne, ne_eq]; omega
    simp only [hne, Bool.false_eq_true, if_false]
    exact ⟨T.eofCode, rfl, he.1, he.2, fun _ => rfl⟩
  · simp only [h0, if_false]
    by_cases h1 : char < (T.tok1.size : Int)
    · simp only [h1, if_true]
      have hi : char.toNat < T.tok1.size := by omega
      obtain ⟨v, hv, hv1, hv2⟩ := tokTab_get g.tok1ok hi
      have e : ((char.toNat : Nat) : Int) = char := by omega
      rw [e] at hv
      have hne : (v == 0) = false := by simp only [beq_eq_false_iff_ne, ne_eq]; omega
      simp only [hv, Option.bind_some, hne, Bool.false_eq_true, if_false]
      exact ⟨v, rfl, hv1, hv2, (by intro h; first | exact h.elim | exact absurd h h0)⟩
    · simp only [h1, if_false]
      -- unknown character: `mmTok2[1]`
      have hunk : ∃ u, T.tok2.get? 1 = some u ∧ 1 ≤ u ∧ u < (NT T : Int) := by
        obtain ⟨v, hv, h1', h2'⟩ := tokTab_get g.tok2ok (i := 1) (by have := g.tok2_two; omega)
        exact ⟨v, hv, h1', h2'⟩
      by_cases h2 : (char ≥ T.priv && char < T.priv + (T.tok2.size : Int)) = true
      · simp only [h2, if_true]
        simp only [Bool.and_eq_true, decide_eq_true_eq] at h2
        have hi : (char - T.priv).toNat < T.tok2.size := by omega
        obtain ⟨v, hv, hv1, hv2⟩ := tokTab_get g.tok2ok hi
        have e : (((char - T.priv).toNat : Nat) : Int) = char - T.priv := by omega
        rw [e] at hv
        have hne : (v == 0) = false := by simp only [beq_eq_false_iff_ne, ne_eq]; omega
        simp only [hv, Option.bind_some, hne, Bool.false_eq_true, if_false]
        exact ⟨v, rfl, hv1, hv2, (by intro h; first | exact h.elim | exact absurd h h0)⟩
      · simp only [h2, Bool.false_eq_true, if_false]
        have hloop : tok3loop T char (T.tok3.size + 1) 0 0 = some 0 := by
          have hc : ¬ (0 : Int) = char := by omega
          simp [tok3loop, g.tok3, Tab.size, Tab.get?, hc]
        obtain ⟨u, hu, hu1, hu2⟩ := hunk
        simp only [hloop, Option.bind_some, beq_self_eq_true, if_true, hu]
        exact ⟨u, rfl, hu1, hu2, (by intro h; first | exact h.elim | exact absurd h h0)⟩

/-! ## configurations -/

def posCount : List Int → Nat
  | [] => 0
  | x :: r => (if x > 0 then 1 else 0) + posCount r

def laWeight : Option (Int × Int) → Nat
  | some (ch, _) => if ch > 0 then 1 else 0
  | none => 0

/-- the tokens that can still be shifted -/
def weight (c : Cfg) : Nat := posCount c.input + laWeight c.la

/-- termination measure: a shift lowers `weight`, a reduction keeps it and
lowers the rank of the top state -/
def mu (C : Cert) (c : Cfg) : Nat := weight c * (C.maxRank + 1) + rankOf C (c.stack.headD 0)

def LAok (T : Tables) (la : Option (Int × Int)) : Prop :=
  ∀ ch tok, la = some (ch, tok) → 1 ≤ tok ∧ tok < (NT T : Int) ∧ (ch ≤ 0 → tok = T.eofCode)

/-- bookkeeping of the `Lex` calls for an input of `N` tokens: either every call
so far returned a token of the input, or the end of the input has been read
(once: that lookahead is never consumed) -/
def NR (N : Nat) (c : Cfg) : Prop :=
  c.nread + c.input.length = N ∨ (c.nread = N + 1 ∧ c.input = [] ∧ ∃ ch tok, c.la = some (ch, tok) ∧ ch ≤ 0)

structure Inv (T : Tables) (C : Cert) (N : Nat) (c : Cfg) : Prop where
  chain : Chain T C c.stack
  ef : c.errflag = 0
  la : LAok T c.la
  nr : NR N c

theorem ensureLA_ok {T : Tables} {C : Cert} (g : Good T C) (c : Cfg) (hla : LAok T c.la) {N : Nat} (hnr : NR N c) :
    ∃ c1 evs, ensureLA T c = some (c1, evs) ∧ c1.stack = c.stack ∧ c1.errflag = c.errflag ∧
      c1.nred = c.nred ∧ c1.la.isSome = true ∧ LAok T c1.la ∧ weight c1 = weight c ∧ NR N c1 := by
  unfold ensureLA
  cases hl : c.la with
  | some x => exact ⟨c, [], rfl, rfl, rfl, rfl, by simp [hl], hla, rfl, hnr⟩
  | none =>
    cases hin : c.input with
    | nil =>
      obtain ⟨tok, ht, h1, h2, h3⟩ := lex1_ok g 0
      refine ⟨{ c with la := some (0, tok), input := [], nread := c.nread + 1 }, [.lex tok 0],
        by simp only [ht, Option.bind_some], rfl, rfl, rfl, rfl, ?_, ?_, ?_⟩
      · intro ch tk e
        simp only [Option.some.injEq, Prod.mk.injEq] at e
        obtain ⟨rfl, rfl⟩ := e
        exact ⟨h1, h2, h3⟩
      · simp [weight, hl, hin, laWeight, posCount]
      · right
        rcases hnr with h | ⟨_, _, ch, tk, hla', _⟩
        · rw [hin] at h
          simp only [List.length_nil, Nat.add_zero] at h
          exact ⟨by show c.nread + 1 = N + 1; omega, rfl, 0, tok, rfl, Int.le_refl 0⟩
        · rw [hl] at hla'; cases hla'
    | cons x r =>
      obtain ⟨tok, ht, h1, h2, h3⟩ := lex1_ok g x
      refine ⟨{ c with la := some (x, tok), input := r, nread := c.nread + 1 }, [.lex tok x],
        by simp only [ht, Option.bind_some], rfl, rfl, rfl, rfl, ?_, ?_, ?_⟩
      · intro ch tk e
        simp only [Option.some.injEq, Prod.mk.injEq] at e
        obtain ⟨rfl, rfl⟩ := e
        exact ⟨h1, h2, h3⟩
      · simp only [weight, hl, hin, laWeight, posCount]
        split <;> omega
      · left
        rcases hnr with h | ⟨_, hin', _⟩
        · rw [hin] at h
          simp only [List.length_cons] at h ⊢
          omega
        · rw [hin] at hin'; cases hin'

theorem errorShift_none {T : Tables} {C : Cert} (g : Good T C) {s : Nat} (hs : s < NS T) :
    errorShift T s = some none := by
  have h := g.state s hs
  unfold stateOK at h
  simp only [Bool.and_eq_true, beq_iff_eq] at h
  exact h.1.1.1.2

theorem recover_none {T : Tables} {C : Cert} (g : Good T C) : ∀ (st : List Nat) (evs : List Event),
    (∀ s ∈ st, s < NS T) → ∃ evs', recover T st evs = some (none, evs') := by
  intro st
  induction st with
  | nil => intro evs _; exact ⟨evs, rfl⟩
  | cons s r ih =>
    intro evs h
    simp only [recover, errorShift_none g (h s (by simp))]
    exact ih _ (fun x hx => h x (by simp [hx]))

/-- in a state that needs no lookahead the decision does not depend on the token -/
theorem action_indep {T : Tables} {s : Nat} (h : needsLA T s = some false) (tok tok' : Int) :
    action T s tok = action T s tok' := by
  unfold needsLA at h
  unfold action
  cases hp : T.pact.get? s with
  | none => rfl
  | some p =>
    cases hd : T.dfl.get? s with
    | none => simp [hp, hd] at h
    | some d =>
      simp only [hp, hd, Option.bind_some, Option.some.injEq, Bool.or_eq_false_iff,
        decide_eq_false_iff_not, beq_eq_false_iff_ne, ne_eq] at h
      have hpf : p ≤ T.flag := by omega
      have hd2 : (d == -2) = false := by simp only [beq_eq_false_iff_ne, ne_eq]; exact h.2
      simp only [Option.bind_some, hpf, if_true, hd2, Bool.false_eq_true, if_false]

/-! ## one round of the loop -/

inductive StepGood (T : Tables) (C : Cert) (N : Nat) (c : Cfg) : Step → Prop
  | cont (c' : Cfg) (evs : List Event) : Inv T C N c' → mu C c' < mu C c → StepGood T C N c (.cont c' evs)
  | accept (evs : List Event) (c1 : Cfg) : StepGood T C N c (.done 0 evs none c1)
  | actionError (evs : List Event) (c1 : Cfg) : StepGood T C N c (.done 1 evs none c1)
  | syntaxError (evs : List Event) (c1 : Cfg) (i : Nat) : i ≤ N → StepGood T C N c (.done 1 evs (some i) c1)

theorem rank_le {T : Tables} {C : Cert} (g : Good T C) {s : Nat} (hs : s < NS T) : rankOf C s ≤ C.maxRank := by
  have h := g.state s hs
  unfold stateOK at h
  simp only [Bool.and_eq_true, decide_eq_true_eq] at h
  exact h.1.1.2

theorem step_ok {T : Tables} {C : Cert} (g : Good T C) (fail : Nat → Bool) {N : Nat} (c : Cfg) (hi : Inv T C N c) :
    StepGood T C N c (step T fail c) := by
  obtain ⟨hchain, hef, hla, hnr⟩ := hi
  cases hst : c.stack with
  | nil => rw [hst] at hchain; exact absurd rfl hchain.ne_nil
  | cons s below =>
    rw [hst] at hchain
    have hall := Chain.all_lt g.ns_pos hchain
    have hs : s < NS T := hall s (by simp)
    have hso := g.state s hs
    unfold stateOK at hso
    simp only [Bool.and_eq_true, decide_eq_true_eq] at hso
    obtain ⟨⟨⟨⟨⟨hneed, hmsg⟩, _⟩, _⟩, hreds⟩, hcells⟩ := hso
    obtain ⟨need, hneed'⟩ := Option.isSome_iff_exists.mp hneed
    have hpre : ∃ c1 ev1, (if need = true then ensureLA T c else some (c, [])) = some (c1, ev1) ∧
        c1.stack = c.stack ∧ c1.errflag = 0 ∧ LAok T c1.la ∧ weight c1 = weight c ∧
        (need = true → c1.la.isSome = true) ∧ NR N c1 := by
      cases need with
      | true =>
        obtain ⟨c1, evs, h1, h2, h3, _, h5, h6, h7, h8⟩ := ensureLA_ok g c hla hnr
        exact ⟨c1, evs, by simpa using h1, h2, by rw [h3, hef], h6, h7, fun _ => h5, h8⟩
      | false => exact ⟨c, [], by simp, rfl, hef, hla, rfl, (by intro h; cases h), hnr⟩
    obtain ⟨c1, ev1, hpre, hstk, hef1, hla1, hw, hlasome, hnr1⟩ := hpre
    have he := eof_range g
    have htok : ∃ tn : Nat, 1 ≤ tn ∧ tn < NT T ∧
        action T s (laTok c1.la) = action T s (tn : Int) ∧
        (∀ ch t, c1.la = some (ch, t) → (tn : Int) = t) ∧ (c1.la = none → (tn : Int) = T.eofCode) := by
      cases hl : c1.la with
      | some x =>
        obtain ⟨ch, t⟩ := x
        obtain ⟨h1, h2, _⟩ := hla1 ch t hl
        have e : ((t.toNat : Nat) : Int) = t := by omega
        refine ⟨t.toNat, by omega, by omega, by simp only [laTok, e], ?_, (by intro h; cases h)⟩
        intro ch' t' e'
        injection e' with e'
        injection e' with _ e2
        omega
      | none =>
        have hn : need = false := by
          cases need with
          | true => have := hlasome rfl; rw [hl] at this; cases this
          | false => rfl
        subst hn
        have e : ((T.eofCode.toNat : Nat) : Int) = T.eofCode := by omega
        exact ⟨T.eofCode.toNat, by omega, by omega, (by simp only [e]; exact action_indep hneed' _ _),
          (by intro ch t h; cases h), fun _ => e⟩
    obtain ⟨tn, htn1, htn2, hact, htnla, htnnone⟩ := htok
    have hcell : cellOK T C s tn = true := by
      have := all_range hcells htn2
      have hne : (tn == 0) = false := by simp only [beq_eq_false_iff_ne, ne_eq]; omega
      simpa [hne] using this
    unfold step
    simp only [hst, hneed', hpre, hact]
    unfold cellOK at hcell
    cases ha : action T s (tn : Int) with
    | none => rw [ha] at hcell; cases hcell
    | some a =>
      rw [ha] at hcell
      cases a with
      | accept => exact StepGood.accept _ _
      | shift s' =>
        simp only [Bool.and_eq_true, decide_eq_true_eq, List.contains_iff_mem, bne_iff_ne, ne_eq] at hcell
        obtain ⟨⟨⟨hs', hmem⟩, hneof⟩, _⟩ := hcell
        -- the lookahead was a real token
        cases hl : c1.la with
        | none => exact absurd (htnnone hl) hneof
        | some x =>
          obtain ⟨ch, t⟩ := x
          have ht := htnla ch t hl
          obtain ⟨_, _, h3⟩ := hla1 ch t hl
          have hch : ch > 0 := by
            by_cases hc : ch ≤ 0
            · exact absurd (ht.trans (h3 hc)) hneof
            · omega
          apply StepGood.cont
          · refine ⟨Chain.cons hs' hmem hchain, by simp [hef1], (by intro ch tok h; cases h), ?_⟩
            rcases hnr1 with h | ⟨_, _, ch', tk', hla', hch'⟩
            · exact Or.inl h
            · rw [hl] at hla'
              injection hla' with hla'
              injection hla' with e1 _
              omega
          ·
            have hw1 : weight c1 = posCount c1.input + 1 := by simp [weight, hl, laWeight, hch]
            have hr := rank_le g hs'
            have hwc' : weight c = posCount c1.input + 1 := by rw [← hw]; exact hw1
            have hwn : weight ({ c1 with stack := s' :: s :: below, la := none, errflag := c1.errflag - 1 } : Cfg)
                = posCount c1.input := by simp [weight, laWeight]
            unfold mu
            rw [hwn, hwc', hst]
            simp only [List.headD_cons]
            rw [Nat.add_mul, Nat.one_mul]
            omega
      | reduce n =>
        have hn : n ∈ redsOf T s := by simpa using hcell
        have hro := (List.all_eq_true.mp hreds) n hn
        unfold redOK at hro
        simp only [Bool.and_eq_true, decide_eq_true_eq] at hro
        obtain ⟨⟨_, _⟩, hro⟩ := hro
        cases hk : T.r2.get? n with
        | none => rw [hk] at hro; cases hro
        | some k =>
          cases hA : T.r1.get? n with
          | none => rw [hk, hA] at hro; cases hro
          | some A =>
            rw [hk, hA] at hro
            simp only [Bool.and_eq_true, decide_eq_true_eq] at hro
            obtain ⟨hk0, hro⟩ := hro
            cases hwk : walk C k.toNat [s] with
            | none => rw [hwk] at hro; cases hro
            | some L =>
              rw [hwk] at hro
              obtain ⟨t, rest, hdrop, htL, hchain'⟩ := walk_sound T C k.toNat [s] L s below hwk hchain (by simp)
              have hgo := (List.all_eq_true.mp hro) t htL
              cases hg : gotoState T t A with
              | none => rw [hg] at hgo; cases hgo
              | some s2 =>
                rw [hg] at hgo
                simp only [Bool.and_eq_true, decide_eq_true_eq, List.contains_iff_mem] at hgo
                obtain ⟨⟨⟨hs20, hs2⟩, hmem⟩, hrk⟩ := hgo
                have hk' : ¬ k < 0 := by omega
                have hs2' : ¬ s2 < 0 := by omega
                simp only [hk, hA, hk', if_false, hdrop, hg, hs2']
                split
                · exact StepGood.actionError _ _
                · apply StepGood.cont
                  · exact ⟨Chain.cons hs2 hmem hchain', hef1, hla1, hnr1⟩
                  · have hwn : weight ({ c1 with stack := s2.toNat :: t :: rest, nred := c1.nred + 1 } : Cfg)
                        = weight c := by rw [← hw]; rfl
                    unfold mu
                    rw [hwn, hst]
                    simp only [List.headD_cons]
                    omega
      | error =>
        simp only [hef1]
        have hmsg' : errMsgSafe T s = true := hmsg
        simp only [hmsg', Bool.not_true, Bool.and_false, Bool.false_eq_true, if_false]
        obtain ⟨evs', hrec⟩ := recover_none g (s :: below) (if ((0 : Nat) == 0) = true then ev1 ++ [Event.err s (laTok c1.la)] else ev1) hall
        simp only [hrec]
        apply StepGood.syntaxError
        rcases hnr1 with h | ⟨h, _, _⟩ <;> omega

/-! ## the whole loop -/

theorem run_ok {T : Tables} {C : Cert} (g : Good T C) (fail : Nat → Bool) {N : Nat} :
    ∀ (f : Nat) (c : Cfg) (evs : List Event), Inv T C N c → mu C c < f →
      GoodOutcome N (runFuel T fail f c evs).1 := by
  intro f
  induction f with
  | zero => intro c evs _ h; omega
  | succ f ih =>
    intro c evs hi hf
    have hs := step_ok g fail c hi
    unfold runFuel
    generalize step T fail c = st at hs
    cases hs with
    | cont c' ev hi' hmu => exact ih c' _ hi' (by omega)
    | accept ev c1 => trivial
    | actionError ev c1 => trivial
    | syntaxError ev c1 i hi' => exact hi'

theorem init_inv (T : Tables) (C : Cert) (input : List Int) : Inv T C input.length (init input) :=
  ⟨Chain.base, rfl, (by intro ch tok h; cases h), Or.inl (by simp [init])⟩

theorem posCount_le : ∀ (l : List Int), posCount l ≤ l.length
  | [] => Nat.le_refl _
  | x :: r => by
    have := posCount_le r
    simp only [posCount, List.length_cons]
    split <;> omega

theorem mu_init_lt {T : Tables} {C : Cert} (g : Good T C) (input : List Int) : mu C (init input) < fuelFor C input := by
  have hr := rank_le g g.ns_pos
  have hp := posCount_le input
  simp only [mu, init, weight, laWeight, List.headD_cons, fuelFor, Nat.add_zero]
  have h1 : posCount input * (C.maxRank + 1) ≤ input.length * (C.maxRank + 1) := Nat.mul_le_mul_right _ hp
  have h2 : input.length * (C.maxRank + 1) ≤ input.length * (C.maxRank + 2) := Nat.mul_le_mul_left _ (by omega)
  rw [Nat.add_mul, Nat.one_mul]
  omega

/-- **The parser driver is total, memory safe and located** on tables that pass
the check: for every input and every oracle for the aborting actions the loop
returns — without indexing outside a table and without popping the bottom of
the stack (`panic`), within `fuelFor` rounds (`outOfFuel`) — accept, an action
error, or a syntax error at a lookahead token of the input (index ≤ length; =
length means at the end of the input). -/
theorem parse_total {T : Tables} {C : Cert} (h : check T C = true) (fail : Nat → Bool) (input : List Int) :
    GoodOutcome input.length (runFuel T fail (fuelFor C input) (init input) [.push 0]).1 :=
  run_ok (good_of_check h) fail _ _ _ (init_inv T C input) (mu_init_lt (good_of_check h) input)

/-- more fuel changes nothing -/
theorem run_fuel_indep {T : Tables} {C : Cert} (g : Good T C) (fail : Nat → Bool) {N : Nat} :
    ∀ (f f' : Nat) (c : Cfg) (evs : List Event), Inv T C N c → mu C c < f → mu C c < f' →
      runFuel T fail f c evs = runFuel T fail f' c evs := by
  intro f
  induction f with
  | zero => intro f' c evs _ h; omega
  | succ f ih =>
    intro f' c evs hi hf hf'
    cases f' with
    | zero => omega
    | succ f' =>
      have hs := step_ok g fail c hi
      unfold runFuel
      generalize step T fail c = st at hs
      cases hs with
      | cont c' ev hi' hmu => exact ih f' c' _ hi' (by omega) (by omega)
      | accept ev c1 => rfl
      | actionError ev c1 => rfl
      | syntaxError ev c1 i hi' => rfl

end Martian.LexerLR
