import Proofs.FormatCallRange2
import Proofs.FormatExpRangeText
import Proofs.FormatCallLex
import Proofs.FormatCall2Lex

/-!
C09, accepted texts of call statements: from the range of the raw readers to
`wfCall` / `wfCall2` / `wfRet` / `wfBody` of what Go holds (`canon… g` of the raw
result), the normal forms are fixed by the canonicaliser, and the text-side
theorems `format_accepted_call`, `format_accepted_call2`.

Core Lean only.
-/

namespace Martian.FormatCallText
open Martian.Lexer (Bytes)
open Martian.FormatExp Martian.FormatCall Martian.FormatCall2

/-! ## inversion of the `…G` readers -/

theorem parseCallG_inv {g : Bytes → Bytes} {src : Bytes} {c : Call} (h : parseCallG g src = some c) :
    ∃ c0, parseCall src = some c0 ∧ c = canonCall g c0 := by
  unfold parseCallG at h
  cases h0 : parseCall src with
  | none => simp [h0] at h
  | some c0 =>
    simp only [h0, Option.map_some, Option.some.injEq] at h
    exact ⟨c0, rfl, h.symm⟩

theorem parseCall2G_inv {g : Bytes → Bytes} {src : Bytes} {c : Call2} (h : parseCall2G g src = some c) :
    ∃ c0, parseCall2 src = some c0 ∧ c = canonCall2 g c0 := by
  unfold parseCall2G at h
  cases h0 : parseCall2 src with
  | none => simp [h0] at h
  | some c0 =>
    simp only [h0, Option.map_some, Option.some.injEq] at h
    exact ⟨c0, rfl, h.symm⟩

/-! ## references and booleans are fixed by the canonicaliser -/

theorem canon_ref (g : Bytes → Bytes) (e : Exp) (h : isRefE e = true) : canon g e = e := by
  cases e <;> simp [isRefE] at h <;> simp [canon]

theorem canon_bool (g : Bytes → Bytes) (e : Exp) (h : isBoolE e = true) : canon g e = e := by
  cases e <;> simp [isBoolE] at h <;> simp [canon]

theorem wf_ref (e : Exp) (h : isRefE e = true) : wf e = wfRaw e := by
  cases e <;> simp [isRefE] at h
  simp only [wf, wfRaw]

theorem isRefE_of_bareSelf (e : Exp) (h : isBareSelf e = true) : isRefE e = true := by
  unfold isBareSelf at h
  split at h
  · rfl
  · cases h

theorem isSplitVal_canon (g : Bytes → Bytes) (e : Exp) : isSplitVal (canon g e) = isSplitVal e := by
  cases e with
  | arr xs => cases xs <;> simp [canon, canonL, isSplitVal]
  | map kvs =>
    cases kvs with
    | nil => simp [canon, canonKV, isSplitVal]
    | cons kv r => obtain ⟨k, v⟩ := kv; simp [canon, canonKV, isSplitVal]
  | _ => simp [canon, isSplitVal]

/-! ## bindings -/

theorem wfBind_canon (g : Bytes → Bytes) (hg : GOK g) (b : Bind) (hr : wfBindRaw b = true)
    (hs : strsValid (canon g b.exp) = true) (hz : noNegZero (canon g b.exp) = true) :
    wfBind (canonBind g b) = true := by
  simp only [wfBindRaw, Bool.and_eq_true] at hr
  simp only [wfBind, canonBind, Bool.and_eq_true, isSplitVal_canon]
  exact ⟨⟨hr.1.1, wf_canon g hg b.exp hr.1.2 hs hz⟩, hr.2⟩

theorem all_wfBind_canon (g : Bytes → Bytes) (hg : GOK g) (bs : List Bind) (hr : bs.all wfBindRaw = true)
    (hs : bindsStrsValid (bs.map (canonBind g)) = true)
    (hz : bindsNoNegZero (bs.map (canonBind g)) = true) :
    (bs.map (canonBind g)).all wfBind = true := by
  induction bs with
  | nil => rfl
  | cons b r ih =>
    simp only [List.all_cons, Bool.and_eq_true] at hr
    simp only [bindsStrsValid, bindsNoNegZero, List.map_cons, List.all_cons, Bool.and_eq_true] at hs hz ih ⊢
    exact ⟨wfBind_canon g hg b hr.1 hs.1 hz.1, ih hr.2 hs.2 hz.2⟩

theorem any_split_canon (g : Bytes → Bytes) (bs : List Bind) :
    (bs.map (canonBind g)).all (fun b => !b.split) = bs.all (fun b => !b.split) := by
  induction bs with
  | nil => rfl
  | cons b r ih => simp only [List.map_cons, List.all_cons, ih, canonBind]

theorem canonBind_norm_fixed (g : Bytes → Bytes) (hg : GOK g) (b : Bind) (hr : wfBindRaw b = true)
    (hw : wfBind (canonBind g b) = true) :
    canonBind g (normBind (canonBind g b)) = normBind (canonBind g b) := by
  simp only [wfBindRaw, Bool.and_eq_true] at hr
  simp only [wfBind, canonBind, Bool.and_eq_true] at hw
  simp only [canonBind, normBind, canon_norm_fixed g hg b.exp hr.1.2 hw.1.2]

theorem map_canonBind_norm_fixed (g : Bytes → Bytes) (hg : GOK g) (bs : List Bind)
    (hr : bs.all wfBindRaw = true) (hw : (bs.map (canonBind g)).all wfBind = true) :
    ((bs.map (canonBind g)).map normBind).map (canonBind g) = (bs.map (canonBind g)).map normBind := by
  induction bs with
  | nil => rfl
  | cons b r ih =>
    simp only [List.all_cons, List.map_cons, Bool.and_eq_true] at hr hw
    simp only [List.map_cons, canonBind_norm_fixed g hg b hr.1 hw.1, ih hr.2 hw.2]

/-! ## wildcard and modifier bindings: references and booleans -/

theorem wildRaw_isRef (e : Exp) (h : wfWildRaw e = true) : isRefE e = true := by
  simp only [wfWildRaw, Bool.or_eq_true, Bool.and_eq_true] at h
  rcases h with h | h
  · exact isRefE_of_bareSelf e h
  · exact h.1

theorem wild_isRef (e : Exp) (h : wfWild e = true) : isRefE e = true := by
  simp only [wfWild, Bool.or_eq_true, Bool.and_eq_true] at h
  rcases h with h | h
  · exact isRefE_of_bareSelf e h
  · exact h.1

theorem canonWild_raw (g : Bytes → Bytes) (w : Option Exp) (h : wfWildOptRaw w = true) :
    w.map (canon g) = w := by
  cases w with
  | none => rfl
  | some e => simp only [Option.map_some, canon_ref g e (wildRaw_isRef e h)]

theorem canonWild_wf (g : Bytes → Bytes) (w : Option Exp) (h : wfWildOpt w = true) :
    w.map (canon g) = w := by
  cases w with
  | none => rfl
  | some e => simp only [Option.map_some, canon_ref g e (wild_isRef e h)]

theorem wfWildOpt_of_raw (w : Option Exp) (h : wfWildOptRaw w = true) : wfWildOpt w = true := by
  cases w with
  | none => rfl
  | some e =>
    simp only [wfWildOptRaw, wfWildRaw, Bool.or_eq_true, Bool.and_eq_true] at h
    simp only [wfWildOpt, wfWild, Bool.or_eq_true, Bool.and_eq_true]
    rcases h with h | h
    · exact Or.inl h
    · exact Or.inr ⟨h.1, by rw [wf_ref e h.1]; exact h.2⟩

theorem wfMod_of_raw (kv : Bytes × Exp) (h : wfModRaw kv = true) : wfMod kv = true := by
  simp only [wfModRaw, Bool.or_eq_true, Bool.and_eq_true] at h
  simp only [wfMod, Bool.or_eq_true, Bool.and_eq_true]
  rcases h with h | h
  · exact Or.inl h
  · exact Or.inr ⟨h.1, by rw [wf_ref kv.2 h.1.2]; exact h.2⟩

theorem canonMod_wf (g : Bytes → Bytes) (kv : Bytes × Exp) (h : wfMod kv = true) : canonMod g kv = kv := by
  simp only [wfMod, Bool.or_eq_true, Bool.and_eq_true] at h
  obtain ⟨k, v⟩ := kv
  simp only [canonMod]
  rcases h with h | h
  · rw [canon_bool g v h.2]
  · rw [canon_ref g v h.1.2]

theorem map_canonMod_wf (g : Bytes → Bytes) (l : List (Bytes × Exp)) (h : l.all wfMod = true) :
    l.map (canonMod g) = l := by
  induction l with
  | nil => rfl
  | cons kv r ih =>
    simp only [List.all_cons, Bool.and_eq_true] at h
    simp only [List.map_cons, canonMod_wf g kv h.1, ih h.2]

theorem all_wfMod_of_raw (l : List (Bytes × Exp)) (h : l.all wfModRaw = true) : l.all wfMod = true := by
  induction l with
  | nil => rfl
  | cons kv r ih =>
    simp only [List.all_cons, Bool.and_eq_true] at h ⊢
    exact ⟨wfMod_of_raw kv h.1, ih h.2⟩

theorem canonMods_raw (g : Bytes → Bytes) (m : Mods) (h : m.binds.all wfModRaw = true) : canonMods g m = m := by
  simp only [canonMods, map_canonMod_wf g m.binds (all_wfMod_of_raw _ h)]

theorem canonMods_norm (g : Bytes → Bytes) (m : Mods) (h : wfMods m = true) :
    canonMods g (normMods m) = normMods m := by
  simp only [canonMods, normMods, map_canonMod_wf g _ (modList_wf m h).1]

/-! ## the modifier-less call -/

theorem wfCall_canon (g : Bytes → Bytes) (hg : GOK g) (c : Call) (hr : wfCallRaw c = true)
    (hs : callStrsValid (canonCall g c) = true) (hz : callNoNegZero (canonCall g c) = true) :
    wfCall (canonCall g c) = true := by
  simp only [wfCallRaw, Bool.and_eq_true] at hr
  simp only [wfCall, canonCall, Bool.and_eq_true]
  exact ⟨⟨hr.1.1, hr.1.2⟩, all_wfBind_canon g hg c.binds hr.2 hs hz⟩

theorem canonCall_norm_fixed (g : Bytes → Bytes) (hg : GOK g) (c : Call) (hr : wfCallRaw c = true)
    (hw : wfCall (canonCall g c) = true) :
    canonCall g (normCall (canonCall g c)) = normCall (canonCall g c) := by
  simp only [wfCallRaw, Bool.and_eq_true] at hr
  simp only [wfCall, canonCall, Bool.and_eq_true] at hw
  simp only [canonCall, normCall, map_canonBind_norm_fixed g hg c.binds hr.2 hw.2]

/-- what the parser holds for an accepted modifier-less call is well formed, up to F6b and F26 -/
theorem parseCallG_wf (g : Bytes → Bytes) (hg : GOK g) (src : Bytes) (c : Call)
    (h : parseCallG g src = some c) (hs : callStrsValid c = true) (hz : callNoNegZero c = true) :
    wfCall c = true := by
  obtain ⟨c0, h0, rfl⟩ := parseCallG_inv h
  exact wfCall_canon g hg c0 (parseCall_range src c0 h0) hs hz

theorem format_accepted_call (g : Bytes → Bytes) (hg : GOK g) (src : Bytes) (c : Call)
    (h : parseCallG g src = some c) (hs : callStrsValid c = true) (hz : callNoNegZero c = true) :
    parseCallG g (fmtCall c) = some (normCall c) ∧ fmtCall (normCall c) = fmtCall c ∧
      parseCallG g (fmtCall (normCall c)) = some (normCall c) := by
  obtain ⟨c0, h0, rfl⟩ := parseCallG_inv h
  have hr := parseCall_range src c0 h0
  have hw := wfCall_canon g hg c0 hr hs hz
  have hfix := canonCall_norm_fixed g hg c0 hr hw
  have h1 : parseCallG g (fmtCall (canonCall g c0)) = some (normCall (canonCall g c0)) := by
    simp only [parseCallG, parseCall_fmtCall _ hw, Option.map_some, hfix]
  refine ⟨h1, fmtCall_norm _ hw, ?_⟩
  rw [fmtCall_norm _ hw]
  exact h1

/-! ## the full call statement -/

theorem wfCall2_canon (g : Bytes → Bytes) (hg : GOK g) (c : Call2) (hr : wfCall2Raw c = true)
    (hs : call2StrsValid (canonCall2 g c) = true) (hz : call2NoNegZero (canonCall2 g c) = true)
    (hd : modsDistinct (canonCall2 g c) = true) : wfCall2 (canonCall2 g c) = true := by
  simp only [wfCall2Raw, Bool.and_eq_true] at hr
  simp only [modsDistinct, canonCall2, canonMods_raw g c.mods hr.2] at hd
  simp only [wfCall2, canonCall2, Bool.and_eq_true, canonWild_raw g c.wildcard hr.1.2,
    canonMods_raw g c.mods hr.2, wfMods]
  exact ⟨⟨⟨⟨hr.1.1.1.1, hr.1.1.1.2⟩, all_wfBind_canon g hg c.binds hr.1.1.2 hs hz⟩,
    wfWildOpt_of_raw _ hr.1.2⟩, all_wfMod_of_raw _ hr.2, hd⟩

/-- `canonCall2 g` changes nothing in the normal form of a call `c` that is well formed and whose
binding values, normalised, are fixed by `canon g` -/
def FixCall (g : Bytes → Bytes) (c : Call2) : Prop := canonCall2 g (normCall2 c) = normCall2 c

theorem fixCall_of (g : Bytes → Bytes) (c : Call2) (hw : wfCall2 c = true)
    (hb : (c.binds.map normBind).map (canonBind g) = c.binds.map normBind) : FixCall g c := by
  simp only [wfCall2, Bool.and_eq_true] at hw
  simp only [FixCall, canonCall2, normCall2, hb, canonWild_wf g c.wildcard hw.1.2, canonMods_norm g c.mods hw.2]

theorem fixCall_canon (g : Bytes → Bytes) (hg : GOK g) (c : Call2) (hr : wfCall2Raw c = true)
    (hw : wfCall2 (canonCall2 g c) = true) : FixCall g (canonCall2 g c) := by
  apply fixCall_of g _ hw
  simp only [wfCall2Raw, Bool.and_eq_true] at hr
  simp only [wfCall2, canonCall2, Bool.and_eq_true] at hw
  exact map_canonBind_norm_fixed g hg c.binds hr.1.1.2 hw.1.1.2

/-- what the parser holds for an accepted call statement is well formed, up to F6b, F26 and a
duplicate modifier id -/
theorem parseCall2G_wf (g : Bytes → Bytes) (hg : GOK g) (src : Bytes) (c : Call2)
    (h : parseCall2G g src = some c) (hs : call2StrsValid c = true) (hz : call2NoNegZero c = true)
    (hd : modsDistinct c = true) : wfCall2 c = true := by
  obtain ⟨c0, h0, rfl⟩ := parseCall2G_inv h
  exact wfCall2_canon g hg c0 (parseCall2_range src c0 h0) hs hz hd

theorem format_accepted_call2 (g : Bytes → Bytes) (hg : GOK g) (src : Bytes) (c : Call2)
    (h : parseCall2G g src = some c) (hs : call2StrsValid c = true) (hz : call2NoNegZero c = true)
    (hd : modsDistinct c = true) :
    parseCall2G g (fmtCall2 [] c) = some (normCall2 c) ∧ fmtCall2 [] (normCall2 c) = fmtCall2 [] c ∧
      parseCall2G g (fmtCall2 [] (normCall2 c)) = some (normCall2 c) := by
  obtain ⟨c0, h0, rfl⟩ := parseCall2G_inv h
  have hr := parseCall2_range src c0 h0
  have hw := wfCall2_canon g hg c0 hr hs hz hd
  have hfix : canonCall2 g (normCall2 (canonCall2 g c0)) = normCall2 (canonCall2 g c0) :=
    fixCall_canon g hg c0 hr hw
  have h1 : parseCall2G g (fmtCall2 [] (canonCall2 g c0)) = some (normCall2 (canonCall2 g c0)) := by
    simp only [parseCall2G, parseCall2_fmtCall2 _ hw, Option.map_some, hfix]
  refine ⟨h1, fmtCall2_norm [] _ hw, ?_⟩
  rw [fmtCall2_norm [] _ hw]
  exact h1

/-! ## `return`, `retain`, the statements of a pipeline -/

theorem wfRet_canon (g : Bytes → Bytes) (hg : GOK g) (r : Ret) (hr : wfRetRaw r = true)
    (hs : retStrsValid (canonRet g r) = true) (hz : retNoNegZero (canonRet g r) = true) :
    wfRet (canonRet g r) = true := by
  simp only [wfRetRaw, Bool.and_eq_true] at hr
  simp only [wfRet, canonRet, Bool.and_eq_true, canonWild_raw g r.wildcard hr.2, any_split_canon]
  exact ⟨⟨all_wfBind_canon g hg r.binds hr.1.1 hs hz, hr.1.2⟩, wfWildOpt_of_raw _ hr.2⟩

theorem canonRet_norm_fixed (g : Bytes → Bytes) (hg : GOK g) (r : Ret) (hr : wfRetRaw r = true)
    (hw : wfRet (canonRet g r) = true) :
    canonRet g (normRet (canonRet g r)) = normRet (canonRet g r) := by
  simp only [wfRetRaw, Bool.and_eq_true] at hr
  simp only [wfRet, canonRet, Bool.and_eq_true] at hw
  simp only [canonRet, normRet, map_canonBind_norm_fixed g hg r.binds hr.1.1 hw.1.1, canonWild_wf g _ hw.2]

theorem map_canon_refs (g : Bytes → Bytes) (rs : List Exp) (h : wfPRetainRaw rs = true) :
    rs.map (canon g) = rs := by
  unfold wfPRetainRaw at h
  induction rs with
  | nil => rfl
  | cons e r ih =>
    simp only [List.all_cons, Bool.and_eq_true] at h
    simp only [List.map_cons, canon_ref g e h.1.1, ih h.2]

theorem wfPRetain_of_raw (rs : List Exp) (h : wfPRetainRaw rs = true) : wfPRetain rs = true := by
  unfold wfPRetainRaw at h
  unfold wfPRetain
  induction rs with
  | nil => rfl
  | cons e r ih =>
    simp only [List.all_cons, Bool.and_eq_true] at h ⊢
    exact ⟨⟨h.1.1, by rw [wf_ref e h.1.1]; exact h.1.2⟩, ih h.2⟩

theorem canonRetain_raw (g : Bytes → Bytes) (rt : Option (List Exp))
    (h : (match rt with | some rs => wfPRetainRaw rs | none => true) = true) :
    rt.map (List.map (canon g)) = rt := by
  cases rt with
  | none => rfl
  | some rs => simp only [Option.map_some, map_canon_refs g rs h]

theorem all_wfCall2_canon (g : Bytes → Bytes) (hg : GOK g) (cs : List Call2) (hr : cs.all wfCall2Raw = true)
    (hs : (cs.map (canonCall2 g)).all call2StrsValid = true)
    (hz : (cs.map (canonCall2 g)).all call2NoNegZero = true)
    (hd : (cs.map (canonCall2 g)).all modsDistinct = true) :
    (cs.map (canonCall2 g)).all wfCall2 = true := by
  induction cs with
  | nil => rfl
  | cons c r ih =>
    simp only [List.map_cons, List.all_cons, Bool.and_eq_true] at hr hs hz hd ⊢
    exact ⟨wfCall2_canon g hg c hr.1 hs.1 hz.1 hd.1, ih hr.2 hs.2 hz.2 hd.2⟩

theorem wfBody_canon (g : Bytes → Bytes) (hg : GOK g) (b : Body) (hr : wfBodyRaw b = true)
    (hs : bodyStrsValid (canonBody g b) = true) (hz : bodyNoNegZero (canonBody g b) = true)
    (hd : bodyModsDistinct (canonBody g b) = true) : wfBody (canonBody g b) = true := by
  simp only [wfBodyRaw, Bool.and_eq_true] at hr
  simp only [bodyStrsValid, bodyNoNegZero, canonBody, Bool.and_eq_true] at hs hz
  simp only [bodyModsDistinct, canonBody] at hd
  simp only [wfBody, canonBody, Bool.and_eq_true, canonRetain_raw g b.retain hr.2]
  refine ⟨⟨all_wfCall2_canon g hg b.calls hr.1.1 hs.1 hz.1 hd, wfRet_canon g hg b.ret hr.1.2 hs.2 hz.2⟩, ?_⟩
  have h2 := hr.2
  cases hrt : b.retain with
  | none => rfl
  | some rs =>
    rw [hrt] at h2
    exact wfPRetain_of_raw rs h2

/-- every call of `canonBody g b` is fixed in normal form -/
theorem fixCall_body (g : Bytes → Bytes) (hg : GOK g) (b : Body) (hr : wfBodyRaw b = true)
    (hw : wfBody (canonBody g b) = true) : ∀ c ∈ (canonBody g b).calls, FixCall g c := by
  intro c hc
  simp only [canonBody, List.mem_map] at hc
  obtain ⟨c0, hc0, rfl⟩ := hc
  simp only [wfBodyRaw, Bool.and_eq_true] at hr
  simp only [wfBody, canonBody, Bool.and_eq_true] at hw
  exact fixCall_canon g hg c0 (List.all_eq_true.mp hr.1.1 c0 hc0)
    (List.all_eq_true.mp hw.1.1 _ (List.mem_map_of_mem hc0))

end Martian.FormatCallText
