/-
Name lengths for C11: how long a fork directory name / a journal file name is
as a function of the map key (model: Martian/ForkName.lean).  Core Lean only.
-/
import Martian.ForkName
import Martian.ForkNameBatch
import Proofs.ForkName
import Gen.Facts

namespace Martian.ForkName

theorem escByte_length (c : UInt8) : (escByte c).length = if shouldEscape c then 3 else 1 := by
  unfold escByte pctEncode
  split <;> simp

theorem pathEscape_length (k : Bytes) : (pathEscape k).length = k.length + 2 * escCount k := by
  induction k with
  | nil => rfl
  | cons c r ih =>
    simp only [pathEscape, List.length_append, escByte_length, ih, escCount, List.countP_cons, List.length_cons]
    by_cases h : shouldEscape c = true
    · simp only [h, if_true]; omega
    · simp only [h, Bool.false_eq_true, if_false]; omega

theorem escCount_le (k : Bytes) : escCount k ≤ k.length := List.countP_le_length

theorem escCount_zero (k : Bytes) (h : k.all (fun c => !shouldEscape c) = true) : escCount k = 0 := by
  unfold escCount
  rw [List.countP_eq_zero]
  intro c hc
  have := List.all_eq_true.mp h c hc
  simpa using this

theorem mapForkDir_length (k : Bytes) : (mapForkDir k).length = 5 + k.length + 2 * escCount k := by
  simp [mapForkDir, sForkU, pathEscape_length]; omega

/-! ## journal encoding of an escaped key -/

/-- per byte: what `encodeJournalName ∘ makeKeySafe` makes of it is at most 5 bytes -/
def jencEscOK (c : UInt8) : Bool := (journalEnc Gen.journalPairs (escByte c)).length ≤ 5

set_option maxRecDepth 100000 in
theorem jencEscOK_all : ∀ c : UInt8, jencEscOK c = true := by
  apply forall_byte
  decide

theorem journalEnc_pathEscape_length (k : Bytes) :
    (journalEnc Gen.journalPairs (pathEscape k)).length ≤ 5 * k.length := by
  induction k with
  | nil => simp [pathEscape, journalEnc]
  | cons c r ih =>
    have hc := jencEscOK_all c
    simp only [jencEscOK, decide_eq_true_eq] at hc
    simp only [pathEscape, journalEnc_append, List.length_append, List.length_cons]
    omega

theorem journalEnc_mapForkDir_length (k : Bytes) :
    (journalEnc Gen.journalPairs (mapForkDir k)).length ≤ 5 + 5 * k.length := by
  unfold mapForkDir
  rw [journalEnc_append, List.length_append]
  have h1 : (journalEnc Gen.journalPairs sForkU).length = 5 := by decide
  have := journalEnc_pathEscape_length k
  omega

theorem render_length (x : JName) :
    x.render.length = x.fqid.length + 5 + x.forkPart.length +
      (match x.chunk with | some d => 5 + d.length | none => 0) +
      (match x.uniq with | some u => 2 + u.length | none => 0) + 1 + x.file.length := by
  obtain ⟨fqid, fp, chunk, uniq, file⟩ := x
  cases chunk <;> cases uniq <;>
    simp [JName.render, sDotFork, sDotChnk, sDotU] <;> omega

end Martian.ForkName
