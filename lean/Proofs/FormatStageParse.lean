import Martian.FormatStage
import Proofs.FormatDeclParse
import Proofs.FormatResParse

/-!
C09: the token layer of the round trip of whole `stage` declarations: the token
sequence `toksStage s` of the printed declaration, and `pStage` reads it back as
`s`, leaving whatever token list follows (which must not begin with `split`,
`using` or `retain`: `stageEnd`).

Core Lean only.
-/

namespace Martian.FormatStage
open Martian.Lexer (Bytes)
open Martian.FormatExp
open Martian.FormatCall (tLP tRP)
open Martian.FormatDecl (Param toksParams toksParam pInParams pOutParams wfParam headKw sIn sOut
  pInParams_toks pOutParams_toks headKw_in_outs headKw_toksParam mode)
open Martian.FormatRes (Lang Res toksSrc toksTail toksRes toksRetain pSrc pSrc_toks pTail_toks NotId
  sStage sSrc sUsing sRetain wfSrc wfRes wfRetain)

/-! ## tokens -/

/-- the tokens of `fmtSplit s`: `) split (` and the chunk parameters -/
def toksSplit (s : Stage) : List Tok :=
  if s.split then tRP :: .id sSplit :: tLP :: (toksParams s.chunkIns ++ toksParams s.chunkOuts) else []

/-- the tokens of `fmtStage s` -/
def toksStage (s : Stage) : List Tok :=
  .reserved sStage :: .id s.id :: tLP ::
    (toksParams s.ins ++ toksParams s.outs ++ toksSrc s.lang s.path s.args ++ toksSplit s ++
      toksTail s.res s.retain)

/-- what may follow a stage declaration: not `split`, `using` or `retain`
(with which the declaration would go on) -/
def stageEnd : List Tok → Bool
  | .id w :: _ => w != sSplit && w != sUsing && w != sRetain
  | _ => true

theorem stageEnd_notId {rest : List Tok} (h : stageEnd rest = true) :
    NotId sSplit rest ∧ NotId sUsing rest ∧ NotId sRetain rest := by
  cases rest with
  | nil => exact ⟨trivial, trivial, trivial⟩
  | cons t r =>
    cases t <;> try exact ⟨trivial, trivial, trivial⟩
    simp only [stageEnd, Bool.and_eq_true, bne_iff_ne, ne_eq] at h
    exact ⟨h.1.1, h.1.2, h.2⟩

theorem stageEnd_nil : stageEnd [] = true := rfl

/-! ## heads -/

/-- the clauses after the parameter blocks start with `)` -/
theorem toksTail_cons (res : Option Res) (ret : Option (List Bytes)) (rest : List Tok) :
    ∃ r, toksTail res ret ++ rest = tRP :: r := by
  cases res <;> cases ret <;> simp [toksTail, toksRes, toksRetain]

/-- … and the token after that `)` is `using`, `retain` or the head of what follows -/
theorem toksTail_second (res : Option Res) (ret : Option (List Bytes)) (rest : List Tok)
    (h : NotId sSplit rest) : ∃ r, toksTail res ret ++ rest = tRP :: r ∧ NotId sSplit r := by
  have h1 : sUsing ≠ sSplit := by decide
  have h2 : sRetain ≠ sSplit := by decide
  cases res with
  | none =>
    cases ret with
    | none => exact ⟨rest, by simp [toksTail], h⟩
    | some ids =>
      refine ⟨(toksTail none (some ids) ++ rest).tail, ?_, ?_⟩ <;>
        simp [toksTail, toksRetain, NotId, h2]
  | some r =>
    cases ret with
    | none =>
      refine ⟨(toksTail (some r) none ++ rest).tail, ?_, ?_⟩ <;>
        simp [toksTail, toksRes, NotId, h1]
    | some ids =>
      refine ⟨(toksTail (some r) (some ids) ++ rest).tail, ?_, ?_⟩ <;>
        simp [toksTail, toksRes, NotId, h1]

theorem headKw_src (w : Bytes) (hw : w ≠ sSrc) (lang : Lang) (path : Bytes) (args : List Bytes)
    (rest : List Tok) : headKw w (toksSrc lang path args ++ rest) = false := by
  simp only [toksSrc, List.cons_append, headKw, beq_eq_false_iff_ne, ne_eq]
  exact fun e => hw e.symm

theorem headKw_rp (w : Bytes) (r : List Tok) : headKw w (tRP :: r) = false := rfl

/-! ## the split block -/

theorem pSplit_none (f : Nat) (r : List Tok) (h : NotId sSplit r) :
    pSplit f (tRP :: r) = some ((false, [], []), tRP :: r) := by
  cases r with
  | nil => rfl
  | cons t r' =>
    cases t <;> try rfl
    rename_i w
    simp only [NotId] at h
    simp [pSplit, h]

theorem pSplit_some (f : Nat) (ci co : List Param) (r : List Tok)
    (hwi : ci.all wfParam = true) (hwo : co.all wfParam = true)
    (hi : ci.all isIn = true) (ho : co.all isOut = true)
    (hf : (toksParams ci).length + (toksParams co).length < f) :
    pSplit f (tRP :: .id sSplit :: tLP :: (toksParams ci ++ toksParams co ++ tRP :: r)) =
      some ((true, ci, co), tRP :: r) := by
  have h1 := pInParams_toks ci f (toksParams co ++ tRP :: r) hwi hi (by omega)
    (headKw_in_outs co (tRP :: r) ho rfl)
  have h2 := pOutParams_toks co f (tRP :: r) hwo ho (by omega) rfl
  simp only [pSplit, and_self, ↓reduceIte, skipUsing, pChunk, List.append_assoc, h1, h2]

/-- the `split using (` spelling reads the same as `split (` -/
theorem pSplit_using (f : Nat) (ts : List Tok) :
    pSplit f (tRP :: .id sSplit :: .id sUsing :: tLP :: ts) = pSplit f (tRP :: .id sSplit :: tLP :: ts) := by
  simp [pSplit, skipUsing]

/-! ## the whole declaration -/

theorem wfStage_parts {s : Stage} (h : wfStage s = true) :
    isIdent s.id = true ∧
    s.ins.all wfParam = true ∧ s.ins.all isIn = true ∧ s.outs.all wfParam = true ∧ s.outs.all isOut = true ∧
    s.chunkIns.all wfParam = true ∧ s.chunkIns.all isIn = true ∧ s.chunkOuts.all wfParam = true ∧
    s.chunkOuts.all isOut = true ∧ (s.split = false → s.chunkIns = [] ∧ s.chunkOuts = []) ∧
    wfSrc s.path s.args = true ∧ (match s.res with | some r => wfRes r | none => true) = true ∧
    (match s.retain with | some ids => wfRetain ids | none => true) = true := by
  simp only [wfStage, Bool.and_eq_true, Bool.or_eq_true, List.isEmpty_iff] at h
  obtain ⟨⟨⟨⟨⟨⟨⟨⟨⟨⟨⟨⟨a, b⟩, c⟩, d⟩, e⟩, f⟩, g⟩, i⟩, j⟩, k⟩, l⟩, m⟩, n⟩ := h
  refine ⟨a, b, c, d, e, f, g, i, j, ?_, l, m, n⟩
  intro hs
  rcases k with k | k
  · rw [hs] at k; exact absurd k (by decide)
  · exact k

theorem pSplit_toks (s : Stage) (hw : wfStage s = true) (f : Nat) (rest : List Tok)
    (hf : (toksParams s.chunkIns).length + (toksParams s.chunkOuts).length < f)
    (hr : NotId sSplit rest) :
    ∃ r, toksTail s.res s.retain ++ rest = tRP :: r ∧
      pSplit f (toksSplit s ++ (toksTail s.res s.retain ++ rest)) =
        some ((s.split, s.chunkIns, s.chunkOuts), tRP :: r) := by
  obtain ⟨_, _, _, _, _, h6, h7, h8, h9, h10, _, _, _⟩ := wfStage_parts hw
  obtain ⟨r, e, hn⟩ := toksTail_second s.res s.retain rest hr
  refine ⟨r, e, ?_⟩
  rw [e]
  cases hs : s.split with
  | false =>
    obtain ⟨e1, e2⟩ := h10 hs
    simp only [toksSplit, hs, Bool.false_eq_true, ↓reduceIte, List.nil_append, e1, e2]
    exact pSplit_none f r hn
  | true =>
    simp only [toksSplit, hs, ↓reduceIte, List.cons_append, List.append_assoc]
    have := pSplit_some f s.chunkIns s.chunkOuts r h6 h8 h7 h9 hf
    simpa only [List.append_assoc] using this

/-- **Token layer, body.**  Any fuel above the number of parameter tokens. -/
theorem pStageBody_toks (s : Stage) (hw : wfStage s = true) (f : Nat) (rest : List Tok)
    (hf : (toksParams s.ins).length + (toksParams s.outs).length + (toksParams s.chunkIns).length +
      (toksParams s.chunkOuts).length < f)
    (hr : stageEnd rest = true) :
    pStageBody f s.id (toksParams s.ins ++ toksParams s.outs ++ toksSrc s.lang s.path s.args ++
      toksSplit s ++ toksTail s.res s.retain ++ rest) = some (s, rest) := by
  obtain ⟨hr1, hr2, hr3⟩ := stageEnd_notId hr
  obtain ⟨_, h2, h3, h4, h5, _, _, _, _, _, h11, h12, _⟩ := wfStage_parts hw
  have hin : sIn ≠ sSrc := by decide
  have hout : sOut ≠ sSrc := by decide
  have e0 : toksParams s.ins ++ toksParams s.outs ++ toksSrc s.lang s.path s.args ++
      toksSplit s ++ toksTail s.res s.retain ++ rest =
      toksParams s.ins ++ (toksParams s.outs ++ (toksSrc s.lang s.path s.args ++
        (toksSplit s ++ (toksTail s.res s.retain ++ rest)))) := by
    simp only [List.append_assoc]
  have a1 := pInParams_toks s.ins f (toksParams s.outs ++ (toksSrc s.lang s.path s.args ++
      (toksSplit s ++ (toksTail s.res s.retain ++ rest)))) h2 h3 (by omega)
    (headKw_in_outs s.outs _ h5 (headKw_src sIn hin _ _ _ _))
  have a2 := pOutParams_toks s.outs f (toksSrc s.lang s.path s.args ++
      (toksSplit s ++ (toksTail s.res s.retain ++ rest))) h4 h5 (by omega) (headKw_src sOut hout _ _ _ _)
  have a3 := pSrc_toks s.lang s.path s.args h11 (toksSplit s ++ (toksTail s.res s.retain ++ rest))
  obtain ⟨r, er, a4⟩ := pSplit_toks s hw f rest (by omega) hr1
  have a5 := pTail_toks s.res s.retain h12 rest hr2 hr3
  rw [er] at a5
  rw [e0]
  simp only [pStageBody, a1, a2, a3, a4, a5]

/-- **Token layer, whole stage declarations.**  `pStage` reads the tokens of
a well-formed stage back as the stage and returns what follows, provided that
does not begin with `split`, `using` or `retain`. -/
theorem pStage_toks (s : Stage) (hw : wfStage s = true) (rest : List Tok) (hr : stageEnd rest = true) :
    pStage (toksStage s ++ rest) = some (s, rest) := by
  have e : toksStage s ++ rest = .reserved sStage :: .id s.id :: tLP ::
      (toksParams s.ins ++ toksParams s.outs ++ toksSrc s.lang s.path s.args ++ toksSplit s ++
        toksTail s.res s.retain ++ rest) := by
    simp only [toksStage, List.cons_append, List.append_assoc]
  rw [e]
  have hlen : (toksParams s.ins).length + (toksParams s.outs).length + (toksParams s.chunkIns).length +
      (toksParams s.chunkOuts).length < (Tok.reserved sStage :: .id s.id :: tLP ::
        (toksParams s.ins ++ toksParams s.outs ++ toksSrc s.lang s.path s.args ++ toksSplit s ++
          toksTail s.res s.retain ++ rest)).length + 1 := by
    obtain ⟨_, _, _, _, _, _, _, _, _, h10, _, _, _⟩ := wfStage_parts hw
    cases hs : s.split with
    | false =>
      obtain ⟨e1, e2⟩ := h10 hs
      simp only [List.length_cons, List.length_append, e1, e2, toksParams, List.length_nil]
      omega
    | true =>
      simp only [List.length_cons, List.length_append, toksSplit, hs, ↓reduceIte]
      omega
  have h := pStageBody_toks s hw _ rest hlen hr
  simp only [pStage, and_self, ↓reduceIte]
  exact h

theorem pStageAll_toks (s : Stage) (hw : wfStage s = true) : pStageAll (toksStage s) = some s := by
  have h := pStage_toks s hw [] rfl
  rw [List.append_nil] at h
  simp only [pStageAll, h]

/-! ## examples (used by the non-vacuity statements of Props/C09.lean) -/

open Martian.FormatDecl (sInt sPath sFloat sBool) in
/-- the example of the non-vacuity statements: `stage S(in int a "h", in path[] b…(31 bytes),
out float, out map<json.gz[]>[] x "h…(21 bytes)" "o", src comp "bin/x -a b",) split (in int chunk
"c", out bool "" "on",) using (mem_gb = -0.5, special = "hi", threads = 1e+06, vmem_gb = 1.5,
volatile = strict,) retain (x, retain,)` -/
def exampleStage : Stage :=
  { id := [0x53],
    ins := [⟨⟨⟨[sInt], 0, 0⟩, [0x61], [0x68], []⟩, false⟩,
            ⟨⟨⟨[sPath], 1, 0⟩, List.replicate 31 0x62, [], []⟩, false⟩],
    outs := [⟨⟨⟨[sFloat], 0, 0⟩, sDefault, [], []⟩, true⟩,
             ⟨⟨⟨[[0x6A, 0x73, 0x6F, 0x6E], [0x67, 0x7A]], 1, 2⟩, [0x78], List.replicate 21 0x68, [0x6F]⟩, true⟩],
    lang := .comp, path := [0x62, 0x69, 0x6E, 0x2F, 0x78], args := [[0x2D, 0x61], [0x62]],
    split := true,
    chunkIns := [⟨⟨⟨[sInt], 0, 0⟩, [0x63, 0x68, 0x75, 0x6E, 0x6B], [0x63], []⟩, false⟩],
    chunkOuts := [⟨⟨⟨[sBool], 0, 0⟩, sDefault, [], [0x6F, 0x6E]⟩, true⟩],
    res := some ⟨some (-512), some [0x68, 0x69], some [0x31, 0x65, 0x2B, 0x30, 0x36], some 1536, some true⟩,
    retain := some [[0x78], sRetain] }

open Martian.FormatDecl (sPath sFloat) in
/-- the same stage with an id of 30 and a help text of 20 bytes: at the thresholds, not over them -/
def exampleStage30 : Stage :=
  { exampleStage with
    ins := [⟨⟨⟨[sPath], 1, 0⟩, List.replicate 30 0x62, [], []⟩, false⟩],
    outs := [⟨⟨⟨[sFloat], 0, 0⟩, [0x78], List.replicate 20 0x68, [0x6F]⟩, true⟩] }

end Martian.FormatStage
