import Martian.FormatExp
import Proofs.Lexer

/-!
C09: numeric tokens of the value-expression printer.

* `numTok_append`: the numeric token found at the head of a text does not
  depend on what follows a terminator byte (`,` `]` `}` newline, space).
* `fmtInt_lex`: the printed form of an `int64` is exactly one NUM_INT token and
  `parseInt` reads it back as the same number.

Core Lean only.
-/

namespace Martian.FormatExp
open Martian.Lexer

/-- a byte that can follow a printed value: `,` `]` `}` newline, space -/
def isTerm (c : UInt8) : Bool := c == 0x2C || c == 0x5D || c == 0x7D || c == 0x0A || c == 0x20

/-- what the matchers need to know about a terminator -/
structure TermFacts (c : UInt8) : Prop where
  digit : isDigit c = false
  word : isWord c = false
  dot : (c == 0x2E) = false
  plus : (c == 0x2B) = false
  minus : (c == 0x2D) = false
  e : (c == 0x65) = false
  E : (c == 0x45) = false

theorem isTerm_facts {c : UInt8} (hc : isTerm c = true) : TermFacts c := by
  simp only [isTerm, Bool.or_eq_true, beq_iff_eq] at hc
  rcases hc with (((h | h) | h) | h) | h <;> subst h <;> constructor <;> decide

/-! ## the matchers stop at a terminator -/

theorem spanDigits_append {c : UInt8} (r : Bytes) (hd : isDigit c = false) :
    ∀ a : Bytes, spanDigits (a ++ c :: r) = ((spanDigits a).1, (spanDigits a).2 ++ c :: r)
  | [] => by simp [spanDigits, hd]
  | x :: a => by
    have ih := spanDigits_append r hd a
    by_cases hx : isDigit x = true
    · simp only [List.cons_append, spanDigits, hx, ↓reduceIte, ih]
    · simp only [List.cons_append, spanDigits, hx, Bool.false_eq_true, ↓reduceIte]

theorem boundary_append {c : UInt8} (r : Bytes) (hw : isWord c = false) (a : Bytes) :
    boundary (a ++ c :: r) = boundary a := by
  cases a with
  | nil => simp [boundary, hw]
  | cons x a => simp [boundary]

theorem optSign_append {c : UInt8} (r : Bytes) (F : TermFacts c) (a : Bytes) :
    optSign (a ++ c :: r) = ((optSign a).1, (optSign a).2 ++ c :: r) := by
  cases a with
  | nil => simp [optSign, F.plus, F.minus]
  | cons x a =>
    by_cases hx : (x == 0x2B || x == 0x2D) = true
    · simp only [List.cons_append, optSign, hx, ↓reduceIte]
    · simp only [List.cons_append, optSign, hx, Bool.false_eq_true, ↓reduceIte]

theorem optMinus_append {c : UInt8} (r : Bytes) (F : TermFacts c) (a : Bytes) :
    optMinus (a ++ c :: r) = ((optMinus a).1, (optMinus a).2 ++ c :: r) := by
  cases a with
  | nil => simp [optMinus, F.minus]
  | cons x a =>
    by_cases hx : (x == 0x2D) = true
    · simp only [List.cons_append, optMinus, hx, ↓reduceIte]
    · simp only [List.cons_append, optMinus, hx, Bool.false_eq_true, ↓reduceIte]

theorem expPart_append {c : UInt8} (r : Bytes) (F : TermFacts c) (a : Bytes) :
    expPart (a ++ c :: r) = expPart a := by
  cases a with
  | nil => simp [expPart, F.e, F.E]
  | cons x a =>
    simp only [List.cons_append, expPart, optSign_append r F, spanDigits_append r F.digit,
      boundary_append r F.word]

theorem fracExp_append {c : UInt8} (r : Bytes) (F : TermFacts c) (a : Bytes) :
    fracExp (a ++ c :: r) = fracExp a := by
  cases a with
  | nil =>
    have hne : c ≠ 0x2E := by
      intro h; have := F.dot; simp [h] at this
    have h1 : fracExp (c :: r) = expPart (c :: r) := by
      unfold fracExp
      split
      · rename_i heq; injection heq with h1 _; exact absurd h1 hne
      · rfl
    have h2 : fracExp [] = expPart [] := by
      unfold fracExp; rfl
    rw [List.nil_append, h1, h2]
    exact expPart_append r F []
  | cons x a =>
    by_cases hx : x = 0x2E
    · subst hx
      simp only [List.cons_append, fracExp, spanDigits_append r F.digit, expPart_append r F]
    · have h1 : ∀ t, fracExp (x :: t) = expPart (x :: t) := by
        intro t
        unfold fracExp
        split
        · rename_i heq; injection heq with h1 _; exact absurd h1 hx
        · rfl
      rw [List.cons_append, h1, h1, ← List.cons_append]
      exact expPart_append r F (x :: a)

theorem fracOnly_append {c : UInt8} (r : Bytes) (F : TermFacts c) (a : Bytes) :
    fracOnly (a ++ c :: r) = fracOnly a := by
  cases a with
  | nil =>
    have hne : c ≠ 0x2E := by
      intro h; have := F.dot; simp [h] at this
    have h1 : fracOnly (c :: r) = none := by
      unfold fracOnly
      split
      · rename_i heq; injection heq with h1 _; exact absurd h1 hne
      · rfl
    rw [List.nil_append, h1]; rfl
  | cons x a =>
    by_cases hx : x = 0x2E
    · subst hx
      simp only [List.cons_append, fracOnly, spanDigits_append r F.digit, boundary_append r F.word]
    · have h1 : ∀ t, fracOnly (x :: t) = none := by
        intro t
        unfold fracOnly
        split
        · rename_i heq; injection heq with h1 _; exact absurd h1 hx
        · rfl
      rw [List.cons_append, h1, h1]

/-- `matchFloat` with the repaired rule (no optional colon), spelled out -/
theorem matchFloat_false (b : Bytes) : matchFloat false b =
    if (spanDigits (optMinus b).2).1 = [] then none else
    match fracExp (spanDigits (optMinus b).2).2 with
    | some t => some ((optMinus b).1 ++ (spanDigits (optMinus b).2).1 ++ t)
    | none => (fracOnly (spanDigits (optMinus b).2).2).map fun t =>
        (optMinus b).1 ++ (spanDigits (optMinus b).2).1 ++ t := by
  rfl

theorem matchFloat_append {c : UInt8} (r : Bytes) (F : TermFacts c) (a : Bytes) :
    matchFloat false (a ++ c :: r) = matchFloat false a := by
  simp only [matchFloat_false, optMinus_append r F, spanDigits_append r F.digit,
    fracExp_append r F, fracOnly_append r F]

theorem matchInt_append {c : UInt8} (r : Bytes) (F : TermFacts c) (a : Bytes) :
    matchInt (a ++ c :: r) = matchInt a := by
  simp only [matchInt, optMinus_append r F, spanDigits_append r F.digit, boundary_append r F.word]

/-- **Lemma 1.**  The numeric token at the head of a text is the same whatever
follows a terminator byte. -/
theorem numTok_append (t : Bytes) (c : UInt8) (r : Bytes) (hc : isTerm c = true) :
    numTok false (t ++ c :: r) = numTok false t := by
  have F := isTerm_facts hc
  simp only [numTok, matchFloat_append r F, matchInt_append r F]

/-! ## the decimal digits of a natural number -/

theorem digit_byte {d : Nat} (h : d < 10) :
    isDigit (UInt8.ofNat (48 + d)) = true ∧ (UInt8.ofNat (48 + d)).toNat - 48 = d := by
  have : d = 0 ∨ d = 1 ∨ d = 2 ∨ d = 3 ∨ d = 4 ∨ d = 5 ∨ d = 6 ∨ d = 7 ∨ d = 8 ∨ d = 9 := by
    omega
  rcases this with h | h | h | h | h | h | h | h | h | h <;> subst h <;> decide

theorem decValFrom_snoc (m : Nat) (ds : Bytes) (d : UInt8) :
    decValFrom m (ds ++ [d]) = 10 * decValFrom m ds + (d.toNat - 48) := by
  simp [decValFrom, List.foldl_append]

/-- with enough fuel (`n < f`) `natDigits f n` is the non-empty decimal numeral of `n` -/
theorem natDigits_spec : ∀ (f n : Nat), n < f →
    (∀ c ∈ natDigits f n, isDigit c = true) ∧ natDigits f n ≠ [] ∧
      decValFrom 0 (natDigits f n) = n
  | 0, n, h => by omega
  | f + 1, n, h => by
    unfold natDigits
    by_cases hn : n < 10
    · have ⟨h1, h2⟩ := digit_byte hn
      simp only [hn, ↓reduceIte]
      refine ⟨?_, by simp, ?_⟩
      · intro c hc
        simp only [List.mem_singleton] at hc
        subst hc; exact h1
      · rw [decValFrom_cons, h2]; simp [decValFrom]
    · have hlt : n / 10 < f := by omega
      have ⟨i1, _, i3⟩ := natDigits_spec f (n / 10) hlt
      have ⟨h1, h2⟩ := digit_byte (Nat.mod_lt n (by decide : 0 < 10))
      simp only [hn, ↓reduceIte]
      refine ⟨?_, by simp, ?_⟩
      · intro c hc
        simp only [List.mem_append, List.mem_singleton] at hc
        rcases hc with hc | hc
        · exact i1 c hc
        · subst hc; exact h1
      · rw [decValFrom_snoc, i3, h2]; omega

/-- a number below `10^(k+1)` has at most `k+1` digits -/
theorem natDigits_length : ∀ (f n k : Nat), n < f → n < 10 ^ (k + 1) →
    (natDigits f n).length ≤ k + 1
  | 0, n, k, h, _ => by omega
  | f + 1, n, k, h, hk => by
    unfold natDigits
    by_cases hn : n < 10
    · simp [hn]
    · simp only [hn, ↓reduceIte, List.length_append, List.length_singleton]
      cases k with
      | zero => simp at hk; omega
      | succ k =>
        have hlt : n / 10 < f := by omega
        have hk' : n / 10 < 10 ^ (k + 1) := by
          apply Nat.div_lt_of_lt_mul
          rw [Nat.pow_succ] at hk; omega
        have := natDigits_length f (n / 10) k hlt hk'
        omega

theorem fmtNat_spec (n : Nat) :
    (∀ c ∈ fmtNat n, isDigit c = true) ∧ fmtNat n ≠ [] ∧ decValFrom 0 (fmtNat n) = n :=
  natDigits_spec (n + 1) n (Nat.lt_succ_self n)

theorem fmtNat_length (n : Nat) (h : n < 10 ^ 19) : (fmtNat n).length ≤ 19 :=
  natDigits_length (n + 1) n 18 (Nat.lt_succ_self n) h

/-! ## an optional `-` followed by at most 19 digits is one NUM_INT token -/

theorem spanDigits_all : ∀ (ds : Bytes), (∀ c ∈ ds, isDigit c = true) → spanDigits ds = (ds, [])
  | [], _ => rfl
  | x :: ds, h => by
    have hx : isDigit x = true := h x (by simp)
    have ih := spanDigits_all ds (fun c hc => h c (by simp [hc]))
    simp only [spanDigits, hx, ↓reduceIte, ih]

theorem optMinus_sign (sg ds : Bytes) (hsg : sg = [] ∨ sg = [0x2D])
    (hd : ∀ c ∈ ds, isDigit c = true) : optMinus (sg ++ ds) = (sg, ds) := by
  rcases hsg with rfl | rfl
  · cases ds with
    | nil => rfl
    | cons x ds =>
      have hx := (isDigit_not_sign (hd x (by simp))).1
      simp only [List.nil_append, optMinus, hx, Bool.false_eq_true, ↓reduceIte]
  · rfl

theorem fracExp_nil : fracExp [] = none := by
  unfold fracExp; rfl

theorem fracOnly_nil : fracOnly [] = none := by
  unfold fracOnly; rfl

theorem digits_lex (sg ds : Bytes) (hsg : sg = [] ∨ sg = [0x2D]) (hne : ds ≠ [])
    (hd : ∀ c ∈ ds, isDigit c = true) (hlen : ds.length ≤ 19) :
    matchFloat false (sg ++ ds) = none ∧ matchInt (sg ++ ds) = some (sg ++ ds) := by
  constructor
  · rw [matchFloat_false, optMinus_sign sg ds hsg hd, spanDigits_all ds hd]
    simp only [hne, ↓reduceIte, fracExp_nil, fracOnly_nil, Option.map_none]
  · have h19 : (ds.dropWhile (· == 0x30)).length ≤ 19 :=
      Nat.le_trans (List.dropWhile_sublist _).length_le hlen
    simp only [matchInt, optMinus_sign sg ds hsg hd, spanDigits_all ds hd]
    simp [hne, h19, boundary]

/-! ## the printed integer -/

theorem fmtInt_shape (i : Int) (h : inInt64 i = true) :
    ∃ sg ds, fmtInt i = sg ++ ds ∧ (sg = [] ∨ sg = [0x2D]) ∧ ds ≠ [] ∧
      (∀ c ∈ ds, isDigit c = true) ∧ ds.length ≤ 19 ∧ intTokVal (sg ++ ds) = i := by
  simp only [inInt64, Bool.and_eq_true, decide_eq_true_eq] at h
  unfold fmtInt
  by_cases hneg : i < 0
  · have ⟨h1, h2, h3⟩ := fmtNat_spec i.natAbs
    have hl := fmtNat_length i.natAbs (by rw [pow19]; omega)
    refine ⟨[0x2D], fmtNat i.natAbs, by simp [hneg], Or.inr rfl, h2, h1, hl, ?_⟩
    simp only [List.cons_append, List.nil_append, intTokVal, beq_self_eq_true, ↓reduceIte, h3]
    omega
  · have ⟨h1, h2, h3⟩ := fmtNat_spec i.toNat
    have hl := fmtNat_length i.toNat (by rw [pow19]; omega)
    refine ⟨[], fmtNat i.toNat, by simp [hneg], Or.inl rfl, h2, h1, hl, ?_⟩
    cases hf : fmtNat i.toNat with
    | nil => exact absurd hf h2
    | cons x ds =>
      have hx := (isDigit_not_sign (h1 x (by simp [hf]))).1
      rw [hf] at h3
      simp only [List.nil_append, intTokVal, hx, Bool.false_eq_true, ↓reduceIte, h3]
      omega

/-- **Lemma 2.**  The printed form of an `int64` is one NUM_INT token, and
`parseInt` reads it back as the same number. -/
theorem fmtInt_lex (i : Int) (h : Martian.Lexer.inInt64 i = true) :
    numTok false (fmtInt i) = .int (fmtInt i) ∧ parseInt (fmtInt i) = some i := by
  obtain ⟨sg, ds, hf, hsg, hne, hd, hlen, hv⟩ := fmtInt_shape i h
  have ⟨hfl, hin⟩ := digits_lex sg ds hsg hne hd hlen
  have hp : parseInt (sg ++ ds) = some i := by
    rw [parseInt_exact hin, hv, h]; rfl
  rw [hf]
  refine ⟨?_, hp⟩
  simp only [numTok, hfl, hin, hp, Option.isSome_some, ↓reduceIte]

end Martian.FormatExp
