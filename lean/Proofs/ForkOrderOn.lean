import Martian.ForkOrder
import Proofs.ForkOrder
import Proofs.ForkOrderBij

/-! `forks_bijection` with a hypothesis a FINITE table can satisfy: the sources need to be known
only at the prefixes the enumeration really consults and at the prefixes valid picks reach
(audit pass 3, A7).  Method: `tot inner` answers every other prefix with a one-element dummy,
is known everywhere, and agrees with `inner` wherever it is consulted. -/
namespace Martian.ForkOrder
open Martian.SortKeys List

def knownAt (inner : Inner) (j : Nat) (pre : List Part) : Bool :=
  match (inner j pre).parts with
  | some (_ :: _) => true
  | _ => false

def tot (inner : Inner) : Inner := fun j pre =>
  if knownAt inner j pre then inner j pre else Elems.arr 1

theorem knownAt_parts {inner : Inner} {j : Nat} {pre : List Part} (h : knownAt inner j pre = true) :
    ∃ x xs, (inner j pre).parts = some (x :: xs) := by
  unfold knownAt at h
  split at h
  · rename_i x xs heq; exact ⟨x, xs, heq⟩
  · cases h

theorem tot_known (inner : Inner) : InnerKnown (tot inner) := by
  intro j pre
  unfold tot
  by_cases h : knownAt inner j pre = true
  · simp only [h, if_true]; exact knownAt_parts h
  · simp only [h]; exact ⟨Part.idx 0, [], by simp [Elems.parts]⟩

theorem tot_keysNodup (inner : Inner) (h : ∀ j pre, (inner j pre).KeysNodup) :
    ∀ j pre, (tot inner j pre).KeysNodup := by
  intro j pre
  unfold tot
  by_cases hk : knownAt inner j pre = true
  · simp only [hk, if_true]; exact h j pre
  · simp only [hk]; trivial

theorem tot_parts_of_known {inner : Inner} {j : Nat} {pre : List Part} (h : knownAt inner j pre = true) :
    (tot inner j pre).parts = (inner j pre).parts := by
  simp [tot, h]

/-- the prefixes at which the scans of one fork consult a source -/
def satQ (inner : Inner) : Nat → List Part → List Part → List (Nat × List Part)
  | _, _, [] => []
  | j, pre, p :: rest =>
    if p != Part.undet then satQ inner (j + 1) (pre ++ [p]) rest
    else if pre.contains Part.empty then satQ inner (j + 1) (pre ++ [Part.empty]) rest
    else (j, pre) ::
      match (inner j pre).parts with
      | none => satQ inner (j + 1) (pre ++ [Part.undet]) rest
      | some [] => satQ inner (j + 1) (pre ++ [Part.empty]) rest
      | some (x :: _) => satQ inner (j + 1) (pre ++ [x]) rest

theorem sat_tot (inner : Inner) : ∀ (rest : List Part) (j : Nat) (pre : List Part),
    (∀ q ∈ satQ inner j pre rest, knownAt inner q.1 q.2 = true) →
      sat inner j pre rest = sat (tot inner) j pre rest := by
  intro rest
  induction rest with
  | nil => intro j pre _; rfl
  | cons p rest ih =>
    intro j pre h
    by_cases hp : (p != Part.undet) = true
    · have h' : ∀ q ∈ satQ inner (j + 1) (pre ++ [p]) rest, knownAt inner q.1 q.2 = true := by
        intro q hq; apply h; simp [satQ, hp, hq]
      simp [sat, hp, ih _ _ h']
    · by_cases he : Part.empty ∈ pre
      · have h' : ∀ q ∈ satQ inner (j + 1) (pre ++ [Part.empty]) rest, knownAt inner q.1 q.2 = true := by
          intro q hq; apply h; simp [satQ, hp, he, hq]
        simp [sat, hp, he, ih _ _ h']
      · have hk : knownAt inner j pre = true := by
          apply h (j, pre); simp [satQ, hp, he]
        obtain ⟨x, xs, hparts⟩ := knownAt_parts hk
        have h' : ∀ q ∈ satQ inner (j + 1) (pre ++ [x]) rest, knownAt inner q.1 q.2 = true := by
          intro q hq; apply h; simp [satQ, hp, he, hparts, hq]
        simp [sat, hp, he, tot_parts_of_known hk, hparts, ih _ _ h']

/-- every prefix consulted while the growing list is processed -/
def bfsQ (inner : Inner) : Nat → List Fork → List (Nat × List Part)
  | 0, g => g.flatMap (satQ inner 0 [])
  | n + 1, g => g.flatMap (satQ inner 0 []) ++ bfsQ inner n (g.flatMap (kids inner))

theorem bfs_tot (inner : Inner) : ∀ (n : Nat) (g : List Fork),
    (∀ q ∈ bfsQ inner n g, knownAt inner q.1 q.2 = true) → bfs inner n g = bfs (tot inner) n g := by
  intro n
  induction n with
  | zero =>
    intro g h
    simp only [bfs]
    apply map_congr_left
    intro f hf
    have := sat_tot inner f 0 [] (fun q hq => h q (by simp only [bfsQ, mem_flatMap]; exact ⟨f, hf, hq⟩))
    simp [satFork, this]
  | succ n ih =>
    intro g h
    have hs : ∀ f ∈ g, sat inner 0 [] f = sat (tot inner) 0 [] f := by
      intro f hf
      exact sat_tot inner f 0 [] (fun q hq => h q (by
        simp only [bfsQ, mem_append, mem_flatMap]; exact Or.inl ⟨f, hf, hq⟩))
    have h1 : g.map (satFork inner) = g.map (satFork (tot inner)) :=
      map_congr_left (fun f hf => by simp [satFork, hs f hf])
    have h2 : g.flatMap (kids inner) = g.flatMap (kids (tot inner)) :=
      flatMap_congr' (fun f hf => by simp [kids, hs f hf])
    simp only [bfs, h1]
    rw [← h2]
    congr 1
    exact ih _ (fun q hq => h q (by simp only [bfsQ, mem_append]; exact Or.inr hq))

/-- every source that a VALID pick sequence reaches is known and not empty -/
def validKnown (inner : Inner) : Nat → List Part → List Root → Bool
  | _, _, [] => true
  | j, pre, r :: rs =>
    (match r with
     | .dyn => knownAt inner j pre
     | .static _ => true)
    && (choices inner r j pre).all fun p => validKnown inner (j + 1) (pre ++ [p]) rs

theorem allForks_tot (inner : Inner) : ∀ (rs : List Root) (j : Nat) (pre : List Part),
    validKnown inner j pre rs = true → allForks inner j pre rs = allForks (tot inner) j pre rs := by
  intro rs
  induction rs with
  | nil => intro j pre _; rfl
  | cons r rs ih =>
    intro j pre h
    simp only [validKnown, Bool.and_eq_true, all_eq_true] at h
    have hc : choices (tot inner) r j pre = choices inner r j pre := by
      cases r with
      | static e => rfl
      | dyn => simp only [choices]; rw [tot_parts_of_known h.1]
    simp only [allForks, hc]
    apply flatMap_congr'
    intro p hp
    rw [ih (j + 1) (pre ++ [p]) (h.2 p hp)]

/-- the hypothesis a finite table can satisfy, as one executable check -/
def knownWhereNeeded (roots : List Root) (inner : Inner) : Bool :=
  (bfsQ inner roots.length (product (roots.map Root.initParts))).all (fun q => knownAt inner q.1 q.2)
    && validKnown inner 0 [] roots

theorem forks_bijection_on (roots : List Root) (inner : Inner) (hs : StaticKnown roots)
    (hK : knownWhereNeeded roots inner = true)
    (hSN : ∀ r ∈ roots, ∀ e, r = Root.static e → e.KeysNodup)
    (hIN : ∀ j pre, (inner j pre).KeysNodup) :
    (forkOrder roots inner).Nodup ∧
      ∀ t, t ∈ forkOrder roots inner ↔ Valid inner 0 [] roots t := by
  simp only [knownWhereNeeded, Bool.and_eq_true, all_eq_true] at hK
  have h1 : forkOrder roots inner = forkOrder roots (tot inner) := by
    unfold forkOrder
    exact bfs_tot inner _ _ hK.1
  have h2 := allForks_tot inner roots 0 [] hK.2
  have hp := forkOrder_perm_allForks roots (tot inner) hs (tot_known inner)
  rw [← h1, ← h2] at hp
  refine ⟨hp.nodup_iff.mpr ?_, ?_⟩
  · rw [h2]; exact allForks_nodup (tot inner) (tot_keysNodup inner hIN) roots 0 [] hSN
  · intro t
    rw [hp.mem_iff]
    exact mem_allForks inner roots 0 [] t

end Martian.ForkOrder
