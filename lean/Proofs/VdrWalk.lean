import Martian.VdrWalk
import Proofs.VdrFs
import Proofs.VdrRefuse
import Proofs.VdrAll

/-! What the walk enumerates has only real directories above it (below the
root of the walk): `ParentsReal` for walked entries is a theorem about the
walk, not an assumption. -/
namespace Martian.Vdr

def seg (p : Path) : Path := p.takeWhile (fun c => c != '/')

theorem seg_append {n t : Path} (hn : n.contains '/' = false) (ht : t = [] ∨ t.head? = some '/') :
    seg (n ++ t) = n := by
  induction n with
  | nil =>
    rcases ht with rfl | ht
    · rfl
    · cases t with
      | nil => simp at ht
      | cons c r => simp at ht; subst ht; simp [seg]
  | cons c r ih =>
    simp only [List.contains_cons, Bool.or_eq_false_iff] at hn
    have hc : (c != '/') = true := by
      have := hn.1
      simp only [beq_eq_false_iff_ne, ne_eq] at this
      simpa using fun h => this h.symm
    simp only [seg, List.cons_append, List.takeWhile_cons, hc, if_true]
    congr 1
    exact ih hn.2

theorem seg_prefix {a b : Path} (h : a <+: b) (hs : '/' ∈ a) : seg a = seg b := by
  induction a generalizing b with
  | nil => cases hs
  | cons c r ih =>
    obtain ⟨t, rfl⟩ := h
    by_cases hc : c = '/'
    · subst hc; simp [seg]
    · have hc' : (c != '/') = true := by simpa using hc
      simp only [seg, List.cons_append, List.takeWhile_cons, hc', if_true]
      congr 1
      apply ih ⟨t, rfl⟩
      rcases List.mem_cons.mp hs with h | h
      · exact absurd h.symm hc
      · exact h

/-- `p` is `root/n` or lies below it -/
def Under (root n p : Path) : Prop := ∃ s, p = root ++ '/' :: n ++ s ∧ (s = [] ∨ s.head? = some '/')

theorem Under.self (root n : Path) : Under root n (root ++ '/' :: n) := ⟨[], by simp, Or.inl rfl⟩

theorem Under.deeper {root n m p : Path} (h : Under (root ++ '/' :: n) m p) : Under root n p := by
  obtain ⟨s, rfl, _⟩ := h
  exact ⟨'/' :: m ++ s, by simp, Or.inr (by simp)⟩

theorem under_prefix {root n1 n2 a b : Path} (h1 : n1.contains '/' = false) (h2 : n2.contains '/' = false)
    (ha : Under root n1 a) (hb : Under root n2 b) (h : (a ++ ['/']) <+: b) : n1 = n2 := by
  obtain ⟨s1, rfl, hs1⟩ := ha
  obtain ⟨s2, rfl, hs2⟩ := hb
  have h' : (n1 ++ (s1 ++ ['/'])) <+: (n2 ++ s2) := by
    have : (root ++ '/' :: (n1 ++ (s1 ++ ['/']))) <+: (root ++ '/' :: (n2 ++ s2)) := by simpa using h
    have := (List.prefix_append_right_inj root).mp this
    simpa using (List.prefix_cons_inj '/').mp this
  have hslash : '/' ∈ n1 ++ (s1 ++ ['/']) := by simp
  have e := seg_prefix h' hslash
  have t1 : s1 ++ ['/'] = [] ∨ (s1 ++ ['/']).head? = some '/' := by
    rcases hs1 with rfl | hs
    · exact Or.inr rfl
    · cases s1 with
      | nil => simp at hs
      | cons c r => exact Or.inr (by simpa using hs)
  rw [seg_append h1 t1, seg_append h2 hs2] at e
  exact e

theorem prefix_slash_len {a b : Path} (h : (a ++ ['/']) <+: b) : a.length < b.length := by
  have := h.length_le
  simp at this
  omega

theorem wf_names : ∀ (t : FsTree), t.wf = true → ∀ n ∈ t.names, n.contains '/' = false := by
  intro t
  induction t with
  | nil => intro _ n hn; cases hn
  | file n _ r ih =>
    intro h m hm
    simp only [FsTree.wf, Bool.and_eq_true, Bool.not_eq_true'] at h
    rcases List.mem_cons.mp hm with rfl | hm
    · exact h.1.1.2
    · exact ih h.2 m hm
  | link n _ r ih =>
    intro h m hm
    simp only [FsTree.wf, Bool.and_eq_true, Bool.not_eq_true'] at h
    rcases List.mem_cons.mp hm with rfl | hm
    · exact h.1.1.2
    · exact ih h.2 m hm
  | dir n ch r _ ih =>
    intro h m hm
    simp only [FsTree.wf, Bool.and_eq_true, Bool.not_eq_true'] at h
    rcases List.mem_cons.mp hm with rfl | hm
    · exact h.1.1.1.2
    · exact ih h.2 m hm

theorem walkBelow_under : ∀ (t : FsTree) (root p : Path) (k : WKind), (p, k) ∈ walkBelow root t →
    ∃ n ∈ t.names, Under root n p := by
  intro t
  induction t with
  | nil => intro _ _ _ h; cases h
  | file n _ r ih =>
    intro root p k h
    simp only [walkBelow, List.mem_cons, Prod.mk.injEq] at h
    rcases h with ⟨rfl, _⟩ | h
    · exact ⟨n, List.mem_cons_self, Under.self root n⟩
    · obtain ⟨m, hm, hu⟩ := ih root p k h
      exact ⟨m, List.mem_cons_of_mem _ hm, hu⟩
  | link n _ r ih =>
    intro root p k h
    simp only [walkBelow, List.mem_cons, Prod.mk.injEq] at h
    rcases h with ⟨rfl, _⟩ | h
    · exact ⟨n, List.mem_cons_self, Under.self root n⟩
    · obtain ⟨m, hm, hu⟩ := ih root p k h
      exact ⟨m, List.mem_cons_of_mem _ hm, hu⟩
  | dir n ch r ihc ihr =>
    intro root p k h
    simp only [walkBelow, List.mem_cons, Prod.mk.injEq, List.mem_append] at h
    rcases h with ⟨rfl, _⟩ | h | h
    · exact ⟨n, List.mem_cons_self, Under.self root n⟩
    · obtain ⟨m, _, hu⟩ := ihc _ p k h
      exact ⟨n, List.mem_cons_self, hu.deeper⟩
    · obtain ⟨m, hm, hu⟩ := ihr root p k h
      exact ⟨m, List.mem_cons_of_mem _ hm, hu⟩

theorem entsBelow_under : ∀ (t : FsTree) (root : Path) (e : FsEnt), e ∈ entsBelow root t →
    ∃ n ∈ t.names, Under root n e.path := by
  intro t
  induction t with
  | nil => intro _ _ h; cases h
  | file n _ r ih =>
    intro root e h
    simp only [entsBelow, List.mem_cons] at h
    rcases h with rfl | h
    · exact ⟨n, List.mem_cons_self, Under.self root n⟩
    · obtain ⟨m, hm, hu⟩ := ih root e h
      exact ⟨m, List.mem_cons_of_mem _ hm, hu⟩
  | link n _ r ih =>
    intro root e h
    simp only [entsBelow, List.mem_cons] at h
    rcases h with rfl | h
    · exact ⟨n, List.mem_cons_self, Under.self root n⟩
    · obtain ⟨m, hm, hu⟩ := ih root e h
      exact ⟨m, List.mem_cons_of_mem _ hm, hu⟩
  | dir n ch r ihc ihr =>
    intro root e h
    simp only [entsBelow, List.mem_cons, List.mem_append] at h
    rcases h with rfl | h | h
    · exact ⟨n, List.mem_cons_self, Under.self root n⟩
    · obtain ⟨m, _, hu⟩ := ihc _ e h
      exact ⟨n, List.mem_cons_self, hu.deeper⟩
    · obtain ⟨m, hm, hu⟩ := ihr root e h
      exact ⟨m, List.mem_cons_of_mem _ hm, hu⟩

/-- a link below the root of the walk is not above anything the walk reports -/
theorem walkBelow_no_link_above : ∀ (t : FsTree), t.wf = true → ∀ (root p : Path) (k : WKind),
    (p, k) ∈ walkBelow root t → ∀ e ∈ entsBelow root t, e.link ≠ none → ¬ ((e.path ++ ['/']) <+: p) := by
  intro t
  induction t with
  | nil => intro _ _ _ _ h; cases h
  | file n sz r ih =>
    intro hw root p k hp e he hl hpre
    have hnames := wf_names _ hw
    simp only [FsTree.wf, Bool.and_eq_true, Bool.not_eq_true'] at hw
    have hn : n.contains '/' = false := hw.1.1.2
    have hnot : n ∉ r.names := by simpa using hw.1.2
    simp only [walkBelow, List.mem_cons, Prod.mk.injEq] at hp
    simp only [entsBelow, List.mem_cons] at he
    rcases he with rfl | he
    · exact hl rfl
    · obtain ⟨n1, hn1, hu1⟩ := entsBelow_under r root e he
      have hn1s := hnames n1 (List.mem_cons_of_mem _ hn1)
      rcases hp with ⟨rfl, _⟩ | hp
      · have := under_prefix hn1s hn hu1 (Under.self root n) hpre
        exact hnot (this ▸ hn1)
      · exact ih hw.2 root p k hp e he hl hpre
  | link n tg r ih =>
    intro hw root p k hp e he hl hpre
    have hnames := wf_names _ hw
    simp only [FsTree.wf, Bool.and_eq_true, Bool.not_eq_true'] at hw
    have hn : n.contains '/' = false := hw.1.1.2
    have hnot : n ∉ r.names := by simpa using hw.1.2
    simp only [walkBelow, List.mem_cons, Prod.mk.injEq] at hp
    simp only [entsBelow, List.mem_cons] at he
    rcases he with rfl | he
    · rcases hp with ⟨rfl, _⟩ | hp
      · have := prefix_slash_len hpre
        simp at this
      · obtain ⟨n2, hn2, hu2⟩ := walkBelow_under r root p k hp
        have := under_prefix hn (hnames n2 (List.mem_cons_of_mem _ hn2)) (Under.self root n) hu2 hpre
        exact hnot (this ▸ hn2)
    · obtain ⟨n1, hn1, hu1⟩ := entsBelow_under r root e he
      have hn1s := hnames n1 (List.mem_cons_of_mem _ hn1)
      rcases hp with ⟨rfl, _⟩ | hp
      · have := under_prefix hn1s hn hu1 (Under.self root n) hpre
        exact hnot (this ▸ hn1)
      · exact ih hw.2 root p k hp e he hl hpre
  | dir n ch r ihc ihr =>
    intro hw root p k hp e he hl hpre
    have hnames := wf_names _ hw
    simp only [FsTree.wf, Bool.and_eq_true, Bool.not_eq_true'] at hw
    have hn : n.contains '/' = false := hw.1.1.1.2
    have hnot : n ∉ r.names := by simpa using hw.1.1.2
    simp only [walkBelow, List.mem_cons, Prod.mk.injEq, List.mem_append] at hp
    simp only [entsBelow, List.mem_cons, List.mem_append] at he
    rcases he with rfl | he | he
    · exact hl rfl
    · -- a link inside this directory
      obtain ⟨m, _, hum⟩ := entsBelow_under ch _ e he
      rcases hp with ⟨rfl, _⟩ | hp | hp
      · obtain ⟨s, hs, _⟩ := hum
        have := prefix_slash_len hpre
        rw [hs] at this
        simp at this
        omega
      · exact ihc hw.1.2 _ p k hp e he hl hpre
      · obtain ⟨n2, hn2, hu2⟩ := walkBelow_under r root p k hp
        have := under_prefix hn (hnames n2 (List.mem_cons_of_mem _ hn2)) hum.deeper hu2 hpre
        exact hnot (this ▸ hn2)
    · obtain ⟨n1, hn1, hu1⟩ := entsBelow_under r root e he
      have hn1s := hnames n1 (List.mem_cons_of_mem _ hn1)
      rcases hp with ⟨rfl, _⟩ | hp | hp
      · have := under_prefix hn1s hn hu1 (Under.self root n) hpre
        exact hnot (this ▸ hn1)
      · obtain ⟨m, _, hum⟩ := walkBelow_under ch _ p k hp
        have := under_prefix hn1s hn hu1 hum.deeper hpre
        exact hnot (this ▸ hn1)
      · exact ihr hw.2 root p k hp e he hl hpre

/-- **walked entries have real parents**: `ParentsReal` over the file system below the root -/
theorem walkBelow_parentsReal (t : FsTree) (hw : t.wf = true) (root p : Path) (k : WKind)
    (hp : (p, k) ∈ walkBelow root t) : ParentsReal (entsBelow root t) p :=
  fun e he hl => walkBelow_no_link_above t hw root p k hp e he hl

theorem walkBelow_inside (t : FsTree) (root p : Path) (k : WKind) (hp : (p, k) ∈ walkBelow root t) :
    pathIsInside p root = true := by
  obtain ⟨n, _, s, rfl, _⟩ := walkBelow_under t root p k hp
  unfold pathIsInside
  have h1 : root.length < (root ++ '/' :: n ++ s).length := by simp
  have h2 : (root ++ ['/']).isPrefixOf (root ++ '/' :: n ++ s) = true := by
    rw [List.isPrefixOf_iff_prefix]
    exact ⟨n ++ s, by simp⟩
  rw [Bool.or_eq_true]
  right
  rw [Bool.and_eq_true]
  exact ⟨by simpa using h1, h2⟩

/-! ### the guard -/

theorem runG_false (c : Cfg) (s : St) (evs : List Ev) : runG false c s evs = run c s evs := by
  unfold runG run
  congr 1

theorem runG_true_removed (c : Cfg) (s : St) (evs : List Ev) :
    (runG true c s evs).removed = s.removed ∧ (runG true c s evs).disk = s.disk ∧
    (runG true c s evs).report = s.report ∧ (runG true c s evs).final = s.final := by
  unfold runG
  induction evs generalizing s with
  | nil => exact ⟨rfl, rfl, rfl, rfl⟩
  | cons e r ih =>
    simp only [List.foldl]
    have hs : (stepG true c s e).removed = s.removed ∧ (stepG true c s e).disk = s.disk ∧
        (stepG true c s e).report = s.report ∧ (stepG true c s e).final = s.final := by
      unfold stepG
      cases e with
      | early u => exact ⟨rfl, rfl, rfl, rfl⟩
      | kill => exact ⟨rfl, rfl, rfl, rfl⟩
      | nodeDone n => obtain ⟨a, b, c', d⟩ := step_refused c s (.nodeDone n) rfl; exact ⟨b, a, c', d⟩
      | nodeFailed n => obtain ⟨a, b, c', d⟩ := step_refused c s (.nodeFailed n) rfl; exact ⟨b, a, c', d⟩
      | nodeReset n => obtain ⟨a, b, c', d⟩ := step_refused c s (.nodeReset n) rfl; exact ⟨b, a, c', d⟩
      | restart => obtain ⟨a, b, c', d⟩ := step_refused c s .restart rfl; exact ⟨b, a, c', d⟩
      | removeEmpty => obtain ⟨a, b, c', d⟩ := step_refused c s .removeEmpty rfl; exact ⟨b, a, c', d⟩
      | cacheMap => obtain ⟨a, b, c', d⟩ := step_refused c s .cacheMap rfl; exact ⟨b, a, c', d⟩
    obtain ⟨h1, h2, h3, h4⟩ := hs
    obtain ⟨g1, g2, g3, g4⟩ := ih (stepG true c s e)
    exact ⟨g1.trans h1, g2.trans h2, g3.trans h3, g4.trans h4⟩

/-- not refused: no link of the file system is one of the guarded directories -/
theorem not_refused {fs : List FsEnt} {chain : List Path} (h : refusedBy fs chain = false) :
    ∀ e ∈ fs, e.link ≠ none → e.path ∉ chain := by
  intro e he hl hc
  unfold refusedBy at h
  rw [List.any_eq_false] at h
  have := h e he
  have h1 : e.link.isSome = true := by
    cases hl' : e.link with
    | none => exact absurd hl' hl
    | some _ => rfl
  have h2 : chain.contains e.path = true := by simpa using hc
  simp [h1] at this
  exact this hc

/-- a link that is elsewhere is not above anything below the root -/
theorem elsewhere_not_above {root e p : Path} (h1 : pathIsInside root e = false) (h2 : pathIsInside e root = false)
    (hp : pathIsInside p root = true) : ¬ ((e ++ ['/']) <+: p) := by
  intro hpre
  have hpe : pathIsInside p e = true := (pathIsInside_iff p e).mpr (Or.inr hpre)
  rcases inside_comparable hpe hp with h | h
  · rw [h2] at h; cases h
  · rw [h1] at h; cases h

theorem hfsB_spec {fs : List FsEnt} {chain : List Path} {root : Path} {t : FsTree} (h : hfsB fs chain root t = true) :
    ∀ e ∈ fs, e.link ≠ none → e.path ∈ chain ∨ e ∈ entsBelow root t ∨
      (pathIsInside root e.path = false ∧ pathIsInside e.path root = false) := by
  intro e he hl
  unfold hfsB at h
  rw [List.all_eq_true] at h
  have := h e he
  simp only [Bool.or_eq_true, Bool.and_eq_true, Bool.not_eq_true', Option.isNone_iff_eq_none,
    List.contains_eq_mem, decide_eq_true_eq] at this
  rcases this with ((h1 | h1) | h1) | h1
  · exact absurd h1 hl
  · exact Or.inl h1
  · exact Or.inr (Or.inl h1)
  · exact Or.inr (Or.inr h1)

end Martian.Vdr
