import Martian.Vdr
import Proofs.VdrInv
import Proofs.VdrShrink
import Proofs.VdrReclaim
import Proofs.VdrRefuse

/-! For EVERY configuration a complete-state pass with all post nodes done
makes the fork final; a final non-volatile splitting fork has no chunk-level
file left. -/
namespace Martian.Vdr

/-- a complete-state pass with all post nodes done is final, whatever the configuration
(the statement and proof are the auditor's, scratch/C14/t3.lean) -/
theorem kill_final_any {c : Cfg} {s : St}
    (hdone : ∀ p ∈ s.postNodes, p.1 ∈ s.doneNodes) : (kill c s).final = true := by
  unfold kill
  split
  · rename_i h; exact h
  · dsimp only
    obtain ⟨_, pn, _, _, dn⟩ := cleanTmp_fields c s 3
    have hdone1 : ∀ p ∈ (cleanTmp c s 3).postNodes, p.1 ∈ (cleanTmp c s 3).doneNodes := by
      intro p hp; rw [pn] at hp; rw [dn]; exact hdone p hp
    generalize cleanTmp c s 3 = s1 at *
    have hk := removePostNodes_keys ((s1.postNodes.map (·.1)).filter (fun n => s1.doneNodes.contains n)) s1
    have hemp : (removePostNodes s1 ((s1.postNodes.map (·.1)).filter (fun n => s1.doneNodes.contains n))).postNodes.isEmpty = true := by
      rw [List.isEmpty_iff]
      apply List.eq_nil_iff_forall_not_mem.mpr
      intro p hp
      obtain ⟨h1, h2⟩ := hk p hp
      apply h2 p.1 _ rfl
      simp only [List.mem_filter, List.mem_map, List.contains_iff_mem]
      exact ⟨⟨p, h1, rfl⟩, hdone1 p h1⟩
    generalize removePostNodes s1 _ = s2 at *
    simp only [hemp, if_true]
    split
    · exact vdrKillSome_final_done c s2
    · unfold vdrKill
      split
      · rename_i h; exact h
      · split
        · exact vdrKillSome_final_done c s2
        · rfl

/-- no chunk-level file of a splitting stage is left -/
def NoChunk (c : Cfg) (s : St) : Prop := ∀ d ∈ s.disk, ¬ (c.splits = true ∧ d.kind = .chunk)

/-- a final fork has no chunk-level file -/
def CInv (c : Cfg) (s : St) : Prop := s.final = true → NoChunk c s

theorem CInv.same {c : Cfg} {s s' : St} (i : CInv c s) (hd : ∀ d ∈ s'.disk, d ∈ s.disk) (hf : s'.final = s.final) :
    CInv c s' := by
  intro h d hd'
  exact i (hf ▸ h) d (hd d hd')

theorem CInv.kill {c : Cfg} {s : St} (hv : c.volatile = false) (hs : c.strict = false) (i : CInv c s) :
    CInv c (kill c s) := by
  unfold Martian.Vdr.kill
  split
  · exact i
  · rename_i hfin
    dsimp only
    have sh1 := shr_cleanTmp c s 3
    have f1 : (cleanTmp c s 3).final = s.final := (cleanTmp_fields c s 3).2.2.2.1
    generalize cleanTmp c s 3 = s1 at *
    have fr := removePostNodes_frame ((s1.postNodes.map (·.1)).filter (fun n => s1.doneNodes.contains n)) s1
    generalize removePostNodes s1 _ = s2 at *
    have hf2 : s2.final = false := by rw [fr.final, f1]; simpa using hfin
    have i2 : CInv c s2 := fun h => by rw [hf2] at h; cases h
    split
    · simp only [hs]
      unfold vdrKill
      simp only [hf2, hv]
      intro _ d hd
      simp only [Bool.false_eq_true, if_false, List.mem_filter, Bool.not_eq_true', Bool.and_eq_false_imp,
        beq_eq_false_iff_ne, ne_eq] at hd
      rintro ⟨h1, h2⟩
      exact hd.2 h1 h2
    · simp only [hs]
      exact i2

theorem CInv.step {c : Cfg} {s : St} (hv : c.volatile = false) (hs : c.strict = false) (i : CInv c s) (e : Ev) :
    CInv c (step c s e) := by
  by_cases hr : e.removes = false
  · obtain ⟨h1, _, _, h4⟩ := step_refused c s e hr
    exact i.same (fun d h => h1 ▸ h) h4
  · cases e with
    | early upto =>
      show CInv c (if s.final then s else cleanTmp c s (min upto 3))
      split
      · exact i
      · exact i.same (shr_cleanTmp c s _).disk (cleanTmp_fields c s _).2.2.2.1
    | kill => exact i.kill hv hs
    | _ => simp [Ev.removes] at hr

theorem CInv.run {c : Cfg} {s : St} (hv : c.volatile = false) (hs : c.strict = false) (i : CInv c s) (evs : List Ev) :
    CInv c (run c s evs) := by
  unfold Martian.Vdr.run
  induction evs generalizing s with
  | nil => exact i
  | cons e r ih => exact ih (i.step hv hs e)

end Martian.Vdr
