/-
Helper lemmas for C01 (Martian.Dataflow / Martian.Resolver).
-/
import Martian.Dataflow
import Martian.Resolver

namespace Proofs.Dataflow
open Martian.Dataflow Martian.Resolver

/-! ## mapArr / mapObj / atBase -/

theorem mapArr_arr (n : Nat) (f : J → J) (xs : List J) :
    mapArr (n+1) f (.arr xs) = .arr (xs.map (mapArr n f)) := by
  simp [mapArr]

theorem mapArr_comp (n : Nat) (f g : J → J) (v : J) :
    mapArr n f (mapArr n g v) = mapArr n (f ∘ g) v := by
  induction n generalizing v with
  | zero => simp [mapArr]
  | succ n ih =>
    cases v with
    | arr xs =>
      simp only [mapArr, List.map_map, J.arr.injEq]
      apply List.map_congr_left
      intro x _
      exact ih x
    | null => simp [mapArr]
    | dnull => simp [mapArr]
    | atom s => simp [mapArr]
    | obj kvs => simp [mapArr]

theorem mapObj_comp (f g : J → J) (v : J) :
    mapObj f (mapObj g v) = mapObj (f ∘ g) v := by
  cases v <;> simp [mapObj, List.map_map, Function.comp_def]

theorem mapArr_congr (n : Nat) (f g : J → J) (h : ∀ v, f v = g v) (v : J) :
    mapArr n f v = mapArr n g v := by
  have : f = g := funext h
  rw [this]

theorem atBase_comp (t : Ty) (f g : J → J) (v : J) :
    atBase t f (atBase t g v) = atBase t (f ∘ g) v := by
  unfold atBase
  rw [mapArr_comp]
  cases t.mapDim with
  | zero => rfl
  | succ k =>
    apply mapArr_congr
    intro v
    simp only [Function.comp_apply]
    rw [mapObj_comp]
    congr 1
    funext x
    exact mapArr_comp k f g x

/-! ## projection -/

theorem proj1_arr (b : String) (m n : Nat) (f : String) (xs : List J) :
    proj1 ⟨b, m, n+1⟩ f (.arr xs) = .arr (xs.map (proj1 ⟨b, m, n⟩ f)) := by
  simp [proj1, atBase, mapArr]

theorem projTy1_arr (st : StructTable) (b : String) (m n : Nat) (f : String) :
    projTy1 st ⟨b, m, n+1⟩ f =
      { projTy1 st ⟨b, m, n⟩ f with arrDim := (projTy1 st ⟨b, m, n⟩ f).arrDim + 1 } := by
  unfold projTy1
  cases fieldTy st b f with
  | none => simp
  | some ft =>
    simp only
    by_cases h : m = 0
    · simp [h, Nat.add_assoc]
    · simp [h]

theorem projPath_arr (st : StructTable) (path : List String) :
    ∀ (b : String) (m n : Nat) (xs : List J),
      projPath st ⟨b, m, n+1⟩ path (.arr xs) = .arr (xs.map (projPath st ⟨b, m, n⟩ path)) := by
  induction path with
  | nil => intro b m n xs; simp [projPath]
  | cons f r ih =>
    intro b m n xs
    simp only [projPath]
    rw [proj1_arr, projTy1_arr]
    have := ih (projTy1 st ⟨b, m, n⟩ f).base (projTy1 st ⟨b, m, n⟩ f).mapDim
      (projTy1 st ⟨b, m, n⟩ f).arrDim (xs.map (proj1 ⟨b, m, n⟩ f))
    rw [this, List.map_map]
    rfl

theorem proj1_obj (b : String) (k : Nat) (f : String) (kvs : List (String × J)) :
    proj1 ⟨b, k+1, 0⟩ f (.obj kvs) = .obj (kvs.map fun kv => (kv.1, proj1 ⟨b, 0, k⟩ f kv.2)) := by
  simp [proj1, atBase, mapArr, mapObj]

/-- no field along the path (starting at type `t`) is itself a typed map — the
compiler's "invalid projection through nested maps" rule -/
def NoMapFields (st : StructTable) : Ty → List String → Prop
  | _, [] => True
  | t, f :: r =>
    (∀ ft, fieldTy st t.base f = some ft → ft.mapDim = 0) ∧ NoMapFields st (projTy1 st t f) r

theorem projTy1_map (st : StructTable) (b : String) (k : Nat) (f : String)
    (h : ∀ ft, fieldTy st b f = some ft → ft.mapDim = 0) :
    projTy1 st ⟨b, k+1, 0⟩ f =
        ⟨(projTy1 st ⟨b, 0, k⟩ f).base, (projTy1 st ⟨b, 0, k⟩ f).arrDim + 1, 0⟩ ∧
    projTy1 st ⟨b, 0, k⟩ f =
        ⟨(projTy1 st ⟨b, 0, k⟩ f).base, 0, (projTy1 st ⟨b, 0, k⟩ f).arrDim⟩ := by
  unfold projTy1
  cases hf : fieldTy st b f with
  | none => simp
  | some ft =>
    have := h ft hf
    simp [this]
    omega

theorem projPath_obj (st : StructTable) (path : List String) :
    ∀ (b : String) (k : Nat) (kvs : List (String × J)), NoMapFields st ⟨b, 0, k⟩ path →
      projPath st ⟨b, k+1, 0⟩ path (.obj kvs)
        = .obj (kvs.map fun kv => (kv.1, projPath st ⟨b, 0, k⟩ path kv.2)) := by
  induction path with
  | nil => intro b k kvs _; simp [projPath]
  | cons f r ih =>
    intro b k kvs h
    obtain ⟨h1, h2⟩ := h
    obtain ⟨e1, e2⟩ := projTy1_map st b k f h1
    simp only [projPath]
    rw [proj1_obj, e1]
    rw [e2] at h2
    rw [ih _ _ _ h2, List.map_map]
    congr 1
    apply List.map_congr_left
    intro kv _
    simp only [Function.comp_apply]
    rw [← e2]

/-- the run-time (element by element) formulation agrees with the specification's -/
theorem resolveArr_eq (f : J → J) (n : Nat) (v : J) : resolveArr f n v = mapArr n f v := by
  induction n generalizing v with
  | zero => simp [resolveArr, mapArr]
  | succ n ih =>
    cases v with
    | arr xs =>
      simp only [resolveArr, mapArr, J.arr.injEq]
      apply List.map_congr_left
      intro x _
      exact ih x
    | null => simp [resolveArr, mapArr]
    | dnull => simp [resolveArr, mapArr]
    | atom s => simp [resolveArr, mapArr]
    | obj kvs => simp [resolveArr, mapArr]

theorem resolve1_eq (t : Ty) (f : String) (v : J) : resolve1 t f v = proj1 t f v := by
  unfold resolve1 proj1 atBase
  rw [resolveArr_eq]
  apply mapArr_congr
  intro s
  unfold resolveMapLevel
  cases t.mapDim with
  | zero => rfl
  | succ k =>
    cases s with
    | obj kvs =>
      simp only [mapObj, J.obj.injEq]
      apply List.map_congr_left
      intro kv _
      rw [resolveArr_eq]
    | null => simp [mapObj]
    | dnull => simp [mapObj]
    | atom s => simp [mapObj]
    | arr xs => simp [mapObj]

theorem resolvePath_eq (st : StructTable) (path : List String) :
    ∀ (t : Ty) (v : J), resolvePath st t path v = projPath st t path v := by
  induction path with
  | nil => intro t v; simp [resolvePath, projPath]
  | cons f r ih => intro t v; simp [resolvePath, projPath, resolve1_eq, ih]

/-! ## static projection of binding expressions -/

theorem projPath_append (st : StructTable) (path : List String) :
    ∀ (t : Ty) (f : String) (v : J),
      projPath st t (path ++ [f]) v = proj1 (pathTy st t path) f (projPath st t path v) := by
  induction path with
  | nil => intro t f v; simp [projPath, pathTy]
  | cons g r ih => intro t f v; simp [projPath, pathTy, ih]

theorem proj1_null (t : Ty) (f : String) : proj1 t f .null = .null := by
  unfold proj1 atBase
  cases t.arrDim <;> cases t.mapDim <;> simp [mapArr, mapObj, J.field]

theorem lookup_evalFields (st : StructTable) (env : Env) (f : String) (kvs : List (String × Exp)) :
    (evalFields st env kvs).lookup f = (kvs.lookup f).map (eval st env) := by
  induction kvs with
  | nil => simp [evalFields]
  | cons x xs ih =>
    obtain ⟨k, e⟩ := x
    simp only [evalFields, List.lookup_cons]
    cases (f == k) <;> simp [ih]

mutual
theorem bp_sound (st : StructTable) (env : Env) (f : String) :
    ∀ (e : Exp) (t : Ty), wt st env t e = true →
      eval st env (bindingPath1 f e) = proj1 t f (eval st env e)
  | .lit j, t, h => by
    cases j <;> simp [wt] at h
    simp [bindingPath1, eval, proj1_null]
  | .arr xs, t, h => by
    obtain ⟨b, m, n⟩ := t
    simp only [wt, Bool.and_eq_true, bne_iff_ne, ne_eq] at h
    cases n with
    | zero => exact absurd rfl h.1
    | succ n =>
      simp only [bindingPath1, eval, proj1_arr]
      rw [bpList_sound st env f xs ⟨b, m, n⟩ h.2]
  | .map kvs, t, h => by
    obtain ⟨b, m, n⟩ := t
    simp only [wt, Bool.and_eq_true, bne_iff_ne, ne_eq, beq_iff_eq] at h
    obtain ⟨⟨hn, hm⟩, hk⟩ := h
    subst hn
    cases m with
    | zero => exact absurd rfl hm
    | succ k =>
      simp only [bindingPath1, eval, proj1_obj]
      rw [bpFields_sound st env f kvs ⟨b, 0, k⟩ hk]
  | .struct kvs, t, h => by
    obtain ⟨b, m, n⟩ := t
    simp only [wt, Bool.and_eq_true, beq_iff_eq] at h
    obtain ⟨hn, hm⟩ := h
    subst hn; subst hm
    simp only [bindingPath1, eval, proj1, atBase, mapArr, J.field, lookup_evalFields]
    cases kvs.lookup f <;> simp [eval]
  | .self p path, t, h => by
    simp only [wt, beq_iff_eq] at h
    subst h
    simp [bindingPath1, eval, projPath_append]
  | .ref c path, t, h => by
    simp only [wt, beq_iff_eq] at h
    subst h
    simp [bindingPath1, eval, projPath_append]
theorem bpList_sound (st : StructTable) (env : Env) (f : String) :
    ∀ (es : List Exp) (t : Ty), wtList st env t es = true →
      evalList st env (bpList f es) = (evalList st env es).map (proj1 t f)
  | [], _, _ => by simp [bpList, evalList]
  | e :: es, t, h => by
    simp only [wtList, Bool.and_eq_true] at h
    simp [bpList, evalList, bp_sound st env f e t h.1, bpList_sound st env f es t h.2]
theorem bpFields_sound (st : StructTable) (env : Env) (f : String) :
    ∀ (kvs : List (String × Exp)) (t : Ty), wtFields st env t kvs = true →
      evalFields st env (bpFields f kvs) = (evalFields st env kvs).map fun kv => (kv.1, proj1 t f kv.2)
  | [], _, _ => by simp [bpFields, evalFields]
  | (k, e) :: es, t, h => by
    simp only [wtFields, Bool.and_eq_true] at h
    simp [bpFields, evalFields, bp_sound st env f e t h.1, bpFields_sound st env f es t h.2]
end

theorem evalList_getD (st : StructTable) (env : Env) :
    ∀ (xs : List Exp) (n : Nat),
      (evalList st env xs).getD n .null = eval st env (xs.getD n (.lit .null))
  | [], n => by simp [evalList, eval]
  | x :: xs, 0 => by simp [evalList]
  | x :: xs, n+1 => by simpa [evalList] using evalList_getD st env xs n

/-! ## association lists -/

theorem lookup_map_mem {α : Type} (ps : List α) (name : α → String) (h : α → J)
    (hn : (ps.map name).Nodup) (q : α) (hq : q ∈ ps) :
    (ps.map fun p => (name p, h p)).lookup (name q) = some (h q) := by
  induction ps with
  | nil => cases hq
  | cons p ps ih =>
    simp only [List.map_cons, List.nodup_cons] at hn
    simp only [List.map_cons, List.lookup_cons]
    cases hq with
    | head => simp
    | tail _ hq' =>
      have hne : name q ≠ name p := by
        intro e
        apply hn.1
        rw [← e]
        exact List.mem_map_of_mem hq'
      have : (name q == name p) = false := by simpa using hne
      rw [this]
      exact ih hn.2 hq'

/-! ## struct narrowing -/

/-- member names of every struct are distinct (the compiler rejects duplicates) -/
def StructsOk (st : StructTable) : Prop :=
  ∀ name ps, st.lookup name = some ps → (ps.map (·.name)).Nodup

/-- the base-level step of `narrow` -/
def narrowBase (st : StructTable) (fuel : Nat) (t : Ty) (s : J) : J :=
  match st.lookup t.base with
  | none => s
  | some ps =>
    match s with
    | .obj _ => .obj (ps.map fun p => (p.name, narrow st fuel p.ty (s.field p.name)))
    | other => other

theorem narrow_succ (st : StructTable) (fuel : Nat) (t : Ty) (v : J) :
    narrow st (fuel+1) t v = atBase t (narrowBase st fuel t) v := by
  simp only [narrow]
  rfl

theorem narrowBase_idem (st : StructTable) (hst : StructsOk st) (fuel : Nat) (t : Ty)
    (ih : ∀ t v, narrow st fuel t (narrow st fuel t v) = narrow st fuel t v) (s : J) :
    narrowBase st fuel t (narrowBase st fuel t s) = narrowBase st fuel t s := by
  unfold narrowBase
  cases hl : st.lookup t.base with
  | none => rfl
  | some ps =>
    have hn := hst _ _ hl
    cases s with
    | obj kvs =>
      simp only [J.obj.injEq]
      apply List.map_congr_left
      intro p hp
      have : (J.obj (ps.map fun p => (p.name, narrow st fuel p.ty ((J.obj kvs).field p.name)))).field p.name
          = narrow st fuel p.ty ((J.obj kvs).field p.name) := by
        have h := lookup_map_mem ps (·.name) (fun p => narrow st fuel p.ty ((J.obj kvs).field p.name)) hn p hp
        simp only [J.field] at h ⊢
        rw [h]
        rfl
      rw [this, ih]
    | null => rfl
    | dnull => rfl
    | atom a => rfl
    | arr xs => rfl

theorem narrow_idem (st : StructTable) (hst : StructsOk st) :
    ∀ (fuel : Nat) (t : Ty) (v : J), narrow st fuel t (narrow st fuel t v) = narrow st fuel t v := by
  intro fuel
  induction fuel with
  | zero => intro t v; simp [narrow]
  | succ fuel ih =>
    intro t v
    rw [narrow_succ, narrow_succ, atBase_comp]
    have : (narrowBase st fuel t ∘ narrowBase st fuel t) = narrowBase st fuel t := by
      funext s
      exact narrowBase_idem st hst fuel t ih s
    rw [this]

/-! ## chunk merge -/

theorem lookup_filter_none (b d : List (String × J)) (k : String) (h : (d.lookup k).isSome) :
    (b.filter fun x => (d.lookup x.1).isNone).lookup k = none := by
  induction b with
  | nil => simp
  | cons x xs ih =>
    obtain ⟨a, v⟩ := x
    simp only [List.filter_cons]
    split
    · next hx =>
      simp only [List.lookup_cons]
      have : (k == a) = false := by
        cases hk : (k == a)
        · rfl
        · have e : k = a := by simpa using hk
          rw [e] at h
          simp only [Option.isNone_iff_eq_none] at hx
          simp [hx] at h
      rw [this]
      exact ih
    · exact ih

theorem lookup_filter_keep (b d : List (String × J)) (k : String) (h : d.lookup k = none) :
    (b.filter fun x => (d.lookup x.1).isNone).lookup k = b.lookup k := by
  induction b with
  | nil => simp
  | cons x xs ih =>
    obtain ⟨a, v⟩ := x
    simp only [List.filter_cons]
    split
    · simp only [List.lookup_cons]
      split
      · rfl
      · exact ih
    · next hx =>
      simp only [List.lookup_cons]
      have : (k == a) = false := by
        cases hk : (k == a)
        · rfl
        · have e : k = a := by simpa using hk
          rw [e] at h
          simp [h] at hx
      rw [this]
      exact ih

/-! ## histories -/

theorem find_perm {β : Type} (h1 h2 : List (InstKey × β)) (hp : h1.Perm h2)
    (hn : (h1.map (·.1)).Nodup) (k : InstKey) :
    h1.find? (fun e => e.1 == k) = h2.find? (fun e => e.1 == k) := by
  induction hp with
  | nil => rfl
  | cons x _ ih =>
    simp only [List.map_cons, List.nodup_cons] at hn
    simp only [List.find?_cons]
    split
    · rfl
    · exact ih hn.2
  | swap x y l =>
    simp only [List.map_cons, List.nodup_cons, List.mem_cons, not_or] at hn
    simp only [List.find?_cons]
    cases hx : (x.1 == k) <;> cases hy : (y.1 == k) <;> simp
    have ex : x.1 = k := by simpa using hx
    have ey : y.1 = k := by simpa using hy
    exact absurd (ey.trans ex.symm) hn.1.1
  | trans p1 _ ih1 ih2 =>
    have hn2 := (List.Perm.nodup_iff (List.Perm.map (·.1) p1)).mp hn
    exact (ih1 hn).trans (ih2 hn2)

end Proofs.Dataflow
