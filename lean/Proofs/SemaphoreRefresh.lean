/-
Lemmas for the refreshResources model (Martian/SemaphoreRefresh.lean).
-/
import Martian.SemaphoreRefresh
import Proofs.Semaphore

namespace Martian.SemaphoreRefresh
open Martian.Semaphore

theorem freeUsedCur_full (s : Sem) (f u : Int) (hu : u ≤ s.reserved) (hf : s.max ≤ f + u) :
    freeUsedCur s f u = s.max := by
  simp only [freeUsedCur, hu, if_true]
  split
  · rfl
  · omega

theorem freeUsedCur_mono (s : Sem) (f1 f2 u : Int) (h : f1 ≤ f2) :
    freeUsedCur s f1 u ≤ freeUsedCur s f2 u := by
  simp only [freeUsedCur]
  split
  · split <;> split <;> omega
  · split <;> split <;> omega

theorem ceilMB_mono (a b : Int) (h : a ≤ b) : ceilMB a ≤ ceilMB b := by
  simp only [ceilMB, MB]; omega

theorem ceilMB_zero : ceilMB 0 = 0 := by decide

theorem ceilMB_ge (a m : Int) (h : m * MB ≤ a) : m ≤ ceilMB a := by
  simp only [ceilMB, MB] at *; omega

theorem step_updFreeUsed_cur (s : Sem) (f u : Int) :
    (step s (.updFreeUsed f u)).1.cur = freeUsedCur s f u := by
  simp only [step]; exact (setCur_cur s _).1

theorem step_updActual_cur (s : Sem) (n : Int) :
    (step s (.updActual n)).1.cur = if n + s.reserved > s.max then s.max else n + s.reserved := by
  simp only [step]; exact (setCur_cur s _).1

/-- with nobody waiting an availability update only changes `curSize` -/
theorem setCur_noWaiters (s : Sem) (c : Int) (h : s.waiters = []) :
    (s.setCur c).1 = { s with cur := c } := by
  unfold Sem.setCur
  split
  · simp [Sem.wake, h, runJobs]
  · rfl

end Martian.SemaphoreRefresh
