import Martian.SchedProgress
import Proofs.Sched
import Proofs.SchedOnce
import Proofs.SchedTrans

/-! Progress and termination of the `Sched` transition system. -/
namespace Martian.Sched

/-! ### arithmetic of the potential -/

theorem missing_add_le (x : SSet) (y : Sentinel) : (x.add y).missing ≤ x.missing := by
  cases y <;> simp only [SSet.add, SSet.missing] <;>
    cases x.errors <;> cases x.assert <;> cases x.complete <;> cases x.disabled <;>
    cases x.log <;> cases x.jobinfo <;> simp

theorem missing_add_lt (x : SSet) (y : Sentinel) (hy : y ≠ .queuedLocally)
    (h : x.has y = false) : (x.add y).missing < x.missing := by
  cases y <;> simp only [SSet.add, SSet.missing, SSet.has] at h ⊢ <;>
    first
    | exact absurd rfl hy
    | (rw [h]; cases x.errors <;> cases x.assert <;> cases x.complete <;> cases x.disabled <;>
        cases x.log <;> cases x.jobinfo <;> simp)

theorem missing_del_q (x : SSet) : (x.del .queuedLocally).missing = x.missing := rfl

theorem add_of_has (x : SSet) (y : Sentinel) (h : x.has y = true) : x.add y = x := by
  cases y <;> simp only [SSet.has] at h <;> simp [SSet.add, ← h]

theorem metaState_add_q (x : SSet) : metaState (x.add .queuedLocally) = metaState x := rfl
theorem metaState_del_q (x : SSet) : metaState (x.del .queuedLocally) = metaState x := rfl


theorem add_queued_ne (x : SSet) (y : Sentinel) (hy : y ≠ .queuedLocally) :
    (x.add y).queued = x.queued := by
  cases y <;> first | rfl | exact absurd rfl hy

theorem missing_add_q (x : SSet) : (x.add .queuedLocally).missing = x.missing := rfl

theorem potMeta_put_le (m : Meta) (x : Sentinel)
    (hd : x = .queuedLocally → m.disk.has x = true) : potMeta (put x m) ≤ potMeta m := by
  by_cases hx : x = .queuedLocally
  · subst hx
    have := hd rfl
    simp only [SSet.has] at this
    have hq : (m.disk.add .queuedLocally).queued = true := rfl
    simp only [potMeta, put, missing_add_q, hq, this]
    omega
  · have h1 := missing_add_le m.seen x
    have h2 := missing_add_le m.disk x
    simp only [potMeta, put, add_queued_ne _ _ hx]
    omega

theorem potMeta_put_lt (m : Meta) (x : Sentinel) (hx : x ≠ .queuedLocally)
    (h : m.seen.has x = false) : potMeta (put x m) < potMeta m := by
  have h1 := missing_add_lt m.seen x hx h
  have h2 := missing_add_le m.disk x
  simp only [potMeta, put, add_queued_ne _ _ hx]
  omega

theorem potMeta_see_le (m : Meta) (x : Sentinel) : potMeta (see x m) ≤ potMeta m := by
  by_cases hx : x = .queuedLocally
  · subst hx; simp only [potMeta, see, missing_add_q]; omega
  · have h1 := missing_add_le m.seen x
    simp only [potMeta, see]
    omega

theorem potMeta_see_lt (m : Meta) (x : Sentinel) (hx : x ≠ .queuedLocally)
    (h : m.seen.has x = false) : potMeta (see x m) < potMeta m := by
  have h1 := missing_add_lt m.seen x hx h
  simp only [potMeta, see]
  omega

theorem potMeta_unq_le (m : Meta) : potMeta (unq m) ≤ potMeta m := by
  simp only [potMeta, unq, missing_del_q]
  have : (m.disk.del .queuedLocally).queued = false := rfl
  rw [this]; simp only [Bool.toNat_false]; omega

theorem potMeta_launch_le (m : Meta) :
    potMeta (put .queuedLocally (put .jobinfo m)) ≤ potMeta m + 2 := by
  have h1 := missing_add_le m.seen .jobinfo
  have h2 := missing_add_le m.disk .jobinfo
  simp only [potMeta, put, missing_add_q]
  have : ((m.disk.add .jobinfo).add .queuedLocally).queued = true := rfl
  rw [this]
  simp only [Bool.toNat_true]
  omega

theorem potMeta_toDisk_le (m : Meta) (x : Sentinel) (hx : x ≠ .queuedLocally) :
    potMeta (toDisk x m) ≤ potMeta m := by
  have h2 := missing_add_le m.disk x
  simp only [potMeta, toDisk, add_queued_ne _ _ hx]
  omega

theorem potMeta_toDisk_lt (m : Meta) (x : Sentinel) (hx : x ≠ .queuedLocally)
    (h : m.disk.has x = false) : potMeta (toDisk x m) < potMeta m := by
  have h2 := missing_add_lt m.disk x hx h
  simp only [potMeta, toDisk, add_queued_ne _ _ hx]
  omega

theorem potMeta_joblog_le (m : Meta) : potMeta (toDisk .log (unq m)) ≤ potMeta m :=
  Nat.le_trans (potMeta_toDisk_le _ _ (by simp)) (potMeta_unq_le m)

theorem potMeta_joblog_lt (m : Meta) (h : m.disk.has .log = false) :
    potMeta (toDisk .log (unq m)) < potMeta m :=
  Nat.lt_of_lt_of_le (potMeta_toDisk_lt _ _ (by simp) (by simpa [unq, has_del] using h))
    (potMeta_unq_le m)

/-! ### the cache state of an object changes only when its potential goes down -/

theorem metaState_add_same (x : SSet) (y : Sentinel) (h : x.has y = true ∨ y = .queuedLocally) :
    metaState (x.add y) = metaState x := by
  rcases h with h | h
  · rw [add_of_has x y h]
  · subst h; rfl


theorem quiet_ff {s : State} {e : Ev} (h : e.quiet s = true) : e.failureFree = true := by
  cases e <;> simp_all [Ev.quiet, Ev.failing, Ev.structural, Ev.failureFree]

theorem quiet_inc {s : State} {e : Ev} (h : e.quiet s = true) : (apply s e).inc = s.inc := by
  rw [apply_inc]; cases e <;> simp_all [Ev.quiet, Ev.structural]

theorem mrpWriteOk_queued (s : State) (o : Obj) : mrpWriteOk s o .queuedLocally = false := by
  unfold mrpWriteOk; cases o.r <;> rfl

/-- every quiet event, seen from one object: either the object's potential goes
down, or it does not go up and mrp's view of the object is unchanged -/
theorem obj_step {s : State} {e : Ev} (hen : enabled s e = true) (hq : e.quiet s = true)
    (o' : Obj) :
    (potObj (apply s e) o' < potObj s o' ∧ s.hasObj o' = true) ∨
    ((apply s e).st o' = s.st o' ∧ potObj (apply s e) o' ≤ potObj s o') := by
  unfold potObj State.st
  rw [quiet_inc hq, apply_launches, apply_m]
  cases e <;> simp only [] <;> try exact Or.inr ⟨trivial, Nat.le_refl _⟩
  case W o x =>
    split
    · rename_i heq; subst heq
      by_cases hx : (s.m o).seen.has x = true ∨ x = .queuedLocally
      · right
        refine ⟨by simp only [put]; exact metaState_add_same _ _ hx, ?_⟩
        apply Nat.add_le_add_right
        apply potMeta_put_le
        rintro rfl
        rcases (en_W hen).2.2 with h | h
        · exact h
        · rw [mrpWriteOk_queued] at h; cases h
      · left
        have h1 : (s.m o).seen.has x = false := by
          cases h : (s.m o).seen.has x
          · rfl
          · exact absurd (Or.inl h) hx
        exact ⟨Nat.add_lt_add_right (potMeta_put_lt _ _ (fun h => hx (Or.inr h)) h1) _,
          (en_W hen).2.1⟩
    · exact Or.inr ⟨rfl, Nat.le_refl _⟩
  case R o x =>
    split
    · rename_i heq; subst heq
      by_cases hx : (s.m o).seen.has x = true ∨ x = .queuedLocally
      · right
        exact ⟨by simp only [see]; exact metaState_add_same _ _ hx,
          Nat.add_le_add_right (potMeta_see_le _ _) _⟩
      · left
        have h1 : (s.m o).seen.has x = false := by
          cases h : (s.m o).seen.has x
          · rfl
          · exact absurd (Or.inl h) hx
        exact ⟨Nat.add_lt_add_right (potMeta_see_lt _ _ (fun h => hx (Or.inr h)) h1) _,
          (en_R hen).2.1⟩
    · exact Or.inr ⟨rfl, Nat.le_refl _⟩
  case D o x =>
    split
    · rename_i heq; subst heq
      by_cases hx : (s.m o).seen.has x = true ∨ x = .queuedLocally
      · right
        exact ⟨by simp only [see]; exact metaState_add_same _ _ hx,
          Nat.add_le_add_right (potMeta_see_le _ _) _⟩
      · left
        have h1 : (s.m o).seen.has x = false := by
          cases h : (s.m o).seen.has x
          · rfl
          · exact absurd (Or.inl h) hx
        exact ⟨Nat.add_lt_add_right (potMeta_see_lt _ _ (fun h => hx (Or.inr h)) h1) _,
          (en_D hen).2.1⟩
    · exact Or.inr ⟨rfl, Nat.le_refl _⟩
  case U o x =>
    split
    · rename_i heq; subst heq
      right
      exact ⟨by simp only [unq]; exact metaState_del_q _,
        Nat.add_le_add_right (potMeta_unq_le _) _⟩
    · exact Or.inr ⟨rfl, Nat.le_refl _⟩
  case launch o =>
    split
    · rename_i heq; subst heq
      left
      have hnew := (launchOk_phase (en_launch hen)).2.2.2.1
      have h1 : s.launches.contains (o, s.inc) = false := by simpa using hnew
      have h2 := potMeta_launch_le (s.m o)
      refine ⟨?_, (launchOk_phase (en_launch hen)).2.2.2.2⟩
      simp only [h1, List.contains_cons, beq_self_eq_true, Bool.true_or, if_true]
      simp
      omega
    · rename_i hne
      right
      refine ⟨rfl, ?_⟩
      have : ¬ o' = o := fun h => hne h.symm
      simp [List.contains_cons, this]
  case joblog o =>
    split
    · rename_i heq; subst heq
      right
      exact ⟨by simp only [toDisk, unq]; exact metaState_del_q _,
        Nat.add_le_add_right (potMeta_joblog_le _) _⟩
    · exact Or.inr ⟨rfl, Nat.le_refl _⟩
  case jobend o x =>
    split
    · rename_i heq; subst heq
      right
      have hx : x = .complete := by simpa [Ev.quiet, Ev.failing, Ev.structural] using hq
      subst hx
      exact ⟨rfl, Nat.add_le_add_right (potMeta_toDisk_le _ _ (by simp)) _⟩
    · exact Or.inr ⟨rfl, Nat.le_refl _⟩
  case silentfail o => simp [Ev.quiet, Ev.failing] at hq
  case reset o => simp [Ev.quiet, Ev.structural] at hq
  case restart => simp [Ev.quiet, Ev.structural] at hq


/-! ### the structure of the pipestance under quiet events -/

theorem quiet_forksOf {s : State} {e : Ev} (hq : e.quiet s = true) (n : Nat) :
    (apply s e).forksOf n = s.forksOf n := by
  rw [apply_forksOf]; cases e <;> simp_all [Ev.quiet, Ev.structural]

theorem quiet_nch {s : State} {e : Ev} (hm : ∀ n f k, e ≠ .mkchunks n f k) (n f : Nat) :
    (apply s e).nch n f = s.nch n f := by
  rw [apply_nch]; cases e <;> simp_all

theorem forkPairs_congr {s s' : State} (hn : s'.nodes = s.nodes)
    (hf : ∀ n, s'.forksOf n = s.forksOf n) : forkPairs s' = forkPairs s := by
  simp [forkPairs, hn, hf]

theorem objs_congr {s s' : State} (hn : s'.nodes = s.nodes)
    (hf : ∀ n, s'.forksOf n = s.forksOf n) (hc : ∀ n f, s'.nch n f = s.nch n f) :
    objs s' = objs s := by
  simp [objs, forkObjs, forkPairs_congr hn hf, hc]

theorem forkState_congr {s s' : State}
    (hc : ∀ n f, s'.nch n f = s.nch n f) (hst : ∀ o, s'.st o = s.st o) (n : Nat) :
    forkState s' n = forkState s n := by
  funext f
  have : chunkState s' n f = chunkState s n f := funext fun i => by simp [chunkState, hst]
  simp [forkState, chunkStates, this, hc, hst]

theorem nodeDone_congr {s s' : State} (hf : ∀ n, s'.forksOf n = s.forksOf n)
    (hc : ∀ n f, s'.nch n f = s.nch n f) (hst : ∀ o, s'.st o = s.st o) (n : Nat) :
    nodeDone s' n = nodeDone s n := by
  simp [nodeDone, forkStates, forkState_congr hc hst, hf]

theorem nodeState_congr {s s' : State} (hn : s'.nodes = s.nodes)
    (hf : ∀ n, s'.forksOf n = s.forksOf n)
    (hc : ∀ n f, s'.nch n f = s.nch n f) (hst : ∀ o, s'.st o = s.st o) (n : Nat) :
    nodeState s' n = nodeState s n := by
  have hd : nodeDone s' = nodeDone s := funext (nodeDone_congr hf hc hst)
  simp [nodeState, forkStates, forkState_congr hc hst, State.pre, hn, hf, hd]

theorem stale_congr {s s' : State} (hn : s'.nodes = s.nodes)
    (hcd : ∀ n, s'.cachedOf n = s.cachedOf n) (hns : ∀ n, nodeState s' n = nodeState s n) :
    stale s' = stale s := by
  simp [stale, hn, hcd, hns]

theorem stale_le (s : State) : stale s ≤ s.nodes.length := by
  unfold stale
  exact Nat.le_trans (List.length_filter_le _ _) (by simp)

theorem hasObj_mem_objs {s : State} {o : Obj} (h : s.hasObj o = true) : o ∈ objs s := by
  obtain ⟨n, f, r⟩ := o
  simp only [State.hasObj, Bool.and_eq_true, decide_eq_true_eq, List.contains_eq_mem] at h
  simp only [objs, forkPairs, List.mem_flatMap, List.mem_range, List.mem_map]
  refine ⟨(n, f), ⟨n, h.1.1, f, h.1.2, rfl⟩, ?_⟩
  cases r <;> simp [forkObjs]
  simpa using h.2

/-! ### sums -/

theorem sum_map_le {α} (l : List α) (f g : α → Nat) (h : ∀ x ∈ l, f x ≤ g x) :
    (l.map f).sum ≤ (l.map g).sum := by
  induction l with
  | nil => simp
  | cons a r ih =>
    simp only [List.map_cons, List.sum_cons]
    have := h a (List.mem_cons_self ..)
    have := ih (fun x hx => h x (List.mem_cons_of_mem _ hx))
    omega

theorem sum_map_lt {α} (l : List α) (f g : α → Nat) (h : ∀ x ∈ l, f x ≤ g x)
    (hs : ∃ x ∈ l, f x < g x) : (l.map f).sum < (l.map g).sum := by
  induction l with
  | nil => obtain ⟨x, hx, _⟩ := hs; cases hx
  | cons a r ih =>
    simp only [List.map_cons, List.sum_cons]
    have h1 := h a (List.mem_cons_self ..)
    have h2 := sum_map_le r f g (fun x hx => h x (List.mem_cons_of_mem _ hx))
    obtain ⟨x, hx, hlt⟩ := hs
    rcases List.mem_cons.mp hx with rfl | hx
    · omega
    · have := ih (fun x hx => h x (List.mem_cons_of_mem _ hx)) ⟨x, hx, hlt⟩
      omega

theorem filter_length_le_of_imp {α} (l : List α) (p q : α → Bool)
    (h : ∀ x ∈ l, p x = true → q x = true) : (l.filter p).length ≤ (l.filter q).length := by
  induction l with
  | nil => simp
  | cons a r ih =>
    have ih' := ih (fun x hx => h x (List.mem_cons_of_mem _ hx))
    have ha := h a (List.mem_cons_self ..)
    cases hp : p a <;> cases hq' : q a <;> simp_all [List.filter_cons] <;> omega

theorem filter_length_lt_of_imp {α} (l : List α) (p q : α → Bool)
    (h : ∀ x ∈ l, p x = true → q x = true) (hs : ∃ x ∈ l, p x = false ∧ q x = true) :
    (l.filter p).length < (l.filter q).length := by
  induction l with
  | nil => obtain ⟨x, hx, _⟩ := hs; cases hx
  | cons a r ih =>
    have hle := filter_length_le_of_imp r p q (fun x hx => h x (List.mem_cons_of_mem _ hx))
    have ha := h a (List.mem_cons_self ..)
    obtain ⟨x, hx, hpx, hqx⟩ := hs
    rcases List.mem_cons.mp hx with rfl | hx
    · simp [List.filter_cons, hpx, hqx]; omega
    · have := ih (fun x hx => h x (List.mem_cons_of_mem _ hx)) ⟨x, hx, hpx, hqx⟩
      cases hp : p a <;> cases hq' : q a <;> simp_all [List.filter_cons] <;> omega


/-! ### the measure never goes up under a quiet event -/

theorem noChunks_congr {s s' : State} (hn : s'.nodes = s.nodes)
    (hf : ∀ n, s'.forksOf n = s.forksOf n) (hc : ∀ n f, s'.nch n f = s.nch n f) :
    noChunks s' = noChunks s := by
  simp [noChunks, forkPairs_congr hn hf, hc]

theorem potB_le {s : State} {e : Ev} (hen : enabled s e = true) (hq : e.quiet s = true)
    (hm : ∀ n f k, e ≠ .mkchunks n f k) : potB (apply s e) ≤ potB s := by
  unfold potB
  rw [objs_congr (apply_nodes s e) (quiet_forksOf hq) (quiet_nch hm)]
  apply sum_map_le
  intro o _
  rcases obj_step hen hq o with h | h
  · exact Nat.le_of_lt h.1
  · exact h.2

theorem potB_lt {s : State} {e : Ev} (hen : enabled s e = true) (hq : e.quiet s = true)
    (hm : ∀ n f k, e ≠ .mkchunks n f k)
    (hs : ∃ o ∈ objs s, potObj (apply s e) o < potObj s o) : potB (apply s e) < potB s := by
  unfold potB
  rw [objs_congr (apply_nodes s e) (quiet_forksOf hq) (quiet_nch hm)]
  apply sum_map_lt _ _ _ _ hs
  intro o _
  rcases obj_step hen hq o with h | h
  · exact Nat.le_of_lt h.1
  · exact h.2

theorem mu_lt_of_potB {s s' : State} (hn : s'.nodes = s.nodes) (hnc : noChunks s' = noChunks s)
    (hph : s'.phase = s.phase) (h : potB s' < potB s) : LexLt (mu s') (mu s) := by
  right
  refine ⟨hnc, ?_⟩
  have h1 := stale_le s'
  have h2 : (potB s' + 1) * (s.nodes.length + 1) ≤ potB s * (s.nodes.length + 1) :=
    Nat.mul_le_mul_right _ h
  rw [Nat.add_mul] at h2
  simp only [mu, hn, hph] at h1 ⊢
  omega

theorem not_mk_cached {s : State} {e : Ev} (hns : ∀ n st, e ≠ .nodestate n st) (n : Nat) :
    (apply s e).cachedOf n = s.cachedOf n := by
  rw [apply_cachedOf]; cases e <;> simp_all

theorem quiet_phase {s : State} {e : Ev} (hq : e.quiet s = true) (hr : e ≠ .refresh) :
    (apply s e).phase = s.phase := by
  rw [apply_phase]; cases e <;> simp_all [Ev.quiet, Ev.structural]

/-- a quiet event that is neither `mkchunks`, `nodestate` nor `refresh` and lowers the
potential of some existing object lowers the measure -/
theorem mu_lt_of_obj {s : State} {e : Ev} (hen : enabled s e = true) (hq : e.quiet s = true)
    (hm : ∀ n f k, e ≠ .mkchunks n f k) (hr : e ≠ .refresh)
    (hs : ∃ o ∈ objs s, potObj (apply s e) o < potObj s o) : LexLt (mu (apply s e)) (mu s) :=
  mu_lt_of_potB (apply_nodes s e)
    (noChunks_congr (apply_nodes s e) (quiet_forksOf hq) (quiet_nch hm))
    (quiet_phase hq hr) (potB_lt hen hq hm hs)

theorem mu_mkchunks {s : State} {n f k : Nat} (hen : enabled s (.mkchunks n f k) = true)
    (hq : (Ev.mkchunks n f k).quiet s = true) : LexLt (mu (apply s (.mkchunks n f k))) (mu s) := by
  left
  have hph : s.phase = .normal := by
    simpa [Ev.quiet, Ev.failing, Ev.structural] using hq
  simp only [enabled, guards, List.all_cons, List.all_nil, Bool.and_true, Bool.and_eq_true,
    Bool.or_eq_true, bne_iff_ne, ne_eq, beq_iff_eq, hph, not_true_eq_false, false_or,
    decide_eq_true_eq] at hen
  obtain ⟨_, hobj, _, hg⟩ := hen
  have hz : s.nch n f = 0 := hg.1.1.1.1.1
  have hk : 0 < k := hg.1.1.1.1.2
  simp only [mu, noChunks]
  rw [forkPairs_congr (apply_nodes s _) (quiet_forksOf hq)]
  apply filter_length_lt_of_imp
  · intro p _ hp
    rw [apply_nch] at hp
    simp only [] at hp
    split at hp
    · simp only [beq_iff_eq] at hp; omega
    · exact hp
  · refine ⟨(n, f), ?_, ?_, by simpa using hz⟩
    · simp only [State.hasObj, Bool.and_eq_true, decide_eq_true_eq, List.contains_eq_mem,
        and_true] at hobj
      simp only [forkPairs, List.mem_flatMap, List.mem_range, List.mem_map]
      exact ⟨n, hobj.1, f, by simpa using hobj.2, rfl⟩
    · rw [apply_nch]; simp; omega

theorem mu_quiet {s : State} {e : Ev} (hen : enabled s e = true) (hq : e.quiet s = true) :
    LexLt (mu (apply s e)) (mu s) ∨ mu (apply s e) = mu s := by
  by_cases hmk : ∃ n f k, e = .mkchunks n f k
  · obtain ⟨n, f, k, rfl⟩ := hmk
    exact Or.inl (mu_mkchunks hen hq)
  have hm : ∀ n f k, e ≠ .mkchunks n f k := fun n f k h => hmk ⟨n, f, k, h⟩
  have hnodes := apply_nodes s e
  have hf := quiet_forksOf hq
  have hc := quiet_nch (s := s) hm
  have hnc := noChunks_congr hnodes hf hc
  by_cases hns : ∃ n st, e = .nodestate n st
  · obtain ⟨n, st, rfl⟩ := hns
    have hst : ∀ o, (apply s (.nodestate n st)).st o = s.st o := fun o => by
      simp [State.st, apply_m]
    have hnst := nodeState_congr hnodes hf hc hst
    have hpb : potB (apply s (.nodestate n st)) = potB s := by
      unfold potB potObj
      rw [objs_congr hnodes hf hc]
      simp [apply_m, apply_launches, apply_inc]
    have hph : (apply s (.nodestate n st)).phase = s.phase := by simp [apply_phase]
    obtain ⟨_, hn, hstn⟩ := en_nodestate hen
    by_cases hsame : s.cachedOf n = st
    · right
      have hcd : ∀ n', (apply s (.nodestate n st)).cachedOf n' = s.cachedOf n' := by
        intro n'; rw [apply_cachedOf]; simp only []; split
        · rename_i h; subst h; exact hsame.symm
        · rfl
      simp only [mu, hnc, hpb, hnodes, hph, stale_congr hnodes hcd hnst]
    · left; right
      refine ⟨hnc, ?_⟩
      have hlt : stale (apply s (.nodestate n st)) < stale s := by
        unfold stale
        rw [hnodes]
        apply filter_length_lt_of_imp
        · intro n' _ hp
          rw [hnst, apply_cachedOf] at hp
          simp only [] at hp
          split at hp
          · rename_i h; subst h; rw [hstn] at hp; simp at hp
          · exact hp
        · refine ⟨n, by simpa using hn, ?_, ?_⟩
          · rw [hnst, apply_cachedOf]; simp [hstn]
          · rw [← hstn]; simpa using hsame
      simp only [mu, hpb, hnodes, hph]
      omega
  have hns' : ∀ n st, e ≠ .nodestate n st := fun n st h => hns ⟨n, st, h⟩
  have hcd := not_mk_cached (s := s) hns'
  by_cases hrf : e = .refresh
  · subst hrf
    have hst : ∀ o, (apply s .refresh).st o = s.st o := fun o => by simp [State.st, apply_m]
    have hnst := nodeState_congr hnodes hf hc hst
    have hpb : potB (apply s .refresh) = potB s := by
      unfold potB potObj
      rw [objs_congr hnodes hf hc]
      simp [apply_m, apply_launches, apply_inc]
    have hsl := stale_congr hnodes hcd hnst
    have hph : (apply s .refresh).phase = .normal := by simp [apply_phase]
    by_cases hl : s.phase = .loading
    · left; right
      refine ⟨hnc, ?_⟩
      simp [mu, hpb, hnodes, hsl, hph, hl]
    · right
      have : s.phase = .normal := by
        cases hp : s.phase
        · exact absurd hp hl
        · rfl
        · exact absurd hp (en_refresh hen).1
      simp [mu, hnc, hpb, hnodes, hsl, hph, this]
  have hph := quiet_phase hq hrf
  by_cases hs : ∃ o ∈ objs s, potObj (apply s e) o < potObj s o
  · exact Or.inl (mu_lt_of_obj hen hq hm hrf hs)
  · have hst : ∀ o, (apply s e).st o = s.st o := by
      intro o
      rcases obj_step hen hq o with h | h
      · exact absurd ⟨o, hasObj_mem_objs h.2, h.1⟩ hs
      · exact h.1
    have hnst := nodeState_congr hnodes hf hc hst
    have hsl := stale_congr hnodes hcd hnst
    have hle := potB_le hen hq hm
    rcases Nat.lt_or_eq_of_le hle with hlt | heq
    · exact Or.inl (mu_lt_of_potB hnodes hnc hph hlt)
    · right
      simp only [mu, hnc, heq, hnodes, hsl, hph]

end Martian.Sched
