import Martian.SchedProgress
import Proofs.Sched
import Proofs.SchedOnce
import Proofs.SchedTrans

/-! Progress and termination of the `Sched` transition system. -/
namespace Martian.Sched

/-! ### arithmetic of the potential -/

theorem missing_add_le (x : SSet) (y : Sentinel) : (x.add y).missing ≤ x.missing := by
  cases y <;> simp only [SSet.add, SSet.missing] <;>
    cases x.errors <;> cases x.assert <;> cases x.complete <;> cases x.disabled <;>
    cases x.log <;> cases x.jobinfo <;> simp

theorem missing_add_lt (x : SSet) (y : Sentinel) (hy : y ≠ .queuedLocally)
    (h : x.has y = false) : (x.add y).missing < x.missing := by
  cases y <;> simp only [SSet.add, SSet.missing, SSet.has] at h ⊢ <;>
    first
    | exact absurd rfl hy
    | (rw [h]; cases x.errors <;> cases x.assert <;> cases x.complete <;> cases x.disabled <;>
        cases x.log <;> cases x.jobinfo <;> simp)

theorem missing_del_q (x : SSet) : (x.del .queuedLocally).missing = x.missing := rfl

theorem add_of_has (x : SSet) (y : Sentinel) (h : x.has y = true) : x.add y = x := by
  cases y <;> simp only [SSet.has] at h <;> simp [SSet.add, ← h]

theorem metaState_add_q (x : SSet) : metaState (x.add .queuedLocally) = metaState x := rfl
theorem metaState_del_q (x : SSet) : metaState (x.del .queuedLocally) = metaState x := rfl


theorem add_queued_ne (x : SSet) (y : Sentinel) (hy : y ≠ .queuedLocally) :
    (x.add y).queued = x.queued := by
  cases y <;> first | rfl | exact absurd rfl hy

theorem missing_add_q (x : SSet) : (x.add .queuedLocally).missing = x.missing := rfl

theorem potMeta_put_le (m : Meta) (x : Sentinel)
    (hd : x = .queuedLocally → m.disk.has x = true) : potMeta (put x m) ≤ potMeta m := by
  by_cases hx : x = .queuedLocally
  · subst hx
    have := hd rfl
    simp only [SSet.has] at this
    have hq : (m.disk.add .queuedLocally).queued = true := rfl
    simp only [potMeta, put, missing_add_q, hq, this]
    omega
  · have h1 := missing_add_le m.seen x
    have h2 := missing_add_le m.disk x
    simp only [potMeta, put, add_queued_ne _ _ hx]
    omega

theorem potMeta_put_lt (m : Meta) (x : Sentinel) (hx : x ≠ .queuedLocally)
    (h : m.seen.has x = false) : potMeta (put x m) < potMeta m := by
  have h1 := missing_add_lt m.seen x hx h
  have h2 := missing_add_le m.disk x
  simp only [potMeta, put, add_queued_ne _ _ hx]
  omega

theorem potMeta_see_le (m : Meta) (x : Sentinel) : potMeta (see x m) ≤ potMeta m := by
  by_cases hx : x = .queuedLocally
  · subst hx; simp only [potMeta, see, missing_add_q]; omega
  · have h1 := missing_add_le m.seen x
    simp only [potMeta, see]
    omega

theorem potMeta_see_lt (m : Meta) (x : Sentinel) (hx : x ≠ .queuedLocally)
    (h : m.seen.has x = false) : potMeta (see x m) < potMeta m := by
  have h1 := missing_add_lt m.seen x hx h
  simp only [potMeta, see]
  omega

theorem potMeta_unq_le (m : Meta) : potMeta (unq m) ≤ potMeta m := by
  simp only [potMeta, unq, missing_del_q]
  have : (m.disk.del .queuedLocally).queued = false := rfl
  rw [this]; simp only [Bool.toNat_false]; omega

theorem potMeta_launch_le (m : Meta) :
    potMeta (put .queuedLocally (put .jobinfo m)) ≤ potMeta m + 2 := by
  have h1 := missing_add_le m.seen .jobinfo
  have h2 := missing_add_le m.disk .jobinfo
  simp only [potMeta, put, missing_add_q]
  have : ((m.disk.add .jobinfo).add .queuedLocally).queued = true := rfl
  rw [this]
  simp only [Bool.toNat_true]
  omega

theorem potMeta_toDisk_le (m : Meta) (x : Sentinel) (hx : x ≠ .queuedLocally) :
    potMeta (toDisk x m) ≤ potMeta m := by
  have h2 := missing_add_le m.disk x
  simp only [potMeta, toDisk, add_queued_ne _ _ hx]
  omega

theorem potMeta_toDisk_lt (m : Meta) (x : Sentinel) (hx : x ≠ .queuedLocally)
    (h : m.disk.has x = false) : potMeta (toDisk x m) < potMeta m := by
  have h2 := missing_add_lt m.disk x hx h
  simp only [potMeta, toDisk, add_queued_ne _ _ hx]
  omega

theorem potMeta_joblog_le (m : Meta) : potMeta (toDisk .log m) ≤ potMeta m :=
  potMeta_toDisk_le _ _ (by simp)

theorem potMeta_joblog_lt (m : Meta) (h : m.disk.has .log = false) :
    potMeta (toDisk .log m) < potMeta m :=
  potMeta_toDisk_lt _ _ (by simp) h

/-! ### the cache state of an object changes only when its potential goes down -/

theorem metaState_add_same (x : SSet) (y : Sentinel) (h : x.has y = true ∨ y = .queuedLocally) :
    metaState (x.add y) = metaState x := by
  rcases h with h | h
  · rw [add_of_has x y h]
  · subst h; rfl


theorem quiet_ff {s : State} {e : Ev} (h : e.quiet s = true) : e.failureFree = true := by
  cases e <;> simp_all [Ev.quiet, Ev.failing, Ev.structural, Ev.failureFree]

theorem quiet_inc {s : State} {e : Ev} (h : e.quiet s = true) : (apply s e).inc = s.inc := by
  rw [apply_inc]; cases e <;> simp_all [Ev.quiet, Ev.structural]

theorem mrpWriteOk_queued (s : State) (o : Obj) : mrpWriteOk s o .queuedLocally = false := by
  unfold mrpWriteOk; cases o.r <;> rfl

/-- every quiet event, seen from one object: either the object's potential goes
down, or it does not go up and mrp's view of the object is unchanged -/
theorem obj_step {s : State} {e : Ev} (hen : enabled s e = true) (hq : e.quiet s = true)
    (o' : Obj) :
    (potObj (apply s e) o' < potObj s o' ∧ s.hasObj o' = true) ∨
    ((apply s e).st o' = s.st o' ∧ potObj (apply s e) o' ≤ potObj s o') := by
  unfold potObj State.st
  rw [quiet_inc hq, apply_launches, apply_m]
  cases e <;> simp only [] <;> try exact Or.inr ⟨trivial, Nat.le_refl _⟩
  case W o x =>
    split
    · rename_i heq; subst heq
      by_cases hx : (s.m o).seen.has x = true ∨ x = .queuedLocally
      · right
        refine ⟨by simp only [put]; exact metaState_add_same _ _ hx, ?_⟩
        apply Nat.add_le_add_right
        apply potMeta_put_le
        rintro rfl
        rcases (en_W hen).2.2 with h | h
        · exact h
        · rw [mrpWriteOk_queued] at h; cases h
      · left
        have h1 : (s.m o).seen.has x = false := by
          cases h : (s.m o).seen.has x
          · rfl
          · exact absurd (Or.inl h) hx
        exact ⟨Nat.add_lt_add_right (potMeta_put_lt _ _ (fun h => hx (Or.inr h)) h1) _,
          (en_W hen).2.1⟩
    · exact Or.inr ⟨rfl, Nat.le_refl _⟩
  case R o x =>
    split
    · rename_i heq; subst heq
      by_cases hx : (s.m o).seen.has x = true ∨ x = .queuedLocally
      · right
        exact ⟨by simp only [see]; exact metaState_add_same _ _ hx,
          Nat.add_le_add_right (potMeta_see_le _ _) _⟩
      · left
        have h1 : (s.m o).seen.has x = false := by
          cases h : (s.m o).seen.has x
          · rfl
          · exact absurd (Or.inl h) hx
        exact ⟨Nat.add_lt_add_right (potMeta_see_lt _ _ (fun h => hx (Or.inr h)) h1) _,
          (en_R hen).2.1⟩
    · exact Or.inr ⟨rfl, Nat.le_refl _⟩
  case D o x =>
    split
    · rename_i heq; subst heq
      by_cases hx : (s.m o).seen.has x = true ∨ x = .queuedLocally
      · right
        exact ⟨by simp only [see]; exact metaState_add_same _ _ hx,
          Nat.add_le_add_right (potMeta_see_le _ _) _⟩
      · left
        have h1 : (s.m o).seen.has x = false := by
          cases h : (s.m o).seen.has x
          · rfl
          · exact absurd (Or.inl h) hx
        exact ⟨Nat.add_lt_add_right (potMeta_see_lt _ _ (fun h => hx (Or.inr h)) h1) _,
          (en_D hen).2.1⟩
    · exact Or.inr ⟨rfl, Nat.le_refl _⟩
  case U o x =>
    split
    · rename_i heq; subst heq
      right
      exact ⟨by simp only [unq]; exact metaState_del_q _,
        Nat.add_le_add_right (potMeta_unq_le _) _⟩
    · exact Or.inr ⟨rfl, Nat.le_refl _⟩
  case launch o =>
    split
    · rename_i heq; subst heq
      left
      have hnew := (launchOk_phase (en_launch hen)).2.2.2.1
      have h1 : s.launches.contains (o, s.inc) = false := by simpa using hnew
      have h2 := potMeta_launch_le (s.m o)
      refine ⟨?_, (launchOk_phase (en_launch hen)).2.2.2.2⟩
      simp only [h1, List.contains_cons, beq_self_eq_true, Bool.true_or, if_true]
      simp
      omega
    · rename_i hne
      right
      refine ⟨rfl, ?_⟩
      have : ¬ o' = o := fun h => hne h.symm
      simp [List.contains_cons, this]
  case joblog o =>
    split
    · rename_i heq; subst heq
      right
      exact ⟨rfl, Nat.add_le_add_right (potMeta_joblog_le _) _⟩
    · exact Or.inr ⟨rfl, Nat.le_refl _⟩
  case jobend o x =>
    split
    · rename_i heq; subst heq
      right
      have hx : x = .complete := by simpa [Ev.quiet, Ev.failing, Ev.structural] using hq
      subst hx
      exact ⟨rfl, Nat.add_le_add_right (potMeta_toDisk_le _ _ (by simp)) _⟩
    · exact Or.inr ⟨rfl, Nat.le_refl _⟩
  case silentfail o => simp [Ev.quiet, Ev.failing] at hq
  case reset o => simp [Ev.quiet, Ev.structural] at hq
  case restart => simp [Ev.quiet, Ev.structural] at hq


/-! ### the structure of the pipestance under quiet events -/

theorem quiet_forksOf {s : State} {e : Ev} (hq : e.quiet s = true) (n : Nat) :
    (apply s e).forksOf n = s.forksOf n := by
  rw [apply_forksOf]; cases e <;> simp_all [Ev.quiet, Ev.structural]

theorem quiet_nch {s : State} {e : Ev} (hm : ∀ n f k, e ≠ .mkchunks n f k) (n f : Nat) :
    (apply s e).nch n f = s.nch n f := by
  rw [apply_nch]; cases e <;> simp_all

theorem forkPairs_congr {s s' : State} (hn : s'.nodes = s.nodes)
    (hf : ∀ n, s'.forksOf n = s.forksOf n) : forkPairs s' = forkPairs s := by
  simp [forkPairs, hn, hf]

theorem objs_congr {s s' : State} (hn : s'.nodes = s.nodes)
    (hf : ∀ n, s'.forksOf n = s.forksOf n) (hc : ∀ n f, s'.nch n f = s.nch n f) :
    objs s' = objs s := by
  simp [objs, forkObjs, forkPairs_congr hn hf, hc]

theorem forkState_congr {s s' : State}
    (hc : ∀ n f, s'.nch n f = s.nch n f) (hst : ∀ o, s'.st o = s.st o) (n : Nat) :
    forkState s' n = forkState s n := by
  funext f
  have : chunkState s' n f = chunkState s n f := funext fun i => by simp [chunkState, hst]
  simp [forkState, chunkStates, this, hc, hst]

theorem nodeDone_congr {s s' : State} (hf : ∀ n, s'.forksOf n = s.forksOf n)
    (hc : ∀ n f, s'.nch n f = s.nch n f) (hst : ∀ o, s'.st o = s.st o) (n : Nat) :
    nodeDone s' n = nodeDone s n := by
  simp [nodeDone, forkStates, forkState_congr hc hst, hf]

theorem nodeState_congr {s s' : State} (hn : s'.nodes = s.nodes)
    (hf : ∀ n, s'.forksOf n = s.forksOf n)
    (hc : ∀ n f, s'.nch n f = s.nch n f) (hst : ∀ o, s'.st o = s.st o) (n : Nat) :
    nodeState s' n = nodeState s n := by
  have hd : nodeDone s' = nodeDone s := funext (nodeDone_congr hf hc hst)
  simp [nodeState, forkStates, forkState_congr hc hst, State.pre, hn, hf, hd]

theorem stale_congr {s s' : State} (hn : s'.nodes = s.nodes)
    (hcd : ∀ n, s'.cachedOf n = s.cachedOf n) (hns : ∀ n, nodeState s' n = nodeState s n) :
    stale s' = stale s := by
  simp [stale, hn, hcd, hns]

theorem stale_le (s : State) : stale s ≤ s.nodes.length := by
  unfold stale
  exact Nat.le_trans (List.length_filter_le _ _) (by simp)

theorem hasObj_mem_objs {s : State} {o : Obj} (h : s.hasObj o = true) : o ∈ objs s := by
  obtain ⟨n, f, r⟩ := o
  simp only [State.hasObj, Bool.and_eq_true, decide_eq_true_eq, List.contains_eq_mem] at h
  simp only [objs, forkPairs, List.mem_flatMap, List.mem_range, List.mem_map]
  refine ⟨(n, f), ⟨n, h.1.1, f, h.1.2, rfl⟩, ?_⟩
  cases r <;> simp [forkObjs]
  simpa using h.2

/-! ### sums -/

theorem sum_map_le {α} (l : List α) (f g : α → Nat) (h : ∀ x ∈ l, f x ≤ g x) :
    (l.map f).sum ≤ (l.map g).sum := by
  induction l with
  | nil => simp
  | cons a r ih =>
    simp only [List.map_cons, List.sum_cons]
    have := h a (List.mem_cons_self ..)
    have := ih (fun x hx => h x (List.mem_cons_of_mem _ hx))
    omega

theorem sum_map_lt {α} (l : List α) (f g : α → Nat) (h : ∀ x ∈ l, f x ≤ g x)
    (hs : ∃ x ∈ l, f x < g x) : (l.map f).sum < (l.map g).sum := by
  induction l with
  | nil => obtain ⟨x, hx, _⟩ := hs; cases hx
  | cons a r ih =>
    simp only [List.map_cons, List.sum_cons]
    have h1 := h a (List.mem_cons_self ..)
    have h2 := sum_map_le r f g (fun x hx => h x (List.mem_cons_of_mem _ hx))
    obtain ⟨x, hx, hlt⟩ := hs
    rcases List.mem_cons.mp hx with rfl | hx
    · omega
    · have := ih (fun x hx => h x (List.mem_cons_of_mem _ hx)) ⟨x, hx, hlt⟩
      omega

theorem filter_length_le_of_imp {α} (l : List α) (p q : α → Bool)
    (h : ∀ x ∈ l, p x = true → q x = true) : (l.filter p).length ≤ (l.filter q).length := by
  induction l with
  | nil => simp
  | cons a r ih =>
    have ih' := ih (fun x hx => h x (List.mem_cons_of_mem _ hx))
    have ha := h a (List.mem_cons_self ..)
    cases hp : p a <;> cases hq' : q a <;> simp_all [List.filter_cons] <;> omega

theorem filter_length_lt_of_imp {α} (l : List α) (p q : α → Bool)
    (h : ∀ x ∈ l, p x = true → q x = true) (hs : ∃ x ∈ l, p x = false ∧ q x = true) :
    (l.filter p).length < (l.filter q).length := by
  induction l with
  | nil => obtain ⟨x, hx, _⟩ := hs; cases hx
  | cons a r ih =>
    have hle := filter_length_le_of_imp r p q (fun x hx => h x (List.mem_cons_of_mem _ hx))
    have ha := h a (List.mem_cons_self ..)
    obtain ⟨x, hx, hpx, hqx⟩ := hs
    rcases List.mem_cons.mp hx with rfl | hx
    · simp [List.filter_cons, hpx, hqx]; omega
    · have := ih (fun x hx => h x (List.mem_cons_of_mem _ hx)) ⟨x, hx, hpx, hqx⟩
      cases hp : p a <;> cases hq' : q a <;> simp_all [List.filter_cons] <;> omega


/-! ### the measure never goes up under a quiet event -/

theorem noChunks_congr {s s' : State} (hn : s'.nodes = s.nodes)
    (hf : ∀ n, s'.forksOf n = s.forksOf n) (hc : ∀ n f, s'.nch n f = s.nch n f) :
    noChunks s' = noChunks s := by
  simp [noChunks, forkPairs_congr hn hf, hc]

theorem potB_le {s : State} {e : Ev} (hen : enabled s e = true) (hq : e.quiet s = true)
    (hm : ∀ n f k, e ≠ .mkchunks n f k) : potB (apply s e) ≤ potB s := by
  unfold potB
  rw [objs_congr (apply_nodes s e) (quiet_forksOf hq) (quiet_nch hm)]
  apply sum_map_le
  intro o _
  rcases obj_step hen hq o with h | h
  · exact Nat.le_of_lt h.1
  · exact h.2

theorem potB_lt {s : State} {e : Ev} (hen : enabled s e = true) (hq : e.quiet s = true)
    (hm : ∀ n f k, e ≠ .mkchunks n f k)
    (hs : ∃ o ∈ objs s, potObj (apply s e) o < potObj s o) : potB (apply s e) < potB s := by
  unfold potB
  rw [objs_congr (apply_nodes s e) (quiet_forksOf hq) (quiet_nch hm)]
  apply sum_map_lt _ _ _ _ hs
  intro o _
  rcases obj_step hen hq o with h | h
  · exact Nat.le_of_lt h.1
  · exact h.2

theorem mu_lt_of_potB {s s' : State} (hn : s'.nodes = s.nodes) (hnc : noChunks s' = noChunks s)
    (hph : s'.phase = s.phase) (h : potB s' < potB s) : LexLt (mu s') (mu s) := by
  right
  refine ⟨hnc, ?_⟩
  have h1 := stale_le s'
  have h2 : (potB s' + 1) * (s.nodes.length + 1) ≤ potB s * (s.nodes.length + 1) :=
    Nat.mul_le_mul_right _ h
  rw [Nat.add_mul] at h2
  simp only [mu, hn, hph] at h1 ⊢
  omega

theorem not_mk_cached {s : State} {e : Ev} (hns : ∀ n st, e ≠ .nodestate n st) (n : Nat) :
    (apply s e).cachedOf n = s.cachedOf n := by
  rw [apply_cachedOf]; cases e <;> simp_all

theorem quiet_phase {s : State} {e : Ev} (hq : e.quiet s = true) (hr : e ≠ .refresh) :
    (apply s e).phase = s.phase := by
  rw [apply_phase]; cases e <;> simp_all [Ev.quiet, Ev.structural]

/-- a quiet event that is neither `mkchunks`, `nodestate` nor `refresh` and lowers the
potential of some existing object lowers the measure -/
theorem mu_lt_of_obj {s : State} {e : Ev} (hen : enabled s e = true) (hq : e.quiet s = true)
    (hm : ∀ n f k, e ≠ .mkchunks n f k) (hr : e ≠ .refresh)
    (hs : ∃ o ∈ objs s, potObj (apply s e) o < potObj s o) : LexLt (mu (apply s e)) (mu s) :=
  mu_lt_of_potB (apply_nodes s e)
    (noChunks_congr (apply_nodes s e) (quiet_forksOf hq) (quiet_nch hm))
    (quiet_phase hq hr) (potB_lt hen hq hm hs)

theorem mu_mkchunks {s : State} {n f k : Nat} (hen : enabled s (.mkchunks n f k) = true)
    (hq : (Ev.mkchunks n f k).quiet s = true) : LexLt (mu (apply s (.mkchunks n f k))) (mu s) := by
  left
  have hph : s.phase = .normal := by
    simpa [Ev.quiet, Ev.failing, Ev.structural] using hq
  simp only [enabled, guards, List.all_cons, List.all_nil, Bool.and_true, Bool.and_eq_true,
    Bool.or_eq_true, bne_iff_ne, ne_eq, beq_iff_eq, hph, not_true_eq_false, false_or,
    decide_eq_true_eq] at hen
  obtain ⟨_, hobj, _, hg, _⟩ := hen
  have hz : s.nch n f = 0 := hg.1.1.1.1.1
  have hk : 0 < k := hg.1.1.1.1.2
  simp only [mu, noChunks]
  rw [forkPairs_congr (apply_nodes s _) (quiet_forksOf hq)]
  apply filter_length_lt_of_imp
  · intro p _ hp
    rw [apply_nch] at hp
    simp only [] at hp
    split at hp
    · simp only [beq_iff_eq] at hp; omega
    · exact hp
  · refine ⟨(n, f), ?_, ?_, by simpa using hz⟩
    · simp only [State.hasObj, Bool.and_eq_true, decide_eq_true_eq, List.contains_eq_mem,
        and_true] at hobj
      simp only [forkPairs, List.mem_flatMap, List.mem_range, List.mem_map]
      exact ⟨n, hobj.1, f, by simpa using hobj.2, rfl⟩
    · rw [apply_nch]; simp; omega

theorem mu_quiet {s : State} {e : Ev} (hen : enabled s e = true) (hq : e.quiet s = true) :
    LexLt (mu (apply s e)) (mu s) ∨ mu (apply s e) = mu s := by
  by_cases hmk : ∃ n f k, e = .mkchunks n f k
  · obtain ⟨n, f, k, rfl⟩ := hmk
    exact Or.inl (mu_mkchunks hen hq)
  have hm : ∀ n f k, e ≠ .mkchunks n f k := fun n f k h => hmk ⟨n, f, k, h⟩
  have hnodes := apply_nodes s e
  have hf := quiet_forksOf hq
  have hc := quiet_nch (s := s) hm
  have hnc := noChunks_congr hnodes hf hc
  by_cases hns : ∃ n st, e = .nodestate n st
  · obtain ⟨n, st, rfl⟩ := hns
    have hst : ∀ o, (apply s (.nodestate n st)).st o = s.st o := fun o => by
      simp [State.st, apply_m]
    have hnst := nodeState_congr hnodes hf hc hst
    have hpb : potB (apply s (.nodestate n st)) = potB s := by
      unfold potB potObj
      rw [objs_congr hnodes hf hc]
      simp [apply_m, apply_launches, apply_inc]
    have hph : (apply s (.nodestate n st)).phase = s.phase := by simp [apply_phase]
    obtain ⟨_, hn, hstn⟩ := en_nodestate hen
    by_cases hsame : s.cachedOf n = st
    · right
      have hcd : ∀ n', (apply s (.nodestate n st)).cachedOf n' = s.cachedOf n' := by
        intro n'; rw [apply_cachedOf]; simp only []; split
        · rename_i h; subst h; exact hsame.symm
        · rfl
      simp only [mu, hnc, hpb, hnodes, hph, stale_congr hnodes hcd hnst]
    · left; right
      refine ⟨hnc, ?_⟩
      have hlt : stale (apply s (.nodestate n st)) < stale s := by
        unfold stale
        rw [hnodes]
        apply filter_length_lt_of_imp
        · intro n' _ hp
          rw [hnst, apply_cachedOf] at hp
          simp only [] at hp
          split at hp
          · rename_i h; subst h; rw [hstn] at hp; simp at hp
          · exact hp
        · refine ⟨n, by simpa using hn, ?_, ?_⟩
          · rw [hnst, apply_cachedOf]; simp [hstn]
          · rw [← hstn]; simpa using hsame
      simp only [mu, hpb, hnodes, hph]
      omega
  have hns' : ∀ n st, e ≠ .nodestate n st := fun n st h => hns ⟨n, st, h⟩
  have hcd := not_mk_cached (s := s) hns'
  by_cases hrf : e = .refresh
  · subst hrf
    have hst : ∀ o, (apply s .refresh).st o = s.st o := fun o => by simp [State.st, apply_m]
    have hnst := nodeState_congr hnodes hf hc hst
    have hpb : potB (apply s .refresh) = potB s := by
      unfold potB potObj
      rw [objs_congr hnodes hf hc]
      simp [apply_m, apply_launches, apply_inc]
    have hsl := stale_congr hnodes hcd hnst
    have hph : (apply s .refresh).phase = .normal := by simp [apply_phase]
    by_cases hl : s.phase = .loading
    · left; right
      refine ⟨hnc, ?_⟩
      simp [mu, hpb, hnodes, hsl, hph, hl]
    · right
      have : s.phase = .normal := by
        cases hp : s.phase
        · exact absurd hp hl
        · rfl
        · exact absurd hp (en_refresh hen).1
      simp [mu, hnc, hpb, hnodes, hsl, hph, this]
  have hph := quiet_phase hq hrf
  by_cases hs : ∃ o ∈ objs s, potObj (apply s e) o < potObj s o
  · exact Or.inl (mu_lt_of_obj hen hq hm hrf hs)
  · have hst : ∀ o, (apply s e).st o = s.st o := by
      intro o
      rcases obj_step hen hq o with h | h
      · exact absurd ⟨o, hasObj_mem_objs h.2, h.1⟩ hs
      · exact h.1
    have hnst := nodeState_congr hnodes hf hc hst
    have hsl := stale_congr hnodes hcd hnst
    have hle := potB_le hen hq hm
    rcases Nat.lt_or_eq_of_le hle with hlt | heq
    · exact Or.inl (mu_lt_of_potB hnodes hnc hph hlt)
    · right
      simp only [mu, hnc, heq, hnodes, hsl, hph]


/-! ### roles: which sentinels can exist in which kind of object (every reachable state) -/

/-- `_disabled` exists only in a fork's own metadata; an object that is not run as a job
(fork metadata, split/join stubs of a non-splitting stage, everything of a pipeline)
has no `_log`, `_jobinfo`, `_queued_locally` and is written by mrp only (directory ⊆ cache) -/
structure RoleObj (k : Kind) (r : Role) (m : Meta) : Prop where
  dis : r ≠ .fork → m.disk.has .disabled = false
  nj : jobObj k r = false →
    m.disk.has .log = false ∧ m.disk.has .jobinfo = false ∧ m.disk.has .queuedLocally = false ∧
    ∀ y, m.disk.has y = true → m.seen.has y = true

def RoleInv (s : State) : Prop := ∀ o : Obj, RoleObj (s.kind o.n) o.r (s.m o)

theorem roleObj_empty (k r) : RoleObj k r {} := by constructor <;> simp

theorem roleObj_see {k r m x} (h : RoleObj k r m) : RoleObj k r (see x m) := by
  obtain ⟨h1, h2⟩ := h
  constructor <;> simp only [see, has_add] <;> grind

theorem roleObj_put_disk {k r m x} (h : RoleObj k r m) (hx : m.disk.has x = true) :
    RoleObj k r (put x m) := by
  obtain ⟨h1, h2⟩ := h
  constructor <;> simp only [put, has_add] <;> grind

theorem roleObj_put {k r m x} (h : RoleObj k r m) (hd : x = .disabled → r = .fork)
    (h1 : x ≠ .log) (h2 : x ≠ .jobinfo) (h3 : x ≠ .queuedLocally) : RoleObj k r (put x m) := by
  obtain ⟨a, b⟩ := h
  constructor <;> simp only [put, has_add] <;> grind

theorem roleObj_unq {k r m} (h : RoleObj k r m) : RoleObj k r (unq m) := by
  obtain ⟨h1, h2⟩ := h
  constructor <;> simp only [unq, has_del] <;> grind

theorem roleObj_launch {k r m} (h : RoleObj k r m) (hj : jobObj k r = true) :
    RoleObj k r (put .queuedLocally (put .jobinfo m)) := by
  obtain ⟨h1, h2⟩ := h
  constructor <;> simp only [put, has_add] <;> grind

theorem roleObj_joblog {k r m} (h : RoleObj k r m) (hj : m.disk.has .jobinfo = true) :
    RoleObj k r (toDisk .log m) := by
  obtain ⟨h1, h2⟩ := h
  constructor <;> simp only [toDisk, has_add] <;> grind

theorem roleObj_jobend {k r m x} (h : RoleObj k r m) (hj : m.disk.has .jobinfo = true)
    (hx : x = .complete ∨ x = .errors ∨ x = .assert) : RoleObj k r (toDisk x m) := by
  obtain ⟨h1, h2⟩ := h
  constructor <;> simp only [toDisk, has_add] <;> grind

theorem roleObj_reload {k r m} (h : RoleObj k r m) : RoleObj k r (reload m) := by
  obtain ⟨h1, h2⟩ := h
  constructor <;> simp only [reload] <;> grind

theorem mrpWriteOk_cases {s : State} {o : Obj} {x : Sentinel} (h : mrpWriteOk s o x = true) :
    x = .errors ∨ x = .complete ∨ (x = .disabled ∧ o.r = .fork) := by
  unfold mrpWriteOk at h
  cases x <;> cases hr : o.r <;> simp_all

theorem roleInv_step {s : State} {e : Ev} (hen : enabled s e = true) (h : RoleInv s) :
    RoleInv (apply s e) := by
  intro o'
  rw [apply_kind, apply_m]
  cases e <;> simp only [] <;> try exact h o'
  case W o x =>
    split
    · rename_i heq; subst heq
      rcases (en_W hen).2.2 with hd | hw
      · exact roleObj_put_disk (h o) hd
      · rcases mrpWriteOk_cases hw with rfl | rfl | ⟨rfl, hr⟩
        · exact roleObj_put (h o) (by simp) (by simp) (by simp) (by simp)
        · exact roleObj_put (h o) (by simp) (by simp) (by simp) (by simp)
        · exact roleObj_put (h o) (fun _ => hr) (by simp) (by simp) (by simp)
    · exact h o'
  case R o x => split; (rename_i heq; subst heq; exact roleObj_see (h o)); exact h o'
  case D o x => split; (rename_i heq; subst heq; exact roleObj_see (h o)); exact h o'
  case U o x => split; (rename_i heq; subst heq; exact roleObj_unq (h o)); exact h o'
  case launch o =>
    split
    · rename_i heq; subst heq
      exact roleObj_launch (h o) (launchOk_facts (en_launch hen)).2.1
    · exact h o'
  case joblog o =>
    split
    · rename_i heq; subst heq; exact roleObj_joblog (h o) (en_joblog hen).2
    · exact h o'
  case jobend o x =>
    split
    · rename_i heq; subst heq
      obtain ⟨_, b, c, _⟩ := en_jobend hen
      exact roleObj_jobend (h o) c b
    · exact h o'
  case silentfail o =>
    split
    · rename_i heq; subst heq
      exact roleObj_put (h o) (by simp) (by simp) (by simp) (by simp)
    · exact h o'
  case reset o =>
    split
    · exact roleObj_empty _ _
    · exact h o'
  case restart => exact roleObj_reload (h o')

theorem reach_roleInv {g : List NodeInfo} {s : State} (h : Reach g s) : RoleInv s := by
  induction h with
  | init => intro o; exact roleObj_empty _ _
  | step _ hen ih => exact roleInv_step hen ih

theorem reachFull_roleInv {g : List NodeInfo} {s : State} (h : ReachFull g s) : RoleInv s := by
  induction h with
  | init => intro o; exact roleObj_empty _ _
  | step _ hen ih => exact roleInv_step hen ih

/-- forks exist only for nodes of the graph -/
def ForkRange (s : State) : Prop := ∀ n, s.nodes.length ≤ n → s.forksOf n = []

theorem forkRange_step {s : State} {e : Ev} (hen : enabled s e = true) (h : ForkRange s) :
    ForkRange (apply s e) := by
  intro n hn
  rw [apply_nodes] at hn
  rw [apply_forksOf]
  cases e <;> simp only [] <;> try exact h n hn
  case fork n' f =>
    split
    · rename_i heq; subst heq
      have := (en_fork hen).2.1; omega
    · exact h n hn
  case forkorder n' l =>
    split
    · rename_i heq; subst heq
      have hsub := isSubNodup_mem (en_forkorder hen).2
      rw [h n' hn] at hsub
      cases l with
      | nil => rfl
      | cons a r => exact absurd (hsub a (List.mem_cons_self ..)) (by simp)
    · exact h n hn

theorem reach_forkRange {g : List NodeInfo} {s : State} (h : Reach g s) : ForkRange s := by
  induction h with
  | init => intro n _; rfl
  | step _ hen ih => exact forkRange_step hen ih

theorem reachFull_forkRange {g : List NodeInfo} {s : State} (h : ReachFull g s) : ForkRange s := by
  induction h with
  | init => intro n _; rfl
  | step _ hen ih => exact forkRange_step hen ih


/-! ### progress events -/

/-- no failure marker in any object of node `n` -/
def CleanNode (s : State) (n : Nat) : Prop :=
  ∀ f r, (s.m ⟨n, f, r⟩).disk.has .errors = false ∧ (s.m ⟨n, f, r⟩).disk.has .assert = false

theorem not_seen_of_not_disk {s : State} (hobj : ObjsInv s) {o : Obj} {y : Sentinel}
    (h : (s.m o).disk.has y = false) : (s.m o).seen.has y = false := by
  cases hs : (s.m o).seen.has y
  · rfl
  · have := (hobj o).sub y hs; rw [h] at this; cases this

theorem st_not_failed {s : State} (hobj : ObjsInv s) {o : Obj}
    (hc : (s.m o).disk.has .errors = false ∧ (s.m o).disk.has .assert = false) :
    s.st o ≠ some .failed := by
  intro h
  rcases metaState_failed.mp h with h | h
  · rw [not_seen_of_not_disk hobj hc.1] at h; cases h
  · rw [not_seen_of_not_disk hobj hc.2] at h; cases h

theorem st_complete_of {s : State} (hobj : ObjsInv s) {o : Obj}
    (hc : (s.m o).disk.has .errors = false ∧ (s.m o).disk.has .assert = false)
    (h : (s.m o).seen.has .complete = true) : s.st o = some .complete := by
  unfold State.st
  rw [metaState_eq, not_seen_of_not_disk hobj hc.1, not_seen_of_not_disk hobj hc.2, h]
  simp

/-- an object that is not the fork's own metadata, carries no failure, was not
submitted and is not seen complete has no state at all -/
theorem st_none_of {s : State} (hobj : ObjsInv s) (hrole : RoleInv s) {o : Obj}
    (hr : o.r ≠ .fork)
    (hc : (s.m o).disk.has .errors = false ∧ (s.m o).disk.has .assert = false)
    (hj : (s.m o).disk.has .jobinfo = false) (hcomp : (s.m o).seen.has .complete = false) :
    s.st o = none := by
  have hlog : (s.m o).disk.has .log = false := by
    cases hjo : jobObj (s.kind o.n) o.r
    · exact ((hrole o).nj hjo).1
    · cases hl : (s.m o).disk.has .log
      · rfl
      · have := (hobj o).kk hjo (Or.inl hl); rw [hj] at this; cases this
  unfold State.st
  rw [metaState_eq, not_seen_of_not_disk hobj hc.1, not_seen_of_not_disk hobj hc.2, hcomp,
    not_seen_of_not_disk hobj ((hrole o).dis hr), not_seen_of_not_disk hobj hlog,
    not_seen_of_not_disk hobj hj]
  simp

theorem potObj_frame {s : State} {e : Ev} (o : Obj) (hl : (apply s e).launches = s.launches)
    (hi : (apply s e).inc = s.inc) :
    potObj (apply s e) o =
      potMeta ((apply s e).m o) + (if s.launches.contains (o, s.inc) then 0 else 3) := by
  simp [potObj, hl, hi]

theorem sched_quiet {s : State} {e : Ev} (h : e.sched s = true) : e.quiet s = true := by
  cases e <;> simp_all [Ev.sched, Ev.quiet, Ev.failing, Ev.structural]

theorem progress_of_obj {s : State} {e : Ev} {o : Obj} (hen : enabled s e = true)
    (hs : e.sched s = true) (hm : ∀ n f k, e ≠ .mkchunks n f k) (hr : e ≠ .refresh)
    (hh : s.hasObj o = true) (hlt : potObj (apply s e) o < potObj s o) : Progress s e :=
  ⟨hs, hen, mu_lt_of_obj hen (sched_quiet hs) hm hr ⟨o, hasObj_mem_objs hh, hlt⟩⟩

theorem progress_W {s : State} {o : Obj} {x : Sentinel} (hen : enabled s (.W o x) = true)
    (hx : x = .complete) (hs : (s.m o).seen.has x = false) :
    Progress s (.W o x) := by
  subst hx
  refine progress_of_obj hen (by simp [Ev.sched]) (by simp) (by simp) (en_W hen).2.1 ?_
  rw [potObj_frame o (by simp [apply_launches]) (by simp [apply_inc]), potObj, apply_m]
  simp only [if_true]
  exact Nat.add_lt_add_right (potMeta_put_lt _ _ (by simp) hs) _

theorem progress_R {s : State} {o : Obj} (hen : enabled s (.R o .complete) = true)
    (hs : (s.m o).seen.has .complete = false) : Progress s (.R o .complete) := by
  refine progress_of_obj hen (by simp [Ev.sched]) (by simp) (by simp)
    (en_R hen).2.1 ?_
  rw [potObj_frame o (by simp [apply_launches]) (by simp [apply_inc]), potObj, apply_m]
  simp only [if_true]
  exact Nat.add_lt_add_right (potMeta_see_lt _ _ (by simp) hs) _

theorem progress_launch {s : State} {o : Obj} (h : launchOk s o = true) :
    Progress s (.launch o) := by
  have hen : enabled s (.launch o) = true := by simp [enabled, guards, h]
  have hq : (Ev.launch o).quiet s = true := by simp [Ev.quiet, Ev.failing, Ev.structural]
  refine progress_of_obj hen (by simp [Ev.sched]) (by simp) (by simp) (launchOk_phase h).2.2.2.2 ?_
  rcases obj_step hen hq o with h' | h'
  · exact h'.1
  · -- the state of the object changes from none to queued
    exfalso
    have h0 := (launchOk_facts h).2.2
    have h1 := h'.1
    rw [h0] at h1
    have : ((apply s (.launch o)).m o).seen.has .jobinfo = true := by
      rw [apply_m]; simp [put, has_add]
    exact st_ne_none_of_seen (Or.inl rfl) this h1

/-- a submitted job that is alive and that mrp has not yet seen complete can always move on:
it starts (`_log`), ends (`_complete`), or its `_complete` is read from the journal -/
theorem job_progress {s : State} {o : Obj} (hr : o.r ≠ .fork) (hh : s.hasObj o = true)
    (hph : s.phase ≠ .crashed)
    (hc : (s.m o).disk.has .errors = false ∧ (s.m o).disk.has .assert = false)
    (hj : (s.m o).disk.has .jobinfo = true) (hcomp : (s.m o).seen.has .complete = false)
    (halive : (s.m o).disk.has .complete = false → o ∈ s.alive) :
    ∃ e, Progress s e ∧ e.node = some o.n := by
  have hjob : o.r.isJob = true := by cases h : o.r <;> simp_all [Role.isJob]
  simp only [SSet.has] at hj hc
  by_cases hco : (s.m o).disk.has .complete = true
  · refine ⟨.R o .complete, progress_R ?_ hcomp, rfl⟩
    simp [enabled, guards, hph, hh, hco]
  · have hco' : (s.m o).disk.has .complete = false := by simpa using hco
    have hal := halive hco'
    by_cases hlog : (s.m o).disk.has .log = true
    · have hen : enabled s (.jobend o .complete) = true := by
        simp only [SSet.has] at hlog hco'
        simp [enabled, guards, hjob, hj, hlog, hco', hc.2, hal]
      refine ⟨.jobend o .complete, progress_of_obj hen (by simp [Ev.sched]) (by simp) (by simp) hh ?_, rfl⟩
      rw [potObj_frame o (by simp [apply_launches]) (by simp [apply_inc]), potObj, apply_m]
      simp only [if_true]
      exact Nat.add_lt_add_right (potMeta_toDisk_lt _ _ (by simp) hco') _
    · have hlog' : (s.m o).disk.has .log = false := by simpa using hlog
      have hen : enabled s (.joblog o) = true := by simp [enabled, guards, hjob, hj, hal]
      refine ⟨.joblog o, progress_of_obj hen (by simp [Ev.sched]) (by simp) (by simp) hh ?_, rfl⟩
      rw [potObj_frame o (by simp [apply_launches]) (by simp [apply_inc]), potObj, apply_m]
      simp only [if_true]
      exact Nat.add_lt_add_right (potMeta_joblog_lt _ hlog') _

theorem chunkSum_none_of {cs : List (Option MState)} (h1 : none ∈ cs)
    (h2 : ∀ c ∈ cs, c ≠ some .failed) : chunkSum cs = .none := by
  have he : cs.isEmpty = false := by cases cs <;> simp_all
  have ha : cs.any (· == some .failed) = false := by
    rw [List.any_eq_false]; intro c hc; simpa using h2 c hc
  have hb : cs.all (· == some .complete) = false := by
    rw [List.all_eq_false]; exact ⟨none, h1, by simp⟩
  have hd : cs.all (fun c => c == some .complete || c == some .queued || c == some .running)
      = false := by
    rw [List.all_eq_false]; exact ⟨none, h1, by simp⟩
  simp [chunkSum, he, ha, hb, hd]

theorem forkState_ready_of {s : State} {n f : Nat} (hnd : fmDone s n f = false)
    (hnf : s.st ⟨n, f, .fork⟩ ≠ some .failed) (hj : s.st ⟨n, f, .join⟩ = none)
    (hcs : chunkSum (chunkStates s n f) = .none) (hs : s.st ⟨n, f, .split⟩ = none) :
    forkState s n f = .ready := by
  simp only [forkState, forkStateOf, hj, hcs, hs]
  cases hfm : s.st ⟨n, f, .fork⟩ with
  | none => rfl
  | some m => cases m <;> simp_all [fmDone]

theorem not_launched {s : State} (hl : LaunchInv s) {o : Obj}
    (hj : (s.m o).disk.has .jobinfo = false) : (o, s.inc) ∉ s.launches := by
  intro hm
  rcases hl.alive o s.inc hm with a | ⟨k, a, b, _⟩
  · rw [hj] at a; cases a
  · omega

theorem hasObj_of {s : State} {n f : Nat} (hn : n < s.nodes.length) (hf : f ∈ s.forksOf n)
    (r : Role) (hr : ∀ i, r = .chunk i → i < s.nch n f) : s.hasObj ⟨n, f, r⟩ = true := by
  cases r <;> simp_all [State.hasObj]

/-- the split phase of an unfinished fork can move on -/
theorem split_progress {s : State} (hobj : ObjsInv s) (hrole : RoleInv s) (hl : LaunchInv s)
    {n f : Nat} (hn : n < s.nodes.length) (hf : f ∈ s.forksOf n) (hph : s.phase = .normal)
    (hc : s.cachedOf n = .running) (hclean : CleanNode s n) (hnd : fmDone s n f = false)
    (hkind : s.kind n ≠ .pipeline) (hj : s.st ⟨n, f, .join⟩ = none)
    (hcs : chunkSum (chunkStates s n f) = .none)
    (hsc : (s.m ⟨n, f, .split⟩).seen.has .complete = false) (halive : AliveNode s n) :
    ∃ e, Progress s e ∧ e.node = some n := by
  have hhS := hasObj_of hn hf .split (by simp)
  have hphc : s.phase ≠ .crashed := by rw [hph]; simp
  by_cases hsj : (s.m ⟨n, f, .split⟩).disk.has .jobinfo = true
  · exact job_progress (by simp) hhS hphc (hclean f .split) hsj hsc (halive f .split (by simp) hsj)
  have hsj' : (s.m ⟨n, f, .split⟩).disk.has .jobinfo = false := by simpa using hsj
  have hsn := st_none_of hobj hrole (o := ⟨n, f, .split⟩) (by simp) (hclean f .split) hsj' hsc
  have hready := forkState_ready_of hnd (st_not_failed hobj (hclean f .fork)) hj hcs hsn
  cases hk : s.kind n
  · -- non-splitting stage: mrp writes the stub
    refine ⟨.W ⟨n, f, .split⟩ .complete, progress_W ?_ rfl hsc, rfl⟩
    simp [enabled, guards, hphc, hhS, mrpWriteOk, hph, hk, hc, hready]
  · refine ⟨.launch ⟨n, f, .split⟩, progress_launch ?_, rfl⟩
    simp [launchOk, hph, hhS, hc, not_launched hl hsj', hnd, hk, hready]
  · exact absurd hk hkind


/-- an unfinished fork of a node the scheduler steps (cached state Running, normal
phase) whose objects carry no failure can always move on — whatever the rest of
the pipestance looks like -/
theorem fork_progress {s : State} (hobj : ObjsInv s) (hrole : RoleInv s) (hl : LaunchInv s)
    {n f : Nat} (hn : n < s.nodes.length) (hf : f ∈ s.forksOf n) (hph : s.phase = .normal)
    (hc : s.cachedOf n = .running) (hclean : CleanNode s n) (hnd : fmDone s n f = false)
    (halive : AliveNode s n) : ∃ e, Progress s e ∧ e.node = some n := by
  have hphc : s.phase ≠ .crashed := by rw [hph]; simp
  have hhF := hasObj_of hn hf .fork (by simp)
  have hhJ := hasObj_of hn hf .join (by simp)
  -- the fork's own metadata is neither complete nor disabled
  have hFc : (s.m ⟨n, f, .fork⟩).seen.has .complete = false := by
    cases h : (s.m ⟨n, f, .fork⟩).seen.has .complete
    · rfl
    · have := fmDone_iff.mpr ⟨not_seen_of_not_disk hobj (hclean f .fork).1,
        not_seen_of_not_disk hobj (hclean f .fork).2, Or.inl h⟩
      rw [hnd] at this; cases this
  by_cases hkp : s.kind n = .pipeline
  · refine ⟨.W ⟨n, f, .fork⟩ .complete, progress_W ?_ rfl hFc, rfl⟩
    simp [enabled, guards, hphc, hhF, mrpWriteOk, hph, hc, hnd, hkp]
  by_cases hjc : (s.m ⟨n, f, .join⟩).seen.has .complete = true
  · have := st_complete_of hobj (hclean f .join) hjc
    refine ⟨.W ⟨n, f, .fork⟩ .complete, progress_W ?_ rfl hFc, rfl⟩
    simp [enabled, guards, hphc, hhF, mrpWriteOk, hph, hc, hnd, this]
  have hjc' : (s.m ⟨n, f, .join⟩).seen.has .complete = false := by simpa using hjc
  by_cases hjj : (s.m ⟨n, f, .join⟩).disk.has .jobinfo = true
  · exact job_progress (by simp) hhJ hphc (hclean f .join) hjj hjc' (halive f .join (by simp) hjj)
  have hjj' : (s.m ⟨n, f, .join⟩).disk.has .jobinfo = false := by simpa using hjj
  have hjn := st_none_of hobj hrole (o := ⟨n, f, .join⟩) (by simp) (hclean f .join) hjj' hjc'
  have hnf : ∀ c ∈ chunkStates s n f, c ≠ some .failed := by
    intro c hc'
    simp only [chunkStates, List.mem_map, List.mem_range] at hc'
    obtain ⟨i, _, rfl⟩ := hc'
    exact st_not_failed hobj (hclean f (.chunk i))
  by_cases hall : ∀ i, i < s.nch n f → (s.m ⟨n, f, .chunk i⟩).seen.has .complete = true
  · have hacc : allChunksComplete s n f = true :=
      allChunksComplete_iff.mpr fun i hi => st_complete_of hobj (hclean f (.chunk i)) (hall i hi)
    by_cases hz : s.nch n f = 0
    · by_cases hsc : (s.m ⟨n, f, .split⟩).seen.has .complete = true
      · have hss := st_complete_of hobj (hclean f .split) hsc
        cases hk : s.kind n
        · -- non-splitting stage: its chunk ("main") is defined now
          have hen : enabled s (.mkchunks n f 1) = true := by
            simp [enabled, guards, hphc, hhF, hk, hph, hz, hc, hnd, hss, hjn]
          exact ⟨.mkchunks n f 1,
            ⟨by simp [Ev.sched, hph], hen,
             mu_mkchunks hen (by simp [Ev.quiet, Ev.failing, Ev.structural, hph])⟩, rfl⟩
        · refine ⟨.launch ⟨n, f, .join⟩, progress_launch ?_, rfl⟩
          simp [launchOk, hph, hhJ, hc, not_launched hl hjj', hnd, hk, hjn, hz, hss]
        · exact absurd hk hkp
      · have hcs : chunkSum (chunkStates s n f) = .none := by simp [chunkStates, hz, chunkSum]
        exact split_progress hobj hrole hl hn hf hph hc hclean hnd hkp hjn hcs (by simpa using hsc) halive
    · cases hk : s.kind n
      · -- non-splitting stage: the join stub
        refine ⟨.W ⟨n, f, .join⟩ .complete, progress_W ?_ rfl hjc', rfl⟩
        simp [enabled, guards, hphc, hhJ, mrpWriteOk, hph, hk, hc, hnd, hjn, hacc]
        omega
      · refine ⟨.launch ⟨n, f, .join⟩, progress_launch ?_, rfl⟩
        simp [launchOk, hph, hhJ, hc, not_launched hl hjj', hnd, hk, hjn, hz, hacc]
      · exact absurd hk hkp
  · -- some chunk is not yet seen complete
    have : ∃ i, i < s.nch n f ∧ (s.m ⟨n, f, .chunk i⟩).seen.has .complete = false := by
      apply Classical.byContradiction
      intro hne
      apply hall
      intro i hi
      cases h : (s.m ⟨n, f, .chunk i⟩).seen.has .complete
      · exact absurd ⟨i, hi, h⟩ hne
      · rfl
    obtain ⟨i, hi, hic⟩ := this
    have hhC := hasObj_of hn hf (.chunk i) (by intro j hj; cases hj; exact hi)
    by_cases hcj : (s.m ⟨n, f, .chunk i⟩).disk.has .jobinfo = true
    · exact job_progress (by simp) hhC hphc (hclean f (.chunk i)) hcj hic (halive f (.chunk i) (by simp) hcj)
    have hcj' : (s.m ⟨n, f, .chunk i⟩).disk.has .jobinfo = false := by simpa using hcj
    have hcn := st_none_of hobj hrole (o := ⟨n, f, .chunk i⟩) (by simp) (hclean f (.chunk i))
      hcj' hic
    by_cases hsc : (s.m ⟨n, f, .split⟩).seen.has .complete = true
    · have hss := st_complete_of hobj (hclean f .split) hsc
      refine ⟨.launch ⟨n, f, .chunk i⟩, progress_launch ?_, rfl⟩
      simp [launchOk, hph, hhC, hc, not_launched hl hcj', hnd, hkp, hcn, hss, hjn]
    · have hcs : chunkSum (chunkStates s n f) = .none := by
        apply chunkSum_none_of _ hnf
        simp only [chunkStates, List.mem_map, List.mem_range]
        exact ⟨i, hi, by simp [chunkState, hcn]⟩
      exact split_progress hobj hrole hl hn hf hph hc hclean hnd hkp hjn hcs (by simpa using hsc) halive


/-! ### nodes -/

theorem chunkSum_failed {cs : List (Option MState)} (h : chunkSum cs = .failed) :
    some .failed ∈ cs := by
  unfold chunkSum at h
  split at h; · cases h
  split at h
  · rename_i ha
    simp only [List.any_eq_true, beq_iff_eq] at ha
    obtain ⟨c, hc, rfl⟩ := ha; exact hc
  · split at h; · cases h
    split at h <;> cases h

theorem forkStateOf_failed {fm jm sm : Option MState} {cs : List (Option MState)}
    (h : forkStateOf fm jm cs sm = .failed) :
    fm = some .failed ∨ jm = some .failed ∨ some .failed ∈ cs ∨ sm = some .failed := by
  unfold forkStateOf at h
  split at h
  · exact Or.inl rfl
  · cases h
  · cases h
  · split at h
    · exact Or.inr (Or.inl rfl)
    · cases h
    · split at h
      · rename_i hcs; exact Or.inr (Or.inr (Or.inl (chunkSum_failed hcs)))
      · cases h
      · cases h
      · split at h
        · exact Or.inr (Or.inr (Or.inr rfl))
        · cases h
        · cases h

theorem forkState_not_failed {s : State} (hobj : ObjsInv s) {n : Nat} (hclean : CleanNode s n)
    (f : Nat) : forkState s n f ≠ .failed := by
  intro h
  rcases forkStateOf_failed h with h | h | h | h
  · exact st_not_failed hobj (hclean f .fork) h
  · exact st_not_failed hobj (hclean f .join) h
  · simp only [chunkStates, List.mem_map, List.mem_range] at h
    obtain ⟨i, _, hi⟩ := h
    exact st_not_failed hobj (hclean f (.chunk i)) hi
  · exact st_not_failed hobj (hclean f .split) h

theorem scanForks_failed {l : List FState} {d : Bool} (h : scanForks l d = .failed) :
    .failed ∈ l := by
  induction l generalizing d with
  | nil => simp [scanForks] at h
  | cons a r ih =>
    cases a <;> simp only [scanForks] at h <;>
      first
      | exact List.mem_cons_self ..
      | exact List.mem_cons_of_mem _ (ih h)
      | cases h

/-- a node whose own objects carry no failure, whose prenodes are finished and which is not
finished itself is Running -/
theorem nodeState_running_of {s : State} (hobj : ObjsInv s) {n : Nat} (hclean : CleanNode s n)
    (hpre : ∀ p ∈ s.pre n, nodeDone s p = true) (hnd : nodeDone s n = false) :
    nodeState s n = .running := by
  unfold nodeDone at hnd
  unfold nodeState nodeStateOf
  cases hs : scanForks (forkStates s n) true
  · have := scanForks_failed hs
    simp only [forkStates, List.mem_map] at this
    obtain ⟨f, _, hf⟩ := this
    exact absurd hf (forkState_not_failed hobj hclean f)
  · rw [hs] at hnd; cases hnd
  · have : (s.pre n).all (nodeDone s) = true := by simpa [List.all_eq_true] using hpre
    simp [this]

/-- C06 `independent` / the node-local half of deadlock freedom: a node whose own
objects carry no failure, whose prenodes are finished and whose cached state is
current can take a step — whatever has failed elsewhere -/
theorem node_progress {s : State} (hobj : ObjsInv s) (hrole : RoleInv s) (hl : LaunchInv s)
    {n : Nat} (hn : n < s.nodes.length) (hph : s.phase = .normal)
    (hfresh : s.cachedOf n = nodeState s n) (hpre : ∀ p ∈ s.pre n, nodeDone s p = true)
    (hclean : CleanNode s n) (halive : AliveNode s n) (hnd : nodeDone s n = false) :
    ∃ e, Progress s e ∧ e.node = some n := by
  have hc : s.cachedOf n = .running := by rw [hfresh]; exact nodeState_running_of hobj hclean hpre hnd
  have : ∃ f, f ∈ s.forksOf n ∧ fmDone s n f = false := by
    apply Classical.byContradiction
    intro hne
    have : nodeDone s n = true := by
      rw [nodeDone_iff]
      intro f hf
      cases h : fmDone s n f
      · exact absurd ⟨f, hf, h⟩ hne
      · rfl
    rw [hnd] at this; cases this
  obtain ⟨f, hf, hfd⟩ := this
  exact fork_progress hobj hrole hl hn hf hph hc hclean hfd halive

theorem mu_nodestate_lt {s : State} {n : Nat} (hen : enabled s (.nodestate n (nodeState s n)) = true)
    (hne : s.cachedOf n ≠ nodeState s n) :
    LexLt (mu (apply s (.nodestate n (nodeState s n)))) (mu s) := by
  have hq : (Ev.nodestate n (nodeState s n)).quiet s = true := by
    simp [Ev.quiet, Ev.failing, Ev.structural]
  have hnodes := apply_nodes s (.nodestate n (nodeState s n))
  have hf := quiet_forksOf hq
  have hc := quiet_nch (s := s) (e := .nodestate n (nodeState s n)) (by simp)
  have hnc := noChunks_congr hnodes hf hc
  have hst : ∀ o, (apply s (.nodestate n (nodeState s n))).st o = s.st o := fun o => by
    simp [State.st, apply_m]
  have hnst := nodeState_congr hnodes hf hc hst
  have hpb : potB (apply s (.nodestate n (nodeState s n))) = potB s := by
    unfold potB potObj
    rw [objs_congr hnodes hf hc]
    simp [apply_m, apply_launches, apply_inc]
  have hph : (apply s (.nodestate n (nodeState s n))).phase = s.phase := by simp [apply_phase]
  obtain ⟨_, hn, _⟩ := en_nodestate hen
  right
  refine ⟨hnc, ?_⟩
  have hlt : stale (apply s (.nodestate n (nodeState s n))) < stale s := by
    unfold stale
    rw [hnodes]
    apply filter_length_lt_of_imp
    · intro n' _ hp
      rw [hnst, apply_cachedOf] at hp
      simp only [] at hp
      split at hp
      · rename_i h; subst h; simp at hp
      · exact hp
    · refine ⟨n, by simpa using hn, ?_, ?_⟩
      · rw [hnst, apply_cachedOf]; simp
      · simpa using hne
  simp only [mu, hpb, hnodes, hph]
  omega

theorem mu_refresh_lt {s : State} (hl : s.phase = .loading) :
    LexLt (mu (apply s .refresh)) (mu s) := by
  have hq : Ev.refresh.quiet s = true := by simp [Ev.quiet, Ev.failing, Ev.structural]
  have hnodes := apply_nodes s .refresh
  have hf := quiet_forksOf hq
  have hc := quiet_nch (s := s) (e := .refresh) (by simp)
  have hnc := noChunks_congr hnodes hf hc
  have hst : ∀ o, (apply s .refresh).st o = s.st o := fun o => by simp [State.st, apply_m]
  have hnst := nodeState_congr hnodes hf hc hst
  have hpb : potB (apply s .refresh) = potB s := by
    unfold potB potObj
    rw [objs_congr hnodes hf hc]
    simp [apply_m, apply_launches, apply_inc]
  have hsl := stale_congr hnodes (not_mk_cached (s := s) (e := .refresh) (by simp)) hnst
  have hph : (apply s .refresh).phase = .normal := by simp [apply_phase]
  right
  refine ⟨hnc, ?_⟩
  simp [mu, hpb, hnodes, hsl, hph, hl]

theorem not_done_lt {s : State} (hfr : ForkRange s) {n : Nat} (h : nodeDone s n = false) :
    n < s.nodes.length := by
  apply Classical.byContradiction
  intro hn
  have : nodeDone s n = true := by
    rw [nodeDone_iff, hfr n (Nat.le_of_not_lt hn)]; simp
  rw [h] at this; cases this

/-- in an acyclic graph an unfinished node has an unfinished node upstream of it (or is
itself one) all of whose prenodes are finished -/
theorem exists_ready {s : State} (hac : Acyclic s.nodes) :
    ∀ n, nodeDone s n = false →
      ∃ m, nodeDone s m = false ∧ ∀ p ∈ s.pre m, nodeDone s p = true := by
  obtain ⟨rank, hrank⟩ := hac
  intro n
  induction hr : rank n using Nat.strongRecOn generalizing n with
  | _ r ih =>
    intro hnd
    by_cases hall : ∀ p ∈ s.pre n, nodeDone s p = true
    · exact ⟨n, hnd, hall⟩
    · have : ∃ p, p ∈ s.pre n ∧ nodeDone s p = false := by
        apply Classical.byContradiction
        intro hne
        apply hall
        intro p hp
        cases h : nodeDone s p
        · exact absurd ⟨p, hp, h⟩ hne
        · rfl
      obtain ⟨p, hp, hpd⟩ := this
      have hlt : rank p < r := by rw [← hr]; exact hrank n p hp
      exact ih (rank p) hlt p rfl hpd

/-- DEADLOCK FREEDOM: a live state without failure markers is finished, or some
progress event (quiet, enabled, lowering the measure) exists -/
theorem finished_or_progress {s : State} (hobj : ObjsInv s) (hrole : RoleInv s)
    (hl : LaunchInv s) (hfr : ForkRange s) (hac : Acyclic s.nodes) (hph : s.phase ≠ .crashed)
    (hclean : ∀ n, CleanNode s n) (halive : AliveInv s) : Finished s ∨ ∃ e, Progress s e := by
  by_cases hst : ∃ n, n < s.nodes.length ∧ s.cachedOf n ≠ nodeState s n
  · obtain ⟨n, hn, hne⟩ := hst
    have hen : enabled s (.nodestate n (nodeState s n)) = true := by
      simp [enabled, guards, hph, hn]
    exact Or.inr ⟨_, by simp [Ev.sched], hen, mu_nodestate_lt hen hne⟩
  have hfresh : ∀ n, n < s.nodes.length → s.cachedOf n = nodeState s n := by
    intro n hn
    apply Classical.byContradiction
    intro hne
    exact hst ⟨n, hn, hne⟩
  cases hp : s.phase
  · -- loading: the first refresh
    right
    have hall : allFresh s = true := by
      simp only [allFresh, List.all_eq_true, List.mem_range, beq_iff_eq]
      exact hfresh
    exact ⟨.refresh, by simp [Ev.sched, hp],
      by simp [enabled, guards, hp, hall], mu_refresh_lt hp⟩
  · by_cases hdone : ∀ n, n < s.nodes.length → nodeDone s n = true
    · exact Or.inl ⟨hp, fun n hn => ⟨hdone n hn, hfresh n hn⟩⟩
    · right
      have : ∃ n, nodeDone s n = false := by
        apply Classical.byContradiction
        intro hne
        apply hdone
        intro n _
        cases h : nodeDone s n
        · exact absurd ⟨n, h⟩ hne
        · rfl
      obtain ⟨n, hnd⟩ := this
      obtain ⟨m, hmd, hmp⟩ := exists_ready hac n hnd
      have hm := not_done_lt hfr hmd
      obtain ⟨e, he, _⟩ := node_progress hobj hrole hl hm hp (hfresh m hm) hmp (hclean m) (halive m) hmd
      exact ⟨e, he⟩
  · exact absurd hp hph


/-! ### termination -/

theorem lexLt_wf : WellFounded LexLt := by
  apply Subrelation.wf (r := Prod.Lex (· < ·) (· < ·))
  · intro a b h
    obtain ⟨a1, a2⟩ := a
    obtain ⟨b1, b2⟩ := b
    rcases h with h | ⟨h1, h2⟩
    · exact Prod.Lex.left _ _ h
    · simp only at h1 h2; subst h1; exact Prod.Lex.right _ h2
  · exact (Prod.lex Nat.lt_wfRel Nat.lt_wfRel).wf

theorem lexLt_trans {a b c : Nat × Nat} (h1 : LexLt a b) (h2 : LexLt b c) : LexLt a c := by
  unfold LexLt at *
  omega

theorem lexLt_irrefl (a : Nat × Nat) : ¬ LexLt a a := by
  unfold LexLt; omega

/-- along a stretch of quiet events the measure does not increase -/
theorem mu_chain {s0 : State} {σ : Nat → State} {es : Nat → Ev} (hrun : Run s0 σ es) {K : Nat}
    (hq : ∀ i, K ≤ i → (es i).quiet (σ i) = true) :
    ∀ d, LexLt (mu (σ (K + d))) (mu (σ K)) ∨ mu (σ (K + d)) = mu (σ K) := by
  intro d
  induction d with
  | zero => exact Or.inr rfl
  | succ d ih =>
    have hstep := mu_quiet (hrun.en (K + d)) (hq (K + d) (Nat.le_add_right ..))
    rw [← hrun.next] at hstep
    have : K + (d + 1) = K + d + 1 := by omega
    rw [this]
    rcases hstep with h | h <;> rcases ih with h' | h'
    · exact Or.inl (lexLt_trans h h')
    · exact Or.inl (h' ▸ h)
    · exact Or.inl (h ▸ h')
    · exact Or.inr (h.trans h')

/-- TERMINATION: a run that is quiet from some point on lowers the measure only finitely often -/
theorem eventually_stutters {s0 : State} {σ : Nat → State} {es : Nat → Ev} (hrun : Run s0 σ es) :
    ∀ (m : Nat × Nat) (K : Nat), mu (σ K) = m → (∀ i, K ≤ i → (es i).quiet (σ i) = true) →
      ∃ M, K ≤ M ∧ ∀ j, M ≤ j → ¬ LexLt (mu (σ (j + 1))) (mu (σ j)) := by
  intro m
  induction m using lexLt_wf.induction with
  | _ m ih =>
    intro K hm hq
    by_cases hex : ∃ j, K ≤ j ∧ LexLt (mu (σ (j + 1))) (mu (σ j))
    · obtain ⟨j, hj, hlt⟩ := hex
      have hch := mu_chain hrun hq (j - K)
      have hjK : K + (j - K) = j := by omega
      rw [hjK] at hch
      have hlt' : LexLt (mu (σ (j + 1))) m := by
        rw [← hm]
        rcases hch with h | h
        · exact lexLt_trans hlt h
        · exact h ▸ hlt
      obtain ⟨M, hM, hrest⟩ := ih _ hlt' (j + 1) rfl (fun i hi => hq i (by omega))
      exact ⟨M, by omega, hrest⟩
    · refine ⟨K, Nat.le_refl _, fun j hj hlt => hex ⟨j, hj, hlt⟩⟩

/-- a fair run that is quiet from `K` on and in which every state from `K` on is
finished or can make progress ends finished, and stays so -/
theorem fair_run_finishes {s0 : State} {σ : Nat → State} {es : Nat → Ev} (hrun : Run s0 σ es)
    (hfair : Fair σ) {K : Nat} (hq : ∀ i, K ≤ i → (es i).quiet (σ i) = true)
    (hfp : ∀ i, K ≤ i → Finished (σ i) ∨ ∃ e, Progress (σ i) e) :
    ∃ M, K ≤ M ∧ ∀ j, M ≤ j → Finished (σ j) := by
  obtain ⟨M, hM, hrest⟩ := eventually_stutters hrun _ K rfl hq
  refine ⟨M, hM, fun j hj => ?_⟩
  rcases hfp j (by omega) with h | h
  · exact h
  · apply Classical.byContradiction
    intro hnf
    obtain ⟨j', hj', hlt⟩ := hfair j hnf h
    exact absurd hlt (hrest j' (by omega))

/-! ### quiescent states: no progress event -/

theorem mu_congr {s s' : State} (hn : s'.nodes = s.nodes) (hf : ∀ n, s'.forksOf n = s.forksOf n)
    (hc : ∀ n f, s'.nch n f = s.nch n f) (hm : ∀ o, s'.m o = s.m o)
    (hl : s'.launches = s.launches) (hi : s'.inc = s.inc)
    (hcd : ∀ n, s'.cachedOf n = s.cachedOf n) (hp : s'.phase = s.phase) : mu s' = mu s := by
  have hst : ∀ o, s'.st o = s.st o := fun o => by simp [State.st, hm]
  have hns := nodeState_congr hn hf hc hst
  have hpb : potB s' = potB s := by
    unfold potB potObj
    rw [objs_congr hn hf hc]
    simp [hm, hl, hi]
  simp only [mu, noChunks_congr hn hf hc, hpb, hn, stale_congr hn hcd hns, hp]

theorem forkPairs_mem {s : State} {n f : Nat} (h : s.hasObj ⟨n, f, .fork⟩ = true) :
    (n, f) ∈ forkPairs s := by
  simp only [State.hasObj, Bool.and_eq_true, decide_eq_true_eq, List.contains_eq_mem,
    and_true] at h
  simp only [forkPairs, List.mem_flatMap, List.mem_range, List.mem_map]
  exact ⟨n, h.1, f, by simpa using h.2, rfl⟩

/-- in a quiescent state no event of the scheduler/job/journal alphabet is enabled and
lowers the measure -/
theorem no_progress_of_quiescent {s : State} (hobj : ObjsInv s) (h : quiescent s = true) :
    ∀ e, ¬ Progress s e := by
  simp only [quiescent, Bool.and_eq_true, beq_iff_eq, List.all_eq_true, Bool.not_eq_true',
    Bool.or_eq_true, List.isEmpty_iff] at h
  obtain ⟨⟨⟨⟨hph, hfresh⟩, halive⟩, hobjs⟩, hmk⟩ := h
  intro e ⟨hs, hen, hlt⟩
  have same : ∀ o x, (s.m o).seen.has x = true →
      (∀ o', (if o = o' then put x (s.m o) else s.m o') = s.m o') ∧
      (∀ o', (if o = o' then see x (s.m o) else s.m o') = s.m o') := by
    intro o x hx
    have hd := (hobj o).sub x hx
    constructor <;> intro o' <;> split
    · rename_i heq; subst heq
      simp [put, add_of_has _ _ hx, add_of_has _ _ hd]
    · rfl
    · rename_i heq; subst heq
      simp [see, add_of_has _ _ hx]
    · rfl
  cases e <;> simp only [Ev.sched, beq_iff_eq] at hs <;> try (cases hs; done)
  case nodestate n st =>
    obtain ⟨_, hn, hst⟩ := en_nodestate hen
    have hc : s.cachedOf n = st := by
      simp only [allFresh, List.all_eq_true, List.mem_range, beq_iff_eq] at hfresh
      rw [hst]; exact hfresh n hn
    have : mu (apply s (.nodestate n st)) = mu s := by
      apply mu_congr (apply_nodes _ _) (fun n' => by simp [apply_forksOf])
        (fun n' f => by simp [apply_nch]) (fun o => by simp [apply_m])
        (by simp [apply_launches]) (by simp [apply_inc]) _ (by simp [apply_phase])
      intro n'; rw [apply_cachedOf]; simp only []; split
      · rename_i heq; subst heq; exact hc.symm
      · rfl
    rw [this] at hlt; exact lexLt_irrefl _ hlt
  case refresh => rw [hph] at hs; cases hs
  case launch o =>
    have hl := en_launch hen
    have := (hobjs o (hasObj_mem_objs (launchOk_phase hl).2.2.2.2)).1.2
    rw [hl] at this; cases this
  case W o x =>
    subst hs
    obtain ⟨_, hh, hw⟩ := en_W hen
    have ho := hobjs o (hasObj_mem_objs hh)
    rcases hw with hd | hw
    · have hseen : (s.m o).seen.has .complete = true := by
        rcases ho.1.1 with h' | h'
        · simp only [SSet.has] at hd; rw [hd] at h'; cases h'
        · exact h'
      have : mu (apply s (.W o .complete)) = mu s := by
        apply mu_congr (apply_nodes _ _) (fun n' => by simp [apply_forksOf])
          (fun n' f => by simp [apply_nch]) _ (by simp [apply_launches]) (by simp [apply_inc])
          (fun n' => by simp [apply_cachedOf]) (by simp [apply_phase])
        intro o'; rw [apply_m]; exact (same o _ hseen).1 o'
      rw [this] at hlt; exact lexLt_irrefl _ hlt
    · rw [ho.2] at hw; cases hw
  case mkchunks n f k =>
    have hen1 : enabled s (.mkchunks n f 1) = true := by
      have h' := hen
      simp [enabled, guards, hph] at h' ⊢
      simp_all
    have hh : s.hasObj ⟨n, f, .fork⟩ = true := by
      simp only [enabled, guards, List.all_cons, Bool.and_eq_true] at hen; exact hen.2.1
    have := hmk (n, f) (forkPairs_mem hh)
    simp only at this
    rw [hen1] at this; cases this
  case joblog o =>
    have := (en_joblog' hen).2.2; rw [halive] at this; cases this
  case jobend o x =>
    have := (en_jobend' hen).2.2.2.2.2.2; rw [halive] at this; cases this
  case R o x =>
    subst hs
    obtain ⟨_, hh, hd⟩ := en_R hen
    have ho := hobjs o (hasObj_mem_objs hh)
    have hseen : (s.m o).seen.has .complete = true := by
      rcases ho.1.1 with h' | h'
      · simp only [SSet.has] at hd; rw [hd] at h'; cases h'
      · exact h'
    have : mu (apply s (.R o .complete)) = mu s := by
      apply mu_congr (apply_nodes _ _) (fun n' => by simp [apply_forksOf])
        (fun n' f => by simp [apply_nch]) _ (by simp [apply_launches]) (by simp [apply_inc])
        (fun n' => by simp [apply_cachedOf]) (by simp [apply_phase])
      intro o'; rw [apply_m]; exact (same o _ hseen).2 o'
    rw [this] at hlt; exact lexLt_irrefl _ hlt

/-! ### liveness of submitted jobs (ghost `alive`) -/

theorem apply_alive (s : State) (e : Ev) : (apply s e).alive =
    match e with
    | .launch o => o :: s.alive.filter (· != o)
    | .jobend o _ => s.alive.filter (· != o)
    | .silentfail o => s.alive.filter (· != o)
    | .killed o => s.alive.filter (· != o)
    | .reset o => s.alive.filter (· != o)
    | _ => s.alive := by cases e <;> rfl

/-- every event of a run without failures and interruptions keeps "submitted and unfinished ⇒
alive": only `killed`, `crash`-time deaths and failures take a job's life without its
`_complete` -/
theorem aliveInv_step {s : State} {e : Ev} (hen : enabled s e = true)
    (hff : e.failureFree = true) (h : AliveInv s) : AliveInv (apply s e) := by
  intro n f r hr hj hc
  have hne : e ≠ .reset ⟨n, f, r⟩ := ff_ne_reset hff _
  -- `_complete` was absent before as well
  have hc0 : (s.m ⟨n, f, r⟩).disk.has .complete = false := by
    cases hx : (s.m ⟨n, f, r⟩).disk.has .complete
    · rfl
    · have := disk_mono (e := e) hne (by simp) hx; rw [hc] at this; cases this
  rw [apply_alive]
  cases hj0 : (s.m ⟨n, f, r⟩).disk.has .jobinfo
  · -- newly submitted
    rcases disk_origin hen hj0 hj with ⟨_, hw⟩ | he | ⟨he, _⟩ | ⟨_, he⟩ | ⟨_, he⟩
    · rw [mrpWriteOk_jobinfo] at hw; cases hw
    · subst he; have := (en_jobend hen).2.1; simp at this
    · subst he; simp
    · cases he
    · cases he
  · have hal := h n f r hr hj0 hc0
    cases e <;> simp only [] <;> try exact hal
    case launch o =>
      by_cases ho : o = ⟨n, f, r⟩
      · subst ho; simp
      · apply List.mem_cons_of_mem
        simp only [List.mem_filter, bne_iff_ne, ne_eq]
        exact ⟨hal, fun h' => ho h'.symm⟩
    case jobend o x =>
      have hx : x = .complete := by simpa [Ev.failureFree] using hff
      subst hx
      by_cases ho : o = ⟨n, f, r⟩
      · subst ho
        have : ((apply s (.jobend ⟨n, f, r⟩ .complete)).m ⟨n, f, r⟩).disk.has .complete = true := by
          rw [apply_m]; simp [toDisk, has_add]
        rw [this] at hc; cases hc
      · simp only [List.mem_filter, bne_iff_ne, ne_eq]
        exact ⟨hal, fun h' => ho h'.symm⟩
    case silentfail o => simp [Ev.failureFree] at hff
    case killed o => simp [Ev.failureFree] at hff
    case reset o => simp [Ev.failureFree] at hff

theorem aliveInv_init (g : List NodeInfo) : AliveInv (init g) := by
  intro n f r _ hj; simp [init, State.m, aget] at hj

/-- decidable sufficient check of `AliveInv` on a concrete state -/

theorem aget_mem_or_default {κ α} [DecidableEq κ] (d : α) (l : List (κ × α)) (k : κ) :
    aget d l k = d ∨ (k, aget d l k) ∈ l := by
  induction l with
  | nil => exact Or.inl rfl
  | cons p r ih =>
    obtain ⟨a, b⟩ := p
    by_cases h : a = k
    · subst h; right; simp [aget]
    · simp only [aget, h, if_false]
      rcases ih with h' | h'
      · exact Or.inl h'
      · exact Or.inr (List.mem_cons_of_mem _ h')

theorem aliveInv_of_check {s : State} (h : aliveOk s = true) : AliveInv s := by
  intro n f r hr hj hc
  rcases aget_mem_or_default ({} : Meta) s.metas (⟨n, f, r⟩ : Obj) with hd | hm
  · have : s.m ⟨n, f, r⟩ = {} := hd
    rw [this] at hj; simp at hj
  · simp only [aliveOk, List.all_eq_true] at h
    have := h _ hm
    simp only [Bool.or_eq_true, beq_iff_eq, Bool.not_eq_true', List.contains_eq_mem,
      decide_eq_true_eq] at this
    simp only [SSet.has] at hj hc
    have hj' : (aget ({} : Meta) s.metas (⟨n, f, r⟩ : Obj)).disk.jobinfo = true := hj
    have hc' : (aget ({} : Meta) s.metas (⟨n, f, r⟩ : Obj)).disk.complete = false := hc
    rcases this with ((h1 | h1) | h1) | h1
    · exact absurd h1 hr
    · rw [hj'] at h1; cases h1
    · rw [hc'] at h1; cases h1
    · exact h1

/-! ### failure-free runs from the initial state -/

theorem reach_nodes {g : List NodeInfo} {s : State} (h : Reach g s) : s.nodes = g := by
  induction h with
  | init => rfl
  | step _ _ ih => rw [apply_nodes]; exact ih

theorem run_reach {g : List NodeInfo} {σ : Nat → State} {es : Nat → Ev}
    (hrun : Run (init g) σ es) : ∀ i, Reach g (σ i) := by
  intro i
  induction i with
  | zero => rw [hrun.start]; exact Reach.init
  | succ i ih => rw [hrun.next]; exact Reach.step ih (hrun.en i)

theorem run_ffInv {g : List NodeInfo} {σ : Nat → State} {es : Nat → Ev}
    (hrun : Run (init g) σ es) (hff : ∀ i, (es i).failureFree = true) : ∀ i, FFInv (σ i) := by
  intro i
  induction i with
  | zero => rw [hrun.start]; exact ffInv_init g
  | succ i ih =>
    rw [hrun.next]
    have hr := run_reach hrun i
    exact ffInv_step (reach_objsInv hr) (reach_launchInv hr) ih (hrun.en i) (hff i)

theorem ff_clean {s : State} (hff : FFInv s) (n : Nat) : CleanNode s n :=
  fun f r => (hff.obj ⟨n, f, r⟩).clean

/-- deadlock freedom for failure-free histories -/
theorem ff_finished_or_progress {g : List NodeInfo} {s : State} (hr : Reach g s) (hff : FFInv s)
    (halive : AliveInv s) (hac : Acyclic g) : Finished s ∨ ∃ e, Progress s e :=
  finished_or_progress (reach_objsInv hr) (reach_roleInv hr) (reach_launchInv hr)
    (reach_forkRange hr) (by rw [reach_nodes hr]; exact hac) hff.alive (ff_clean hff) halive

theorem run_aliveInv {g : List NodeInfo} {σ : Nat → State} {es : Nat → Ev}
    (hrun : Run (init g) σ es) (hff : ∀ i, (es i).failureFree = true) : ∀ i, AliveInv (σ i) := by
  intro i
  induction i with
  | zero => rw [hrun.start]; exact aliveInv_init g
  | succ i ih => rw [hrun.next]; exact aliveInv_step (hrun.en i) (hff i) ih

theorem replay_aliveInv {evs : List Ev} {i : Nat} {s0 s : State}
    (h0 : AliveInv s0) (hfe : FailureFree evs) (h : replayFrom i s0 evs = .ok s) : AliveInv s := by
  induction evs generalizing i s0 with
  | nil => simp [replayFrom] at h; subst h; exact h0
  | cons e r ih =>
    simp only [replayFrom] at h
    split at h
    · rename_i hen
      exact ih (aliveInv_step hen (hfe e (List.mem_cons_self ..)) h0)
        (fun e' he' => hfe e' (List.mem_cons_of_mem _ he')) h
    · cases h

theorem ff_quiet {s : State} {e : Ev} (h1 : e.failureFree = true) (h2 : e.structural s = false) :
    e.quiet s = true := by
  cases e <;> simp_all [Ev.quiet, Ev.failing, Ev.structural, Ev.failureFree]

theorem topoSorted_acyclic {g : List NodeInfo} (h : topoSorted g = true) : Acyclic g := by
  refine ⟨id, fun n p hp => ?_⟩
  simp only [topoSorted, List.all_eq_true, List.mem_range, decide_eq_true_eq] at h
  by_cases hn : n < g.length
  · exact h n hn p hp
  · have : g[n]? = none := by simpa using Nat.le_of_not_lt hn
    simp [preOf, this] at hp


/-- what "exactly once" means for fork `f` of stage node `n` in state `s` (as in
`exactly_once_at_complete`) -/
def ExactlyOnce (s : State) (n f : Nat) : Prop :=
  (s.st ⟨n, f, .fork⟩ = some .complete →
    (∀ i, i < s.nch n f → launchCount s ⟨n, f, .chunk i⟩ = 1) ∧
    (∀ i, s.nch n f ≤ i → launchCount s ⟨n, f, .chunk i⟩ = 0) ∧
    (s.kind n = .splitstage →
      launchCount s ⟨n, f, .split⟩ = 1 ∧ launchCount s ⟨n, f, .join⟩ = 1) ∧
    (s.kind n = .stage →
      launchCount s ⟨n, f, .split⟩ = 0 ∧ launchCount s ⟨n, f, .join⟩ = 0)) ∧
  (s.st ⟨n, f, .fork⟩ = some .disabled → ∀ r, launchCount s ⟨n, f, r⟩ = 0)

theorem finished_forks {s : State} (h : Finished s) (n f : Nat) (hn : n < s.nodes.length)
    (hf : f ∈ s.forksOf n) :
    s.st ⟨n, f, .fork⟩ = some .complete ∨ s.st ⟨n, f, .fork⟩ = some .disabled := by
  have := nodeDone_iff.mp (h.2 n hn).1 f hf
  simpa [fmDone] using this

/-- the state after the first `i` events of a list (for concrete runs) -/
def prefixState (s0 : State) (evs : List Ev) (i : Nat) : State := (evs.take i).foldl apply s0

theorem prefixState_succ (s0 : State) (evs : List Ev) (i : Nat) :
    prefixState s0 evs (i + 1) = apply (prefixState s0 evs i) (evs.getD i .stepend) := by
  unfold prefixState
  by_cases h : i < evs.length
  · rw [List.take_add_one, List.foldl_append]
    simp [List.getD, h]
  · have h1 : evs.take (i + 1) = evs := List.take_of_length_le (by omega)
    have h2 : evs.take i = evs := List.take_of_length_le (by omega)
    have h3 : evs.getD i .stepend = .stepend := by
      have : evs[i]? = none := by simp; omega
      simp [List.getD, this]
    rw [h1, h2, h3]; rfl

/-- a finite history followed by `stepend` for ever is a run, if the history is accepted -/
theorem run_of_list (s0 : State) (evs : List Ev)
    (h : ∀ i, i < evs.length → enabled (prefixState s0 evs i) (evs.getD i .stepend) = true) :
    Run s0 (prefixState s0 evs) (fun i => evs.getD i .stepend) := by
  refine ⟨rfl, fun i => ?_, prefixState_succ s0 evs⟩
  by_cases hi : i < evs.length
  · exact h i hi
  · have : evs.getD i .stepend = .stepend := by
      have : evs[i]? = none := by simp; omega
      simp [List.getD, this]
    rw [this]; rfl


/-! ### runs with interruptions (crash / restart / reset), both reset modes -/

/-- no failure marker anywhere on disk -/
def CleanInv (s : State) : Prop := ∀ n, CleanNode s n

theorem cleanInv_step {s : State} {e : Ev} (hen : enabled s e = true) (hnf : e.failing = false)
    (h : CleanInv s) : CleanInv (apply s e) := by
  intro n f r
  have key : ∀ y, (y = Sentinel.errors ∨ y = Sentinel.assert) → (s.m ⟨n, f, r⟩).disk.has y = false →
      ((apply s e).m ⟨n, f, r⟩).disk.has y = false := by
    intro y hy h0
    cases h1 : ((apply s e).m ⟨n, f, r⟩).disk.has y
    · rfl
    · exfalso
      rcases disk_origin hen h0 h1 with ⟨he, _⟩ | he | ⟨_, he⟩ | ⟨_, he⟩ | ⟨he, _⟩
      · subst he; rcases hy with rfl | rfl <;> simp [Ev.failing] at hnf
      · subst he; rcases hy with rfl | rfl <;> simp [Ev.failing] at hnf
      · rcases hy with rfl | rfl <;> rcases he with he | he <;> cases he
      · rcases hy with rfl | rfl <;> cases he
      · subst he; simp [Ev.failing] at hnf
  exact ⟨key _ (Or.inl rfl) (h n f r).1, key _ (Or.inr rfl) (h n f r).2⟩

/-- the invariants the progress argument needs; all hold in every reachable state of
either reset mode as long as no failure event happened -/
structure LiveInv (s : State) : Prop where
  obj : ObjsInv s
  role : RoleInv s
  launch : LaunchInv s
  range : ForkRange s
  clean : CleanInv s

theorem liveInv_step {s : State} {e : Ev} (hen : enabled s e = true) (hnf : e.failing = false)
    (h : LiveInv s) : LiveInv (apply s e) :=
  ⟨objsInv_step hen h.obj, roleInv_step hen h.role, launchInv_step hen h.obj h.launch,
   forkRange_step hen h.range, cleanInv_step hen hnf h.clean⟩

theorem liveInv_init (g : List NodeInfo) : LiveInv (init g) :=
  ⟨objsInv_init g, fun o => roleObj_empty _ _, launchInv_init g, fun _ _ => rfl,
   fun _ _ _ => ⟨rfl, rfl⟩⟩

theorem liveInv_initFull (g : List NodeInfo) : LiveInv (initFull g) :=
  ⟨fun o => objInv_empty _ _, fun o => roleObj_empty _ _, by constructor <;> simp [initFull],
   fun _ _ => rfl, fun _ _ _ => ⟨rfl, rfl⟩⟩

theorem run_liveInv {s0 : State} {σ : Nat → State} {es : Nat → Ev} (hrun : Run s0 σ es)
    (h0 : LiveInv s0) (hnf : ∀ i, (es i).failing = false) : ∀ i, LiveInv (σ i) := by
  intro i
  induction i with
  | zero => rw [hrun.start]; exact h0
  | succ i ih => rw [hrun.next]; exact liveInv_step (hrun.en i) (hnf i) ih

theorem run_nodes {s0 : State} {σ : Nat → State} {es : Nat → Ev} (hrun : Run s0 σ es) :
    ∀ i, (σ i).nodes = s0.nodes := by
  intro i
  induction i with
  | zero => rw [hrun.start]
  | succ i ih => rw [hrun.next, apply_nodes]; exact ih

theorem quiet_alive {s : State} {e : Ev} (hq : e.quiet s = true) (h : s.phase ≠ .crashed) :
    (apply s e).phase ≠ .crashed := by
  rw [apply_phase]
  cases e <;> simp_all [Ev.quiet, Ev.structural]

theorem nf_quiet {s : State} {e : Ev} (h1 : e.failing = false) (h2 : e.structural s = false) :
    e.quiet s = true := by simp [Ev.quiet, h1, h2]

/-- any fair run without failure events, with finitely many structure events and
interruptions, in which mrp is up after the last of them, finishes the pipestance -/
theorem interrupted_run_finishes {s0 : State} {σ : Nat → State} {es : Nat → Ev}
    (hrun : Run s0 σ es) (h0 : LiveInv s0) (hac : Acyclic s0.nodes)
    (hnf : ∀ i, (es i).failing = false) {K : Nat}
    (hK : ∀ i, K ≤ i → (es i).structural (σ i) = false) (hup : (σ K).phase ≠ .crashed)
    (halive : AliveInv (σ K)) (hfair : Fair σ) : ∃ M, K ≤ M ∧ ∀ j, M ≤ j → Finished (σ j) := by
  have hinv := run_liveInv hrun h0 hnf
  have hq : ∀ i, K ≤ i → (es i).quiet (σ i) = true := fun i hi => nf_quiet (hnf i) (hK i hi)
  have hup' : ∀ d, (σ (K + d)).phase ≠ .crashed := by
    intro d
    induction d with
    | zero => exact hup
    | succ d ih =>
      have : K + (d + 1) = K + d + 1 := by omega
      rw [this, hrun.next]
      exact quiet_alive (hq _ (by omega)) ih
  have hali : ∀ d, AliveInv (σ (K + d)) := by
    intro d
    induction d with
    | zero => exact halive
    | succ d ih =>
      have : K + (d + 1) = K + d + 1 := by omega
      rw [this, hrun.next]
      exact aliveInv_step (hrun.en _) (quiet_ff (hq _ (by omega))) ih
  apply fair_run_finishes hrun hfair hq
  intro i hi
  have hal : (σ i).phase ≠ .crashed := by
    have := hup' (i - K)
    have hh : K + (i - K) = i := by omega
    rwa [hh] at this
  have hali' : AliveInv (σ i) := by
    have := hali (i - K)
    have hh : K + (i - K) = i := by omega
    rwa [hh] at this
  exact finished_or_progress (hinv i).obj (hinv i).role (hinv i).launch (hinv i).range
    (by rw [run_nodes hrun i]; exact hac) hal (hinv i).clean hali'


theorem reach_liveInv {g : List NodeInfo} {s : State} (h : Reach g s) (hc : CleanInv s) :
    LiveInv s :=
  ⟨reach_objsInv h, reach_roleInv h, reach_launchInv h, reach_forkRange h, hc⟩

theorem reachFull_liveInv {g : List NodeInfo} {s : State} (h : ReachFull g s) (hc : CleanInv s) :
    LiveInv s :=
  ⟨reachFull_objsInv h, reachFull_roleInv h, reachFull_launchInv h, reachFull_forkRange h, hc⟩

theorem reachFull_nodes {g : List NodeInfo} {s : State} (h : ReachFull g s) : s.nodes = g := by
  induction h with
  | init => rfl
  | step _ _ ih => rw [apply_nodes]; exact ih


/-- the end state of a concrete history, as the `Props` examples define it, is reachable -/
theorem reach_of_match (g : List NodeInfo) (evs : List Ev) :
    Reach g (match replay (init g) evs with | .ok s => s | .error _ => init g) := by
  cases h : replay (init g) evs
  · exact Reach.init
  · exact replay_reach h

/-! ### `Node.getFatalError` -/

theorem fatalErrorIn_spec {s : State} {l : List Obj} {o : Obj} {x : Sentinel}
    (h : fatalErrorIn s l = some (o, x)) :
    o ∈ l ∧ s.st o = some .failed ∧ (s.m o).seen.has x = true ∧
    ((x = .errors) ∨ (x = .assert ∧ (s.m o).seen.has .errors = false)) := by
  induction l with
  | nil => simp [fatalErrorIn] at h
  | cons a r ih =>
    simp only [fatalErrorIn] at h
    split at h
    · rename_i hst
      split at h
      · rename_i he
        simp only [Option.some.injEq, Prod.mk.injEq] at h
        obtain ⟨rfl, rfl⟩ := h
        exact ⟨List.mem_cons_self .., by simpa using hst, he, Or.inl rfl⟩
      · split at h
        · rename_i he ha
          simp only [Option.some.injEq, Prod.mk.injEq] at h
          obtain ⟨rfl, rfl⟩ := h
          exact ⟨List.mem_cons_self .., by simpa using hst, ha,
            Or.inr ⟨rfl, by simpa [SSet.has] using he⟩⟩
        · obtain ⟨a1, a2⟩ := ih h
          exact ⟨List.mem_cons_of_mem _ a1, a2⟩
    · obtain ⟨a1, a2⟩ := ih h
      exact ⟨List.mem_cons_of_mem _ a1, a2⟩

theorem fatalErrorIn_some {s : State} {l : List Obj} {o : Obj} (hm : o ∈ l)
    (hf : s.st o = some .failed) : ∃ r, fatalErrorIn s l = some r := by
  induction l with
  | nil => cases hm
  | cons a r ih =>
    simp only [fatalErrorIn]
    by_cases hst : s.st a = some .failed
    · have := metaState_failed.mp hst
      simp only [SSet.has] at this
      simp only [hst, beq_self_eq_true, if_true]
      rcases this with h | h
      · simp [h]
      · cases he : (s.m a).seen.errors <;> simp [h]
    · have hne : (s.st a == some MState.failed) = false := by simpa using hst
      simp only [hne, Bool.false_eq_true, if_false]
      rcases List.mem_cons.mp hm with rfl | hm
      · exact absurd hf hst
      · exact ih hm

theorem collect_mem {s : State} {n : Nat} {o : Obj} (h : o ∈ collect s n) :
    o.n = n ∧ o.f ∈ s.forksOf n ∧ (∀ i, o.r = .chunk i → i < s.nch n o.f) := by
  simp only [collect, List.mem_flatMap, forkObjs, List.mem_cons, List.mem_map, List.mem_range] at h
  obtain ⟨f, hf, h⟩ := h
  rcases h with rfl | rfl | rfl | ⟨i, hi, rfl⟩
  · exact ⟨rfl, hf, by simp⟩
  · exact ⟨rfl, hf, by simp⟩
  · exact ⟨rfl, hf, by simp⟩
  · refine ⟨rfl, hf, ?_⟩
    intro j hj; simp only [Role.chunk.injEq] at hj; subst hj; exact hi

/-- a failed node has a failed metadata object among those `getFatalError` inspects -/
theorem failed_node_has_failed_obj {s : State} {n : Nat} (h : nodeState s n = .failed) :
    ∃ o, o ∈ collect s n ∧ s.st o = some .failed := by
  unfold nodeState nodeStateOf at h
  cases hs : scanForks (forkStates s n) true
  · have := scanForks_failed hs
    simp only [forkStates, List.mem_map] at this
    obtain ⟨f, hf, hff⟩ := this
    have hin : ∀ o, o ∈ forkObjs s n f → o ∈ collect s n := by
      intro o ho
      simp only [collect, List.mem_flatMap]
      exact ⟨f, hf, ho⟩
    rcases forkStateOf_failed hff with h' | h' | h' | h'
    · exact ⟨⟨n, f, .fork⟩, hin _ (by simp [forkObjs]), h'⟩
    · exact ⟨⟨n, f, .join⟩, hin _ (by simp [forkObjs]), h'⟩
    · simp only [chunkStates, List.mem_map, List.mem_range] at h'
      obtain ⟨i, hi, hc⟩ := h'
      exact ⟨⟨n, f, .chunk i⟩, hin _ (by simp [forkObjs]; exact hi), hc⟩
    · exact ⟨⟨n, f, .split⟩, hin _ (by simp [forkObjs]), h'⟩
  · rename_i d; rw [hs] at h; cases d <;> simp at h
  · rw [hs] at h
    by_cases hp : (s.pre n).all (nodeDone s) = true <;> simp [hp] at h

/-! ### transitive blocking of completion -/

theorem upstream_blocks_completion {s : State} (hobj : ObjsInv s) (hci : CompleteInv s)
    (hro : s.reopened = false) {n p : Nat} (hu : Upstream s n p) (hnd : nodeDone s p = false) :
    (∀ f, (s.m ⟨n, f, .fork⟩).disk.has .complete = false) ∧ nodeState s n ≠ .complete := by
  have one : ∀ q m, m ∈ s.pre q → nodeDone s m = false →
      (∀ f, (s.m ⟨q, f, .fork⟩).disk.has .complete = false) ∧ nodeState s q ≠ .complete := by
    intro q m hm hmd
    have hall : ∀ f, (s.m ⟨q, f, .fork⟩).disk.has .complete = false := by
      intro f
      cases hc : (s.m ⟨q, f, .fork⟩).disk.has .complete
      · rfl
      · have := hci hro q f hc m hm; rw [hmd] at this; cases this
    refine ⟨hall, fun hc => ?_⟩
    obtain ⟨f, hf⟩ := nodeState_complete_fork hobj hc
    rw [hall f] at hf; cases hf
  induction hu with
  | direct hp => exact one _ _ hp hnd
  | step hq hndis _ ih =>
    rename_i n0 q0 p0 _
    have hq' := ih hnd
    apply one _ _ hq
    cases hd : nodeDone s q0
    · rfl
    · rcases nodeDone_state hd with hc | hdis
      · exact absurd hc hq'.2
      · exact absurd hdis hndis

end Martian.Sched
