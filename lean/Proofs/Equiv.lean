import Martian.Equiv
import Proofs.SortKeys

/-! Lemmas for C15: `equal`/`equiv` decide equality of the erased meaning. -/
namespace Martian.Equiv
open Martian.SortKeys List

theorem atom_equal_iff (a b : Atom) : a.equal b = true ↔ a.sem = b.sem := by
  rcases a with _ | _ | _ | _ | (_ | _) | _ <;> rcases b with _ | _ | _ | _ | (_ | _) | _ <;>
    simp [Atom.equal, Atom.sem, and_assoc]

/-! ### spines as lists -/

theorem semMap_eq : ∀ e : Exp, semMap e = (kvs e).map fun p => (p.1, p.2.sem)
  | .mcons k v r => by simp [semMap, kvs, semMap_eq r]
  | .atom _ | .split _ | .anil | .acons _ _ | .mnil => by simp [semMap, kvs]

theorem mlen_eq : ∀ e : Exp, mlen e = (kvs e).length
  | .mcons k v r => by simp [mlen, kvs, mlen_eq r]
  | .atom _ | .split _ | .anil | .acons _ _ | .mnil => by simp [mlen, kvs]

theorem mlookup_eq (k : Key) : ∀ e : Exp, mlookup k e = lookupL k (kvs e)
  | .mcons k' v r => by simp [mlookup, kvs, lookupL, mlookup_eq k r]
  | .atom _ | .split _ | .anil | .acons _ _ | .mnil => by simp [mlookup, kvs, lookupL]

theorem sem_isArr : ∀ e : Exp, isArr e = true → e.sem = .arr (semArr e)
  | .anil, _ => by simp [Exp.sem, semArr]
  | .acons x r, _ => by simp [Exp.sem, semArr]
  | .atom _, h | .split _, h | .mnil, h | .mcons _ _ _, h => by simp [isArr] at h

theorem sem_isMap : ∀ e : Exp, isMap e = true → e.sem = .map (sortK (semMap e))
  | .mnil, _ => by simp [Exp.sem, semMap, sortK]
  | .mcons k v r, _ => by simp [Exp.sem, semMap]
  | .atom _, h | .split _, h | .anil, h | .acons _ _, h => by simp [isMap] at h

theorem sem_not_map : ∀ e : Exp, isMap e = false → ∀ l, e.sem ≠ .map l
  | .atom _, _, _ | .split _, _, _ | .anil, _, _ | .acons _ _, _, _ => by simp [Exp.sem]
  | .mnil, h, _ | .mcons _ _ _, h, _ => by simp [isMap] at h

theorem allIn_eq : ∀ e o : Exp, allIn e o =
    (kvs e).all (fun p => (lookupL p.1 (kvs o)).any (fun v' => p.2.equal v'))
  | .mcons k v r, o => by
    simp only [allIn, kvs, all_cons, mlookup_eq, allIn_eq r o]
  | .atom _, _ | .split _, _ | .anil, _ | .acons _ _, _ | .mnil, _ => by simp [allIn, kvs]

theorem equal_map : ∀ e o : Exp, isMap e = true →
    e.equal o = (isMap o && matchAll Exp.equal (kvs e) (kvs o))
  | .mnil, o, _ => by
    simp only [Exp.equal, matchAll, kvs, mlen_eq, length_nil, all_nil, Bool.and_true]
    cases isMap o <;> simp [Nat.beq_eq_true_eq, eq_comm, Bool.beq_eq_decide_eq]
  | .mcons k v r, o, _ => by
    simp only [Exp.equal, matchAll, kvs, mlen_eq, length_cons, all_cons, mlookup_eq, allIn_eq,
      Bool.and_assoc]
  | .atom _, _, h | .split _, _, h | .anil, _, h | .acons _ _, _, h => by simp [isMap] at h

theorem wf_kvs : ∀ e : Exp, e.wf = true →
    ((kvs e).map Prod.fst).Nodup ∧ ∀ p ∈ kvs e, p.2.wf = true
  | .mcons k v r, h => by
    simp only [Exp.wf, Bool.and_eq_true, Bool.not_eq_true'] at h
    obtain ⟨⟨⟨hv, hr⟩, _⟩, hk⟩ := h
    have ih := wf_kvs r hr
    constructor
    · have : nodupKeys (kvs (.mcons k v r)) = true := by
        simp only [kvs, nodupKeys, hk, Bool.not_false, Bool.true_and]
        exact (nodupKeys_iff _).mpr ih.1
      exact (nodupKeys_iff _).mp this
    · intro p hp
      simp only [kvs, mem_cons] at hp
      rcases hp with rfl | hp
      · exact hv
      · exact ih.2 p hp
  | .atom _, _ | .split _, _ | .anil, _ | .acons _ _, _ | .mnil, _ => by simp [kvs]

private def Q (e : Exp) : Prop :=
  ∀ o : Exp, e.wf = true → o.wf = true → (e.equal o = true ↔ e.sem = o.sem)

private theorem map_case (e : Exp) (hm : isMap e = true) (hq : ∀ p ∈ kvs e, Q p.2) : Q e := by
  intro o he ho
  rw [equal_map e o hm]
  cases hmo : isMap o
  · simp only [Bool.false_and, Bool.false_eq_true, false_iff]
    rw [sem_isMap e hm]
    exact fun h => sem_not_map o hmo _ h.symm
  · rw [sem_isMap e hm, sem_isMap o hmo, semMap_eq, semMap_eq, Bool.true_and]
    have hwe := wf_kvs e he
    have hwo := wf_kvs o ho
    rw [matchAll_iff Exp.equal Exp.sem Exp.sem (kvs e) (kvs o) hwe.1 hwo.1
      (fun p hp q hq' => hq p hp q.2 (hwe.2 p hp) (hwo.2 q hq'))]
    constructor
    · intro h; rw [h]
    · intro h; injection h

theorem exp_equal_iff_aux (e : Exp) : Q e ∧ ∀ p ∈ kvs e, Q p.2 := by
  induction e with
  | atom a =>
    refine ⟨?_, by simp [kvs]⟩
    intro o _ _
    cases o <;> simp [Exp.equal, Exp.sem, atom_equal_iff]
  | split e ih =>
    refine ⟨?_, by simp [kvs]⟩
    intro o he ho
    cases o with
    | split e' =>
      simp only [Exp.wf] at he ho
      simp [Exp.equal, Exp.sem, ih.1 e' he ho]
    | _ => simp [Exp.equal, Exp.sem]
  | anil =>
    refine ⟨?_, by simp [kvs]⟩
    intro o _ _
    cases o <;> simp [Exp.equal, Exp.sem]
  | acons x r ihx ihr =>
    refine ⟨?_, by simp [kvs]⟩
    intro o he ho
    cases o with
    | acons y s =>
      simp only [Exp.wf, Bool.and_eq_true] at he ho
      obtain ⟨⟨hx, hr⟩, har⟩ := he
      obtain ⟨⟨hy, hs⟩, has⟩ := ho
      have h1 := ihx.1 y hx hy
      have h2 := ihr.1 s hr hs
      rw [sem_isArr r har, sem_isArr s has] at h2
      simp only [Exp.equal, Exp.sem, Bool.and_eq_true, h1, h2, SemExp.arr.injEq, cons.injEq]
    | _ => simp [Exp.equal, Exp.sem]
  | mnil =>
    refine ⟨?_, by simp [kvs]⟩
    exact map_case .mnil rfl (by simp [kvs])
  | mcons k v r ihv ihr =>
    have hall : ∀ p ∈ kvs (.mcons k v r), Q p.2 := by
      intro p hp
      simp only [kvs, mem_cons] at hp
      rcases hp with rfl | hp
      · exact ihv.1
      · exact ihr.2 p hp
    exact ⟨map_case _ rfl hall, hall⟩

/-- `Exp.equal` decides equality of meaning on well-formed expressions. -/
theorem exp_equal_iff (e o : Exp) (he : e.wf = true) (ho : o.wf = true) :
    e.equal o = true ↔ e.sem = o.sem := (exp_equal_iff_aux e).1 o he ho

/-! ### parameters, bindings, modifiers -/

theorem inParamEq_iff (x y : Param) : inParamEq x y = true ↔ semIn x = semIn y := by
  cases x with | mk t a m f o => cases y with | mk t' a' m' f' o' =>
  simp only [inParamEq, semIn, SemParam.mk.injEq, Bool.and_eq_true, Bool.or_eq_true, beq_iff_eq,
    and_true]
  by_cases h2 : f = 2
  · subst h2
    constructor
    · rintro ⟨⟨rfl, rfl⟩, _⟩; simp
    · rintro ⟨rfl, rfl, _⟩; simp
  · constructor
    · rintro ⟨⟨rfl, rfl⟩, h⟩
      rcases h with h | ⟨⟨rfl, _⟩, rfl⟩
      · exact absurd h h2
      · simp
    · rintro ⟨rfl, rfl, h⟩
      simp only [beq_iff_eq, h2, if_false, Option.some.injEq, Prod.mk.injEq] at h
      simp [h.1, h.2]

theorem outParamEq_iff (chk : Bool) (x y : Param) :
    outParamEq chk x y = true ↔ semOut chk x = semOut chk y := by
  have hin := inParamEq_iff x y
  cases x with | mk t a m f o => cases y with | mk t' a' m' f' o' =>
  simp only [outParamEq, Bool.and_eq_true, hin]
  simp only [semOut, semIn, SemParam.mk.injEq]
  constructor
  · rintro ⟨⟨rfl, rfl, h, _⟩, hn⟩
    refine ⟨rfl, rfl, h, ?_⟩
    cases chk <;> simp_all
    by_cases h23 : f = 2 ∨ f = 3
    · rcases hn with hn | hn
      · exact absurd h23 (by omega)
      · simp [hn]
    · simp [h23]
  · rintro ⟨rfl, rfl, h, hn⟩
    refine ⟨⟨rfl, rfl, h, trivial⟩, ?_⟩
    cases chk <;> simp_all
    by_cases h23 : f = 2 ∨ f = 3
    · simp only [h23, if_true, Option.some.injEq] at hn
      exact Or.inr hn
    · exact Or.inl (by omega)

theorem bindsWf_iff (l : List (Key × Exp)) :
    bindsWf l = true ↔ ((nonstar l).map Prod.fst).Nodup ∧ ∀ p ∈ l, p.2.wf = true := by
  simp [bindsWf, nodupKeys_iff]

theorem mem_of_mem_nonstar {l : List (Key × Exp)} {p : Key × Exp} (h : p ∈ nonstar l) : p ∈ l :=
  (mem_filter.mp h).1

theorem nonstar_length_le (l : List (Key × Exp)) : (nonstar l).length ≤ l.length :=
  length_filter_le _ _

theorem lookup_nonstar {k : Key} (hk : k ≠ star) : ∀ b : List (Key × Exp),
    lookupL k (nonstar b) = lookupL k b
  | [] => rfl
  | (k', v) :: r => by
    by_cases hs : k' = star
    · subst hs
      have : (k == star) = false := by simpa using hk
      simp [nonstar, lookupL, this]
      exact lookup_nonstar hk r
    · have hs' : (k' != star) = true := by simpa using hs
      simp only [nonstar, filter_cons, hs', if_true, lookupL]
      by_cases hkk : (k == k') = true
      · simp [hkk]
      · simp only [hkk, Bool.false_eq_true, if_false]
        exact lookup_nonstar hk r

/-- the loop of `BindStms.Equals` is the lookup comparison on the non-`*` entries -/
theorem bindsEq_all (b : List (Key × Exp)) : ∀ a : List (Key × Exp),
    a.all (fun p => p.1 == star || (lookupL p.1 b).any (fun v' => p.2.equal v')) =
    (nonstar a).all (fun p => (lookupL p.1 (nonstar b)).any (fun v' => p.2.equal v'))
  | [] => rfl
  | (k, v) :: r => by
    by_cases hs : k = star
    · subst hs
      simp [nonstar, all_cons]
      simpa [nonstar] using bindsEq_all b r
    · have hs' : (k != star) = true := by simpa using hs
      have hs'' : (k == star) = false := by simpa using hs
      simp only [nonstar, filter_cons, hs', if_true, all_cons, hs'', Bool.false_or]
      rw [show filter (fun p => p.1 != star) b = nonstar b from rfl, lookup_nonstar hs b]
      congr 1
      exact bindsEq_all b r

theorem sem_of_bindsEq (a b : List (Key × Exp)) (ha : bindsWf a = true) (hb : bindsWf b = true)
    (hlen : (nonstar a).length = (nonstar b).length) (h : bindsEq a b = true) :
    semBinds a = semBinds b := by
  have ha' := (bindsWf_iff a).mp ha
  have hb' := (bindsWf_iff b).mp hb
  simp only [bindsEq, Bool.and_eq_true, beq_iff_eq, bindsEq_all] at h
  have hm : matchAll Exp.equal (nonstar a) (nonstar b) = true := by
    simp only [matchAll, Bool.and_eq_true, beq_iff_eq]
    exact ⟨hlen, h.2⟩
  have := (matchAll_iff Exp.equal Exp.sem Exp.sem (nonstar a) (nonstar b) ha'.1 hb'.1
    (fun p hp q hq => exp_equal_iff p.2 q.2 (ha'.2 p (mem_of_mem_nonstar hp))
      (hb'.2 q (mem_of_mem_nonstar hq)))).mp hm
  simp only [semBinds, this, Prod.mk.injEq, true_and]
  omega

theorem bindsEq_of_sem (a b : List (Key × Exp)) (ha : bindsWf a = true) (hb : bindsWf b = true)
    (h : semBinds a = semBinds b) : bindsEq a b = true := by
  have ha' := (bindsWf_iff a).mp ha
  have hb' := (bindsWf_iff b).mp hb
  simp only [semBinds, Prod.mk.injEq] at h
  have hm := (matchAll_iff Exp.equal Exp.sem Exp.sem (nonstar a) (nonstar b) ha'.1 hb'.1
    (fun p hp q hq => exp_equal_iff p.2 q.2 (ha'.2 p (mem_of_mem_nonstar hp))
      (hb'.2 q (mem_of_mem_nonstar hq)))).mpr h.1
  simp only [matchAll, Bool.and_eq_true, beq_iff_eq] at hm
  simp only [bindsEq, Bool.and_eq_true, beq_iff_eq, bindsEq_all]
  refine ⟨?_, hm.2⟩
  have := nonstar_length_le a
  have := nonstar_length_le b
  omega

theorem nonstar_length_of_sem {a b : List (Key × Exp)} (h : semBinds a = semBinds b) :
    (nonstar a).length = (nonstar b).length := by
  simp only [semBinds, Prod.mk.injEq] at h
  simpa using (perm_of_sortK_eq h.1).length_eq

theorem inParams_iff (a b : List (Key × Param)) (ha : nodupKeys a = true) (hb : nodupKeys b = true) :
    matchAll inParamEq a b = true ↔
      sortK (a.map fun p => (p.1, semIn p.2)) = sortK (b.map fun p => (p.1, semIn p.2)) :=
  matchAll_iff inParamEq semIn semIn a b ((nodupKeys_iff a).mp ha) ((nodupKeys_iff b).mp hb)
    (fun p _ q _ => inParamEq_iff p.2 q.2)

theorem outParams_iff (chk : Bool) (a b : List (Key × Param)) (ha : nodupKeys a = true)
    (hb : nodupKeys b = true) :
    matchAll (outParamEq chk) a b = true ↔
      sortK (a.map fun p => (p.1, semOut chk p.2)) = sortK (b.map fun p => (p.1, semOut chk p.2)) :=
  matchAll_iff (outParamEq chk) (semOut chk) (semOut chk) a b ((nodupKeys_iff a).mp ha)
    ((nodupKeys_iff b).mp hb) (fun p _ q _ => outParamEq_iff chk p.2 q.2)

/-- the part of `Modifiers` that is meaning -/
def Mods.sem (m : Mods) : Bool × Bool × Option SemExp :=
  (m.isLocal, m.preflight, m.disabled.map Exp.sem)

theorem mods_equiv_iff (m o : Mods) (hm : m.wf = true) (ho : o.wf = true) :
    m.equiv false o = true ↔ m.sem = o.sem := by
  cases m with | mk l p v t d => cases o with | mk l' p' v' t' d' =>
  simp only [Mods.equiv, Mods.sem, Prod.mk.injEq, Bool.false_eq_true, if_false]
  simp only [Mods.wf] at hm ho
  by_cases hl : l = l' <;> by_cases hp : p = p' <;> simp [hl, hp]
  subst hl; subst hp
  cases d with
  | none => cases d' <;> simp
  | some b =>
    cases d' with
    | none => cases t' <;> simp
    | some b' =>
      simp only [Bool.and_eq_true] at hm ho
      simp [ho.1, exp_equal_iff b b' hm.2 ho.2]

/-! ### callables and calls -/

theorem lookup_wf : ∀ {T : Tab} (W : Tab) {k : Key} {x : Callable},
    T.all (fun p => p.2.wfIn W) = true → lookupL k T = some x → x.wfIn W = true
  | [], _, _, _, _, h => by simp [lookupL] at h
  | (k', y) :: r, W, k, x, hT, h => by
    simp only [all_cons, Bool.and_eq_true] at hT
    simp only [lookupL] at h
    by_cases hk : (k == k') = true
    · simp only [hk, if_true, Option.some.injEq] at h
      exact h ▸ hT.1
    · simp only [hk, Bool.false_eq_true, if_false] at h
      exact lookup_wf (T := r) W hT.2 h

theorem semCallable_ne_missing (s : Call → Sem) (x : Callable) : semCallable s x ≠ .missing := by
  cases x <;> simp [semCallable]

theorem matchAll_length {V : Type} {eqv : V → V → Bool} {a b : List (Key × V)}
    (h : matchAll eqv a b = true) : a.length = b.length := by
  simp only [matchAll, Bool.and_eq_true, beq_iff_eq] at h
  exact h.1

theorem equivCallable_insLen {rec : Call → Call → Bool} {x y : Callable}
    (h : equivCallable rec x y = true) : x.insLen = y.insLen := by
  cases x <;> cases y <;> simp only [equivCallable, Bool.and_eq_true, Bool.false_eq_true] at h
  · exact matchAll_length h.1.2
  · exact matchAll_length h.1.1.1

/-- hypotheses about sub-calls: `rec` decides equality of `sA`/`sB` on
well-formed calls that bind all parameters of their callees -/
theorem callable_iff (T U : Tab) (rec : Call → Call → Bool) (sA sB : Call → Sem) (x y : Callable)
    (hx : x.wfIn T = true) (hy : y.wfIn U = true)
    (h : ∀ c d : Call, c.wf = true → d.wf = true → c.completeIn T = true → d.completeIn U = true →
      (rec c d = true ↔ sA c = sB d)) :
    equivCallable rec x y = true ↔ semCallable sA x = semCallable sB y := by
  cases x with
  | stage s i o =>
    cases y with
    | stage s' i' o' =>
      simp only [Callable.wfIn, Bool.and_eq_true] at hx hy
      simp only [equivCallable, semCallable, Bool.and_eq_true, beq_iff_eq, Sem.stage.injEq,
        inParams_iff i i' hx.1 hy.1, outParams_iff false o o' hx.2 hy.2, and_assoc]
    | pipeline i' o' cs' r' => simp [equivCallable, semCallable]
  | pipeline i o cs r =>
    cases y with
    | stage s' i' o' => simp [equivCallable, semCallable]
    | pipeline i' o' cs' r' =>
      simp only [Callable.wfIn, Bool.and_eq_true, all_eq_true, beq_iff_eq] at hx hy
      obtain ⟨⟨⟨⟨⟨⟨hi, ho⟩, hk⟩, hcs⟩, hr⟩, hrl⟩, hcc⟩ := hx
      obtain ⟨⟨⟨⟨⟨⟨hi', ho'⟩, hk'⟩, hcs'⟩, hr'⟩, hrl'⟩, hcc'⟩ := hy
      have hcalls : matchAll rec (keyed cs) (keyed cs') = true ↔
          sortK ((keyed cs).map fun p => (p.1, sA p.2)) = sortK ((keyed cs').map fun p => (p.1, sB p.2)) := by
        apply matchAll_iff rec sA sB _ _ ((nodupKeys_iff _).mp hk) ((nodupKeys_iff _).mp hk')
        intro p hp q hq
        simp only [keyed, mem_map] at hp hq
        rcases hp with ⟨c, hc, rfl⟩
        rcases hq with ⟨d, hd, rfl⟩
        exact h c d (hcs c hc) (hcs' d hd) (hcc c hc) (hcc' d hd)
      have houts := outParams_iff true o o' ho ho'
      simp only [equivCallable, semCallable, Bool.and_eq_true, Sem.pipeline.injEq,
        inParams_iff i i' hi hi', houts.symm, hcalls.symm]
      constructor
      · rintro ⟨⟨⟨h1, h2⟩, h3⟩, h4⟩
        have hl : (nonstar r).length = (nonstar r').length := by
          rw [hrl, hrl']; exact matchAll_length h2
        exact ⟨h1, h2, sem_of_bindsEq r r' hr hr' hl h3, h4⟩
      · rintro ⟨h1, h2, h3, h4⟩
        exact ⟨⟨⟨h1, h2⟩, bindsEq_of_sem r r' hr hr' h3⟩, h4⟩

/-- `CallStm.EquivalentTo` (with the second `disabled` lookup reading the *other*
table) decides equality of the unfolded meaning, at every depth. -/
theorem equivCall_iff : ∀ (n : Nat) (T U : Tab), T.wf = true → U.wf = true →
    ∀ c d : Call, c.wf = true → d.wf = true → c.completeIn T = true → d.completeIn U = true →
      (equivCall false n T U c d = true ↔ semCall n T c = semCall n U d)
  | 0, _, _, _, _, _, _, _, _, _, _ => by simp [equivCall, semCall]
  | n + 1, T, U, hT, hU, c, d, hc, hd, hcc, hdc => by
    have ih := equivCall_iff n T U hT hU
    simp only [Call.wf, Bool.and_eq_true] at hc hd
    have hm := mods_equiv_iff c.mods d.mods hc.2 hd.2
    simp only [Mods.sem, Prod.mk.injEq] at hm
    simp only [equivCall, semCall, Bool.and_eq_true, beq_iff_eq, Sem.call.injEq, hm]
    -- the callee comparison, and what it implies for the number of bound parameters
    have hcallee : ((match lookupL c.decId T, lookupL d.decId U with
        | none, none => true
        | some x, some y => equivCallable (equivCall false n T U) x y
        | _, _ => false) = true ↔
        (match lookupL c.decId T with
          | none => Sem.missing
          | some x => semCallable (semCall n T) x) =
        (match lookupL d.decId U with
          | none => Sem.missing
          | some x => semCallable (semCall n U) x)) ∧
        ((match lookupL c.decId T, lookupL d.decId U with
        | none, none => true
        | some x, some y => equivCallable (equivCall false n T U) x y
        | _, _ => false) = true → c.binds.length = d.binds.length →
          (nonstar c.binds).length = (nonstar d.binds).length) := by
      simp only [Call.completeIn] at hcc hdc
      cases hx : lookupL c.decId T with
      | none =>
        cases hy : lookupL d.decId U with
        | none =>
          rw [hx] at hcc; rw [hy] at hdc
          simp only [beq_iff_eq] at hcc hdc
          exact ⟨by simp, fun _ hl => by omega⟩
        | some y =>
          refine ⟨?_, by simp⟩
          simp only [Bool.false_eq_true, false_iff]
          exact fun h => semCallable_ne_missing _ y h.symm
      | some x =>
        cases hy : lookupL d.decId U with
        | none =>
          refine ⟨?_, by simp⟩
          simp only [Bool.false_eq_true, false_iff]
          exact semCallable_ne_missing _ x
        | some y =>
          rw [hx] at hcc; rw [hy] at hdc
          simp only [beq_iff_eq] at hcc hdc
          refine ⟨callable_iff T U _ _ _ x y (lookup_wf T hT hx) (lookup_wf U hU hy) ih, ?_⟩
          intro he _
          rw [hcc, hdc]; exact equivCallable_insLen he
    constructor
    · rintro ⟨⟨⟨h1, h2⟩, h3⟩, h4⟩
      have hl := hcallee.2 h4 (by
        simp only [bindsEq, Bool.and_eq_true, beq_iff_eq] at h2; exact h2.1)
      exact ⟨h1, sem_of_bindsEq _ _ hc.1 hd.1 hl h2, h3.1, h3.2.1, h3.2.2, hcallee.1.mp h4⟩
    · rintro ⟨h1, h2, h3, h4, h5, h6⟩
      exact ⟨⟨⟨h1, bindsEq_of_sem _ _ hc.1 hd.1 h2⟩, h3, h4, h5⟩, hcallee.1.mpr h6⟩

/-! ### the lock -/

/-- invariant of disciplined runs (handler registered only after the check): the
`_lock` file exists iff exactly one process holds it, and only holders are registered -/
def LockInv (s : LockState) : Prop :=
  s.registered = s.holders ∧
  (s.lockFile = false → s.holders = []) ∧ (s.lockFile = true → ∃ p, s.holders = [p])

theorem lockInv_init : LockInv lockInit := by simp [LockInv, lockInit]

theorem lockInv_step (s : LockState) (op : LockOp) (hi : LockInv s) (hd : disciplined s op = true) :
    LockInv (lockStep false s op).1 := by
  obtain ⟨hr, h0, h1⟩ := hi
  cases hl : s.lockFile
  · have hh := h0 hl
    cases op with
    | lock p => simp [lockStep, hl, LockInv, hh, hr]
    | unlock p => simp [disciplined, hh] at hd
    | signal p => simp [lockStep, LockInv, hl, hh, hr]
  · obtain ⟨q, hq⟩ := h1 hl
    cases op with
    | lock p => simpa [lockStep, hl, LockInv, hr] using ⟨q, hq⟩
    | unlock p =>
      simp only [disciplined, hq, contains_cons, contains_nil, Bool.or_false, beq_iff_eq] at hd
      simp [lockStep, LockInv, hq, hd, hr]
    | signal p =>
      by_cases hpq : p = q
      · simp [lockStep, LockInv, hq, hr, hpq]
      · have hne : (q != p) = true := by simpa using fun h => hpq h.symm
        have hc : (p == q) = false := by simpa using hpq
        simp [lockStep, LockInv, hq, hr, hl, hne, hpq]

theorem lockInv_run : ∀ (ops : List LockOp) (s s' : LockState), LockInv s →
    lockRun false s ops = some s' → LockInv s'
  | [], s, s', hi, h => by simp only [lockRun, Option.some.injEq] at h; exact h ▸ hi
  | op :: r, s, s', hi, h => by
    simp only [lockRun] at h
    by_cases hd : disciplined s op = true
    · simp only [hd, if_true] at h
      exact lockInv_run r _ s' (lockInv_step s op hi hd) h
    · simp [hd] at h

end Martian.Equiv
