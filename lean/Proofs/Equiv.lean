import Martian.Equiv
import Proofs.SortKeys

/-! Lemmas for C15: `equal`/`equiv` decide equality of the erased meaning. -/
namespace Martian.Equiv
open Martian.SortKeys List

theorem atom_equal_iff (a b : Atom) : a.equal b = true ↔ a.sem = b.sem := by
  rcases a with _ | _ | _ | _ | (_ | _) | _ <;> rcases b with _ | _ | _ | _ | (_ | _) | _ <;>
    simp [Atom.equal, Atom.sem, and_assoc]

/-! ### spines as lists -/

theorem semMap_eq : ∀ e : Exp, semMap e = (kvs e).map fun p => (p.1, p.2.sem)
  | .mcons k v r => by simp [semMap, kvs, semMap_eq r]
  | .atom _ | .split _ | .anil | .acons _ _ | .mnil => by simp [semMap, kvs]

theorem mlen_eq : ∀ e : Exp, mlen e = (kvs e).length
  | .mcons k v r => by simp [mlen, kvs, mlen_eq r]
  | .atom _ | .split _ | .anil | .acons _ _ | .mnil => by simp [mlen, kvs]

theorem mlookup_eq (k : Key) : ∀ e : Exp, mlookup k e = lookupL k (kvs e)
  | .mcons k' v r => by simp [mlookup, kvs, lookupL, mlookup_eq k r]
  | .atom _ | .split _ | .anil | .acons _ _ | .mnil => by simp [mlookup, kvs, lookupL]

theorem sem_isArr : ∀ e : Exp, isArr e = true → e.sem = .arr (semArr e)
  | .anil, _ => by simp [Exp.sem, semArr]
  | .acons x r, _ => by simp [Exp.sem, semArr]
  | .atom _, h | .split _, h | .mnil, h | .mcons _ _ _, h => by simp [isArr] at h

theorem sem_isMap : ∀ e : Exp, isMap e = true → e.sem = .map (sortK (semMap e))
  | .mnil, _ => by simp [Exp.sem, semMap, sortK]
  | .mcons k v r, _ => by simp [Exp.sem, semMap]
  | .atom _, h | .split _, h | .anil, h | .acons _ _, h => by simp [isMap] at h

theorem sem_not_map : ∀ e : Exp, isMap e = false → ∀ l, e.sem ≠ .map l
  | .atom _, _, _ | .split _, _, _ | .anil, _, _ | .acons _ _, _, _ => by simp [Exp.sem]
  | .mnil, h, _ | .mcons _ _ _, h, _ => by simp [isMap] at h

theorem allIn_eq : ∀ e o : Exp, allIn e o =
    (kvs e).all (fun p => (lookupL p.1 (kvs o)).any (fun v' => p.2.equal v'))
  | .mcons k v r, o => by
    simp only [allIn, kvs, all_cons, mlookup_eq, allIn_eq r o]
  | .atom _, _ | .split _, _ | .anil, _ | .acons _ _, _ | .mnil, _ => by simp [allIn, kvs]

theorem equal_map : ∀ e o : Exp, isMap e = true →
    e.equal o = (isMap o && matchAll Exp.equal (kvs e) (kvs o))
  | .mnil, o, _ => by
    simp only [Exp.equal, matchAll, kvs, mlen_eq, length_nil, all_nil, Bool.and_true]
    cases isMap o <;> simp [Nat.beq_eq_true_eq, eq_comm, Bool.beq_eq_decide_eq]
  | .mcons k v r, o, _ => by
    simp only [Exp.equal, matchAll, kvs, mlen_eq, length_cons, all_cons, mlookup_eq, allIn_eq,
      Bool.and_assoc]
  | .atom _, _, h | .split _, _, h | .anil, _, h | .acons _ _, _, h => by simp [isMap] at h

theorem wf_kvs : ∀ e : Exp, e.wf = true →
    ((kvs e).map Prod.fst).Nodup ∧ ∀ p ∈ kvs e, p.2.wf = true
  | .mcons k v r, h => by
    simp only [Exp.wf, Bool.and_eq_true, Bool.not_eq_true'] at h
    obtain ⟨⟨⟨hv, hr⟩, _⟩, hk⟩ := h
    have ih := wf_kvs r hr
    constructor
    · have : nodupKeys (kvs (.mcons k v r)) = true := by
        simp only [kvs, nodupKeys, hk, Bool.not_false, Bool.true_and]
        exact (nodupKeys_iff _).mpr ih.1
      exact (nodupKeys_iff _).mp this
    · intro p hp
      simp only [kvs, mem_cons] at hp
      rcases hp with rfl | hp
      · exact hv
      · exact ih.2 p hp
  | .atom _, _ | .split _, _ | .anil, _ | .acons _ _, _ | .mnil, _ => by simp [kvs]

private def Q (e : Exp) : Prop :=
  ∀ o : Exp, e.wf = true → o.wf = true → (e.equal o = true ↔ e.sem = o.sem)

private theorem map_case (e : Exp) (hm : isMap e = true) (hq : ∀ p ∈ kvs e, Q p.2) : Q e := by
  intro o he ho
  rw [equal_map e o hm]
  cases hmo : isMap o
  · simp only [Bool.false_and, Bool.false_eq_true, false_iff]
    rw [sem_isMap e hm]
    exact fun h => sem_not_map o hmo _ h.symm
  · rw [sem_isMap e hm, sem_isMap o hmo, semMap_eq, semMap_eq, Bool.true_and]
    have hwe := wf_kvs e he
    have hwo := wf_kvs o ho
    rw [matchAll_iff Exp.equal Exp.sem Exp.sem (kvs e) (kvs o) hwe.1 hwo.1
      (fun p hp q hq' => hq p hp q.2 (hwe.2 p hp) (hwo.2 q hq'))]
    constructor
    · intro h; rw [h]
    · intro h; injection h

theorem exp_equal_iff_aux (e : Exp) : Q e ∧ ∀ p ∈ kvs e, Q p.2 := by
  induction e with
  | atom a =>
    refine ⟨?_, by simp [kvs]⟩
    intro o _ _
    cases o <;> simp [Exp.equal, Exp.sem, atom_equal_iff]
  | split e ih =>
    refine ⟨?_, by simp [kvs]⟩
    intro o he ho
    cases o with
    | split e' =>
      simp only [Exp.wf] at he ho
      simp [Exp.equal, Exp.sem, ih.1 e' he ho]
    | _ => simp [Exp.equal, Exp.sem]
  | anil =>
    refine ⟨?_, by simp [kvs]⟩
    intro o _ _
    cases o <;> simp [Exp.equal, Exp.sem]
  | acons x r ihx ihr =>
    refine ⟨?_, by simp [kvs]⟩
    intro o he ho
    cases o with
    | acons y s =>
      simp only [Exp.wf, Bool.and_eq_true] at he ho
      obtain ⟨⟨hx, hr⟩, har⟩ := he
      obtain ⟨⟨hy, hs⟩, has⟩ := ho
      have h1 := ihx.1 y hx hy
      have h2 := ihr.1 s hr hs
      rw [sem_isArr r har, sem_isArr s has] at h2
      simp only [Exp.equal, Exp.sem, Bool.and_eq_true, h1, h2, SemExp.arr.injEq, cons.injEq]
    | _ => simp [Exp.equal, Exp.sem]
  | mnil =>
    refine ⟨?_, by simp [kvs]⟩
    exact map_case .mnil rfl (by simp [kvs])
  | mcons k v r ihv ihr =>
    have hall : ∀ p ∈ kvs (.mcons k v r), Q p.2 := by
      intro p hp
      simp only [kvs, mem_cons] at hp
      rcases hp with rfl | hp
      · exact ihv.1
      · exact ihr.2 p hp
    exact ⟨map_case _ rfl hall, hall⟩

/-- `Exp.equal` decides equality of meaning on well-formed expressions. -/
theorem exp_equal_iff (e o : Exp) (he : e.wf = true) (ho : o.wf = true) :
    e.equal o = true ↔ e.sem = o.sem := (exp_equal_iff_aux e).1 o he ho

/-! ### parameters, bindings, modifiers -/

theorem inParamEq_iff (x y : Param) : inParamEq x y = true ↔ semIn x = semIn y := by
  cases x with | mk t a m f o => cases y with | mk t' a' m' f' o' =>
  simp only [inParamEq, semIn, SemParam.mk.injEq, Bool.and_eq_true, Bool.or_eq_true, beq_iff_eq,
    and_true]
  by_cases h2 : f = 2
  · subst h2
    constructor
    · rintro ⟨⟨rfl, rfl⟩, _⟩; simp
    · rintro ⟨rfl, rfl, _⟩; simp
  · constructor
    · rintro ⟨⟨rfl, rfl⟩, h⟩
      rcases h with h | ⟨⟨rfl, _⟩, rfl⟩
      · exact absurd h h2
      · simp
    · rintro ⟨rfl, rfl, h⟩
      simp only [beq_iff_eq, h2, if_false, Option.some.injEq, Prod.mk.injEq] at h
      simp [h.1, h.2]

theorem outParamEq_iff (chk : Bool) (x y : Param) :
    outParamEq chk x y = true ↔ semOut chk x = semOut chk y := by
  have hin := inParamEq_iff x y
  cases x with | mk t a m f o => cases y with | mk t' a' m' f' o' =>
  simp only [outParamEq, Bool.and_eq_true, hin]
  simp only [semOut, semIn, SemParam.mk.injEq]
  constructor
  · rintro ⟨⟨rfl, rfl, h, _⟩, hn⟩
    refine ⟨rfl, rfl, h, ?_⟩
    cases chk <;> simp_all
    by_cases h23 : f = 2 ∨ f = 3
    · rcases hn with hn | hn
      · exact absurd h23 (by omega)
      · simp [hn]
    · simp [h23]
  · rintro ⟨rfl, rfl, h, hn⟩
    refine ⟨⟨rfl, rfl, h, trivial⟩, ?_⟩
    cases chk <;> simp_all
    by_cases h23 : f = 2 ∨ f = 3
    · simp only [h23, if_true, Option.some.injEq] at hn
      exact Or.inr hn
    · exact Or.inl (by omega)

theorem bindsWf_iff (l : List (Key × Exp)) :
    bindsWf l = true ↔ (l.map Prod.fst).Nodup ∧ ∀ p ∈ l, p.2.wf = true := by
  simp [bindsWf, nodupKeys_iff]

theorem binds_iff (a b : List (Key × Exp)) (ha : bindsWf a = true) (hb : bindsWf b = true) :
    matchAll Exp.equal a b = true ↔ semBinds a = semBinds b := by
  have ha' := (bindsWf_iff a).mp ha
  have hb' := (bindsWf_iff b).mp hb
  exact matchAll_iff Exp.equal Exp.sem Exp.sem a b ha'.1 hb'.1
    (fun p hp q hq => exp_equal_iff p.2 q.2 (ha'.2 p hp) (hb'.2 q hq))

theorem inParams_iff (a b : List (Key × Param)) (ha : nodupKeys a = true) (hb : nodupKeys b = true) :
    matchAll inParamEq a b = true ↔
      sortK (a.map fun p => (p.1, semIn p.2)) = sortK (b.map fun p => (p.1, semIn p.2)) :=
  matchAll_iff inParamEq semIn semIn a b ((nodupKeys_iff a).mp ha) ((nodupKeys_iff b).mp hb)
    (fun p _ q _ => inParamEq_iff p.2 q.2)

theorem outParams_iff (chk : Bool) (a b : List (Key × Param)) (ha : nodupKeys a = true)
    (hb : nodupKeys b = true) :
    matchAll (outParamEq chk) a b = true ↔
      sortK (a.map fun p => (p.1, semOut chk p.2)) = sortK (b.map fun p => (p.1, semOut chk p.2)) :=
  matchAll_iff (outParamEq chk) (semOut chk) (semOut chk) a b ((nodupKeys_iff a).mp ha)
    ((nodupKeys_iff b).mp hb) (fun p _ q _ => outParamEq_iff chk p.2 q.2)

/-- the part of `Modifiers` that is meaning -/
def Mods.sem (m : Mods) : Bool × Bool × Option SemExp :=
  (m.isLocal, m.preflight, m.disabled.map Exp.sem)

theorem mods_equiv_iff (m o : Mods) (hm : m.wf = true) (ho : o.wf = true) :
    m.equiv false o = true ↔ m.sem = o.sem := by
  cases m with | mk l p v t d => cases o with | mk l' p' v' t' d' =>
  simp only [Mods.equiv, Mods.sem, Prod.mk.injEq, Bool.false_eq_true, if_false]
  simp only [Mods.wf] at hm ho
  by_cases hl : l = l' <;> by_cases hp : p = p' <;> simp [hl, hp]
  subst hl; subst hp
  cases d with
  | none => cases d' <;> simp
  | some b =>
    cases d' with
    | none => cases t' <;> simp
    | some b' =>
      simp only [Bool.and_eq_true] at hm ho
      simp [ho.1, exp_equal_iff b b' hm.2 ho.2]

/-! ### callables and calls -/

theorem lookup_wf : ∀ {T : Tab} {k : Key} {x : Callable}, T.wf = true → lookupL k T = some x → x.wf = true
  | [], _, _, _, h => by simp [lookupL] at h
  | (k', y) :: r, k, x, hT, h => by
    simp only [Tab.wf, all_cons, Bool.and_eq_true] at hT
    simp only [lookupL] at h
    by_cases hk : (k == k') = true
    · simp only [hk, if_true, Option.some.injEq] at h
      exact h ▸ hT.1
    · simp only [hk, Bool.false_eq_true, if_false] at h
      exact lookup_wf (T := r) (by simpa [Tab.wf] using hT.2) h

theorem semCallable_ne_missing (s : Call → Sem) (x : Callable) : semCallable s x ≠ .missing := by
  cases x <;> simp [semCallable]

theorem callable_iff (rec : Call → Call → Bool) (sA sB : Call → Sem) (x y : Callable)
    (hx : x.wf = true) (hy : y.wf = true)
    (h : ∀ c d : Call, c.wf = true → d.wf = true → (rec c d = true ↔ sA c = sB d)) :
    equivCallable rec x y = true ↔ semCallable sA x = semCallable sB y := by
  cases x with
  | stage s i o =>
    cases y with
    | stage s' i' o' =>
      simp only [Callable.wf, Bool.and_eq_true] at hx hy
      simp only [equivCallable, semCallable, Bool.and_eq_true, beq_iff_eq, Sem.stage.injEq,
        inParams_iff i i' hx.1 hy.1, outParams_iff false o o' hx.2 hy.2, and_assoc]
    | pipeline i' o' cs' r' => simp [equivCallable, semCallable]
  | pipeline i o cs r =>
    cases y with
    | stage s' i' o' => simp [equivCallable, semCallable]
    | pipeline i' o' cs' r' =>
      simp only [Callable.wf, Bool.and_eq_true, all_eq_true] at hx hy
      obtain ⟨⟨⟨⟨hi, ho⟩, hk⟩, hcs⟩, hr⟩ := hx
      obtain ⟨⟨⟨⟨hi', ho'⟩, hk'⟩, hcs'⟩, hr'⟩ := hy
      have hcalls : matchAll rec (keyed cs) (keyed cs') = true ↔
          sortK ((keyed cs).map fun p => (p.1, sA p.2)) = sortK ((keyed cs').map fun p => (p.1, sB p.2)) := by
        apply matchAll_iff rec sA sB _ _ ((nodupKeys_iff _).mp hk) ((nodupKeys_iff _).mp hk')
        intro p hp q hq
        simp only [keyed, mem_map] at hp hq
        rcases hp with ⟨c, hc, rfl⟩
        rcases hq with ⟨d, hd, rfl⟩
        exact h c d (hcs c hc) (hcs' d hd)
      simp only [equivCallable, semCallable, Bool.and_eq_true, Sem.pipeline.injEq,
        inParams_iff i i' hi hi', outParams_iff true o o' ho ho', binds_iff r r' hr hr', hcalls,
        and_assoc]

/-- `CallStm.EquivalentTo` (with the second `disabled` lookup reading the *other*
table) decides equality of the unfolded meaning, at every depth. -/
theorem equivCall_iff : ∀ (n : Nat) (T U : Tab), T.wf = true → U.wf = true →
    ∀ c d : Call, c.wf = true → d.wf = true →
      (equivCall false n T U c d = true ↔ semCall n T c = semCall n U d)
  | 0, _, _, _, _, _, _, _, _ => by simp [equivCall, semCall]
  | n + 1, T, U, hT, hU, c, d, hc, hd => by
    have ih := equivCall_iff n T U hT hU
    simp only [Call.wf, Bool.and_eq_true] at hc hd
    have hm := mods_equiv_iff c.mods d.mods hc.2 hd.2
    simp only [Mods.sem, Prod.mk.injEq] at hm
    simp only [equivCall, semCall, Bool.and_eq_true, beq_iff_eq, Sem.call.injEq,
      binds_iff c.binds d.binds hc.1 hd.1, hm, and_assoc]
    refine and_congr_right fun _ => and_congr_right fun _ => and_congr_right fun _ =>
      and_congr_right fun _ => and_congr_right fun _ => ?_
    cases hx : lookupL c.decId T with
    | none =>
      cases hy : lookupL d.decId U with
      | none => simp
      | some y =>
        simp only [Bool.false_eq_true, false_iff]
        exact fun h => semCallable_ne_missing _ y h.symm
    | some x =>
      cases hy : lookupL d.decId U with
      | none =>
        simp only [Bool.false_eq_true, false_iff]
        exact semCallable_ne_missing _ x
      | some y => exact callable_iff _ _ _ x y (lookup_wf hT hx) (lookup_wf hU hy) ih

/-! ### the lock -/

/-- invariant of disciplined runs: the `_lock` file exists iff exactly one process holds it -/
def LockInv (s : LockState) : Prop :=
  (s.lockFile = false → s.holders = []) ∧ (s.lockFile = true → ∃ p, s.holders = [p])

theorem lockInv_init : LockInv lockInit := by simp [LockInv, lockInit]

theorem lockInv_step (s : LockState) (op : LockOp) (hi : LockInv s) (hd : disciplined s op = true) :
    LockInv (lockStep s op).1 := by
  obtain ⟨h0, h1⟩ := hi
  cases hl : s.lockFile
  · have hh := h0 hl
    cases op with
    | lock p => simp [lockStep, hl, LockInv, hh]
    | unlock p => simp [disciplined, hh] at hd
    | signal p => simp [disciplined, hh] at hd
  · obtain ⟨q, hq⟩ := h1 hl
    cases op with
    | lock p => simpa [lockStep, hl, LockInv] using ⟨q, hq⟩
    | unlock p =>
      simp only [disciplined, hq, contains_cons, contains_nil, Bool.or_false, beq_iff_eq] at hd
      simp [lockStep, LockInv, hq, hd]
    | signal p =>
      simp only [disciplined, hq, contains_cons, contains_nil, Bool.or_false, beq_iff_eq] at hd
      simp [lockStep, LockInv, hq, hd]

theorem lockInv_run : ∀ (ops : List LockOp) (s s' : LockState), LockInv s →
    lockRun s ops = some s' → LockInv s'
  | [], s, s', hi, h => by simp only [lockRun, Option.some.injEq] at h; exact h ▸ hi
  | op :: r, s, s', hi, h => by
    simp only [lockRun] at h
    by_cases hd : disciplined s op = true
    · simp only [hd, if_true] at h
      exact lockInv_run r _ s' (lockInv_step s op hi hd) h
    · simp [hd] at h

end Martian.Equiv
