import Martian.Equiv
import Proofs.SortKeys

/-! Lemmas for C15: `equal`/`equiv` decide equality of the erased meaning. -/
namespace Martian.Equiv
open Martian.SortKeys List

theorem atom_equal_iff (a b : Atom) : a.equal b = true ↔ a.sem = b.sem := by
  rcases a with _ | _ | _ | _ | (_ | _) | _ <;> rcases b with _ | _ | _ | _ | (_ | _) | _ <;>
    simp [Atom.equal, Atom.sem, and_assoc]

/-! ### spines as lists -/

theorem semMap_eq : ∀ e : Exp, semMap e = (kvs e).map fun p => (p.1, p.2.sem)
  | .mcons k v r => by simp [semMap, kvs, semMap_eq r]
  | .atom _ | .split _ | .anil | .acons _ _ | .mnil => by simp [semMap, kvs]

theorem mlen_eq : ∀ e : Exp, mlen e = (kvs e).length
  | .mcons k v r => by simp [mlen, kvs, mlen_eq r]
  | .atom _ | .split _ | .anil | .acons _ _ | .mnil => by simp [mlen, kvs]

theorem mlookup_eq (k : Key) : ∀ e : Exp, mlookup k e = lookupL k (kvs e)
  | .mcons k' v r => by simp [mlookup, kvs, lookupL, mlookup_eq k r]
  | .atom _ | .split _ | .anil | .acons _ _ | .mnil => by simp [mlookup, kvs, lookupL]

theorem sem_isArr : ∀ e : Exp, isArr e = true → e.sem = .arr (semArr e)
  | .anil, _ => by simp [Exp.sem, semArr]
  | .acons x r, _ => by simp [Exp.sem, semArr]
  | .atom _, h | .split _, h | .mnil, h | .mcons _ _ _, h => by simp [isArr] at h

theorem sem_isMap : ∀ e : Exp, isMap e = true → e.sem = .map (sortK (semMap e))
  | .mnil, _ => by simp [Exp.sem, semMap, sortK]
  | .mcons k v r, _ => by simp [Exp.sem, semMap]
  | .atom _, h | .split _, h | .anil, h | .acons _ _, h => by simp [isMap] at h

theorem sem_not_map : ∀ e : Exp, isMap e = false → ∀ l, e.sem ≠ .map l
  | .atom _, _, _ | .split _, _, _ | .anil, _, _ | .acons _ _, _, _ => by simp [Exp.sem]
  | .mnil, h, _ | .mcons _ _ _, h, _ => by simp [isMap] at h

theorem allIn_eq : ∀ e o : Exp, allIn e o =
    (kvs e).all (fun p => (lookupL p.1 (kvs o)).any (fun v' => p.2.equal v'))
  | .mcons k v r, o => by
    simp only [allIn, kvs, all_cons, mlookup_eq, allIn_eq r o]
  | .atom _, _ | .split _, _ | .anil, _ | .acons _ _, _ | .mnil, _ => by simp [allIn, kvs]

theorem equal_map : ∀ e o : Exp, isMap e = true →
    e.equal o = (isMap o && matchAll Exp.equal (kvs e) (kvs o))
  | .mnil, o, _ => by
    simp only [Exp.equal, matchAll, kvs, mlen_eq, length_nil, all_nil, Bool.and_true]
    cases isMap o <;> simp [Nat.beq_eq_true_eq, eq_comm, Bool.beq_eq_decide_eq]
  | .mcons k v r, o, _ => by
    simp only [Exp.equal, matchAll, kvs, mlen_eq, length_cons, all_cons, mlookup_eq, allIn_eq,
      Bool.and_assoc]
  | .atom _, _, h | .split _, _, h | .anil, _, h | .acons _ _, _, h => by simp [isMap] at h

theorem wf_kvs : ∀ e : Exp, e.wf = true →
    ((kvs e).map Prod.fst).Nodup ∧ ∀ p ∈ kvs e, p.2.wf = true
  | .mcons k v r, h => by
    simp only [Exp.wf, Bool.and_eq_true, Bool.not_eq_true'] at h
    obtain ⟨⟨⟨hv, hr⟩, _⟩, hk⟩ := h
    have ih := wf_kvs r hr
    constructor
    · have : nodupKeys (kvs (.mcons k v r)) = true := by
        simp only [kvs, nodupKeys, hk, Bool.not_false, Bool.true_and]
        exact (nodupKeys_iff _).mpr ih.1
      exact (nodupKeys_iff _).mp this
    · intro p hp
      simp only [kvs, mem_cons] at hp
      rcases hp with rfl | hp
      · exact hv
      · exact ih.2 p hp
  | .atom _, _ | .split _, _ | .anil, _ | .acons _ _, _ | .mnil, _ => by simp [kvs]

private def Q (e : Exp) : Prop :=
  ∀ o : Exp, e.wf = true → o.wf = true → (e.equal o = true ↔ e.sem = o.sem)

private theorem map_case (e : Exp) (hm : isMap e = true) (hq : ∀ p ∈ kvs e, Q p.2) : Q e := by
  intro o he ho
  rw [equal_map e o hm]
  cases hmo : isMap o
  · simp only [Bool.false_and, Bool.false_eq_true, false_iff]
    rw [sem_isMap e hm]
    exact fun h => sem_not_map o hmo _ h.symm
  · rw [sem_isMap e hm, sem_isMap o hmo, semMap_eq, semMap_eq, Bool.true_and]
    have hwe := wf_kvs e he
    have hwo := wf_kvs o ho
    rw [matchAll_iff Exp.equal Exp.sem Exp.sem (kvs e) (kvs o) hwe.1 hwo.1
      (fun p hp q hq' => hq p hp q.2 (hwe.2 p hp) (hwo.2 q hq'))]
    constructor
    · intro h; rw [h]
    · intro h; injection h

theorem exp_equal_iff_aux (e : Exp) : Q e ∧ ∀ p ∈ kvs e, Q p.2 := by
  induction e with
  | atom a =>
    refine ⟨?_, by simp [kvs]⟩
    intro o _ _
    cases o <;> simp [Exp.equal, Exp.sem, atom_equal_iff]
  | split e ih =>
    refine ⟨?_, by simp [kvs]⟩
    intro o he ho
    cases o with
    | split e' =>
      simp only [Exp.wf] at he ho
      simp [Exp.equal, Exp.sem, ih.1 e' he ho]
    | _ => simp [Exp.equal, Exp.sem]
  | anil =>
    refine ⟨?_, by simp [kvs]⟩
    intro o _ _
    cases o <;> simp [Exp.equal, Exp.sem]
  | acons x r ihx ihr =>
    refine ⟨?_, by simp [kvs]⟩
    intro o he ho
    cases o with
    | acons y s =>
      simp only [Exp.wf, Bool.and_eq_true] at he ho
      obtain ⟨⟨hx, hr⟩, har⟩ := he
      obtain ⟨⟨hy, hs⟩, has⟩ := ho
      have h1 := ihx.1 y hx hy
      have h2 := ihr.1 s hr hs
      rw [sem_isArr r har, sem_isArr s has] at h2
      simp only [Exp.equal, Exp.sem, Bool.and_eq_true, h1, h2, SemExp.arr.injEq, cons.injEq]
    | _ => simp [Exp.equal, Exp.sem]
  | mnil =>
    refine ⟨?_, by simp [kvs]⟩
    exact map_case .mnil rfl (by simp [kvs])
  | mcons k v r ihv ihr =>
    have hall : ∀ p ∈ kvs (.mcons k v r), Q p.2 := by
      intro p hp
      simp only [kvs, mem_cons] at hp
      rcases hp with rfl | hp
      · exact ihv.1
      · exact ihr.2 p hp
    exact ⟨map_case _ rfl hall, hall⟩

/-- `Exp.equal` decides equality of meaning on well-formed expressions. -/
theorem exp_equal_iff (e o : Exp) (he : e.wf = true) (ho : o.wf = true) :
    e.equal o = true ↔ e.sem = o.sem := (exp_equal_iff_aux e).1 o he ho

end Martian.Equiv
