/-
C09: the round trip on token level with the fuel `parseToks` uses, and
idempotence of the printer under the normalisation.
-/
import Proofs.FormatExpParse

namespace Martian.FormatExp
open Martian.Lexer (Bytes parseInt)

theorem toksDots_length (out : List Bytes) : (toksDots out).length = 2 * out.length := by
  induction out with
  | nil => rfl
  | cons x r ih => simp [toksDots, ih]; omega

theorem cost_ref_le (self : Bool) (id : Bytes) (out : List Bytes) :
    out.length + 2 ≤ 2 * (toksRef self id out).length := by
  unfold toksRef
  split
  · simp [toksDots_length]; omega
  · split
    · rename_i h; subst h; simp
    · simp [toksDots_length]; omega

mutual
theorem cost_le : ∀ e : Exp, cost e ≤ 2 * (toks e).length
  | .null => by simp [cost, toks]
  | .nilArr => by simp [cost, toks]
  | .bool _ => by simp [cost, toks]
  | .int _ => by simp [cost, toks]
  | .float _ => by simp [cost, toks]
  | .str _ => by simp [cost, toks]
  | .ref self id out => by simp only [cost, toks]; exact cost_ref_le self id out
  | .arr [] => by simp [cost, toks, costL]
  | .arr [x] => by
    have := cost_le x
    simp only [cost, costL, toks]
    split <;> simp <;> omega
  | .arr (x :: y :: r) => by
    have := costL_le (x :: y :: r)
    simp only [cost, toks, List.length_cons, List.length_append, List.length_nil]
    omega
  | .map [] => by simp [cost, toks, costKV]
  | .map (kv :: r) => by
    have := costKV_le (kv :: r)
    simp only [cost, toks, List.length_cons, List.length_append, List.length_nil]
    omega
  | .struct [] => by simp [cost, toks, costKV]
  | .struct (kv :: r) => by
    have := costKV_le' (kv :: r)
    simp only [cost, toks, List.length_cons, List.length_append, List.length_nil]
    omega
theorem costL_le : ∀ xs : List Exp, costL xs ≤ 2 * (toksElems xs).length
  | [] => by simp [costL]
  | x :: r => by
    have := cost_le x
    have := costL_le r
    simp only [costL, toksElems, List.length_cons, List.length_append]
    omega
theorem costKV_le : ∀ kvs : List (Bytes × Exp), costKV kvs ≤ 2 * (toksKVs kvs).length
  | [] => by simp [costKV]
  | (k, v) :: r => by
    have := cost_le v
    have := costKV_le r
    simp only [costKV, toksKVs, List.length_cons, List.length_append]
    omega
theorem costKV_le' : ∀ kvs : List (Bytes × Exp), costKV kvs ≤ 2 * (toksFields kvs).length
  | [] => by simp [costKV]
  | (k, v) :: r => by
    have := cost_le v
    have := costKV_le' r
    simp only [costKV, toksFields, List.length_cons, List.length_append]
    omega
end

theorem isVal_norm (e : Exp) : isVal (norm e) = isVal e := by
  cases e with
  | float t =>
    simp only [norm]
    split
    · rfl
    · split <;> rfl
  | arr xs => simp [norm, isVal]
  | map kvs => simp [norm, isVal]
  | struct kvs => cases kvs <;> simp [norm, isVal]
  | _ => simp [norm, isVal]

/-- reading back the token sequence of a printed well-formed value expression -/
theorem parseToks_toks (e : Exp) (hw : wf e = true) (hv : isVal e = true) :
    parseToks (toks e) = some (norm e) := by
  have h := pExp_toks e (2 * (toks e).length + 1) [] hw (by have := cost_le e; omega) noDot_nil
  rw [List.append_nil] at h
  simp [parseToks, h, isVal_norm, hv]

/-! ## printing the normalised expression gives the same text -/

mutual
theorem single_norm : ∀ e : Exp, single (norm e) = single e
  | .null => rfl
  | .nilArr => rfl
  | .bool _ => rfl
  | .int _ => rfl
  | .str _ => rfl
  | .ref .. => rfl
  | .float t => by
    simp only [norm]
    split
    · rfl
    · split <;> rfl
  | .arr xs => by simp only [norm, single]; exact singleL_norm xs
  | .map kvs => by
    cases kvs with
    | nil => rfl
    | cons kv r => obtain ⟨k, v⟩ := kv; simp [norm, single, normKV]
  | .struct kvs => by
    cases kvs with
    | nil => rfl
    | cons kv r => obtain ⟨k, v⟩ := kv; simp [norm, single, normKV]
theorem singleL_norm : ∀ xs : List Exp, singleL (normL xs) = singleL xs
  | [] => rfl
  | [x] => by simp only [normL, singleL]; exact single_norm x
  | x :: y :: r => by simp [normL, singleL]
end

theorem maxKeyLen_norm : ∀ kvs : List (Bytes × Exp), maxKeyLen (normKV kvs) = maxKeyLen kvs
  | [] => rfl
  | (k, v) :: r => by simp [normKV, maxKeyLen, single_norm, maxKeyLen_norm r]

mutual
theorem fmt_norm : ∀ (e : Exp) (p : Bytes), wf e = true → fmt p (norm e) = fmt p e
  | .null, _, _ => rfl
  | .nilArr, _, _ => by simp [norm, fmt]
  | .bool _, _, _ => rfl
  | .int _, _, _ => rfl
  | .str _, _, _ => rfl
  | .ref .., _, _ => rfl
  | .float t, p, hw => by
    simp only [norm]
    split
    · rfl
    · rename_i hft
      simp only [wf, hft, Bool.false_or] at hw
      unfold isCanonInt at hw
      cases hp : parseInt t with
      | none => simp [hp] at hw
      | some i =>
        simp only [hp, Bool.and_eq_true, beq_iff_eq] at hw
        simp only [fmt, hw.1]
  | .arr [], _, _ => rfl
  | .arr [x], p, hw => by
    simp only [wf, wfL, Bool.and_true] at hw
    simp only [norm, normL, fmt, single_norm, fmt_norm x _ hw]
  | .arr (x :: y :: r), p, hw => by
    simp only [wf] at hw
    simp only [norm, normL, fmt]
    have := fmtElems_norm (x :: y :: r) (p ++ indent) hw
    simp only [normL] at this
    rw [this]
  | .map [], _, _ => rfl
  | .map ((k, v) :: r), p, hw => by
    simp only [wf, Bool.and_eq_true] at hw
    simp only [norm, normKV, fmt]
    have := fmtKVs_norm ((k, v) :: r) (p ++ indent) hw.2
    simp only [normKV] at this
    rw [this]
  | .struct [], _, _ => rfl
  | .struct ((k, v) :: r), p, hw => by
    simp only [wf, Bool.and_eq_true] at hw
    simp only [norm, fmt]
    have hm := maxKeyLen_norm ((k, v) :: r)
    have := fmtFields_norm ((k, v) :: r) (p ++ indent) (maxKeyLen ((k, v) :: r)) hw.2
    simp only [normKV] at this hm
    simp only [normKV, fmt, hm]
    rw [this]
theorem fmtElems_norm : ∀ (xs : List Exp) (vp : Bytes), wfL xs = true → fmtElems vp (normL xs) = fmtElems vp xs
  | [], _, _ => rfl
  | x :: r, vp, hw => by
    simp only [wfL, Bool.and_eq_true] at hw
    simp only [normL, fmtElems, fmt_norm x vp hw.1, fmtElems_norm r vp hw.2]
theorem fmtKVs_norm : ∀ (kvs : List (Bytes × Exp)) (vp : Bytes), wfKV false kvs = true →
    fmtKVs vp (normKV kvs) = fmtKVs vp kvs
  | [], _, _ => rfl
  | (k, v) :: r, vp, hw => by
    simp only [wfKV, Bool.and_eq_true] at hw
    simp only [normKV, fmtKVs, fmt_norm v vp hw.1.2, fmtKVs_norm r vp hw.2]
theorem fmtFields_norm : ∀ (kvs : List (Bytes × Exp)) (vp : Bytes) (w : Nat), wfKV true kvs = true →
    fmtFields vp w (normKV kvs) = fmtFields vp w kvs
  | [], _, _, _ => rfl
  | (k, v) :: r, vp, w, hw => by
    simp only [wfKV, Bool.and_eq_true] at hw
    simp only [normKV, fmtFields, single_norm, fmt_norm v vp hw.1.2, fmtFields_norm r vp w hw.2]
end


/-! ## the normal form is well-formed and normal -/

mutual
theorem wf_norm : ∀ e : Exp, wf e = true → wf (norm e) = true
  | .null, _ => rfl
  | .nilArr, _ => rfl
  | .bool _, _ => rfl
  | .int _, h => h
  | .str _, h => h
  | .ref .., h => h
  | .float t, hw => by
    simp only [norm]
    split
    · exact hw
    · rename_i hft
      simp only [wf, hft, Bool.false_or] at hw
      unfold isCanonInt at hw
      cases hp : parseInt t with
      | none => simp [hp] at hw
      | some i =>
        simp only [hp, Bool.and_eq_true] at hw
        simp only [wf, hw.2]
  | .arr xs, hw => by
    simp only [wf] at hw
    simp only [norm, wf]
    exact wfL_norm xs hw
  | .map kvs, hw => by
    simp only [wf, Bool.and_eq_true] at hw
    simp only [norm, wf, Bool.and_eq_true, sortedKeys_normKV]
    exact ⟨hw.1, wfKV_norm false kvs hw.2⟩
  | .struct [], _ => by simp [norm, wf, sortedKeys, wfKV]
  | .struct (kv :: r), hw => by
    simp only [wf, Bool.and_eq_true] at hw
    simp only [norm, wf, Bool.and_eq_true, sortedKeys_normKV]
    exact ⟨hw.1, wfKV_norm true (kv :: r) hw.2⟩
theorem wfL_norm : ∀ xs : List Exp, wfL xs = true → wfL (normL xs) = true
  | [], _ => rfl
  | x :: r, hw => by
    simp only [wfL, Bool.and_eq_true] at hw
    simp only [normL, wfL, Bool.and_eq_true]
    exact ⟨wf_norm x hw.1, wfL_norm r hw.2⟩
theorem wfKV_norm (b : Bool) : ∀ kvs : List (Bytes × Exp), wfKV b kvs = true → wfKV b (normKV kvs) = true
  | [], _ => rfl
  | (k, v) :: r, hw => by
    simp only [wfKV, Bool.and_eq_true] at hw
    simp only [normKV, wfKV, Bool.and_eq_true]
    exact ⟨⟨hw.1.1, wf_norm v hw.1.2⟩, wfKV_norm b r hw.2⟩
end

mutual
theorem norm_norm : ∀ e : Exp, norm (norm e) = norm e
  | .null => rfl
  | .nilArr => rfl
  | .bool _ => rfl
  | .int _ => rfl
  | .str _ => rfl
  | .ref .. => rfl
  | .float t => by
    by_cases hft : isFloatTok t = true
    · simp [norm, hft]
    · cases hp : parseInt t with
      | none => simp [norm, hft, hp]
      | some i => simp [norm, hft, hp]
  | .arr xs => by simp only [norm, normL_normL xs]
  | .map kvs => by simp only [norm, normKV_normKV kvs]
  | .struct [] => rfl
  | .struct ((k, v) :: r) => by
    have := normKV_normKV ((k, v) :: r)
    simp only [normKV] at this
    simp only [norm, normKV, this]
theorem normL_normL : ∀ xs : List Exp, normL (normL xs) = normL xs
  | [] => rfl
  | x :: r => by simp only [normL, norm_norm x, normL_normL r]
theorem normKV_normKV : ∀ kvs : List (Bytes × Exp), normKV (normKV kvs) = normKV kvs
  | [] => rfl
  | (k, v) :: r => by simp only [normKV, norm_norm v, normKV_normKV r]
end

end Martian.FormatExp
