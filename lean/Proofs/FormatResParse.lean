import Martian.FormatRes
import Proofs.FormatResGB
import Proofs.FormatCallParse
import Proofs.FormatExpLex
import Proofs.FormatQuote

/-!
C09: the token layer of the round trip of the trailing clauses of a stage
declaration: the token sequences `toksRes`, `toksRetain`, `toksSrc`,
`toksTail` of the printed clauses, and the readers give back the clause from
them, whatever token sequence follows.

Core Lean only.
-/

namespace Martian.FormatRes
open Martian.Lexer (Bytes parseInt parseFloat unquoteBytes isSpaceAscii)
open Martian.Format (quoteString)
open Martian.FormatExp
open Martian.FormatCall (tLP tRP tEq)

/-! ## tokens of the printed clauses -/

def tokThreads (t : Bytes) : Tok := if isFloatTok t then .float t else .int t

def toksMem : Option Int → List Tok
  | some mb => [.id sMemGb, tEq, tokGB mb, tComma]
  | none => []

def toksSpecial : Option Bytes → List Tok
  | some s => [.id sSpecial, tEq, .str (quoteString s), tComma]
  | none => []

def toksThreads : Option Bytes → List Tok
  | some t => [.id sThreads, tEq, tokThreads t, tComma]
  | none => []

def toksVmem : Option Int → List Tok
  | some mb => [.id sVmemGb, tEq, tokGB mb, tComma]
  | none => []

def toksVolatile : Option Bool → List Tok
  | some b => [.id sVolatile, tEq, if b then .id sStrict else .kFalse, tComma]
  | none => []

/-- the entries of the `using` block -/
def toksResBody (r : Res) : List Tok :=
  toksMem r.mem ++ toksSpecial r.special ++ toksThreads r.threads ++ toksVmem r.vmem ++
    toksVolatile r.volatile

/-- `) using (` and the entries: the tokens of `fmtRes r` -/
def toksRes (r : Res) : List Tok := tRP :: .id sUsing :: tLP :: toksResBody r

def toksRetainBody : List Bytes → List Tok
  | [] => []
  | x :: r => .id x :: tComma :: toksRetainBody r

/-- `) retain (` and the entries: the tokens of `fmtRetain ids` -/
def toksRetain (ids : List Bytes) : List Tok := tRP :: .id sRetain :: tLP :: toksRetainBody ids

/-- the tokens of `fmtSrc mw tw lang path args` -/
def toksSrc (lang : Lang) (path : Bytes) (args : List Bytes) : List Tok :=
  [.reserved sSrc, langTok lang, .str (quoteString (joinSp (path :: args))), tComma]

/-- the tokens of `fmtTail res ret` -/
def toksTail (res : Option Res) (ret : Option (List Bytes)) : List Tok :=
  (match res with | some r => toksRes r | none => []) ++
    (match ret with | some ids => toksRetain ids | none => []) ++ [tRP]

def toksStage0 (s : Stage0) : List Tok :=
  .reserved sStage :: .id s.id :: tLP :: (toksSrc s.lang s.path s.args ++ toksTail s.res s.retain)

/-! ## resource entries -/

theorem pResList_end (rest : List Tok) (acc : Res) : pResList (tRP :: rest) acc = some (acc, rest) := by
  simp [pResList]

theorem readF32_threads (t : Bytes) (h : wfThreads t = true) : readF32 (tokThreads t) = some t := by
  unfold tokThreads
  cases hf : isFloatTok t with
  | true =>
    simp only [↓reduceIte, readF32]
    simp only [wfThreads, hf, Bool.true_and, Bool.or_eq_true] at h
    rcases h with h | h
    · simp [h]
    · have h1 := isCanonInt_lex h
      simp only [isFloatTok, beq_iff_eq] at hf
      rw [h1] at hf
      exact Martian.Lexer.NumTok.noConfusion hf
  | false =>
    simp only [Bool.false_eq_true, ↓reduceIte, readF32]
    simp only [wfThreads, hf, Bool.false_and, Bool.false_or] at h
    unfold isCanonInt at h
    split at h
    · rename_i i hi; simp [hi]
    · exact absurd h (by simp)

theorem step_mem (mb : Int) (hb : mb.natAbs < 2 ^ 63) (ts : List Tok) (acc : Res) :
    pResList (toksMem (some mb) ++ ts) acc = pResList ts { acc with mem := some mb } := by
  have h1 : sMemGb ≠ sThreads := by decide
  have hr := readGBTok_fmtGB mb hb
  simp only [toksMem]
  generalize tokGB mb = v at hr
  cases v <;> simp [tEq, tComma, pResList, h1, hr] <;> simp [readGBTok] at hr

theorem step_vmem (mb : Int) (hb : mb.natAbs < 2 ^ 63) (ts : List Tok) (acc : Res) :
    pResList (toksVmem (some mb) ++ ts) acc = pResList ts { acc with vmem := some mb } := by
  have h1 : sVmemGb ≠ sThreads := by decide
  have h2 : sVmemGb ≠ sMemGb := by decide
  have h3 : sVmemGb ≠ sMemgb := by decide
  have hr := readGBTok_fmtGB mb hb
  simp only [toksVmem]
  generalize tokGB mb = v at hr
  cases v <;> simp [tEq, tComma, pResList, h1, h2, h3, hr] <;> simp [readGBTok] at hr

theorem step_special (s : Bytes) (hs : Martian.ShellQuote.validUtf8 s = true) (ts : List Tok)
    (acc : Res) :
    pResList (toksSpecial (some s) ++ ts) acc = pResList ts { acc with special := some s } := by
  have h1 : sSpecial ≠ sThreads := by decide
  have h2 : sSpecial ≠ sMemGb := by decide
  have h3 : sSpecial ≠ sMemgb := by decide
  have h4 : sSpecial ≠ sVmemGb := by decide
  have h5 : sSpecial ≠ sVmemgb := by decide
  simp [toksSpecial, tEq, tComma, pResList, h1, h2, h3, h4, h5, Martian.Format.unquote_quoteString s hs]

theorem step_threads (t : Bytes) (ht : wfThreads t = true) (ts : List Tok) (acc : Res) :
    pResList (toksThreads (some t) ++ ts) acc = pResList ts { acc with threads := some t } := by
  have hr := readF32_threads t ht
  simp only [toksThreads]
  generalize tokThreads t = v at hr
  cases v <;> simp [tEq, tComma, pResList, hr] <;> simp [readF32] at hr

theorem step_volatile (b : Bool) (ts : List Tok) (acc : Res) :
    pResList (toksVolatile (some b) ++ ts) acc = pResList ts { acc with volatile := some b } := by
  have h1 : sVolatile ≠ sThreads := by decide
  have h2 : sVolatile ≠ sMemGb := by decide
  have h3 : sVolatile ≠ sMemgb := by decide
  have h4 : sVolatile ≠ sVmemGb := by decide
  have h5 : sVolatile ≠ sVmemgb := by decide
  have h6 : sVolatile ≠ sSpecial := by decide
  cases b <;> simp [toksVolatile, tEq, tComma, pResList, h1, h2, h3, h4, h5, h6]

/-- what an entry list does to the accumulated `Resources` -/
def setMem (a : Option Int) (acc : Res) : Res :=
  match a with | some mb => { acc with mem := some mb } | none => acc
def setSpecial (a : Option Bytes) (acc : Res) : Res :=
  match a with | some s => { acc with special := some s } | none => acc
def setThreads (a : Option Bytes) (acc : Res) : Res :=
  match a with | some s => { acc with threads := some s } | none => acc
def setVmem (a : Option Int) (acc : Res) : Res :=
  match a with | some mb => { acc with vmem := some mb } | none => acc
def setVolatile (a : Option Bool) (acc : Res) : Res :=
  match a with | some b => { acc with volatile := some b } | none => acc

theorem wfRes_parts {r : Res} (h : wfRes r = true) :
    (∀ mb, r.mem = some mb → mb.natAbs < 2 ^ 63) ∧ (∀ mb, r.vmem = some mb → mb.natAbs < 2 ^ 63) ∧
    (∀ s, r.special = some s → Martian.ShellQuote.validUtf8 s = true) ∧
    (∀ t, r.threads = some t → wfThreads t = true) := by
  obtain ⟨a, b, c, d, e⟩ := r
  simp only [wfRes, Bool.and_eq_true] at h
  obtain ⟨⟨⟨h1, h2⟩, h3⟩, h4⟩ := h
  refine ⟨?_, ?_, ?_, ?_⟩
  · intro mb hm; simp only at hm; subst hm
    simp only [wfMB, gbRoundTrips, Bool.and_eq_true, decide_eq_true_eq] at h1
    exact h1.1
  · intro mb hm; simp only at hm; subst hm
    simp only [wfMB, gbRoundTrips, Bool.and_eq_true, decide_eq_true_eq] at h2
    exact h2.1
  · intro s hs; simp only at hs; subst hs; simpa using h3
  · intro t ht; simp only at ht; subst ht; simpa using h4

/-- **Token layer, resources.**  The entries of a well-formed `Resources`
followed by `)` read back as the same `Resources`; the reader stops after the
`)`, whatever follows. -/
theorem pResList_toks (r : Res) (hw : wfRes r = true) (rest : List Tok) :
    pResList (toksResBody r ++ tRP :: rest) {} = some (r, rest) := by
  obtain ⟨h1, h2, h3, h4⟩ := wfRes_parts hw
  obtain ⟨a, b, c, d, e⟩ := r
  simp only at h1 h2 h3 h4
  have e1 : ∀ ts acc, pResList (toksMem a ++ ts) acc = pResList ts (setMem a acc) := by
    intro ts acc
    cases a with
    | none => rfl
    | some mb => exact step_mem mb (h1 mb rfl) ts acc
  have e2 : ∀ ts acc, pResList (toksSpecial b ++ ts) acc = pResList ts (setSpecial b acc) := by
    intro ts acc
    cases b with
    | none => rfl
    | some s => exact step_special s (h3 s rfl) ts acc
  have e3 : ∀ ts acc, pResList (toksThreads c ++ ts) acc = pResList ts (setThreads c acc) := by
    intro ts acc
    cases c with
    | none => rfl
    | some t => exact step_threads t (h4 t rfl) ts acc
  have e4 : ∀ ts acc, pResList (toksVmem d ++ ts) acc = pResList ts (setVmem d acc) := by
    intro ts acc
    cases d with
    | none => rfl
    | some mb => exact step_vmem mb (h2 mb rfl) ts acc
  have e5 : ∀ ts acc, pResList (toksVolatile e ++ ts) acc = pResList ts (setVolatile e acc) := by
    intro ts acc
    cases e with
    | none => rfl
    | some v => exact step_volatile v ts acc
  simp only [toksResBody, List.append_assoc]
  rw [e1, e2, e3, e4, e5, pResList_end]
  cases a <;> cases b <;> cases c <;> cases d <;> cases e <;> rfl

theorem pResources_toks (r : Res) (hw : wfRes r = true) (rest : List Tok) :
    pResources (.id sUsing :: tLP :: (toksResBody r ++ tRP :: rest)) = some (some r, rest) := by
  simp [pResources, pResList_toks r hw rest]

/-- no `using` clause: nothing is consumed -/
def NotId (w : Bytes) : List Tok → Prop
  | .id x :: _ => x ≠ w
  | _ => True

theorem pResources_none (ts : List Tok) (h : NotId sUsing ts) : pResources ts = some (none, ts) := by
  unfold pResources
  split
  · rename_i w r
    simp only [NotId] at h
    simp [h]
  · rfl

/-! ## retain -/

theorem pRetainList_toks : ∀ (ids : List Bytes) (rest : List Tok),
    pRetainList (toksRetainBody ids ++ tRP :: rest) = some (ids, rest)
  | [], rest => by simp [toksRetainBody, pRetainList]
  | x :: ids, rest => by
    simp [toksRetainBody, pRetainList, pRetainList_toks ids rest]

theorem pRetain_toks (ids : List Bytes) (rest : List Tok) :
    pRetain (.id sRetain :: tLP :: (toksRetainBody ids ++ tRP :: rest)) = some (some ids, rest) := by
  simp [pRetain, pRetainList_toks ids rest]

theorem pRetain_none (ts : List Tok) (h : NotId sRetain ts) : pRetain ts = some (none, ts) := by
  unfold pRetain
  split
  · rename_i w r
    simp only [NotId] at h
    simp [h]
  · rfl

/-! ## the src line: `strings.Fields` of the joined command -/

theorem uSp2_sp (c : UInt8) : uSp2 c 0x20 = false := by simp [uSp2]
theorem uSp3_sp1 (c y : UInt8) : uSp3 c 0x20 y = false := by simp [uSp3]
theorem uSp3_sp2 (c x : UInt8) : uSp3 c x 0x20 = false := by
  have h : ((0x80 : UInt8) ≤ 0x20) = False := by decide
  simp [uSp3, h]

/-- the separator (or the end) after a field never completes a white-space rune -/
theorem uSpaceLen_sep (c : UInt8) (f t : Bytes) :
    uSpaceLen (c :: (f ++ 0x20 :: t)) = uSpaceLen (c :: f) := by
  match f with
  | [] =>
    cases t with
    | nil => simp [uSpaceLen, uSp2_sp]
    | cons y t => simp [uSpaceLen, uSp2_sp, uSp3_sp1]
  | [x] => simp [uSpaceLen, uSp3_sp2]
  | x :: y :: r => simp [uSpaceLen]

theorem flush_ne (cur : Bytes) (rest : List Bytes) (h : cur ≠ []) :
    flush cur rest = cur.reverse :: rest := by
  simp [flush, h]

/-- a field is taken whole -/
theorem fieldsUAux_field : ∀ (f : Bytes) (cur : Bytes) (t : Bytes),
    f.all (fun c => !isSpaceAscii c) = true → hasUSpace f = false → (t = [] ∨ ∃ t', t = 0x20 :: t') →
    fieldsUAux (f ++ t) 0 cur = fieldsUAux t 0 (f.reverse ++ cur)
  | [], cur, t, _, _, _ => by simp
  | c :: f, cur, t, h1, h2, ht => by
    simp only [List.all_cons, Bool.and_eq_true, Bool.not_eq_true'] at h1
    simp only [hasUSpace, Bool.or_eq_false_iff, bne_eq_false_iff_eq] at h2
    have hu : uSpaceLen (c :: (f ++ t)) = 0 := by
      rcases ht with rfl | ⟨t', rfl⟩
      · rw [List.append_nil]; exact h2.1
      · rw [uSpaceLen_sep]; exact h2.1
    have ih := fieldsUAux_field f (c :: cur) t h1.2 h2.2 ht
    rw [List.cons_append, fieldsUAux]
    simp only [h1.1, Bool.false_eq_true, ↓reduceIte, hu, bne_self_eq_false, ih,
      List.reverse_cons, List.append_assoc, List.cons_append, List.nil_append]

theorem wfField_parts {f : Bytes} (h : wfField f = true) :
    f ≠ [] ∧ f.all (fun c => !isSpaceAscii c) = true ∧ hasUSpace f = false := by
  simp only [wfField, Bool.and_eq_true, bne_iff_ne, ne_eq, Bool.not_eq_true'] at h
  exact ⟨h.1.1, h.1.2, h.2⟩

/-- **`strings.Fields` inverts `strings.Join(·, " ")`** on fields without white space -/
theorem fieldsU_joinSp : ∀ (f : Bytes) (fs : List Bytes), wfField f = true → fs.all wfField = true →
    fieldsU (joinSp (f :: fs)) = f :: fs
  | f, [], hf, _ => by
    obtain ⟨h0, h1, h2⟩ := wfField_parts hf
    have := fieldsUAux_field f [] [] h1 h2 (Or.inl rfl)
    simp only [List.append_nil] at this
    simp only [fieldsU, joinSp, this, fieldsUAux]
    rw [flush_ne _ _ (by simpa using h0)]
    simp
  | f, g :: gs, hf, hfs => by
    obtain ⟨h0, h1, h2⟩ := wfField_parts hf
    simp only [List.all_cons, Bool.and_eq_true] at hfs
    have ih := fieldsU_joinSp g gs hfs.1 hfs.2
    have := fieldsUAux_field f [] (0x20 :: joinSp (g :: gs)) h1 h2 (Or.inr ⟨_, rfl⟩)
    simp only [List.append_nil] at this
    have hsp : isSpaceAscii 0x20 = true := by decide
    simp only [fieldsU, joinSp, this]
    rw [fieldsUAux]
    · simp only [hsp, ↓reduceIte]
      rw [flush_ne _ _ (by simpa using h0)]
      simp only [List.reverse_reverse]
      exact congrArg _ ih
    all_goals simp

theorem readLang_langTok (l : Lang) : readLang (langTok l) = some l := by
  cases l <;> decide

theorem readCmd_quote (path : Bytes) (args : List Bytes) (hw : wfSrc path args = true) :
    readCmd (quoteString (joinSp (path :: args))) = some (path, args) := by
  simp only [wfSrc, Bool.and_eq_true] at hw
  simp only [readCmd, Martian.Format.unquote_quoteString _ hw.2,
    fieldsU_joinSp path args hw.1.1 hw.1.2]

/-- **Token layer, src line.** -/
theorem pSrc_toks (lang : Lang) (path : Bytes) (args : List Bytes) (hw : wfSrc path args = true)
    (rest : List Tok) :
    pSrc (toksSrc lang path args ++ rest) = some ((lang, path, args), rest) := by
  simp [toksSrc, pSrc, readLang_langTok, readCmd_quote path args hw]

/-! ## the clauses together -/

/-- **Token layer, both clauses.**  What follows must not itself start a
`using` or `retain` clause. -/
theorem pTail_toks (res : Option Res) (ret : Option (List Bytes))
    (hw : (match res with | some r => wfRes r | none => true) = true) (rest : List Tok)
    (h1 : NotId sUsing rest) (h2 : NotId sRetain rest) :
    pTail (toksTail res ret ++ rest) = some ((res, ret), rest) := by
  have hru : sRetain ≠ sUsing := by decide
  cases res with
  | none =>
    cases ret with
    | none =>
      simp only [toksTail, List.nil_append, List.cons_append, pTail]
      rw [pResources_none rest h1]
      simp only
      rw [pRetain_none rest h2]
    | some ids =>
      simp only [toksTail, List.nil_append, toksRetain, List.cons_append, List.append_assoc, pTail]
      rw [pResources_none _ (by simp only [NotId]; exact hru)]
      simp only
      rw [pRetain_toks ids rest]
  | some r =>
    simp only at hw
    cases ret with
    | none =>
      simp only [toksTail, toksRes, List.append_nil, List.cons_append, List.append_assoc, pTail,
        List.nil_append]
      rw [pResources_toks r hw rest]
      simp only
      rw [pRetain_none rest h2]
    | some ids =>
      simp only [toksTail, toksRes, toksRetain, List.cons_append, List.append_assoc, pTail,
        List.nil_append]
      rw [pResources_toks r hw]
      simp only
      rw [pRetain_toks ids rest]

theorem pStage0_toks (s : Stage0) (hw : wfStage0 s = true) : pStage0 (toksStage0 s) = some s := by
  obtain ⟨id, lang, path, args, res, ret⟩ := s
  simp only [wfStage0, Bool.and_eq_true] at hw
  have h := pTail_toks res ret hw.1.2 [] trivial trivial
  rw [List.append_nil] at h
  simp only [toksStage0, pStage0, ↓reduceIte, pSrc_toks lang path args hw.1.1.2, h]

end Martian.FormatRes
