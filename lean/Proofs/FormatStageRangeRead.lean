import Proofs.FormatDeclRangeRead

/-!
C09, accepted stage declarations: the RANGE of the readers of `Martian.FormatRes`
and `Martian.FormatStage`.

* `fieldsU_range`: every field `strings.Fields` returns is a `wfField` (not
  empty, no ASCII or Unicode white space), whatever the bytes of the string.
* `pSrc_range`, `pResList_range`, `pResources_range`, `pRetain_range`,
  `pTail_range`, `pSplit_range`, `pStageBody_range`, `pStage_range`: on tokens in
  the range of the tokenizer the readers return values in `stageRaw`.
* `parseStage_range`: whatever `parseStage` returns for ANY source text satisfies
  `stageRaw` (no exception hypothesis).

Core Lean only.
-/

namespace Martian.FormatRes
open Martian.Lexer (Bytes unquoteBytes isSpaceAscii parseInt parseFloat numTok)
open Martian.FormatExp
open Martian.FormatDecl (AllOK allOK_cons allOK_tail)
open Martian.FormatStage (threadsTokOK resRaw)

/-! ## `strings.Fields` -/

/-- the accumulator `cur` (reversed) holds bytes that are no ASCII white space and at none of
which a Unicode white-space rune starts, given that the text goes on with `s` -/
def goodAcc : Bytes → Bytes → Prop
  | [], _ => True
  | c :: cur, s => isSpaceAscii c = false ∧ uSpaceLen (c :: s) = 0 ∧ goodAcc cur (c :: s)

theorem uSpaceLen_prefix : ∀ (b s : Bytes), uSpaceLen (b ++ s) = 0 → uSpaceLen b = 0
  | [], _, _ => rfl
  | [_], _, _ => rfl
  | [c, x], s, h => by
    cases s with
    | nil => exact h
    | cons y r =>
      simp only [List.cons_append, List.nil_append, uSpaceLen] at h ⊢
      split at h
      · cases h
      · rename_i h2; simp [h2]
  | c :: x :: y :: r, s, h => by
    simpa [uSpaceLen] using h

theorem goodAcc_all : ∀ (cur s : Bytes), goodAcc cur s → cur.all (fun c => !isSpaceAscii c) = true
  | [], _, _ => rfl
  | c :: cur, s, h => by
    simp only [List.all_cons, Bool.and_eq_true]
    exact ⟨by simp [h.1], goodAcc_all cur (c :: s) h.2.2⟩

theorem goodAcc_noU : ∀ (cur s b t : Bytes), goodAcc cur s → s = b ++ t → hasUSpace b = false →
    hasUSpace (cur.reverse ++ b) = false
  | [], _, b, _, _, _, hb => by simpa using hb
  | c :: cur, s, b, t, h, hs, hb => by
    rw [List.reverse_cons, List.append_assoc]
    refine goodAcc_noU cur (c :: s) (c :: b) t h.2.2 (by rw [hs]; rfl) ?_
    have h0 : uSpaceLen (c :: b) = 0 := by
      apply uSpaceLen_prefix (c :: b) t
      rw [List.cons_append, ← hs]; exact h.2.1
    simp [hasUSpace, h0, hb]

theorem goodAcc_wfField (cur s : Bytes) (h : goodAcc cur s) (hne : cur ≠ []) : wfField cur.reverse = true := by
  have h1 := goodAcc_all cur s h
  have h2 := goodAcc_noU cur s [] s h rfl rfl
  simp only [List.append_nil] at h2
  have h3 : cur.reverse ≠ [] := by simpa using hne
  simp only [wfField, h2, Bool.not_false, Bool.and_true, Bool.and_eq_true, bne_iff_ne, ne_eq]
  exact ⟨h3, by rw [List.all_reverse]; exact h1⟩

theorem flush_range (cur s : Bytes) (rest : List Bytes) (h : goodAcc cur s)
    (hr : ∀ f ∈ rest, wfField f = true) : ∀ f ∈ flush cur rest, wfField f = true := by
  unfold flush
  split
  · exact hr
  · rename_i hne
    intro f hf
    rcases List.mem_cons.mp hf with rfl | hf
    · exact goodAcc_wfField cur s h hne
    · exact hr f hf

theorem fieldsUAux_range : ∀ (s : Bytes) (skip : Nat) (cur : Bytes), goodAcc cur s → (skip = 0 ∨ cur = []) →
    ∀ f ∈ fieldsUAux s skip cur, wfField f = true
  | [], skip, cur, h, _ => by
    rw [fieldsUAux]
    exact flush_range cur [] [] h (fun _ hf => by cases hf)
  | x :: r, skip + 1, cur, _, hc => by
    rw [fieldsUAux]
    rcases hc with hc | rfl
    · cases hc
    · exact fieldsUAux_range r skip [] trivial (Or.inr rfl)
  | c :: r, 0, cur, h, _ => by
    rw [fieldsUAux]
    split
    · exact flush_range cur (c :: r) _ h (fieldsUAux_range r 0 [] trivial (Or.inl rfl))
    · rename_i hsp
      split
      · exact flush_range cur (c :: r) _ h (fieldsUAux_range r _ [] trivial (Or.inr rfl))
      · rename_i hu
        refine fieldsUAux_range r 0 (c :: cur) ⟨by simpa using hsp, by simpa using hu, h⟩ (Or.inl rfl)

/-- **Range of `strings.Fields`**: every field is not empty and free of white space -/
theorem fieldsU_range (s : Bytes) : ∀ f ∈ fieldsU s, wfField f = true :=
  fieldsUAux_range s 0 [] trivial (Or.inl rfl)

theorem readCmd_range (raw p : Bytes) (a : List Bytes) (h : readCmd raw = some (p, a)) :
    wfField p = true ∧ a.all wfField = true := by
  unfold readCmd at h
  split at h
  · rename_i s _
    split at h
    · rename_i p' a' hf
      injection h with h; injection h with h1 h2; subst h1; subst h2
      have hr := fieldsU_range s
      rw [hf] at hr
      exact ⟨hr _ (List.mem_cons_self ..), List.all_eq_true.mpr fun f hfm => hr f (List.mem_cons_of_mem _ hfm)⟩
    · cases h
  · cases h

theorem pSrc_range (ts : List Tok) (lang : Lang) (path : Bytes) (args : List Bytes) (rest : List Tok)
    (hts : AllOK ts) (h : pSrc ts = some ((lang, path, args), rest)) :
    wfField path = true ∧ args.all wfField = true ∧ AllOK rest := by
  unfold pSrc at h
  split at h
  · rename_i w l raw r
    split at h
    · split at h
      · rename_i lg p a _ hc
        injection h with h; injection h with h1 h2
        injection h1 with _ h3; injection h3 with h4 h5
        subst h2; subst h4; subst h5
        have hr := readCmd_range raw p a hc
        exact ⟨hr.1, hr.2, allOK_tail (allOK_tail (allOK_tail (allOK_tail hts)))⟩
      · cases h
    · cases h
  · cases h

/-! ## resources -/

theorem readF32_range (v : Tok) (t : Bytes) (hv : tokOK v = true) (h : readF32 v = some t) :
    threadsTokOK t = true := by
  unfold readF32 at h
  split at h
  · split at h
    · rename_i raw hp
      injection h with h; subst h
      simp only [tokOK] at hv
      simp [threadsTokOK, hv, hp]
    · cases h
  · split at h
    · rename_i raw hp
      injection h with h; subst h
      simp only [tokOK] at hv
      simp [threadsTokOK, hv, hp]
    · cases h
  · cases h

theorem pResList_range : ∀ (n : Nat) (ts : List Tok) (acc r : Res) (rest : List Tok), ts.length ≤ n →
    AllOK ts → resRaw acc = true → pResList ts acc = some (r, rest) → resRaw r = true ∧ AllOK rest
  | 0, ts, acc, r, rest, hl, hts, hacc, h => by
    cases ts with
    | nil => simp [pResList] at h
    | cons _ _ => simp at hl
  | n + 1, ts, acc, r, rest, hl, hts, hacc, h => by
    unfold pResList at h
    split at h
    · injection h with h; injection h with h1 h2; subst h1; subst h2
      exact ⟨hacc, allOK_tail hts⟩
    · rename_i k v r'
      have h4 : AllOK r' := allOK_tail (allOK_tail (allOK_tail (allOK_tail hts)))
      have hv : tokOK v = true := (allOK_cons (allOK_tail (allOK_tail hts))).1
      have hlen : r'.length ≤ n := by simp only [List.length_cons] at hl; omega
      split at h
      · split at h
        · rename_i t ht
          exact pResList_range n r' _ r rest hlen h4
            (by simpa [resRaw] using readF32_range v t hv ht) h
        · cases h
      · split at h
        · split at h
          · exact pResList_range n r' _ r rest hlen h4 (by simpa [resRaw] using hacc) h
          · cases h
        · split at h
          · split at h
            · exact pResList_range n r' _ r rest hlen h4 (by simpa [resRaw] using hacc) h
            · cases h
          · split at h
            · split at h
              · split at h
                · exact pResList_range n r' _ r rest hlen h4 (by simpa [resRaw] using hacc) h
                · cases h
              · cases h
            · split at h
              · split at h
                · split at h
                  · exact pResList_range n r' _ r rest hlen h4 (by simpa [resRaw] using hacc) h
                  · cases h
                · exact pResList_range n r' _ r rest hlen h4 (by simpa [resRaw] using hacc) h
                · cases h
              · cases h
    · cases h

theorem pResources_range (ts : List Tok) (res : Option Res) (rest : List Tok) (hts : AllOK ts)
    (h : pResources ts = some (res, rest)) :
    (∀ r, res = some r → resRaw r = true) ∧ AllOK rest := by
  unfold pResources at h
  split at h
  · rename_i w ts'
    split at h
    · split at h
      · rename_i r'
        cases hq : pResList r' {} with
        | none => simp [hq] at h
        | some q =>
          simp only [hq, Option.map_some, Option.some.injEq, Prod.mk.injEq] at h
          obtain ⟨rfl, rfl⟩ := h
          have ih := pResList_range _ r' {} q.1 q.2 (Nat.le_refl _) (allOK_tail (allOK_tail hts)) rfl hq
          exact ⟨fun r hr => (by injection hr with hr; subst hr; exact ih.1), ih.2⟩
      · cases h
    · injection h with h; injection h with h1 h2; subst h1; subst h2
      exact ⟨fun _ hr => (by cases hr), hts⟩
  · injection h with h; injection h with h1 h2; subst h1; subst h2
    exact ⟨fun _ hr => (by cases hr), hts⟩

/-! ## retain -/

theorem pRetainList_range : ∀ (n : Nat) (ts : List Tok) (ids : List Bytes) (rest : List Tok), ts.length ≤ n →
    AllOK ts → pRetainList ts = some (ids, rest) → wfRetain ids = true ∧ AllOK rest
  | 0, ts, ids, rest, hl, hts, h => by
    cases ts with
    | nil => simp [pRetainList] at h
    | cons _ _ => simp at hl
  | n + 1, ts, ids, rest, hl, hts, h => by
    unfold pRetainList at h
    split at h
    · injection h with h; injection h with h1 h2; subst h1; subst h2
      exact ⟨rfl, allOK_tail hts⟩
    · rename_i x r
      cases hq : pRetainList r with
      | none => simp [hq] at h
      | some q =>
        simp only [hq, Option.map_some, Option.some.injEq, Prod.mk.injEq] at h
        obtain ⟨rfl, rfl⟩ := h
        have hx : isIdent x = true := by simpa [tokOK] using (allOK_cons hts).1
        have ih := pRetainList_range n r q.1 q.2 (by simp only [List.length_cons] at hl; omega)
          (allOK_tail (allOK_tail hts)) hq
        refine ⟨?_, ih.2⟩
        have := ih.1
        simp only [wfRetain, List.all_cons, hx, Bool.true_and] at this ⊢
        exact this
    · cases h

theorem pRetain_range (ts : List Tok) (ret : Option (List Bytes)) (rest : List Tok) (hts : AllOK ts)
    (h : pRetain ts = some (ret, rest)) :
    (∀ ids, ret = some ids → wfRetain ids = true) ∧ AllOK rest := by
  unfold pRetain at h
  split at h
  · rename_i w ts'
    split at h
    · split at h
      · rename_i r'
        cases hq : pRetainList r' with
        | none => simp [hq] at h
        | some q =>
          simp only [hq, Option.map_some, Option.some.injEq, Prod.mk.injEq] at h
          obtain ⟨rfl, rfl⟩ := h
          have ih := pRetainList_range _ r' q.1 q.2 (Nat.le_refl _) (allOK_tail (allOK_tail hts)) hq
          exact ⟨fun r hr => (by injection hr with hr; subst hr; exact ih.1), ih.2⟩
      · cases h
    · injection h with h; injection h with h1 h2; subst h1; subst h2
      exact ⟨fun _ hr => (by cases hr), hts⟩
  · injection h with h; injection h with h1 h2; subst h1; subst h2
    exact ⟨fun _ hr => (by cases hr), hts⟩

theorem pTail_range (ts : List Tok) (res : Option Res) (ret : Option (List Bytes)) (rest : List Tok)
    (hts : AllOK ts) (h : pTail ts = some ((res, ret), rest)) :
    (∀ r, res = some r → resRaw r = true) ∧
    (∀ ids, ret = some ids → wfRetain ids = true) ∧ AllOK rest := by
  unfold pTail at h
  split at h
  · rename_i ts'
    split at h
    · rename_i res' ts1 h1
      have ⟨hr1, ht1⟩ := pResources_range ts' res' ts1 (allOK_tail hts) h1
      split at h
      · rename_i ret' ts2 h2
        have ⟨hr2, ht2⟩ := pRetain_range ts1 ret' ts2 ht1 h2
        injection h with h; injection h with h3 h4
        injection h3 with h5 h6
        subst h4; subst h5; subst h6
        exact ⟨hr1, hr2, ht2⟩
      · cases h
    · cases h
  · cases h

end Martian.FormatRes

namespace Martian.FormatStage
open Martian.Lexer (Bytes)
open Martian.FormatExp
open Martian.FormatDecl (Param AllOK allOK_cons allOK_tail pInParams pOutParams paramRaw pInParams_range
  pOutParams_range)
open Martian.FormatRes (Lang Res pSrc wfField wfRetain)

theorem skipUsing_range (ts : List Tok) (h : AllOK ts) : AllOK (skipUsing ts) := by
  unfold skipUsing
  split
  · split
    · exact allOK_tail h
    · exact h
  · exact h

theorem pChunk_range (f : Nat) (ts : List Tok) (ci co : List Param) (rest : List Tok) (hts : AllOK ts)
    (h : pChunk f ts = some ((ci, co), rest)) :
    ci.all paramRaw = true ∧ ci.all isIn = true ∧ co.all paramRaw = true ∧ co.all isOut = true ∧
      AllOK rest := by
  unfold pChunk at h
  split at h
  · rename_i c r
    split at h
    · split at h
      · rename_i ci' r1 h1
        have ⟨a1, a2, a3⟩ := pInParams_range f r ci' r1 (allOK_tail hts) h1
        split at h
        · rename_i co' r2 h2
          have ⟨b1, b2, b3⟩ := pOutParams_range f r1 co' r2 a3 h2
          injection h with h; injection h with h3 h4
          injection h3 with h5 h6
          subst h4; subst h5; subst h6
          exact ⟨a1, a2, b1, b2, b3⟩
        · cases h
      · cases h
    · cases h
  · cases h

theorem pSplit_range (f : Nat) (ts : List Tok) (sp : Bool) (ci co : List Param) (rest : List Tok)
    (hts : AllOK ts) (h : pSplit f ts = some ((sp, ci, co), rest)) :
    ci.all paramRaw = true ∧ ci.all isIn = true ∧ co.all paramRaw = true ∧ co.all isOut = true ∧
      (sp || (ci.isEmpty && co.isEmpty)) = true ∧ AllOK rest := by
  unfold pSplit at h
  split at h
  · rename_i c w ts'
    split at h
    · split at h
      · rename_i ci' co' r hc
        have hr := pChunk_range f _ ci' co' r (skipUsing_range ts' (allOK_tail (allOK_tail hts))) hc
        injection h with h; injection h with h3 h4
        injection h3 with h5 h6; injection h6 with h7 h8
        subst h4; subst h5; subst h7; subst h8
        exact ⟨hr.1, hr.2.1, hr.2.2.1, hr.2.2.2.1, rfl, hr.2.2.2.2⟩
      · cases h
    · injection h with h; injection h with h3 h4
      injection h3 with h5 h6; injection h6 with h7 h8
      subst h4; subst h5; subst h7; subst h8
      exact ⟨rfl, rfl, rfl, rfl, rfl, hts⟩
  · injection h with h; injection h with h3 h4
    injection h3 with h5 h6; injection h6 with h7 h8
    subst h4; subst h5; subst h7; subst h8
    exact ⟨rfl, rfl, rfl, rfl, rfl, hts⟩

theorem pStageBody_range (f : Nat) (name : Bytes) (ts : List Tok) (s : Stage) (rest : List Tok)
    (hn : isIdent name = true) (hts : AllOK ts) (h : pStageBody f name ts = some (s, rest)) :
    stageRaw s = true ∧ AllOK rest := by
  unfold pStageBody at h
  split at h
  · rename_i ins r1 h1
    have ⟨a1, a2, a3⟩ := pInParams_range f ts ins r1 hts h1
    split at h
    · rename_i outs r2 h2
      have ⟨b1, b2, b3⟩ := pOutParams_range f r1 outs r2 a3 h2
      split at h
      · rename_i lang path args r3 h3
        have ⟨c1, c2, c3⟩ := Martian.FormatRes.pSrc_range r2 lang path args r3 b3 h3
        split at h
        · rename_i sp ci co r4 h4
          have ⟨d1, d2, d3, d4, d5, d6⟩ := pSplit_range f r3 sp ci co r4 c3 h4
          split at h
          · rename_i res ret rest' h5
            have ⟨e1, e2, e3⟩ := Martian.FormatRes.pTail_range r4 res ret rest' d6 h5
            injection h with h; injection h with h6 h7
            subst h6; subst h7
            refine ⟨?_, e3⟩
            simp only [stageRaw, Bool.and_eq_true]
            refine ⟨⟨⟨⟨⟨⟨⟨⟨⟨⟨⟨⟨⟨hn, a1⟩, a2⟩, b1⟩, b2⟩, d1⟩, d2⟩, d3⟩, d4⟩, ?_⟩, c1⟩, c2⟩, ?_⟩, ?_⟩
            · exact d5
            · cases res with
              | none => rfl
              | some r => exact e1 r rfl
            · cases ret with
              | none => rfl
              | some r => exact e2 r rfl
          · cases h
        · cases h
      · cases h
    · cases h
  · cases h

theorem pStage_range (ts : List Tok) (s : Stage) (rest : List Tok) (hts : AllOK ts)
    (h : pStage ts = some (s, rest)) : stageRaw s = true ∧ AllOK rest := by
  unfold pStage at h
  split at h
  · rename_i w name c r
    split at h
    · have hn : isIdent name = true := by simpa [tokOK] using (allOK_cons (allOK_tail hts)).1
      exact pStageBody_range _ name r s rest hn (allOK_tail (allOK_tail (allOK_tail hts))) h
    · cases h
  · cases h

/-- **Range of the stage reader**: whatever `parseStage` returns for ANY source text is in
`stageRaw` (no exception hypothesis) -/
theorem parseStage_range (src : Bytes) (s : Stage) (h : parseStage src = some s) : stageRaw s = true := by
  unfold parseStage at h
  cases hl : lexAll src with
  | none => simp [hl] at h
  | some ts =>
    simp only [hl, Option.bind_some] at h
    have hts : AllOK ts := List.all_eq_true.mpr (range_lexAll src ts hl)
    unfold pStageAll at h
    split at h
    · rename_i s' hp
      injection h with h; subst h
      exact (pStage_range ts _ [] hts hp).1
    · cases h

end Martian.FormatStage
