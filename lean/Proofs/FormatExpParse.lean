/-
C09: reading back the token sequence of a printed value expression:
`pExp f (toks e ++ rest) = some (norm e, rest)`.
-/
import Proofs.FormatExpToks
import Proofs.FormatExpNum
import Proofs.FormatQuote

namespace Martian.FormatExp
open Martian.Lexer (Bytes parseInt unquoteBytes)
open Martian.Format (quoteString)

/-! ## fuel -/

mutual
def cost : Exp → Nat
  | .arr xs => 2 + costL xs
  | .map kvs => 2 + costKV kvs
  | .struct kvs => 2 + costKV kvs
  | .ref _ _ out => out.length + 2
  | _ => 1
def costL : List Exp → Nat
  | [] => 0
  | x :: r => 1 + cost x + costL r
def costKV : List (Bytes × Exp) → Nat
  | [] => 0
  | (_, v) :: r => 1 + cost v + costKV r
end

theorem cost_pos (e : Exp) : 1 ≤ cost e := by
  cases e <;> simp [cost] <;> omega

/-- what follows an expression is not a dot (so a reference ends there) -/
def NoDot (rest : List Tok) : Prop := ∀ r, rest ≠ tDot :: r

theorem noDot_comma (r : List Tok) : NoDot (tComma :: r) := by
  intro r' h; cases h
theorem noDot_rb (r : List Tok) : NoDot (tRB :: r) := by
  intro r' h; cases h
theorem noDot_nil : NoDot [] := by
  intro r' h; cases h

/-! ## afterItem -/

theorem afterItem_close (c : UInt8) (r : List Tok) (h : c ≠ 0x2C) :
    afterItem c (.punct c :: r) = (false, .punct c :: r) := by
  unfold afterItem
  split
  · rename_i heq; cases heq; exact absurd rfl h
  · rename_i heq; cases heq; exact absurd rfl h
  · rfl

theorem afterItem_last (c : UInt8) (r : List Tok) :
    afterItem c (tComma :: .punct c :: r) = (false, .punct c :: r) := by
  simp [afterItem]

/-- a token which does not close a bracket -/
def Opens (t : Tok) : Prop := ∀ c, t = .punct c → c = 0x5B ∨ c = 0x7B

theorem afterItem_more (c : UInt8) (t : Tok) (r : List Tok) (hc : c = 0x5D ∨ c = 0x7D) (ht : Opens t) :
    afterItem c (tComma :: t :: r) = (true, t :: r) := by
  cases t with
  | punct c' =>
    have := ht c' rfl
    have hne : (c' == c) = false := by
      rcases hc with rfl | rfl <;> rcases this with rfl | rfl <;> decide
    simp [afterItem, hne]
  | _ => simp [afterItem]

/-! ## the first token of a printed expression -/

theorem toks_head (e : Exp) : ∃ t r, toks e = t :: r ∧ Opens t := by
  have hLB : Opens tLB := by intro c h; injection h with h; exact Or.inl h.symm
  have hLC : Opens tLC := by intro c h; injection h with h; exact Or.inr h.symm
  cases e with
  | null => exact ⟨.kNull, [], by rw [toks], by intro c h; cases h⟩
  | nilArr => exact ⟨.kNull, [], by rw [toks], by intro c h; cases h⟩
  | bool b => exact ⟨if b then .kTrue else .kFalse, [], by rw [toks], by intro c h; cases b <;> cases h⟩
  | int i => exact ⟨.int (fmtInt i), [], by rw [toks], by intro c h; cases h⟩
  | float t => exact ⟨if isFloatTok t then .float t else .int t, [], by rw [toks],
      by intro c h; split at h <;> cases h⟩
  | str s => exact ⟨.str (quoteString s), [], by rw [toks], by intro c h; cases h⟩
  | arr xs =>
    match xs with
    | [] => exact ⟨tLB, _, by rw [toks], hLB⟩
    | [x] => by_cases hs : single x = true
             · exact ⟨tLB, toks x ++ [tRB], by rw [toks]; simp only [hs, ↓reduceIte], hLB⟩
             · exact ⟨tLB, toks x ++ [tComma, tRB], by rw [toks]; simp only [hs]; rfl, hLB⟩
    | x :: y :: r => exact ⟨tLB, _, by rw [toks], hLB⟩
  | map kvs =>
    match kvs with
    | [] => exact ⟨tLC, _, by rw [toks], hLC⟩
    | kv :: r => exact ⟨tLC, _, by rw [toks], hLC⟩
  | struct kvs =>
    match kvs with
    | [] => exact ⟨tLC, _, by rw [toks], hLC⟩
    | kv :: r => exact ⟨tLC, _, by rw [toks], hLC⟩
  | ref self id out =>
    simp only [toks, toksRef]
    split
    · exact ⟨_, _, rfl, by intro c h; cases h⟩
    · split
      · exact ⟨_, _, rfl, by intro c h; cases h⟩
      · exact ⟨_, _, rfl, by intro c h; cases h⟩


/-! ## building the map from entries printed in ascending key order -/

theorem bytesLt_irrefl : ∀ a : Bytes, bytesLt a a = false := by
  intro a
  induction a with
  | nil => rfl
  | cons x r ih =>
    have : ¬ x < x := by simp [UInt8.lt_iff_toNat_lt]
    simp [bytesLt, this, ih]

theorem bytesLt_asymm : ∀ a b : Bytes, bytesLt a b = true → bytesLt b a = false := by
  intro a
  induction a with
  | nil => intro b _; cases b <;> rfl
  | cons x r ih =>
    intro b h
    cases b with
    | nil => simp [bytesLt] at h
    | cons y s =>
      simp only [bytesLt, Bool.or_eq_true, decide_eq_true_eq, Bool.and_eq_true, beq_iff_eq] at h
      rcases h with h | ⟨rfl, h⟩
      · have h1 : ¬ y < x := by rw [UInt8.lt_iff_toNat_lt] at h ⊢; omega
        have h2 : (y == x) = false := by
          apply Bool.eq_false_iff.mpr; intro e
          have := eq_of_beq e; subst this
          rw [UInt8.lt_iff_toNat_lt] at h; omega
        simp [bytesLt, h1, h2]
      · have h1 : ¬ x < x := by simp [UInt8.lt_iff_toNat_lt]
        simp [bytesLt, h1, ih s h]

theorem insertKV_last (k : Bytes) (v : Exp) : ∀ m : List (Bytes × Exp),
    (∀ kv ∈ m, bytesLt kv.1 k = true) → insertKV k v m = m ++ [(k, v)] := by
  intro m
  induction m with
  | nil => intro _; rfl
  | cons kv r ih =>
    intro h
    obtain ⟨k', v'⟩ := kv
    have hlt : bytesLt k' k = true := h (k', v') (by simp)
    have h1 : bytesLt k k' = false := bytesLt_asymm _ _ hlt
    have h2 : k ≠ k' := by
      intro e; subst e; rw [bytesLt_irrefl] at hlt; cases hlt
    simp only [insertKV, h1, Bool.false_eq_true, ↓reduceIte, h2, List.cons_append]
    rw [ih (fun kv hkv => h kv (by simp [hkv]))]

theorem foldl_insert (kvs : List (Bytes × Exp)) : ∀ acc : List (Bytes × Exp),
    (∀ a ∈ acc, ∀ b ∈ kvs, bytesLt a.1 b.1 = true) → sortedKeys kvs = true →
    kvs.foldl (fun m kv => insertKV kv.1 kv.2 m) acc = acc ++ kvs := by
  induction kvs with
  | nil => intro acc _ _; simp
  | cons kv r ih =>
    intro acc hacc hs
    obtain ⟨k, v⟩ := kv
    simp only [sortedKeys, Bool.and_eq_true, List.all_eq_true] at hs
    simp only [List.foldl_cons]
    rw [insertKV_last k v acc (fun a ha => hacc a ha (k, v) (by simp))]
    rw [ih (acc ++ [(k, v)]) ?_ hs.2]
    · simp
    · intro a ha b hb
      simp only [List.mem_append, List.mem_singleton] at ha
      rcases ha with ha | rfl
      · exact hacc a ha b (by simp [hb])
      · exact hs.1 b hb

theorem mkMap_sorted (kvs : List (Bytes × Exp)) (h : sortedKeys kvs = true) : mkMap kvs = kvs := by
  have := foldl_insert kvs [] (by intro a ha; cases ha) h
  simpa [mkMap] using this

theorem sortedKeys_normKV : ∀ kvs : List (Bytes × Exp), sortedKeys (normKV kvs) = sortedKeys kvs := by
  have hall : ∀ (k : Bytes) (kvs : List (Bytes × Exp)),
      (normKV kvs).all (fun kv => bytesLt k kv.1) = kvs.all (fun kv => bytesLt k kv.1) := by
    intro k kvs
    induction kvs with
    | nil => simp [normKV]
    | cons kv r ih => obtain ⟨k', v'⟩ := kv; simp [normKV, ih]
  intro kvs
  induction kvs with
  | nil => simp [normKV]
  | cons kv r ih => obtain ⟨k', v'⟩ := kv; simp [normKV, sortedKeys, hall, ih]

/-! ## references -/

theorem pDots_toks : ∀ (out : List Bytes) (f : Nat) (rest : List Tok), out.length < f → NoDot rest →
    pDots f (toksDots out ++ rest) = some (out, rest) := by
  intro out
  induction out with
  | nil =>
    intro f rest hf hr
    obtain ⟨f', rfl⟩ : ∃ f', f = f' + 1 := ⟨f - 1, by simp at hf; omega⟩
    simp only [toksDots, List.nil_append]
    cases rest with
    | nil => simp [pDots]
    | cons t r =>
      cases t with
      | punct c =>
        have hc : c ≠ 0x2E := by intro e; subst e; exact hr r rfl
        rw [pDots]
        · intro x r' h; injection h with h1 _; injection h1 with h1; exact hc h1
        · intro tl h; injection h with h1 _; injection h1 with h1; exact hc h1
      | _ => simp [pDots]
  | cons x r ih =>
    intro f rest hf hr
    obtain ⟨f', rfl⟩ : ∃ f', f = f' + 1 := ⟨f - 1, by simp at hf; omega⟩
    simp only [toksDots, List.cons_append]
    rw [pDots]
    rw [ih f' rest (by simp at hf; omega) hr]
    rfl


theorem pRefCall_dots (f : Nat) (x : Bytes) (ts : List Tok) (h : ∀ r', ts ≠ tDot :: .kDefault :: r') :
    pRefCall f x ts = (pDots f ts).map fun (xs, r') => (.ref false x xs, r') := by
  unfold pRefCall
  split
  · rename_i r; exact absurd rfl (h r)
  · rfl

theorem toksDots_noDefault (out : List Bytes) (rest : List Tok) (hr : NoDot rest) :
    ∀ r', toksDots out ++ rest ≠ tDot :: .kDefault :: r' := by
  intro r' h
  cases out with
  | nil => exact hr _ h
  | cons x r => simp [toksDots] at h

theorem pExp_ref (self : Bool) (id : Bytes) (out : List Bytes) (f : Nat) (rest : List Tok)
    (hw : ((!self && out == [sDefault]) || out.all isIdent) = true) (hf : out.length + 2 ≤ f) (hr : NoDot rest) :
    pExp f (toksRef self id out ++ rest) = some (.ref self id out, rest) := by
  obtain ⟨f', rfl⟩ : ∃ f', f = f' + 1 := ⟨f - 1, by omega⟩
  unfold toksRef
  cases self with
  | true =>
    simp only [↓reduceIte, List.cons_append]
    rw [pExp, pDots_toks out f' rest (by omega) hr]
    rfl
  | false =>
    simp only [Bool.false_eq_true, ↓reduceIte]
    by_cases hd : out = [sDefault]
    · subst hd
      simp only [↓reduceIte, List.cons_append, List.nil_append]
      rw [pExp]
      simp [pRefCall]
    · simp only [hd, ↓reduceIte, List.cons_append]
      rw [pExp, pRefCall_dots _ _ _ (toksDots_noDefault out rest hr), pDots_toks out f' rest (by omega) hr]
      rfl

/-! ## list wrappers -/

theorem pExp_arr_of_elems (f : Nat) (ts : List Tok) (xs : List Exp) (rest : List Tok)
    (hne : ∀ r', ts ≠ tRB :: r') (h : pElems f ts = some (xs, tRB :: rest)) :
    pExp (f + 1) (tLB :: ts) = some (.arr xs, rest) := by
  rw [pExp, h]
  · rfl
  · intro r' hr'; exact hne r' hr'

theorem pElems_one (f : Nat) (ts : List Tok) (e : Exp) (rest : List Tok)
    (h : pExp f ts = some (e, tRB :: rest)) : pElems (f + 1) ts = some ([e], tRB :: rest) := by
  rw [pElems, h]
  simp only [afterItem_close 0x5D rest (by decide)]

theorem pElems_last (f : Nat) (ts : List Tok) (e : Exp) (rest : List Tok)
    (h : pExp f ts = some (e, tComma :: tRB :: rest)) : pElems (f + 1) ts = some ([e], tRB :: rest) := by
  rw [pElems, h]
  simp only [afterItem_last]

theorem pElems_more (f : Nat) (ts : List Tok) (e : Exp) (t : Tok) (r : List Tok) (es : List Exp)
    (rest' : List Tok) (h : pExp f ts = some (e, tComma :: t :: r)) (ht : Opens t)
    (h2 : pElems f (t :: r) = some (es, rest')) : pElems (f + 1) ts = some (e :: es, rest') := by
  rw [pElems, h]
  simp only [afterItem_more 0x5D t r (Or.inl rfl) ht, h2, Option.map_some]


theorem opens_str (k : Bytes) : Opens (.str k) := by intro c h; cases h
theorem opens_id (k : Bytes) : Opens (.id k) := by intro c h; cases h

theorem pKVs_last (f : Nat) (k key : Bytes) (ts : List Tok) (e : Exp) (rest : List Tok)
    (hk : unquoteBytes k = some key) (h : pExp f ts = some (e, tComma :: tRC :: rest)) :
    pKVs (f + 1) (.str k :: tColon :: ts) = some ([(key, e)], tRC :: rest) := by
  rw [pKVs, hk, h]
  simp only [afterItem_last]

theorem pKVs_more (f : Nat) (k key : Bytes) (ts : List Tok) (e : Exp) (t : Tok) (r : List Tok)
    (es : List (Bytes × Exp)) (rest' : List Tok)
    (hk : unquoteBytes k = some key) (h : pExp f ts = some (e, tComma :: t :: r)) (ht : Opens t)
    (h2 : pKVs f (t :: r) = some (es, rest')) :
    pKVs (f + 1) (.str k :: tColon :: ts) = some ((key, e) :: es, rest') := by
  rw [pKVs, hk, h]
  simp only [afterItem_more 0x7D t r (Or.inr rfl) ht, h2, Option.map_some]

theorem pFields_last (f : Nat) (k : Bytes) (ts : List Tok) (e : Exp) (rest : List Tok)
    (h : pExp f ts = some (e, tComma :: tRC :: rest)) :
    pFields (f + 1) (.id k :: tColon :: ts) = some ([(k, e)], tRC :: rest) := by
  rw [pFields, h]
  simp only [afterItem_last]

theorem pFields_more (f : Nat) (k : Bytes) (ts : List Tok) (e : Exp) (t : Tok) (r : List Tok)
    (es : List (Bytes × Exp)) (rest' : List Tok)
    (h : pExp f ts = some (e, tComma :: t :: r)) (ht : Opens t)
    (h2 : pFields f (t :: r) = some (es, rest')) :
    pFields (f + 1) (.id k :: tColon :: ts) = some ((k, e) :: es, rest') := by
  rw [pFields, h]
  simp only [afterItem_more 0x7D t r (Or.inr rfl) ht, h2, Option.map_some]

theorem pExp_map_of_kvs (f : Nat) (k : Bytes) (ts : List Tok) (kvs : List (Bytes × Exp)) (rest : List Tok)
    (h : pKVs f (.str k :: ts) = some (kvs, tRC :: rest)) :
    pExp (f + 1) (tLC :: .str k :: ts) = some (.map (mkMap kvs), rest) := by
  rw [pExp, h]; rfl

theorem pExp_struct_of_fields (f : Nat) (k : Bytes) (ts : List Tok) (kvs : List (Bytes × Exp)) (rest : List Tok)
    (h : pFields f (.id k :: ts) = some (kvs, tRC :: rest)) :
    pExp (f + 1) (tLC :: .id k :: ts) = some (.struct (mkMap kvs), rest) := by
  rw [pExp, h]; rfl


/-! ## the main statement -/

theorem toks_not_rb (e : Exp) (tl : List Tok) : ∀ r', toks e ++ tl ≠ tRB :: r' := by
  intro r' h
  obtain ⟨t, r, ht, ho⟩ := toks_head e
  rw [ht] at h
  injection h with h1 _
  rcases ho _ h1 with h | h <;> cases h

theorem unquote_key (k : Bytes) (h : Martian.ShellQuote.validUtf8 k = true) :
    unquoteBytes (quoteString k) = some k := Martian.Format.unquote_quoteString k h

theorem pExp_toks_null (f : Nat) (rest : List Tok) (hf : 1 ≤ f) :
    pExp f (toks .null ++ rest) = some (norm .null, rest) := by
  obtain ⟨f', rfl⟩ : ∃ f', f = f' + 1 := ⟨f - 1, by omega⟩
  simp [toks, pExp, norm]
theorem pExp_toks_nilArr (f : Nat) (rest : List Tok) (hf : 1 ≤ f) :
    pExp f (toks .nilArr ++ rest) = some (norm .nilArr, rest) := by
  obtain ⟨f', rfl⟩ : ∃ f', f = f' + 1 := ⟨f - 1, by omega⟩
  simp [toks, pExp, norm]
theorem pExp_toks_bool (b : Bool) (f : Nat) (rest : List Tok) (hf : 1 ≤ f) :
    pExp f (toks (.bool b) ++ rest) = some (norm (.bool b), rest) := by
  obtain ⟨f', rfl⟩ : ∃ f', f = f' + 1 := ⟨f - 1, by omega⟩
  cases b <;> simp [toks, pExp, norm]
theorem pExp_toks_int (i : Int) (f : Nat) (rest : List Tok) (hw : wf (.int i) = true) (hf : 1 ≤ f) :
    pExp f (toks (.int i) ++ rest) = some (norm (.int i), rest) := by
  obtain ⟨f', rfl⟩ : ∃ f', f = f' + 1 := ⟨f - 1, by omega⟩
  have := (fmtInt_lex i (by simp only [wf] at hw; exact hw)).2
  simp only [toks, List.cons_append, List.nil_append]
  rw [pExp, this]
  rfl
theorem pExp_toks_float (t : Bytes) (f : Nat) (rest : List Tok) (hw : wf (.float t) = true) (hf : 1 ≤ f) :
    pExp f (toks (.float t) ++ rest) = some (norm (.float t), rest) := by
  obtain ⟨f', rfl⟩ : ∃ f', f = f' + 1 := ⟨f - 1, by omega⟩
  by_cases hft : isFloatTok t = true
  · simp only [toks, norm, hft, ↓reduceIte, List.cons_append, List.nil_append]
    rw [pExp]
  · simp only [wf, hft, Bool.false_or] at hw
    unfold isCanonInt at hw
    cases hp : parseInt t with
    | none => simp [hp] at hw
    | some i =>
      simp only [toks, norm, hft, Bool.false_eq_true, ↓reduceIte, List.cons_append, List.nil_append, hp]
      rw [pExp, hp]
      rfl
theorem pExp_toks_str (s : Bytes) (f : Nat) (rest : List Tok) (hw : wf (.str s) = true) (hf : 1 ≤ f) :
    pExp f (toks (.str s) ++ rest) = some (norm (.str s), rest) := by
  obtain ⟨f', rfl⟩ : ∃ f', f = f' + 1 := ⟨f - 1, by omega⟩
  have := unquote_key s (by simpa [wf] using hw)
  simp [toks, pExp, norm, this]
theorem pExp_toks_arr0 (f : Nat) (rest : List Tok) (hf : 1 ≤ f) :
    pExp f (toks (.arr []) ++ rest) = some (norm (.arr []), rest) := by
  obtain ⟨f', rfl⟩ : ∃ f', f = f' + 1 := ⟨f - 1, by omega⟩
  simp [toks, pExp, norm, normL]
theorem pExp_toks_map0 (f : Nat) (rest : List Tok) (hf : 1 ≤ f) :
    pExp f (toks (.map []) ++ rest) = some (norm (.map []), rest) := by
  obtain ⟨f', rfl⟩ : ∃ f', f = f' + 1 := ⟨f - 1, by omega⟩
  simp [toks, pExp, norm, normKV]
theorem pExp_toks_struct0 (f : Nat) (rest : List Tok) (hf : 1 ≤ f) :
    pExp f (toks (.struct []) ++ rest) = some (norm (.struct []), rest) := by
  obtain ⟨f', rfl⟩ : ∃ f', f = f' + 1 := ⟨f - 1, by omega⟩
  simp [toks, pExp, norm]
theorem pExp_toks_ref (self : Bool) (id : Bytes) (out : List Bytes) (f : Nat) (rest : List Tok)
    (hw : wf (.ref self id out) = true) (hf : cost (.ref self id out) ≤ f) (hr : NoDot rest) :
    pExp f (toks (.ref self id out) ++ rest) = some (norm (.ref self id out), rest) := by
  simp only [wf, Bool.and_eq_true] at hw
  simp only [cost] at hf
  simp only [toks, norm]
  exact pExp_ref self id out f rest hw.2 hf hr

mutual
theorem pExp_toks : ∀ (e : Exp) (f : Nat) (rest : List Tok), wf e = true → cost e ≤ f → NoDot rest →
    pExp f (toks e ++ rest) = some (norm e, rest)
  | .null, f, rest, _, hf, _ => pExp_toks_null f rest (by simpa [cost] using hf)
  | .nilArr, f, rest, _, hf, _ => pExp_toks_nilArr f rest (by simpa [cost] using hf)
  | .bool b, f, rest, _, hf, _ => pExp_toks_bool b f rest (by simpa [cost] using hf)
  | .int i, f, rest, hw, hf, _ => pExp_toks_int i f rest hw (by simpa [cost] using hf)
  | .float t, f, rest, hw, hf, _ => pExp_toks_float t f rest hw (by simpa [cost] using hf)
  | .str s, f, rest, hw, hf, _ => pExp_toks_str s f rest hw (by simpa [cost] using hf)
  | .ref self id out, f, rest, hw, hf, hr => pExp_toks_ref self id out f rest hw hf hr
  | .arr [], f, rest, _, hf, _ => pExp_toks_arr0 f rest (by simp [cost] at hf; omega)
  | .map [], f, rest, _, hf, _ => pExp_toks_map0 f rest (by simp [cost] at hf; omega)
  | .struct [], f, rest, _, hf, _ => pExp_toks_struct0 f rest (by simp [cost] at hf; omega)
  | .arr [x], f, rest, hw, hf, _ => by
    simp only [wf, wfL, Bool.and_true] at hw
    simp only [cost, costL] at hf
    obtain ⟨f', rfl⟩ : ∃ f', f = f' + 1 := ⟨f - 1, by omega⟩
    obtain ⟨f'', rfl⟩ : ∃ f'', f' = f'' + 1 := ⟨f' - 1, by omega⟩
    simp only [norm, normL]
    by_cases hs : single x = true
    · have hx := pExp_toks x f'' (tRB :: rest) hw (by omega) (noDot_rb rest)
      simp only [toks, hs, ↓reduceIte, List.cons_append, List.append_assoc, List.nil_append]
      exact pExp_arr_of_elems _ _ _ _ (toks_not_rb x _) (pElems_one _ _ _ _ hx)
    · have hx := pExp_toks x f'' (tComma :: tRB :: rest) hw (by omega) (noDot_comma _)
      simp only [toks, hs, Bool.false_eq_true, ↓reduceIte, List.cons_append, List.append_assoc, List.nil_append]
      exact pExp_arr_of_elems _ _ _ _ (toks_not_rb x _) (pElems_last _ _ _ _ hx)
  | .arr (x :: y :: r), f, rest, hw, hf, _ => by
    simp only [wf] at hw
    simp only [cost] at hf
    obtain ⟨f', rfl⟩ : ∃ f', f = f' + 1 := ⟨f - 1, by omega⟩
    have h := pElems_toks (x :: y :: r) f' rest (by simp) hw (by omega)
    simp only [toks, norm, List.cons_append, List.append_assoc, List.nil_append]
    refine pExp_arr_of_elems _ _ _ _ ?_ h
    simp only [toksElems, List.append_assoc]
    exact toks_not_rb x _
  | .map ((k, v) :: r), f, rest, hw, hf, _ => by
    simp only [wf, Bool.and_eq_true] at hw
    simp only [cost] at hf
    obtain ⟨f', rfl⟩ : ∃ f', f = f' + 1 := ⟨f - 1, by omega⟩
    have h := pKVs_toks ((k, v) :: r) f' rest (by simp) hw.2 (by omega)
    simp only [toks, norm, List.cons_append, List.append_assoc, List.nil_append]
    simp only [toksKVs, List.cons_append, List.append_assoc] at h ⊢
    rw [pExp_map_of_kvs _ _ _ _ _ h, mkMap_sorted _ (by rw [sortedKeys_normKV]; exact hw.1)]
  | .struct ((k, v) :: r), f, rest, hw, hf, _ => by
    simp only [wf, Bool.and_eq_true] at hw
    simp only [cost] at hf
    obtain ⟨f', rfl⟩ : ∃ f', f = f' + 1 := ⟨f - 1, by omega⟩
    have h := pFields_toks ((k, v) :: r) f' rest (by simp) hw.2 (by omega)
    simp only [toks, norm, List.cons_append, List.append_assoc, List.nil_append]
    simp only [toksFields, List.cons_append, List.append_assoc] at h ⊢
    rw [pExp_struct_of_fields _ _ _ _ _ h, mkMap_sorted _ (by rw [sortedKeys_normKV]; exact hw.1)]
theorem pElems_toks : ∀ (xs : List Exp) (f : Nat) (rest : List Tok), xs ≠ [] → wfL xs = true →
    costL xs ≤ f → pElems f (toksElems xs ++ tRB :: rest) = some (normL xs, tRB :: rest)
  | [], _, _, hne, _, _ => absurd rfl hne
  | [x], f, rest, _, hw, hf => by
    simp only [wfL, Bool.and_true] at hw
    simp only [costL] at hf
    obtain ⟨f', rfl⟩ : ∃ f', f = f' + 1 := ⟨f - 1, by omega⟩
    have hx := pExp_toks x f' (tComma :: tRB :: rest) hw (by omega) (noDot_comma _)
    simp only [toksElems, normL, List.append_assoc, List.cons_append, List.nil_append]
    exact pElems_last _ _ _ _ hx
  | x :: y :: r, f, rest, _, hw, hf => by
    simp only [wfL, Bool.and_eq_true] at hw
    simp only [costL] at hf
    obtain ⟨f', rfl⟩ : ∃ f', f = f' + 1 := ⟨f - 1, by omega⟩
    have hrest := pElems_toks (y :: r) f' rest (by simp) (by simp [wfL, hw.2]) (by simp only [costL]; omega)
    obtain ⟨t, tl, ht, ho⟩ := toks_head y
    have hx := pExp_toks x f' (tComma :: (toksElems (y :: r) ++ tRB :: rest)) hw.1 (by omega) (noDot_comma _)
    rw [toksElems, normL, List.append_assoc, List.cons_append]
    have hsh : toksElems (y :: r) ++ tRB :: rest = t :: (tl ++ tComma :: toksElems r ++ tRB :: rest) := by
      simp [toksElems, ht]
    rw [hsh] at hx hrest ⊢
    exact pElems_more _ _ _ _ _ _ _ hx ho hrest
theorem pKVs_toks : ∀ (kvs : List (Bytes × Exp)) (f : Nat) (rest : List Tok), kvs ≠ [] → wfKV false kvs = true →
    costKV kvs ≤ f → pKVs f (toksKVs kvs ++ tRC :: rest) = some (normKV kvs, tRC :: rest)
  | [], _, _, hne, _, _ => absurd rfl hne
  | [(k, v)], f, rest, _, hw, hf => by
    simp only [wfKV, Bool.and_true, Bool.and_eq_true, Bool.false_eq_true, ↓reduceIte] at hw
    simp only [costKV] at hf
    obtain ⟨f', rfl⟩ : ∃ f', f = f' + 1 := ⟨f - 1, by omega⟩
    have hx := pExp_toks v f' (tComma :: tRC :: rest) hw.2 (by omega) (noDot_comma _)
    simp only [toksKVs, normKV, List.append_assoc, List.cons_append, List.nil_append]
    exact pKVs_last _ _ _ _ _ _ (unquote_key k hw.1) hx
  | (k, v) :: (k2, v2) :: r, f, rest, _, hw, hf => by
    simp only [wfKV, Bool.and_eq_true, Bool.false_eq_true, ↓reduceIte] at hw
    simp only [costKV] at hf
    obtain ⟨f', rfl⟩ : ∃ f', f = f' + 1 := ⟨f - 1, by omega⟩
    have hrest := pKVs_toks ((k2, v2) :: r) f' rest (by simp)
      (by simp [wfKV, hw.2.1.1, hw.2.1.2, hw.2.2]) (by simp only [costKV]; omega)
    have hx := pExp_toks v f' (tComma :: (toksKVs ((k2, v2) :: r) ++ tRC :: rest)) hw.1.2 (by omega) (noDot_comma _)
    rw [toksKVs, normKV, List.cons_append, List.cons_append, List.append_assoc, List.cons_append]
    rw [toksKVs, List.cons_append] at hx hrest
    exact pKVs_more _ _ _ _ _ _ _ _ _ (unquote_key k hw.1.1) hx (opens_str _) hrest
theorem pFields_toks : ∀ (kvs : List (Bytes × Exp)) (f : Nat) (rest : List Tok), kvs ≠ [] → wfKV true kvs = true →
    costKV kvs ≤ f → pFields f (toksFields kvs ++ tRC :: rest) = some (normKV kvs, tRC :: rest)
  | [], _, _, hne, _, _ => absurd rfl hne
  | [(k, v)], f, rest, _, hw, hf => by
    simp only [wfKV, Bool.and_true, Bool.and_eq_true, ↓reduceIte] at hw
    simp only [costKV] at hf
    obtain ⟨f', rfl⟩ : ∃ f', f = f' + 1 := ⟨f - 1, by omega⟩
    have hx := pExp_toks v f' (tComma :: tRC :: rest) hw.2 (by omega) (noDot_comma _)
    simp only [toksFields, normKV, List.append_assoc, List.cons_append, List.nil_append]
    exact pFields_last _ _ _ _ _ hx
  | (k, v) :: (k2, v2) :: r, f, rest, _, hw, hf => by
    simp only [wfKV, Bool.and_eq_true, ↓reduceIte] at hw
    simp only [costKV] at hf
    obtain ⟨f', rfl⟩ : ∃ f', f = f' + 1 := ⟨f - 1, by omega⟩
    have hrest := pFields_toks ((k2, v2) :: r) f' rest (by simp)
      (by simp [wfKV, hw.2.1.1, hw.2.1.2, hw.2.2]) (by simp only [costKV]; omega)
    have hx := pExp_toks v f' (tComma :: (toksFields ((k2, v2) :: r) ++ tRC :: rest)) hw.1.2 (by omega) (noDot_comma _)
    rw [toksFields, normKV, List.cons_append, List.cons_append, List.append_assoc, List.cons_append]
    rw [toksFields, List.cons_append] at hx hrest
    exact pFields_more _ _ _ _ _ _ _ _ hx (opens_id _) hrest
end

end Martian.FormatExp
