/-
C13 `shape_preserved`: the recursive shape relation between a value and its
rewritten form, and the proof that the (repaired, dimension-aware) recursion
satisfies it for every type, value and file system.
-/
import Martian.PostProcess
import Martian.PostProcessDefs
import Proofs.PostProcess

namespace Martian.PostProcess

theorem All2.length_eq {R : J → J → Prop} {xs ys : List J} (h : All2 R xs ys) :
    ys.length = xs.length := by
  induction h with
  | nil => rfl
  | cons _ _ ih => simp [ih]

theorem mapIdx_forall₂ (Q : J → J → Prop) (f : Nat → J → FS → J × FS)
    (hf : ∀ i x fs, Q x (f i x fs).1) (i : Nat) (xs : List J) (fs : FS) :
    All2 Q xs (mapIdx f i xs fs).1 := by
  induction xs generalizing i fs with
  | nil => exact All2.nil
  | cons x xs ih => exact All2.cons (hf i x fs) (ih _ _)

theorem arrLevel_shapeArr (R : J → J → Prop) (h : Handler)
    (hR : ∀ id on v o fs, R v (h id on v o fs).1) (k : Nat) (v : J) (o : Path) (fs : FS) :
    ShapeArr R k v (arrLevel true h k v o fs).1 := by
  induction k generalizing v o fs with
  | zero =>
    cases v with
    | arr xs => exact ⟨_, rfl, mapIdx_forall₂ R _ (fun i x fs => hR _ _ _ _ _) 0 xs fs⟩
    | null => rfl
    | lit s => rfl
    | str s => rfl
    | obj kvs => rfl
  | succ k ih =>
    cases v with
    | arr xs =>
      refine ⟨_, rfl, mapIdx_forall₂ (ShapeArr R k) _ (fun i x fs => ?_) 0 xs fs⟩
      cases x with
      | null => cases k <;> rfl
      | arr ys => exact ih _ _ _
      | lit s => exact ih _ _ _
      | str s => exact ih _ _ _
      | obj kvs => exact ih _ _ _
    | null => rfl
    | lit s => rfl
    | str s => rfl
    | obj kvs => rfl

theorem mapLevel_shapeMap (R : J → J → Prop) (h : Handler)
    (hR : ∀ id on v o fs, R v (h id on v o fs).1) (v : J) (o : Path) (fs : FS) :
    ShapeMap R v (mapLevel h v o fs).1 := by
  cases v with
  | obj kvs =>
    refine ⟨_, rfl, mapKeys_keys _ _ _, ?_⟩
    intro kv hkv
    obtain ⟨fs', hfs⟩ := mapKeys_vals _ _ _ kv hkv
    rw [hfs]
    exact hR _ _ _ _ _
  | null => rfl
  | lit s => rfl
  | str s => rfl
  | arr xs => rfl

theorem structLevel_shapeStruct (RM : String → J → J → Prop) (hs : MemberHandlers)
    (hR : ∀ k v o fs, RM k v (memberHandler hs k v o fs).1) (v : J) (o : Path) (fs : FS) :
    ShapeStruct RM (hs.map Prod.fst) v (structLevel hs v o fs).1 := by
  cases v with
  | obj kvs =>
    cases kvs with
    | nil => rfl
    | cons kv kvs =>
      refine ⟨_, rfl, mapKeys_keys _ _ _, ?_⟩
      intro kv' hkv
      obtain ⟨fs', hfs⟩ := mapKeys_vals _ _ _ kv' hkv
      rw [hfs]
      exact hR _ _ _ _
  | null => rfl
  | lit s => rfl
  | str s => rfl
  | arr xs => rfl

mutual
theorem handler_shape (ps : Path) (ty : Ty) (id on : String) (v : J) (outs : Path) (fs : FS) :
    Shape ty v (handler true ps ty id on v outs fs).1 := by
  cases ty with
  | scalar => simp [handler, Shape]
  | file ext =>
    simp only [Shape]
    cases v with
    | null => exact Or.inl rfl
    | lit s => exact moveOutFile_shape ps outs _ _ fs
    | str s => exact moveOutFile_shape ps outs _ _ fs
    | arr xs => exact moveOutFile_shape ps outs _ _ fs
    | obj kvs => exact moveOutFile_shape ps outs _ _ fs
  | arr e k =>
    simp only [Shape]
    cases he : hasFile e with
    | false => simp [handler, he]
    | true =>
      have hR : ∀ id on v o fs, Shape e v (handler true ps e id on v o fs).1 :=
        fun id on v o fs => handler_shape ps e id on v o fs
      have := fun v => arrLevel_shapeArr (Shape e) (handler true ps e) hR k v
        (outs ++ [outFilename (.arr e k) id on]) fs
      cases v with
      | null => simp [handler, he]; cases k <;> rfl
      | lit s => simpa [handler, he] using this (.lit s)
      | str s => simpa [handler, he] using this (.str s)
      | arr xs => simpa [handler, he] using this (.arr xs)
      | obj kvs => simpa [handler, he] using this (.obj kvs)
  | tmap e =>
    simp only [Shape]
    cases he : hasFile e with
    | false => simp [handler, he]
    | true =>
      have hR : ∀ id on v o fs, Shape e v (handler true ps e id on v o fs).1 :=
        fun id on v o fs => handler_shape ps e id on v o fs
      have := fun v => mapLevel_shapeMap (Shape e) (handler true ps e) hR v
        (outs ++ [outFilename (.tmap e) id on]) fs
      cases v with
      | null => simp [handler, he]; rfl
      | lit s => simpa [handler, he] using this (.lit s)
      | str s => simpa [handler, he] using this (.str s)
      | arr xs => simpa [handler, he] using this (.arr xs)
      | obj kvs => simpa [handler, he] using this (.obj kvs)
  | struct ms =>
    simp only [Shape]
    cases he : hasFileMs ms with
    | false => simp [handler, he]
    | true =>
      have hR : ∀ k v o fs, ShapeMs ms k v (memberHandler (handlersMs true ps ms) k v o fs).1 :=
        fun k v o fs => handlersMs_shape ps ms k v o fs
      have := fun v => structLevel_shapeStruct (ShapeMs ms) (handlersMs true ps ms) hR v
        (outs ++ [outFilename (.struct ms) id on]) fs
      rw [handlersMs_keys] at this
      cases v with
      | null => simp [handler, he]; rfl
      | lit s => simpa [handler, he] using this (.lit s)
      | str s => simpa [handler, he] using this (.str s)
      | arr xs => simpa [handler, he] using this (.arr xs)
      | obj kvs => simpa [handler, he] using this (.obj kvs)
theorem handlersMs_shape (ps : Path) (ms : List (String × String × Ty)) (k : String) (v : J) (o : Path)
    (fs : FS) : ShapeMs ms k v (memberHandler (handlersMs true ps ms) k v o fs).1 := by
  cases ms with
  | nil => simp [handlersMs, memberHandler, ShapeMs]
  | cons m ms =>
    obtain ⟨id, on, t⟩ := m
    simp only [handlersMs, memberHandler, ShapeMs]
    by_cases hk : id = k
    · simp only [hk, if_true]
      exact handler_shape ps t k on v o fs
    · simp only [hk, if_false]
      exact handlersMs_shape ps ms k v o fs
end

/-! ## whole records and mapped top-level calls -/

theorem handleOuts_shape (ps : Path) (params : List (String × String × Ty)) (outs : List (String × J))
    (outsPath : Path) (fs : FS) :
    ShapeRec params outs (handleOuts true ps params outs outsPath fs).1 := by
  induction params generalizing fs with
  | nil => exact ⟨rfl, fun kv h => by simp [handleOuts] at h⟩
  | cons m rest ih =>
    obtain ⟨id, on, ty⟩ := m
    simp only [handleOuts]
    cases hl : lookupLast outs id with
    | none =>
      obtain ⟨h1, h2⟩ := ih fs
      refine ⟨by simpa [hl] using h1, fun kv hkv => ?_⟩
      obtain ⟨on', ty', v, hm, hv, hs⟩ := h2 kv hkv
      exact ⟨on', ty', v, List.mem_cons_of_mem _ hm, hv, hs⟩
    | some v =>
      obtain ⟨h1, h2⟩ := ih (moveOut true ps ty id on v outsPath fs).2
      refine ⟨by simpa [hl] using h1, fun kv hkv => ?_⟩
      simp only [List.mem_cons] at hkv
      rcases hkv with hkv | hkv
      · subst hkv
        exact ⟨on, ty, v, List.mem_cons_self, hl, handler_shape ps ty id on v outsPath fs⟩
      · obtain ⟨on', ty', v', hm, hv, hs⟩ := h2 kv hkv
        exact ⟨on', ty', v', List.mem_cons_of_mem _ hm, hv, hs⟩

theorem processStructOuts_shape (ps : Path) (params : List (String × String × Ty)) (x : J)
    (outsPath : Path) (fs : FS) :
    ShapeFork params x (processStructOuts true ps params x outsPath fs).1 := by
  refine ⟨_, rfl, ?_⟩
  cases x <;> exact handleOuts_shape ps params _ outsPath _

/-- top-level call mapped over an array: one record per fork, same number of forks -/
theorem postArray_shape (ps : Path) (params : List (String × String × Ty)) (outs : Path) (i : Nat)
    (xs : List J) (fs : FS) :
    All2 (ShapeFork params) xs (postArray true ps params outs i xs fs).1 := by
  induction xs generalizing i fs with
  | nil => exact All2.nil
  | cons x xs ih => exact All2.cons (processStructOuts_shape ps params x _ fs) (ih _ _)

/-- top-level call mapped over a typed map: the same fork keys in the same order, one record each -/
theorem postMap_shape (ps : Path) (params : List (String × String × Ty)) (outs : Path)
    (kvs : List (String × J)) (fs : FS) :
    (postMap true ps params outs kvs fs).1.map Prod.fst = kvs.map Prod.fst ∧
    All2 (ShapeFork params) (kvs.map Prod.snd) ((postMap true ps params outs kvs fs).1.map Prod.snd) := by
  induction kvs generalizing fs with
  | nil => exact ⟨rfl, All2.nil⟩
  | cons kv kvs ih =>
    obtain ⟨k, x⟩ := kv
    obtain ⟨h1, h2⟩ := ih (processStructOuts true ps params x (joinKey outs k) fs).2
    exact ⟨by simp [postMap, h1], All2.cons (processStructOuts_shape ps params x _ fs) h2⟩

end Martian.PostProcess
