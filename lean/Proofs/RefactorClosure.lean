/-
C19 — the side condition `RemInsOK` of the input-removal cascade is DERIVED from
the closure's own analysis (`leftoverInputs`): every cascaded pipeline input is
unreferenced inside its pipeline at the moment it is removed.
-/
import Proofs.RefactorGraphRem

namespace Proofs.RefactorGraph
open Martian.Refactor

/-! ### what a sequence of removals does to one callable -/

def foldF (R : List (String × String)) (c : Callable) : Callable :=
  R.foldl (fun c xq => FRem xq.1 xq.2 c) c

def foldB (R : List (String × String)) (k : Call) : Call :=
  R.foldl (fun k xq => dropB xq.1 xq.2 k) k

theorem removeInputs_eq (R : List (String × String)) : ∀ p : Program,
    removeInputs R p = ⟨p.callables.map (foldF R), p.top.map (foldB R)⟩ := by
  induction R with
  | nil =>
    intro p
    have h1 : foldF [] = id := rfl
    have h2 : foldB [] = id := rfl
    cases p with
    | mk cs t => simp [removeInputs, h1, h2]
  | cons xq R ih =>
    intro p
    have : removeInputs (xq :: R) p = removeInputs R (removeInputOne xq.1 xq.2 p) := rfl
    rw [this, ih, removeInputOne_eq]
    simp only [List.map_map, Option.map_map]
    rfl

theorem removeInputs_append (R : List (String × String)) (x q : String) (p : Program) :
    removeInputs (R ++ [(x, q)]) p = removeInputOne x q (removeInputs R p) := by
  simp [removeInputs, List.foldl_append]

theorem removeFirstBind_sublist (q : String) (bs : List Bind) : (removeFirstBind q bs).Sublist bs := by
  induction bs with
  | nil => exact List.Sublist.slnil
  | cons b t ih =>
    simp only [removeFirstBind]
    split
    · exact List.Sublist.cons _ (List.Sublist.refl _)
    · exact List.Sublist.cons_cons _ ih

theorem removeFirstBind_no (q : String) (bs : List Bind) (hnd : (bs.map (·.name)).Nodup) :
    ∀ b ∈ removeFirstBind q bs, b.name ≠ q := by
  induction bs with
  | nil => intro b hb; cases hb
  | cons a t ih =>
    simp only [List.map_cons, List.nodup_cons] at hnd
    intro b hb
    simp only [removeFirstBind] at hb
    split at hb
    · rename_i ha
      intro e
      exact hnd.1 (ha ▸ e ▸ List.mem_map.mpr ⟨b, hb, rfl⟩)
    · rename_i ha
      cases hb with
      | head => exact ha
      | tail _ h => exact ih hnd.2 b h

/-- `k` is call `k0` with some bindings removed -/
def CallLe (k k0 : Call) : Prop := k.id = k0.id ∧ k.decId = k0.decId ∧ k.binds.Sublist k0.binds

theorem CallLe.refl (k : Call) : CallLe k k := ⟨rfl, rfl, List.Sublist.refl _⟩

theorem CallLe.trans {a b c : Call} (h1 : CallLe a b) (h2 : CallLe b c) : CallLe a c :=
  ⟨h1.1.trans h2.1, h1.2.1.trans h2.2.1, h1.2.2.trans h2.2.2⟩

theorem dropB_le (x q : String) (k : Call) : CallLe (dropB x q k) k := by
  unfold dropB
  split
  · exact ⟨rfl, rfl, removeFirstBind_sublist q k.binds⟩
  · exact CallLe.refl k

theorem foldB_le (R : List (String × String)) : ∀ k : Call, CallLe (foldB R k) k := by
  induction R with
  | nil => intro k; exact CallLe.refl k
  | cons xq R ih =>
    intro k
    exact (ih (dropB xq.1 xq.2 k)).trans (dropB_le _ _ k)

/-- `c` is callable `c0` with some inputs and call bindings removed -/
def CalLe (c c0 : Callable) : Prop :=
  c.name = c0.name ∧ c.isPipe = c0.isPipe ∧ c.ret.Sublist c0.ret ∧ c.retain.Sublist c0.retain
  ∧ (callIds c).Sublist (callIds c0)
  ∧ ∀ k ∈ c.calls, ∃ k0 ∈ c0.calls, CallLe k k0

theorem CalLe.refl (c : Callable) : CalLe c c :=
  ⟨rfl, rfl, List.Sublist.refl _, List.Sublist.refl _, List.Sublist.refl _, fun k hk => ⟨k, hk, CallLe.refl k⟩⟩

theorem CalLe.trans {a b c : Callable} (h1 : CalLe a b) (h2 : CalLe b c) : CalLe a c := by
  refine ⟨h1.1.trans h2.1, h1.2.1.trans h2.2.1, h1.2.2.1.trans h2.2.2.1, h1.2.2.2.1.trans h2.2.2.2.1,
    h1.2.2.2.2.1.trans h2.2.2.2.2.1, ?_⟩
  intro k hk
  obtain ⟨k1, hk1, hle1⟩ := h1.2.2.2.2.2 k hk
  obtain ⟨k0, hk0, hle0⟩ := h2.2.2.2.2.2 k1 hk1
  exact ⟨k0, hk0, hle1.trans hle0⟩

theorem FRem_le (x q : String) (c : Callable) : CalLe (FRem x q c) c := by
  refine ⟨rfl, rfl, List.Sublist.refl _, List.Sublist.refl _, ?_, ?_⟩
  · have : callIds (FRem x q c) = callIds c := by
      simp only [callIds, FRem]
      split
      · rw [List.map_map]
        apply List.map_congr_left
        intro k _
        exact (dropB_le x q k).1
      · rfl
    rw [this]
    exact List.Sublist.refl _
  · intro k hk
    simp only [FRem] at hk
    split at hk
    · obtain ⟨k0, hk0, rfl⟩ := List.mem_map.mp hk
      exact ⟨k0, hk0, dropB_le x q k0⟩
    · exact ⟨k, hk, CallLe.refl k⟩

theorem foldF_le (R : List (String × String)) : ∀ c : Callable, CalLe (foldF R c) c := by
  induction R with
  | nil => intro c; exact CalLe.refl c
  | cons xq R ih =>
    intro c
    exact (ih (FRem xq.1 xq.2 c)).trans (FRem_le _ _ c)

/-- the bindings named `q` of the calls of `x` are gone after `(x, q)` was processed,
and stay gone -/
theorem foldF_removed (R : List (String × String)) (x q : String) (hmem : (x, q) ∈ R) :
    ∀ c : Callable, c.isPipe = true →
      (∀ k ∈ c.calls, (k.binds.map (·.name)).Nodup) →
      ∀ k ∈ (foldF R c).calls, k.decId = x → ∀ b ∈ k.binds, b.name ≠ q := by
  induction R with
  | nil => cases hmem
  | cons e R ih =>
    intro c hp hnd k hk hdec b hb
    have hstep : ∀ k1 ∈ (FRem e.1 e.2 c).calls, (k1.binds.map (·.name)).Nodup := by
      intro k1 hk1
      obtain ⟨k0, hk0, hle⟩ := (FRem_le e.1 e.2 c).2.2.2.2.2 k1 hk1
      exact List.Nodup.sublist (hle.2.2.map _) (hnd k0 hk0)
    cases hmem with
    | head =>
      -- removed by this step, kept out by the rest
      obtain ⟨k1, hk1, hle⟩ := (foldF_le R (FRem x q c)).2.2.2.2.2 k hk
      have hk1' : k1 ∈ c.calls.map (dropB x q) := by
        simpa [FRem, hp] using hk1
      obtain ⟨k0, hk0, rfl⟩ := List.mem_map.mp hk1'
      have hd0 : k0.decId = x := by
        rw [← hdec, hle.2.1]; exact (dropB_le x q k0).2.1.symm
      have hb1 : b ∈ (dropB x q k0).binds := hle.2.2.subset hb
      simp only [dropB, hd0, if_true] at hb1
      exact removeFirstBind_no q k0.binds (hnd k0 hk0) b hb1
    | tail _ h =>
      exact ih h (FRem e.1 e.2 c) hp hstep k hk hdec b hb

/-! ### the closure: every element is a seed or was produced by an earlier element -/

abbrev Pair := String × String

def moreOf (p : Program) (xq : Pair) : List Pair :=
  (p.callables.filter (·.isPipe)).flatMap
    (fun pipe => (leftoverInputs p xq.1 xq.2 pipe).map (fun i => (pipe.name, i)))

def Good (p : Program) (seeds : List Pair) (L : List Pair) : Prop :=
  ∀ j (h : j < L.length), L[j] ∈ seeds ∨ ∃ e' ∈ L.take j, L[j] ∈ moreOf p e'

theorem good_snoc (p : Program) (seeds : List Pair) (done : List Pair) (e : Pair)
    (hg : Good p seeds done) (he : e ∈ seeds ∨ ∃ e' ∈ done, e ∈ moreOf p e') :
    Good p seeds (done ++ [e]) := by
  intro j hj
  by_cases hlt : j < done.length
  · have h1 : (done ++ [e])[j] = done[j] := List.getElem_append_left hlt
    have h2 : (done ++ [e]).take j = done.take j := by
      rw [List.take_append_of_le_length (Nat.le_of_lt hlt)]
    rw [h1, h2]
    exact hg j hlt
  · have hj' : j = done.length := by
      simp only [List.length_append, List.length_singleton] at hj
      omega
    subst hj'
    have h1 : (done ++ [e])[done.length] = e := by simp
    have h2 : (done ++ [e]).take done.length = done := by simp
    rw [h1, h2]
    exact he

theorem closure_good (p : Program) (seeds : List Pair) : ∀ (fuel : Nat) (work done : List Pair),
    Good p seeds done → (∀ e ∈ work, e ∈ seeds ∨ ∃ e' ∈ done, e ∈ moreOf p e') →
    Good p seeds (removeInputClosure p fuel work done) := by
  intro fuel
  induction fuel with
  | zero => intro work done hg _; simpa [removeInputClosure] using hg
  | succ fuel ih =>
    intro work done hg hw
    cases work with
    | nil => simpa [removeInputClosure] using hg
    | cons e work =>
      obtain ⟨x, q⟩ := e
      simp only [removeInputClosure]
      split
      · exact ih work done hg (fun e he => hw e (List.mem_cons_of_mem _ he))
      · apply ih
        · exact good_snoc p seeds done (x, q) hg (hw (x, q) (List.mem_cons_self ..))
        · intro e he
          rcases List.mem_append.mp he with h | h
          · exact Or.inr ⟨(x, q), by simp, h⟩
          · rcases hw e (List.mem_cons_of_mem _ h) with h' | ⟨e', he', hm⟩
            · exact Or.inl h'
            · exact Or.inr ⟨e', List.mem_append_left _ he', hm⟩

/-! ### an input that the analysis found left over is unreferenced once its cause is gone -/

theorem mem_compiledBinds (p : Program) (pipe : Callable) (k : Call) (hns : noStar k.binds = true)
    (b : Bind) (hb : b ∈ k.binds) : b ∈ compiledBinds p pipe k := by
  unfold compiledBinds
  have hf : k.binds.find? (·.name == "*") = none := by
    rw [List.find?_eq_none]
    intro b' hb'
    have := (List.all_eq_true.mp hns) b' hb'
    simpa using this
  rw [hf]
  simp only
  unfold withMaster
  split
  · exact hb
  · apply List.mem_flatMap.mpr
    refine ⟨b, hb, ?_⟩
    split <;> simp

theorem refs_self_mem (q : String) (e : Exp) (r : Ref) (hr : r ∈ refs e) (hs : selfRefTo q r = true) :
    q ∈ refIds RefKind.self e := by
  simp only [selfRefTo, Bool.and_eq_true, beq_iff_eq] at hs
  unfold refIds
  apply List.mem_map.mpr
  exact ⟨r, List.mem_filter.mpr ⟨hr, by simp [hs.1]⟩, hs.2⟩

theorem graphRefs_le (c c0 : Callable) (h : CalLe c c0) : ∀ r ∈ graphRefs c, r ∈ graphRefs c0 := by
  intro r hr
  unfold graphRefs at hr ⊢
  rcases List.mem_append.mp hr with hr | hr
  · rcases List.mem_append.mp hr with hr | hr
    · obtain ⟨k, hk, hr⟩ := List.mem_flatMap.mp hr
      obtain ⟨b, hb, hr⟩ := List.mem_flatMap.mp hr
      obtain ⟨k0, hk0, hle⟩ := h.2.2.2.2.2 k hk
      apply List.mem_append_left; apply List.mem_append_left
      exact List.mem_flatMap.mpr ⟨k0, hk0, List.mem_flatMap.mpr ⟨b, hle.2.2.subset hb, hr⟩⟩
    · apply List.mem_append_left; apply List.mem_append_right
      obtain ⟨b, hb, hr⟩ := List.mem_flatMap.mp hr
      exact List.mem_flatMap.mpr ⟨b, h.2.2.1.subset hb, hr⟩
  · apply List.mem_append_right
    exact h.2.2.2.1.subset hr

/-- the core step: `q ∈ leftoverInputs p x' q' pipe`, and in `c ≤ pipe` the calls of
`x'` no longer have a binding named `q'`: nothing in `c` refers to `self.q` -/
theorem leftover_unreferenced (p : Program) (pipe c : Callable) (x' q' q : String)
    (hq : q ∈ leftoverInputs p x' q' pipe) (hle : CalLe c pipe)
    (hns : ∀ k ∈ pipe.calls, noStar k.binds = true)
    (hgone : ∀ k ∈ c.calls, k.decId = x' → ∀ b ∈ k.binds, b.name ≠ q') :
    ∀ r ∈ graphRefs c, selfRefTo q r = false := by
  intro r hr
  cases hs : selfRefTo q r with
  | false => rfl
  | true =>
    exfalso
    simp only [leftoverInputs, List.mem_filter, Bool.not_eq_true', List.contains_eq_mem,
      decide_eq_false_iff_not] at hq
    apply hq.2
    unfold graphRefs at hr
    rcases List.mem_append.mp hr with hr | hr
    · rcases List.mem_append.mp hr with hr | hr
      · -- a binding of a remaining call
        obtain ⟨k, hk, hr⟩ := List.mem_flatMap.mp hr
        obtain ⟨b, hb, hr⟩ := List.mem_flatMap.mp hr
        obtain ⟨k0, hk0, hkle⟩ := hle.2.2.2.2.2 k hk
        apply List.mem_append_right
        apply List.mem_flatMap.mpr
        refine ⟨k0, hk0, List.mem_append_left _ ?_⟩
        unfold bindsRefIds
        apply List.mem_flatMap.mpr
        refine ⟨b, ?_, refs_self_mem q b.exp r hr hs⟩
        apply List.mem_filter.mpr
        refine ⟨mem_compiledBinds p pipe k0 (hns k0 hk0) b (hkle.2.2.subset hb), ?_⟩
        by_cases hd : k0.decId = x'
        · have := hgone k hk (hkle.2.1.trans hd) b hb
          simp [hd, this]
        · simp [hd]
      · -- a return binding
        obtain ⟨b, hb, hr⟩ := List.mem_flatMap.mp hr
        apply List.mem_append_left; apply List.mem_append_left
        unfold bindsRefIds
        apply List.mem_flatMap.mpr
        exact ⟨b, hle.2.2.1.subset hb, refs_self_mem q b.exp r hr hs⟩
    · -- a retain
      apply List.mem_append_left; apply List.mem_append_right
      simp only [selfRefTo, Bool.and_eq_true, beq_iff_eq] at hs
      apply List.mem_map.mpr
      exact ⟨r, List.mem_filter.mpr ⟨hle.2.2.2.1.subset hr, by simp [hs.1]⟩, hs.2⟩

/-! ### assembly -/

theorem structOKc_parts {c : Callable} (h : structOKc c = true) :
    (c.isPipe = true ∨ c.calls = []) ∧ (callIds c).Nodup
    ∧ (∀ k ∈ c.calls, noStar k.binds = true ∧ (k.binds.map (·.name)).Nodup)
    ∧ noStar c.ret = true := by
  simp only [structOKc, Bool.and_eq_true, Bool.or_eq_true, List.all_eq_true, decide_eq_true_eq,
    List.isEmpty_iff] at h
  exact ⟨h.1.1.1, h.1.1.2, h.1.2, h.2⟩

theorem noStar_sublist {a b : List Bind} (h : a.Sublist b) (hb : noStar b = true) : noStar a = true := by
  simp only [noStar, List.all_eq_true] at hb ⊢
  exact fun x hx => hb x (h.subset hx)

/-- the structural part of `pipeOKRem` survives any sequence of removals -/
theorem pipeOKRem_of_le (x q : String) (c c0 : Callable) (hle : CalLe c c0) (hs : structOKc c0 = true)
    (hsem : c.name = x → ∀ r ∈ graphRefs c, selfRefTo q r = false) :
    pipeOKRem x q c = true := by
  have hp := structOKc_parts hs
  simp only [pipeOKRem, Bool.and_eq_true, Bool.or_eq_true, List.all_eq_true, decide_eq_true_eq,
    bne_iff_ne, ne_eq, List.isEmpty_iff, Bool.not_eq_true']
  refine ⟨⟨⟨⟨⟨?_, ?_⟩, ?_⟩, ?_⟩, ?_⟩, ?_⟩
  · cases hp.1 with
    | inl h => exact Or.inl (hle.2.1.trans h)
    | inr h =>
      right
      have h0 : callIds c0 = [] := by simp [callIds, h]
      have : callIds c = [] := List.eq_nil_of_sublist_nil (h0 ▸ hle.2.2.2.2.1)
      simpa [callIds] using this
  · exact List.Nodup.sublist hle.2.2.2.2.1 hp.2.1
  · intro k hk
    obtain ⟨k0, hk0, hkle⟩ := hle.2.2.2.2.2 k hk
    exact noStar_sublist hkle.2.2 (hp.2.2.1 k0 hk0).1
  · exact noStar_sublist hle.2.2.1 hp.2.2.2
  · by_cases hn : c.name = x
    · exact Or.inr (hsem hn)
    · exact Or.inl hn
  · intro k hk
    obtain ⟨k0, hk0, hkle⟩ := hle.2.2.2.2.2 k hk
    exact Or.inr (List.Nodup.sublist (hkle.2.2.map _) (hp.2.2.1 k0 hk0).2)

theorem eq_of_name_eq (p : Program) (hnd : (p.callables.map (·.name)).Nodup) (a b : Callable)
    (ha : a ∈ p.callables) (hb : b ∈ p.callables) (h : a.name = b.name) : a = b := by
  generalize p.callables = l at hnd ha hb
  induction l with
  | nil => cases ha
  | cons e t ih =>
    simp only [List.map_cons, List.nodup_cons] at hnd
    cases ha with
    | head =>
      cases hb with
      | head => rfl
      | tail _ hb => exact absurd (List.mem_map.mpr ⟨b, hb, h.symm⟩) hnd.1
    | tail _ ha =>
      cases hb with
      | head => exact absurd (List.mem_map.mpr ⟨a, ha, h⟩) hnd.1
      | tail _ hb => exact ih hnd.2 ha hb

/-- `p'` is `p` after an edit that only removes things -/
def ProgLe (p' p : Program) : Prop :=
  (∀ c' ∈ p'.callables, ∃ c0 ∈ p.callables, CalLe c' c0)
  ∧ (∀ t', p'.top = some t' → ∃ t, p.top = some t ∧ CallLe t' t)

theorem ProgLe.refl (p : Program) : ProgLe p p :=
  ⟨fun c hc => ⟨c, hc, CalLe.refl c⟩, fun t ht => ⟨t, ht, CallLe.refl t⟩⟩

theorem topPipe_le (t' t : Call) (h : CallLe t' t) : CalLe (topPipe t') (topPipe t) := by
  refine ⟨rfl, rfl, List.Sublist.refl _, List.Sublist.refl _, ?_, ?_⟩
  · simp [callIds, topPipe, h.1]
  · intro k hk
    simp only [topPipe, List.mem_singleton] at hk
    subst hk
    exact ⟨t, by simp [topPipe], h⟩

/-- the closure is computed on `p`, the removals are applied to `p' ≤ p` (the program
after the calls / outputs that triggered the cascade are gone) -/
theorem remInsOK_of_good (p p' : Program) (hs : StructOK p = true) (hpl : ProgLe p' p) (seeds : List Pair)
    (hseeds : ∀ s ∈ seeds, seedOK s.1 s.2 p' = true) :
    ∀ (L R : List Pair), Good p seeds (R ++ L) → RemInsOK L (removeInputs R p') = true := by
  simp only [StructOK, Bool.and_eq_true, decide_eq_true_eq, List.all_eq_true, bne_iff_ne, ne_eq] at hs
  obtain ⟨⟨hnd, hall⟩, htop⟩ := hs
  intro L
  induction L with
  | nil => intro R _; rfl
  | cons xq L ih =>
    intro R hg
    obtain ⟨x, q⟩ := xq
    simp only [RemInsOK, Bool.and_eq_true]
    refine ⟨?_, ?_⟩
    · -- the step itself
      have hj := hg R.length (by simp)
      have h1 : (R ++ (x, q) :: L)[R.length]'(by simp) = (x, q) := by simp
      have h2 : (R ++ (x, q) :: L).take R.length = R := by simp
      rw [h1, h2] at hj
      have hx : x ≠ "" := by
        rcases hj with hsd | ⟨e', _, hm⟩
        · have := hseeds _ hsd
          simp only [seedOK, Bool.and_eq_true, bne_iff_ne, ne_eq] at this
          exact this.1
        · simp only [moreOf, List.mem_flatMap, List.mem_filter, List.mem_map, Prod.mk.injEq] at hm
          obtain ⟨pipe, ⟨hpm, _⟩, i, _, hn, _⟩ := hm
          rw [← hn]; exact (hall pipe hpm).1
      have hsem : ∀ c' ∈ p'.callables, (foldF R c').name = x →
          ∀ r ∈ graphRefs (foldF R c'), selfRefTo q r = false := by
        intro c' hc' hn
        obtain ⟨c0, hc0, hc'le⟩ := hpl.1 c' hc'
        have hle := foldF_le R c'
        have hn' : c'.name = x := hle.1 ▸ hn
        rcases hj with hsd | ⟨e', he', hm⟩
        · intro r hr
          have := hseeds _ hsd
          simp only [seedOK, Bool.and_eq_true, bne_iff_ne, ne_eq, List.all_eq_true, Bool.or_eq_true,
            Bool.not_eq_true'] at this
          cases this.2 c' hc' with
          | inl h => exact absurd hn' h
          | inr h => exact h r (graphRefs_le _ _ hle r hr)
        · simp only [moreOf, List.mem_flatMap, List.mem_filter, List.mem_map, Prod.mk.injEq] at hm
          obtain ⟨pipe, ⟨hpm, hpp⟩, i, hi, hpn, hiq⟩ := hm
          subst hiq
          have hc0p : c0 = pipe := eq_of_name_eq p hnd c0 pipe hc0 hpm ((hc'le.1.symm.trans hn').trans hpn.symm)
          subst hc0p
          have hps := structOKc_parts (hall c0 hc0).2
          have hnd' : ∀ k ∈ c'.calls, (k.binds.map (·.name)).Nodup := by
            intro k hk
            obtain ⟨k0, hk0, hkle⟩ := hc'le.2.2.2.2.2 k hk
            exact List.Nodup.sublist (hkle.2.2.map _) (hps.2.2.1 k0 hk0).2
          exact leftover_unreferenced p c0 (foldF R c') e'.1 e'.2 i hi (hle.trans hc'le)
            (fun k hk => (hps.2.2.1 k hk).1)
            (foldF_removed R e'.1 e'.2 he' c' (hc'le.2.1.trans hpp) hnd')
      simp only [RemInOK, Bool.and_eq_true, bne_iff_ne, ne_eq, List.all_eq_true]
      rw [removeInputs_eq]
      refine ⟨⟨hx, ?_⟩, ?_⟩
      · intro c hc
        obtain ⟨c', hc', rfl⟩ := List.mem_map.mp hc
        obtain ⟨c0, hc0, hc'le⟩ := hpl.1 c' hc'
        exact pipeOKRem_of_le x q _ c0 ((foldF_le R c').trans hc'le) (hall c0 hc0).2 (hsem c' hc')
      · cases ht' : p'.top with
        | none => simp
        | some t' =>
          obtain ⟨t, ht, htle⟩ := hpl.2 t' ht'
          simp only [Option.map_some]
          have hts : structOKc (topPipe t) = true := by simpa [ht] using htop
          have hle : CalLe (topPipe (foldB R t')) (topPipe t) :=
            topPipe_le _ _ ((foldB_le R t').trans htle)
          exact pipeOKRem_of_le x q _ _ hle hts (fun h => by simp [topPipe] at h; exact absurd h hx)
    · have := ih (R ++ [(x, q)]) (by simpa [List.append_assoc] using hg)
      rw [removeInputs_append] at this
      exact this

/-- **the cascade of `removeInput`**: on a structurally well-formed program, when
nothing inside `x` reads `self.q`, every step of the closure satisfies the side
condition of `remove_input_graph` -/
theorem closure_remInsOK (p : Program) (x q : String) (fuel : Nat) (hs : StructOK p = true)
    (hseed : seedOK x q p = true) :
    RemInsOK (removeInputClosure p fuel [(x, q)] []) p = true := by
  have hg := closure_good p [(x, q)] fuel [(x, q)] [] (by intro j hj; simp at hj)
    (by intro e he; exact Or.inl he)
  have := remInsOK_of_good p p hs (ProgLe.refl p) [(x, q)] (by intro s hs'; simp at hs'; subst hs'; exact hseed)
    (removeInputClosure p fuel [(x, q)] []) [] (by simpa using hg)
  simpa [removeInputs] using this

end Proofs.RefactorGraph
